#!/bin/sh
# Run every claimed check (quick tier) and print one line each.  usage: runall.sh [ids...]
cd /verif
IDS="${@:-$(cat checks/CLAIMED)}"
for i in $IDS; do
  out=$(./check $i 2>&1); rc=$?
  echo "$i rc=$rc $(echo "$out" | grep -v '^KNOWN' | tail -1 | cut -c1-200)"
  echo "$out" | grep '^VIOLATION' | head -3
done
