#!/bin/sh
# usage: seedstart.sh <ID> <n>  -> creates worktree /tmp/seed-<ID>-<n> and prompt /tmp/seedp-<ID>-<n>.txt
ID="$1"; N="${2:-1}"
WT=/tmp/seed-$ID-$N
git -C /repo worktree add --detach $WT HEAD -q
python3 /verif/lib/seed_prompt.py $ID $WT $N > /tmp/seedp-$ID-$N.txt
echo "/tmp/seedp-$ID-$N.txt"
