"""Shared machinery of ./check (see the docstring there and DESIGN.md §1)."""
import argparse, fcntl, glob, hashlib, json, os, re, shutil, subprocess, sys, time

VERIF = os.path.dirname(os.path.dirname(os.path.abspath(__file__)))
REPO = os.environ.get("VERIF_REPO", "/repo")
WORK = os.path.join(VERIF, ".work")
COQ = os.path.join(VERIF, "coq")
HARNESS = os.path.join(VERIF, "harness")
BIN = os.path.join(WORK, "bin", "harness")
ALT_MOD = os.path.join(WORK, "go.alt.mod")
REPLAYS = os.path.join(VERIF, ".replay")

GOENV = dict(os.environ, GOFLAGS="-mod=mod", GOPROXY="off", GOSUMDB="off", GOTOOLCHAIN="local",
             CGO_ENABLED="1")

GENERIC_TRUSTED = [
    "Coq 8.16.1 kernel and coqc (full .vo build, no -vos); vm_compute used for case evaluation, finite sweeps and refutation witnesses; native_compute not used",
    "no Axiom/Parameter/Conjecture/Admitted in the development (grep'ed on every run); axioms per theorem as printed by Print Assumptions are listed under 'axioms'",
    "translator harness/gen (Go AST -> Gallina for integer expressions and linked constants; fails closed)",
    "correspondence harness (Go drivers, canonicalisation of observables, generators) and the in-Coq case evaluator",
]


def sh(cmd, cwd=None, timeout=None, env=None):
    """Run a command, return (rc, stdout+stderr, timed_out)."""
    try:
        p = subprocess.run(cmd, cwd=cwd, env=env or GOENV, stdout=subprocess.PIPE, stderr=subprocess.STDOUT,
                           timeout=timeout, text=True, errors="replace")
        return p.returncode, p.stdout, False
    except subprocess.TimeoutExpired as e:
        out = e.stdout if isinstance(e.stdout, str) else (e.stdout or b"").decode("utf8", "replace")
        return 124, out, True


class Lock:
    def __init__(self, name):
        os.makedirs(WORK, exist_ok=True)
        self.path = os.path.join(WORK, name)

    def __enter__(self):
        self.f = open(self.path, "w")
        fcntl.flock(self.f, fcntl.LOCK_EX)
        return self

    def __exit__(self, *a):
        fcntl.flock(self.f, fcntl.LOCK_UN)
        self.f.close()


def load_meta(pid):
    p = os.path.join(VERIF, "checks", pid + ".json")
    with open(p) as f:
        return json.load(f)


def load_known(pid):
    out = []
    paths = [os.path.join(VERIF, "known_findings.json")] + sorted(glob.glob(os.path.join(VERIF, "known_findings.d", "*.json")))
    for p in paths:
        if not os.path.exists(p):
            continue
        with open(p) as f:
            data = json.load(f)
        out += [e for e in data.get("findings", []) if e.get("property") == pid]
    return out


def default_tags():
    """Build tags selecting the drivers of the claimed properties (checks/CLAIMED)."""
    p = os.path.join(VERIF, "checks", "CLAIMED")
    ids = open(p).read().split() if os.path.exists(p) else []
    return "verif " + " ".join(sorted(i.lower() for i in ids)) if ids else "verif all"


def build_harness(tags="verif all"):
    """Rebuild the harness binary against /repo's working tree."""
    os.makedirs(os.path.dirname(BIN), exist_ok=True)
    src = os.path.join(REPO, "go.sum")
    dst = os.path.join(HARNESS, "go.sum")
    try:
        if open(src, "rb").read() != open(dst, "rb").read():
            shutil.copy(src, dst)
    except FileNotFoundError:
        shutil.copy(src, dst)
    cmd = ["go", "build", "-tags", tags, "-o", bin_path(tags)]
    if REPO != "/repo":
        # development/mutation runs against a scratch worktree: same go.mod with the replace target changed
        mod = open(os.path.join(HARNESS, "go.mod")).read().replace("=> /repo", "=> " + REPO)
        with open(ALT_MOD, "w") as f:
            f.write(mod)
        shutil.copy(src, ALT_MOD[:-4] + ".sum")
        cmd += ["-modfile=" + ALT_MOD]
    rc, out, to = sh(cmd + ["."], cwd=HARNESS, timeout=1800)
    return rc == 0, out


def bin_path(tags):
    if tags == "verif all" or tags == default_tags():
        return BIN
    return BIN + "-" + re.sub(r'[^a-z0-9]+', "-", tags)


def run_gen(tags="verif all"):
    rc, out, to = sh([bin_path(tags), "gen", "-repo", REPO, "-out", os.path.join(COQ, "Gen")], timeout=600)
    if rc != 0:
        return None, out
    try:
        i = out.index("[")
        return json.loads(out[i:]), out
    except Exception:
        return None, out


def make_targets(targets, timeout=3000):
    rc, out, to = sh([os.path.join(COQ, "build.sh")] + targets, cwd=COQ, timeout=timeout)
    return rc == 0, out


def parse_coq_error(out):
    """Extract (file, line, message) of the first Coq error in make output."""
    m = re.search(r'File "([^"]+)", line (\d+), characters [\d-]+:\s*\nError:(.*?)(?:\n\n|\nmake|\Z)', out, re.S)
    if m:
        return {"file": m.group(1), "line": int(m.group(2)), "message": " ".join(m.group(3).split())[:1500]}
    return {"file": None, "line": None, "message": out[-1500:]}


def theorem_names(props_file):
    names = []
    with open(props_file) as f:
        for line in f:
            m = re.match(r'\s*(Theorem|Lemma|Corollary|Example|Fact)\s+([A-Za-z0-9_\']+)', line)
            if m:
                names.append(m.group(2))
    return names


def theorem_at(props_file, line):
    """Name of the theorem whose statement/proof contains `line`."""
    cur = None
    try:
        with open(props_file) as f:
            for i, l in enumerate(f, 1):
                m = re.match(r'\s*(Theorem|Lemma|Corollary|Example|Fact)\s+([A-Za-z0-9_\']+)', l)
                if m:
                    cur = m.group(2)
                if i >= line:
                    break
    except Exception:
        pass
    return cur


def print_assumptions(pid, meta, workdir):
    """Ask Coq for the axioms of each property theorem. Returns {theorem: 'closed' | [axioms]}."""
    mods = meta.get("props_modules", ["Props." + pid])
    names = []
    for m in mods:
        names += theorem_names(os.path.join(COQ, m.replace(".", "/") + ".v"))
    if not names:
        return {}
    src = "From Ont Require Import %s.\n" % " ".join(mods)
    for n in names:
        src += "Print Assumptions %s.\n" % n
    p = os.path.join(workdir, "assum.v")
    with open(p, "w") as f:
        f.write(src)
    rc, out, to = sh(["coqc", "-Q", COQ, "Ont", "assum.v"], cwd=workdir, timeout=600)
    res = {}
    if rc != 0:
        return {"_error": out[-800:]}
    blocks = re.split(r'^(?=Closed under the global context|Axioms:)', out, flags=re.M)
    blocks = [b for b in blocks if b.startswith("Closed") or b.startswith("Axioms:")]
    for n, b in zip(names, blocks):
        if b.startswith("Closed"):
            res[n] = "closed under the global context"
        else:
            ax = re.findall(r'^([A-Za-z0-9_\.\']+)\s*:', b, flags=re.M)
            res[n] = [a for a in ax if a != "Axioms"]
    return res


def forbidden_scan(only=None):
    """grep the development for declarations that would add an axiom or switch off a check."""
    bad = []
    pat = re.compile(r'\b(Admitted|admit|Axiom|Axioms|Parameter|Parameters|Conjecture|Unset Guard Checking|bypass_check|Admit Obligations|Unset Positivity Checking|Unset Universe Checking|native_compute)\b')
    for path in glob.glob(os.path.join(COQ, "**", "*.v"), recursive=True):
        if only and not (os.sep + "Lib" + os.sep in path or only in os.path.basename(path)):
            continue
        with open(path, errors="replace") as f:
            txt = f.read()
        # strip comments (non-nested approximation good enough for a scan: remove (* ... *) greedily by nesting)
        out, depth, i = [], 0, 0
        while i < len(txt):
            if txt.startswith("(*", i):
                depth += 1; i += 2; continue
            if txt.startswith("*)", i) and depth > 0:
                depth -= 1; i += 2; continue
            if depth == 0:
                out.append(txt[i])
            i += 1
        code = "".join(out)
        for m in pat.finditer(code):
            bad.append("%s: %s" % (os.path.relpath(path, COQ), m.group(1)))
        # Variable / Hypothesis / Context outside a Section declare an axiom-like global
        stack = []
        for sent in re.split(r'\.(?:\s|$)', code):
            t = sent.strip()
            m = re.match(r'(?:Local\s+|Global\s+|#\[[^\]]*\]\s*)*(Section|Module Type|Module)\s+([A-Za-z_][\w\']*)\s*(.*)$', t, re.S)
            if m and not (m.group(1) != "Section" and ":=" in m.group(3)):
                stack.append((m.group(1), m.group(2)))
                continue
            m = re.match(r'End\s+([A-Za-z_][\w\']*)$', t)
            if m and stack:
                stack.pop()
                continue
            m = re.match(r'(?:Local\s+|Global\s+|#\[[^\]]*\]\s*)*(Variables?|Hypothes[ie]s|Context)\b', t)
            if m and not any(k == "Section" for k, _ in stack):
                bad.append("%s: %s outside a Section" % (os.path.relpath(path, COQ), m.group(1)))
    return bad


def coq_eval_cases(workdir, timeout):
    """coqc cases.v; returns (ok, mismatch indices, raw output)."""
    cases = os.path.join(workdir, "cases.v")
    if not os.path.exists(cases):
        return True, [], "no cases"
    # long list literals (thorough tier) overflow coqc's default 8 MB stack: lift the limit for this call
    rc, out, to = sh(["sh", "-c", "ulimit -s unlimited 2>/dev/null || ulimit -s 1000000 2>/dev/null; exec coqc -Q '%s' Ont cases.v" % COQ], cwd=workdir, timeout=timeout)
    if rc != 0:
        return False, [], out[-3000:]
    mism = []
    for m in re.finditer(r'M_\d+\s*=\s*\[([^\]]*)\]', out):
        body = m.group(1).strip()
        if body:
            mism += [int(x) for x in re.findall(r'\d+', body)]
    return True, mism, out[-500:]


def case_meta(workdir, idxs):
    want = set(idxs)
    res = {}
    p = os.path.join(workdir, "cases.jsonl")
    if not os.path.exists(p):
        return res
    with open(p) as f:
        for line in f:
            try:
                r = json.loads(line)
            except Exception:
                continue
            if r.get("i") in want:
                res[r["i"]] = r.get("case")
                if len(res) == len(want):
                    break
    return res


REPLAY_MODE = False  # set by main(): a --replay run must not overwrite the files of the run it replays


def write_replay(pid, seed, n, record):
    os.makedirs(REPLAYS, exist_ok=True)
    p = os.path.join(REPLAYS, "%s-%s-%s%d.json" % (pid, seed, "r" if REPLAY_MODE else "", n))
    with open(p, "w") as f:
        json.dump(record, f, indent=1, default=str)
    return p


def coqchk(pid, meta, workdir):
    mods = ["Ont." + m for m in meta.get("props_modules", ["Props." + pid])]
    rc, out, to = sh(["coqchk", "-silent", "-o", "-Q", COQ, "Ont"] + mods, cwd=workdir, timeout=3000)
    return rc == 0, out[-4000:]


def main(argv):
    ap = argparse.ArgumentParser()
    ap.add_argument("id")
    ap.add_argument("--tier", default=os.environ.get("VERIF_TIER", "quick"), choices=["quick", "thorough"])
    ap.add_argument("--seed", type=int, default=int(os.environ.get("VERIF_SEED", "1") or 1))
    ap.add_argument("--replay", default="")
    ap.add_argument("--keep", action="store_true", help="keep the work directory")
    ap.add_argument("--tags", default=default_tags(), help="(development) harness build tags")
    ap.add_argument("--dev", action="store_true", help="(development) restrict the forbidden-vernacular scan to Lib/ and this property's files")
    a = ap.parse_args(argv)
    pid = a.id
    global REPLAY_MODE
    REPLAY_MODE = bool(a.replay)
    t0 = time.time()
    meta = load_meta(pid)
    known = load_known(pid)
    # one work directory per run, so that two runs of the same check cannot disturb each other
    workdir = os.path.join(WORK, "%s.%d" % (pid, os.getpid())) if not a.keep else os.path.join(WORK, pid)
    shutil.rmtree(workdir, ignore_errors=True)
    os.makedirs(workdir, exist_ok=True)

    broken = []      # broken ties / proofs: list of dicts {kind, name, detail}
    stages = {}
    gen_report = None
    build_ok = False
    corr_ok = False

    with Lock("build.lock"):
        ok, out = build_harness(a.tags)
        stages["harness_build"] = "ok" if ok else "failed"
        if not ok:
            broken.append({"kind": "harness-build", "name": "go build -tags verif (harness against /repo)", "detail": out[-2500:]})
        else:
            gen_report, out = run_gen(a.tags)
            if gen_report is None:
                broken.append({"kind": "translator", "name": "harness gen", "detail": out[-2500:]})
            else:
                mine = set(meta.get("gen_files", []))
                for r in gen_report:
                    if r["name"] in mine and r.get("errors"):
                        broken.append({"kind": "translator", "name": "Gen/" + r["name"], "detail": "; ".join(r["errors"])})
        targets = meta.get("coq_targets", ["Props/%s.vo" % pid, "Corr/%s.vo" % pid])
        ok2, mout = make_targets(targets)
        stages["coq_make"] = "ok" if ok2 else "failed"
        build_ok = ok2
        corr_ok = ok2
        if not ok2:
            # a proof obligation broke: the correspondence evaluator may still build on its own, and
            # its verdict on the recorded cases helps the search for a concrete failing input
            ctargets = [t for t in targets if t.startswith("Corr/")]
            if ctargets:
                corr_ok, _ = make_targets(ctargets)
                stages["coq_make_corr_only"] = "ok" if corr_ok else "failed"
            err = parse_coq_error(mout)
            thm = None
            if err["file"]:
                thm = theorem_at(os.path.join(COQ, err["file"].lstrip("./")), err["line"])
            broken.append({"kind": "proof", "name": "%s (%s line %s)" % (thm or "?", err["file"], err["line"]), "detail": err["message"]})

    forbidden = forbidden_scan(pid if a.dev else None)
    if forbidden:
        broken.append({"kind": "forbidden", "name": "axiom-introducing or check-disabling vernacular", "detail": "; ".join(forbidden[:20])})

    props_files = [os.path.join(COQ, m.replace(".", "/") + ".v") for m in meta.get("props_modules", ["Props." + pid])]
    obligations = []
    for pf in props_files:
        if os.path.exists(pf):
            obligations += theorem_names(pf)
    axioms = print_assumptions(pid, meta, workdir) if build_ok else {}

    # --- driver run (implementation side + oracle) ---
    result = None
    drv_out = ""
    if stages.get("harness_build") == "ok":
        tmo = meta.get("timeouts", {}).get(a.tier, 900 if a.tier == "quick" else 7200)
        cmd = [bin_path(a.tags), "run", "-repo", REPO, "-id", pid, "-seed", str(a.seed), "-tier", a.tier, "-out", workdir,
               "-corpus", os.path.join(VERIF, "corpus", pid)]
        if a.replay:
            cmd += ["-replay", os.path.abspath(a.replay)]
        rc, drv_out, to = sh(cmd, cwd=workdir, timeout=tmo)
        stages["driver"] = "ok" if rc == 0 else ("timeout" if to else "exit %d" % rc)
        rp = os.path.join(workdir, "result.json")
        if rc == 0 and os.path.exists(rp):
            with open(rp) as f:
                result = json.load(f)
        else:
            broken.append({"kind": "driver", "name": "driver %s ended abnormally (%s)" % (pid, stages["driver"]), "detail": drv_out[-3000:]})

    # --- model side ---
    mism = []
    if result is not None and corr_ok and result.get("coq_cases", 0) > 0:
        ok3, mism, cout = coq_eval_cases(workdir, meta.get("timeouts", {}).get("coq_" + a.tier, 3000))
        stages["coq_cases"] = "ok" if ok3 else "failed"
        if not ok3:
            broken.append({"kind": "correspondence", "name": "Corr.%s case evaluation" % pid, "detail": cout})
        elif mism:
            cm = case_meta(workdir, mism[:5])
            broken.append({"kind": "correspondence", "name": "Corr.%s: model and implementation disagree on %d of %d cases" % (pid, len(mism), result.get("coq_cases", 0)),
                           "detail": {"first_indices": mism[:20], "cases": cm}})

    # --- search step: replay the first disagreeing cases through the driver's oracle ---
    # A model/implementation disagreement names a concrete input; the driver (replay mode) runs its
    # direct property oracle on exactly that input, so a violation is reported with a failing input
    # where the oracle of the generating run did not look at that case. Best effort: a driver that
    # cannot read the case description as an input simply reports nothing here.
    if mism and result is not None and not a.replay and not (result.get("failures") or []):
        cm = case_meta(workdir, mism[:3])
        for k in sorted(cm.keys()):
            sub = os.path.join(workdir, "search%d" % k)
            os.makedirs(sub, exist_ok=True)
            rpf = os.path.join(sub, "in.json")
            with open(rpf, "w") as f:
                json.dump({"input": cm[k]}, f, default=str)
            cmd = [bin_path(a.tags), "run", "-repo", REPO, "-id", pid, "-seed", str(a.seed), "-tier", a.tier, "-out", sub,
                   "-corpus", os.path.join(VERIF, "corpus", pid), "-replay", rpf]
            try:
                rc, _o, _to = sh(cmd, cwd=sub, timeout=180)
                rp2 = os.path.join(sub, "result.json")
                if rc == 0 and os.path.exists(rp2):
                    with open(rp2) as f:
                        r2 = json.load(f)
                    for fl in (r2.get("failures") or []):
                        result.setdefault("failures", [])
                        result["failures"] = (result["failures"] or []) + [fl]
                        fc = result.setdefault("failure_counts", {})
                        fc[fl.get("class", "")] = fc.get(fl.get("class", ""), 0) + 1
                    stages["search_replay_case_%d" % k] = "%d failure(s)" % len(r2.get("failures") or [])
            except Exception as e:  # never let the search step break the verdict
                stages["search_replay_case_%d" % k] = "error: %s" % e

    # --- thorough: independent re-check of the compiled proofs ---
    chk = None
    if a.tier == "thorough" and build_ok and not a.replay:
        okc, cout = coqchk(pid, meta, workdir)
        chk = {"ok": okc, "tail": cout[-1500:]}
        if not okc:
            broken.append({"kind": "coqchk", "name": "coqchk on Props.%s" % pid, "detail": cout})

    # --- verdict ---
    lines = []
    violations = 0
    nrep = 0
    failures = (result or {}).get("failures") or []
    fail_counts = (result or {}).get("failure_counts") or {}
    seen_classes = set()
    known_open = {e["class"]: e for e in known if e.get("status", "open") == "open"}
    unlisted = []
    for f in failures:
        cls = f.get("class", "")
        if cls in seen_classes:
            continue
        seen_classes.add(cls)
        if cls in known_open:
            lines.append("KNOWN-FINDING: property=%s %s [class %s, %d occurrence(s) this run]" % (
                pid, known_open[cls].get("description", cls), cls, fail_counts.get(cls, 1)))
        else:
            unlisted.append(f)
    for f in unlisted[:8]:
        rec = {"property": pid, "driver": pid, "seed": a.seed, "tier": a.tier, "kind": "failing-input",
               "class": f.get("class"), "clause": f.get("clause"), "input": f.get("input"),
               "implementation": f.get("got"), "expected": f.get("want"),
               "broken_ties": broken}
        p = write_replay(pid, a.seed, nrep, rec); nrep += 1
        lines.append("VIOLATION property=%s replay=%s" % (pid, p))
        violations += 1
    if broken and not unlisted:
        rec = {"property": pid, "driver": pid, "seed": a.seed, "tier": a.tier, "kind": "no-failing-input-found",
               "broken": broken, "note": "a proof obligation, the translator or the model/implementation correspondence no longer checks; the oracle found no concrete failing input on the implementation"}
        # if the correspondence broke, make the first disagreeing case replayable
        for b in broken:
            if b["kind"] == "correspondence" and isinstance(b["detail"], dict) and b["detail"].get("cases"):
                k = sorted(b["detail"]["cases"].keys())[0]
                rec["input"] = b["detail"]["cases"][k]
                break
        p = write_replay(pid, a.seed, nrep, rec); nrep += 1
        lines.append("VIOLATION property=%s replay=%s no-failing-input-found" % (pid, p))
        violations += 1

    # --- evidence ---
    wall = time.time() - t0
    cov = {
        "obligations": len(obligations),
        "discharged": len(obligations) if build_ok else 0,
        "theorems": obligations,
        "axioms": axioms,
        "checker_cmd": "cd /verif/coq && ./build.sh %s   (coq_makefile + make, coqc 8.16.1, full .vo)" % " ".join(meta.get("coq_targets", ["Props/%s.vo" % pid, "Corr/%s.vo" % pid])),
        "trusted_base": GENERIC_TRUSTED + meta.get("trusted_base", []),
        "evaluations": (result or {}).get("evaluations", 0),
        "distinct_nontrivial": (result or {}).get("distinct_nontrivial", 0),
        "rule": meta.get("rule", ""),
        "samples": (result or {}).get("samples") or [],
        "traces_validated_against_impl": (result or {}).get("coq_cases", 0),
        "model_impl_mismatches": len(mism),
        "distribution": (result or {}).get("distribution", {}),
        "oracle_failure_counts": fail_counts,
        "known_findings_listed": [e["class"] for e in known],
        "stages": stages,
        "gen_files": gen_report,
        "notes": (result or {}).get("notes") or [],
        "explanation": meta.get("level_text", ""),
    }
    if chk is not None:
        cov["coqchk"] = chk
    ev = {
        "property_id": pid, "tier": a.tier, "seed": a.seed, "level": meta.get("level", "proof"),
        "coverage": cov,
        "assumptions": meta.get("assumptions", []),
        "wall_s": round(wall, 2),
        "violations": violations,
    }
    if not a.replay:
        os.makedirs(os.path.join(VERIF, "evidence"), exist_ok=True)
        with open(os.path.join(VERIF, "evidence", pid + ".json"), "w") as f:
            json.dump(ev, f, indent=1, default=str)

    for l in lines:
        print(l)
    print("%s: tier=%s seed=%d obligations=%d/%d evaluations=%d coq_cases=%d mismatches=%d oracle_failures=%s wall=%.1fs -> %s" % (
        pid, a.tier, a.seed, cov["discharged"], cov["obligations"], cov["evaluations"], cov["traces_validated_against_impl"],
        len(mism), dict(fail_counts), wall, "VIOLATION" if violations else "ok"))
    if not a.keep:
        shutil.rmtree(workdir, ignore_errors=True)
    return 1 if violations else 0
