#!/bin/sh
# Re-run a property's check against a recorded seeded change.  usage: seedtest.sh <seed name e.g. C28-2> [ID (default: the seed's property)] [extra check args]
# Makes a scratch worktree of /repo, applies seeded/<name>/patch.diff, runs lib/seedrun.sh, removes the worktree.
NAME="$1"; ID="${2:-${NAME%%-*}}"; [ $# -ge 2 ] && shift 2 || shift 1
WT=/tmp/seedt-$NAME-$$
git -C /repo worktree add --detach "$WT" HEAD -q || exit 2
if ! git -C "$WT" apply /verif/seeded/$NAME/patch.diff; then echo "$NAME: patch does not apply"; git -C /repo worktree remove --force "$WT"; exit 3; fi
sh /verif/lib/seedrun.sh "$ID" "$WT" "$@"; rc=$?
git -C /repo worktree remove --force "$WT"
exit $rc
