#!/bin/sh
# Re-run every recorded seeded change against the current checks (4 at a time).  usage: seedall.sh [names...]  -> /tmp/seedall.log
cd /verif
NAMES="${@:-$(ls -d seeded/C*/ | xargs -n1 basename | sort)}"
: > /tmp/seedall.log
echo $NAMES | tr ' ' '\n' | xargs -P 4 -I{} sh -c 'n={}; out=$(sh lib/seedtest.sh $n 2>&1); rc=$?; how=oracle; echo "$out" | grep "^VIOLATION" | grep -qv "no-failing-input-found" || how=TIE-ONLY; [ $rc -eq 0 ] && how=MISSED; echo "$n rc=$rc $how $(echo "$out" | grep -v "^KNOWN" | tail -1 | cut -c1-330)" >> /tmp/seedall.log'
sort /tmp/seedall.log
