#!/bin/sh
# Re-run every recorded seeded change against the current checks (4 at a time).  usage: seedall.sh [names...]  -> /tmp/seedall.log
cd /verif
NAMES="${@:-$(ls seeded | sort)}"
: > /tmp/seedall.log
echo $NAMES | tr ' ' '\n' | xargs -P 4 -I{} sh -c 'n={}; out=$(sh lib/seedtest.sh $n 2>&1); rc=$?; echo "$n rc=$rc $(echo "$out" | grep -v "^KNOWN" | tail -1 | cut -c1-330)" >> /tmp/seedall.log'
sort /tmp/seedall.log
