#!/bin/sh
# Run a property's check against a scratch worktree of ontology (with a seeded change applied) using a
# scratch copy of /verif, so /repo and /verif are not disturbed.  usage: seedrun.sh <ID> <worktree> [extra check args]
set -e
ID="$1"; WT="$2"; shift 2
V="/tmp/seedv-$ID-$$"
rsync -a --exclude .git --exclude .replay --exclude .work /verif/ "$V/" || [ $? -eq 24 ]   # 24: files vanished while copying (other runs)
mkdir -p "$V/.work"
set +e
# build only this property's driver: other drivers may depend on hook files newer than the worktree
TAG=$(echo "$ID" | tr A-Z a-z)
VERIF_REPO="$WT" "$V/check" "$ID" --tags "verif $TAG" "$@"
rc=$?
mkdir -p /verif/.replay/seeded
cp -r "$V/.replay/." /verif/.replay/seeded/ 2>/dev/null
rm -rf "$V"
exit $rc
