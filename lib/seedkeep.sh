#!/bin/sh
# Confirm a seeded change (demo fails with it, passes without; touched packages' tests pass) and store it under /verif/seeded/<name>.
# usage: seedkeep.sh <name e.g. C18-1> <worktree> "<demo go test cmd run from worktree>" "<pkgs to test>"
set -e
NAME="$1"; WT="$2"; DEMO="$3"; PKGS="$4"
export GOFLAGS=-mod=mod GOPROXY=off GOSUMDB=off GOTOOLCHAIN=local
cd "$WT"
echo "== demo WITH change (expect FAIL)"; if sh -c "$DEMO" > /tmp/seedkeep_with.log 2>&1; then echo "UNEXPECTED PASS"; W=pass; else echo "fails as expected"; W=fail; fi
echo "== existing tests with change, demo moved aside"
mkdir -p /tmp/seedkeep_demo.$$; find . -name 'zz_seed_demo*' -not -path './.git/*' | while read f; do mkdir -p "/tmp/seedkeep_demo.$$/$(dirname $f)"; mv "$f" "/tmp/seedkeep_demo.$$/$f"; done
if go test -tags verif -vet=off -count=1 $PKGS > /tmp/seedkeep_tests.log 2>&1; then echo "tests pass"; T=pass; else tail -20 /tmp/seedkeep_tests.log; T=fail; fi
(cd /tmp/seedkeep_demo.$$ && find . -type f | while read f; do mkdir -p "$WT/$(dirname $f)"; mv "$f" "$WT/$f"; done); rm -rf /tmp/seedkeep_demo.$$
echo "== demo WITHOUT change (expect PASS)"
git apply -R patch.diff
if sh -c "$DEMO" > /tmp/seedkeep_without.log 2>&1; then echo "passes as expected"; O=pass; else echo "UNEXPECTED FAIL"; tail -20 /tmp/seedkeep_without.log; O=fail; fi
git apply patch.diff
D=/verif/seeded/$NAME; mkdir -p $D/demo
cp patch.diff $D/patch.diff
find . -name 'zz_seed_demo*' -not -path './.git/*' | while read f; do mkdir -p "$D/demo/$(dirname $f)"; cp -r "$f" "$D/demo/$f"; done
python3 - "$NAME" "$WT" "$DEMO" "$PKGS" "$W" "$T" "$O" <<'PY'
import json,sys,os
name,wt,demo,pkgs,w,t,o=sys.argv[1:8]
meta=json.load(open(os.path.join(wt,'SEED_META.json'))) if os.path.exists(os.path.join(wt,'SEED_META.json')) else {}
out={"name":name,"property":name.split('-')[0],"summary":meta.get("summary"),"needs":meta.get("needs"),
 "files_changed":meta.get("files_changed"),"demo_cmd":demo,"author_tests_run":meta.get("tests_run"),
 "confirmed_by_coordinator":{"demo_with_change":w,"existing_tests_with_change":t,"tests_cmd":"go test -tags verif -vet=off -count=1 "+pkgs,"demo_without_change":o}}
json.dump(out,open('/verif/seeded/%s/meta.json'%name,'w'),indent=1)
print(json.dumps(out["confirmed_by_coordinator"]))
PY
