#!/bin/sh
# Run every claimed check in the thorough tier (long).  usage: runall_thorough.sh [ids...]
cd /verif
IDS="${@:-$(cat checks/CLAIMED)}"
for i in $IDS; do
  s=$(date +%s)
  out=$(./check $i --tier thorough 2>&1); rc=$?
  e=$(date +%s)
  echo "$i rc=$rc $((e-s))s $(echo "$out" | grep -v '^KNOWN' | tail -1 | cut -c1-200)"
  echo "$out" | grep '^VIOLATION' | head -3
done
