#!/bin/sh
# Commit new add-only verif hook files in /repo (one commit per file), and record the commit ids in checks/hook_commits.json.
cd /repo
for f in $(git status --short | grep '^??' | awk '{print $2}' | grep -E 'verif_hooks[^/]*\.go$|zz_verif[^/]*\.(go|c)$'); do
  head -3 "$f" | grep -q '//go:build verif' || { echo "SKIP (no build tag): $f"; continue; }
  git add "$f" && git commit -qm "verif hook: $f (add-only, build tag verif)" && echo "committed $f $(git rev-parse --short HEAD)"
done
for f in $(git status --short | grep '^ M' | awk '{print $2}' | grep -E 'verif_hooks[^/]*\.go$|zz_verif[^/]*\.(go|c)$'); do
  git add "$f" && git commit -qm "verif hook: update $f (build tag verif)" && echo "updated $f $(git rev-parse --short HEAD)"
done
python3 - <<'PY'
import subprocess,json
log=subprocess.run(['git','-C','/repo','log','--format=%h %s'],capture_output=True,text=True).stdout.splitlines()
hooks=[l.split()[0] for l in log if l.split(' ',1)[1].startswith('verif hook')]
json.dump(list(reversed(hooks)),open('/verif/checks/hook_commits.json','w'))
print(hooks)
PY
