#!/usr/bin/env python3
"""Print the standard task prompt for a property (coordinator helper)."""
import json, sys
pid = sys.argv[1]
extra = sys.argv[2] if len(sys.argv) > 2 else ""
import os
_n = '/verif/lib/notes/%s.txt' % pid
if os.path.exists(_n):
    extra = open(_n).read() + "\n" + extra
prop = None
for l in open('/verif/properties.jsonl'):
    p = json.loads(l)
    if p['id'] == pid:
        prop = p
print(f"""You are one of several engineers building a machine-checked (Coq 8.16 / Rocq) verification of the Go project ontio/ontology (source in /repo). The shared framework lives in /verif. Your task: build the complete check for property {pid}.

START by reading, in this order: /verif/HOWTO.md (the contract you must follow exactly), /verif/DESIGN.md sections 0-3 and the "### {pid}" entry in section 5, then the worked examples (coq/Model/Codec.v, coq/Corr/C18.v, coq/Proofs/C28.v, coq/Props/C28.v, harness/drivers/c18/c18.go, harness/drivers/c28/c28.go, checks/C18.json). Then read the anchored Go code carefully — the model must mirror the code that exists, line by line where it matters.

The property (fixed text, do not change it):
{json.dumps(prop, indent=1)}

Deliverables (all under /verif, following HOWTO.md): coq/Model/*.v (executable model), coq/Proofs/*.v, coq/Props/{pid}.v (property theorems, full strength, quantified over ALL inputs/histories, each followed by Print Assumptions, plus a non-vacuity Example), coq/Corr/{pid}.v, harness/drivers/{pid.lower()}/ (driver with generators, correspondence cases and a direct property oracle on the implementation), harness/drivers/all/{pid.lower()}.go, checks/{pid}.json, and known_findings.d/{pid}.json only if the unchanged tree genuinely violates the property. Where constants/tables/integer formulas can be taken from the source, register a gen.RegisterFile producer so they are regenerated into coq/Gen on every run and the theorems depend on them.

Environment: Go needs `export GOFLAGS=-mod=mod GOPROXY=off GOSUMDB=off GOTOOLCHAIN=local` in every shell call. No network. Coq libraries available: stdlib, mathcomp, stdpp, CoqHammer (sauto), Equations (see HOWTO for rules). Other engineers work concurrently in /verif and /repo on OTHER properties: touch only your own files; never run git commit/checkout/stash/reset anywhere; never modify existing files of /repo (add-only `verif_hooks.go` files with `//go:build verif` are allowed when you need unexported internals); do mutation experiments only in a scratch worktree + scratch copy of /verif as HOWTO.md describes, and remove them afterwards.

Definition of done: `cd /verif && ./check {pid} --tags "verif {pid.lower()}" --dev` exits 0 with no VIOLATION line on the unchanged tree for seeds 1,2,3 (VERIF_SEED env), in under ~90 s; the Props file compiles with every theorem `Closed under the global context` (or only named stdlib axioms); at least three realistic mutations of the anchored Go code (compile, would pass the existing unit tests) are each reported by the check — tell me which ones you tried and which signal caught each (proof/translator, correspondence, oracle). Prefer depth on the core statement over breadth; if you cannot prove the full statement in the time you have, keep the full statement visible, prove a clearly named `_partial`, and say precisely what is missing. Do not stop at a model plus tests: the theorems are the main deliverable, the correspondence is what ties them to the code.
{extra}
Final report (short): files added (including any hook files in /repo), theorem names with one-line meaning each and which are partial, what the driver generates and how many cases, mutations tried and how each was caught, any genuine defect found in the unchanged tree (failing input + smallest repair), wall time of the quick check, and anything the coordinator must do (e.g. framework changes you needed).""")
