package gen

import (
	"fmt"
	"go/ast"
	"go/parser"
	"go/token"
	"path/filepath"
)

// Evaluator evaluates a located site with Go's int semantics (int64), for failing-input search.
type Evaluator struct {
	fset   *token.FileSet
	expr   ast.Expr
	subst  map[string]string
	locals map[string]ast.Expr
	depth  int
	GoExpr string
}

func NewEvaluator(repo string, s Site) (*Evaluator, error) {
	fset := token.NewFileSet()
	f, err := parser.ParseFile(fset, filepath.Join(repo, s.File), nil, 0)
	if err != nil {
		return nil, err
	}
	fd := findFunc(f, s.Func)
	if fd == nil || fd.Body == nil {
		return nil, fmt.Errorf("function %s not found in %s", s.Func, s.File)
	}
	e, err := locate(fset, fd, s.Loc)
	if err != nil {
		return nil, err
	}
	return &Evaluator{fset: fset, expr: e, subst: s.Subst, locals: localDefs(fd.Body), GoExpr: printNode(fset, e)}, nil
}

func (ev *Evaluator) Eval(env map[string]int64) (int64, error) {
	ev.depth = 0
	return ev.eval(ev.expr, env)
}

func (ev *Evaluator) eval(e ast.Expr, env map[string]int64) (int64, error) {
	if v, ok := ev.subst[printNode(ev.fset, e)]; ok {
		x, ok := env[v]
		if !ok {
			return 0, fmt.Errorf("no value for %s", v)
		}
		return x, nil
	}
	switch x := e.(type) {
	case *ast.Ident:
		if d, ok := ev.locals[x.Name]; ok {
			ev.depth++
			if ev.depth > 1000 {
				return 0, fmt.Errorf("local definitions nested too deeply")
			}
			return ev.eval(d, env)
		}
	case *ast.ParenExpr:
		return ev.eval(x.X, env)
	case *ast.BasicLit:
		var v int64
		if _, err := fmt.Sscanf(x.Value, "%v", &v); err != nil {
			return 0, err
		}
		return v, nil
	case *ast.BinaryExpr:
		l, err := ev.eval(x.X, env)
		if err != nil {
			return 0, err
		}
		r, err := ev.eval(x.Y, env)
		if err != nil {
			return 0, err
		}
		switch x.Op {
		case token.ADD:
			return l + r, nil
		case token.SUB:
			return l - r, nil
		case token.MUL:
			return l * r, nil
		case token.QUO:
			if r == 0 {
				return 0, fmt.Errorf("division by zero")
			}
			return l / r, nil
		case token.REM:
			if r == 0 {
				return 0, fmt.Errorf("division by zero")
			}
			return l % r, nil
		case token.SHL:
			return l << uint(r), nil
		case token.SHR:
			return l >> uint(r), nil
		}
	case *ast.CallExpr:
		if id, ok := x.Fun.(*ast.Ident); ok && len(x.Args) == 1 {
			a, err := ev.eval(x.Args[0], env)
			if err != nil {
				return 0, err
			}
			switch id.Name {
			case "int", "int64":
				return a, nil
			case "uint32":
				return int64(uint32(a)), nil
			case "uint64":
				return a, nil
			}
		}
	}
	return 0, fmt.Errorf("unsupported expression %q", printNode(ev.fset, e))
}
