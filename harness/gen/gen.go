// Package gen is the translator: it reads /repo's current source with go/parser and emits
// Gallina definitions (coq/Gen/*.v) for integer formulas and constants, so that the theorems
// that Require those files are re-checked against what the code says now.
//
// It fails closed: when an anchor function or expression is missing or has a shape outside the
// supported fragment, the generated file contains a definition named `translator_broken_<site>`
// and no definition for the site, so the dependent theorem file no longer compiles and the
// check reports the broken tie.
package gen

import (
	"bytes"
	"fmt"
	"go/ast"
	"go/parser"
	"go/printer"
	"go/token"
	"os"
	"path/filepath"
	"sort"
	"strings"
)

// Site locates one integer expression in the source.
type Site struct {
	Name  string            // Coq definition name
	File  string            // path relative to the repo root
	Func  string            // enclosing function (or method) name
	Loc   string            // locator: assign:<var>[#k] | callarg:<fn>:<idx> | cmp:<op>:<lhs|rhs>[#k] | return:<idx>[#k]
	Subst map[string]string // printed Go sub-expression -> Coq variable
	Vars  []string          // Coq parameters, in order (all of type Z)
}

type SiteResult struct {
	Site   Site
	GoExpr string // printed Go expression
	Coq    string // Coq body or ""
	Err    string
}

func printNode(fset *token.FileSet, n ast.Node) string {
	var b bytes.Buffer
	printer.Fprint(&b, fset, n)
	return b.String()
}

func findFunc(f *ast.File, name string) *ast.FuncDecl {
	for _, d := range f.Decls {
		if fd, ok := d.(*ast.FuncDecl); ok && fd.Name.Name == name {
			return fd
		}
	}
	return nil
}

func splitK(s string) (string, int) {
	k := 0
	if i := strings.LastIndex(s, "#"); i >= 0 {
		fmt.Sscanf(s[i+1:], "%d", &k)
		s = s[:i]
	}
	return s, k
}

func locate(fset *token.FileSet, fd *ast.FuncDecl, loc string) (ast.Expr, error) {
	loc, k := splitK(loc)
	parts := strings.Split(loc, ":")
	var found []ast.Expr
	switch parts[0] {
	case "assign":
		ast.Inspect(fd.Body, func(n ast.Node) bool {
			if as, ok := n.(*ast.AssignStmt); ok {
				for i, l := range as.Lhs {
					if id, ok := l.(*ast.Ident); ok && id.Name == parts[1] && i < len(as.Rhs) && len(as.Lhs) == len(as.Rhs) {
						found = append(found, as.Rhs[i])
					}
				}
			}
			return true
		})
	case "callarg":
		var idx int
		fmt.Sscanf(parts[2], "%d", &idx)
		ast.Inspect(fd.Body, func(n ast.Node) bool {
			if ce, ok := n.(*ast.CallExpr); ok {
				name := printNode(fset, ce.Fun)
				if (name == parts[1] || strings.HasSuffix(name, "."+parts[1])) && idx < len(ce.Args) {
					found = append(found, ce.Args[idx])
				}
			}
			return true
		})
	case "cmp":
		ast.Inspect(fd.Body, func(n ast.Node) bool {
			if be, ok := n.(*ast.BinaryExpr); ok && be.Op.String() == parts[1] {
				if parts[2] == "lhs" {
					found = append(found, be.X)
				} else {
					found = append(found, be.Y)
				}
			}
			return true
		})
	case "return":
		var idx int
		fmt.Sscanf(parts[1], "%d", &idx)
		ast.Inspect(fd.Body, func(n ast.Node) bool {
			if rs, ok := n.(*ast.ReturnStmt); ok && idx < len(rs.Results) {
				found = append(found, rs.Results[idx])
			}
			return true
		})
	default:
		return nil, fmt.Errorf("bad locator %q", loc)
	}
	if k >= len(found) {
		return nil, fmt.Errorf("locator %q: found %d matches, wanted #%d", loc, len(found), k)
	}
	return found[k], nil
}

// toCoq translates the supported integer-expression fragment to a Z expression.
// Division is Go's truncating division (Z.quot), remainder is Z.rem.
func toCoq(fset *token.FileSet, e ast.Expr, subst map[string]string) (string, error) {
	return toCoqL(fset, e, subst, nil, 0)
}

// localDefs collects, for a function body, the identifiers that are assigned exactly once by a
// simple `x := expr` / `x = expr`; such locals are inlined by the translator (so `f := (n-1)/3;
// m := 2*f+1` is read as one expression).
func localDefs(body *ast.BlockStmt) map[string]ast.Expr {
	count := map[string]int{}
	defs := map[string]ast.Expr{}
	ast.Inspect(body, func(n ast.Node) bool {
		switch as := n.(type) {
		case *ast.AssignStmt:
			for i, l := range as.Lhs {
				if id, ok := l.(*ast.Ident); ok {
					count[id.Name]++
					if len(as.Lhs) == len(as.Rhs) && (as.Tok == token.DEFINE || as.Tok == token.ASSIGN) {
						defs[id.Name] = as.Rhs[i]
					} else {
						count[id.Name] += 100
					}
				}
			}
		case *ast.IncDecStmt:
			if id, ok := as.X.(*ast.Ident); ok {
				count[id.Name] += 100
			}
		case *ast.RangeStmt:
			for _, l := range []ast.Expr{as.Key, as.Value} {
				if id, ok := l.(*ast.Ident); ok {
					count[id.Name] += 100
				}
			}
		}
		return true
	})
	out := map[string]ast.Expr{}
	for k, e := range defs {
		if count[k] == 1 {
			out[k] = e
		}
	}
	return out
}

func toCoqL(fset *token.FileSet, e ast.Expr, subst map[string]string, locals map[string]ast.Expr, depth int) (string, error) {
	if v, ok := subst[printNode(fset, e)]; ok {
		return v, nil
	}
	if depth > 12 {
		return "", fmt.Errorf("local definitions nested too deeply at %q", printNode(fset, e))
	}
	toCoq := func(fset *token.FileSet, e ast.Expr, subst map[string]string) (string, error) {
		return toCoqL(fset, e, subst, locals, depth+1)
	}
	switch x := e.(type) {
	case *ast.Ident:
		if d, ok := locals[x.Name]; ok {
			return toCoq(fset, d, subst)
		}
	case *ast.ParenExpr:
		return toCoq(fset, x.X, subst)
	case *ast.BasicLit:
		if x.Kind == token.INT {
			var v int64
			if _, err := fmt.Sscanf(x.Value, "%v", &v); err != nil {
				return "", fmt.Errorf("literal %s", x.Value)
			}
			return fmt.Sprintf("%d", v), nil
		}
	case *ast.BinaryExpr:
		l, err := toCoq(fset, x.X, subst)
		if err != nil {
			return "", err
		}
		r, err := toCoq(fset, x.Y, subst)
		if err != nil {
			return "", err
		}
		switch x.Op {
		case token.ADD:
			return "(" + l + " + " + r + ")", nil
		case token.SUB:
			return "(" + l + " - " + r + ")", nil
		case token.MUL:
			return "(" + l + " * " + r + ")", nil
		case token.QUO:
			return "(Z.quot " + l + " " + r + ")", nil
		case token.REM:
			return "(Z.rem " + l + " " + r + ")", nil
		case token.SHL:
			return "(Z.shiftl " + l + " " + r + ")", nil
		case token.SHR:
			return "(Z.shiftr " + l + " " + r + ")", nil
		}
	case *ast.CallExpr:
		// conversions int(x), int64(x): identity on the mathematical value when no wrap is possible;
		// fixed-width unsigned conversions are explicit mod.
		if id, ok := x.Fun.(*ast.Ident); ok && len(x.Args) == 1 {
			a, err := toCoq(fset, x.Args[0], subst)
			if err != nil {
				return "", err
			}
			switch id.Name {
			case "int", "int64":
				return a, nil
			case "uint32":
				return "(Z.modulo " + a + " 4294967296)", nil
			case "uint64":
				return "(Z.modulo " + a + " 18446744073709551616)", nil
			}
		}
	}
	return "", fmt.Errorf("unsupported expression %q", printNode(fset, e))
}

func TranslateSite(repo string, s Site) SiteResult {
	res := SiteResult{Site: s}
	fset := token.NewFileSet()
	f, err := parser.ParseFile(fset, filepath.Join(repo, s.File), nil, 0)
	if err != nil {
		res.Err = err.Error()
		return res
	}
	fd := findFunc(f, s.Func)
	if fd == nil || fd.Body == nil {
		res.Err = "function " + s.Func + " not found in " + s.File
		return res
	}
	e, err := locate(fset, fd, s.Loc)
	if err != nil {
		res.Err = err.Error()
		return res
	}
	res.GoExpr = printNode(fset, e)
	c, err := toCoqL(fset, e, s.Subst, localDefs(fd.Body), 0)
	if err != nil {
		res.Err = err.Error()
		return res
	}
	res.Coq = c
	return res
}

// WriteIfChanged writes content to path only when it differs (keeps make's timestamps quiet).
func WriteIfChanged(path string, content []byte) (changed bool, err error) {
	old, err := os.ReadFile(path)
	if err == nil && bytes.Equal(old, content) {
		return false, nil
	}
	tmp := path + ".tmp"
	if err := os.WriteFile(tmp, content, 0o644); err != nil {
		return false, err
	}
	return true, os.Rename(tmp, path)
}

// EmitSites renders a Gen file for a list of sites.
func EmitSites(module string, results []SiteResult) []byte {
	var b bytes.Buffer
	fmt.Fprintf(&b, "(* GENERATED by harness/gen from /repo's current source on every run. Do not edit. *)\nFrom Coq Require Import ZArith.\nLocal Open Scope Z_scope.\n\n")
	for _, r := range results {
		fmt.Fprintf(&b, "(* %s : %s, func %s, %s\n   Go: %s *)\n", r.Site.Name, r.Site.File, r.Site.Func, r.Site.Loc, strings.ReplaceAll(r.GoExpr, "*)", "* )"))
		if r.Err != "" {
			fmt.Fprintf(&b, "Definition translator_broken_%s : unit := tt. (* %s *)\n\n", r.Site.Name, strings.ReplaceAll(r.Err, "*)", "* )"))
			continue
		}
		params := ""
		for _, v := range r.Site.Vars {
			params += " (" + v + " : Z)"
		}
		fmt.Fprintf(&b, "Definition %s%s : Z := %s.\n\n", r.Site.Name, params, r.Coq)
	}
	return b.Bytes()
}

// Const is a named constant whose value was obtained by linking the real package.
type Const struct {
	Name    string
	Value   string // Coq term
	Type    string // Coq type, e.g. Z, N, list Z
	Comment string
}

func EmitConsts(scopes string, consts []Const) []byte {
	var b bytes.Buffer
	fmt.Fprintf(&b, "(* GENERATED by harness/gen by linking /repo's packages and printing the values. Do not edit. *)\nFrom Coq Require Import ZArith NArith List.\nImport ListNotations.\n%s\n", scopes)
	sort.SliceStable(consts, func(i, j int) bool { return false })
	for _, c := range consts {
		if c.Comment != "" {
			fmt.Fprintf(&b, "(* %s *)\n", strings.ReplaceAll(c.Comment, "*)", "* )"))
		}
		fmt.Fprintf(&b, "Definition %s : %s := %s.\n", c.Name, c.Type, c.Value)
	}
	return b.Bytes()
}

// FileProducer renders one coq/Gen/<name>.v from the repo.
type FileProducer func(repo string) (content []byte, errs []string)

var producers = map[string]FileProducer{}

func RegisterFile(name string, p FileProducer) { producers[name] = p }

type FileReport struct {
	Name    string   `json:"name"`
	Changed bool     `json:"changed"`
	Errors  []string `json:"errors"`
}

// RunAll regenerates every registered Gen file.
func RunAll(repo, outDir string) []FileReport {
	var names []string
	for n := range producers {
		names = append(names, n)
	}
	sort.Strings(names)
	var reps []FileReport
	for _, n := range names {
		content, errs := producers[n](repo)
		ch, err := WriteIfChanged(filepath.Join(outDir, n), content)
		if err != nil {
			errs = append(errs, err.Error())
		}
		reps = append(reps, FileReport{Name: n, Changed: ch, Errors: errs})
	}
	return reps
}

// SitesProducer is the common producer for a list of expression sites.
func SitesProducer(sites []Site) FileProducer {
	return func(repo string) ([]byte, []string) {
		var rs []SiteResult
		var errs []string
		for _, s := range sites {
			r := TranslateSite(repo, s)
			if r.Err != "" {
				errs = append(errs, s.Name+": "+r.Err)
			}
			rs = append(rs, r)
		}
		return EmitSites("", rs), errs
	}
}
