module verif/harness

go 1.17

require (
	github.com/ontio/ontology v0.0.0
	github.com/ontio/ontology-crypto v1.2.1
)

require (
	github.com/blang/semver v3.5.1+incompatible // indirect
	github.com/ontio/wagon v0.4.2 // indirect
	github.com/scylladb/go-set v1.0.2 // indirect
)

require (
	github.com/JohnCGriffin/overflow v0.0.0-20170615021017-4d914c927216 // indirect
	github.com/VictoriaMetrics/fastcache v1.5.7 // indirect
	github.com/Workiva/go-datastructures v1.0.50 // indirect
	github.com/aristanetworks/goarista v0.0.0-20170210015632-ea17b1a17847 // indirect
	github.com/btcsuite/btcd v0.22.0-beta // indirect
	github.com/cespare/xxhash/v2 v2.1.1
	github.com/deckarep/golang-set v0.0.0-20180603214616-504e848d77ea // indirect
	github.com/emirpasic/gods v1.12.0 // indirect
	github.com/ethereum/go-ethereum v1.9.25 // indirect
	github.com/go-stack/stack v1.8.0 // indirect
	github.com/gogo/protobuf v1.1.1 // indirect
	github.com/golang/snappy v0.0.3-0.20201103224600-674baa8c7fc3 // indirect
	github.com/gorilla/websocket v1.4.1 // indirect
	github.com/hashicorp/golang-lru v0.5.4 // indirect
	github.com/holiman/uint256 v1.1.1 // indirect
	github.com/itchyny/base58-go v0.1.0 // indirect
	github.com/laizy/bigint v0.1.3 // indirect
	github.com/mattn/go-runewidth v0.0.4 // indirect
	github.com/olekukonko/tablewriter v0.0.2-0.20190409134802-7e037d187b0c // indirect
	github.com/ontio/ontology-eventbus v0.9.1 // indirect
	github.com/orcaman/concurrent-map v0.0.0-20210501183033-44dafcb38ecc // indirect
	github.com/pkg/errors v0.8.1 // indirect
	github.com/prometheus/tsdb v0.6.2-0.20190402121629-4f204dcbc150 // indirect
	github.com/shirou/gopsutil v3.21.11+incompatible // indirect
	github.com/steakknife/bloomfilter v0.0.0-20180922174646-6819c0d2a570 // indirect
	github.com/steakknife/hamming v0.0.0-20180906055917-c99c65617cd3 // indirect
	github.com/syndtr/goleveldb v1.0.1-0.20200815110645-5c35d600f0ca // indirect
	github.com/tklauser/go-sysconf v0.3.10 // indirect
	github.com/tklauser/numcpus v0.4.0 // indirect
	golang.org/x/crypto v0.0.0-20200622213623-75b288015ac9 // indirect
	golang.org/x/sys v0.0.0-20220128215802-99c3d69c2c27 // indirect
)

replace (
	github.com/ontio/ontology => /repo
	golang.org/x/crypto => github.com/golang/crypto v0.0.0-20210921155107-089bfa567519
	golang.org/x/net => github.com/golang/net v0.0.0-20210924151903-3ad01bbaa167
	golang.org/x/sys => github.com/golang/sys v0.0.0-20210927052749-1cf2251ac284
	golang.org/x/text => github.com/golang/text v0.3.0
)
