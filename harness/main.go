// Command harness runs the per-property drivers against /repo's packages and the translator.
//
//	harness gen  -repo /repo -out /verif/coq/Gen
//	harness run  -id C18 -seed 1 -tier quick -out /verif/.work/C18 [-replay f] [-corpus dir]
//	harness list
package main

import (
	"encoding/json"
	"flag"
	"fmt"
	"os"

	_ "verif/harness/drivers/all"
	"verif/harness/gen"
	"verif/harness/hx"
)

func main() {
	if len(os.Args) < 2 {
		fmt.Fprintln(os.Stderr, "usage: harness gen|run|list ...")
		os.Exit(2)
	}
	switch os.Args[1] {
	case "list":
		for _, id := range hx.Registered() {
			fmt.Println(id)
		}
	case "gen":
		fs := flag.NewFlagSet("gen", flag.ExitOnError)
		repo := fs.String("repo", "/repo", "")
		out := fs.String("out", "/verif/coq/Gen", "")
		fs.Parse(os.Args[2:])
		reps := gen.RunAll(*repo, *out)
		b, _ := json.MarshalIndent(reps, "", " ")
		fmt.Println(string(b))
	case "run":
		fs := flag.NewFlagSet("run", flag.ExitOnError)
		id := fs.String("id", "", "")
		seed := fs.Int64("seed", 1, "")
		tier := fs.String("tier", "quick", "")
		out := fs.String("out", "", "")
		replay := fs.String("replay", "", "")
		corpus := fs.String("corpus", "", "")
		repo := fs.String("repo", "/repo", "")
		fs.Parse(os.Args[2:])
		d, ok := hx.Lookup(*id)
		if !ok {
			fmt.Fprintln(os.Stderr, "no driver for", *id)
			os.Exit(2)
		}
		if err := os.MkdirAll(*out, 0o755); err != nil {
			panic(err)
		}
		ctx := hx.NewCtx(*id, *seed, *tier, *out, *replay, *corpus)
		ctx.Repo = *repo
		d(ctx)
		ctx.Finish()
	default:
		fmt.Fprintln(os.Stderr, "unknown subcommand")
		os.Exit(2)
	}
}
