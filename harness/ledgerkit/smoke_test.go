package ledgerkit

import (
	"testing"

	"github.com/ontio/ontology/account"
	"github.com/ontio/ontology/core/types"
)

func TestSmoke(t *testing.T) {
	k, err := New(t.TempDir() + "/chain")
	if err != nil {
		t.Fatal(err)
	}
	defer k.Close()
	b := account.NewAccount("")
	tx, err := k.TransferTx(OntAddr, k.Acct, b.Address, 100, 0, 20000)
	if err != nil {
		t.Fatal(err)
	}
	if _, err := k.AddBlock([]*types.Transaction{tx}); err != nil {
		t.Fatal(err)
	}
	if k.Ledger.GetCurrentBlockHeight() != 1 {
		t.Fatal("height")
	}
	k.Close()
	if err := k.Open(); err != nil {
		t.Fatal(err)
	}
	if k.Ledger.GetCurrentBlockHeight() != 1 {
		t.Fatal("height after reopen")
	}
}
