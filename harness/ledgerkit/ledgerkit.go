// Package ledgerkit builds solo-consensus ledgers on disk for the ledger-backed drivers:
// genesis, block construction and signing, native transfer transactions.
// Requires the `verif` build tag in /repo (wasm stub) to link.
package ledgerkit

import (
	"encoding/hex"
	"fmt"
	"os"
	"path/filepath"

	"github.com/ontio/ontology-crypto/keypair"
	"github.com/ontio/ontology/account"
	"github.com/ontio/ontology/common"
	"github.com/ontio/ontology/common/config"
	"github.com/ontio/ontology/common/constants"
	"github.com/ontio/ontology/common/log"
	"github.com/ontio/ontology/core/genesis"
	"github.com/ontio/ontology/core/ledger"
	"github.com/ontio/ontology/core/payload"
	"github.com/ontio/ontology/core/signature"
	"github.com/ontio/ontology/core/store/ledgerstore"
	"github.com/ontio/ontology/core/types"
	cutils "github.com/ontio/ontology/core/utils"
	"github.com/ontio/ontology/smartcontract/service/native/ont"
	nutils "github.com/ontio/ontology/smartcontract/service/native/utils"
)

// Kit is one solo-consensus chain. The bookkeeper account holds the whole genesis ONT supply.
type Kit struct {
	Dir         string
	Ledger      *ledger.Ledger
	Acct        *account.Account // bookkeeper / genesis holder
	Bookkeepers []keypair.PublicKey
	Genesis     *types.Block
	txNonce     uint32
}

func init() {
	log.InitLog(log.ErrorLog, os.Stderr) // keep the node's logging quiet
}

// StateHashHeight passed to the ledger store (height from which state merkle roots are checked).
var StateHashHeight uint32 = 0

// ConfigureSolo sets the process-global configuration for a solo chain with this bookkeeper.
func ConfigureSolo(acct *account.Account) {
	buf := keypair.SerializePublicKey(acct.PublicKey)
	config.DefConfig.Genesis.ConsensusType = "solo"
	config.DefConfig.Genesis.SOLO.GenBlockTime = 3
	config.DefConfig.Genesis.SOLO.Bookkeepers = []string{hex.EncodeToString(buf)}
	config.DefConfig.P2PNode.NetworkId = 3
}

// New creates a fresh solo ledger in dir (removed first) with a new random bookkeeper account.
func New(dir string) (*Kit, error) {
	return NewWithAccount(dir, account.NewAccount(""))
}

func NewWithAccount(dir string, acct *account.Account) (*Kit, error) {
	if err := os.RemoveAll(dir); err != nil {
		return nil, err
	}
	ConfigureSolo(acct)
	bookkeepers := []keypair.PublicKey{acct.PublicKey}
	genblock, err := genesis.BuildGenesisBlock(bookkeepers, config.DefConfig.Genesis)
	if err != nil {
		return nil, err
	}
	k := &Kit{Dir: dir, Acct: acct, Bookkeepers: bookkeepers, Genesis: genblock, txNonce: 1}
	if err := k.Open(); err != nil {
		return nil, err
	}
	return k, nil
}

// Open (re)opens the ledger in k.Dir (used after Close or on a copied data directory).
func (k *Kit) Open() error {
	ConfigureSolo(k.Acct)
	l, err := ledger.InitLedger(k.Dir, StateHashHeight, k.Bookkeepers, k.Genesis)
	if err != nil {
		return err
	}
	k.Ledger = l
	ledger.DefLedger = l
	return nil
}

// OpenAt opens a copy of a data directory with the same genesis and bookkeeper.
func (k *Kit) OpenAt(dir string) (*Kit, error) {
	n := &Kit{Dir: dir, Acct: k.Acct, Bookkeepers: k.Bookkeepers, Genesis: k.Genesis, txNonce: k.txNonce}
	if err := n.Open(); err != nil {
		return nil, err
	}
	return n, nil
}

func (k *Kit) Store() *ledgerstore.LedgerStoreImp {
	return k.Ledger.GetStore().(*ledgerstore.LedgerStoreImp)
}

func (k *Kit) Close() {
	if k.Ledger != nil {
		k.Ledger.Close()
		k.Ledger = nil
	}
}

// MakeBlock builds and signs the next block on top of the current tip (not added).
func (k *Kit) MakeBlock(txs []*types.Transaction) (*types.Block, error) {
	return k.MakeBlockAt(k.Ledger.GetCurrentBlockHeight(), k.Ledger.GetCurrentBlockHash(), txs)
}

func (k *Kit) MakeBlockAt(height uint32, prevHash common.Uint256, txs []*types.Transaction) (*types.Block, error) {
	nextBookkeeper, err := types.AddressFromBookkeepers(k.Bookkeepers)
	if err != nil {
		return nil, err
	}
	var txHash []common.Uint256
	for _, t := range txs {
		txHash = append(txHash, t.Hash())
	}
	txRoot := common.ComputeMerkleRoot(txHash)
	blockRoot := k.Ledger.GetBlockRootWithNewTxRoots(height+1, []common.Uint256{txRoot})
	header := &types.Header{
		Version:          0,
		PrevBlockHash:    prevHash,
		TransactionsRoot: txRoot,
		BlockRoot:        blockRoot,
		Timestamp:        constants.GENESIS_BLOCK_TIMESTAMP + height + 1,
		Height:           height + 1,
		ConsensusData:    uint64(height),
		NextBookkeeper:   nextBookkeeper,
	}
	block := &types.Block{Header: header, Transactions: txs}
	k.SignBlock(block)
	return block, nil
}

// SignBlock (re)signs the block header with the bookkeeper key (use after mutating a header field).
func (k *Kit) SignBlock(block *types.Block) {
	block.Header.Bookkeepers = nil
	block.Header.SigData = nil
	block.RebuildMerkleRoot()
	h := rehash(block)
	sig, err := signature.Sign(k.Acct, h[:])
	if err != nil {
		panic(err)
	}
	block.Header.Bookkeepers = []keypair.PublicKey{k.Acct.PublicKey}
	block.Header.SigData = [][]byte{sig}
}

// rehash recomputes the header hash from the current field values (Header caches its hash).
func rehash(block *types.Block) common.Uint256 {
	h := *block.Header
	cp := &types.Header{Version: h.Version, PrevBlockHash: h.PrevBlockHash, TransactionsRoot: h.TransactionsRoot,
		BlockRoot: h.BlockRoot, Timestamp: h.Timestamp, Height: h.Height, ConsensusData: h.ConsensusData,
		ConsensusPayload: h.ConsensusPayload, NextBookkeeper: h.NextBookkeeper}
	hash := cp.Hash()
	*block.Header = *cp
	return hash
}

// AddBlock makes the next block from txs, executes it to learn the state merkle root and adds it
// through Ledger.AddBlock with that root (the way a syncing node receives it).
func (k *Kit) AddBlock(txs []*types.Transaction) (*types.Block, error) {
	b, err := k.MakeBlock(txs)
	if err != nil {
		return nil, err
	}
	return b, k.AddMadeBlock(b)
}

// AddMadeBlock executes an already built block and adds it.
func (k *Kit) AddMadeBlock(b *types.Block) error {
	res, err := k.Ledger.ExecuteBlock(b)
	if err != nil {
		return err
	}
	return k.Ledger.AddBlock(b, nil, res.MerkleRoot)
}

// NativeTx builds an unsigned native-contract invocation.
func (k *Kit) NativeTx(contract common.Address, version byte, gasPrice, gasLimit uint64, method string, params []interface{}) (*types.MutableTransaction, error) {
	code, err := cutils.BuildNativeInvokeCode(contract, version, method, params)
	if err != nil {
		return nil, err
	}
	k.txNonce++
	return &types.MutableTransaction{
		GasPrice: gasPrice, GasLimit: gasLimit, TxType: types.InvokeNeo, Nonce: k.txNonce,
		Payload: &payload.InvokeCode{Code: code},
	}, nil
}

// InvokeTx builds an unsigned NeoVM invocation of raw code.
func (k *Kit) InvokeTx(code []byte, gasPrice, gasLimit uint64) *types.MutableTransaction {
	k.txNonce++
	return &types.MutableTransaction{
		GasPrice: gasPrice, GasLimit: gasLimit, TxType: types.InvokeNeo, Nonce: k.txNonce,
		Payload: &payload.InvokeCode{Code: code},
	}
}

// Sign adds a 1-of-1 signature of acct; the first signer becomes the payer when none is set.
func Sign(tx *types.MutableTransaction, acct *account.Account) error {
	if tx.Payer == common.ADDRESS_EMPTY {
		tx.Payer = acct.Address
	}
	h := tx.Hash()
	sig, err := signature.Sign(acct, h[:])
	if err != nil {
		return err
	}
	tx.Sigs = append(tx.Sigs, types.Sig{PubKeys: []keypair.PublicKey{acct.PublicKey}, M: 1, SigData: [][]byte{sig}})
	return nil
}

// TransferTx builds and signs an ONT or ONG transfer (token = nutils.OntContractAddress / OngContractAddress).
func (k *Kit) TransferTx(token common.Address, from *account.Account, to common.Address, amount, gasPrice, gasLimit uint64) (*types.Transaction, error) {
	st := []*ont.TransferState{{From: from.Address, To: to, Value: amount}}
	mtx, err := k.NativeTx(token, 0, gasPrice, gasLimit, "transfer", []interface{}{st})
	if err != nil {
		return nil, err
	}
	if err := Sign(mtx, from); err != nil {
		return nil, err
	}
	return mtx.IntoImmutable()
}

var (
	OntAddr = nutils.OntContractAddress
	OngAddr = nutils.OngContractAddress
	GovAddr = nutils.GovernanceContractAddress
)

// CopyDir copies a data directory (files and sub-directories) for crash/restart experiments.
func CopyDir(src, dst string) error {
	return filepath.Walk(src, func(p string, info os.FileInfo, err error) error {
		if err != nil {
			return err
		}
		rel, _ := filepath.Rel(src, p)
		t := filepath.Join(dst, rel)
		if info.IsDir() {
			return os.MkdirAll(t, 0o755)
		}
		if info.Name() == "LOCK" {
			return nil
		}
		b, err := os.ReadFile(p)
		if err != nil {
			return err
		}
		return os.WriteFile(t, b, 0o644)
	})
}

func Must(err error) {
	if err != nil {
		panic(fmt.Sprint("ledgerkit: ", err))
	}
}
