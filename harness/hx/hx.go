// Package hx is the shared runtime of the verification harness: a deterministic PRNG,
// a writer for Coq case files (cases.v), counters for the evidence file and the
// collection of oracle failures (failing inputs found on the implementation).
package hx

import (
	"bufio"
	"crypto/sha256"
	"encoding/hex"
	"encoding/json"
	"fmt"
	"math/big"
	"math/rand"
	"os"
	"path/filepath"
	"sort"
	"strings"
)

// Failure is a concrete input/history on which the implementation breaks the property.
type Failure struct {
	Class  string      `json:"class"`  // narrow class name, matched against known_findings.json
	Clause string      `json:"clause"` // which clause of the property failed
	Input  interface{} `json:"input"`  // replayable input
	Got    interface{} `json:"got,omitempty"`
	Want   interface{} `json:"want,omitempty"`
}

type Result struct {
	Property    string            `json:"property"`
	Seed        int64             `json:"seed"`
	Tier        string            `json:"tier"`
	Evaluations int               `json:"evaluations"`
	Nontrivial  int               `json:"distinct_nontrivial"`
	CoqCases    int               `json:"coq_cases"`
	Shards      int               `json:"shards"`
	Counters    map[string]int    `json:"distribution"`
	Samples     []interface{}     `json:"samples"`
	Failures    []Failure         `json:"failures"`
	FailCount   map[string]int    `json:"failure_counts"`
	Notes       []string          `json:"notes"`
	CaseInputs  map[string]string `json:"-"`
}

type Ctx struct {
	Property  string
	Seed      int64
	Tier      string
	Rng       *rand.Rand
	OutDir    string
	Replay    string // path of a replay file, or ""
	CorpusDir string
	Repo      string // root of the ontology source tree the harness was built against

	res        Result
	distinct   map[[32]byte]struct{}
	shard      []string
	shardMeta  []string
	caseIdx    int
	coqModule  string
	coqHeader  string
	out        *bufio.Writer
	outF       *os.File
	meta       *bufio.Writer
	metaF      *os.File
	shardSize  int
	maxSamples int
}

type Driver func(*Ctx)

var registry = map[string]Driver{}

func Register(id string, d Driver)    { registry[id] = d }
func Lookup(id string) (Driver, bool) { d, ok := registry[id]; return d, ok }
func Registered() []string {
	var ids []string
	for k := range registry {
		ids = append(ids, k)
	}
	sort.Strings(ids)
	return ids
}

func NewCtx(prop string, seed int64, tier, outDir, replay, corpus string) *Ctx {
	c := &Ctx{Property: prop, Seed: seed, Tier: tier, OutDir: outDir, Replay: replay, CorpusDir: corpus}
	c.Rng = rand.New(rand.NewSource(seed))
	c.res = Result{Property: prop, Seed: seed, Tier: tier, Counters: map[string]int{}, FailCount: map[string]int{}}
	c.distinct = map[[32]byte]struct{}{}
	c.shardSize = 150
	c.maxSamples = 6
	return c
}

// Quick reports whether the tier is the quick one.
func (c *Ctx) Quick() bool { return c.Tier != "thorough" }

// N picks a case count by tier.
func (c *Ctx) N(quick, thorough int) int {
	if c.Quick() {
		return quick
	}
	return thorough
}

// CoqModule declares which Corr module the case file imports and the name of the
// case type / mismatch function: the file will contain
//
//	From Ont Require Import <module>.
//	Definition cases_k : list case := [...]. Definition M_k := Eval vm_compute in mismatches <base> cases_k.
func (c *Ctx) CoqModule(module string) {
	c.coqModule = module
}

// CoqHeader adds raw vernacular after the imports (e.g. Open Scope).
func (c *Ctx) CoqHeader(h string) { c.coqHeader += h + "\n" }

func (c *Ctx) openOut() {
	if c.out != nil {
		return
	}
	if c.coqModule == "" {
		panic("hx: CoqModule not set")
	}
	f, err := os.Create(filepath.Join(c.OutDir, "cases.v"))
	if err != nil {
		panic(err)
	}
	c.outF = f
	c.out = bufio.NewWriterSize(f, 1<<20)
	fmt.Fprintf(c.out, "From Coq Require Import List NArith ZArith String.\nImport ListNotations.\nFrom Ont Require Import %s.\nOpen Scope N_scope.\n%s", c.coqModule, c.coqHeader)
	mf, err := os.Create(filepath.Join(c.OutDir, "cases.jsonl"))
	if err != nil {
		panic(err)
	}
	c.metaF = mf
	c.meta = bufio.NewWriterSize(mf, 1<<20)
}

// Case appends one correspondence case: a Coq term of type `case` (what the implementation
// was given and what it answered) and a JSON-able description used for replay/shrinking when
// the model disagrees.
func (c *Ctx) Case(coqTerm string, desc interface{}) {
	c.openOut()
	c.shard = append(c.shard, coqTerm)
	b, _ := json.Marshal(map[string]interface{}{"i": c.caseIdx, "case": desc})
	c.meta.Write(b)
	c.meta.WriteByte('\n')
	c.caseIdx++
	c.res.CoqCases++
	if len(c.shard) >= c.shardSize {
		c.flushShard()
	}
}

func (c *Ctx) flushShard() {
	if len(c.shard) == 0 {
		return
	}
	k := c.res.Shards
	base := c.caseIdx - len(c.shard)
	fmt.Fprintf(c.out, "Definition cases_%d : list case := [\n %s\n].\n", k, strings.Join(c.shard, ";\n "))
	fmt.Fprintf(c.out, "Definition M_%d := Eval vm_compute in mismatches %d%%nat cases_%d.\nPrint M_%d.\n", k, base, k, k)
	c.res.Shards++
	c.shard = c.shard[:0]
}

// Eval counts one execution of the implementation.
func (c *Ctx) Eval() { c.res.Evaluations++ }

// Count increments a distribution counter (sizes, operation kinds, error kinds).
func (c *Ctx) Count(key string) { c.res.Counters[key]++ }

// Nontrivial records a case that is non-trivial by the driver's rule; key identifies the
// case for distinctness.
func (c *Ctx) Nontrivial(key string) {
	h := sha256.Sum256([]byte(key))
	if _, ok := c.distinct[h]; !ok {
		c.distinct[h] = struct{}{}
		c.res.Nontrivial++
	}
}

// Sample records an example case for the evidence file (first few only).
func (c *Ctx) Sample(v interface{}) {
	if len(c.res.Samples) < c.maxSamples {
		c.res.Samples = append(c.res.Samples, v)
	}
}

func (c *Ctx) Note(s string) { c.res.Notes = append(c.res.Notes, s) }

// Fail records a failing input found on the implementation by the direct property oracle.
// Only the first few per class are kept in full.
func (c *Ctx) Fail(class, clause string, input, got, want interface{}) {
	c.res.FailCount[class]++
	if c.res.FailCount[class] <= 3 {
		c.res.Failures = append(c.res.Failures, Failure{Class: class, Clause: clause, Input: input, Got: got, Want: want})
	}
}

func (c *Ctx) Finish() {
	if c.out != nil {
		c.flushShard()
		c.out.Flush()
		c.outF.Close()
		c.meta.Flush()
		c.metaF.Close()
	}
	b, _ := json.MarshalIndent(&c.res, "", " ")
	if err := os.WriteFile(filepath.Join(c.OutDir, "result.json"), b, 0o644); err != nil {
		panic(err)
	}
}

// ReplayInput loads the "input" member of a replay file (or nil).
func (c *Ctx) ReplayInput(v interface{}) bool {
	if c.Replay == "" {
		return false
	}
	b, err := os.ReadFile(c.Replay)
	if err != nil {
		panic(err)
	}
	var r struct {
		Input json.RawMessage `json:"input"`
	}
	if err := json.Unmarshal(b, &r); err != nil {
		panic(err)
	}
	if len(r.Input) == 0 {
		return false
	}
	if err := json.Unmarshal(r.Input, v); err != nil {
		panic(err)
	}
	return true
}

// CorpusInputs loads all "input" members of corpus/<ID>/*.json.
func (c *Ctx) CorpusInputs() []json.RawMessage {
	var out []json.RawMessage
	if c.CorpusDir == "" {
		return out
	}
	files, _ := filepath.Glob(filepath.Join(c.CorpusDir, "*.json"))
	sort.Strings(files)
	for _, f := range files {
		b, err := os.ReadFile(f)
		if err != nil {
			continue
		}
		var r struct {
			Input json.RawMessage `json:"input"`
		}
		if json.Unmarshal(b, &r) == nil && len(r.Input) > 0 {
			out = append(out, r.Input)
		}
	}
	return out
}

// ---------- Coq term printers ----------

// CoqBytes prints a byte string as a Coq `list N` literal (in N_scope).
func CoqBytes(b []byte) string {
	if len(b) == 0 {
		return "[]"
	}
	var sb strings.Builder
	sb.WriteByte('[')
	for i, x := range b {
		if i > 0 {
			sb.WriteByte(';')
		}
		fmt.Fprintf(&sb, "%d", x)
	}
	sb.WriteByte(']')
	return sb.String()
}

func CoqN(v uint64) string { return fmt.Sprintf("%d", v) }

func CoqNBig(v *big.Int) string { return v.String() }

func CoqZ(v int64) string { return fmt.Sprintf("(%d)%%Z", v) }

func CoqZBig(v *big.Int) string { return fmt.Sprintf("(%s)%%Z", v.String()) }

func CoqNat(v int) string { return fmt.Sprintf("%d%%nat", v) }

func CoqBool(b bool) string {
	if b {
		return "true"
	}
	return "false"
}

func CoqList(items []string) string { return "[" + strings.Join(items, "; ") + "]" }

func CoqOpt(some bool, v string) string {
	if some {
		return "(Some " + v + ")"
	}
	return "None"
}

func CoqStr(s string) string {
	return "\"" + strings.ReplaceAll(s, "\"", "\"\"") + "\"%string"
}

func Hex(b []byte) string { return hex.EncodeToString(b) }

func UnHex(s string) []byte {
	b, err := hex.DecodeString(s)
	if err != nil {
		panic(err)
	}
	return b
}

// ---------- generators ----------

// Bytes returns n random bytes.
func (c *Ctx) Bytes(n int) []byte {
	b := make([]byte, n)
	c.Rng.Read(b)
	return b
}

// Pick returns a uniformly chosen element index weight-free.
func (c *Ctx) Intn(n int) int { return c.Rng.Intn(n) }

// U64Boundary returns a uint64 biased to encoding boundaries.
func (c *Ctx) U64Boundary() uint64 {
	bounds := []uint64{0, 1, 0x7f, 0x80, 0xfc, 0xfd, 0xfe, 0xff, 0x100, 0xfffe, 0xffff, 0x10000, 0x7fffffff, 0x80000000,
		0xfffffffe, 0xffffffff, 0x100000000, 0x7fffffffffffffff, 0x8000000000000000, 0xfffffffffffffffe, 0xffffffffffffffff}
	switch c.Rng.Intn(4) {
	case 0:
		return bounds[c.Rng.Intn(len(bounds))]
	case 1:
		b := bounds[c.Rng.Intn(len(bounds))]
		return b + uint64(c.Rng.Intn(5)) - 2
	case 2:
		return c.Rng.Uint64() >> uint(c.Rng.Intn(64))
	default:
		return c.Rng.Uint64()
	}
}

// Recover runs f and reports a panic as (true, message).
func Recover(f func()) (panicked bool, msg string) {
	defer func() {
		if r := recover(); r != nil {
			panicked = true
			msg = fmt.Sprint(r)
		}
	}()
	f()
	return
}
