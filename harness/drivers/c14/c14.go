// Package c14: NeoVM value serialization (VmValue.Serialize / Deserialize / BuildParamToNative and the
// cycle/depth detector they share).
//
// Correspondence: heap graphs (shared sub-values, reference cycles at every position) and byte
// strings, with the implementation's answers, evaluated against Model/VmValue.v.
// Oracle (on the implementation only): acyclic values within the limits serialize and deserialize
// back to an equal value; no byte string makes Deserialize panic and what it accepts respects the
// limits; a value with a reachable cycle is refused with an error by Serialize and by
// BuildParamToNative. Calls on cyclic values run in child processes (child.go).
package c14

import (
	"encoding/json"
	"fmt"
	"math/big"
	"strings"
	"time"

	"github.com/ontio/ontology/common"
	"github.com/ontio/ontology/vm/neovm/constants"
	"github.com/ontio/ontology/vm/neovm/types"

	"verif/harness/hx"
)

func init() { hx.Register("C14", Run) }

type input struct {
	Mode    string   `json:"mode"` // graph | bytes | history
	G       *Graph   `json:"g,omitempty"`
	H       *History `json:"h,omitempty"`
	Prefix  string   `json:"prefix,omitempty"`  // hex, content of the sink before the call (acyclic graphs)
	Prefill int      `json:"prefill,omitempty"` // zero bytes in the sink before the call (cyclic graphs)
	Hex     string   `json:"hex,omitempty"`
	Kind    string   `json:"kind,omitempty"`
}

type driver struct {
	c       *hx.Ctx
	pending []pendingProbe
}

type pendingProbe struct {
	in    input
	probe Probe
}

// ---------- acyclic graphs: in process ----------

func sobs(errName string, out []byte) string {
	if errName == "" {
		return "(SOk " + hx.CoqBytes(out) + ")"
	}
	return "(SErr " + errName + ")"
}

func (d *driver) doGraph(g Graph, kind string, prefix []byte) {
	c := d.c
	in := input{Mode: "graph", G: &g, Prefix: hx.Hex(prefix), Kind: kind}
	if g.cyclic() {
		d.queueCyclic(g, kind)
		return
	}
	c.Eval()
	b := g.build()
	heap := g.coqHeap(b)
	root := coqHval(g.Root)
	depth := g.depth()
	lim := g.limits()
	det := g.orderFree()
	fuel := depth + 2
	c.Count("graph:" + kind)
	c.Count(fmt.Sprintf("graph:depth<=%d", bucket(depth)))
	c.Count(fmt.Sprintf("graph:objects<=%d", bucket(len(g.Objs))))
	if !det {
		c.Count("graph:order-dependent-detector")
	}
	if len(g.Objs) > 1 {
		c.Nontrivial("g" + heap + root)
	}
	c.Sample(map[string]interface{}{"kind": "graph:" + kind, "graph": g})

	// detector
	var ans bool
	var derr error
	if p, msg := hx.Recover(func() { ans, derr = b.root.CircularRefAndDepthDetection() }); p {
		c.Fail("panic:detector", "CircularRefAndDepthDetection panicked", in, msg, "an answer")
		return
	}
	if derr != nil {
		c.Fail("detector:error", "CircularRefAndDepthDetection returned an error on a well-typed value", in, derr.Error(), nil)
		return
	}
	c.Case(fmt.Sprintf("CDetect %s (%s) %s %s", heap, root, hx.CoqBool(det), hx.CoqBool(ans)), in)

	// Serialize
	sink := common.NewZeroCopySink(nil)
	sink.WriteBytes(prefix)
	var serr error
	if p, msg := hx.Recover(func() { serr = b.root.Serialize(sink) }); p {
		c.Fail("panic:serialize", "Serialize panicked", in, msg, "bytes or an error")
		return
	}
	sname := serErrName(serr)
	if strings.HasPrefix(sname, "other:") {
		c.Fail("serialize:unknown-error", "Serialize returned an error outside the modelled set", in, sname, nil)
		return
	}
	out := append([]byte{}, sink.Bytes()...)
	c.Count("serialize:" + orOK(sname))
	c.Case(fmt.Sprintf("CSer %s (%s) 0 %s %d%%nat %s %s", heap, root, hx.CoqBytes(prefix), fuel, hx.CoqBool(det), sobs(sname, out)), in)

	// oracle: acceptance within the limits. "Within the limits" on the specification side: nesting at
	// most MAX_STRUCT_DEPTH, no interop value, output within MAX_BYTEARRAY_SIZE.
	if serr != nil && depth <= types.MAX_STRUCT_DEPTH && !lim.interop && len(prefix) == 0 && lim.nodes < 2000 && sname != "ESize" {
		c.Fail("roundtrip:refused-within-limits", "an acyclic value nested no deeper than MAX_STRUCT_DEPTH was refused by Serialize", in, sname, "serialized bytes")
	}
	// oracle: round trip
	if serr == nil {
		enc := out[len(prefix):]
		within := depth <= types.MAX_COUNT && lim.maxList <= constants.MAX_ARRAY_SIZE && lim.maxIntMag <= constants.MAX_INT_SIZE
		var back types.VmValue
		var rerr error
		src := common.NewZeroCopySource(enc)
		if p, msg := hx.Recover(func() { rerr = back.Deserialize(src) }); p {
			c.Fail("panic:deserialize", "Deserialize panicked on Serialize's own output", in, msg, "the value")
			return
		}
		switch {
		case within && rerr != nil:
			c.Fail("roundtrip:decode-error", "Serialize's output for a value within the limits is refused by Deserialize", in, rerr.Error(), "the value")
		case within && src.Len() != 0:
			c.Fail("roundtrip:trailing", "Deserialize left bytes of Serialize's output unread", in, src.Len(), 0)
		case within:
			budget := 1 << 22
			t := observe(&back, &budget)
			why := ""
			if !g.equalValue(g.Root, t, &why) {
				c.Fail("roundtrip:not-equal", "the value read back differs from the value written", in, why, "an equal value")
			}
			c.Count("roundtrip:ok")
		case rerr == nil:
			c.Count("roundtrip:outside-limits-still-decodes")
		default:
			c.Count("roundtrip:outside-limits-refused:" + deserErrName(rerr))
		}
		// and the decoder's model on these bytes
		if len(enc) <= 6000 {
			d.doBytes(enc, "serialized")
		}
	}

	// BuildParamToNative
	sink2 := common.NewZeroCopySink(nil)
	sink2.WriteBytes(prefix)
	var berr error
	if p, msg := hx.Recover(func() { berr = b.root.BuildParamToNative(sink2) }); p {
		c.Fail("panic:BuildParamToNative", "BuildParamToNative panicked", in, msg, "bytes or an error")
		return
	}
	bname := serErrName(berr)
	if strings.HasPrefix(bname, "other:") {
		c.Fail("BuildParamToNative:unknown-error", "BuildParamToNative returned an error outside the modelled set", in, bname, nil)
		return
	}
	c.Count("build:" + orOK(bname))
	c.Case(fmt.Sprintf("CBuild %s (%s) %s %d%%nat %s %s", heap, root, hx.CoqBytes(prefix), fuel, hx.CoqBool(det), sobs(bname, sink2.Bytes())), in)
}

func orOK(s string) string {
	if s == "" {
		return "ok"
	}
	return s
}

func bucket(n int) int {
	for _, b := range []int{0, 1, 2, 4, 8, 10, 11, 16, 64, 1024} {
		if n <= b {
			return b
		}
	}
	return 1 << 20
}

// ---------- cyclic graphs: child processes ----------

// firstChainEndless: following first elements from the root (arrays and structs: element 0; a map
// with exactly one entry: its value) never reaches a primitive or an empty container within
// MAX_STRUCT_DEPTH+2 steps. ok=false when a map with several entries is met (order dependent).
func (g *Graph) firstChainEndless() (endless bool, ok bool) {
	v := g.Root
	for i := 0; i < types.MAX_STRUCT_DEPTH+2; i++ {
		if !v.isRef() {
			return false, true
		}
		o := g.Objs[v.Addr]
		if o.Kind == "map" {
			if len(o.Vals) == 0 {
				return false, true
			}
			if len(o.Vals) > 1 {
				return false, false
			}
			v = o.Vals[0]
			continue
		}
		if len(o.Items) == 0 {
			return false, true
		}
		v = o.Items[0]
	}
	return true, true
}

// specDetect is the specification-side reading of the finding: the detector as it IS (first element
// only), for graphs whose maps have at most one entry.
func (g *Graph) specDetect(v Val) bool {
	visited := map[int]bool{}
	for depth := 0; ; depth++ {
		if depth > types.MAX_STRUCT_DEPTH {
			return true
		}
		if !v.isRef() {
			return false
		}
		o := g.Objs[v.Addr]
		if o.Kind == "map" {
			if visited[v.Addr] {
				return true
			}
			visited[v.Addr] = true
			if len(o.Vals) == 0 {
				return false
			}
			v = o.Vals[0]
			continue
		}
		if len(o.Items) == 0 {
			return false
		}
		if visited[v.Addr] {
			return true
		}
		visited[v.Addr] = true
		v = o.Items[0]
	}
}

// specBuild predicts BuildParamToNative given that detector: "ECircular", "EBadType", "" (success) or
// "diverges" (a value on the current call stack is entered again without the detector firing: the
// finding class). Order-free graphs only.
func (g *Graph) specBuild(v Val, onStack map[int]bool) string {
	if g.specDetect(v) {
		return "ECircular"
	}
	switch v.K {
	case "map", "interop":
		return "EBadType"
	case "arr", "struct":
		if onStack[v.Addr] {
			return "diverges"
		}
		onStack[v.Addr] = true
		defer delete(onStack, v.Addr)
		for _, c := range g.Objs[v.Addr].Items {
			if r := g.specBuild(c, onStack); r != "" {
				return r
			}
		}
	}
	return ""
}

func (d *driver) queueCyclic(g Graph, kind string) {
	// Serialize starts from an almost full sink, so that the size limit ends the recursion after a
	// few levels (with an empty sink it takes ~2*10^5 nested calls, see queueWitness)
	prefill := constants.MAX_BYTEARRAY_SIZE - 20 - d.c.Intn(100)
	for _, e := range []string{"Serialize", "BuildParamToNative"} {
		pf := prefill
		if e != "Serialize" {
			pf = 0
		}
		d.pending = append(d.pending, pendingProbe{
			in:    input{Mode: "graph", G: &g, Prefill: prefill, Kind: kind},
			probe: Probe{G: g, Entry: e, Prefill: pf},
		})
	}
}

// queueWitness: the documented witness w = [1, w], on every entry point that shares the detector.
func (d *driver) queueWitness(full bool) {
	g := Graph{Objs: []Obj{{Kind: "arr", Items: []Val{vInt(1), vRef("arr", 0)}}}, Root: vRef("arr", 0)}
	prefill := constants.MAX_BYTEARRAY_SIZE - 64
	for _, e := range []string{"Serialize", "BuildParamToNative", "Stringify", "Dump"} {
		pf := prefill
		if e != "Serialize" {
			pf = 0
		}
		d.pending = append(d.pending, pendingProbe{
			in:    input{Mode: "graph", G: &g, Prefill: prefill, Kind: "witness"},
			probe: Probe{G: g, Entry: e, Prefill: pf},
		})
	}
	if full {
		// empty sink: about 2*10^5 nested calls before the size limit stops it (seconds, hundreds of MB of stack)
		d.pending = append(d.pending, pendingProbe{
			in:    input{Mode: "graph", G: &g, Prefill: 0, Kind: "witness-empty-sink"},
			probe: Probe{G: g, Entry: "Serialize", Prefill: 0, BigStack: true},
		})
	}
}

// queueNestedFirstCycles: a first-element cycle that starts below a NON-first element of the root:
// the outermost detector call does not see it, the detector call of the nested element does. On
// every run, for each container kind of root and of cycle member.
func (d *driver) queueNestedFirstCycles() {
	for _, rootKind := range []string{"arr", "struct"} {
		for _, memberKind := range []string{"arr", "struct"} {
			for _, n := range []int{1, 2} {
				g := Graph{Objs: []Obj{{Kind: rootKind, Items: []Val{vInt(7), vRef(memberKind, 1), vBool(true)}}}, Root: vRef(rootKind, 0)}
				for i := 1; i <= n; i++ {
					next := i + 1
					if i == n {
						next = 1
					}
					g.Objs = append(g.Objs, Obj{Kind: memberKind, Items: []Val{vRef(memberKind, next), vInt(int64(i))}})
				}
				d.queueCyclic(g, "nested-first-cycle")
			}
		}
	}
	// cycles through the only entry of a map (the detector follows a map's first entry)
	d.queueCyclic(Graph{Objs: []Obj{{Kind: "map", Keys: []Val{vInt(1)}, Vals: []Val{vRef("map", 0)}}}, Root: vRef("map", 0)}, "map-first-cycle")
	d.queueCyclic(Graph{Objs: []Obj{{Kind: "arr", Items: []Val{vRef("map", 1)}}, {Kind: "map", Keys: []Val{vBytes([]byte("k"))}, Vals: []Val{vRef("arr", 0)}}},
		Root: vRef("arr", 0)}, "map-first-cycle")
	d.queueCyclic(Graph{Objs: []Obj{{Kind: "struct", Items: []Val{vInt(0), vRef("map", 1)}}, {Kind: "map", Keys: []Val{vBool(true)}, Vals: []Val{vRef("map", 1)}}},
		Root: vRef("struct", 0)}, "map-first-cycle")
}

func (d *driver) runPending() {
	c := d.c
	if len(d.pending) == 0 {
		return
	}
	probes := make([]Probe, len(d.pending))
	for i, p := range d.pending {
		probes[i] = p.probe
	}
	t0 := time.Now()
	results := runInChildren(probes, 120*time.Second)
	c.Note(fmt.Sprintf("%d calls on cyclic values ran in child processes (stack capped at 2 MiB) in %d ms", len(probes), time.Since(t0).Milliseconds()))
	for i, p := range d.pending {
		r := results[i]
		g := p.probe.G
		c.Eval()
		entry := p.probe.Entry
		endless, chainOK := g.firstChainEndless()
		pos := "non-first-element"
		if endless {
			pos = "first-element"
		}
		if !chainOK {
			pos = "map-order"
		}
		c.Count("cyclic:" + entry + ":" + pos)
		outcome := orOK(r.Err)
		if r.Crashed {
			outcome = "crash"
		}
		if r.Timeout {
			outcome = "timeout"
		}
		c.Count("cyclic:" + entry + ":" + outcome)
		if p.probe.BigStack {
			c.Note(fmt.Sprintf("witness w=[1,w], %s from an EMPTY sink in a child with Go's default 1 GB stack cap: outcome %s after %d ms (the recursion is stopped only by the size limit, ~2*10^5 nested calls)", entry, outcome, r.Millis))
		}
		c.Nontrivial(fmt.Sprintf("cyc%v%s%d", g, entry, p.probe.Prefill))
		if i < 2 {
			c.Sample(map[string]interface{}{"kind": "cyclic:" + p.in.Kind, "graph": g, "entry": entry, "outcome": outcome})
		}
		// ----- oracle: a value with a reachable cycle is refused with an error -----
		switch {
		case (r.Crashed || r.Timeout) && entry == "BuildParamToNative" && chainOK && g.orderFree() && g.specBuild(g.Root, map[int]bool{}) != "diverges":
			// not the known finding: with the detector as it is, this call should have returned
			c.Fail("cycle:detectable:BuildParamToNative", "BuildParamToNative did not return on a cyclic value that the first-element detector does refuse at some nested call", p.in,
				map[string]interface{}{"entry": entry, "crashed": r.Crashed, "timeout": r.Timeout, "stderr": r.Detail, "expected": g.specBuild(g.Root, map[int]bool{})}, "an error result")
		case r.Crashed || r.Timeout:
			cls := fmt.Sprintf("cycle:%s:%s", pos, entry)
			c.Fail(cls, "a call on a value with a reference cycle did not return (the process died: "+r.Detail+")", p.in,
				map[string]interface{}{"entry": entry, "crashed": r.Crashed, "timeout": r.Timeout, "stderr": r.Detail}, "an error result")
		case r.Err == "":
			c.Fail(fmt.Sprintf("cycle-accepted:%s:%s", pos, entry), "a value with a reference cycle was accepted", p.in,
				map[string]interface{}{"entry": entry, "outlen": r.OutLen}, "an error result")
		case endless && r.Err != "ECircular":
			c.Fail(fmt.Sprintf("cycle-late:%s:%s", pos, entry), "a cycle through first elements was not refused by the detector", p.in, r.Err, "ECircular")
		}
		if entry == "Serialize" && r.Err == "ESize" {
			c.Count("cyclic:Serialize:stopped-only-by-size-limit")
		}
		// ----- correspondence -----
		if entry != "Serialize" && entry != "BuildParamToNative" {
			continue
		}
		b := g.build()
		heap := g.coqHeap(b)
		root := coqHval(g.Root)
		det := g.orderFree()
		if entry == "BuildParamToNative" {
			// detector answer at the top (bounded, safe in process)
			ans, _ := b.root.CircularRefAndDepthDetection()
			c.Case(fmt.Sprintf("CDetect %s (%s) %s %s", heap, root, hx.CoqBool(det), hx.CoqBool(ans)), p.in)
			if r.Crashed {
				c.Case(fmt.Sprintf("CDiverge %s (%s) 300%%nat", heap, root), p.in)
			} else if !r.Timeout && r.Err != "" && !strings.HasPrefix(r.Err, "other:") {
				c.Case(fmt.Sprintf("CBuild %s (%s) [] 64%%nat %s (SErr %s)", heap, root, hx.CoqBool(det), r.Err), p.in)
			}
			continue
		}
		if !r.Crashed && !r.Timeout && r.Err != "" && !strings.HasPrefix(r.Err, "other:") && p.probe.Prefill > 0 {
			{
				c.Case(fmt.Sprintf("CSer %s (%s) %d [] 64%%nat %s (SErr %s)", heap, root, p.probe.Prefill, hx.CoqBool(det), r.Err), p.in)
			}
		}
	}
	d.pending = nil
}

// ---------- byte strings into Deserialize ----------

func (d *driver) doBytes(b []byte, kind string) {
	c := d.c
	c.Eval()
	in := input{Mode: "bytes", Hex: hx.Hex(b), Kind: kind}
	var v types.VmValue
	var err error
	src := common.NewZeroCopySource(b)
	if p, msg := hx.Recover(func() { err = v.Deserialize(src) }); p {
		c.Fail("panic:deserialize", "Deserialize panicked on a byte string", in, msg, "a value or an error")
		return
	}
	c.Count("bytes:" + kind)
	c.Count(fmt.Sprintf("bytes:len<=%d", bucket(len(b))))
	if err != nil {
		name := deserErrName(err)
		c.Count("deserialize:" + name)
		if strings.HasPrefix(name, "other:") {
			c.Fail("deserialize:unknown-error", "Deserialize returned an error outside the modelled set", in, name, nil)
			return
		}
		if len(b) > 2 {
			c.Nontrivial("b" + in.Hex)
		}
		c.Case(fmt.Sprintf("CDeser %s (DObsErr %s)", hx.CoqBytes(b), name), in)
		return
	}
	c.Count("deserialize:ok")
	budget := 1 << 22
	t := observe(&v, &budget)
	// oracle: an accepted value respects the limits and all reads stayed in the buffer
	maxDepth, maxList, maxInt := 0, 0, 0
	t.treeLimits(0, &maxDepth, &maxList, &maxInt)
	if maxDepth > types.MAX_COUNT || maxList > constants.MAX_ARRAY_SIZE || maxInt > constants.MAX_INT_SIZE || src.Pos() > uint64(len(b)) {
		c.Fail("deserialize:limits", "Deserialize accepted a value outside the VM's limits", in,
			map[string]int{"depth": maxDepth, "longest": maxList, "intbytes": maxInt}, "depth<=MAX_COUNT, arrays<=MAX_ARRAY_SIZE, integers<=MAX_INT_SIZE bytes")
	}
	// oracle: what was accepted, when Serialize takes it back, decodes to the same observation
	if kind != "serialized" && maxDepth <= types.MAX_STRUCT_DEPTH {
		sink := common.NewZeroCopySink(nil)
		var serr error
		if p, msg := hx.Recover(func() { serr = v.Serialize(sink) }); p {
			c.Fail("panic:serialize", "Serialize panicked on a decoded value", in, msg, nil)
			return
		}
		if serr == nil {
			var v2 types.VmValue
			if err2 := v2.Deserialize(common.NewZeroCopySource(sink.Bytes())); err2 != nil {
				c.Fail("roundtrip:decode-error", "re-serialized decoded value is refused", in, err2.Error(), nil)
			} else {
				budget := 1 << 22
				t2 := observe(&v2, &budget)
				if t2.coq() != t.coq() {
					c.Fail("roundtrip:not-equal", "decode(encode(decode(b))) differs from decode(b)", in, t2.coq(), t.coq())
				}
			}
		}
	}
	if len(b) > 2 {
		c.Nontrivial("b" + in.Hex)
	}
	if kind != "serialized" {
		c.Sample(map[string]interface{}{"kind": "bytes:" + kind, "hex": in.Hex})
	}
	c.Case(fmt.Sprintf("CDeser %s (DObsOk (%s) %d)", hx.CoqBytes(b), t.coq(), src.Len()), in)
}

func (d *driver) doKey(v Val) {
	c := d.c
	c.Eval()
	b := (&built{}).val(v)
	k, err := b.GetMapKey()
	if err != nil {
		c.Fail("mapkey:error", "GetMapKey failed on a primitive", v, err.Error(), nil)
		return
	}
	if string(specImage(v)) != k {
		c.Fail("mapkey:image", "GetMapKey differs from the minimal two's-complement / byte image", v, hx.Hex([]byte(k)), hx.Hex(specImage(v)))
	}
	c.Count("mapkey:" + v.K)
	c.Case(fmt.Sprintf("CKey (%s) %s", coqPrim(v), hx.CoqBytes([]byte(k))), v)
}

// ---------- generators ----------

var intBoundaries = []string{"0", "1", "-1", "127", "128", "-128", "-129", "255", "256", "32767", "32768", "-32768", "-32769",
	"9223372036854775807", "-9223372036854775808"}

func pow2(n uint) *big.Int { return new(big.Int).Lsh(big.NewInt(1), n) }

func (d *driver) randPrim(allowOversize bool) Val {
	c := d.c
	switch c.Intn(10) {
	case 0, 1, 2:
		n := []int{0, 1, 2, 3, 8, 20, 33}[c.Intn(7)]
		if c.Intn(40) == 0 {
			n = []int{252, 253, 300}[c.Intn(3)]
		}
		b := c.Bytes(n)
		if n > 0 && c.Intn(3) == 0 {
			b[n-1] = []byte{0, 0x7f, 0x80, 0xff}[c.Intn(4)]
		}
		return vBytes(b)
	case 3:
		return vBool(c.Intn(2) == 0)
	case 4, 5, 6:
		if c.Intn(2) == 0 {
			z, _ := new(big.Int).SetString(intBoundaries[c.Intn(len(intBoundaries))], 10)
			return vInt(z.Int64())
		}
		return vInt(int64(c.U64Boundary()))
	case 7:
		// bigintType outside int64
		var z *big.Int
		switch c.Intn(6) {
		case 0:
			z = pow2(63)
		case 1:
			z = new(big.Int).Sub(new(big.Int).Neg(pow2(63)), big.NewInt(1))
		case 2:
			z = new(big.Int).Sub(pow2(255), big.NewInt(1))
		case 3:
			z = new(big.Int).Neg(pow2(255))
		case 4:
			z = new(big.Int).Sub(pow2(256), big.NewInt(1)) // 32 magnitude bytes, 33 encoded bytes
		default:
			z = new(big.Int).SetBytes(c.Bytes(9 + c.Intn(23)))
			if c.Intn(2) == 0 {
				z.Neg(z)
			}
			if z.IsInt64() {
				z = pow2(64)
			}
		}
		return vBig(z)
	case 8:
		// bigintType holding a small number (not produced by the VM, but representable)
		return vBig(big.NewInt(int64(c.Intn(300)) - 150))
	default:
		if allowOversize && c.Intn(6) == 0 {
			z := pow2(256) // 33 magnitude bytes: Deserialize refuses
			if c.Intn(2) == 0 {
				z = new(big.Int).Neg(new(big.Int).Add(pow2(256), big.NewInt(5)))
			}
			return vBig(z)
		}
		return vInt(int64(c.Intn(5)))
	}
}

// randAcyclic: objects 0..n-1, object i references only objects j > i (so no cycle), with repeated
// references to the same object (sharing).
func (d *driver) randAcyclic(nObjs int, maxItems int, interop bool) Graph {
	c := d.c
	var g Graph
	kinds := []string{"arr", "arr", "struct", "map"}
	for i := 0; i < nObjs; i++ {
		g.Objs = append(g.Objs, Obj{Kind: kinds[c.Intn(len(kinds))]})
	}
	elem := func(i int) Val {
		if i+1 < nObjs && c.Intn(5) < 2 {
			j := i + 1 + c.Intn(nObjs-i-1)
			if c.Intn(3) == 0 {
				j = i + 1 // chains get deeper this way
			}
			return vRef(g.Objs[j].Kind, j)
		}
		if interop && c.Intn(30) == 0 {
			return Val{K: "interop"}
		}
		return d.randPrim(true)
	}
	for i := range g.Objs {
		n := c.Intn(maxItems + 1)
		if g.Objs[i].Kind == "map" {
			seen := map[string]bool{}
			for k := 0; k < n; k++ {
				key := d.randPrim(false)
				img := string(specImage(key))
				if seen[img] {
					continue
				}
				seen[img] = true
				g.Objs[i].Keys = append(g.Objs[i].Keys, key)
				g.Objs[i].Vals = append(g.Objs[i].Vals, elem(i))
			}
			continue
		}
		for k := 0; k < n; k++ {
			g.Objs[i].Items = append(g.Objs[i].Items, elem(i))
		}
	}
	if nObjs == 0 {
		g.Root = d.randPrim(true)
	} else {
		g.Root = vRef(g.Objs[0].Kind, 0)
	}
	return g
}

// chain: k containers nested through position pos (0 = first element), the innermost holding leaf.
// With single-entry maps among the links when maps is set.
func (d *driver) chain(k int, pos int, maps bool, leaf Val) Graph {
	c := d.c
	var g Graph
	for i := 0; i < k; i++ {
		kind := []string{"arr", "struct"}[c.Intn(2)]
		if maps && pos == 0 && c.Intn(4) == 0 {
			kind = "map"
		}
		g.Objs = append(g.Objs, Obj{Kind: kind})
	}
	for i := 0; i < k; i++ {
		next := leaf
		if i+1 < k {
			next = vRef(g.Objs[i+1].Kind, i+1)
		}
		if g.Objs[i].Kind == "map" {
			g.Objs[i].Keys = []Val{vInt(int64(i))}
			g.Objs[i].Vals = []Val{next}
			continue
		}
		var items []Val
		for p := 0; p < pos; p++ {
			items = append(items, vInt(int64(p)))
		}
		items = append(items, next)
		if c.Intn(2) == 0 {
			items = append(items, vBool(true))
		}
		g.Objs[i].Items = items
	}
	if k == 0 {
		g.Root = leaf
	} else {
		g.Root = vRef(g.Objs[0].Kind, 0)
	}
	return g
}

// orderDependent: a map with two entries, one nested beyond the detector's depth through first
// elements, one shallow: the detector's answer depends on Go's iteration order.
func (d *driver) orderDependent() Graph {
	deep := d.chain(types.MAX_STRUCT_DEPTH+1+d.c.Intn(2), 0, false, vInt(7))
	g := Graph{Objs: append([]Obj{{Kind: "map"}}, nil...)}
	// shift addresses of the chain by one
	for _, o := range deep.Objs {
		for i := range o.Items {
			if o.Items[i].isRef() {
				o.Items[i].Addr++
			}
		}
		g.Objs = append(g.Objs, o)
	}
	g.Objs[0].Keys = []Val{vInt(1), vInt(2)}
	g.Objs[0].Vals = []Val{vRef(deep.Root.K, deep.Root.Addr+1), vBytes([]byte("x"))}
	g.Root = vRef("map", 0)
	return g
}

// addCycle turns an acyclic graph into one with a reachable cycle by redirecting (or adding) one
// element of a reachable object to an object that reaches it. first selects the element position.
func (d *driver) addCycle(g Graph, first bool) (Graph, bool) {
	c := d.c
	if len(g.Objs) == 0 {
		return g, false
	}
	// reachable objects in discovery order, with their ancestors-or-self (objects that reach them)
	reach := map[int]map[int]bool{} // reach[a] = set of objects reachable from a (incl. a)
	var from func(a int) map[int]bool
	from = func(a int) map[int]bool {
		if r, ok := reach[a]; ok {
			return r
		}
		r := map[int]bool{a: true}
		reach[a] = r
		for _, ch := range g.children(vRef(g.Objs[a].Kind, a)) {
			if ch.isRef() {
				for x := range from(ch.Addr) {
					r[x] = true
				}
			}
		}
		return r
	}
	if !g.Root.isRef() {
		return g, false
	}
	all := from(g.Root.Addr)
	var nodes []int
	for a := 0; a < len(g.Objs); a++ {
		if all[a] {
			nodes = append(nodes, a)
		}
	}
	j := nodes[c.Intn(len(nodes))]
	// candidates i that reach j
	var cands []int
	for _, i := range nodes {
		if from(i)[j] {
			cands = append(cands, i)
		}
	}
	i := cands[c.Intn(len(cands))]
	back := vRef(g.Objs[i].Kind, i)
	// deep copy of object j
	o := g.Objs[j]
	o.Items = append([]Val{}, o.Items...)
	o.Keys = append([]Val{}, o.Keys...)
	o.Vals = append([]Val{}, o.Vals...)
	if o.Kind == "map" {
		if len(o.Vals) == 0 || c.Intn(3) == 0 {
			o.Keys = append(o.Keys, vBytes([]byte("cycle-key")))
			o.Vals = append(o.Vals, back)
		} else {
			o.Vals[c.Intn(len(o.Vals))] = back
		}
	} else {
		switch {
		case first && len(o.Items) > 0:
			o.Items[0] = back
		case first:
			o.Items = []Val{back}
		case len(o.Items) == 0:
			o.Items = []Val{d.randPrim(false), back}
		case len(o.Items) == 1:
			o.Items = append(o.Items, back)
		default:
			o.Items[1+c.Intn(len(o.Items)-1)] = back
		}
	}
	objs := append([]Obj{}, g.Objs...)
	objs[j] = o
	ng := Graph{Objs: objs, Root: g.Root}
	return ng, ng.cyclic()
}

// ---------- byte-string generators ----------

func (d *driver) serializeSpec(g Graph) []byte {
	sink := common.NewZeroCopySink(nil)
	b := g.build()
	if err := b.root.Serialize(sink); err != nil {
		return nil
	}
	return append([]byte{}, sink.Bytes()...)
}

func (d *driver) mutate(b []byte) []byte {
	c := d.c
	b = append([]byte{}, b...)
	tags := []byte{0x00, 0x01, 0x02, 0x03, 0x40, 0x80, 0x81, 0x82, 0xfd, 0xfe, 0xff}
	switch c.Intn(8) {
	case 0: // truncate
		if len(b) > 0 {
			b = b[:c.Intn(len(b))]
		}
	case 1: // flip a byte
		if len(b) > 0 {
			b[c.Intn(len(b))] ^= byte(1 << uint(c.Intn(8)))
		}
	case 2: // overwrite with a tag-like byte
		if len(b) > 0 {
			b[c.Intn(len(b))] = tags[c.Intn(len(tags))]
		}
	case 3: // insert
		i := c.Intn(len(b) + 1)
		b = append(b[:i], append([]byte{tags[c.Intn(len(tags))]}, b[i:]...)...)
	case 4: // delete
		if len(b) > 0 {
			i := c.Intn(len(b))
			b = append(b[:i], b[i+1:]...)
		}
	case 5: // trailing garbage
		b = append(b, c.Bytes(1+c.Intn(3))...)
	case 6: // bump a count byte
		if len(b) > 1 {
			b[1] += byte(1 + c.Intn(3))
		}
	default: // duplicate a slice
		if len(b) > 2 {
			i := c.Intn(len(b) - 1)
			j := i + 1 + c.Intn(len(b)-i-1)
			b = append(b[:j], append(append([]byte{}, b[i:j]...), b[j:]...)...)
		}
	}
	return b
}

func varuint(v uint64) []byte {
	s := common.NewZeroCopySink(nil)
	s.WriteVarUint(v)
	return s.Bytes()
}

func (d *driver) structuredBytes() ([]byte, string) {
	c := d.c
	nest := func(tag byte, k int, leaf []byte) []byte {
		var b []byte
		for i := 0; i < k; i++ {
			b = append(b, tag, 1)
		}
		return append(b, leaf...)
	}
	switch c.Intn(14) {
	case 0: // depth boundary of the decoder
		k := types.MAX_COUNT - 1 + c.Intn(4)
		return nest([]byte{0x80, 0x81}[c.Intn(2)], k, []byte{0x01, 0x01}), "depth-boundary"
	case 1: // array size boundary
		n := constants.MAX_ARRAY_SIZE - 1 + c.Intn(3)
		b := append([]byte{[]byte{0x80, 0x81}[c.Intn(2)]}, varuint(uint64(n))...)
		for i := 0; i < n; i++ {
			b = append(b, 0x01, byte(i&1))
		}
		return b, "array-size-boundary"
	case 2: // count >= 2^63: int(l) is negative, the loop does not run
		b := []byte{[]byte{0x80, 0x81, 0x82}[c.Intn(3)], 0xff}
		v := uint64(1)<<63 + uint64(c.Intn(3)) - 1
		if c.Intn(3) == 0 {
			v = ^uint64(0)
		}
		for i := 0; i < 8; i++ {
			b = append(b, byte(v>>(8*uint(i))))
		}
		return append(b, 0x01, 0x01), "huge-count"
	case 3: // non-minimal varuint count
		return []byte{0x80, 0xfd, 0x02, 0x00, 0x01, 0x01, 0x01, 0x00}, "non-minimal-count"
	case 4: // integer size boundary: 32 / 33 magnitude bytes, with and without sign padding
		n := 31 + c.Intn(4)
		body := c.Bytes(n)
		body[n-1] = []byte{0x00, 0x7f, 0x80, 0xff, 0x01}[c.Intn(5)]
		return append(append([]byte{0x02}, varuint(uint64(n))...), body...), "int-size-boundary"
	case 5: // padded integers (non-canonical but accepted)
		body := append(c.Bytes(1+c.Intn(3)), []byte{0, 0, 0}[:1+c.Intn(3)]...)
		if c.Intn(2) == 0 {
			body = []byte{0xff, 0xff, 0xff}[:1+c.Intn(3)]
		}
		return append(append([]byte{0x02}, varuint(uint64(len(body)))...), body...), "padded-int"
	case 6: // map with duplicate / unsorted / same-image keys
		b := []byte{0x82, 0x03}
		keys := [][]byte{{0x02, 0x01, 0x05}, {0x00, 0x01, 0x05}, {0x02, 0x01, 0x03}, {0x01, 0x01}, {0x00, 0x01, 0x01}, {0x02, 0x00}, {0x00, 0x00}}
		for i := 0; i < 3; i++ {
			b = append(b, keys[c.Intn(len(keys))]...)
			b = append(b, 0x02, 0x01, byte(i))
		}
		return b, "map-dup-keys"
	case 7: // map with a container key
		return []byte{0x82, 0x01, []byte{0x80, 0x81, 0x82}[c.Intn(3)], 0x00, 0x01, 0x01}, "map-container-key"
	case 8: // irregular bool
		return []byte{0x80, 0x02, 0x01, byte(c.Intn(4)), 0x01, byte(2 + c.Intn(250))}, "irregular-bool"
	case 9: // byte array longer than the input
		return append([]byte{0x00, 0xfe, 0xff, 0xff, 0xff, 0x7f}, c.Bytes(c.Intn(5))...), "bytes-overlong"
	case 10: // unknown tags
		return []byte{[]byte{0x03, 0x40, 0x83, 0x7f, 0xff}[c.Intn(5)], 0x01, 0x01}, "unknown-tag"
	case 11: // map count larger than the data
		return []byte{0x82, 0xfd, 0xff, 0xff, 0x01, 0x01, 0x01, 0x00}, "map-count-overlong"
	case 12: // nested maps and structs, valid
		return []byte{0x82, 0x01, 0x00, 0x01, 0x61, 0x81, 0x02, 0x82, 0x00, 0x80, 0x00}, "nested-valid"
	default: // empty input and lone tags
		return [][]byte{{}, {0x80}, {0x82}, {0x00}, {0x02}, {0x01}, {0x81, 0xfd}}[c.Intn(7)], "lone-tag"
	}
}

// boundaryBytes: the decoder's limits, probed on every run (depth MAX_COUNT, MAX_ARRAY_SIZE elements,
// MAX_INT_SIZE magnitude bytes), for each container kind.
func (d *driver) boundaryBytes() {
	nest := func(link []byte, k int, leaf []byte) []byte {
		var b []byte
		for i := 0; i < k; i++ {
			b = append(b, link...)
		}
		return append(b, leaf...)
	}
	links := [][]byte{{0x80, 0x01}, {0x81, 0x01}, {0x82, 0x01, 0x01, 0x01}} // array / struct / map{true: .}
	for li, link := range links {
		for _, k := range []int{types.MAX_COUNT, types.MAX_COUNT + 1} {
			d.doBytes(nest(link, k, []byte{0x01, 0x01}), "depth-boundary")
			if li == 0 {
				// innermost container empty: one more level is representable
				d.doBytes(nest(link, k, []byte{0x80, 0x00}), "depth-boundary")
			}
		}
	}
	for _, tag := range []byte{0x80, 0x81} {
		for _, n := range []int{constants.MAX_ARRAY_SIZE, constants.MAX_ARRAY_SIZE + 1} {
			b := append([]byte{tag}, varuint(uint64(n))...)
			for i := 0; i < n; i++ {
				b = append(b, 0x01, byte(i&1))
			}
			d.doBytes(b, "array-size-boundary")
		}
	}
	// a map is not limited in size
	{
		n := constants.MAX_ARRAY_SIZE + 1
		b := append([]byte{0x82}, varuint(uint64(n))...)
		for i := 0; i < n; i++ {
			b = append(b, 0x00, 0x02, byte(i), byte(i>>8), 0x01, 0x01)
		}
		d.doBytes(b, "map-size")
	}
	for _, n := range []int{constants.MAX_INT_SIZE, constants.MAX_INT_SIZE + 1} {
		for _, top := range []byte{0x01, 0x7f, 0x80, 0xff} {
			body := make([]byte, n)
			for i := range body {
				body[i] = byte(0x11 * (i%7 + 1))
			}
			body[n-1] = top
			d.doBytes(append(append([]byte{0x02}, varuint(uint64(n))...), body...), "int-size-boundary")
			// with a sign byte: n magnitude bytes, n+1 encoded bytes
			sign := byte(0x00)
			if top >= 0x80 {
				sign = 0xff
			}
			body2 := append(append([]byte{}, body...), sign)
			d.doBytes(append(append([]byte{0x02}, varuint(uint64(n+1))...), body2...), "int-size-boundary")
		}
	}
}

// ---------- size-limit boundary (implementation only; megabyte values are not sent to Coq) ----------

func (d *driver) sizeBoundary() {
	c := d.c
	max := constants.MAX_BYTEARRAY_SIZE
	// a byte array of n bytes encodes to 1 + 5 + n bytes (n >= 65536)
	for _, delta := range []int{-1, 0, 1} {
		n := max - 6 + delta
		c.Eval()
		v, err := types.VmValueFromBytes(make([]byte, n))
		if err != nil {
			c.Fail("size-boundary:construct", "VmValueFromBytes refused a byte array below MAX_BYTEARRAY_SIZE", n, err.Error(), nil)
			continue
		}
		sink := common.NewZeroCopySink(nil)
		serr := v.Serialize(sink)
		in := map[string]int{"bytearray_len": n, "encoded_len": n + 6}
		if delta <= 0 {
			if serr != nil {
				c.Fail("size-boundary:refused", "a value whose encoding fits MAX_BYTEARRAY_SIZE was refused", in, serr.Error(), "accepted")
				continue
			}
			var back types.VmValue
			if rerr := back.Deserialize(common.NewZeroCopySource(sink.Bytes())); rerr != nil {
				c.Fail("roundtrip:decode-error", "Serialize's output at the size limit is refused by Deserialize", in, rerr.Error(), nil)
			} else if bb, _ := back.AsBytes(); len(bb) != n {
				c.Fail("roundtrip:not-equal", "byte array at the size limit came back with another length", in, len(bb), n)
			}
			c.Count("size-boundary:accepted")
		} else {
			if serr == nil {
				c.Fail("size-boundary:accepted-over-limit", "a value whose encoding exceeds MAX_BYTEARRAY_SIZE was accepted", in, sink.Size(), "ESize")
			}
			c.Count("size-boundary:refused")
		}
	}
	// Deserialize: a byte array item of exactly MAX_BYTEARRAY_SIZE is accepted, one more is refused
	for _, delta := range []int{0, 1} {
		n := max + delta
		c.Eval()
		b := append([]byte{0x00}, varuint(uint64(n))...)
		b = append(b, make([]byte, n)...)
		var v types.VmValue
		err := v.Deserialize(common.NewZeroCopySource(b))
		if (err == nil) != (delta == 0) {
			c.Fail("size-boundary:item", "Deserialize's byte array item limit is not MAX_BYTEARRAY_SIZE", n, fmt.Sprint(err), "accepted iff len <= MAX_BYTEARRAY_SIZE")
		}
		c.Count("size-boundary:item")
	}
}

// ---------- run ----------

func Run(c *hx.Ctx) {
	c.CoqModule("Corr.C14")
	d := &driver{c: c}
	var in input
	if c.ReplayInput(&in) && in.Mode != "" {
		d.replay(in)
		d.runPending()
		return
	}
	for _, raw := range c.CorpusInputs() {
		var r input
		if json.Unmarshal(raw, &r) == nil && r.Mode != "" {
			d.replay(r)
		}
	}
	t0 := time.Now()
	phase := func(name string) {
		c.Note(fmt.Sprintf("phase %s: %d ms", name, time.Since(t0).Milliseconds()))
		t0 = time.Now()
	}
	// the documented witness, on every run
	d.queueWitness(!c.Quick())
	d.queueNestedFirstCycles()
	d.sizeBoundary()
	d.boundaryBytes()

	phase("size-boundary")
	// object histories through the real mutators
	for _, h := range fixedHistories() {
		d.doHistory(h, "fixed")
	}
	for i := 0; i < c.N(150, 1200); i++ {
		d.doHistory(d.randHistory([]string{"map", "map", "map", "arr", "struct"}[i%5]), "random")
	}
	phase("object histories")
	// key images
	for i := 0; i < c.N(60, 400); i++ {
		d.doKey(d.randPrim(true))
	}
	for _, s := range intBoundaries {
		z, _ := new(big.Int).SetString(s, 10)
		d.doKey(vInt(z.Int64()))
		d.doKey(vBig(z))
	}

	// acyclic graphs
	nG := c.N(300, 2400)
	for i := 0; i < nG; i++ {
		var prefix []byte
		if c.Intn(6) == 0 {
			prefix = c.Bytes(1 + c.Intn(6))
		}
		switch {
		case i%10 < 5:
			d.doGraph(d.randAcyclic(c.Intn(7), 4, i%50 == 3), "random", prefix)
		case i%10 == 5:
			// detector depth boundary through first elements
			k := types.MAX_STRUCT_DEPTH - 1 + c.Intn(4)
			d.doGraph(d.chain(k, 0, true, d.randPrim(false)), "first-chain-boundary", prefix)
		case i%10 == 6:
			// deep nesting through a non-first position: the detector does not see it
			k := types.MAX_STRUCT_DEPTH + c.Intn(30)
			d.doGraph(d.chain(k, 1+c.Intn(2), false, d.randPrim(false)), "deep-non-first", prefix)
		case i%10 == 7:
			d.doGraph(d.orderDependent(), "order-dependent", nil)
		case i%10 == 8:
			// wide: many references to one shared object
			g := d.randAcyclic(3, 3, false)
			if len(g.Objs) == 3 && g.Objs[0].Kind != "map" {
				for k := 0; k < 3+c.Intn(6); k++ {
					g.Objs[0].Items = append(g.Objs[0].Items, vRef(g.Objs[2].Kind, 2))
				}
			}
			d.doGraph(g, "shared", prefix)
		default:
			d.doGraph(d.randAcyclic(1+c.Intn(3), 2, false), "small", prefix)
		}
	}
	phase("acyclic graphs")
	// limits: oversized arrays, deep non-first nesting beyond the decoder's depth
	for _, n := range []int{constants.MAX_ARRAY_SIZE, constants.MAX_ARRAY_SIZE + 1} {
		var items []Val
		for i := 0; i < n; i++ {
			items = append(items, vBool(i%2 == 0))
		}
		d.doGraph(Graph{Objs: []Obj{{Kind: []string{"arr", "struct"}[n%2], Items: items}}, Root: vRef([]string{"arr", "struct"}[n%2], 0)}, "array-size-boundary", nil)
	}
	if !c.Quick() {
		for _, k := range []int{types.MAX_COUNT, types.MAX_COUNT + 1} {
			d.doGraph(d.chain(k, 1, false, vInt(1)), "decoder-depth-boundary", nil)
		}
	}

	phase("limit graphs")
	// cyclic graphs: a cycle at every position
	nC := c.N(24, 200)
	made := 0
	for tries := 0; made < nC && tries < 20*nC; tries++ {
		base := d.randAcyclic(1+c.Intn(5), 3, false)
		if tries%4 == 0 {
			base = d.chain(1+c.Intn(4), c.Intn(3), true, d.randPrim(false))
		}
		g, ok := d.addCycle(base, tries%3 == 0)
		if !ok {
			continue
		}
		made++
		d.queueCyclic(g, "cyclic")
	}
	d.runPending()
	phase("cyclic graphs (child processes)")

	// byte strings
	nB := c.N(520, 6000)
	var pool [][]byte
	for i := 0; i < 40; i++ {
		if b := d.serializeSpec(d.randAcyclic(c.Intn(5), 4, false)); b != nil {
			pool = append(pool, b)
		}
	}
	for i := 0; i < nB; i++ {
		switch i % 4 {
		case 0:
			b := c.Bytes([]int{1, 2, 3, 5, 9, 17, 40}[c.Intn(7)])
			b[0] = []byte{0x00, 0x01, 0x02, 0x80, 0x81, 0x82}[c.Intn(6)]
			if len(b) > 1 && c.Intn(2) == 0 {
				b[1] = byte(c.Intn(4))
			}
			d.doBytes(b, "random")
		case 1, 2:
			b := pool[c.Intn(len(pool))]
			for k := 0; k <= c.Intn(3); k++ {
				b = d.mutate(b)
			}
			d.doBytes(b, "mutated")
		default:
			if i%40 == 3 || c.Intn(3) > 0 {
				// the big structured cases (depth and array boundaries) only now and then
				b, kind := d.structuredBytes()
				if (kind == "depth-boundary" || kind == "array-size-boundary") && i%40 != 3 {
					b, kind = []byte{0x80, 0x01, 0x80, 0x00}, "nested-valid"
				}
				d.doBytes(b, kind)
			} else {
				d.doBytes(c.Bytes(c.Intn(12)), "random")
			}
		}
	}
	phase("byte strings")
}

func (d *driver) replay(in input) {
	switch in.Mode {
	case "graph":
		if in.G == nil {
			return
		}
		if in.G.cyclic() {
			for _, e := range []string{"Serialize", "BuildParamToNative"} {
				pf := in.Prefill
				if e != "Serialize" {
					pf = 0
				}
				d.pending = append(d.pending, pendingProbe{in: in, probe: Probe{G: *in.G, Entry: e, Prefill: pf}})
			}
			return
		}
		d.doGraph(*in.G, "replay", hx.UnHex(in.Prefix))
	case "bytes":
		d.doBytes(hx.UnHex(in.Hex), "replay")
	case "history":
		if in.H != nil {
			d.doHistory(*in.H, "replay")
		}
	}
}
