package c14

import "verif/harness/hx"

func init() { hx.Register("C14", Run) }

func Run(c *hx.Ctx) {
	c.CoqModule("Corr.C14")
}
