package c14

import (
	"bytes"
	"fmt"

	"github.com/ontio/ontology/vm/neovm/constants"
	"github.com/ontio/ontology/vm/neovm/types"

	"verif/harness/gen"
)

// Sites: the limit comparisons of the value codec. The locator pins the comparison operator
// (e.g. cmp:>): replacing `>` by `>=` makes the site disappear and the tie fails closed; changing
// the limit expression changes Gen/VmValueConsts.v and therefore the model the theorems are about.
var Sites = []gen.Site{
	{Name: "detect_depth", File: "vm/neovm/types/neovm_value.go", Func: "circularRefAndDepthDetection", Loc: "cmp:>:lhs",
		Subst: map[string]string{"depth": "depth"}, Vars: []string{"depth"}},
	{Name: "detect_limit", File: "vm/neovm/types/neovm_value.go", Func: "circularRefAndDepthDetection", Loc: "cmp:>:rhs",
		Subst: map[string]string{"MAX_STRUCT_DEPTH": "MAX_STRUCT_DEPTH"}},
	{Name: "deser_depth", File: "vm/neovm/types/neovm_value.go", Func: "deserialize", Loc: "cmp:>:lhs",
		Subst: map[string]string{"depth": "depth"}, Vars: []string{"depth"}},
	{Name: "deser_limit", File: "vm/neovm/types/neovm_value.go", Func: "deserialize", Loc: "cmp:>:rhs",
		Subst: map[string]string{"MAX_COUNT": "MAX_COUNT"}},
	{Name: "ser_size", File: "vm/neovm/types/neovm_value.go", Func: "Serialize", Loc: "cmp:>:lhs",
		Subst: map[string]string{"sink.Size()": "size"}, Vars: []string{"size"}},
	{Name: "ser_size_limit", File: "vm/neovm/types/neovm_value.go", Func: "Serialize", Loc: "cmp:>:rhs",
		Subst: map[string]string{"constants.MAX_BYTEARRAY_SIZE": "MAX_BYTEARRAY_SIZE"}},
	{Name: "bytes_len", File: "vm/neovm/types/neovm_value.go", Func: "VmValueFromBytes", Loc: "cmp:>:lhs",
		Subst: map[string]string{"len(val)": "len"}, Vars: []string{"len"}},
	{Name: "bytes_limit", File: "vm/neovm/types/neovm_value.go", Func: "VmValueFromBytes", Loc: "cmp:>:rhs",
		Subst: map[string]string{"constants.MAX_BYTEARRAY_SIZE": "MAX_BYTEARRAY_SIZE"}},
	{Name: "array_append_len", File: "vm/neovm/types/array_value.go", Func: "Append", Loc: "cmp:>=:lhs",
		Subst: map[string]string{"len(self.Data)": "len"}, Vars: []string{"len"}},
	{Name: "array_append_limit", File: "vm/neovm/types/array_value.go", Func: "Append", Loc: "cmp:>=:rhs",
		Subst: map[string]string{"constants.MAX_ARRAY_SIZE": "MAX_ARRAY_SIZE"}},
	{Name: "struct_append_len", File: "vm/neovm/types/struct_value.go", Func: "Append", Loc: "cmp:>=:lhs",
		Subst: map[string]string{"len(self.Data)": "len"}, Vars: []string{"len"}},
	{Name: "struct_append_limit", File: "vm/neovm/types/struct_value.go", Func: "Append", Loc: "cmp:>=:rhs",
		Subst: map[string]string{"constants.MAX_ARRAY_SIZE": "MAX_ARRAY_SIZE"}},
	{Name: "int_maglen", File: "vm/neovm/types/int_value.go", Func: "IntValFromBigInt", Loc: "cmp:>:lhs",
		Subst: map[string]string{"len(val.Bytes())": "maglen"}, Vars: []string{"maglen"}},
	{Name: "int_limit", File: "vm/neovm/types/int_value.go", Func: "IntValFromBigInt", Loc: "cmp:>:rhs",
		Subst: map[string]string{"constants.MAX_INT_SIZE": "MAX_INT_SIZE"}},
}

func produceConsts(repo string) ([]byte, []string) {
	tags := types.VerifC14Tags()
	z := func(v int) string { return fmt.Sprintf("(%d)%%Z", v) }
	n := func(v byte) string { return fmt.Sprintf("(%d)%%N", v) }
	cs := []gen.Const{
		{Name: "MAX_STRUCT_DEPTH", Type: "Z", Value: z(types.MAX_STRUCT_DEPTH), Comment: "vm/neovm/types.MAX_STRUCT_DEPTH"},
		{Name: "MAX_COUNT", Type: "Z", Value: z(types.MAX_COUNT), Comment: "vm/neovm/types.MAX_COUNT"},
		{Name: "MAX_ARRAY_SIZE", Type: "Z", Value: z(constants.MAX_ARRAY_SIZE), Comment: "vm/neovm/constants.MAX_ARRAY_SIZE"},
		{Name: "MAX_BYTEARRAY_SIZE", Type: "Z", Value: z(constants.MAX_BYTEARRAY_SIZE), Comment: "vm/neovm/constants.MAX_BYTEARRAY_SIZE"},
		{Name: "MAX_INT_SIZE", Type: "Z", Value: z(constants.MAX_INT_SIZE), Comment: "vm/neovm/constants.MAX_INT_SIZE"},
		{Name: "T_BYTEARRAY", Type: "N", Value: n(tags["bytearray"]), Comment: "types.bytearrayType"},
		{Name: "T_BOOL", Type: "N", Value: n(tags["bool"]), Comment: "types.boolType"},
		{Name: "T_INTEGER", Type: "N", Value: n(tags["integer"]), Comment: "types.integerType"},
		{Name: "T_BIGINT", Type: "N", Value: n(tags["bigint"]), Comment: "types.bigintType"},
		{Name: "T_INTEROP", Type: "N", Value: n(tags["interop"]), Comment: "types.interopType"},
		{Name: "T_ARRAY", Type: "N", Value: n(tags["array"]), Comment: "types.arrayType"},
		{Name: "T_STRUCT", Type: "N", Value: n(tags["struct"]), Comment: "types.structType"},
		{Name: "T_MAP", Type: "N", Value: n(tags["map"]), Comment: "types.mapType"},
	}
	var buf bytes.Buffer
	buf.Write(gen.EmitConsts("", cs))
	buf.WriteString("\n")
	var rs []gen.SiteResult
	var errs []string
	for _, s := range Sites {
		r := gen.TranslateSite(repo, s)
		if r.Err != "" {
			errs = append(errs, s.Name+": "+r.Err)
		}
		rs = append(rs, r)
	}
	buf.Write(gen.EmitSites("", rs))
	return buf.Bytes(), errs
}

func init() {
	gen.RegisterFile("VmValueConsts.v", produceConsts)
}
