package c14

import (
	"bytes"
	"fmt"
	"io"
	"math/big"
	"sort"
	"strings"

	"github.com/ontio/ontology/common"
	vmerrors "github.com/ontio/ontology/vm/neovm/errors"
	"github.com/ontio/ontology/vm/neovm/types"

	"verif/harness/hx"
)

// ---------- specification-side description of a VM value: a heap graph ----------

// Val is a value slot: a primitive or a reference to heap object Addr.
type Val struct {
	K    string `json:"k"`           // bytes | bool | int | big | arr | struct | map | interop
	B    string `json:"b,omitempty"` // hex, for bytes
	Bool bool   `json:"t,omitempty"`
	Z    string `json:"z,omitempty"` // decimal, for int (int64) and big (bigintType, any size)
	Addr int    `json:"a,omitempty"`
}

// Obj is a heap object: a list (array or struct backing store) or a map.
type Obj struct {
	Kind  string `json:"kind"` // arr | struct | map
	Items []Val  `json:"items,omitempty"`
	Keys  []Val  `json:"keys,omitempty"` // primitives
	Vals  []Val  `json:"vals,omitempty"`
}

type Graph struct {
	Objs []Obj `json:"objs"`
	Root Val   `json:"root"`
}

func vBytes(b []byte) Val      { return Val{K: "bytes", B: hx.Hex(b)} }
func vBool(b bool) Val         { return Val{K: "bool", Bool: b} }
func vInt(z int64) Val         { return Val{K: "int", Z: fmt.Sprint(z)} }
func vBig(z *big.Int) Val      { return Val{K: "big", Z: z.String()} }
func vRef(k string, a int) Val { return Val{K: k, Addr: a} }

func (v Val) isRef() bool { return v.K == "arr" || v.K == "struct" || v.K == "map" }
func (v Val) big() *big.Int {
	z, ok := new(big.Int).SetString(v.Z, 10)
	if !ok {
		panic("bad integer " + v.Z)
	}
	return z
}

// children of a reference as the encoders traverse them (all elements; map values).
func (g *Graph) children(v Val) []Val {
	if !v.isRef() || v.Addr >= len(g.Objs) {
		return nil
	}
	o := g.Objs[v.Addr]
	if o.Kind == "map" {
		return o.Vals
	}
	return o.Items
}

// cyclic reports whether a reference cycle is reachable from the root (at any position).
func (g *Graph) cyclic() bool {
	color := map[int]int{}
	var dfs func(v Val) bool
	dfs = func(v Val) bool {
		if !v.isRef() {
			return false
		}
		switch color[v.Addr] {
		case 1:
			return true
		case 2:
			return false
		}
		color[v.Addr] = 1
		for _, c := range g.children(v) {
			if dfs(c) {
				return true
			}
		}
		color[v.Addr] = 2
		return false
	}
	return dfs(g.Root)
}

// depth of the unfolding (acyclic graphs only): primitives 0, containers 1 + max.
func (g *Graph) depth() int {
	memo := map[int]int{}
	var d func(v Val) int
	d = func(v Val) int {
		if !v.isRef() {
			return 0
		}
		if x, ok := memo[v.Addr]; ok {
			return x
		}
		m := 0
		for _, c := range g.children(v) {
			if x := d(c); x > m {
				m = x
			}
		}
		memo[v.Addr] = m + 1
		return m + 1
	}
	return d(g.Root)
}

// orderFree: no reachable map has two or more entries, so the detector's answer cannot depend on
// Go's map iteration order.
func (g *Graph) orderFree() bool {
	seen := map[int]bool{}
	ok := true
	var w func(v Val)
	w = func(v Val) {
		if !v.isRef() || seen[v.Addr] {
			return
		}
		seen[v.Addr] = true
		if g.Objs[v.Addr].Kind == "map" && len(g.Objs[v.Addr].Keys) >= 2 {
			ok = false
		}
		for _, c := range g.children(v) {
			w(c)
		}
	}
	w(g.Root)
	return ok
}

// limits of a (finite) unfolding, checked on the specification side.
type limits struct {
	maxList   int // longest array/struct
	maxIntMag int // largest integer magnitude in bytes
	interop   bool
	nodes     int
}

func (g *Graph) limits() limits {
	var l limits
	seen := map[int]bool{}
	var w func(v Val)
	w = func(v Val) {
		l.nodes++
		switch v.K {
		case "int", "big":
			if n := len(v.big().Bytes()); n > l.maxIntMag {
				l.maxIntMag = n
			}
		case "interop":
			l.interop = true
		}
		if !v.isRef() || seen[v.Addr] {
			return
		}
		seen[v.Addr] = true
		o := g.Objs[v.Addr]
		if o.Kind != "map" && len(o.Items) > l.maxList {
			l.maxList = len(o.Items)
		}
		for _, k := range o.Keys {
			w(k)
		}
		for _, c := range g.children(v) {
			w(c)
		}
	}
	w(g.Root)
	return l
}

// ---------- building the implementation's value ----------

type built struct {
	root types.VmValue
	arrs map[int]*types.ArrayValue
	strs map[int]*types.StructValue
	maps map[int]*types.MapValue
}

type fakeInterop struct{}

func (fakeInterop) ToArray() []byte { return []byte{1, 2, 3} }

func (g *Graph) build() *built {
	b := &built{arrs: map[int]*types.ArrayValue{}, strs: map[int]*types.StructValue{}, maps: map[int]*types.MapValue{}}
	for a, o := range g.Objs {
		switch o.Kind {
		case "arr":
			b.arrs[a] = types.NewArrayValue()
		case "struct":
			b.strs[a] = types.NewStructValue()
		case "map":
			b.maps[a] = types.NewMapValue()
		default:
			panic("bad object kind " + o.Kind)
		}
	}
	for a, o := range g.Objs {
		switch o.Kind {
		case "arr":
			for _, it := range o.Items {
				// Data is appended directly: Append refuses beyond MAX_ARRAY_SIZE and the driver also
				// builds oversized arrays
				b.arrs[a].Data = append(b.arrs[a].Data, b.val(it))
			}
		case "struct":
			for _, it := range o.Items {
				b.strs[a].Data = append(b.strs[a].Data, b.val(it))
			}
		case "map":
			for i, k := range o.Keys {
				if err := b.maps[a].Set(b.val(k), b.val(o.Vals[i])); err != nil {
					panic("map key refused: " + err.Error())
				}
			}
		}
	}
	b.root = b.val(g.Root)
	return b
}

func (b *built) val(v Val) types.VmValue {
	switch v.K {
	case "bytes":
		r, err := types.VmValueFromBytes(hx.UnHex(v.B))
		if err != nil {
			panic(err)
		}
		return r
	case "bool":
		return types.VmValueFromBool(v.Bool)
	case "int":
		z := v.big()
		if !z.IsInt64() {
			panic("int out of int64")
		}
		return types.VmValueFromInt64(z.Int64())
	case "big":
		return types.VerifC14RawBig(v.big())
	case "arr":
		return types.VmValueFromArrayVal(b.arrs[v.Addr])
	case "struct":
		return types.VmValueFromStructVal(b.strs[v.Addr])
	case "map":
		return types.VmValueFromMapValue(b.maps[v.Addr])
	case "interop":
		return types.VmValueFromInteropValue(types.InteropValue{Data: fakeInterop{}})
	}
	panic("bad value kind " + v.K)
}

// ---------- Coq printers ----------

func coqPrim(v Val) string {
	switch v.K {
	case "bytes":
		return "PBytes " + hx.CoqBytes(hx.UnHex(v.B))
	case "bool":
		return "PBool " + hx.CoqBool(v.Bool)
	case "int":
		return "PInt " + hx.CoqZBig(v.big())
	case "big":
		return "PBig " + hx.CoqZBig(v.big())
	}
	panic("not a primitive: " + v.K)
}

func coqHval(v Val) string {
	switch v.K {
	case "arr":
		return fmt.Sprintf("HArr %d%%nat", v.Addr)
	case "struct":
		return fmt.Sprintf("HStruct %d%%nat", v.Addr)
	case "map":
		return fmt.Sprintf("HMap %d%%nat", v.Addr)
	case "interop":
		return "HInterop"
	}
	return "HPrim (" + coqPrim(v) + ")"
}

// coqHeap prints the heap. Map objects are printed from the content of the implementation's Go
// map (so a key collision the generator did not foresee cannot desynchronise model and code), in
// Go's iteration order, i.e. unsorted.
func (g *Graph) coqHeap(b *built) string {
	var objs []string
	for a, o := range g.Objs {
		if o.Kind == "map" {
			var es []string
			// find spec keys by image to print them with their spec-side type
			byImage := map[string]int{}
			for i, k := range o.Keys {
				byImage[string(specImage(k))] = i // later Set wins, as in the implementation
			}
			for img := range b.maps[a].Data {
				i, ok := byImage[img]
				if !ok {
					panic("implementation map holds a key the specification does not")
				}
				es = append(es, "("+coqPrim(o.Keys[i])+", "+coqHval(o.Vals[i])+")")
			}
			objs = append(objs, "OMap "+hx.CoqList(es))
			continue
		}
		var es []string
		for _, it := range o.Items {
			es = append(es, coqHval(it))
		}
		objs = append(objs, "OList "+hx.CoqList(es))
	}
	return hx.CoqList(objs)
}

// specImage is the specification of GetMapKey: the byte image of a primitive (written
// independently of the implementation: minimal two's complement little endian for integers).
func specImage(v Val) []byte {
	switch v.K {
	case "bytes":
		return hx.UnHex(v.B)
	case "bool":
		if v.Bool {
			return []byte{1}
		}
		return []byte{0}
	case "int", "big":
		return twosComplementLE(v.big())
	}
	panic("no image for " + v.K)
}

func twosComplementLE(z *big.Int) []byte {
	if z.Sign() == 0 {
		return nil
	}
	// smallest n with -2^(8n-1) <= z < 2^(8n-1)
	n := 1
	for {
		lim := new(big.Int).Lsh(big.NewInt(1), uint(8*n-1))
		neg := new(big.Int).Neg(lim)
		if z.Cmp(neg) >= 0 && z.Cmp(lim) < 0 {
			break
		}
		n++
	}
	m := new(big.Int).Set(z)
	if z.Sign() < 0 {
		m.Add(m, new(big.Int).Lsh(big.NewInt(1), uint(8*n)))
	}
	be := m.Bytes()
	out := make([]byte, n)
	for i := 0; i < len(be); i++ {
		out[i] = be[len(be)-1-i]
	}
	return out
}

// ---------- observing an implementation value as a tree ----------

// Tree is the canonical, finite observation of a VmValue (maps in sorted key-image order).
type Tree struct {
	K     string  `json:"k"`
	B     string  `json:"b,omitempty"`
	Bool  bool    `json:"t,omitempty"`
	Z     string  `json:"z,omitempty"`
	Items []*Tree `json:"items,omitempty"`
	Keys  []*Tree `json:"keys,omitempty"`
}

var tagName = func() map[byte]string {
	m := map[byte]string{}
	for k, v := range types.VerifC14Tags() {
		m[v] = k
	}
	return m
}()

// observe walks a value the implementation produced (Deserialize output: a finite tree).
func observe(v *types.VmValue, budget *int) *Tree {
	*budget--
	if *budget < 0 {
		panic("observe: value too large (cyclic?)")
	}
	switch tagName[v.VerifC14ValType()] {
	case "bytearray":
		b, _ := v.AsBytes()
		return &Tree{K: "bytes", B: hx.Hex(b)}
	case "bool":
		b, _ := v.AsBool()
		return &Tree{K: "bool", Bool: b}
	case "integer":
		return &Tree{K: "int", Z: v.VerifC14BigInt().String()}
	case "bigint":
		return &Tree{K: "big", Z: v.VerifC14BigInt().String()}
	case "array":
		a, _ := v.AsArrayValue()
		t := &Tree{K: "arr"}
		for i := range a.Data {
			t.Items = append(t.Items, observe(&a.Data[i], budget))
		}
		return t
	case "struct":
		a, _ := v.AsStructValue()
		t := &Tree{K: "struct"}
		for i := range a.Data {
			t.Items = append(t.Items, observe(&a.Data[i], budget))
		}
		return t
	case "map":
		m, _ := v.AsMapValue()
		t := &Tree{K: "map"}
		var keys []string
		for k := range m.Data {
			keys = append(keys, k)
		}
		sort.Slice(keys, func(i, j int) bool { return bytes.Compare([]byte(keys[i]), []byte(keys[j])) < 0 })
		for _, k := range keys {
			e := m.Data[k]
			t.Keys = append(t.Keys, observe(&e[0], budget))
			t.Items = append(t.Items, observe(&e[1], budget))
		}
		return t
	case "interop":
		return &Tree{K: "interop"}
	}
	panic(fmt.Sprintf("unknown value tag %#x", v.VerifC14ValType()))
}

func (t *Tree) coqPrim() string {
	switch t.K {
	case "bytes":
		return "PBytes " + hx.CoqBytes(hx.UnHex(t.B))
	case "bool":
		return "PBool " + hx.CoqBool(t.Bool)
	case "int":
		z, _ := new(big.Int).SetString(t.Z, 10)
		return "PInt " + hx.CoqZBig(z)
	case "big":
		z, _ := new(big.Int).SetString(t.Z, 10)
		return "PBig " + hx.CoqZBig(z)
	}
	panic("not a primitive tree: " + t.K)
}

func (t *Tree) coq() string {
	var sb strings.Builder
	t.coqTo(&sb)
	return sb.String()
}

func (t *Tree) coqTo(sb *strings.Builder) {
	switch t.K {
	case "arr", "struct":
		if t.K == "arr" {
			sb.WriteString("TArr [")
		} else {
			sb.WriteString("TStruct [")
		}
		for i, c := range t.Items {
			if i > 0 {
				sb.WriteString("; ")
			}
			c.coqTo(sb)
		}
		sb.WriteString("]")
	case "map":
		sb.WriteString("TMap [")
		for i, c := range t.Items {
			if i > 0 {
				sb.WriteString("; ")
			}
			k := t.Keys[i]
			if k.K == "arr" || k.K == "struct" || k.K == "map" || k.K == "interop" {
				panic("implementation map holds a non-primitive key")
			}
			sb.WriteString("(" + k.coqPrim() + ", ")
			c.coqTo(sb)
			sb.WriteString(")")
		}
		sb.WriteString("]")
	case "interop":
		sb.WriteString("TInterop")
	default:
		sb.WriteString("TPrim (" + t.coqPrim() + ")")
	}
}

// equalValue: the specification's notion of "an equal value" between the value described by the
// graph (unfolded from v) and an observed tree: same shape; integers equal as numbers whatever
// their representation; booleans and byte arrays keep their type; maps have the same key images,
// each key of the same type class with an equal value, in any order.
func (g *Graph) equalValue(v Val, t *Tree, why *string) bool {
	fail := func(f string, a ...interface{}) bool {
		if *why == "" {
			*why = fmt.Sprintf(f, a...)
		}
		return false
	}
	switch v.K {
	case "bytes":
		if t.K != "bytes" || t.B != v.B {
			return fail("bytes %s came back as %s %s", v.B, t.K, t.B)
		}
		return true
	case "bool":
		if t.K != "bool" || t.Bool != v.Bool {
			return fail("bool %v came back as %s %v", v.Bool, t.K, t.Bool)
		}
		return true
	case "int", "big":
		if t.K != "int" && t.K != "big" {
			return fail("integer %s came back as %s", v.Z, t.K)
		}
		if v.big().String() != t.Z {
			return fail("integer %s came back as %s", v.Z, t.Z)
		}
		z := v.big()
		if z.IsInt64() != (t.K == "int") {
			return fail("integer %s came back in the wrong representation %s", v.Z, t.K)
		}
		return true
	case "interop":
		return fail("interop value cannot round trip")
	}
	o := g.Objs[v.Addr]
	if t.K != v.K {
		return fail("%s came back as %s", v.K, t.K)
	}
	if o.Kind == "map" {
		// the implementation's map holds the last Set per image
		want := map[string]int{}
		for i, k := range o.Keys {
			want[string(specImage(k))] = i
		}
		if len(want) != len(t.Items) {
			return fail("map with %d keys came back with %d", len(want), len(t.Items))
		}
		for j, kt := range t.Keys {
			var img []byte
			switch kt.K {
			case "bytes":
				img = hx.UnHex(kt.B)
			case "bool":
				img = specImage(Val{K: "bool", Bool: kt.Bool})
			case "int", "big":
				img = specImage(Val{K: "big", Z: kt.Z})
			default:
				return fail("map key came back as %s", kt.K)
			}
			i, ok := want[string(img)]
			if !ok {
				return fail("map came back with a key image %x it did not have", img)
			}
			if !g.equalValue(o.Keys[i], kt, why) || !g.equalValue(o.Vals[i], t.Items[j], why) {
				return false
			}
			if j > 0 && bytes.Compare(prevImg(t.Keys[j-1]), img) >= 0 {
				return fail("observed map keys not strictly sorted")
			}
		}
		return true
	}
	if len(o.Items) != len(t.Items) {
		return fail("%s of %d elements came back with %d", v.K, len(o.Items), len(t.Items))
	}
	for i := range o.Items {
		if !g.equalValue(o.Items[i], t.Items[i], why) {
			return false
		}
	}
	return true
}

func prevImg(kt *Tree) []byte {
	switch kt.K {
	case "bytes":
		return hx.UnHex(kt.B)
	case "bool":
		return specImage(Val{K: "bool", Bool: kt.Bool})
	}
	return specImage(Val{K: "big", Z: kt.Z})
}

// treeLimits checks that a decoded value respects the VM's limits.
func (t *Tree) treeLimits(depth int, maxDepth *int, maxList *int, maxInt *int) {
	if depth > *maxDepth {
		*maxDepth = depth
	}
	if (t.K == "arr" || t.K == "struct") && len(t.Items) > *maxList {
		*maxList = len(t.Items)
	}
	if t.K == "int" || t.K == "big" {
		z, _ := new(big.Int).SetString(t.Z, 10)
		if n := len(z.Bytes()); n > *maxInt {
			*maxInt = n
		}
	}
	for _, c := range t.Items {
		c.treeLimits(depth+1, maxDepth, maxList, maxInt)
	}
}

// ---------- error classification ----------

func serErrName(err error) string {
	if err == nil {
		return ""
	}
	s := err.Error()
	switch {
	case strings.Contains(s, "circular reference"):
		return "ECircular"
	case strings.Contains(s, "length over the uplimit"):
		return "ESize"
	case strings.Contains(s, "not support type: interopType"):
		return "EInterop"
	case err == vmerrors.ERR_BAD_TYPE:
		return "EBadType"
	}
	return "other:" + s
}

func deserErrName(err error) string {
	switch {
	case err == io.ErrUnexpectedEOF:
		return "DEof"
	case err == common.ErrIrregularData:
		return "DIrregular"
	case err == vmerrors.ERR_OVER_MAX_ITEM_SIZE:
		return "DItemSize"
	case err == vmerrors.ERR_OVER_MAX_BIGINTEGER_SIZE:
		return "DIntSize"
	case err == vmerrors.ERR_OVER_MAX_ARRAY_SIZE:
		return "DArraySize"
	case strings.Contains(err.Error(), "depth over the uplimit"):
		return "DDepth"
	case err == vmerrors.ERR_BAD_TYPE:
		return "DBadType"
	}
	return "other:" + err.Error()
}
