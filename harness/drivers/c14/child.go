package c14

import (
	"bufio"
	"bytes"
	"context"
	"encoding/json"
	"fmt"
	"os"
	"os/exec"
	"runtime/debug"
	"strings"
	"time"

	"github.com/ontio/ontology/common"
)

// Calls that may not come back (unbounded recursion on a cyclic value: fatal stack overflow, which
// recover() cannot catch) run in a child process: the harness binary re-executed with
// VERIF_C14_CHILD=1. The child reads a JSON list of probes on stdin and answers one JSON line per
// probe; when it dies the parent records the crash for the probe it was working on and starts a
// new child for the rest. The child's goroutine stacks are capped (SetMaxStack), its heap has a
// soft limit, and the parent enforces a wall-clock timeout.

const childEnv = "VERIF_C14_CHILD"

// cap of a goroutine stack in the child: the calls it is given on cyclic values either stop after a
// few levels (detector, or size limit with an almost full sink) or never
const childMaxStack = 2 << 20

type Probe struct {
	G       Graph  `json:"g"`
	Entry   string `json:"entry"`   // Serialize | BuildParamToNative | Stringify | Dump
	Prefill int    `json:"prefill"` // bytes already in the sink
	// BigStack: run alone in a child with Go's default stack cap (1 GB) and a long timeout: the
	// witness with an empty sink, which the size limit stops only after ~2*10^5 nested calls
	BigStack bool `json:"bigstack,omitempty"`
}

type ProbeResult struct {
	I       int    `json:"i"`
	Err     string `json:"err"` // classified error name, "" when the call succeeded
	Out     string `json:"out"` // hex of what was appended to the sink (short outputs only)
	OutLen  int    `json:"outlen"`
	Crashed bool   `json:"crashed"`
	Timeout bool   `json:"timeout"`
	Detail  string `json:"detail"`
	Millis  int64  `json:"ms"`
}

func init() {
	if os.Getenv(childEnv) == "" {
		return
	}
	if os.Getenv(childEnv) != "big" {
		debug.SetMaxStack(childMaxStack)
	}
	debug.SetMemoryLimit(768 << 20)
	var probes []Probe
	if err := json.NewDecoder(bufio.NewReaderSize(os.Stdin, 1<<20)).Decode(&probes); err != nil {
		fmt.Fprintln(os.Stderr, "child: bad input:", err)
		os.Exit(3)
	}
	w := bufio.NewWriter(os.Stdout)
	for i, p := range probes {
		r := runProbe(p)
		r.I = i
		b, _ := json.Marshal(r)
		w.Write(b)
		w.WriteByte('\n')
		w.Flush()
	}
	os.Exit(0)
}

// runProbe performs one call on the implementation (in whatever process it is called).
func runProbe(p Probe) ProbeResult {
	var r ProbeResult
	b := p.G.build()
	t0 := time.Now()
	switch p.Entry {
	case "Serialize", "BuildParamToNative":
		sink := common.NewZeroCopySink(nil)
		if p.Prefill > 0 {
			sink.WriteBytes(make([]byte, p.Prefill))
		}
		var err error
		if p.Entry == "Serialize" {
			err = b.root.Serialize(sink)
		} else {
			err = b.root.BuildParamToNative(sink)
		}
		r.Err = serErrName(err)
		out := sink.Bytes()[p.Prefill:]
		r.OutLen = len(out)
		if len(out) <= 1<<16 {
			r.Out = hexOf(out)
		}
	case "Stringify":
		s, err := b.root.Stringify()
		if err != nil {
			r.Err = serErrName(err)
		}
		r.OutLen = len(s)
	case "Dump":
		s := b.root.Dump()
		if strings.HasPrefix(s, "error:") {
			r.Err = "ECircular"
		}
		r.OutLen = len(s)
	default:
		panic("bad entry " + p.Entry)
	}
	r.Millis = time.Since(t0).Milliseconds()
	return r
}

func hexOf(b []byte) string { return fmt.Sprintf("%x", b) }

// runInChildren runs the probes in child processes and returns one result per probe.
func runInChildren(all []Probe, perChild time.Duration) []ProbeResult {
	out := make([]ProbeResult, len(all))
	var small []Probe
	var smallIdx []int
	for i, p := range all {
		if p.BigStack {
			r := runBatch([]Probe{p}, 10*perChild, "big")
			out[i] = r[0]
			out[i].I = i
			continue
		}
		small = append(small, p)
		smallIdx = append(smallIdx, i)
	}
	for k, r := range runBatch(small, perChild, "1") {
		out[smallIdx[k]] = r
		out[smallIdx[k]].I = smallIdx[k]
	}
	return out
}

func runBatch(probes []Probe, perChild time.Duration, mode string) []ProbeResult {
	res := make([]ProbeResult, len(probes))
	self, err := os.Executable()
	if err != nil {
		panic(err)
	}
	start := 0
	for start < len(probes) {
		in, _ := json.Marshal(probes[start:])
		ctx, cancel := context.WithTimeout(context.Background(), perChild)
		cmd := exec.CommandContext(ctx, self)
		cmd.Env = append(os.Environ(), childEnv+"="+mode, "GOMEMLIMIT=768MiB", "GOTRACEBACK=none")
		cmd.Stdin = bytes.NewReader(in)
		var stdout, stderr bytes.Buffer
		cmd.Stdout = &stdout
		cmd.Stderr = &stderr
		runErr := cmd.Run()
		timedOut := ctx.Err() == context.DeadlineExceeded
		cancel()
		done := 0
		sc := bufio.NewScanner(&stdout)
		sc.Buffer(make([]byte, 1<<20), 1<<26)
		for sc.Scan() {
			var r ProbeResult
			if json.Unmarshal(sc.Bytes(), &r) != nil {
				break
			}
			r.I += start
			res[r.I] = r
			done++
		}
		if runErr == nil && done == len(probes)-start {
			break
		}
		// the child died while working on probe start+done
		k := start + done
		if k >= len(probes) {
			break
		}
		detail := firstLines(stderr.String(), 3)
		res[k] = ProbeResult{I: k, Crashed: !timedOut, Timeout: timedOut, Detail: detail}
		start = k + 1
	}
	return res
}

func firstLines(s string, n int) string {
	lines := strings.Split(s, "\n")
	var keep []string
	for _, l := range lines {
		l = strings.TrimSpace(l)
		if l == "" || strings.HasPrefix(l, "runtime: sp=") {
			continue
		}
		keep = append(keep, l)
		if len(keep) == n {
			break
		}
	}
	return strings.Join(keep, " | ")
}
