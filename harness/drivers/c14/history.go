package c14

import (
	"bytes"
	"fmt"
	"sort"
	"strings"

	"github.com/ontio/ontology/common"
	"github.com/ontio/ontology/vm/neovm/types"

	"verif/harness/hx"
)

// Object histories: ONE map / array / struct object is taken through a sequence of the real
// mutators (MapValue.Set/Remove/Reset, ArrayValue.Append/RemoveAt, the in-place reversal REVERSE
// performs on Data, StructValue.Append/Clone), while the specification tracks the history as a
// plain association list (maps) or list (arrays, structs). Afterwards the mutated object - alone and
// nested twice in an outer array with a sibling - is serialized, decoded and compared with the
// specification; KEYS/VALUES/Get/Stringify/Dump are compared as well; and the Coq model (whose map IS
// an association list) gets the specification's value with the bytes the mutated object produced.

type HOp struct {
	Op string `json:"op"` // map: set remove reset | arr: append removeat reverse | struct: append clone reverse
	K  *Val   `json:"k,omitempty"`
	V  *Val   `json:"v,omitempty"`
	I  int    `json:"i,omitempty"`
}

type History struct {
	Kind string `json:"kind"` // map | arr | struct
	Ops  []HOp  `json:"ops"`
}

type specEntry struct{ k, v Val }

// ---------- specification-side renderings ----------

func specStringifyPrim(v Val) string {
	bs := specImage(v)
	if len(bs) == 0 {
		bs = []byte{0}
	}
	return fmt.Sprintf("bytes(hex:%x)", bs)
}

func specDumpPrim(v Val) string {
	switch v.K {
	case "bool":
		return fmt.Sprintf("bool(%v)", v.Bool)
	case "int":
		return fmt.Sprintf("int(%s)", v.Z)
	case "big":
		return fmt.Sprintf("bigint(0x%x)", v.big())
	case "bytes":
		return fmt.Sprintf("string(\"%s\")", hx.UnHex(v.B))
	}
	panic("not a primitive")
}

// samePrim: a stored (not round-tripped) primitive against the specification's: same type class and
// value, whatever the integer representation.
func samePrim(v Val, t *Tree) bool {
	switch v.K {
	case "bytes":
		return t.K == "bytes" && t.B == v.B
	case "bool":
		return t.K == "bool" && t.Bool == v.Bool
	case "int", "big":
		return (t.K == "int" || t.K == "big") && t.Z == v.big().String()
	}
	return false
}

func sortedEntries(es []specEntry) []specEntry {
	out := append([]specEntry{}, es...)
	sort.SliceStable(out, func(i, j int) bool { return bytes.Compare(specImage(out[i].k), specImage(out[j].k)) < 0 })
	return out
}

// ---------- one history ----------

func (d *driver) doHistory(h History, kind string) {
	c := d.c
	c.Eval()
	in := input{Mode: "history", H: &h, Kind: kind}
	c.Count("history:" + h.Kind + ":" + kind)
	fail := func(class, clause string, got, want interface{}) { c.Fail(class, clause, in, got, want) }

	var m *types.MapValue
	var a *types.ArrayValue
	var s *types.StructValue
	var entries []specEntry // map spec, insertion order
	var items []Val         // list spec
	switch h.Kind {
	case "map":
		m = types.NewMapValue()
	case "arr":
		a = types.NewArrayValue()
	case "struct":
		s = types.NewStructValue()
	default:
		panic("bad history kind")
	}
	prim := func(v *Val) types.VmValue { return (&built{}).val(*v) }
	find := func(k Val) int {
		img := specImage(k)
		for i, e := range entries {
			if bytes.Equal(specImage(e.k), img) {
				return i
			}
		}
		return -1
	}
	var runErr string
	panicked, msg := hx.Recover(func() {
		for n, op := range h.Ops {
			c.Count("history-op:" + h.Kind + ":" + op.Op)
			var err error
			wantErr := false
			switch h.Kind + ":" + op.Op {
			case "map:set":
				err = m.Set(prim(op.K), prim(op.V))
				if i := find(*op.K); i >= 0 {
					entries[i] = specEntry{*op.K, *op.V}
				} else {
					entries = append(entries, specEntry{*op.K, *op.V})
				}
			case "map:remove":
				err = m.Remove(prim(op.K))
				if i := find(*op.K); i >= 0 {
					entries = append(entries[:i:i], entries[i+1:]...)
					c.Count("history-op:map:remove-present")
				} else {
					c.Count("history-op:map:remove-absent")
				}
			case "map:reset":
				m.Reset()
				entries = nil
			case "arr:append":
				err = a.Append(prim(op.V))
				items = append(items, *op.V)
			case "struct:append":
				err = s.Append(prim(op.V))
				items = append(items, *op.V)
			case "arr:removeat":
				err = a.RemoveAt(int64(op.I))
				if op.I < 0 || op.I >= len(items) {
					wantErr = true
				} else {
					items = append(items[:op.I:op.I], items[op.I+1:]...)
				}
			case "arr:reverse", "struct:reverse":
				// what the REVERSE opcode does to Data
				var data []types.VmValue
				if a != nil {
					data = a.Data
				} else {
					data = s.Data
				}
				for i, j := 0, len(data)-1; i < j; i, j = i+1, j-1 {
					data[i], data[j] = data[j], data[i]
				}
				for i, j := 0, len(items)-1; i < j; i, j = i+1, j-1 {
					items[i], items[j] = items[j], items[i]
				}
			case "struct:clone":
				var cl *types.StructValue
				cl, err = s.Clone()
				if err == nil {
					s = cl // the history goes on with the clone
				}
			default:
				panic("bad op " + h.Kind + ":" + op.Op)
			}
			if (err != nil) != wantErr && runErr == "" {
				runErr = fmt.Sprintf("op %d (%s): error %v, specification expects error=%v", n, op.Op, err, wantErr)
			}
		}
	})
	if panicked {
		fail("panic:mutator", "a container mutator panicked", msg, nil)
		return
	}
	if runErr != "" {
		fail("mutator:error-mismatch", "a container mutator succeeded/failed against the specification", runErr, nil)
		return
	}

	// the specification's value after the history: object 1; object 0 = [obj, 7, obj]
	obj := Obj{Kind: h.Kind}
	if h.Kind == "map" {
		for _, e := range entries {
			obj.Keys = append(obj.Keys, e.k)
			obj.Vals = append(obj.Vals, e.v)
		}
	} else {
		obj.Items = append([]Val{}, items...)
	}
	g := Graph{Objs: []Obj{{Kind: "arr", Items: []Val{vRef(h.Kind, 1), vInt(7), vRef(h.Kind, 1)}}, obj}}
	var objVal types.VmValue
	switch h.Kind {
	case "map":
		objVal = types.VmValueFromMapValue(m)
	case "arr":
		objVal = types.VmValueFromArrayVal(a)
	default:
		objVal = types.VmValueFromStructVal(s)
	}
	outer := types.NewArrayValue()
	outer.Append(objVal)
	outer.Append(types.VmValueFromInt64(7))
	outer.Append(objVal)
	outerVal := types.VmValueFromArrayVal(outer)

	nEntries := len(entries) + len(items)
	if len(h.Ops) > 1 {
		c.Nontrivial(fmt.Sprintf("h%v", h))
	}
	c.Sample(map[string]interface{}{"kind": "history:" + kind, "history": h})

	// ----- Serialize -> Deserialize -> compare, for the object and for the nesting -----
	for _, root := range []struct {
		name string
		v    types.VmValue
		spec Val
	}{{"object", objVal, vRef(h.Kind, 1)}, {"nested", outerVal, vRef("arr", 0)}} {
		g.Root = root.spec
		sink := common.NewZeroCopySink(nil)
		var serr error
		v := root.v
		if p, msg := hx.Recover(func() { serr = v.Serialize(sink) }); p {
			fail("panic:serialize", "Serialize panicked on a mutated object ("+root.name+")", msg, nil)
			return
		}
		if serr != nil {
			fail("roundtrip:after-mutation", "Serialize refused a small acyclic value built by a mutation history ("+root.name+")", serr.Error(), "bytes")
			return
		}
		enc := append([]byte{}, sink.Bytes()...)
		var back types.VmValue
		var rerr error
		src := common.NewZeroCopySource(enc)
		if p, msg := hx.Recover(func() { rerr = back.Deserialize(src) }); p {
			fail("panic:deserialize", "Deserialize panicked on the encoding of a mutated object", msg, nil)
			return
		}
		if rerr != nil || src.Len() != 0 {
			fail("serialize:count-mismatch", "the encoding of a mutated object ("+root.name+") does not decode completely: its element count and its elements disagree",
				map[string]interface{}{"bytes": hx.Hex(enc), "error": fmt.Sprint(rerr), "unread": src.Len(), "spec_entries": nEntries}, "decodes to the specification's value, nothing unread")
		} else {
			budget := 1 << 20
			t := observe(&back, &budget)
			why := ""
			if !g.equalValue(g.Root, t, &why) {
				fail("roundtrip:after-mutation", "a mutated object ("+root.name+") reads back as a value different from the history's result",
					map[string]interface{}{"bytes": hx.Hex(enc), "why": why}, "the specification's value")
			} else {
				c.Count("history:roundtrip-ok")
			}
		}
		// model: the specification's value must give exactly these bytes
		det := h.Kind != "map" || len(entries) < 2
		c.Case(fmt.Sprintf("CSer %s (%s) 0 [] %d%%nat %s (SOk %s)", g.coqHeapSpec(), coqHval(g.Root), g.depth()+2, hx.CoqBool(det), hx.CoqBytes(enc)), in)
	}

	// ----- the other readers of the object -----
	switch h.Kind {
	case "map":
		sorted := sortedEntries(entries)
		keys := m.GetMapSortedKey()
		vals, _ := m.GetValues()
		if len(keys) != len(sorted) || len(vals) != len(sorted) {
			fail("keys-values:after-mutation", "KEYS/VALUES of a mutated map have the wrong length", map[string]int{"keys": len(keys), "values": len(vals)}, len(sorted))
		} else {
			for i, e := range sorted {
				budget := 100
				kt, vt := observe(&keys[i], &budget), observe(&vals[i], &budget)
				if !samePrim(e.k, kt) || !samePrim(e.v, vt) {
					fail("keys-values:after-mutation", "KEYS/VALUES of a mutated map differ from the sorted association list",
						fmt.Sprintf("position %d: key %s value %s", i, kt.coq(), vt.coq()), fmt.Sprintf("key %s value %s", coqPrim(e.k), coqPrim(e.v)))
					break
				}
			}
		}
		for _, e := range sorted {
			got, ok, err := m.Get(prim(&e.k))
			budget := 100
			if err != nil || !ok || !samePrim(e.v, observe(&got, &budget)) {
				fail("map-get:after-mutation", "Get on a mutated map misses or misreports a key the history left in it", fmt.Sprint(hx.Hex(specImage(e.k)), ok, err), nil)
				break
			}
		}
		if len(m.Data) != len(sorted) {
			fail("map-get:after-mutation", "a mutated map holds a different number of keys than the history left", len(m.Data), len(sorted))
		}
		var sb, db strings.Builder
		for _, e := range sorted {
			fmt.Fprintf(&sb, "%x: %s,", specImage(e.k), specStringifyPrim(e.v))
			fmt.Fprintf(&db, "%s: %s,", specDumpPrim(e.k), specDumpPrim(e.v))
		}
		wantS := fmt.Sprintf("map[%d]{%s}", len(sorted), sb.String())
		wantD := fmt.Sprintf("map[%d]{%s}", len(sorted), db.String())
		if gotS, err := objVal.Stringify(); err != nil || gotS != wantS {
			fail("stringify:after-mutation", "Stringify of a mutated map differs from the specification's rendering", fmt.Sprint(gotS, err), wantS)
		}
		if gotD := objVal.Dump(); gotD != wantD {
			fail("stringify:after-mutation", "Dump of a mutated map differs from the specification's rendering", gotD, wantD)
		}
	default:
		var sb, db strings.Builder
		for _, it := range items {
			sb.WriteString(specStringifyPrim(it) + ", ")
			db.WriteString(specDumpPrim(it) + ", ")
		}
		name := "array"
		if h.Kind == "struct" {
			name = "struct"
		}
		wantS := fmt.Sprintf("%s[%d]{%s}", name, len(items), sb.String())
		wantD := fmt.Sprintf("%s[%d]{%s}", name, len(items), db.String())
		if gotS, err := objVal.Stringify(); err != nil || gotS != wantS {
			fail("stringify:after-mutation", "Stringify of a mutated "+name+" differs from the specification's rendering", fmt.Sprint(gotS, err), wantS)
		}
		if gotD := objVal.Dump(); gotD != wantD {
			fail("stringify:after-mutation", "Dump of a mutated "+name+" differs from the specification's rendering", gotD, wantD)
		}
	}
}

// ---------- generators ----------

// keyPool: primitives with pairwise distinct images whose sorted order interleaves, so that a
// Remove of a key that is not in the map falls before, between or after the keys that are.
func keyPool() []Val {
	return []Val{
		vBytes([]byte("a")), vBytes([]byte("b")), vBytes([]byte("c")), vBytes([]byte("d")), vBytes([]byte("e")), vBytes([]byte("f")),
		vBytes(nil), vInt(1), vInt(100), vInt(300), vInt(-1), vBool(true), vBytes([]byte("cc")), vBytes([]byte{0xff, 0xff}),
	}
}

func (d *driver) randHistory(kind string) History {
	c := d.c
	h := History{Kind: kind}
	pool := keyPool()
	n := 2 + c.Intn(10)
	size := 0
	for i := 0; i < n; i++ {
		v := d.randPrim(false)
		switch kind {
		case "map":
			k := pool[c.Intn(len(pool))]
			switch r := c.Intn(10); {
			case r < 5:
				h.Ops = append(h.Ops, HOp{Op: "set", K: &k, V: &v})
			case r < 9:
				h.Ops = append(h.Ops, HOp{Op: "remove", K: &k})
			default:
				h.Ops = append(h.Ops, HOp{Op: "reset"})
			}
		case "arr":
			switch r := c.Intn(10); {
			case r < 6 || size == 0:
				h.Ops = append(h.Ops, HOp{Op: "append", V: &v})
				size++
			case r < 9:
				i := c.Intn(size + 1) // size = out of bounds: refused, nothing changes
				h.Ops = append(h.Ops, HOp{Op: "removeat", I: i})
				if i < size {
					size--
				}
			default:
				h.Ops = append(h.Ops, HOp{Op: "reverse"})
			}
		default:
			switch r := c.Intn(10); {
			case r < 7:
				h.Ops = append(h.Ops, HOp{Op: "append", V: &v})
			case r < 9:
				h.Ops = append(h.Ops, HOp{Op: "clone"})
			default:
				h.Ops = append(h.Ops, HOp{Op: "reverse"})
			}
		}
	}
	return h
}

// fixedHistories: on every run. Maps {a,c,e} (and variants) with one Remove of an absent key before,
// between and after the present keys; removal of present keys; re-Set of removed keys; Reset.
func fixedHistories() []History {
	k := func(s string) *Val { v := vBytes([]byte(s)); return &v }
	n := func(i int64) *Val { v := vInt(i); return &v }
	set := func(key string, val int64) HOp { return HOp{Op: "set", K: k(key), V: n(val)} }
	rem := func(key string) HOp { return HOp{Op: "remove", K: k(key)} }
	base := []HOp{set("a", 1), set("c", 2), set("e", 3)}
	with := func(ops ...HOp) History { return History{Kind: "map", Ops: append(append([]HOp{}, base...), ops...)} }
	hs := []History{
		with(), with(rem("b")), with(rem("d")), with(rem("0")), with(rem("f")), with(rem("")),
		with(rem("b"), rem("d")), with(rem("c")), with(rem("c"), set("c", 9)), with(rem("c"), rem("c")), with(rem("b"), set("b", 5)),
		with(rem("a"), rem("c"), rem("e")), with(rem("a"), rem("c"), rem("e"), rem("a"), set("b", 1)),
		with(HOp{Op: "reset"}), with(HOp{Op: "reset"}, set("c", 4), rem("a")), with(set("c", 7), rem("cc")),
		{Kind: "map", Ops: []HOp{rem("a")}}, {Kind: "map", Ops: []HOp{set("c", 1), rem("a"), rem("e")}},
	}
	// integer keys: 1 < 300 in image order ([01] < [2c 01]); remove the absent 100 ([64]) between them
	ik := func(i int64) *Val { v := vInt(i); return &v }
	hs = append(hs, History{Kind: "map", Ops: []HOp{{Op: "set", K: ik(1), V: n(1)}, {Op: "set", K: ik(300), V: n(2)}, {Op: "remove", K: ik(100)}}})
	app := func(i int64) HOp { return HOp{Op: "append", V: n(i)} }
	hs = append(hs,
		History{Kind: "arr", Ops: []HOp{app(1), app(2), app(3), {Op: "removeat", I: 1}, {Op: "reverse"}, app(4), {Op: "removeat", I: 5}, {Op: "removeat", I: 0}}},
		History{Kind: "arr", Ops: []HOp{app(1), {Op: "removeat", I: 0}, {Op: "removeat", I: 0}, app(2)}},
		History{Kind: "struct", Ops: []HOp{app(1), app(2), {Op: "clone"}, app(3), {Op: "reverse"}, {Op: "clone"}}},
		History{Kind: "struct", Ops: []HOp{{Op: "clone"}, app(1)}},
	)
	return hs
}

// coqHeapSpec prints the heap exactly as the specification describes it (maps as the association
// list the history left, in insertion order).
func (g *Graph) coqHeapSpec() string {
	var objs []string
	for _, o := range g.Objs {
		var es []string
		if o.Kind == "map" {
			for i, k := range o.Keys {
				es = append(es, "("+coqPrim(k)+", "+coqHval(o.Vals[i])+")")
			}
			objs = append(objs, "OMap "+hx.CoqList(es))
			continue
		}
		for _, it := range o.Items {
			es = append(es, coqHval(it))
		}
		objs = append(objs, "OList "+hx.CoqList(es))
	}
	return hx.CoqList(objs)
}
