package c08

import (
	"encoding/binary"
	"fmt"
	"go/ast"
	"go/parser"
	"go/token"
	"math/big"
	"path/filepath"
	"sort"
	"strconv"

	ethcomm "github.com/ethereum/go-ethereum/common"
	"github.com/ethereum/go-ethereum/crypto"
	"github.com/ontio/ontology/common"
	scommon "github.com/ontio/ontology/core/store/common"
	"github.com/ontio/ontology/smartcontract/service/native/utils"

	"verif/harness/hx"
)

// ---------- storage layout helpers for pre-populating the backend ----------

func keyAccount(a ethcomm.Address) []byte {
	return append([]byte{byte(scommon.ST_ETH_ACCOUNT)}, a[:]...)
}
func keyCode(h ethcomm.Hash) []byte { return append([]byte{byte(scommon.ST_ETH_CODE)}, h[:]...) }
func keyBalance(a ethcomm.Address) []byte {
	k := append([]byte{byte(scommon.ST_STORAGE)}, utils.OngContractAddress[:]...)
	return append(k, a[:]...)
}
func keySlot(a ethcomm.Address, s ethcomm.Hash) []byte {
	k := append([]byte{byte(scommon.ST_STORAGE)}, a[:]...)
	return append(k, s[:]...)
}

func rawAccount(nonce uint64, h ethcomm.Hash) []byte {
	b := make([]byte, 8, 40)
	binary.LittleEndian.PutUint64(b, nonce)
	return append(b, h[:]...)
}

func varBytes(d []byte) []byte {
	sink := common.NewZeroCopySink(nil)
	sink.WriteVarBytes(d)
	return sink.Bytes()
}

// rawBalance: the native-token storage item of v (version 0: integer ONG as uint64; version 1: neo bytes).
func rawBalance(v *big.Int) []byte {
	scale := big.NewInt(1000000000)
	q, r := new(big.Int).QuoRem(v, scale, new(big.Int))
	if r.Sign() == 0 && q.IsUint64() {
		b := make([]byte, 8)
		binary.LittleEndian.PutUint64(b, q.Uint64())
		return append([]byte{0}, varBytes(b)...)
	}
	return append([]byte{1}, varBytes(common.BigIntToNeoBytes(v))...)
}

// Words and addresses are drawn from shapes that have a short Coq form (see coqWord).
func wordLow(n uint32) []byte {
	b := make([]byte, 32)
	binary.BigEndian.PutUint32(b[28:], n)
	return b
}
func wordHigh(n uint32) []byte {
	b := make([]byte, 32)
	binary.BigEndian.PutUint32(b[:4], n)
	return b
}
func (g *hgen) word() []byte {
	switch g.c.Intn(3) {
	case 0:
		return wordLow(g.c.Rng.Uint32())
	case 1:
		return wordHigh(g.c.Rng.Uint32() | 0x80000000)
	default:
		return wordLow(uint32(g.c.Intn(300)))
	}
}

// ---------- size thresholds read from the source ----------

// sourceConstants returns every integer literal between 64 and 16384 that occurs in the memdb and
// StateDB/CacheDB sources (buffer capacities, thresholds). Bursts of overwrites are sized around
// them, so a behaviour that only starts beyond some buffer size is reached whatever the size is.
var (
	srcConstsDone bool
	srcConsts     []int
)

func sourceConstants(repo string) []int {
	if srcConstsDone {
		return srcConsts
	}
	srcConstsDone = true
	seen := map[int]bool{}
	for _, f := range []string{"core/store/overlaydb/memdb.go", "core/store/overlaydb/overlaydb.go",
		"smartcontract/storage/statedb.go", "smartcontract/storage/cachedb.go"} {
		fset := token.NewFileSet()
		af, err := parser.ParseFile(fset, filepath.Join(repo, f), nil, 0)
		if err != nil {
			continue
		}
		ast.Inspect(af, func(n ast.Node) bool {
			if bl, ok := n.(*ast.BasicLit); ok && bl.Kind == token.INT {
				if v, err := strconv.ParseInt(bl.Value, 0, 64); err == nil && v >= 64 && v <= 16384 {
					seen[int(v)] = true
				}
			}
			return true
		})
	}
	for v := range seen {
		srcConsts = append(srcConsts, v)
	}
	sort.Ints(srcConsts)
	return srcConsts
}

// bytes one SetState overwrite appends to the append-only kv buffer: prefix + address + slot + value
const burstStride = 1 + 20 + 32 + 32

// burst: N overwrites of one slot (one step of the history; getters are read after the last write).
func (g *hgen) burst() Op {
	n := 10 + g.c.Intn(51)
	if cs := sourceConstants(g.c.Repo); len(cs) > 0 && g.c.Intn(4) > 0 {
		n = cs[g.c.Intn(len(cs))]/burstStride + 1 + []int{-1, 0, 1, 2, 3, 6}[g.c.Intn(6)]
		if g.c.Intn(4) == 0 {
			n *= 2 // garbage above twice the size as well (thresholds relative to the live content)
		}
	}
	if n < 2 {
		n = 2
	}
	if n > 420 {
		n = 420
	}
	return Op{Op: "Burst", A: g.addr(), S: g.slot(), N: uint64(n), Idx: int64(1 + g.c.Intn(1<<30))}
}

// prologue: an earlier transaction that leaves committed accounts, balances, code and storage.
type committed struct {
	nonce   uint64
	hasCode bool
	bal     string
}

var safeAmounts = []string{"1", "7", "1000000000", "1500000000", "5000000000", "128", "18446744073709551615", "999999999000000000"}

func (g *hgen) prologue() {
	g.comm = make([]committed, len(g.h.Addrs))
	for a := range g.h.Addrs {
		if g.c.Intn(4) > 0 {
			n := uint64(1 + g.c.Intn(9))
			g.h.Pre = append(g.h.Pre, Op{Op: "SetNonce", A: a, N: n})
			g.comm[a].nonce = n
		}
		if g.c.Intn(3) == 0 {
			g.h.Pre = append(g.h.Pre, Op{Op: "SetCode", A: a, Code: hx.Hex(g.c.Bytes(1 + g.c.Intn(6)))})
			g.comm[a].hasCode = true
		}
		if g.c.Intn(4) > 0 {
			am := safeAmounts[g.c.Intn(len(safeAmounts))]
			g.h.Pre = append(g.h.Pre, Op{Op: "AddBalance", A: a, Amt: am})
			g.comm[a].bal = am
		}
		for s := range g.h.Slots {
			if g.c.Intn(2) == 0 {
				g.h.Pre = append(g.h.Pre, Op{Op: "SetState", A: a, S: s, Val: hx.Hex(g.word())})
			}
		}
	}
}

// deletions: ops that turn committed keys into deletion marks of the transaction memdb
// (an emptied account, a balance brought to zero, a self-destruct).
func (g *hgen) deletions() []Op {
	var out []Op
	for a, cm := range g.comm {
		if cm.nonce != 0 && !cm.hasCode && g.c.Intn(3) > 0 {
			out = append(out, Op{Op: "SetNonce", A: a, N: 0})
		}
		if cm.bal != "" && g.c.Intn(3) > 0 {
			out = append(out, Op{Op: "SubBalance", A: a, Amt: cm.bal})
		}
		if (cm.nonce != 0 || cm.hasCode) && g.c.Intn(5) == 0 {
			out = append(out, Op{Op: "Suicide", A: a})
		}
	}
	g.c.Rng.Shuffle(len(out), func(i, j int) { out[i], out[j] = out[j], out[i] })
	return out
}

// ---------- generator ----------

type hgen struct {
	c     *hx.Ctx
	h     *Hist
	depth int        // expected number of live snapshots
	added [][]string // amounts added per address
	logID uint64
	vals  []string // values written so far (hex)
	codes []string
	comm  []committed // what the prologue committed, per address
}

var amounts = []string{"0", "1", "7", "127", "128", "255", "256", "32767", "32768", "999999999", "1000000000", "1000000001",
	"1500000000", "5000000000", "18446744073709551615", "18446744073709551615000000000",
	"18446744073709551616000000000", "18446744073709551616000000001", "340282366920938463463374607431768211455"}

func (g *hgen) amount() string {
	switch g.c.Intn(4) {
	case 0:
		return new(big.Int).SetUint64(g.c.Rng.Uint64() >> uint(g.c.Intn(64))).String()
	case 1:
		return new(big.Int).Mul(new(big.Int).SetUint64(uint64(g.c.Intn(1000))), big.NewInt(1000000000)).String()
	default:
		return amounts[g.c.Intn(len(amounts))]
	}
}

func (g *hgen) value() string {
	switch g.c.Intn(6) {
	case 0:
		return hx.Hex(make([]byte, 32))
	case 1:
		b := make([]byte, 32)
		b[31] = byte(1 + g.c.Intn(255))
		return hx.Hex(b)
	case 2:
		if len(g.vals) > 0 {
			return g.vals[g.c.Intn(len(g.vals))]
		}
		fallthrough
	case 3:
		b := make([]byte, 32)
		for i := range b {
			b[i] = 0xff
		}
		return hx.Hex(b)
	default:
		return hx.Hex(g.word())
	}
}

func (g *hgen) code() string {
	switch g.c.Intn(5) {
	case 0:
		return ""
	case 1:
		if len(g.codes) > 0 {
			return g.codes[g.c.Intn(len(g.codes))]
		}
		fallthrough
	case 2:
		return hx.Hex(g.c.Bytes(1 + g.c.Intn(4)))
	case 3:
		return hx.Hex(g.c.Bytes(33 + g.c.Intn(8)))
	default:
		return hx.Hex([]byte{0, 0, byte(g.c.Intn(3))})
	}
}

func (g *hgen) addr() int { return g.c.Intn(len(g.h.Addrs)) }
func (g *hgen) slot() int { return g.c.Intn(len(g.h.Slots)) }

func (g *hgen) push(o Op) {
	switch o.Op {
	case "Snapshot":
		g.depth++
	case "Revert", "Discard":
		if o.Idx >= 0 && o.Idx < int64(g.depth) {
			g.depth = int(o.Idx)
		}
	}
	g.h.Ops = append(g.h.Ops, o)
}

func (g *hgen) write() Op {
	switch g.c.Intn(10) {
	case 0, 1, 2, 3:
		v := g.value()
		g.vals = append(g.vals, v)
		return Op{Op: "SetState", A: g.addr(), S: g.slot(), Val: v}
	case 4, 5:
		n := []uint64{0, 1, 2, 1023, ^uint64(0), g.c.Rng.Uint64()}[g.c.Intn(6)]
		return Op{Op: "SetNonce", A: g.addr(), N: n}
	case 6:
		cd := g.code()
		g.codes = append(g.codes, cd)
		return Op{Op: "SetCode", A: g.addr(), Code: cd}
	case 7:
		a := g.addr()
		am := g.amount()
		g.added[a] = append(g.added[a], am)
		return Op{Op: "AddBalance", A: a, Amt: am}
	case 8:
		a := g.addr()
		am := g.amount()
		if len(g.added[a]) > 0 && g.c.Intn(3) > 0 {
			am = g.added[a][g.c.Intn(len(g.added[a]))]
		}
		return Op{Op: "SubBalance", A: a, Amt: am}
	default:
		g.logID++
		return Op{Op: "AddLog", A: g.addr(), S: g.slot(), N: g.logID}
	}
}

func (g *hgen) refundOp() Op {
	n := []uint64{0, 1, 5, 100, 1 << 63, ^uint64(0), ^uint64(0) - 3, uint64(g.c.Intn(50))}[g.c.Intn(8)]
	if g.c.Intn(2) == 0 {
		return Op{Op: "AddRefund", N: n}
	}
	return Op{Op: "SubRefund", N: n}
}

func (g *hgen) badIdx() int64 {
	return []int64{-1, int64(g.depth), int64(g.depth) + 1, -2, 1 << 40, 9223372036854775807, -9223372036854775808}[g.c.Intn(7)]
}

func (g *hgen) revertIdx() int64 {
	if g.depth == 0 || g.c.Intn(6) == 0 {
		return g.badIdx()
	}
	if g.c.Intn(2) == 0 {
		return int64(g.depth - 1)
	}
	return int64(g.c.Intn(g.depth))
}

func (g *hgen) randomOp() Op {
	x := g.c.Intn(100)
	switch {
	case x < 50:
		return g.write()
	case x < 56:
		return Op{Op: "Suicide", A: g.addr()}
	case x < 64:
		return g.refundOp()
	case x < 66:
		return Op{Op: "CreateAccount", A: g.addr()}
	case x < 82:
		return Op{Op: "Snapshot"}
	case x < 94:
		return Op{Op: "Revert", Idx: g.revertIdx()}
	default:
		return Op{Op: "Discard", Idx: g.revertIdx()}
	}
}

func (g *hgen) universe(nAddr, nSlot int) {
	for i := 0; i < nAddr; i++ {
		var a ethcomm.Address
		switch g.c.Intn(8) {
		case 0:
			a[19] = byte(1 + g.c.Intn(4)) // includes the native contract addresses 1..4
		case 1:
			for j := range a {
				a[j] = 0xff
			}
			a[19] = byte(0xff - i)
		case 2:
			copy(a[:], g.c.Bytes(20)) // fully random (long literal)
		case 3, 4:
			binary.BigEndian.PutUint32(a[:4], g.c.Rng.Uint32())
		default:
			binary.BigEndian.PutUint32(a[16:], g.c.Rng.Uint32())
		}
		dup := false
		for _, x := range g.h.Addrs {
			dup = dup || x == hx.Hex(a[:])
		}
		if dup {
			a[3] ^= byte(i + 1)
		}
		g.h.Addrs = append(g.h.Addrs, hx.Hex(a[:]))
	}
	for i := 0; i < nSlot; i++ {
		var s ethcomm.Hash
		switch g.c.Intn(4) {
		case 0:
			s[31] = byte(i)
		case 1:
			if g.c.Intn(4) == 0 {
				copy(s[:], g.c.Bytes(32)) // fully random (long literal)
			} else {
				copy(s[:], g.word())
			}
		default:
			copy(s[:], g.word())
		}
		dup := false
		for _, x := range g.h.Slots {
			dup = dup || x == hx.Hex(s[:])
		}
		if dup {
			s[3] ^= byte(i + 1)
		}
		g.h.Slots = append(g.h.Slots, hx.Hex(s[:]))
	}
	g.added = make([][]string, nAddr)
}

// put places a backend entry in the store, in the block cache, or in both (cache wins / deletes).
func (g *hgen) put(k, v []byte) {
	kv := KV{K: hx.Hex(k), V: hx.Hex(v)}
	switch g.c.Intn(6) {
	case 0:
		g.h.Overlay = append(g.h.Overlay, kv)
	case 1: // stale value in the store, current one in the block cache
		g.h.Store = append(g.h.Store, KV{K: kv.K, V: hx.Hex(g.c.Bytes(1 + g.c.Intn(40)))})
		g.h.Overlay = append(g.h.Overlay, kv)
	case 2: // present in the store, deleted in the block cache
		g.h.Store = append(g.h.Store, kv)
		if g.c.Intn(3) == 0 {
			g.h.Overlay = append(g.h.Overlay, KV{K: kv.K, V: ""})
		}
	default:
		g.h.Store = append(g.h.Store, kv)
	}
}

func (g *hgen) backend(malformed bool) {
	for _, ah := range g.h.Addrs {
		a := ethcomm.BytesToAddress(hx.UnHex(ah))
		if g.c.Intn(5) < 3 {
			var h ethcomm.Hash
			switch g.c.Intn(4) {
			case 0:
			case 1:
				h = crypto.Keccak256Hash([]byte("no code stored"))
			default:
				code := g.c.Bytes(1 + g.c.Intn(5))
				h = crypto.Keccak256Hash(code)
				g.put(keyCode(h), code)
			}
			nonce := []uint64{0, 1, 7, ^uint64(0), g.c.Rng.Uint64()}[g.c.Intn(5)]
			raw := rawAccount(nonce, h)
			if malformed && g.c.Intn(3) == 0 {
				raw = [][]byte{raw[:5], raw[:39], append(raw, 9), raw[:8]}[g.c.Intn(4)]
			}
			g.put(keyAccount(a), raw)
		}
		if g.c.Intn(5) < 3 {
			v, _ := new(big.Int).SetString(g.amount(), 10)
			raw := rawBalance(v)
			if malformed && g.c.Intn(3) == 0 {
				raw = [][]byte{
					{0},                                   // version only
					append([]byte{0}, varBytes([]byte{1, 2, 3})...), // uint64 too short
					append([]byte{1}, varBytes([]byte{0xff})...),    // negative
					{0, 0xfd, 0x08, 0x00, 1, 2, 3, 4, 5, 6, 7, 8},   // non-minimal length prefix
					{1, 9, 1, 2},                          // truncated
					append([]byte{7}, varBytes([]byte{0x10, 0x27})...), // unknown version: read as neo bytes
					append([]byte{0}, varBytes([]byte{1, 0, 0, 0, 0, 0, 0, 0, 9})...), // trailing byte ignored
				}[g.c.Intn(7)]
			}
			if v.Sign() != 0 || malformed {
				g.put(keyBalance(a), raw)
			}
		}
		for _, sh := range g.h.Slots {
			if g.c.Intn(2) == 0 {
				val := hx.UnHex(g.value())
				if g.c.Intn(12) == 0 {
					val = g.c.Bytes([]int{1, 3, 31, 33, 40}[g.c.Intn(5)])
				}
				g.put(keySlot(a, ethcomm.BytesToHash(hx.UnHex(sh))), val)
			}
		}
	}
	if g.c.Intn(12) == 0 {
		g.put(keyCode(ethcomm.Hash{}), []byte{0xde, 0xad}) // code stored under the zero hash
	}
}

func genHist(c *hx.Ctx, i int) *Hist {
	g := &hgen{c: c, h: &Hist{}}
	kinds := []string{"random", "compact", "random", "nested", "compact", "alias", "alias", "older", "suicide", "refund", "logs", "badids",
		"random", "nested", "compact", "older", "suicide", "big", "random", "nested", "alias", "compact"}
	kind := kinds[i%len(kinds)]
	g.h.Kind = kind
	switch kind {
	case "big":
		g.universe(2, 5)
	case "compact":
		g.universe(2, 1+c.Intn(2))
	default:
		g.universe(2+c.Intn(2), 1+c.Intn(2))
	}
	if kind != "compact" || c.Intn(3) == 0 {
		g.backend(c.Intn(6) == 0)
	}
	if kind == "compact" || c.Intn(3) == 0 {
		g.prologue()
	}
	g.push(Op{Op: "CreateAccount", A: 0}) // first step: reads of the untouched backend
	switch kind {
	case "compact":
		// committed state, deletion marks over it, overwrite garbage, snapshot, changes, revert(s)
		rounds := 1 + c.Intn(2)
		for r := 0; r < rounds; r++ {
			pre := g.deletions()
			if len(pre) == 0 || c.Intn(4) == 0 {
				pre = append(pre, g.write())
			}
			bursts := 1 + c.Intn(2)
			cut := c.Intn(len(pre) + 1) // deletions before and after the garbage
			for _, o := range pre[:cut] {
				g.push(o)
			}
			for b := 0; b < bursts; b++ {
				g.push(g.burst())
			}
			for _, o := range pre[cut:] {
				g.push(o)
			}
			g.push(Op{Op: "Snapshot"})
			for j := 1 + c.Intn(3); j > 0; j-- {
				g.push(g.write())
			}
			if c.Intn(3) == 0 { // bring a deleted account back inside the frame
				a := g.addr()
				g.push(Op{Op: "SetNonce", A: a, N: uint64(20 + c.Intn(5))})
				g.push(Op{Op: "AddBalance", A: a, Amt: safeAmounts[c.Intn(len(safeAmounts))]})
			}
		}
		for g.depth > 0 {
			idx := int64(g.depth - 1)
			if c.Intn(3) == 0 {
				idx = int64(c.Intn(g.depth))
			}
			g.push(Op{Op: "Revert", Idx: idx})
			if c.Intn(2) == 0 {
				g.push(g.write())
			}
		}
	case "random":
		n := 8 + c.Intn(30)
		for j := 0; j < n; j++ {
			switch x := c.Intn(40); {
			case x == 0:
				g.push(g.burst())
			case x == 1 && len(g.comm) > 0:
				for _, o := range g.deletions() {
					g.push(o)
				}
			default:
				g.push(g.randomOp())
			}
		}
	case "nested":
		// build levels, then unwind from the inside out, with writes in between
		levels := 2 + c.Intn(4)
		for l := 0; l < levels; l++ {
			for j := c.Intn(3); j > 0; j-- {
				g.push(g.write())
			}
			g.push(Op{Op: "Snapshot"})
			g.push(g.write())
		}
		for g.depth > 0 {
			for j := c.Intn(3); j > 0; j-- {
				g.push(g.randomOp())
			}
			if g.depth == 0 {
				break
			}
			step := 1
			if c.Intn(4) == 0 {
				step = 1 + c.Intn(g.depth)
			}
			idx := int64(g.depth - step)
			if c.Intn(5) == 0 {
				g.push(Op{Op: "Discard", Idx: idx})
			} else {
				g.push(Op{Op: "Revert", Idx: idx})
			}
		}
		g.push(g.write())
	case "alias":
		// writes, snapshot, overwrite the same keys and insert neighbours, revert; repeat
		rounds := 1 + c.Intn(3)
		for r := 0; r < rounds; r++ {
			var ws []Op
			for j := 1 + c.Intn(4); j > 0; j-- {
				w := g.write()
				ws = append(ws, w)
				g.push(w)
			}
			g.push(Op{Op: "Snapshot"})
			for _, w := range ws {
				w2 := g.write()
				if w2.Op == w.Op {
					w2.A, w2.S = w.A, w.S
				}
				g.push(w2)
				if c.Intn(3) == 0 {
					g.push(Op{Op: w.Op, A: w.A, S: w.S, Val: w.Val, N: w.N + 1, Amt: w.Amt, Code: w.Code})
				}
			}
			if c.Intn(3) == 0 {
				g.push(Op{Op: "Snapshot"})
				g.push(g.write())
			}
			g.push(Op{Op: "Revert", Idx: int64(g.depth - 1 - c.Intn(g.depth))})
			if c.Intn(2) == 0 {
				g.push(g.write())
			}
		}
	case "older":
		k := 3 + c.Intn(4)
		for j := 0; j < k; j++ {
			g.push(g.write())
			g.push(Op{Op: "Snapshot"})
		}
		g.push(g.write())
		for g.depth > 0 {
			g.push(Op{Op: "Revert", Idx: int64(c.Intn(g.depth))})
			g.push(g.write())
			if c.Intn(3) == 0 {
				g.push(Op{Op: "Snapshot"})
				g.push(g.write())
			}
		}
	case "suicide":
		a := g.addr()
		g.push(Op{Op: "SetNonce", A: a, N: 1 + uint64(c.Intn(5))})
		g.push(Op{Op: "AddBalance", A: a, Amt: g.amount()})
		if c.Intn(2) == 0 {
			g.push(Op{Op: "SetCode", A: a, Code: g.code()})
		}
		g.push(Op{Op: "Snapshot"})
		g.push(Op{Op: "Suicide", A: a})
		for j := c.Intn(4); j > 0; j-- {
			g.push(g.randomOp())
		}
		g.push(Op{Op: "Suicide", A: g.addr()})
		if g.depth > 0 {
			g.push(Op{Op: "Revert", Idx: 0})
		}
		g.push(Op{Op: "Suicide", A: g.addr()})
		g.push(Op{Op: "AddBalance", A: a, Amt: "1"})
	case "refund":
		for j := 6 + c.Intn(12); j > 0; j-- {
			switch c.Intn(5) {
			case 0:
				g.push(Op{Op: "Snapshot"})
			case 1:
				g.push(Op{Op: "Revert", Idx: g.revertIdx()})
			default:
				g.push(g.refundOp())
			}
		}
	case "logs":
		for j := 8 + c.Intn(14); j > 0; j-- {
			switch c.Intn(6) {
			case 0, 1:
				g.push(Op{Op: "Snapshot"})
			case 2:
				g.push(Op{Op: "Revert", Idx: g.revertIdx()})
			default:
				g.logID++
				g.push(Op{Op: "AddLog", A: g.addr(), S: g.slot(), N: g.logID})
			}
		}
	case "badids":
		for j := 6 + c.Intn(10); j > 0; j-- {
			switch c.Intn(5) {
			case 0:
				g.push(Op{Op: "Snapshot"})
			case 1:
				g.push(g.write())
			case 2:
				g.push(Op{Op: "Revert", Idx: g.badIdx()})
			case 3:
				g.push(Op{Op: "Discard", Idx: g.badIdx()})
			default:
				// revert, then use the consumed id again
				if g.depth > 0 {
					idx := int64(c.Intn(g.depth))
					g.push(Op{Op: "Revert", Idx: idx})
					g.push(Op{Op: []string{"Revert", "Discard"}[c.Intn(2)], Idx: idx})
				}
			}
		}
	case "big":
		// enough writes to grow the kv buffer and node array of the memdb past their first capacity
		for j := 40 + c.Intn(30); j > 0; j-- {
			switch c.Intn(12) {
			case 0:
				g.push(Op{Op: "Snapshot"})
			case 1:
				g.push(Op{Op: "Revert", Idx: g.revertIdx()})
			default:
				g.push(g.write())
			}
		}
	}
	return g.h
}

// fixedHistories: scripted probes run first on every seed.
func fixedHistories() []*Hist {
	a0 := "1111111111111111111111111111111111111111"
	a1 := "2222222222222222222222222222222222222222"
	s0 := fmt.Sprintf("%064x", 1)
	s1 := fmt.Sprintf("%064x", 2)
	v := func(n int) string { return fmt.Sprintf("%064x", n) }
	base := func(kind string, ops ...Op) *Hist {
		return &Hist{Kind: kind, Addrs: []string{a0, a1}, Slots: []string{s0, s1}, Ops: append([]Op{{Op: "CreateAccount"}}, ops...)}
	}
	return []*Hist{
		// the shape of the two unit tests, with getters read after every call
		base("fixed:nested",
			Op{Op: "SetState", A: 0, S: 0, Val: v(5)}, Op{Op: "SetNonce", A: 0, N: 3}, Op{Op: "AddBalance", A: 0, Amt: "1500000000"},
			Op{Op: "AddLog", N: 1}, Op{Op: "AddRefund", N: 10}, Op{Op: "Snapshot"},
			Op{Op: "SetState", A: 0, S: 0, Val: v(6)}, Op{Op: "Snapshot"}, Op{Op: "SetNonce", A: 0, N: 9},
			Op{Op: "SetCode", A: 0, Code: "010203"}, Op{Op: "SubBalance", A: 0, Amt: "7"}, Op{Op: "AddLog", N: 2},
			Op{Op: "SubRefund", N: 4}, Op{Op: "Suicide", A: 0}, Op{Op: "Revert", Idx: 1}, Op{Op: "Snapshot"}, Op{Op: "Snapshot"},
			Op{Op: "Discard", Idx: 2}, Op{Op: "AddLog", N: 3}, Op{Op: "SetState", A: 0, S: 0, Val: v(8)}, Op{Op: "Revert", Idx: 0},
			Op{Op: "Revert", Idx: 0}),
		// first write after a snapshot hits a key that already has a node (in-place update of nodeData)
		base("fixed:alias",
			Op{Op: "SetState", A: 0, S: 0, Val: v(1)}, Op{Op: "SetState", A: 0, S: 1, Val: v(2)}, Op{Op: "Snapshot"},
			Op{Op: "SetState", A: 0, S: 0, Val: v(3)}, Op{Op: "SetState", A: 1, S: 0, Val: v(4)}, Op{Op: "SetState", A: 0, S: 1, Val: v(0)},
			Op{Op: "Revert", Idx: 0}, Op{Op: "SetState", A: 0, S: 0, Val: v(9)}),
		// logs: truncate, append over the old backing array, truncate again
		base("fixed:logs",
			Op{Op: "AddLog", N: 1}, Op{Op: "AddLog", N: 2}, Op{Op: "Snapshot"}, Op{Op: "AddLog", N: 3}, Op{Op: "Snapshot"},
			Op{Op: "AddLog", N: 4}, Op{Op: "AddLog", N: 5}, Op{Op: "Revert", Idx: 1}, Op{Op: "AddLog", N: 6}, Op{Op: "Revert", Idx: 0},
			Op{Op: "AddLog", N: 7}, Op{Op: "Snapshot"}, Op{Op: "Revert", Idx: 0}),
		// refund guards and uint64 wrap
		base("fixed:refund",
			Op{Op: "SubRefund", N: 1}, Op{Op: "AddRefund", N: 5}, Op{Op: "Snapshot"}, Op{Op: "SubRefund", N: 6}, Op{Op: "SubRefund", N: 5},
			Op{Op: "AddRefund", N: ^uint64(0)}, Op{Op: "AddRefund", N: 2}, Op{Op: "Revert", Idx: 0}, Op{Op: "SubRefund", N: 5}),
		// ids: negative, equal to the length, consumed
		base("fixed:ids",
			Op{Op: "Revert", Idx: 0}, Op{Op: "Discard", Idx: 0}, Op{Op: "Revert", Idx: -1}, Op{Op: "Discard", Idx: -1},
			Op{Op: "Snapshot"}, Op{Op: "Snapshot"}, Op{Op: "Revert", Idx: 2}, Op{Op: "Discard", Idx: 1}, Op{Op: "Discard", Idx: 1},
			Op{Op: "Revert", Idx: 9223372036854775807}, Op{Op: "Discard", Idx: 9223372036854775807}, Op{Op: "Revert", Idx: 0}, Op{Op: "Snapshot"}),
		// balance encodings: integer ONG, fractional, too large for the integer form
		base("fixed:balance",
			Op{Op: "AddBalance", A: 0, Amt: "18446744073709551615000000000"}, Op{Op: "Snapshot"}, Op{Op: "AddBalance", A: 0, Amt: "1000000000"},
			Op{Op: "AddBalance", A: 0, Amt: "1"}, Op{Op: "SubBalance", A: 0, Amt: "18446744073709551615000000002"},
			Op{Op: "SubBalance", A: 0, Amt: "18446744073709551615000000001"}, Op{Op: "Revert", Idx: 0}, Op{Op: "AddBalance", A: 1, Amt: "128"}),
	}
}
