package c08

import (
	"bytes"
	"fmt"
	"go/ast"
	"go/parser"
	"go/printer"
	"go/token"
	"path/filepath"
	"strings"

	ethcomm "github.com/ethereum/go-ethereum/common"
	"github.com/ontio/ontology/common"
	"github.com/ontio/ontology/core/states"
	scommon "github.com/ontio/ontology/core/store/common"
	"github.com/ontio/ontology/smartcontract/service/native/utils"

	"verif/harness/gen"
	"verif/harness/hx"
)

const stateDBFile = "smartcontract/storage/statedb.go"

func init() {
	// Constants of the storage layout, printed from the linked packages.
	gen.RegisterFile("StateDBConsts.v", func(repo string) ([]byte, []string) {
		cs := []gen.Const{
			{Name: "ST_STORAGE", Type: "N", Value: fmt.Sprint(byte(scommon.ST_STORAGE)), Comment: "core/store/common.ST_STORAGE"},
			{Name: "ST_ETH_CODE", Type: "N", Value: fmt.Sprint(byte(scommon.ST_ETH_CODE)), Comment: "core/store/common.ST_ETH_CODE"},
			{Name: "ST_ETH_ACCOUNT", Type: "N", Value: fmt.Sprint(byte(scommon.ST_ETH_ACCOUNT)), Comment: "core/store/common.ST_ETH_ACCOUNT"},
			{Name: "ONG_CONTRACT_ADDRESS", Type: "list N", Value: hx.CoqBytes(utils.OngContractAddress[:]), Comment: "native/utils.OngContractAddress"},
			{Name: "SCALE_FACTOR", Type: "N", Value: fmt.Sprint(uint64(states.ScaleFactor)), Comment: "core/states.ScaleFactor"},
			{Name: "DEFAULT_VERSION", Type: "N", Value: fmt.Sprint(states.DefaultVersion), Comment: "core/states.DefaultVersion"},
			{Name: "SCALE_DECIMAL9_VERSION", Type: "N", Value: fmt.Sprint(states.ScaleDecimal9Version), Comment: "core/states.ScaleDecimal9Version"},
			{Name: "ETH_ADDR_LEN", Type: "nat", Value: fmt.Sprint(ethcomm.AddressLength), Comment: "go-ethereum/common.AddressLength"},
			{Name: "ETH_HASH_LEN", Type: "nat", Value: fmt.Sprint(ethcomm.HashLength), Comment: "go-ethereum/common.HashLength"},
			{Name: "ONT_ADDR_LEN", Type: "nat", Value: fmt.Sprint(common.ADDR_LEN), Comment: "common.ADDR_LEN"},
		}
		return gen.EmitConsts("Local Open Scope N_scope.", cs), nil
	})

	// Index arithmetic of Snapshot / RevertToSnapshot / DiscardSnapshot, read from the source.
	gen.RegisterFile("StateDBSites.v", func(repo string) ([]byte, []string) {
		var rs []gen.SiteResult
		var errs []string
		add := func(r gen.SiteResult) {
			if r.Err != "" {
				errs = append(errs, r.Site.Name+": "+r.Err)
			}
			rs = append(rs, r)
		}
		lenSub := map[string]string{"idx": "idx", "len(self.snapshots)": "len"}
		for _, s := range []gen.Site{
			{Name: "snapshot_ret", File: stateDBFile, Func: "Snapshot", Loc: "return:0", Subst: map[string]string{"len(self.snapshots)": "len"}, Vars: []string{"len"}},
			{Name: "revert_guard_lhs", File: stateDBFile, Func: "RevertToSnapshot", Loc: "cmp:>:lhs", Subst: lenSub, Vars: []string{"idx", "len"}},
			{Name: "revert_guard_rhs", File: stateDBFile, Func: "RevertToSnapshot", Loc: "cmp:>:rhs", Subst: lenSub, Vars: []string{"idx", "len"}},
			{Name: "discard_guard_lhs", File: stateDBFile, Func: "DiscardSnapshot", Loc: "cmp:>:lhs", Subst: lenSub, Vars: []string{"idx", "len"}},
			{Name: "discard_guard_rhs", File: stateDBFile, Func: "DiscardSnapshot", Loc: "cmp:>:rhs", Subst: lenSub, Vars: []string{"idx", "len"}},
		} {
			add(gen.TranslateSite(repo, s))
		}
		// slice / index expressions on self.snapshots (not reachable with the shared locators)
		add(sliceSite(repo, "revert_index", "RevertToSnapshot", "index"))
		add(sliceSite(repo, "revert_keep", "RevertToSnapshot", "slice"))
		add(sliceSite(repo, "discard_keep", "DiscardSnapshot", "slice"))
		return gen.EmitSites("", rs), errs
	})
}

func printNode(fset *token.FileSet, n ast.Node) string {
	var b bytes.Buffer
	printer.Fprint(&b, fset, n)
	return b.String()
}

// miniCoq translates idx, integer literals, + and - (anything else: error).
func miniCoq(fset *token.FileSet, e ast.Expr) (string, error) {
	switch x := e.(type) {
	case *ast.ParenExpr:
		return miniCoq(fset, x.X)
	case *ast.Ident:
		if x.Name == "idx" {
			return "idx", nil
		}
	case *ast.BasicLit:
		if x.Kind == token.INT {
			var v int64
			if _, err := fmt.Sscanf(x.Value, "%v", &v); err == nil {
				return fmt.Sprintf("%d", v), nil
			}
		}
	case *ast.CallExpr:
		if printNode(fset, x) == "len(self.snapshots)" {
			return "len", nil
		}
	case *ast.BinaryExpr:
		l, err := miniCoq(fset, x.X)
		if err != nil {
			return "", err
		}
		r, err := miniCoq(fset, x.Y)
		if err != nil {
			return "", err
		}
		switch x.Op {
		case token.ADD:
			return "(" + l + " + " + r + ")", nil
		case token.SUB:
			return "(" + l + " - " + r + ")", nil
		}
	}
	return "", fmt.Errorf("unsupported expression %q", printNode(fset, e))
}

// sliceSite locates, in method fn of statedb.go,
//
//	kind "slice": the unique statement `self.snapshots = self.snapshots[:E]`  -> E
//	kind "index": the unique statement `sn := self.snapshots[E]`               -> E
//
// and fails closed when the statement is missing, duplicated or has another shape.
func sliceSite(repo, name, fn, kind string) gen.SiteResult {
	res := gen.SiteResult{Site: gen.Site{Name: name, File: stateDBFile, Func: fn, Loc: kind + ":self.snapshots", Vars: []string{"idx", "len"}}}
	fset := token.NewFileSet()
	f, err := parser.ParseFile(fset, filepath.Join(repo, stateDBFile), nil, 0)
	if err != nil {
		res.Err = err.Error()
		return res
	}
	var fd *ast.FuncDecl
	for _, d := range f.Decls {
		if x, ok := d.(*ast.FuncDecl); ok && x.Name.Name == fn {
			fd = x
		}
	}
	if fd == nil || fd.Body == nil {
		res.Err = "function " + fn + " not found"
		return res
	}
	var found []ast.Expr
	bad := ""
	ast.Inspect(fd.Body, func(n ast.Node) bool {
		as, ok := n.(*ast.AssignStmt)
		if !ok || len(as.Lhs) != 1 || len(as.Rhs) != 1 {
			return true
		}
		lhs := printNode(fset, as.Lhs[0])
		switch kind {
		case "slice":
			if lhs != "self.snapshots" {
				return true
			}
			se, ok := as.Rhs[0].(*ast.SliceExpr)
			if !ok || printNode(fset, se.X) != "self.snapshots" || se.Low != nil || se.High == nil || se.Slice3 {
				bad = "assignment to self.snapshots is not self.snapshots[:E]: " + printNode(fset, as)
				return true
			}
			found = append(found, se.High)
		case "index":
			ie, ok := as.Rhs[0].(*ast.IndexExpr)
			if !ok || printNode(fset, ie.X) != "self.snapshots" {
				return true
			}
			if lhs != "sn" {
				bad = "unexpected use of self.snapshots[E]: " + printNode(fset, as)
				return true
			}
			found = append(found, ie.Index)
		}
		return true
	})
	if bad != "" {
		res.Err = bad
		return res
	}
	if len(found) != 1 {
		res.Err = fmt.Sprintf("%s: expected exactly one %s expression on self.snapshots, found %d", fn, kind, len(found))
		return res
	}
	res.GoExpr = printNode(fset, found[0])
	c, err := miniCoq(fset, found[0])
	if err != nil {
		res.Err = err.Error()
		return res
	}
	res.Coq = c
	_ = strings.TrimSpace
	return res
}
