// Package c08: EVM snapshot revert restores exactly the observable state
// (smartcontract/storage.StateDB over CacheDB / overlaydb.MemDB.DeepClone).
//
// Every case is a history of StateDB calls executed on the real StateDB built over
// CacheDB -> OverlayDB -> in-memory LevelDB with the real ong.OngBalanceHandle.
// After every call ALL getters are read over a small universe of addresses and slots.
//   - oracle (implementation only): after RevertToSnapshot(id) of a still valid id every getter
//     equals what it answered right after the Snapshot() that returned id; DiscardSnapshot changes
//     no getter; a valid id is not rejected; a panicking revert/discard changes no getter;
//   - correspondence: the whole trace (results, getters, DbErr, final raw memdb, self-destruct set,
//     snapshot stack) is re-computed by Model/StateDB.v inside Coq (Corr/C08.v).
package c08

import (
	"encoding/binary"
	"encoding/json"
	"fmt"
	"math/big"
	"runtime"
	"sort"
	"strings"

	ethcomm "github.com/ethereum/go-ethereum/common"
	"github.com/ethereum/go-ethereum/crypto"
	"github.com/ontio/ontology/common"
	scommon "github.com/ontio/ontology/core/store/common"
	"github.com/ontio/ontology/smartcontract/service/native/utils"
	"github.com/ontio/ontology/core/store/leveldbstore"
	"github.com/ontio/ontology/core/store/overlaydb"
	"github.com/ontio/ontology/core/types"
	"github.com/ontio/ontology/smartcontract/service/native/ong"
	"github.com/ontio/ontology/smartcontract/storage"

	"verif/harness/hx"
)

func init() { hx.Register("C08", Run) }

type KV struct {
	K string `json:"k"`
	V string `json:"v"` // "" in Overlay = deleted in the block cache
}

type Op struct {
	Op   string `json:"op"`
	A    int    `json:"a"`
	S    int    `json:"s"`
	Val  string `json:"val,omitempty"`
	N    uint64 `json:"n,omitempty"`
	Amt  string `json:"amt,omitempty"`
	Code string `json:"code,omitempty"`
	Idx  int64  `json:"idx,omitempty"`
}

type Hist struct {
	Kind    string   `json:"kind"`
	Store   []KV     `json:"store"`
	Overlay []KV     `json:"overlay"`
	Addrs   []string `json:"addrs"`
	Slots   []string `json:"slots"`
	// Pre: an earlier transaction, run on its own StateDB over the same block cache and committed
	// (StateDB.Commit) before the observed history starts; its effects are backend content.
	Pre []Op `json:"pre,omitempty"`
	Ops []Op `json:"ops"`
}

// burstValue: the i-th value written by a "Burst" op (N writes to one slot, values base+i).
func burstValue(base int64, i uint64) ethcomm.Hash {
	return ethcomm.BigToHash(new(big.Int).Add(big.NewInt(base), new(big.Int).SetUint64(i)))
}

// applyPlain runs one non-stack op of a prologue; panics are swallowed (the prologue only has to
// leave committed state behind).
func applyPlain(sd *storage.StateDB, addrs []ethcomm.Address, slots []ethcomm.Hash, o Op) {
	if o.A < 0 || o.A >= len(addrs) || o.S < 0 || o.S >= len(slots) {
		panic("bad index in prologue")
	}
	a, k := addrs[o.A], slots[o.S]
	try(func() {
		switch o.Op {
		case "SetState":
			sd.SetState(a, k, ethcomm.BytesToHash(hx.UnHex(o.Val)))
		case "Burst":
			for i := uint64(0); i < o.N; i++ {
				sd.SetState(a, k, burstValue(o.Idx, i))
			}
		case "SetNonce":
			sd.SetNonce(a, o.N)
		case "SetCode":
			sd.SetCode(a, hx.UnHex(o.Code))
		case "AddBalance":
			sd.AddBalance(a, amt(o.Amt))
		case "SubBalance":
			sd.SubBalance(a, amt(o.Amt))
		case "Suicide":
			sd.Suicide(a)
		}
	})
}

// ---------- running a history on the implementation ----------

const (
	rOK = iota
	rPanic
	rFault
)

func try(f func()) (kind int, msg string) {
	defer func() {
		if r := recover(); r != nil {
			if _, ok := r.(runtime.Error); ok {
				kind = rFault
			} else {
				kind = rPanic
			}
			msg = fmt.Sprint(r)
		}
	}()
	f()
	return
}

type env struct {
	sd    *storage.StateDB
	cache *storage.CacheDB
	addrs []ethcomm.Address
	slots []ethcomm.Hash
	names []string
}

func be(b []byte) *big.Int { return new(big.Int).SetBytes(b) }

// observe reads all getters; the order is the order of Corr/C08.v obs_vec.
func (e *env) observe() []*big.Int {
	var v []*big.Int
	u := func(x uint64) *big.Int { return new(big.Int).SetUint64(x) }
	b := func(x bool) *big.Int {
		if x {
			return big.NewInt(1)
		}
		return big.NewInt(0)
	}
	for _, a := range e.addrs {
		v = append(v, u(e.sd.GetNonce(a)))
		h := e.sd.GetCodeHash(a)
		v = append(v, be(h[:]))
		code := e.sd.GetCode(a)
		v = append(v, be(append([]byte{1}, code...)))
		v = append(v, big.NewInt(int64(e.sd.GetCodeSize(a))))
		v = append(v, new(big.Int).Set(e.sd.GetBalance(a)))
		v = append(v, b(e.sd.HasSuicided(a)))
		v = append(v, b(e.sd.Exist(a)))
		v = append(v, b(e.sd.Empty(a)))
		for _, k := range e.slots {
			s := e.sd.GetState(a, k)
			v = append(v, be(s[:]))
			cs := e.sd.GetCommittedState(a, k)
			v = append(v, be(cs[:]))
		}
	}
	v = append(v, u(e.sd.GetRefund()))
	logs := e.sd.GetLogs()
	v = append(v, big.NewInt(int64(len(logs))))
	for _, l := range logs {
		v = append(v, u(binary.BigEndian.Uint64(l.Data)))
	}
	return v
}

func (e *env) mkNames() {
	e.names = nil
	for i := range e.addrs {
		for _, n := range []string{"nonce", "codehash", "code", "codesize", "balance", "suicided", "exist", "empty"} {
			e.names = append(e.names, fmt.Sprintf("addr%d.%s", i, n))
		}
		for j := range e.slots {
			e.names = append(e.names, fmt.Sprintf("addr%d.state[%d]", i, j), fmt.Sprintf("addr%d.committed[%d]", i, j))
		}
	}
	e.names = append(e.names, "refund", "len(logs)")
}

func (e *env) name(i int) string {
	if i < len(e.names) {
		return e.names[i]
	}
	return fmt.Sprintf("logs[%d]", i-len(e.names))
}

// diff describes the first differing getters of two observations ("" when equal).
func (e *env) diff(got, want []*big.Int) string {
	var d []string
	n := len(got)
	if len(want) > n {
		n = len(want)
	}
	for i := 0; i < n && len(d) < 4; i++ {
		var g, w string = "-", "-"
		if i < len(got) {
			g = got[i].String()
		}
		if i < len(want) {
			w = want[i].String()
		}
		if g != w {
			d = append(d, fmt.Sprintf("%s: got %s, at snapshot %s", e.name(i), g, w))
		}
	}
	return strings.Join(d, "; ")
}

func coqVec(v []*big.Int, err bool) string {
	var sb strings.Builder
	sb.WriteByte('[')
	for _, x := range v {
		sb.WriteString(x.String())
		sb.WriteByte(';')
	}
	if err {
		sb.WriteString("1]")
	} else {
		sb.WriteString("0]")
	}
	return sb.String()
}

func allZero(b []byte) bool {
	for _, x := range b {
		if x != 0 {
			return false
		}
	}
	return true
}

func allFF(b []byte) bool {
	for _, x := range b {
		if x != 0xff {
			return false
		}
	}
	return true
}

// coqWord prints a byte string; 32-byte words and 20-byte addresses of the shapes the generators
// prefer get a short form (Coq reads small numerals much faster than long literals).
func coqWord(b []byte) string {
	switch len(b) {
	case 32:
		if allZero(b[:28]) {
			return fmt.Sprintf("(W %d)", binary.BigEndian.Uint32(b[28:]))
		}
		if allZero(b[4:]) {
			return fmt.Sprintf("(WH %d)", binary.BigEndian.Uint32(b[:4]))
		}
		if allFF(b) {
			return "WF"
		}
	case 20:
		if allZero(b[:16]) {
			return fmt.Sprintf("(A %d)", binary.BigEndian.Uint32(b[16:]))
		}
		if allZero(b[4:]) {
			return fmt.Sprintf("(AH %d)", binary.BigEndian.Uint32(b[:4]))
		}
		if allFF(b[:19]) {
			return fmt.Sprintf("(AF %d)", b[19])
		}
	}
	return hx.CoqBytes(b)
}

func coqKVs(kvs []storage.VerifKV) string {
	var s []string
	for _, kv := range kvs {
		s = append(s, "("+hx.CoqBytes(kv.Key)+", "+hx.CoqBytes(kv.Val)+")")
	}
	return hx.CoqList(s)
}

func sortAddrs(as []ethcomm.Address) []ethcomm.Address {
	sort.Slice(as, func(i, j int) bool { return string(as[i][:]) < string(as[j][:]) })
	return as
}

func coqAddrs(as []ethcomm.Address) string {
	var s []string
	for _, a := range sortAddrs(as) {
		s = append(s, coqWord(a[:]))
	}
	return hx.CoqList(s)
}

// ---------- fingerprint (Corr/C08.v: mix, digest) ----------

var (
	m61   = big.NewInt(2305843009213693951)
	dbase = big.NewInt(1000000007)
	one   = big.NewInt(1)
)

// red61 mirrors Corr/C08.v red61: fold 61-bit limbs until the value is at most 2^61-1.
func red61(x *big.Int) *big.Int {
	x = new(big.Int).Set(x)
	for fuel := 24; fuel > 0 && x.Cmp(m61) > 0; fuel-- {
		lo := new(big.Int).And(x, m61)
		x = lo.Add(lo, new(big.Int).Rsh(x, 61))
	}
	return x
}

func digest(seed int64, l []*big.Int) *big.Int {
	h := big.NewInt(seed)
	for _, x := range l {
		t := new(big.Int).Mul(h, dbase)
		t.Add(t, red61(x))
		t.Add(t, one)
		h = red61(t)
	}
	return h
}

func bn(b []byte) *big.Int { return be(append([]byte{1}, b...)) }

func memNums(m []storage.VerifKV) []*big.Int {
	v := []*big.Int{big.NewInt(int64(len(m)))}
	for _, kv := range m {
		v = append(v, bn(kv.Key), bn(kv.Val))
	}
	return v
}

func setNums(as []ethcomm.Address) []*big.Int {
	v := []*big.Int{big.NewInt(int64(len(as)))}
	for _, a := range sortAddrs(as) {
		v = append(v, bn(a[:]))
	}
	return v
}

func amt(s string) *big.Int {
	v, ok := new(big.Int).SetString(s, 10)
	if !ok {
		panic("bad amount " + s)
	}
	return v
}

// codeTable collects the codes whose Keccak value the model needs: (code, hash), in order.
type codeTable struct {
	codes  [][]byte
	hashes []ethcomm.Hash
}

func (t *codeTable) add(code []byte) int {
	for i, c := range t.codes {
		if string(c) == string(code) {
			return i
		}
	}
	t.codes = append(t.codes, code)
	t.hashes = append(t.hashes, crypto.Keccak256Hash(code))
	return len(t.codes) - 1
}

func (t *codeTable) hsel(h ethcomm.Hash) string {
	if h == (ethcomm.Hash{}) {
		return "HZero"
	}
	for i, x := range t.hashes {
		if x == h {
			return fmt.Sprintf("(HTbl %s)", hx.CoqNat(i))
		}
	}
	return "(HRaw " + hx.CoqBytes(h[:]) + ")"
}

func (t *codeTable) coq() string {
	var s []string
	for i, c := range t.codes {
		s = append(s, "("+hx.CoqBytes(c)+", "+hx.CoqBytes(t.hashes[i][:])+")")
	}
	return hx.CoqList(s)
}

func indexOf(hay [][]byte, b []byte) int {
	for i, x := range hay {
		if string(x) == string(b) {
			return i
		}
	}
	return -1
}

// coqBent prints one effective backend entry in the most compact form of Corr/C08.v bent.
func coqBent(e *env, t *codeTable, k, v []byte) string {
	var addrs, slots [][]byte
	for _, a := range e.addrs {
		addrs = append(addrs, append([]byte{}, a[:]...))
	}
	for _, s := range e.slots {
		slots = append(slots, append([]byte{}, s[:]...))
	}
	ongA := utils.OngContractAddress[:]
	switch {
	case len(k) == 21 && k[0] == byte(scommon.ST_ETH_ACCOUNT) && indexOf(addrs, k[1:]) >= 0:
		ai := indexOf(addrs, k[1:])
		if len(v) == 40 {
			return fmt.Sprintf("BAcct %s %d %s", hx.CoqNat(ai), binary.LittleEndian.Uint64(v[:8]), t.hsel(ethcomm.BytesToHash(v[8:])))
		}
		return fmt.Sprintf("BAcctRaw %s %s", hx.CoqNat(ai), hx.CoqBytes(v))
	case len(k) == 41 && k[0] == byte(scommon.ST_STORAGE) && string(k[1:21]) == string(ongA) && indexOf(addrs, k[21:]) >= 0:
		ai := indexOf(addrs, k[21:])
		// well-formed iff it is what rawBalance writes for the value it decodes to
		// (an integer amount of 2^64 ONG or more in the version-1 form is readable but never written
		// by the code: the model's encoder has no such output, so it is passed raw)
		if bal, ok := decodeBalance(v); ok && string(rawBalance(bal)) == string(v) && !(v[0] == 1 && new(big.Int).Mod(bal, big.NewInt(1000000000)).Sign() == 0) {
			return fmt.Sprintf("BBal %s %s", hx.CoqNat(ai), bal.String())
		}
		return fmt.Sprintf("BBalRaw %s %s", hx.CoqNat(ai), hx.CoqBytes(v))
	case len(k) == 53 && k[0] == byte(scommon.ST_STORAGE) && indexOf(addrs, k[1:21]) >= 0 && indexOf(slots, k[21:]) >= 0:
		return fmt.Sprintf("BSlot %s %s %s", hx.CoqNat(indexOf(addrs, k[1:21])), hx.CoqNat(indexOf(slots, k[21:])), coqWord(v))
	case len(k) == 33 && k[0] == byte(scommon.ST_ETH_CODE):
		return fmt.Sprintf("BCode %s %s", t.hsel(ethcomm.BytesToHash(k[1:])), hx.CoqBytes(v))
	}
	return fmt.Sprintf("BRaw %s %s", hx.CoqBytes(k), hx.CoqBytes(v))
}

// decodeBalance: inverse of rawBalance on its own outputs (driver-side helper, not the code under test).
func decodeBalance(raw []byte) (*big.Int, bool) {
	if len(raw) < 2 || int(raw[1]) != len(raw)-2 || raw[1] >= 0xfd {
		return nil, false
	}
	val := raw[2:]
	switch raw[0] {
	case 0:
		if len(val) != 8 {
			return nil, false
		}
		q := new(big.Int).SetUint64(binary.LittleEndian.Uint64(val))
		return q.Mul(q, big.NewInt(1000000000)), true
	case 1:
		v := common.BigIntFromNeoBytes(val)
		return v, v.Sign() > 0
	}
	return nil, false
}

type stepRec struct {
	cop, ret string
	retCode  []*big.Int
	vec      []*big.Int
	dberr    bool
}

const (
	modeDigest  = iota // correspondence case with fingerprints
	modeVerbose        // correspondence case with literal getter vectors
	modeOracle         // oracle only (no case): the unwinding probe of a history that ends with live snapshots
)

// runHist executes one history on the implementation, applies the oracle and (unless mode is
// modeOracle) writes the correspondence case. A history that ends with live snapshots is then run
// once more, oracle only, extended by RevertToSnapshot(top) ... RevertToSnapshot(0): every saved
// snapshot gets installed and read, so damage to a snapshot that the history itself never reverts
// to still yields a concrete failing history.
func runHist(c *hx.Ctx, h *Hist, mode int) {
	verbose := mode == modeVerbose
	c.Eval()
	store := leveldbstore.NewMemLevelDBStore()
	defer store.Close()
	touched := map[string]bool{}
	for _, kv := range h.Store {
		if err := store.Put(hx.UnHex(kv.K), hx.UnHex(kv.V)); err != nil {
			panic(err)
		}
		touched[kv.K] = true
	}
	overlay := overlaydb.NewOverlayDB(store)
	for _, kv := range h.Overlay {
		if kv.V == "" {
			overlay.Delete(hx.UnHex(kv.K))
		} else {
			overlay.Put(hx.UnHex(kv.K), hx.UnHex(kv.V))
		}
		touched[kv.K] = true
	}

	var uaddrs []ethcomm.Address
	var uslots []ethcomm.Hash
	for _, a := range h.Addrs {
		uaddrs = append(uaddrs, ethcomm.BytesToAddress(hx.UnHex(a)))
	}
	for _, s := range h.Slots {
		uslots = append(uslots, ethcomm.BytesToHash(hx.UnHex(s)))
	}
	if len(h.Pre) > 0 {
		pre := storage.NewStateDB(storage.NewCacheDB(overlay), ethcomm.Hash{}, ethcomm.Hash{}, ong.OngBalanceHandle{})
		for _, o := range h.Pre {
			applyPlain(pre, uaddrs, uslots, o)
		}
		if err := pre.Commit(); err != nil {
			panic(err)
		}
		overlay.GetWriteSet().ForEach(func(key, val []byte) { touched[hx.Hex(key)] = true })
		overlay.SetError(nil)
	}

	cache := storage.NewCacheDB(overlay)
	sd := storage.NewStateDB(cache, ethcomm.Hash{}, ethcomm.Hash{}, ong.OngBalanceHandle{})
	e := &env{sd: sd, cache: cache, addrs: uaddrs, slots: uslots}
	e.mkNames()

	// Keccak table: codes set by the history, then code entries of the backend that are stored under their hash
	tbl := &codeTable{}
	for _, o := range h.Ops {
		if o.Op == "SetCode" {
			tbl.add(hx.UnHex(o.Code))
		}
	}
	// effective backend content as the StateDB sees it
	var keys []string
	for k := range touched {
		keys = append(keys, k)
	}
	sort.Strings(keys)
	type kvb struct{ k, v []byte }
	var eff []kvb
	for _, k := range keys {
		v, err := overlay.Get(hx.UnHex(k))
		if err != nil {
			panic(err)
		}
		if len(v) != 0 {
			kb := hx.UnHex(k)
			eff = append(eff, kvb{kb, v})
			if len(kb) == 33 && kb[0] == byte(scommon.ST_ETH_CODE) && crypto.Keccak256Hash(v) == ethcomm.BytesToHash(kb[1:]) {
				tbl.add(v)
			}
		}
	}
	var backend []string
	for _, x := range eff {
		backend = append(backend, coqBent(e, tbl, x.k, x.v))
	}

	shadow := map[int64][]*big.Int{} // id -> getters right after the Snapshot() that returned id
	var steps []stepRec
	maxDepth, reverts, restoredAfterChange := 0, 0, 0
	// safeObserve: a getter that panics (possible only when the memdb structure is corrupted, e.g. by
	// sharing between a snapshot and the live memdb) ends the history with an oracle failure.
	safeObserve := func(step int) ([]*big.Int, bool) {
		var v []*big.Int
		kind, msg := try(func() { v = e.observe() })
		if kind != rOK {
			c.Fail("getter-panics", "a StateDB getter panicked during a history of snapshot/revert calls", h,
				map[string]interface{}{"step": step, "panic": msg}, "getters answer")
			return nil, false
		}
		return v, true
	}
	prev, ok := safeObserve(-1)
	if !ok {
		return
	}

	for i, o := range h.Ops {
		if o.A < 0 || o.A >= len(e.addrs) || o.S < 0 || o.S >= len(e.slots) {
			panic("bad index in history")
		}
		a, k := e.addrs[o.A], e.slots[o.S]
		ai, si := hx.CoqNat(o.A), hx.CoqNat(o.S)
		var coqOp string
		var kind int
		var msg string
		var snapID int64
		retRet := "RUnit"
		retCode := []*big.Int{big.NewInt(0)}
		switch o.Op {
		case "SetState":
			val := ethcomm.BytesToHash(hx.UnHex(o.Val))
			coqOp = fmt.Sprintf("CSetState %s %s %s", ai, si, coqWord(val[:]))
			kind, msg = try(func() { sd.SetState(a, k, val) })
		case "Burst":
			if o.N > 4096 || o.Idx < 0 {
				panic("bad burst in history")
			}
			coqOp = fmt.Sprintf("CBurst %s %s %s %d", ai, si, hx.CoqNat(int(o.N)), o.Idx)
			kind, msg = try(func() {
				for j := uint64(0); j < o.N; j++ {
					sd.SetState(a, k, burstValue(o.Idx, j))
				}
			})
		case "SetNonce":
			coqOp = fmt.Sprintf("CSetNonce %s %d", ai, o.N)
			kind, msg = try(func() { sd.SetNonce(a, o.N) })
		case "SetCode":
			code := hx.UnHex(o.Code)
			coqOp = fmt.Sprintf("CSetCode %s %s", ai, hx.CoqNat(tbl.add(code)))
			kind, msg = try(func() { sd.SetCode(a, code) })
		case "AddBalance":
			coqOp = fmt.Sprintf("CAddBalance %s %s", ai, o.Amt)
			kind, msg = try(func() { sd.AddBalance(a, amt(o.Amt)) })
		case "SubBalance":
			coqOp = fmt.Sprintf("CSubBalance %s %s", ai, o.Amt)
			kind, msg = try(func() { sd.SubBalance(a, amt(o.Amt)) })
		case "Suicide":
			coqOp = fmt.Sprintf("CSuicide %s", ai)
			kind, msg = try(func() {
				r := sd.Suicide(a)
				retRet = "(RBool " + hx.CoqBool(r) + ")"
				retCode = []*big.Int{big.NewInt(1), big.NewInt(0)}
				if r {
					retCode[1] = big.NewInt(1)
				}
			})
		case "AddLog":
			coqOp = fmt.Sprintf("CAddLog %d", o.N)
			data := make([]byte, 8)
			binary.BigEndian.PutUint64(data, o.N)
			kind, msg = try(func() { sd.AddLog(&types.StorageLog{Address: a, Topics: []ethcomm.Hash{k}, Data: data}) })
		case "AddRefund":
			coqOp = fmt.Sprintf("CAddRefund %d", o.N)
			kind, msg = try(func() { sd.AddRefund(o.N) })
		case "SubRefund":
			coqOp = fmt.Sprintf("CSubRefund %d", o.N)
			kind, msg = try(func() { sd.SubRefund(o.N) })
		case "CreateAccount":
			coqOp = fmt.Sprintf("CCreate %s", ai)
			kind, msg = try(func() { sd.CreateAccount(a) })
		case "Snapshot":
			coqOp = "CSnap"
			kind, msg = try(func() {
				id := sd.Snapshot()
				snapID = int64(id)
				retRet = "(RInt " + hx.CoqZ(snapID) + ")"
				retCode = []*big.Int{big.NewInt(2), big.NewInt(snapID)}
			})
		case "Revert":
			coqOp = "CRevert " + hx.CoqZ(o.Idx)
			kind, msg = try(func() { sd.RevertToSnapshot(int(o.Idx)) })
		case "Discard":
			coqOp = "CDiscard " + hx.CoqZ(o.Idx)
			kind, msg = try(func() { sd.DiscardSnapshot(int(o.Idx)) })
		default:
			panic("unknown op " + o.Op)
		}
		switch kind {
		case rPanic:
			retRet, retCode = "RPanic", []*big.Int{big.NewInt(3)}
			c.Count("panic:" + o.Op)
		case rFault:
			retRet, retCode = "RFault", []*big.Int{big.NewInt(4)}
			c.Count("fault:" + o.Op)
		}
		cur, ok := safeObserve(i)
		if !ok {
			return
		}
		dberr := sd.DbErr() != nil

		// ----- oracle (implementation only) -----
		at := map[string]interface{}{"history": h, "step": i, "op": o}
		switch o.Op {
		case "Snapshot":
			if kind == rOK {
				if d := e.diff(cur, prev); d != "" {
					c.Fail("snapshot:getter-changed", "Snapshot() itself changed what a getter reads", h, map[string]interface{}{"at": at, "diff": d}, "no change")
				}
				// ids at or above the returned one cannot be live any more
				for j := range shadow {
					if j >= snapID {
						delete(shadow, j)
					}
				}
				shadow[snapID] = cur
				if len(shadow) > maxDepth {
					maxDepth = len(shadow)
				}
			}
		case "Revert":
			want, live := shadow[o.Idx]
			if kind == rOK {
				reverts++
				if live {
					if d := e.diff(cur, want); d != "" {
						c.Fail("revert:getter-differs", "after RevertToSnapshot a getter does not read as when the snapshot was taken", h,
							map[string]interface{}{"step": i, "op": o, "diff": d}, "all getters as at Snapshot()")
					} else if e.diff(prev, want) != "" {
						restoredAfterChange++
					}
				}
				for j := range shadow {
					if j >= o.Idx {
						delete(shadow, j)
					}
				}
			} else {
				if live {
					c.Fail("revert:valid-id-rejected", "RevertToSnapshot panicked on an id that is still valid", h,
						map[string]interface{}{"step": i, "op": o, "panic": msg}, "revert")
				}
				if d := e.diff(cur, prev); d != "" {
					c.Fail("revert:partial-on-panic", "a panicking RevertToSnapshot changed what getters read", h,
						map[string]interface{}{"step": i, "op": o, "diff": d}, "no change")
				}
			}
		case "Discard":
			if d := e.diff(cur, prev); d != "" {
				c.Fail("discard:getter-changed", "DiscardSnapshot changed what a getter reads", h,
					map[string]interface{}{"step": i, "op": o, "diff": d}, "no change")
			}
			if kind == rOK {
				for j := range shadow {
					if j >= o.Idx {
						delete(shadow, j)
					}
				}
			} else if _, live := shadow[o.Idx]; live {
				c.Fail("discard:valid-id-rejected", "DiscardSnapshot panicked on an id that is still valid", h,
					map[string]interface{}{"step": i, "op": o, "panic": msg}, "discard")
			}
		}
		prev = cur
		steps = append(steps, stepRec{cop: coqOp, ret: retRet, retCode: retCode, vec: cur, dberr: dberr})
		c.Count("op:" + o.Op)
	}

	c.Count("hist:" + h.Kind)
	c.Count(fmt.Sprintf("hist:len<=%d", bucket(len(h.Ops))))
	c.Count(fmt.Sprintf("hist:maxdepth=%d", min(maxDepth, 6)))
	if len(eff) > 0 {
		c.Count("hist:with-backend")
	}
	if reverts > 0 {
		c.Count("hist:with-revert")
	}
	if restoredAfterChange > 0 {
		c.Count("hist:revert-undid-a-change")
		b, _ := json.Marshal(h)
		c.Nontrivial(string(b))
	}

	if mode == modeOracle {
		return
	}
	if n := len(shadow); n > 0 {
		h2 := *h
		h2.Kind = h.Kind + "+unwind"
		h2.Ops = append([]Op{}, h.Ops...)
		for j := n - 1; j >= 0; j-- {
			h2.Ops = append(h2.Ops, Op{Op: "Revert", Idx: int64(j)})
		}
		defer runHist(c, &h2, modeOracle)
	}

	var as, ss []string
	for _, a := range e.addrs {
		as = append(as, coqWord(a[:]))
	}
	for _, s := range e.slots {
		ss = append(ss, coqWord(s[:]))
	}
	head := fmt.Sprintf("%s %s %s %s", tbl.coq(), hx.CoqList(as), hx.CoqList(ss), hx.CoqList(backend))
	var mem []storage.VerifKV
	var suic []ethcomm.Address
	var snapsV []storage.VerifSnapshotView
	if kind, msg := try(func() {
		mem = cache.VerifDumpMem()
		suic = sd.VerifSuicided()
		snapsV = sd.VerifSnapshots()
	}); kind != rOK {
		c.Fail("memdb-corrupt", "enumerating the live memdb or a saved snapshot panicked at the end of a history", h,
			map[string]interface{}{"panic": msg}, "ForEach enumerates the entries")
		return
	}
	var term string
	if verbose {
		var st, snaps []string
		for _, r := range steps {
			st = append(st, "VSt ("+r.cop+") "+r.ret+" "+coqVec(r.vec, r.dberr))
		}
		for _, sn := range snapsV {
			snaps = append(snaps, fmt.Sprintf("SnapD %s %s %s %d", coqKVs(sn.Changes), coqAddrs(sn.Suicided), hx.CoqNat(sn.LogsSize), sn.Refund))
		}
		term = fmt.Sprintf("CHist %s\n  [%s]\n  %s %s %s", head, strings.Join(st, ";\n   "),
			coqKVs(mem), coqAddrs(suic), hx.CoqList(snaps))
	} else {
		var st []string
		for _, r := range steps {
			errN := big.NewInt(0)
			if r.dberr {
				errN = big.NewInt(1)
			}
			nums := append(append(append([]*big.Int{}, r.retCode...), r.vec...), errN)
			st = append(st, "DSt ("+r.cop+") "+r.ret+" "+digest(7, nums).String())
		}
		fin := append(memNums(mem), setNums(suic)...)
		fin = append(fin, big.NewInt(int64(len(snapsV))))
		for _, sn := range snapsV {
			fin = append(fin, memNums(sn.Changes)...)
			fin = append(fin, setNums(sn.Suicided)...)
			fin = append(fin, big.NewInt(int64(sn.LogsSize)), new(big.Int).SetUint64(sn.Refund))
		}
		term = fmt.Sprintf("CHistD %s\n  [%s]\n  %s", head, strings.Join(st, ";\n   "), digest(11, fin).String())
	}
	c.Sample(map[string]interface{}{"kind": h.Kind, "ops": len(h.Ops), "history": h})
	c.Case(term, h)
}

func bucket(n int) int {
	for _, b := range []int{5, 10, 20, 40, 80} {
		if n <= b {
			return b
		}
	}
	return 1 << 20
}

func min(a, b int) int {
	if a < b {
		return a
	}
	return b
}

// ---------- entry ----------

func Run(c *hx.Ctx) {
	c.CoqModule("Corr.C08")
	var in Hist
	if c.ReplayInput(&in) {
		if len(in.Addrs) == 0 || len(in.Slots) == 0 {
			c.Note("replay input is not a C08 history (no addrs/slots)")
			return
		}
		runHist(c, &in, modeVerbose)
		return
	}
	for _, raw := range c.CorpusInputs() {
		var h Hist
		if json.Unmarshal(raw, &h) == nil && len(h.Addrs) > 0 {
			h.Kind = "corpus"
			runHist(c, &h, modeVerbose)
		}
	}
	for _, h := range fixedHistories() {
		runHist(c, h, modeVerbose)
	}
	n := c.N(176, 2400)
	for i := 0; i < n; i++ {
		runHist(c, genHist(c, i), modeDigest)
	}
}
