// Package c08: EVM snapshot revert restores exactly the observable state
// (smartcontract/storage.StateDB over CacheDB / overlaydb.MemDB.DeepClone).
//
// Every case is a history of StateDB calls executed on the real StateDB built over
// CacheDB -> OverlayDB -> in-memory LevelDB with the real ong.OngBalanceHandle.
// After every call ALL getters are read over a small universe of addresses and slots.
//   - oracle (implementation only): after RevertToSnapshot(id) of a still valid id every getter
//     equals what it answered right after the Snapshot() that returned id; DiscardSnapshot changes
//     no getter; a valid id is not rejected; a panicking revert/discard changes no getter;
//   - correspondence: the whole trace (results, getters, DbErr, final raw memdb, self-destruct set,
//     snapshot stack) is re-computed by Model/StateDB.v inside Coq (Corr/C08.v).
package c08

import (
	"encoding/binary"
	"encoding/json"
	"fmt"
	"math/big"
	"runtime"
	"sort"
	"strings"

	ethcomm "github.com/ethereum/go-ethereum/common"
	"github.com/ethereum/go-ethereum/crypto"
	"github.com/ontio/ontology/core/store/leveldbstore"
	"github.com/ontio/ontology/core/store/overlaydb"
	"github.com/ontio/ontology/core/types"
	"github.com/ontio/ontology/smartcontract/service/native/ong"
	"github.com/ontio/ontology/smartcontract/storage"

	"verif/harness/hx"
)

func init() { hx.Register("C08", Run) }

type KV struct {
	K string `json:"k"`
	V string `json:"v"` // "" in Overlay = deleted in the block cache
}

type Op struct {
	Op   string `json:"op"`
	A    int    `json:"a"`
	S    int    `json:"s"`
	Val  string `json:"val,omitempty"`
	N    uint64 `json:"n,omitempty"`
	Amt  string `json:"amt,omitempty"`
	Code string `json:"code,omitempty"`
	Idx  int64  `json:"idx,omitempty"`
}

type Hist struct {
	Kind    string   `json:"kind"`
	Store   []KV     `json:"store"`
	Overlay []KV     `json:"overlay"`
	Addrs   []string `json:"addrs"`
	Slots   []string `json:"slots"`
	Ops     []Op     `json:"ops"`
}

// ---------- running a history on the implementation ----------

const (
	rOK = iota
	rPanic
	rFault
)

func try(f func()) (kind int, msg string) {
	defer func() {
		if r := recover(); r != nil {
			if _, ok := r.(runtime.Error); ok {
				kind = rFault
			} else {
				kind = rPanic
			}
			msg = fmt.Sprint(r)
		}
	}()
	f()
	return
}

type env struct {
	sd    *storage.StateDB
	cache *storage.CacheDB
	addrs []ethcomm.Address
	slots []ethcomm.Hash
	names []string
}

func be(b []byte) *big.Int { return new(big.Int).SetBytes(b) }

// observe reads all getters; the order is the order of Corr/C08.v obs_vec.
func (e *env) observe() []*big.Int {
	var v []*big.Int
	u := func(x uint64) *big.Int { return new(big.Int).SetUint64(x) }
	b := func(x bool) *big.Int {
		if x {
			return big.NewInt(1)
		}
		return big.NewInt(0)
	}
	for _, a := range e.addrs {
		v = append(v, u(e.sd.GetNonce(a)))
		h := e.sd.GetCodeHash(a)
		v = append(v, be(h[:]))
		code := e.sd.GetCode(a)
		v = append(v, be(append([]byte{1}, code...)))
		v = append(v, big.NewInt(int64(e.sd.GetCodeSize(a))))
		v = append(v, new(big.Int).Set(e.sd.GetBalance(a)))
		v = append(v, b(e.sd.HasSuicided(a)))
		v = append(v, b(e.sd.Exist(a)))
		v = append(v, b(e.sd.Empty(a)))
		for _, k := range e.slots {
			s := e.sd.GetState(a, k)
			v = append(v, be(s[:]))
			cs := e.sd.GetCommittedState(a, k)
			v = append(v, be(cs[:]))
		}
	}
	v = append(v, u(e.sd.GetRefund()))
	logs := e.sd.GetLogs()
	v = append(v, big.NewInt(int64(len(logs))))
	for _, l := range logs {
		v = append(v, u(binary.BigEndian.Uint64(l.Data)))
	}
	return v
}

func (e *env) mkNames() {
	e.names = nil
	for i := range e.addrs {
		for _, n := range []string{"nonce", "codehash", "code", "codesize", "balance", "suicided", "exist", "empty"} {
			e.names = append(e.names, fmt.Sprintf("addr%d.%s", i, n))
		}
		for j := range e.slots {
			e.names = append(e.names, fmt.Sprintf("addr%d.state[%d]", i, j), fmt.Sprintf("addr%d.committed[%d]", i, j))
		}
	}
	e.names = append(e.names, "refund", "len(logs)")
}

func (e *env) name(i int) string {
	if i < len(e.names) {
		return e.names[i]
	}
	return fmt.Sprintf("logs[%d]", i-len(e.names))
}

// diff describes the first differing getters of two observations ("" when equal).
func (e *env) diff(got, want []*big.Int) string {
	var d []string
	n := len(got)
	if len(want) > n {
		n = len(want)
	}
	for i := 0; i < n && len(d) < 4; i++ {
		var g, w string = "-", "-"
		if i < len(got) {
			g = got[i].String()
		}
		if i < len(want) {
			w = want[i].String()
		}
		if g != w {
			d = append(d, fmt.Sprintf("%s: got %s, at snapshot %s", e.name(i), g, w))
		}
	}
	return strings.Join(d, "; ")
}

func coqVec(v []*big.Int, err bool) string {
	var sb strings.Builder
	sb.WriteByte('[')
	for _, x := range v {
		sb.WriteString(x.String())
		sb.WriteByte(';')
	}
	if err {
		sb.WriteString("1]")
	} else {
		sb.WriteString("0]")
	}
	return sb.String()
}

func coqA(a ethcomm.Address) string { return "(A " + be(a[:]).String() + ")" }
func coqW(h ethcomm.Hash) string    { return "(W " + be(h[:]).String() + ")" }

func coqKVs(kvs []storage.VerifKV) string {
	var s []string
	for _, kv := range kvs {
		s = append(s, "("+hx.CoqBytes(kv.Key)+", "+hx.CoqBytes(kv.Val)+")")
	}
	return hx.CoqList(s)
}

func coqAddrs(as []ethcomm.Address) string {
	sort.Slice(as, func(i, j int) bool { return string(as[i][:]) < string(as[j][:]) })
	var s []string
	for _, a := range as {
		s = append(s, coqA(a))
	}
	return hx.CoqList(s)
}

func amt(s string) *big.Int {
	v, ok := new(big.Int).SetString(s, 10)
	if !ok {
		panic("bad amount " + s)
	}
	return v
}

// runHist executes one history; when emit is set the correspondence case is written.
func runHist(c *hx.Ctx, h *Hist, emit bool) {
	c.Eval()
	store := leveldbstore.NewMemLevelDBStore()
	defer store.Close()
	touched := map[string]bool{}
	for _, kv := range h.Store {
		if err := store.Put(hx.UnHex(kv.K), hx.UnHex(kv.V)); err != nil {
			panic(err)
		}
		touched[kv.K] = true
	}
	overlay := overlaydb.NewOverlayDB(store)
	for _, kv := range h.Overlay {
		if kv.V == "" {
			overlay.Delete(hx.UnHex(kv.K))
		} else {
			overlay.Put(hx.UnHex(kv.K), hx.UnHex(kv.V))
		}
		touched[kv.K] = true
	}
	// effective backend content as the StateDB sees it
	var keys []string
	for k := range touched {
		keys = append(keys, k)
	}
	sort.Strings(keys)
	var backend []string
	for _, k := range keys {
		v, err := overlay.Get(hx.UnHex(k))
		if err != nil {
			panic(err)
		}
		if len(v) != 0 {
			backend = append(backend, "("+hx.CoqBytes(hx.UnHex(k))+", "+hx.CoqBytes(v)+")")
		}
	}

	cache := storage.NewCacheDB(overlay)
	sd := storage.NewStateDB(cache, ethcomm.Hash{}, ethcomm.Hash{}, ong.OngBalanceHandle{})
	e := &env{sd: sd, cache: cache}
	for _, a := range h.Addrs {
		e.addrs = append(e.addrs, ethcomm.BytesToAddress(hx.UnHex(a)))
	}
	for _, s := range h.Slots {
		e.slots = append(e.slots, ethcomm.BytesToHash(hx.UnHex(s)))
	}
	e.mkNames()

	shadow := map[int64][]*big.Int{} // id -> getters right after the Snapshot() that returned id
	tbl := map[string]string{}
	var steps []string
	maxDepth, reverts, restoredAfterChange := 0, 0, 0
	prev := e.observe()

	for i, o := range h.Ops {
		if o.A < 0 || o.A >= len(e.addrs) || o.S < 0 || o.S >= len(e.slots) {
			panic("bad index in history")
		}
		a, k := e.addrs[o.A], e.slots[o.S]
		var coqOp, coqRet string
		var kind int
		var msg string
		var snapID int64
		retRet := "RUnit"
		switch o.Op {
		case "SetState":
			val := ethcomm.BytesToHash(hx.UnHex(o.Val))
			coqOp = fmt.Sprintf("OSetState %s %s %s", coqA(a), coqW(k), coqW(val))
			kind, msg = try(func() { sd.SetState(a, k, val) })
		case "SetNonce":
			coqOp = fmt.Sprintf("OSetNonce %s %d", coqA(a), o.N)
			kind, msg = try(func() { sd.SetNonce(a, o.N) })
		case "SetCode":
			code := hx.UnHex(o.Code)
			hash := crypto.Keccak256Hash(code)
			tbl[hx.CoqBytes(code)] = coqW(hash)
			coqOp = fmt.Sprintf("OSetCode %s %s", coqA(a), hx.CoqBytes(code))
			kind, msg = try(func() { sd.SetCode(a, code) })
		case "AddBalance":
			coqOp = fmt.Sprintf("OAddBalance %s %s", coqA(a), o.Amt)
			kind, msg = try(func() { sd.AddBalance(a, amt(o.Amt)) })
		case "SubBalance":
			coqOp = fmt.Sprintf("OSubBalance %s %s", coqA(a), o.Amt)
			kind, msg = try(func() { sd.SubBalance(a, amt(o.Amt)) })
		case "Suicide":
			coqOp = fmt.Sprintf("OSuicide %s", coqA(a))
			kind, msg = try(func() { retRet = "RBool " + hx.CoqBool(sd.Suicide(a)) })
		case "AddLog":
			coqOp = fmt.Sprintf("OAddLog %d", o.N)
			data := make([]byte, 8)
			binary.BigEndian.PutUint64(data, o.N)
			kind, msg = try(func() { sd.AddLog(&types.StorageLog{Address: a, Topics: []ethcomm.Hash{k}, Data: data}) })
		case "AddRefund":
			coqOp = fmt.Sprintf("OAddRefund %d", o.N)
			kind, msg = try(func() { sd.AddRefund(o.N) })
		case "SubRefund":
			coqOp = fmt.Sprintf("OSubRefund %d", o.N)
			kind, msg = try(func() { sd.SubRefund(o.N) })
		case "CreateAccount":
			coqOp = fmt.Sprintf("OCreateAccount %s", coqA(a))
			kind, msg = try(func() { sd.CreateAccount(a) })
		case "Snapshot":
			coqOp = "OSnapshot"
			var id int
			kind, msg = try(func() { id = sd.Snapshot() })
			retRet = "RInt " + hx.CoqZ(int64(id))
			snapID = int64(id)
			if kind == rOK {
				// ids at or above the returned one cannot be live any more
				for j := range shadow {
					if j >= int64(id) {
						delete(shadow, j)
					}
				}
				shadow[int64(id)] = nil // filled below with the getters after the call
				if len(shadow) > maxDepth {
					maxDepth = len(shadow)
				}
			}
		case "Revert":
			coqOp = "ORevert " + hx.CoqZ(o.Idx)
			kind, msg = try(func() { sd.RevertToSnapshot(int(o.Idx)) })
		case "Discard":
			coqOp = "ODiscard " + hx.CoqZ(o.Idx)
			kind, msg = try(func() { sd.DiscardSnapshot(int(o.Idx)) })
		default:
			panic("unknown op " + o.Op)
		}
		switch kind {
		case rOK:
			coqRet = retRet
		case rPanic:
			coqRet = "RPanic"
			c.Count("panic:" + o.Op)
		case rFault:
			coqRet = "RFault"
			c.Count("fault:" + o.Op)
		}
		_ = msg
		cur := e.observe()
		dberr := sd.DbErr() != nil

		// ----- oracle (implementation only) -----
		at := map[string]interface{}{"history": h, "step": i, "op": o}
		switch o.Op {
		case "Snapshot":
			if kind == rOK {
				if d := e.diff(cur, prev); d != "" {
					c.Fail("snapshot:getter-changed", "Snapshot() itself changed what a getter reads", at, d, "no change")
				}
				shadow[snapID] = cur
			}
		case "Revert":
			want, live := shadow[o.Idx]
			if kind == rOK {
				reverts++
				if live {
					if d := e.diff(cur, want); d != "" {
						c.Fail("revert:getter-differs", "after RevertToSnapshot a getter does not read as when the snapshot was taken", at, d, "all getters as at Snapshot()")
					} else if e.diff(prev, want) != "" {
						restoredAfterChange++
					}
				}
				for j := range shadow {
					if j >= o.Idx {
						delete(shadow, j)
					}
				}
			} else {
				if live {
					c.Fail("revert:valid-id-rejected", "RevertToSnapshot panicked on an id that is still valid", at, msg, "revert")
				}
				if d := e.diff(cur, prev); d != "" {
					c.Fail("revert:partial-on-panic", "a panicking RevertToSnapshot changed what getters read", at, d, "no change")
				}
			}
		case "Discard":
			if d := e.diff(cur, prev); d != "" {
				c.Fail("discard:getter-changed", "DiscardSnapshot changed what a getter reads", at, d, "no change")
			}
			if kind == rOK {
				for j := range shadow {
					if j >= o.Idx {
						delete(shadow, j)
					}
				}
			} else if _, live := shadow[o.Idx]; live {
				c.Fail("discard:valid-id-rejected", "DiscardSnapshot panicked on an id that is still valid", at, msg, "discard")
			}
		}
		prev = cur
		steps = append(steps, "("+coqOp+", "+coqRet+", "+coqVec(cur, dberr)+")")
		c.Count("op:" + o.Op)
	}

	c.Count("hist:" + h.Kind)
	c.Count(fmt.Sprintf("hist:len<=%d", bucket(len(h.Ops))))
	c.Count(fmt.Sprintf("hist:maxdepth=%d", min(maxDepth, 6)))
	if reverts > 0 {
		c.Count("hist:with-revert")
	}
	if restoredAfterChange > 0 {
		c.Count("hist:revert-undid-a-change")
		b, _ := json.Marshal(h)
		c.Nontrivial(string(b))
	}
	if !emit {
		return
	}
	var tb []string
	var codes []string
	for code := range tbl {
		codes = append(codes, code)
	}
	sort.Strings(codes)
	for _, code := range codes {
		tb = append(tb, "("+code+", "+tbl[code]+")")
	}
	var as, ss []string
	for _, a := range e.addrs {
		as = append(as, coqA(a))
	}
	for _, s := range e.slots {
		ss = append(ss, coqW(s))
	}
	var snaps []string
	for _, sn := range sd.VerifSnapshots() {
		snaps = append(snaps, fmt.Sprintf("(%s, %s, %s, %d)", coqKVs(sn.Changes), coqAddrs(sn.Suicided), hx.CoqNat(sn.LogsSize), sn.Refund))
	}
	term := fmt.Sprintf("CHist %s %s %s %s\n  %s\n  %s %s %s",
		hx.CoqList(backend), hx.CoqList(tb), hx.CoqList(as), hx.CoqList(ss),
		"["+strings.Join(steps, ";\n   ")+"]",
		coqKVs(cache.VerifDumpMem()), coqAddrs(sd.VerifSuicided()), hx.CoqList(snaps))
	c.Sample(map[string]interface{}{"kind": h.Kind, "ops": len(h.Ops), "history": h})
	c.Case(term, h)
}

func bucket(n int) int {
	for _, b := range []int{5, 10, 20, 40, 80} {
		if n <= b {
			return b
		}
	}
	return 1 << 20
}

func min(a, b int) int {
	if a < b {
		return a
	}
	return b
}

// ---------- entry ----------

func Run(c *hx.Ctx) {
	c.CoqModule("Corr.C08")
	var in Hist
	if c.ReplayInput(&in) {
		runHist(c, &in, true)
		return
	}
	for _, raw := range c.CorpusInputs() {
		var h Hist
		if json.Unmarshal(raw, &h) == nil && len(h.Addrs) > 0 {
			h.Kind = "corpus"
			runHist(c, &h, true)
		}
	}
	for _, h := range fixedHistories() {
		runHist(c, h, true)
	}
	n := c.N(220, 2200)
	for i := 0; i < n; i++ {
		runHist(c, genHist(c, i), true)
	}
}
