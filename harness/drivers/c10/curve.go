package c10

import (
	"fmt"
	"math/big"

	"github.com/ontio/ontology/smartcontract/service/native"
	gov "github.com/ontio/ontology/smartcontract/service/native/governance"

	"verif/harness/drivers/c11"
	"verif/harness/hx"
)

// ---------------------------------------------------------------- splitCurve

type curveIn struct {
	Kind string `json:"kind"`
	Pos  uint64 `json:"pos"`
	Avg  uint64 `json:"avg"`
	Yita uint64 `json:"yita"`
}

func runCurve(c *hx.Ctx, w *c11.World, in *curveIn) {
	var s uint64
	var err error
	panicked, _ := w.WithNative(hExact, 0, func(ns *native.NativeService) {
		s, err = gov.VerifSplitCurve(ns, govC, in.Pos, in.Avg, in.Yita)
	})
	r := xres(err, panicked)
	c.Count("curve:" + r)
	c.Case(fmt.Sprintf("CCurve INIT_Yi %d %d %d %s %d", in.Pos, in.Avg, in.Yita, r, s), in)
	if in.Pos > 0 && in.Avg > 0 && in.Yita > 0 && in.Pos < 1<<30 && in.Avg < 1<<30 && in.Yita <= 100 {
		c.Nontrivial(fmt.Sprintf("curve/%d/%d/%d", in.Pos, in.Avg, in.Yita))
		if panicked {
			c.Fail("curve:panic", "splitCurve panics on an in-range input", in, nil, nil)
		}
	}
}

func curveCases(c *hx.Ctx, w *c11.World) {
	n := c.N(160, 3000)
	for i := 0; i < n; i++ {
		in := &curveIn{Kind: "curve", Yita: 5}
		switch c.Intn(8) {
		case 0:
			in.Pos, in.Avg = c.U64Boundary(), c.U64Boundary()
		case 1:
			in.Pos, in.Avg, in.Yita = uint64(c.Intn(2000000)), uint64(c.Intn(3)), uint64(c.Intn(7))
		case 2:
			in.Pos, in.Avg, in.Yita = uint64(10000+c.Intn(1000000)), uint64(10000+c.Intn(1000000)), c.U64Boundary()
		case 3, 4:
			// around the end of the table: xi/100000 in 96..104 (index is clamped to len(Xi)-2)
			in.Avg = uint64(10000 + c.Intn(500000))
			in.Yita = uint64(1 + c.Intn(9))
			target := uint64(96+c.Intn(9))*100000 + uint64(c.Intn(3))*49999
			in.Pos = target*in.Avg*10/(2000000*in.Yita) + uint64(c.Intn(3))
		default:
			in.Avg = uint64(10000 + c.Intn(500000))
			in.Pos = uint64(c.Intn(int(3 * in.Avg)))
			in.Yita = uint64(1 + c.Intn(9))
		}
		runCurve(c, w, in)
	}
}

// ---------------------------------------------------------------- splitNodeFee

type infoIn struct {
	Addr int       `json:"addr"`
	B    [6]uint64 `json:"b"`
}
type nodeFeeIn struct {
	Kind       string   `json:"kind"`
	Height     uint32   `json:"height"`
	Peer       int      `json:"peer"`
	Owner      int      `json:"owner"`
	Pre        bool     `json:"pre"`
	Cur        bool     `json:"cur"`
	Init       uint64   `json:"init"`
	Total      uint64   `json:"total"`
	NodeAmount uint64   `json:"nodeAmount"`
	HasAttr    bool     `json:"hasAttr"`
	PeerCost   uint64   `json:"peerCost"`
	StakeCost  uint64   `json:"stakeCost"`
	Infos      []infoIn `json:"infos"`
	Noise      []infoIn `json:"noise"` // infos of another peer (peer+1)
}

// hypothesis: what the proofs assume - percentages <= 100 (stake cost after the 0/101
// conventions), 100*nodeAmount does not wrap, and the non-owner validate positions fit into TotalPos.
func (in *nodeFeeIn) hypothesis() bool {
	pc, sc := uint64(100), uint64(0)
	if in.HasAttr {
		pc, sc = in.PeerCost, in.StakeCost
	}
	if sc == 0 {
		sc = pc
	}
	if sc == 101 {
		sc = 0
	}
	if pc > 100 || sc > 100 || in.NodeAmount > (1<<64-1)/100 {
		return false
	}
	var sum uint64
	for _, i := range in.Infos {
		if i.B[0] > 1<<40 || i.B[1] > 1<<40 || i.B[3] > 1<<40 || i.B[4] > 1<<40 {
			return false
		}
		if i.Addr == in.Owner {
			continue
		}
		if in.Pre || in.Cur {
			sum += i.B[0] + i.B[3]
		} else {
			sum += i.B[1] + i.B[4]
		}
	}
	return sum <= in.Total && in.Init+in.Total > 0 && in.Init < 1<<40 && in.Total < 1<<40
}

func runNodeFee(c *hx.Ctx, w *c11.World, in *nodeFeeIn) {
	var err error
	var fees [][2]uint64
	panicked, pmsg := w.WithNative(in.Height, 0, func(ns *native.NativeService) {
		put := func(peer int, l []infoIn) {
			for _, i := range l {
				ai := &gov.AuthorizeInfo{PeerPubkey: c11.KeyOf(peer), Address: c11.AddrOf(i.Addr), ConsensusPos: i.B[0], CandidatePos: i.B[1],
					NewPos: i.B[2], WithdrawConsensusPos: i.B[3], WithdrawCandidatePos: i.B[4], WithdrawUnfreezePos: i.B[5]}
				if e := gov.VerifPutAuthorizeInfo(ns, govC, ai); e != nil {
					panic(e)
				}
			}
		}
		put(in.Peer, in.Infos)
		put(in.Peer+1, in.Noise)
		if in.HasAttr {
			pa := &gov.PeerAttributes{PeerPubkey: c11.KeyOf(in.Peer), TPeerCost: in.PeerCost, TStakeCost: in.StakeCost, T1PeerCost: 7, T2PeerCost: 9}
			if e := gov.VerifPutPeerAttributes(ns, govC, pa); e != nil {
				panic(e)
			}
		}
		err = gov.VerifSplitNodeFee(ns, govC, c11.KeyOf(in.Peer), c11.AddrOf(in.Owner), in.Pre, in.Cur, in.Init, in.Total, in.NodeAmount)
		if err == nil {
			fees = readFees(ns)
		}
	})
	r := xres(err, panicked)
	c.Count("nodefee:" + r)
	nc, ex := flags(in.Height)
	c.Count(fmt.Sprintf("nodefee:newcost=%v,exact=%v", nc, ex))
	var infos []string
	for _, i := range in.Infos {
		infos = append(infos, fmt.Sprintf("mkInfo %d %d %d %d %d %d %d %d", in.Peer, i.Addr, i.B[0], i.B[1], i.B[2], i.B[3], i.B[4], i.B[5]))
	}
	for _, i := range in.Noise {
		infos = append(infos, fmt.Sprintf("mkInfo %d %d %d %d %d %d %d %d", in.Peer+1, i.Addr, i.B[0], i.B[1], i.B[2], i.B[3], i.B[4], i.B[5]))
	}
	attrs := "[]"
	if in.HasAttr {
		attrs = fmt.Sprintf("[(%d, (%d, %d))]", in.Peer, in.PeerCost, in.StakeCost)
	}
	e := &envT{Height: in.Height, A: 50, B: 50, Yita: 5, K: 7, CandNum: 49}
	c.Case(fmt.Sprintf("CNodeFee %s %d %d %s %s %d %d %d %s %s [] %s %s", e.coq(), in.Peer, in.Owner, hx.CoqBool(in.Pre), hx.CoqBool(in.Cur),
		in.Init, in.Total, in.NodeAmount, attrs, hx.CoqList(infos), r, coqKV(fees)), in)
	if in.hypothesis() {
		c.Count("nodefee:hypothesis-holds")
		c.Nontrivial(fmt.Sprintf("nodefee/%d/%d/%d/%d/%v", in.Height, in.NodeAmount, in.Total, len(in.Infos), in.Pre || in.Cur))
		if r != "XOk" {
			c.Fail("nodefee:fails-under-hypothesis", "splitNodeFee fails although percentages <= 100 and the validate positions fit into TotalPos: "+pmsg, in, r, "XOk")
			return
		}
		sum := new(big.Int)
		for _, f := range fees {
			sum.Add(sum, new(big.Int).SetUint64(f[1]))
		}
		if sum.Cmp(new(big.Int).SetUint64(in.NodeAmount)) != 0 {
			c.Fail("nodefee:credits-differ-from-node-amount", "the credits of one splitNodeFee must add up to exactly the node's amount (no wrap in nodeAmount - sumAmount)", in, sum.String(), in.NodeAmount)
		}
	}
}

func nodeFeeCases(c *hx.Ctx, w *c11.World) {
	n := c.N(260, 4000)
	heights := []uint32{hOldCost, hNewCost, hExact}
	for i := 0; i < n; i++ {
		in := &nodeFeeIn{Kind: "nodefee", Height: heights[c.Intn(3)], Peer: 8, Owner: 5, Pre: c.Intn(2) == 0, Cur: c.Intn(2) == 0}
		in.Init = uint64(10000 + c.Intn(100000))
		valid := c.Intn(4) != 0 // three quarters satisfy the hypothesis by construction
		nInfos := c.Intn(6)
		var sumVp uint64
		for j := 0; j < nInfos; j++ {
			inf := infoIn{Addr: 5 + c.Intn(6)}
			dup := false
			for _, x := range in.Infos {
				dup = dup || x.Addr == inf.Addr
			}
			if dup {
				continue
			}
			for b := 0; b < 6; b++ {
				if c.Intn(3) != 0 {
					inf.B[b] = uint64(500 * c.Intn(40))
				}
			}
			if !valid && c.Intn(12) == 0 {
				inf.B[c.Intn(6)] = c.U64Boundary()
			}
			in.Infos = append(in.Infos, inf)
			if inf.Addr != in.Owner {
				if in.Pre || in.Cur {
					sumVp += inf.B[0] + inf.B[3]
				} else {
					sumVp += inf.B[1] + inf.B[4]
				}
			}
		}
		if c.Intn(3) == 0 {
			in.Noise = []infoIn{{Addr: 8, B: [6]uint64{500, 500, 500, 500, 500, 500}}}
		}
		if valid {
			in.Total = sumVp + uint64(500*c.Intn(20))
		} else {
			in.Total = uint64(500 * c.Intn(30))
		}
		switch c.Intn(10) {
		case 0:
			in.NodeAmount = c.U64Boundary()
		case 1:
			in.NodeAmount = uint64(c.Intn(100))
		case 2:
			in.NodeAmount = (1<<64-1)/100 - uint64(c.Intn(3))
		default:
			in.NodeAmount = uint64(c.Rng.Int63n(1_000_000_000_000_000))
		}
		if c.Intn(4) != 0 {
			in.HasAttr = true
			in.PeerCost = uint64(c.Intn(101))
			in.StakeCost = uint64(c.Intn(102))
			if !valid && c.Intn(3) == 0 {
				in.PeerCost = uint64(c.Intn(300))
			}
		}
		runNodeFee(c, w, in)
	}
}
