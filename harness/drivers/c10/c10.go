// Package c10: the governance fee split never distributes more than it is splitting (C10).
//
// Three families of correspondence cases for Model/GovSplit.v, all executed on the real code
// through the add-only exporters in governance/verif_hooks.go:
//   - splitCurve on realistic and boundary (pos, avg, yita);
//   - splitNodeFee on crafted authorize infos / peer attributes, in the three height regimes
//     (old peer cost + wrapping address split, new cost + wrapping, new cost + exact);
//   - executeSplit2 on the storage produced by governance histories (the C11 generator, started
//     after seven epochs, with setPeerCost / setFeePercentage mixed in).
//
// The ORACLE evaluates the property on the implementation's own numbers: the credits of one
// executeSplit2 add up to the returned splitSum, splitSum + dapp income <= income, no credit
// wraps, and the hypothesis the proofs take from C11 (per peer: sum of the authorizers' validate
// positions <= TotalPos of the previous view) holds on every reachable state.
package c10

import (
	"encoding/json"
	"fmt"

	"github.com/ontio/ontology/common/constants"
	"github.com/ontio/ontology/common/log"
	"github.com/ontio/ontology/smartcontract/service/native"
	gov "github.com/ontio/ontology/smartcontract/service/native/governance"
	nutils "github.com/ontio/ontology/smartcontract/service/native/utils"

	"verif/harness/drivers/c11"
	"verif/harness/hx"
)

func init() { hx.Register("C10", Run) }

var govC = nutils.GovernanceContractAddress

const (
	hOldCost = 9_000_000  // <= NEW_PEER_COST: amount = nodeAmount*(100-peerCost)/100, wrapping address split
	hNewCost = 10_000_000 // new cost formula, wrapping address split
	hExact   = 17_400_000 // new cost formula, exact address split
)

func flags(h uint32) (newcost, exact bool) {
	return h > constants.BLOCKHEIGHT_NEW_PEER_COST_MAINNET, h > constants.USER_FEE_SPLIT_OVERFLOW_MAINNET
}

type envT struct {
	Height  uint32 `json:"height"`
	A, B    uint32
	Yita    uint32
	K       uint32
	CandNum uint32 `json:"candNum"`
	DappFee uint32 `json:"dappFee"`
	Gas     bool   `json:"gas"`
}

func (e *envT) coq() string {
	nc, ex := flags(e.Height)
	return fmt.Sprintf("(mkSplitEnv %s %s %d %d %d %d %d %d %s INIT_Yi)", hx.CoqBool(nc), hx.CoqBool(ex), e.A, e.B, e.Yita, e.K, e.CandNum, e.DappFee, hx.CoqBool(e.Gas))
}

func xres(err error, panicked bool) string {
	switch {
	case panicked:
		return "XPanic"
	case err != nil:
		return "XErr"
	}
	return "XOk"
}

func coqKV(l [][2]uint64) string {
	var items []string
	for _, e := range l {
		items = append(items, fmt.Sprintf("(%d, %d)", e[0], e[1]))
	}
	return hx.CoqList(items)
}

func baseWorld(c *hx.Ctx) *c11.World {
	w := c11.NewWorld(c)
	st := &c11.Setup{Funded: true, Bal: map[int]uint64{}, Height0: hExact, Time0: constants.CHANGE_UNBOUND_TIMESTAMP_MAINNET + 100000}
	for i := 1; i <= 7; i++ {
		st.Peers = append(st.Peers, c11.GenesisPeer{Peer: i, Owner: 3 + i%2, Init: uint64(10000 + 1000*i)})
	}
	if err := w.Genesis(st); err != nil {
		panic(err)
	}
	return w
}

// readFees returns the stored splitFeeAddress amounts of all known addresses (non-zero ones).
func readFees(ns *native.NativeService) [][2]uint64 {
	var out [][2]uint64
	for id := 0; id < c11.NAddr; id++ {
		v, err := gov.VerifGetSplitFeeAddress(ns, govC, c11.AddrOf(id))
		if err != nil {
			panic(err)
		}
		if v != 0 {
			out = append(out, [2]uint64{uint64(id), v})
		}
	}
	return out
}

func feeOf(l [][2]uint64, id uint64) uint64 {
	for _, e := range l {
		if e[0] == id {
			return e[1]
		}
	}
	return 0
}

func Run(c *hx.Ctx) {
	c.CoqModule("Corr.C10")
	log.Log().SetDebugLevel(log.MaxLevelLog) // executeAddressSplit logs every wrapped product
	var raw json.RawMessage
	if c.ReplayInput(&raw) {
		replay(c, raw)
		return
	}
	for _, r := range c.CorpusInputs() {
		replay(c, r)
		c.Count("corpus")
	}
	w := baseWorld(c)
	curveCases(c, w)
	nodeFeeCases(c, w)
	splitCases(c)
}

func replay(c *hx.Ctx, raw json.RawMessage) {
	var k struct {
		Kind string `json:"kind"`
	}
	if json.Unmarshal(raw, &k) != nil {
		return
	}
	switch k.Kind {
	case "curve":
		var in curveIn
		json.Unmarshal(raw, &in)
		runCurve(c, baseWorld(c), &in)
	case "nodefee":
		var in nodeFeeIn
		json.Unmarshal(raw, &in)
		runNodeFee(c, baseWorld(c), &in)
	case "split":
		var in splitIn
		json.Unmarshal(raw, &in)
		runSplit(c, &in)
	case "withdrawfee":
		var in wfeeIn
		json.Unmarshal(raw, &in)
		runWithdrawFee(c, &in)
	}
}
