package c10

import (
	"fmt"
	"math/big"

	"github.com/ontio/ontology/common"
	"github.com/ontio/ontology/common/constants"
	"github.com/ontio/ontology/smartcontract/service/native"
	gov "github.com/ontio/ontology/smartcontract/service/native/governance"

	"verif/harness/drivers/c11"
	"verif/harness/hx"
)

// ---------------------------------------------------------------- executeSplit2 on histories

type splitIn struct {
	Kind    string      `json:"kind"`
	History c11.History `json:"history"`
	Upto    int         `json:"upto"` // number of history operations executed before the split
	Env     envT        `json:"env"`
	Income  uint64      `json:"income"`  // ONG (10^-9) held by governance above the recorded split fee when the split runs
	KeepOng bool        `json:"keepOng"` // leave governance's ONG balance as the history produced it
	Gas     int         `json:"gasAddr"`
}

func setParams(w *c11.World, in *splitIn, h, t uint32) {
	if in.Env.CandNum != 49 || in.Env.DappFee != 0 {
		p := &gov.GlobalParam2{MinAuthorizePos: 500, CandidateFeeSplitNum: in.Env.CandNum, DappFee: in.Env.DappFee}
		sink := common.NewZeroCopySink(nil)
		if err := p.Serialization(sink); err != nil {
			panic(err)
		}
		if err := w.Invoke(govC, gov.UPDATE_GLOBAL_PARAM2, sink.Bytes(), []int{c11.IDAdmin}, h, t); err != nil {
			panic(err)
		}
	}
	if in.Env.Gas {
		sink := common.NewZeroCopySink(nil)
		(&gov.GasAddress{Address: c11.AddrOf(in.Gas)}).Serialization(sink)
		if err := w.Invoke(govC, gov.SET_GAS_ADDRESS, sink.Bytes(), []int{c11.IDAdmin}, h, t); err != nil {
			panic(err)
		}
	}
}

func runSplit(c *hx.Ctx, in *splitIn) {
	w := c11.NewWorld(c)
	if err := w.Genesis(&in.History.Setup); err != nil {
		panic(err)
	}
	setParams(w, in, in.History.Setup.Height0, in.History.Setup.Time0)
	for i := 0; i < in.Upto && i < len(in.History.Ops); i++ {
		w.Apply(&in.History.Ops[i])
	}
	splitAt(c, w, in)
}

// h2 evaluates hypothesis (H2) on decoded storage: for each candidate of the previous view's pool,
// the validate positions of its authorizers (owner excluded) fit into the TotalPos frozen there.
func h2(c *hx.Ctx, o *c11.Obs, in *splitIn) {
	cur := map[int]int{}
	for _, p := range o.Pool {
		cur[p.Peer] = p.Status
	}
	for _, p := range o.Prev {
		if p.Status != 1 && p.Status != 2 {
			continue
		}
		cs := p.Status == 2 || cur[p.Peer] == 2
		var sum uint64
		for _, i := range o.Infos {
			if i.Peer != p.Peer || i.Addr == p.Owner {
				continue
			}
			if cs {
				sum += i.B[0] + i.B[3]
			} else {
				sum += i.B[1] + i.B[4]
			}
		}
		c.Count("h2-evaluated")
		if sum > p.Total {
			c.Fail("split:h2-violated", "the authorizers' validate positions of a peer exceed its TotalPos in the previous view's pool (the fee split would hand out more than the node's amount)", in,
				map[string]interface{}{"peer": p.Peer, "sum": sum, "prevTotalPos": p.Total, "consensus_side": cs}, nil)
		}
	}
}

// splitAt runs executeSplit2 on the world's current storage (throw-away cache), emits the
// correspondence case and evaluates the oracle.
func splitAt(c *hx.Ctx, w *c11.World, in *splitIn) {
	if !in.KeepOng {
		// the income of this round: ONG is outside the models, the balance is written directly
		var sf uint64
		w.WithNative(in.Env.Height, in.History.Setup.Time0, func(ns *native.NativeService) { sf, _ = gov.VerifGetSplitFee(ns, govC) })
		bal := sf + in.Income
		if bal < sf {
			bal = ^uint64(0)
		}
		w.SetOng(c11.IDGov, bal)
	}
	o, err := w.Observe()
	if err != nil {
		panic(err)
	}
	costs, err := w.Costs()
	if err != nil {
		panic(err)
	}
	gp, err := w.GlobalParam()
	if err != nil {
		panic(err)
	}
	in.Env.A, in.Env.B, in.Env.Yita = gp.A, gp.B, gp.Yita // what the contract will read
	var fees0, fees1 [][2]uint64
	var bal0, bal1, splitFee, splitSum uint64
	var serr error
	panicked, pmsg := w.WithNative(in.Env.Height, in.History.Setup.Time0, func(ns *native.NativeService) {
		fees0 = readFees(ns)
		bal0, _ = gov.VerifGetOngBalance(ns, govC)
		splitFee, _ = gov.VerifGetSplitFee(ns, govC)
		splitSum, serr = gov.VerifExecuteSplit2(ns, govC, o.View)
		if serr == nil {
			fees1 = readFees(ns)
			bal1, _ = gov.VerifGetOngBalance(ns, govC)
		}
	})
	r := xres(serr, panicked)
	c.Count("split:" + r)
	dapp := uint64(0)
	if r == "XOk" {
		dapp = bal0 - bal1
	}
	var attrs []string
	for _, k := range costs {
		attrs = append(attrs, fmt.Sprintf("(%d, (%d, %d))", k[0], k[1], k[2]))
	}
	c.Case(fmt.Sprintf("CSplit %s %s %s %s %s %s %d %d %s %s %d %d", in.Env.coq(), o.CoqPool(o.Prev), o.CoqPool(o.Pool), hx.CoqList(attrs),
		o.CoqInfos(), coqKV(fees0), bal0, splitFee, r, coqKV(fees1), splitSum, dapp), in)

	// ---- oracle
	if panicked {
		c.Fail("split:panic", "executeSplit2 panics on a state produced by governance transactions: "+pmsg, in, nil, nil)
		return
	}
	h2(c, o, in)
	if r != "XOk" {
		c.Count("split:error:" + serr.Error())
		return
	}
	income := bal0 - splitFee
	recorded := new(big.Int)
	for _, f := range fees0 {
		recorded.Add(recorded, new(big.Int).SetUint64(f[1]))
	}
	if recorded.Cmp(new(big.Int).SetUint64(splitFee)) != 0 {
		c.Fail("fee-ledger:records-differ-from-splitfee", "the per-address split fee records do not add up to the recorded splitFee", in, recorded.String(), splitFee)
	}
	credited := new(big.Int)
	authorizerCredited := false
	for id := 0; id < c11.NAddr; id++ {
		a, b := feeOf(fees0, uint64(id)), feeOf(fees1, uint64(id))
		if b < a {
			c.Fail("split:credit-wrapped", "a splitFeeAddress amount decreased during a split", in, map[string]interface{}{"addr": id, "before": a, "after": b}, nil)
			continue
		}
		credited.Add(credited, new(big.Int).SetUint64(b-a))
		if b > a && id >= 8 && id <= 10 {
			authorizerCredited = true
		}
	}
	if authorizerCredited {
		c.Count("split:authorizer-credited") // some peer shares its fee (cost below 100) with an authorizer
	}
	if credited.Cmp(new(big.Int).SetUint64(splitSum)) != 0 {
		c.Fail("split:credits-differ-from-splitsum", "the amounts credited to addresses differ from the splitSum added to the recorded split fee", in, credited.String(), splitSum)
	}
	total := new(big.Int).Add(credited, new(big.Int).SetUint64(dapp))
	if total.Cmp(new(big.Int).SetUint64(income)) > 0 {
		c.Fail("split:more-than-income", "credits + dapp income exceed the income being split", in, total.String(), income)
	}
	if new(big.Int).Add(new(big.Int).SetUint64(splitFee), credited).Cmp(new(big.Int).SetUint64(bal1)) > 0 {
		c.Fail("split:not-withdrawable", "recorded split fees exceed the ONG balance of governance after the split", in, nil, bal1)
	}
	if splitSum > 0 {
		c.Nontrivial(fmt.Sprintf("split/%d/%d/%d", in.Upto, income, splitSum))
	}
}

// ---------------------------------------------------------------- WithdrawFee

type wfeeIn struct {
	Kind    string      `json:"kind"`
	History c11.History `json:"history"`
	Addr    int         `json:"addr"`
	Signer  int         `json:"signer"`
	Drain   bool        `json:"drain"` // governance's ONG balance is set below the record first
}

func runWithdrawFee(c *hx.Ctx, in *wfeeIn) {
	w := c11.NewWorld(c)
	if err := w.Genesis(&in.History.Setup); err != nil {
		panic(err)
	}
	var h, t uint32 = in.History.Setup.Height0, in.History.Setup.Time0
	for i := range in.History.Ops {
		w.Apply(&in.History.Ops[i])
		h, t = in.History.Ops[i].Height, in.History.Ops[i].Time
	}
	read := func() (fees [][2]uint64, sf, bal uint64) {
		w.WithNative(h, t, func(ns *native.NativeService) {
			fees = readFees(ns)
			sf, _ = gov.VerifGetSplitFee(ns, govC)
			bal, _ = gov.VerifGetOngBalance(ns, govC)
		})
		return
	}
	fees0, sf0, bal0 := read()
	if in.Drain {
		if rec := feeOf(fees0, uint64(in.Addr)); rec > 0 {
			w.SetOng(c11.IDGov, rec-1)
			fees0, sf0, bal0 = read()
		}
	}
	sink := common.NewZeroCopySink(nil)
	(&gov.WithdrawFeeParam{Address: c11.AddrOf(in.Addr)}).Serialization(sink)
	err := w.Invoke(govC, gov.WITHDRAW_FEE, sink.Bytes(), []int{in.Signer}, h+1, t)
	fees1, sf1, bal1 := read()
	r := xres(err, false)
	c.Count("withdrawfee:" + r)
	if in.Signer == in.Addr {
		c.Case(fmt.Sprintf("CWithdrawFee %s %d %d %d %s %s %d %d", coqKV(fees0), sf0, bal0, in.Addr, r, coqKV(fees1), sf1, bal1), in)
	}
	rec := feeOf(fees0, uint64(in.Addr))
	if err != nil {
		if fmt.Sprint(fees0) != fmt.Sprint(fees1) || sf0 != sf1 || bal0 != bal1 {
			c.Fail("withdrawfee:failed-call-changed-state", "a failing withdrawFee changed the fee ledger", in, nil, nil)
		}
		return
	}
	if in.Signer != in.Addr {
		c.Fail("withdrawfee:wrong-signer-accepted", "withdrawFee succeeded without the address' signature", in, nil, nil)
	}
	if bal0-bal1 != rec || sf0-sf1 != rec || feeOf(fees1, uint64(in.Addr)) != 0 {
		c.Fail("withdrawfee:pays-other-than-record", "withdrawFee must pay exactly the address' record, reduce splitFee by it and clear the record", in,
			map[string]interface{}{"paid": bal0 - bal1, "record": rec, "splitFeeDelta": sf0 - sf1}, nil)
	}
	if rec > 0 {
		c.Nontrivial(fmt.Sprintf("wfee/%d/%d", in.Addr, rec))
	}
}

// walk replays a history once: (H2) is evaluated on the decoded storage after every transaction,
// and right before every transaction that may settle an epoch (commitDpos, blackNode) - and at the
// end - executeSplit2 is run on the storage and ONG balance the history itself produced.
func walk(c *hx.Ctx, h *c11.History) {
	w := c11.NewWorld(c)
	if err := w.Genesis(&h.Setup); err != nil {
		panic(err)
	}
	mk := func(upto int, height uint32) *splitIn {
		return &splitIn{Kind: "split", History: *h, Upto: upto, Gas: 10, KeepOng: true,
			Env: envT{Height: height, A: 50, B: 50, Yita: 5, K: 7, CandNum: 49}}
	}
	for i := range h.Ops {
		op := &h.Ops[i]
		if op.Kind == "commit" || op.Kind == "black" {
			splitAt(c, w, mk(i, op.Height))
		}
		w.Apply(op)
		o, err := w.Observe()
		if err != nil {
			panic(err)
		}
		h2(c, o, mk(i+1, op.Height))
	}
	last := h.Setup.Height0
	if n := len(h.Ops); n > 0 {
		last = h.Ops[n-1].Height
	}
	splitAt(c, w, mk(len(h.Ops), last+1))
}

// probeHistories: within one epoch an address holding Consensus (resp. Candidate) positions on a
// peer whose owner shares the fees (cost 20 / 30) authorizes more and then unauthorizes more than
// it just added; the epoch is then settled twice and the fees are withdrawn.
func probeHistories() []*c11.History {
	st := c11.Setup{Funded: true, Bal: map[int]uint64{5: 100000, 6: 100000, 7: 100000, 8: 60000, 9: 60000, 10: 60000},
		Height0: hExact, Time0: constants.CHANGE_UNBOUND_TIMESTAMP_MAINNET + 100000}
	for i := 1; i <= 7; i++ {
		st.Peers = append(st.Peers, c11.GenesisPeer{Peer: i, Owner: 3 + i%2, Init: uint64(10000 + 1000*i)})
	}
	ops := []c11.Op{
		{Kind: "feepct", Signer: 4, Addr: 4, Peer: 7, Amount: 20, Pos: []uint32{20}},
		{Kind: "maxauth", Signer: 4, Addr: 4, Peer: 7, Amount: 200000},
		{Kind: "authorize", Signer: 8, Addr: 8, Peers: []int{7}, Pos: []uint32{10000}},
		{Kind: "register", Signer: 6, Addr: 6, Peer: 9, Amount: 10000},
		{Kind: "maxauth", Signer: 6, Addr: 6, Peer: 9, Amount: 100000},
		{Kind: "peercost", Signer: 6, Addr: 6, Peer: 9, Amount: 30},
		{Kind: "authorize", Signer: 9, Addr: 9, Peers: []int{9}, Pos: []uint32{500}},
	}
	for i := 0; i < 9; i++ {
		ops = append(ops, c11.Op{Kind: "commit", Signer: c11.IDAdmin})
	}
	ops = append(ops,
		c11.Op{Kind: "authorize", Signer: 8, Addr: 8, Peers: []int{7}, Pos: []uint32{5000}},
		c11.Op{Kind: "unauthorize", Signer: 8, Addr: 8, Peers: []int{7}, Pos: []uint32{7500}},
		c11.Op{Kind: "authorize", Signer: 9, Addr: 9, Peers: []int{9}, Pos: []uint32{1000}},
		c11.Op{Kind: "unauthorize", Signer: 9, Addr: 9, Peers: []int{9}, Pos: []uint32{1500}},
		c11.Op{Kind: "commit", Signer: c11.IDAdmin},
		c11.Op{Kind: "commit", Signer: c11.IDAdmin},
	)
	h, t := st.Height0, st.Time0
	for i := range ops {
		h++
		t += 5
		ops[i].Height, ops[i].Time = h, t
	}
	return []*c11.History{{Setup: st, Ops: ops}}
}

func splitCases(c *hx.Ctx) {
	var hs []*c11.History
	for _, h := range probeHistories() {
		hs = append(hs, h)
		c.Count("split:probe-history")
	}
	n := c.N(10, 120)
	for i := 0; i < n; i++ {
		hs = append(hs, c11.GenSplitHistory(c, i))
	}
	for _, h := range hs {
		walk(c, h)
		for j := 0; j < 3; j++ {
			upto := 7 + c.Intn(len(h.Ops)-6)
			in := &splitIn{Kind: "split", History: *h, Upto: upto, Gas: 10,
				Env: envT{A: 50, B: 50, Yita: 5, K: 7, CandNum: 49}}
			in.Env.Height = []uint32{hOldCost, hNewCost, hExact, hExact}[c.Intn(4)]
			if h.Setup.Height0 < hOldCost { // the history ran before these heights
				in.Env.Height = hOldCost
			}
			switch c.Intn(4) {
			case 0:
				in.Env.CandNum = uint32(7 + c.Intn(5))
			case 1:
				in.Env.Gas, in.Env.DappFee = true, uint32(c.Intn(101))
				in.Env.CandNum = uint32(7 + c.Intn(43))
			}
			switch c.Intn(6) {
			case 0:
				in.Income = uint64(c.Intn(1000))
			case 1:
				in.Income = (1<<64 - 1) / 100
			default:
				in.Income = uint64(c.Rng.Int63n(10_000_000_000_000_000))
			}
			runSplit(c, in)
		}
		for j := 0; j < 4; j++ {
			wi := &wfeeIn{Kind: "withdrawfee", History: *h, Addr: 3 + c.Intn(8)}
			wi.Signer = wi.Addr
			switch c.Intn(8) {
			case 0:
				wi.Signer = 3 + c.Intn(8)
			case 1:
				wi.Drain = true
			}
			runWithdrawFee(c, wi)
		}
	}
}
