// Package c40: chain queries agree with the committed blocks, before and after a restart.
//
// A source chain (0..k transfer transactions per block) is built on one solo ledger; its blocks are
// then fed to a second, fresh ledger with the same genesis by a random script of AddBlock (next,
// stale, future), AddHeader (next, wrong height), Close/Open and checkpoints.  At every checkpoint
//   - the ORACLE compares, for every committed height, hash by height, block by height, block by hash,
//     header by hash and every transaction by hash (with its height) against the block that was
//     committed (byte-for-byte on the serializations), and
//   - a CORRESPONDENCE case records the same answers plus the persisted records, the header index
//     cache window and the ARC cache membership, which Corr/C40.v recomputes on the model.
package c40

import (
	"bytes"
	"crypto/sha256"
	"encoding/json"
	"fmt"
	"go/ast"
	"go/parser"
	"go/token"
	"os"
	"path/filepath"
	"sort"
	"strconv"
	"strings"

	"github.com/ontio/ontology-crypto/keypair"
	"github.com/ontio/ontology/account"
	"github.com/ontio/ontology/common"
	"github.com/ontio/ontology/common/config"
	"github.com/ontio/ontology/core/genesis"
	"github.com/ontio/ontology/core/signature"
	"github.com/ontio/ontology/core/store/ledgerstore"
	"github.com/ontio/ontology/core/types"

	"verif/harness/hx"
	"verif/harness/ledgerkit"
)

func init() { hx.Register("C40", Run) }

// ---------- script ----------

// Step is one operation of a history; the script (with the per-block transaction counts) is the
// replayable input.
type Step struct {
	Op  string `json:"op"`            // commit | submit | stale | future | header | rival | badheader | forkheader | reopen | check
	Idx int    `json:"idx,omitempty"` // block index for stale/future/badheader; distance below the tip for forkheader
	All bool   `json:"all,omitempty"` // check: query every height (else a sample)
}

type History struct {
	Kind  string `json:"kind"`
	NTx   []int  `json:"ntx"`             // transactions of source block i+1
	Steps []Step `json:"steps"`           // applied to the second ledger
	Keys  int    `json:"keys,omitempty"`  // number of bookkeepers (0 = solo chain: one key, one signature)
	Marks []int  `json:"marks,omitempty"` // transaction positions probed by hash in big blocks
}

// ---------- ids and digests ----------

// Hashes and digests are written as small identifiers: order of first appearance within the run,
// the zero hash is 0 (the model only compares them and tests for the zero hash).
var ids = map[common.Uint256]uint64{}

func id64(h common.Uint256) uint64 {
	if h == common.UINT256_EMPTY {
		return 0
	}
	v, ok := ids[h]
	if !ok {
		v = uint64(len(ids) + 1)
		ids[h] = v
	}
	return v
}

func digest(b []byte) uint64 {
	return id64(common.Uint256(sha256.Sum256(b)))
}

func headerBytes(h *types.Header) []byte {
	sink := common.NewZeroCopySink(nil)
	h.Serialization(sink)
	return sink.Bytes()
}

func txBytes(t *types.Transaction) []byte {
	sink := common.NewZeroCopySink(nil)
	t.Serialization(sink)
	return sink.Bytes()
}

func coqHeader(h *types.Header) string {
	if len(h.Bookkeepers) == 1 && len(h.SigData) == 1 {
		return fmt.Sprintf("(H %d %d %d)", id64(h.Hash()), h.Height, digest(headerBytes(h)))
	}
	return fmt.Sprintf("(HS %d %d %d %d %d)", id64(h.Hash()), h.Height, digest(headerBytes(h)), len(h.Bookkeepers), len(h.SigData))
}

func coqTxPair(t *types.Transaction) string {
	return fmt.Sprintf("(%d,%d)", id64(t.Hash()), digest(txBytes(t)))
}

// bigBlock: blocks with more transactions than this are written with a generated transaction list
// (their hashes and digests were registered as consecutive ids when the block was built).
const bigBlock = 16

func coqBlock(b *types.Block) string {
	n := len(b.Transactions)
	if n > bigBlock {
		hb, db := id64(b.Transactions[0].Hash()), digest(txBytes(b.Transactions[0]))
		ok := true
		for i, t := range b.Transactions {
			if id64(t.Hash()) != hb+uint64(i) || digest(txBytes(t)) != db+uint64(i) {
				ok = false
				break
			}
		}
		if ok {
			return fmt.Sprintf("(BGH %s %d %d %d)", coqHeader(b.Header), hb, db, n)
		}
	}
	var txs []string
	for _, t := range b.Transactions {
		txs = append(txs, coqTxPair(t))
	}
	return fmt.Sprintf("(BH %s %s)", coqHeader(b.Header), hx.CoqList(txs))
}

// registerBig gives the transactions of a big block consecutive ids (hashes, then digests).
func registerBig(b *types.Block) {
	if len(b.Transactions) <= bigBlock {
		return
	}
	for _, t := range b.Transactions {
		id64(t.Hash())
	}
	for _, t := range b.Transactions {
		digest(txBytes(t))
	}
}

// coqRanges writes a set of ids as inclusive ranges.
func coqRanges(v []uint64) string {
	sort.Slice(v, func(i, j int) bool { return v[i] < v[j] })
	var out []string
	for i := 0; i < len(v); {
		j := i
		for j+1 < len(v) && v[j+1] <= v[j]+1 {
			j++
		}
		out = append(out, fmt.Sprintf("(%d,%d)", v[i], v[j]))
		i = j + 1
	}
	return hx.CoqList(out)
}

func coqOptHash(h common.Uint256, ok bool) string {
	return hx.CoqOpt(ok, fmt.Sprint(id64(h)))
}

// ---------- the run of one history ----------

type runner struct {
	c      *hx.Ctx
	hist   History
	src    []*types.Block // src[i] = block of height i (src[0] = genesis)
	k      *ledgerkit.Kit
	cur    int // committed height on the second ledger (oracle's own record)
	hdr    int // highest header given to AddHeader since the last open (0 = none)
	failed bool
	segOps []string
	run    []string // pending consecutive empty commits
	segs   []string
	c0     string
	nq     int
	accts  []*account.Account // multi-bookkeeper chains: the bookkeepers, in sorted key order
	recBig map[int]bool       // bigtx histories: the big blocks whose by-height/by-hash answers go into the Coq case
	marks  []int              // transaction positions probed in big blocks (boundaries read from the source)
}

func (r *runner) store() *ledgerstore.LedgerStoreImp { return r.k.Store() }

func (r *runner) fail(class, clause string, got, want interface{}) {
	r.c.Fail(class, clause, r.hist, got, want)
}

// sampleHeights: heights to query at a checkpoint.
func (r *runner) heights(all bool) []uint32 {
	top := r.cur
	if r.hdr > top {
		top = r.hdr
	}
	set := map[uint32]bool{}
	add := func(h int) {
		if h >= 0 {
			set[uint32(h)] = true
		}
	}
	if r.cur <= 40 {
		lo := 0
		if !all && r.hist.Kind == "rival" && r.cur > 3 {
			lo = r.cur - 3 // checkpoints between the commits of a rival history: the tip only
		}
		for h := lo; h <= r.cur; h++ {
			add(h)
		}
	} else {
		// long chains: the correspondence records a sample (around 0, around the cache's first
		// index, the tip, random heights); the oracle still visits every height when all is set
		first, _, _ := r.store().VerifHeaderIndexWindow()
		w, n := 3, 24
		if all {
			w, n = 8, 60
		}
		for d := -w; d <= w; d++ {
			add(d + w)
			add(int(first) + d)
			add(r.cur + d - w)
		}
		for i := 0; i < n; i++ {
			add(r.c.Intn(r.cur + 1))
		}
	}
	// heights above the committed chain: next, headers ahead, far
	add(r.cur + 1)
	add(r.cur + 2)
	if r.hdr > r.cur {
		add(r.hdr)
		add(r.hdr + 1)
		add(r.cur + 1 + r.c.Intn(r.hdr-r.cur))
	}
	add(top + 1000)
	var out []uint32
	for h := range set {
		if int(h) < len(r.src) && len(r.src[h].Transactions) > bigBlock && !r.recBig[int(h)] {
			continue // big blocks outside the recorded set: oracle only
		}
		out = append(out, h)
	}
	sort.Slice(out, func(i, j int) bool { return out[i] < out[j] })
	return out
}

// checkpoint observes the second ledger: oracle on every committed height in the list, and the
// correspondence record.
func (r *runner) checkpoint(all bool) string {
	st := r.store()
	bs := st.VerifBlockStore()
	var qs []string
	var cb []string
	var ct []uint64
	seenK := map[common.Uint256]bool{}
	curH, curHash := st.VerifCurrent()
	if int(curH) != r.cur {
		r.fail("current-height", "in-memory current height differs from the number of accepted blocks", curH, r.cur)
	}
	if r.cur < len(r.src) {
		wantCur := r.src[r.cur].Hash()
		if curHash != wantCur || st.GetCurrentBlockHash() != wantCur {
			r.fail("current-hash", "the current block hash is not the hash of the last committed block", curHash.ToHexString(), wantCur.ToHexString())
		}
	}
	hs := r.heights(all)
	visited := map[uint32]bool{}
	for _, h := range hs {
		r.c.Eval()
		r.nq++
		got := st.GetBlockHash(h)
		ch, cok := st.VerifHeaderIndexCached(h)
		dh, derr := bs.GetBlockHash(h)
		blk, err := st.GetBlockByHeight(h)
		blkTerm := "None"
		if err == nil && blk == nil {
			blkTerm = "(Some None)"
		} else if err == nil {
			blkTerm = "(Some (Some " + coqBlock(blk) + "))"
		}
		qs = append(qs, fmt.Sprintf("QH %d %d %s %s %s", h, id64(got), coqOptHash(ch, cok), coqOptHash(dh, derr == nil), blkTerm))
		hhTerm := "None"
		if hh, e := st.GetHeaderByHeight(h); e == nil && hh != nil {
			hhTerm = "(Some " + coqHeader(hh) + ")"
		}
		qs = append(qs, fmt.Sprintf("QHH %d %s", h, hhTerm))
		if int(h) <= r.cur {
			r.oracle(h, got, blk, err)
			visited[h] = true
		}
	}
	if all {
		for h := 0; h <= r.cur; h++ {
			if !visited[uint32(h)] {
				r.c.Eval()
				blk, err := st.GetBlockByHeight(uint32(h))
				r.oracle(uint32(h), st.GetBlockHash(uint32(h)), blk, err)
			}
		}
	}
	// correspondence: by-hash queries for the source blocks at the queried heights (committed or
	// only known as headers or not at all) and for their transactions
	for _, h := range hs {
		if int(h) >= len(r.src) {
			continue
		}
		b := r.src[h]
		k := b.Hash()
		if seenK[k] {
			continue
		}
		seenK[k] = true
		if st.VerifBlockCached(k) {
			cb = append(cb, fmt.Sprint(id64(k)))
		}
		blkTerm, hdrTerm := "None", "None"
		if bh, err := st.GetBlockByHash(k); err == nil && bh != nil {
			blkTerm = "(Some " + coqBlock(bh) + ")"
		}
		if hd, err := st.GetHeaderByHash(k); err == nil && hd != nil {
			hdrTerm = "(Some " + coqHeader(hd) + ")"
		}
		qs = append(qs, fmt.Sprintf("QK %d %s %s %s", id64(k), blkTerm, hdrTerm, hx.CoqBool(st.VerifHeaderCached(k))))
		rawTerm := "None"
		if rh, err := st.GetRawHeaderByHash(k); err == nil && rh != nil {
			rawTerm = fmt.Sprintf("(Some (%d, %d))", rh.Height, digest(rh.Payload))
		}
		qs = append(qs, fmt.Sprintf("QR %d %s", id64(k), rawTerm))
		probe := map[int]bool{}
		if n := len(b.Transactions); n > bigBlock {
			for _, m := range append([]int{0, n - 1}, r.marks...) {
				if m >= 0 && m < n {
					probe[m] = true
				}
			}
		}
		for i, t := range b.Transactions {
			th := t.Hash()
			if st.VerifTxCached(th) {
				ct = append(ct, id64(th))
			}
			if len(b.Transactions) > bigBlock && !probe[i] {
				continue
			}
			term := "None"
			if gt, gh, err := st.GetTransaction(th); err == nil && gt != nil {
				term = fmt.Sprintf("(Some (T %d %d, %d))", id64(gt.Hash()), digest(txBytes(gt)), gh)
			}
			qs = append(qs, fmt.Sprintf("QT %d %s", id64(th), term))
		}
	}
	// an unknown hash
	var unk common.Uint256
	copy(unk[:], r.c.Bytes(32))
	{
		blkTerm, hdrTerm := "None", "None"
		if bh, err := st.GetBlockByHash(unk); err == nil && bh != nil {
			blkTerm = "(Some " + coqBlock(bh) + ")"
		}
		if hd, err := st.GetHeaderByHash(unk); err == nil && hd != nil {
			hdrTerm = "(Some " + coqHeader(hd) + ")"
		}
		qs = append(qs, fmt.Sprintf("QK %d %s %s false", id64(unk), blkTerm, hdrTerm))
		term := "None"
		if gt, gh, err := st.GetTransaction(unk); err == nil && gt != nil {
			term = fmt.Sprintf("(Some (T %d %d, %d))", id64(gt.Hash()), digest(txBytes(gt)), gh)
		}
		qs = append(qs, fmt.Sprintf("QT %d %s", id64(unk), term))
	}
	first, last, size := st.VerifHeaderIndexWindow()
	dcurHash, dcurH, derr := bs.GetCurrentBlock()
	dcur := "None"
	if derr == nil {
		dcur = fmt.Sprintf("(Some (%d, %d))", id64(dcurHash), dcurH)
	}
	r.c.Count(fmt.Sprintf("window:first>0=%v", first > 0))
	return fmt.Sprintf("(CK (%d, %d) %s (%d, %d, %d) %s %s %s)", curH, id64(curHash), dcur, first, last, size,
		hx.CoqList(cb), coqRanges(ct), "[\n   "+strings.Join(qs, ";\n   ")+"]")
}

// oracle: the five queries at a committed height against the block that was committed there.
func (r *runner) oracle(h uint32, got common.Uint256, blk *types.Block, err error) {
	st := r.store()
	want := r.src[h]
	wantBytes := want.ToArray()
	wh := want.Hash()
	if got != wh {
		r.fail("query:hash-by-height", "GetBlockHash(height) is not the hash of the block committed at that height",
			map[string]interface{}{"height": h, "hash": got.ToHexString()}, wh.ToHexString())
	}
	if err != nil || blk == nil {
		r.fail("query:block-by-height", "GetBlockByHeight(height) does not return the committed block",
			map[string]interface{}{"height": h, "err": fmt.Sprint(err), "nil": blk == nil}, "the committed block")
	} else if !bytes.Equal(blk.ToArray(), wantBytes) {
		r.fail("query:block-by-height", "GetBlockByHeight(height) returns a different block",
			map[string]interface{}{"height": h, "block": describe(blk)}, describe(want))
	}
	bh, err := st.GetBlockByHash(wh)
	if err != nil || bh == nil {
		r.fail("query:block-by-hash", "GetBlockByHash(hash) does not return the committed block",
			map[string]interface{}{"height": h, "err": fmt.Sprint(err)}, "the committed block")
	} else if !bytes.Equal(bh.ToArray(), wantBytes) {
		r.fail("query:block-by-hash", "GetBlockByHash(hash) returns a different block",
			map[string]interface{}{"height": h, "block": describe(bh)}, describe(want))
	}
	hd, err := st.GetHeaderByHash(wh)
	if err != nil || hd == nil {
		r.fail("query:header-by-hash", "GetHeaderByHash(hash) does not return the committed header",
			map[string]interface{}{"height": h, "err": fmt.Sprint(err)}, "the committed header")
	} else if !bytes.Equal(headerBytes(hd), headerBytes(want.Header)) {
		r.fail("query:header-by-hash", "GetHeaderByHash(hash) returns a different header",
			map[string]interface{}{"height": h, "header": hx.Hex(headerBytes(hd))}, hx.Hex(headerBytes(want.Header)))
	}
	rh, err := st.GetRawHeaderByHash(wh)
	if err != nil || rh == nil {
		r.fail("query:raw-header-by-hash", "GetRawHeaderByHash(hash) does not return the committed header",
			map[string]interface{}{"height": h, "err": fmt.Sprint(err), "bookkeepers": len(want.Header.Bookkeepers), "signatures": len(want.Header.SigData), "transactions": len(want.Transactions)}, "the committed header")
	} else if !bytes.Equal(rh.Payload, headerBytes(want.Header)) || rh.Height != h {
		r.fail("query:raw-header-by-hash", "GetRawHeaderByHash(hash) returns other bytes than the committed header",
			map[string]interface{}{"height": h, "payload_len": len(rh.Payload), "bookkeepers": len(want.Header.Bookkeepers), "signatures": len(want.Header.SigData)}, map[string]interface{}{"payload_len": len(headerBytes(want.Header))})
	}
	if bh != nil && hd != nil && !bytes.Equal(headerBytes(bh.Header), headerBytes(hd)) {
		r.fail("query:header-vs-block", "GetHeaderByHash(hash) and the header of GetBlockByHash(hash) differ", map[string]interface{}{"height": h}, "equal")
	}
	hh, err := st.GetHeaderByHeight(h)
	if err != nil || hh == nil {
		r.fail("query:header-by-height", "GetHeaderByHeight(height) does not return the committed header",
			map[string]interface{}{"height": h, "err": fmt.Sprint(err)}, "the committed header")
	} else if !bytes.Equal(headerBytes(hh), headerBytes(want.Header)) {
		hhh := hh.Hash()
		r.fail("query:header-by-height", "GetHeaderByHeight(height) returns a different header",
			map[string]interface{}{"height": h, "hash": hhh.ToHexString()}, wh.ToHexString())
	}
	for i, t := range want.Transactions {
		th := t.Hash()
		gt, gh, err := st.GetTransaction(th)
		if err != nil || gt == nil {
			r.fail("query:tx-by-hash", "GetTransaction(hash) does not return the committed transaction",
				map[string]interface{}{"height": h, "index": i, "err": fmt.Sprint(err)}, "the committed transaction")
		} else if !bytes.Equal(txBytes(gt), txBytes(t)) || gh != h {
			r.fail("query:tx-by-hash", "GetTransaction(hash) returns a different transaction or height",
				map[string]interface{}{"height": gh, "tx": hx.Hex(txBytes(gt))}, map[string]interface{}{"height": h, "tx": hx.Hex(txBytes(t))})
		}
	}
}

// describe: what a failure record says about a block (full bytes only when small).
func describe(b *types.Block) map[string]interface{} {
	d := map[string]interface{}{"hash": b.Hash().ToHexString(), "height": b.Header.Height, "transactions": len(b.Transactions)}
	if n := len(b.Transactions); n > 0 {
		lh := b.Transactions[n-1].Hash()
		d["last_tx"] = lh.ToHexString()
	}
	if raw := b.ToArray(); len(raw) <= 4096 {
		d["bytes"] = hx.Hex(raw)
	}
	return d
}

func statusOf(err error, changed bool) string {
	if err != nil {
		return "Rejected"
	}
	if changed {
		return "Added"
	}
	return "Ignored"
}

// newMultiKit: a ledger whose genesis names several bookkeepers (non-VBFT rule: a header needs
// m = n-(n-1)/3 signatures of the n bookkeepers). accts must be in sorted key order.
func newMultiKit(dir string, accts []*account.Account) (*ledgerkit.Kit, error) {
	if err := os.RemoveAll(dir); err != nil {
		return nil, err
	}
	ledgerkit.ConfigureSolo(accts[0])
	var bks []keypair.PublicKey
	for _, a := range accts {
		bks = append(bks, a.PublicKey)
	}
	gb, err := genesis.BuildGenesisBlock(bks, config.DefConfig.Genesis)
	if err != nil {
		return nil, err
	}
	k := &ledgerkit.Kit{Dir: dir, Acct: accts[0], Bookkeepers: bks, Genesis: gb}
	return k, k.Open()
}

func sortedAccounts(n int) []*account.Account {
	var accts []*account.Account
	for i := 0; i < n; i++ {
		accts = append(accts, account.NewAccount(""))
	}
	sort.Slice(accts, func(i, j int) bool {
		return bytes.Compare(keypair.SerializePublicKey(accts[i].PublicKey), keypair.SerializePublicKey(accts[j].PublicKey)) < 0
	})
	var pks []keypair.PublicKey
	for _, a := range accts {
		pks = append(pks, a.PublicKey)
	}
	sorted := keypair.SortPublicKeys(pks)
	out := make([]*account.Account, 0, n)
	for _, pk := range sorted {
		for _, a := range accts {
			if bytes.Equal(keypair.SerializePublicKey(a.PublicKey), keypair.SerializePublicKey(pk)) {
				out = append(out, a)
			}
		}
	}
	return out
}

// multiSign replaces the single signature ledgerkit put on the block: all n bookkeepers are listed,
// m = n-(n-1)/3 of them sign (a window of the key list that moves with the height); every third
// height is over-signed by all n.
func multiSign(b *types.Block, accts []*account.Account) {
	n := len(accts)
	m := n - (n-1)/3
	off := int(b.Header.Height) % (n - m + 1)
	cnt := m
	if b.Header.Height%3 == 0 {
		off, cnt = 0, n
	}
	h := b.Hash()
	b.Header.Bookkeepers = nil
	b.Header.SigData = nil
	for _, a := range accts {
		b.Header.Bookkeepers = append(b.Header.Bookkeepers, a.PublicKey)
	}
	for _, a := range accts[off : off+cnt] {
		sig, err := signature.Sign(a, h[:])
		if err != nil {
			panic(err)
		}
		b.Header.SigData = append(b.Header.SigData, sig)
	}
}

// sign signs a block built by the runner the way the chain requires.
func (r *runner) sign(b *types.Block) {
	r.k.SignBlock(b)
	if len(r.accts) > 0 {
		multiSign(b, r.accts)
	}
}

// competitor builds a correctly signed header for the height of source block idx that differs from
// it (consensus data), on top of prev.
func (r *runner) competitor(idx int, prev common.Uint256) *types.Header {
	o := r.src[idx].Header
	fork := &types.Block{Header: &types.Header{Version: o.Version, PrevBlockHash: prev, TransactionsRoot: o.TransactionsRoot,
		BlockRoot: o.BlockRoot, Timestamp: o.Timestamp, Height: o.Height, ConsensusData: o.ConsensusData + 77 + uint64(r.nq),
		ConsensusPayload: o.ConsensusPayload, NextBookkeeper: o.NextBookkeeper}, Transactions: r.src[idx].Transactions}
	r.sign(fork)
	return fork.Header
}

// addOp appends an operation to the current segment (flushing a pending run of empty commits).
func (r *runner) addOp(term string) {
	r.flushRun()
	r.segOps = append(r.segOps, term)
}

func (r *runner) flushRun() {
	if len(r.run) > 0 {
		r.segOps = append(r.segOps, "XRun "+hx.CoqList(r.run))
		r.run = nil
	}
}

func (r *runner) endSegment(all bool) {
	r.flushRun()
	ck := r.checkpoint(all)
	r.segs = append(r.segs, fmt.Sprintf("(%s,\n  %s)", hx.CoqList(r.segOps), ck))
	r.segOps = nil
}

func (r *runner) step(s Step) {
	st := r.store()
	switch s.Op {
	case "commit", "submit":
		if r.cur+1 >= len(r.src) {
			return
		}
		b := r.src[r.cur+1]
		before := st.GetCurrentBlockHeight()
		var err error
		if s.Op == "submit" { // the consensus path: ExecuteBlock + SubmitBlock
			res, e := st.ExecuteBlock(b)
			if err = e; e == nil {
				err = st.SubmitBlock(b, nil, res)
			}
		} else {
			err = r.k.AddMadeBlock(b)
		}
		after := st.GetCurrentBlockHeight()
		status := statusOf(err, after != before)
		if status != "Added" {
			r.fail("commit-refused", "the next block of a valid chain was not accepted", fmt.Sprint(err), "accepted")
			r.failed = true
		} else {
			r.cur++
		}
		if status == "Added" && len(b.Transactions) == 0 && int(b.Header.Height) == r.cur && len(b.Header.Bookkeepers) == 1 && len(b.Header.SigData) == 1 {
			r.run = append(r.run, fmt.Sprintf("(%d,%d)", id64(b.Hash()), digest(headerBytes(b.Header))))
		} else {
			r.addOp(fmt.Sprintf("XCommit %s %s", coqBlock(b), status))
		}
		r.c.Count(fmt.Sprintf("op:%s ntx=%d", s.Op, len(b.Transactions)))
	case "stale", "future":
		if s.Idx < 0 || s.Idx >= len(r.src) {
			return
		}
		b := r.src[s.Idx]
		before := st.GetCurrentBlockHeight()
		err := r.k.Ledger.AddBlock(b, nil, common.UINT256_EMPTY)
		after := st.GetCurrentBlockHeight()
		status := statusOf(err, after != before)
		if status == "Added" {
			r.fail("commit-out-of-order", "a block that is not the next one changed the current height", s, "ignored or rejected")
			r.failed = true
		}
		r.addOp(fmt.Sprintf("XCommit %s %s", coqBlock(b), status))
		r.c.Count("op:" + s.Op + " " + status)
	case "header", "badheader", "rival":
		// header: the next header of the source chain (or, when the ledger's header chain has already
		// left the source chain, a competitor built on what is indexed); rival: a correctly signed
		// competitor of the next source header (same height and transactions root, different
		// consensus data) built on the header indexed below it; badheader: a header at another height
		next := int(st.GetCurrentHeaderHeight()) + 1
		idx := s.Idx
		if s.Op != "badheader" {
			idx = next
		} else if idx == next {
			return
		}
		if idx < 1 || idx >= len(r.src) {
			return
		}
		h := r.src[idx].Header
		kind := s.Op
		if s.Op != "badheader" {
			prev := st.GetBlockHash(uint32(idx - 1))
			if s.Op == "rival" || prev != h.PrevBlockHash {
				h = r.competitor(idx, prev)
				kind = "rival"
			}
		}
		err := st.AddHeader(h)
		status := statusOf(err, true)
		if err == nil && idx > r.hdr {
			r.hdr = idx
		}
		if err != nil && s.Op != "badheader" {
			r.fail("header-refused", "a correctly signed next header was not accepted", fmt.Sprint(err), "accepted")
		}
		r.addOp(fmt.Sprintf("XHeader %s %s", coqHeader(h), status))
		r.c.Count("op:" + kind + " " + status)
	case "forkheader":
		// a correctly signed header that differs from the committed block at a committed height
		// (Idx below the tip): AddHeader must refuse it, the committed chain stays what it is
		idx := r.cur - s.Idx
		if idx < 1 || idx >= len(r.src) {
			return
		}
		fork := &types.Block{Header: r.competitor(idx, r.src[idx].Header.PrevBlockHash)}
		err := st.AddHeader(fork.Header)
		status := statusOf(err, true)
		if err == nil {
			r.fail("header-over-committed", "AddHeader accepted a header at a height that already holds a committed block",
				map[string]interface{}{"height": idx, "current": r.cur}, "rejected")
		}
		r.addOp(fmt.Sprintf("XHeader %s %s", coqHeader(fork.Header), status))
		r.c.Count("op:forkheader " + status)
	case "reopen":
		r.k.Close()
		if err := r.k.Open(); err != nil {
			r.fail("reopen-failed", "the ledger does not open again after Close", err.Error(), "opens")
			r.failed = true
			return
		}
		r.hdr = 0
		r.addOp("XReopen")
		r.c.Count("op:reopen")
	case "check":
		r.endSegment(s.All)
	}
}

// runHistory builds the source chain, replays the script on a second ledger and emits one case.
func runHistory(c *hx.Ctx, hist History, tag string) {
	dirA := filepath.Join(c.OutDir, "chain-src")
	dirB := filepath.Join(c.OutDir, "chain-dst")
	var src []*types.Block
	var acct *account.Account
	var accts []*account.Account
	// ---- source chain ----
	panicked, msg := hx.Recover(func() {
		var ka *ledgerkit.Kit
		var err error
		if hist.Keys > 1 {
			accts = sortedAccounts(hist.Keys)
			ka, err = newMultiKit(dirA, accts)
		} else {
			ka, err = ledgerkit.New(dirA)
		}
		ledgerkit.Must(err)
		defer ka.Close()
		acct = ka.Acct
		to := account.NewAccount("")
		src = append(src, ka.Genesis)
		for _, n := range hist.NTx {
			var txs []*types.Transaction
			for j := 0; j < n; j++ {
				var tx *types.Transaction
				if len(accts) > 0 {
					// the genesis ONT belongs to the multi-signature address: use tiny unsigned invocations
					m := ka.InvokeTx([]byte{0x51}, 0, 20000)
					m.Payer = ka.Acct.Address
					tx, err = m.IntoImmutable()
				} else {
					tx, err = ka.TransferTx(ledgerkit.OntAddr, ka.Acct, to.Address, 1, 0, 20000)
				}
				ledgerkit.Must(err)
				txs = append(txs, tx)
			}
			b, err := ka.MakeBlock(txs)
			ledgerkit.Must(err)
			if len(accts) > 0 {
				multiSign(b, accts)
			}
			ledgerkit.Must(ka.AddMadeBlock(b))
			registerBig(b)
			src = append(src, b)
		}
	})
	if panicked {
		c.Fail("source-chain", "building a valid chain on a fresh ledger failed", hist, msg, nil)
		return
	}
	// ---- replay on the second ledger ----
	r := &runner{c: c, hist: hist, src: src, accts: accts, recBig: map[int]bool{}, marks: hist.Marks}
	// record (in the Coq case) the last four big blocks; the oracle visits all of them
	for h, k := len(src)-1, 0; h >= 1 && k < 4; h-- {
		if len(src[h].Transactions) > bigBlock {
			r.recBig[h] = true
			k++
		}
	}
	panicked, msg = hx.Recover(func() {
		var kb *ledgerkit.Kit
		var err error
		if len(accts) > 0 {
			kb, err = newMultiKit(dirB, accts)
		} else {
			kb, err = ledgerkit.NewWithAccount(dirB, acct)
		}
		ledgerkit.Must(err)
		r.k = kb
		defer func() { r.k.Close() }()
		if kb.Genesis.Hash() != src[0].Hash() {
			panic("second ledger has a different genesis block")
		}
		r.c0 = r.checkpoint(true)
		for _, s := range hist.Steps {
			if r.failed {
				break
			}
			r.step(s)
		}
		if !r.failed && (len(r.segOps) > 0 || len(r.run) > 0) {
			r.endSegment(false)
		}
	})
	if panicked {
		c.Fail("panic", "the ledger panicked while replaying the history", hist, msg, nil)
		return
	}
	c.Count("history:" + hist.Kind)
	c.Count(fmt.Sprintf("history:blocks<=%d", bucket(r.cur)))
	if r.cur >= 2 {
		c.Nontrivial(tag)
	}
	c.Sample(map[string]interface{}{"kind": hist.Kind, "blocks": r.cur, "ntx": head(hist.NTx, 12), "steps": len(hist.Steps), "queries": r.nq})
	term := fmt.Sprintf("CHist %s\n %s\n %s", coqBlock(src[0]), r.c0, "[\n "+strings.Join(r.segs, ";\n ")+"]")
	c.Case(term, hist)
}

func head(l []int, n int) []int {
	if len(l) > n {
		return l[:n]
	}
	return l
}

func bucket(n int) int {
	for _, b := range []int{2, 5, 10, 20, 100, 2000, 2100, 4100} {
		if n <= b {
			return b
		}
	}
	return 1 << 20
}

// ---------- generators ----------

// genSmall: n blocks with 0..maxTx transactions each; random script.
func genSmall(c *hx.Ctx, n, maxTx int) History {
	h := History{Kind: "small"}
	for i := 0; i < n; i++ {
		k := 0
		if c.Intn(4) != 0 {
			k = c.Intn(maxTx + 1)
		}
		h.NTx = append(h.NTx, k)
	}
	committed := 0
	lookahead := c.Intn(4) // how far headers may run ahead (0 = no header-first sync)
	hdr := 0
	for committed < n {
		switch x := c.Intn(20); {
		case x < 9:
			h.Steps = append(h.Steps, Step{Op: "commit"})
			committed++
		case x < 12:
			top := committed
			if hdr > top {
				top = hdr
			}
			if lookahead > 0 && top < n && top-committed < lookahead {
				h.Steps = append(h.Steps, Step{Op: "header"})
				hdr = top + 1
			}
		case x == 12:
			if lookahead > 0 && c.Intn(2) == 0 {
				h.Steps = append(h.Steps, Step{Op: "rival"})
			} else {
				h.Steps = append(h.Steps, Step{Op: "badheader", Idx: c.Intn(n + 1)})
			}
		case x == 13:
			if c.Intn(2) == 0 {
				h.Steps = append(h.Steps, Step{Op: "stale", Idx: c.Intn(committed + 1)})
			} else {
				h.Steps = append(h.Steps, Step{Op: "forkheader", Idx: c.Intn(2)})
			}
		case x == 14:
			if committed+2 <= n {
				h.Steps = append(h.Steps, Step{Op: "future", Idx: committed + 2 + c.Intn(n-committed-1)})
			}
		case x < 17:
			h.Steps = append(h.Steps, Step{Op: "check", All: true}, Step{Op: "reopen"}, Step{Op: "check", All: true})
			hdr = 0
		default:
			h.Steps = append(h.Steps, Step{Op: "check", All: true})
		}
	}
	h.Steps = append(h.Steps, Step{Op: "check", All: true}, Step{Op: "reopen"}, Step{Op: "forkheader"}, Step{Op: "check", All: true})
	return h
}

// genMulti: a chain whose headers list nkeys bookkeepers and carry m = n-(n-1)/3 signatures (all n
// on every third height), blocks of 0..8 transactions, long enough that the first blocks leave the
// block cache; random script as for the small histories.
func genMulti(c *hx.Ctx, nkeys int) History {
	h := genSmall(c, int(ledgerstore.BLOCK_CAHE_SIZE)+3+c.Intn(4), 8)
	h.Kind = "multi"
	h.Keys = nkeys
	for i := range h.NTx {
		if i%2 == 0 && h.NTx[i] < 3 {
			h.NTx[i] = 3 + c.Intn(6)
		}
	}
	return h
}

// genRival: header-first sync where the headers received ahead are not the blocks that get committed:
// at several heights a competitor header (and/or the matching header, and competitors further ahead)
// is given to AddHeader before a different block is committed at that height, through AddBlock or
// ExecuteBlock+SubmitBlock. Everything is queried right after each such commit, after more than
// BLOCK_CAHE_SIZE further blocks, and after Close/Open.
func genRival(c *hx.Ctx, n int) History {
	h := History{Kind: "rival"}
	for i := 0; i < n; i++ {
		h.NTx = append(h.NTx, c.Intn(4))
	}
	commit := func() {
		if c.Intn(3) == 0 {
			h.Steps = append(h.Steps, Step{Op: "submit"})
		} else {
			h.Steps = append(h.Steps, Step{Op: "commit"})
		}
	}
	tail := int(ledgerstore.BLOCK_CAHE_SIZE) + 2
	committed := 0
	for committed < n-tail {
		ahead := 1 + c.Intn(3)
		if ahead > n-tail-committed {
			ahead = n - tail - committed
		}
		switch c.Intn(4) {
		case 0: // competitors all the way
			for i := 0; i < ahead; i++ {
				h.Steps = append(h.Steps, Step{Op: "rival"})
			}
		case 1: // the matching header first, competitors above it
			h.Steps = append(h.Steps, Step{Op: "header"})
			for i := 1; i < ahead; i++ {
				h.Steps = append(h.Steps, Step{Op: "rival"})
			}
		case 2: // a competitor, then whatever builds on it
			h.Steps = append(h.Steps, Step{Op: "rival"})
			for i := 1; i < ahead; i++ {
				h.Steps = append(h.Steps, Step{Op: "header"})
			}
		default: // plain header-first
			for i := 0; i < ahead; i++ {
				h.Steps = append(h.Steps, Step{Op: "header"})
			}
		}
		h.Steps = append(h.Steps, Step{Op: "check"})
		for i := 0; i < ahead; i++ {
			commit()
			committed++
			h.Steps = append(h.Steps, Step{Op: "check"})
		}
	}
	for committed < n {
		commit()
		committed++
	}
	h.Steps = append(h.Steps, Step{Op: "check", All: true}, Step{Op: "reopen"}, Step{Op: "rival"}, Step{Op: "check", All: true},
		Step{Op: "reopen"}, Step{Op: "check", All: true})
	return h
}

// genLong: a chain that crosses the header index cache window. headerFirst: all headers are given to
// AddHeader before the blocks (the cache then holds more than the window until blocks catch up).
func genLong(c *hx.Ctx, n int, headerFirst bool) History {
	h := History{Kind: "long"}
	if headerFirst {
		h.Kind = "long-header-first"
	}
	for i := 0; i < n; i++ {
		k := 0
		if i < 6 || i >= n-6 || c.Intn(200) == 0 {
			k = c.Intn(4)
		}
		h.NTx = append(h.NTx, k)
	}
	win := int(ledgerstore.HEADER_INDEX_MAX_SIZE)
	commits := func(k int) {
		for i := 0; i < k; i++ {
			h.Steps = append(h.Steps, Step{Op: "commit"})
		}
	}
	if headerFirst {
		for i := 0; i < n; i++ {
			h.Steps = append(h.Steps, Step{Op: "header"})
		}
		h.Steps = append(h.Steps, Step{Op: "check"})
	}
	a := win - 3
	if a > n {
		a = n
	}
	commits(a)
	h.Steps = append(h.Steps, Step{Op: "check"})
	rest := n - a
	b := rest - 8
	if b < 0 {
		b = 0
	}
	commits(b) // crosses the window
	h.Steps = append(h.Steps, Step{Op: "check", All: true}, Step{Op: "reopen"}, Step{Op: "check", All: true})
	commits(rest - b)
	h.Steps = append(h.Steps, Step{Op: "stale", Idx: 1}, Step{Op: "check"}, Step{Op: "reopen"}, Step{Op: "forkheader"}, Step{Op: "check"})
	return h
}

// sourceLiterals: integer literals between 32 and 4200 in the block/ledger store sources (cache
// sizes, window sizes, allocation limits...). A limit introduced by a change shows up here and gets
// blocks with one transaction fewer, exactly as many, and one more.
func sourceLiterals(repo string) []int {
	seen := map[int]bool{}
	for _, f := range []string{"block_store.go", "ledger_store.go", "block_cache.go", "header_Index_cache.go"} {
		fset := token.NewFileSet()
		af, err := parser.ParseFile(fset, filepath.Join(repo, "core/store/ledgerstore", f), nil, 0)
		if err != nil {
			continue
		}
		ast.Inspect(af, func(n ast.Node) bool {
			if b, ok := n.(*ast.BasicLit); ok && b.Kind == token.INT {
				if v, err := strconv.ParseInt(b.Value, 0, 64); err == nil && v >= 32 && v <= 4200 {
					seen[int(v)] = true
				}
			}
			return true
		})
	}
	var out []int
	for v := range seen {
		out = append(out, v)
	}
	sort.Ints(out)
	return out
}

// genBigTx: blocks with very many transactions (around every size literal of the store sources, and
// 1023/1024/1025/2100), read back while they are in the block cache, after more than BLOCK_CAHE_SIZE
// further blocks pushed them out of it, and after a restart.
func genBigTx(c *hx.Ctx) History {
	h := History{Kind: "bigtx"}
	lits := sourceLiterals(c.Repo)
	sizes := map[int]bool{}
	var order []int
	add := func(n int) {
		if n > bigBlock && !sizes[n] {
			sizes[n] = true
			order = append(order, n)
		}
	}
	for _, v := range lits {
		add(v - 1)
		add(v)
		add(v + 1)
		h.Marks = append(h.Marks, v-1, v)
	}
	for _, n := range []int{1023, 1024, 1025, 2100} {
		if sizes[n] { // keep these four last (they are the ones recorded in the Coq case)
			for i, x := range order {
				if x == n {
					order = append(order[:i], order[i+1:]...)
					break
				}
			}
			sizes[n] = false
		}
		add(n)
	}
	h.Marks = append(h.Marks, 1023, 1024)
	h.NTx = append(h.NTx, 1) // a small block first
	h.NTx = append(h.NTx, order...)
	nbig := len(h.NTx)
	evict := int(ledgerstore.BLOCK_CAHE_SIZE) + 2
	for i := 0; i < evict; i++ {
		h.NTx = append(h.NTx, c.Intn(2))
	}
	for i := 0; i < nbig; i++ {
		h.Steps = append(h.Steps, Step{Op: "commit"})
	}
	h.Steps = append(h.Steps, Step{Op: "check", All: true})
	for i := 0; i < evict; i++ {
		h.Steps = append(h.Steps, Step{Op: "commit"})
	}
	h.Steps = append(h.Steps, Step{Op: "check", All: true}, Step{Op: "reopen"}, Step{Op: "check", All: true})
	return h
}

func Run(c *hx.Ctx) {
	c.CoqModule("Corr.C40")
	var in History
	if c.ReplayInput(&in) {
		runHistory(c, in, "replay")
		return
	}
	for i, raw := range c.CorpusInputs() {
		var h History
		if json.Unmarshal(raw, &h) == nil && len(h.Steps) > 0 {
			runHistory(c, h, fmt.Sprintf("corpus%d", i))
		}
	}
	nSmall := c.N(10, 150)
	for i := 0; i < nSmall; i++ {
		n := 2 + c.Intn(c.N(10, 24))
		runHistory(c, genSmall(c, n, 4), fmt.Sprintf("small%d", i))
	}
	for i := 0; i < c.N(2, 12); i++ {
		runHistory(c, genRival(c, int(ledgerstore.BLOCK_CAHE_SIZE)+6+c.Intn(6)), fmt.Sprintf("rival%d", i))
	}
	for i := 0; i < c.N(2, 8); i++ {
		runHistory(c, genMulti(c, []int{4, 7}[i%2]), fmt.Sprintf("multi%d", i))
	}
	runHistory(c, genBigTx(c), "bigtx0")
	win := int(ledgerstore.HEADER_INDEX_MAX_SIZE)
	if c.Quick() {
		runHistory(c, genLong(c, win+40+c.Intn(30), c.Seed%2 == 0), "long0")
	} else {
		runHistory(c, genLong(c, win+40+c.Intn(30), false), "long0")
		runHistory(c, genLong(c, win+40+c.Intn(30), true), "long1")
		runHistory(c, genLong(c, 2*win+100+c.Intn(50), false), "long2")
	}
}
