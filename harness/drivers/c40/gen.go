package c40

import (
	"fmt"

	"github.com/ontio/ontology/core/store/ledgerstore"

	"verif/harness/gen"
)

const (
	hicFile = "core/store/ledgerstore/header_Index_cache.go"
	lsFile  = "core/store/ledgerstore/ledger_store.go"
)

// Sites: the uint32 expressions of the header-index cache window and of the height checks, as they
// stand in the source. The model (coq/Model/BlockStore.v) applies them modulo 2^32.
var Sites = []gen.Site{
	// HeaderIndexCache.setHeaderIndex
	{Name: "hic_last_guard_lhs", File: hicFile, Func: "setHeaderIndex", Loc: "cmp:<:lhs#0",
		Subst: map[string]string{"this.getLastIndex()": "last"}, Vars: []string{"last", "hh"}},
	{Name: "hic_last_guard_rhs", File: hicFile, Func: "setHeaderIndex", Loc: "cmp:<:rhs#0",
		Subst: map[string]string{"curHeaderHeight": "hh"}, Vars: []string{"last", "hh"}},
	{Name: "hic_first_guard_lhs", File: hicFile, Func: "setHeaderIndex", Loc: "cmp:<:lhs#1",
		Subst: map[string]string{"this.getFirstIndex()": "first"}, Vars: []string{"first", "cur"}},
	{Name: "hic_first_guard_rhs", File: hicFile, Func: "setHeaderIndex", Loc: "cmp:<:rhs#1",
		Subst: map[string]string{"curBlockHeight": "cur"}, Vars: []string{"first", "cur"}},
	{Name: "hic_cache_size", File: hicFile, Func: "setHeaderIndex", Loc: "assign:cacheSize",
		Subst: map[string]string{"curBlockHeight": "cur", "this.getFirstIndex()": "first"}, Vars: []string{"cur", "first"}},
	{Name: "hic_evict_lhs", File: hicFile, Func: "setHeaderIndex", Loc: "cmp:>:lhs",
		Subst: map[string]string{"cacheSize": "size"}, Vars: []string{"size", "maxsz"}},
	{Name: "hic_evict_rhs", File: hicFile, Func: "setHeaderIndex", Loc: "cmp:>:rhs",
		Subst: map[string]string{"HEADER_INDEX_MAX_SIZE": "maxsz"}, Vars: []string{"size", "maxsz"}},
	// LedgerStoreImp.loadHeaderIndexList
	{Name: "reload_guard_lhs", File: lsFile, Func: "loadHeaderIndexList", Loc: "cmp:>:lhs",
		Subst: map[string]string{"currBlockHeight": "cur"}, Vars: []string{"cur", "maxsz"}},
	{Name: "reload_guard_rhs", File: lsFile, Func: "loadHeaderIndexList", Loc: "cmp:>:rhs",
		Subst: map[string]string{"HEADER_INDEX_MAX_SIZE": "maxsz"}, Vars: []string{"cur", "maxsz"}},
	{Name: "reload_start", File: lsFile, Func: "loadHeaderIndexList", Loc: "assign:height",
		Subst: map[string]string{"currBlockHeight": "cur", "HEADER_INDEX_MAX_SIZE": "maxsz"}, Vars: []string{"cur", "maxsz"}},
	{Name: "reload_loop_from", File: lsFile, Func: "loadHeaderIndexList", Loc: "assign:i",
		Subst: map[string]string{"height": "start"}, Vars: []string{"start"}},
	{Name: "reload_loop_lhs", File: lsFile, Func: "loadHeaderIndexList", Loc: "cmp:<=:lhs",
		Subst: map[string]string{"i": "i"}, Vars: []string{"i", "cur"}},
	{Name: "reload_loop_rhs", File: lsFile, Func: "loadHeaderIndexList", Loc: "cmp:<=:rhs",
		Subst: map[string]string{"currBlockHeight": "cur"}, Vars: []string{"i", "cur"}},
	// LedgerStoreImp.AddBlock / AddHeader height checks
	{Name: "add_block_next", File: lsFile, Func: "AddBlock", Loc: "assign:nextBlockHeight",
		Subst: map[string]string{"currBlockHeight": "cur"}, Vars: []string{"cur"}},
	{Name: "add_block_stale_lhs", File: lsFile, Func: "AddBlock", Loc: "cmp:<=:lhs",
		Subst: map[string]string{"blockHeight": "bh"}, Vars: []string{"bh", "cur"}},
	{Name: "add_block_stale_rhs", File: lsFile, Func: "AddBlock", Loc: "cmp:<=:rhs",
		Subst: map[string]string{"currBlockHeight": "cur"}, Vars: []string{"bh", "cur"}},
	{Name: "add_header_next", File: lsFile, Func: "AddHeader", Loc: "assign:nextHeaderHeight",
		Subst: map[string]string{"this.GetCurrentHeaderHeight()": "hcur"}, Vars: []string{"hcur"}},
}

func init() {
	gen.RegisterFile("LedgerIndexFormulas.v", gen.SitesProducer(Sites))
	gen.RegisterFile("LedgerIndexConsts.v", func(repo string) ([]byte, []string) {
		cs := []gen.Const{
			{Name: "HEADER_INDEX_MAX_SIZE", Type: "N", Value: fmt.Sprintf("%d%%N", ledgerstore.HEADER_INDEX_MAX_SIZE), Comment: "ledgerstore.HEADER_INDEX_MAX_SIZE (header_Index_cache.go)"},
			{Name: "HEADER_INDEX_BATCH_SIZE", Type: "N", Value: fmt.Sprintf("%d%%N", ledgerstore.HEADER_INDEX_BATCH_SIZE), Comment: "ledgerstore.HEADER_INDEX_BATCH_SIZE (ledger_store.go; declared, not referenced by the code)"},
			{Name: "SYSTEM_VERSION", Type: "N", Value: fmt.Sprintf("%d%%N", ledgerstore.SYSTEM_VERSION), Comment: "ledgerstore.SYSTEM_VERSION"},
			{Name: "BLOCK_CACHE_SIZE", Type: "N", Value: fmt.Sprintf("%d%%N", ledgerstore.BLOCK_CAHE_SIZE), Comment: "ledgerstore.BLOCK_CAHE_SIZE"},
			{Name: "TRANSACTION_CACHE_SIZE", Type: "N", Value: fmt.Sprintf("%d%%N", ledgerstore.TRANSACTION_CACHE_SIZE), Comment: "ledgerstore.TRANSACTION_CACHE_SIZE"},
		}
		return gen.EmitConsts("", cs), nil
	})
}
