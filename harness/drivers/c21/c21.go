// Package c21: numeric encodings (common.BigIntToNeoBytes/BigIntFromNeoBytes, common.I128,
// native/utils EncodeVarUint/DecodeVarUint, states.NativeTokenBalance storage items).
//
// Correspondence: every conversion run on generated inputs (sign and byte-length boundaries, carry
// chains, non-minimal and malformed inputs) and recorded for Model/NeoInt.v.
// Oracle: the property checked directly on the implementation against reference arithmetic written
// here with math/big only (independent of both the implementation and the Coq model): round trip,
// minimal length, injectivity, range checks, decoder acceptance classes, inputs left unmodified.
package c21

import (
	"bytes"
	"encoding/json"
	"fmt"
	"io"
	"math"
	"math/big"

	"github.com/ontio/ontology/common"
	"github.com/ontio/ontology/core/states"
	ontErrors "github.com/ontio/ontology/errors"
	"github.com/ontio/ontology/smartcontract/service/native/utils"

	"verif/harness/gen"
	"verif/harness/hx"
)

func init() {
	gen.RegisterFile("NeoIntConsts.v", produceConsts)
	hx.Register("C21", Run)
}

// ---------- replayable input ----------

type input struct {
	Kind string `json:"kind"`          // enc dec i128of i128to i128i64 i128u64 varenc vardec balto balfrom balraw
	Z    string `json:"z,omitempty"`   // decimal integer
	B    string `json:"b,omitempty"`   // hex bytes
	Ver  int    `json:"ver,omitempty"` // storage item version
}

func zOf(in input) *big.Int {
	z, ok := new(big.Int).SetString(in.Z, 10)
	if !ok {
		panic("c21: bad integer " + in.Z)
	}
	return z
}

// ---------- reference arithmetic (math/big only) ----------

var (
	one      = big.NewInt(1)
	two64    = new(big.Int).Lsh(one, 64)
	two127   = new(big.Int).Lsh(one, 127)
	two128   = new(big.Int).Lsh(one, 128)
	scaleRef = big.NewInt(1000000000)
)

// refMinLen: 0 for 0, else the least n with -2^(8n-1) <= z < 2^(8n-1).
func refMinLen(z *big.Int) int {
	switch z.Sign() {
	case 0:
		return 0
	case 1:
		return z.BitLen()/8 + 1
	default:
		m := new(big.Int).Neg(z)
		m.Sub(m, one)
		return m.BitLen()/8 + 1
	}
}

// refDecode: two's-complement value of a little-endian byte string.
func refDecode(b []byte) *big.Int {
	if len(b) == 0 {
		return new(big.Int)
	}
	be := make([]byte, len(b))
	for i := range b {
		be[len(b)-1-i] = b[i]
	}
	v := new(big.Int).SetBytes(be)
	if b[len(b)-1]&0x80 != 0 {
		v.Sub(v, new(big.Int).Lsh(one, uint(8*len(b))))
	}
	return v
}

// refEncode: minimal little-endian two's complement.
func refEncode(z *big.Int) []byte {
	n := refMinLen(z)
	m := new(big.Int).Mod(z, new(big.Int).Lsh(one, uint(8*n))) // Euclidean, non-negative
	out := make([]byte, n)
	be := m.Bytes()
	for i := range be {
		out[len(be)-1-i] = be[i]
	}
	return out
}

// refTrim removes redundant sign bytes.
func refTrim(b []byte) []byte {
	b = append([]byte{}, b...)
	for len(b) > 0 {
		t := b[len(b)-1]
		if len(b) == 1 {
			if t == 0 {
				b = b[:0]
			}
			break
		}
		u := b[len(b)-2]
		if (t == 0 && u < 128) || (t == 0xff && u >= 128) {
			b = b[:len(b)-1]
			continue
		}
		break
	}
	return b
}

func refCanonical(b []byte) bool { return bytes.Equal(refTrim(b), b) }

func inI128(z *big.Int) bool {
	return z.Cmp(new(big.Int).Neg(two127)) >= 0 && z.Cmp(two127) < 0
}

// ---------- injectivity bookkeeping ----------

type seen map[string]string

func (s seen) add(enc []byte, val string) (other string, clash bool) {
	k := string(enc)
	if v, ok := s[k]; ok && v != val {
		return v, true
	}
	s[k] = val
	return "", false
}

type state struct {
	c                                   *hx.Ctx
	neoSeen, i128Seen, varSeen, balSeen seen
}

// ---------- 1. NeoVM integers ----------

func (s *state) doEnc(in input) {
	c := s.c
	z := zOf(in)
	keep := new(big.Int).Set(z)
	c.Eval()
	var out []byte
	if p, msg := hx.Recover(func() { out = common.BigIntToNeoBytes(z) }); p {
		c.Fail("neo:panic", "BigIntToNeoBytes panicked", in, msg, "an encoding")
		return
	}
	out = append([]byte{}, out...)
	if z.Cmp(keep) != 0 {
		c.Fail("neo:input-mutated", "BigIntToNeoBytes changed its argument", in, z.String(), keep.String())
	}
	var back *big.Int
	if p, msg := hx.Recover(func() { back = common.BigIntFromNeoBytes(out) }); p {
		c.Fail("neo:panic", "BigIntFromNeoBytes panicked on an encoder output", in, msg, keep.String())
		return
	}
	if back.Cmp(keep) != 0 {
		c.Fail("neo:roundtrip", "decoding an encoding does not return the original value", in,
			map[string]interface{}{"encoding": hx.Hex(out), "decoded": back.String()}, keep.String())
	}
	if refDecode(out).Cmp(keep) != 0 {
		c.Fail("neo:encoding-value", "the encoding is not the two's-complement form of the value", in,
			map[string]interface{}{"encoding": hx.Hex(out), "twos_complement_value": refDecode(out).String()}, keep.String())
	}
	if len(out) != refMinLen(keep) {
		c.Fail("neo:not-minimal", "the encoding is not of minimal length", in,
			map[string]interface{}{"encoding": hx.Hex(out), "len": len(out)}, refMinLen(keep))
	}
	if o, clash := s.neoSeen.add(out, keep.String()); clash {
		c.Fail("neo:not-injective", "two different integers have the same encoding", in, hx.Hex(out), o)
	}
	c.Count(fmt.Sprintf("enc:len<=%d", lenBucket(len(out))))
	if keep.Sign() < 0 {
		c.Count("enc:negative")
	}
	if len(out) >= 2 {
		c.Nontrivial("enc" + in.Z)
	}
	c.Sample(map[string]interface{}{"kind": "enc", "z": in.Z, "out": hx.Hex(out)})
	c.Case(fmt.Sprintf("CEnc %s %s", hx.CoqZBig(keep), hx.CoqBytes(out)), in)
}

func (s *state) doDec(in input) {
	c := s.c
	b := hx.UnHex(in.B)
	keep := append([]byte{}, b...)
	c.Eval()
	var z *big.Int
	if p, msg := hx.Recover(func() { z = common.BigIntFromNeoBytes(b) }); p {
		c.Fail("neo:panic", "BigIntFromNeoBytes panicked", in, msg, "a value")
		return
	}
	if !bytes.Equal(b, keep) {
		c.Fail("neo:input-mutated", "BigIntFromNeoBytes changed its argument", in, hx.Hex(b), hx.Hex(keep))
	}
	if z.Cmp(refDecode(keep)) != 0 {
		c.Fail("neo:decode-value", "decoded value is not the two's-complement value of the bytes", in, z.String(), refDecode(keep).String())
	}
	// re-encoding gives the trimmed (canonical) string: one encoding per value
	var re []byte
	if p, msg := hx.Recover(func() { re = common.BigIntToNeoBytes(new(big.Int).Set(z)) }); p {
		c.Fail("neo:panic", "BigIntToNeoBytes panicked on a decoded value", in, msg, nil)
		return
	}
	if !bytes.Equal(re, refTrim(keep)) {
		c.Fail("neo:reencode-not-canonical", "re-encoding a decoded value is not the input without its redundant sign bytes", in, hx.Hex(re), hx.Hex(refTrim(keep)))
	}
	if refCanonical(keep) {
		c.Count("dec:canonical")
	} else {
		c.Count("dec:non-minimal")
	}
	c.Count(fmt.Sprintf("dec:len<=%d", lenBucket(len(keep))))
	if len(keep) >= 2 {
		c.Nontrivial("dec" + in.B)
	}
	c.Sample(map[string]interface{}{"kind": "dec", "b": in.B, "z": z.String()})
	c.Case(fmt.Sprintf("CDec %s %s", hx.CoqBytes(keep), hx.CoqZBig(z)), in)
}

// ---------- 2. I128 ----------

func (s *state) doI128Of(in input) {
	c := s.c
	z := zOf(in)
	keep := new(big.Int).Set(z)
	c.Eval()
	var v common.I128
	var err error
	if p, msg := hx.Recover(func() { v, err = common.I128FromBigInt(z) }); p {
		c.Fail("i128:panic", "I128FromBigInt panicked", in, msg, nil)
		return
	}
	if z.Cmp(keep) != 0 {
		c.Fail("i128:input-mutated", "I128FromBigInt changed its argument", in, z.String(), keep.String())
	}
	if (err == nil) != inI128(keep) {
		c.Fail("i128:range", "range check differs from -2^127 <= z < 2^127", in, fmt.Sprint(err), inI128(keep))
	}
	r := "None"
	if err == nil {
		back := v.ToBigInt()
		if back.Cmp(keep) != 0 {
			c.Fail("i128:roundtrip", "ToBigInt(I128FromBigInt(z)) differs from z", in,
				map[string]interface{}{"i128": hx.Hex(v[:]), "back": back.String()}, keep.String())
		}
		if o, clash := s.i128Seen.add(v[:], keep.String()); clash {
			c.Fail("i128:not-injective", "two different integers have the same I128", in, hx.Hex(v[:]), o)
		}
		r = "(Some " + hx.CoqBytes(v[:]) + ")"
		c.Count("i128of:ok")
	} else {
		c.Count("i128of:error")
	}
	c.Nontrivial("i128of" + in.Z)
	c.Sample(map[string]interface{}{"kind": "i128of", "z": in.Z, "ok": err == nil})
	c.Case(fmt.Sprintf("CI128Of %s %s", hx.CoqZBig(keep), r), in)
}

func (s *state) doI128To(in input) {
	c := s.c
	b := hx.UnHex(in.B)
	if len(b) != common.I128_SIZE {
		panic("c21: i128to wants 16 bytes")
	}
	var v common.I128
	copy(v[:], b)
	c.Eval()
	z := v.ToBigInt()
	u := common.U128(v).ToBigInt()
	if !bytes.Equal(v[:], b) {
		c.Fail("i128:input-mutated", "ToBigInt changed the I128", in, hx.Hex(v[:]), in.B)
	}
	if z.Cmp(refDecode(b)) != 0 {
		c.Fail("i128:decode-value", "I128.ToBigInt is not the two's-complement value", in, z.String(), refDecode(b).String())
	}
	if !inI128(z) {
		c.Fail("i128:range", "I128.ToBigInt left the i128 range", in, z.String(), "in range")
	}
	back, err := common.I128FromBigInt(new(big.Int).Set(z))
	if err != nil || !bytes.Equal(back[:], b) {
		c.Fail("i128:bytes-roundtrip", "I128FromBigInt(ToBigInt(b)) differs from b", in, fmt.Sprint(hx.Hex(back[:]), err), in.B)
	}
	c.Count("i128to")
	c.Nontrivial("i128to" + in.B)
	c.Case(fmt.Sprintf("CI128To %s %s %s", hx.CoqBytes(b), hx.CoqZBig(z), hx.CoqZBig(u)), in)
}

func (s *state) doI128I64(in input) {
	c := s.c
	z := zOf(in)
	if !z.IsInt64() {
		panic("c21: i128i64 wants an int64")
	}
	c.Eval()
	v := common.I128FromInt64(z.Int64())
	w, err := common.I128FromBigInt(new(big.Int).Set(z))
	if err != nil || v != w {
		c.Fail("i128:int64-path", "I128FromInt64 and I128FromBigInt disagree", in, hx.Hex(v[:]), fmt.Sprint(hx.Hex(w[:]), err))
	}
	if v.ToBigInt().Cmp(z) != 0 {
		c.Fail("i128:roundtrip", "ToBigInt(I128FromInt64(z)) differs from z", in, v.ToBigInt().String(), in.Z)
	}
	c.Count("i128i64")
	c.Nontrivial("i128i64" + in.Z)
	c.Case(fmt.Sprintf("CI128I64 %s %s", hx.CoqZBig(z), hx.CoqBytes(v[:])), in)
}

func (s *state) doI128U64(in input) {
	c := s.c
	z := zOf(in)
	if !z.IsUint64() {
		panic("c21: i128u64 wants a uint64")
	}
	c.Eval()
	v := common.I128FromUint64(z.Uint64())
	w, err := common.I128FromBigInt(new(big.Int).Set(z))
	if err != nil || v != w {
		c.Fail("i128:int64-path", "I128FromUint64 and I128FromBigInt disagree", in, hx.Hex(v[:]), fmt.Sprint(hx.Hex(w[:]), err))
	}
	c.Count("i128u64")
	c.Nontrivial("i128u64" + in.Z)
	c.Case(fmt.Sprintf("CI128U64 %s %s", z.String(), hx.CoqBytes(v[:])), in)
}

// ---------- 3. native varuint ----------

func (s *state) doVarEnc(in input) {
	c := s.c
	z := zOf(in)
	if !z.IsUint64() {
		panic("c21: varenc wants a uint64")
	}
	v := z.Uint64()
	c.Eval()
	sink := common.NewZeroCopySink(nil)
	size := utils.EncodeVarUint(sink, v)
	out := append([]byte{}, sink.Bytes()...)
	if size != uint64(len(out)) {
		c.Fail("varuint:size", "EncodeVarUint reports a size different from what it wrote", in, size, len(out))
	}
	junk := []byte{0xaa, 0x01}
	src := common.NewZeroCopySource(append(append([]byte{}, out...), junk...))
	got, err := utils.DecodeVarUint(src)
	if err != nil || got != v || src.Len() != uint64(len(junk)) {
		c.Fail("varuint:roundtrip", "DecodeVarUint(EncodeVarUint(v)) differs from v or consumes a different number of bytes", in,
			map[string]interface{}{"encoding": hx.Hex(out), "decoded": got, "err": fmt.Sprint(err), "left": src.Len()}, v)
	}
	want := append([]byte{byte(refMinLen(z))}, refEncode(z)...)
	if !bytes.Equal(out, want) {
		c.Fail("varuint:not-minimal", "EncodeVarUint is not one length byte followed by the minimal two's-complement form", in, hx.Hex(out), hx.Hex(want))
	}
	if o, clash := s.varSeen.add(out, in.Z); clash {
		c.Fail("varuint:not-injective", "two different values have the same encoding", in, hx.Hex(out), o)
	}
	c.Count(fmt.Sprintf("varenc:len=%d", len(out)))
	if len(out) > 2 {
		c.Nontrivial("varenc" + in.Z)
	}
	c.Sample(map[string]interface{}{"kind": "varenc", "v": in.Z, "out": hx.Hex(out)})
	c.Case(fmt.Sprintf("CVarEnc %d %s", v, hx.CoqBytes(out)), in)
}

func vres(v uint64, left uint64, err error) string {
	switch {
	case err == nil:
		return fmt.Sprintf("(VOk %d %d)", v, left)
	case err == io.ErrUnexpectedEOF:
		return "(VErr VEof)"
	case err == common.ErrIrregularData:
		return "(VErr VIrregular)"
	default:
		return "(VErr VRange)"
	}
}

func (s *state) doVarDec(in input) {
	c := s.c
	b := hx.UnHex(in.B)
	c.Eval()
	var v, vw uint64
	var err, errw error
	var left, leftw uint64
	p, msg := hx.Recover(func() {
		src := common.NewZeroCopySource(b)
		v, err = utils.DecodeVarUint(src)
		left = src.Len()
		srcw := common.NewZeroCopySource(b)
		vw, errw = utils.DecodeVarUintWrapping(srcw)
		leftw = srcw.Len()
	})
	if p {
		c.Fail("varuint:panic", "DecodeVarUint panicked", in, msg, "value or error")
		return
	}
	if err == nil {
		// accepted: canonical length prefix, payload value in [0, 2^64), and equal to the result
		consumed := b[:uint64(len(b))-left]
		ok := false
		why := "no canonical length prefix"
		if len(consumed) > 0 {
			ps := prefixSize(consumed[0])
			if len(consumed) >= ps {
				payload := consumed[ps:]
				sink := common.NewZeroCopySink(nil)
				sink.WriteVarBytes(payload)
				val := refDecode(payload)
				switch {
				case !bytes.Equal(sink.Bytes(), consumed):
					why = "consumed bytes are not WriteVarBytes(payload)"
				case val.Sign() < 0 || val.Cmp(two64) >= 0:
					why = "payload value outside uint64: " + val.String()
				case val.Uint64() != v:
					why = "result differs from the payload value " + val.String()
				default:
					ok = true
					// re-encoding is the same prefix form around the trimmed payload
					s2 := common.NewZeroCopySink(nil)
					utils.EncodeVarUint(s2, v)
					s3 := common.NewZeroCopySink(nil)
					s3.WriteVarBytes(refTrim(payload))
					if !bytes.Equal(s2.Bytes(), s3.Bytes()) {
						ok = false
						why = "EncodeVarUint(result) is not the prefix form of the trimmed payload"
					}
					if refCanonical(payload) {
						c.Count("vardec:accepted-canonical")
					} else {
						c.Count("vardec:accepted-non-minimal-payload")
					}
				}
			}
		}
		if !ok {
			c.Fail("varuint:accepts", "DecodeVarUint accepted an input outside its documented class", in,
				map[string]interface{}{"value": v, "left": left}, why)
		}
		if errw != nil || vw != v || leftw != left {
			c.Fail("varuint:wrapping", "DecodeVarUintWrapping disagrees with DecodeVarUint on an accepted input", in, fmt.Sprint(vw, errw), v)
		}
	} else {
		c.Count("vardec:" + vres(0, 0, err))
	}
	if len(b) >= 2 {
		c.Nontrivial("vardec" + in.B)
	}
	c.Sample(map[string]interface{}{"kind": "vardec", "b": in.B, "result": vres(v, left, err)})
	c.Case(fmt.Sprintf("CVarDec %s %s %s", hx.CoqBytes(b), vres(v, left, err), vres(vw, leftw, errw)), in)
}

func prefixSize(fb byte) int {
	switch fb {
	case 0xfd:
		return 3
	case 0xfe:
		return 5
	case 0xff:
		return 9
	}
	return 1
}

// ---------- 4. balances ----------

func mkBalance(z *big.Int) states.NativeTokenBalance {
	var nb states.NativeTokenBalance
	nb.Balance = nb.Balance.Add(new(big.Int).Set(z)) // bigint.Int.Add accepts *big.Int; result is fresh
	return nb
}

// balInDomain: balances the writer must store and the reader must return unchanged: non-negative, and
// when integral (stored as a uint64 number of units) below 2^64 units. Fractional balances are stored
// as NeoVM integers of any size.
func balInDomain(z *big.Int) bool {
	if z.Sign() < 0 {
		return false
	}
	integral := new(big.Int).Mod(z, scaleRef).Sign() == 0
	return !integral || new(big.Int).Div(z, scaleRef).Cmp(two64) < 0
}

func bres(b states.NativeTokenBalance, err error) string {
	switch {
	case err == nil:
		return "(BOk " + hx.CoqZBig(b.ToBigInt()) + ")"
	case err == io.ErrUnexpectedEOF:
		return "BErrEof"
	default:
		return "BErrNegative"
	}
}

func (s *state) doBalTo(in input) {
	c := s.c
	z := zOf(in)
	c.Eval()
	nb := mkBalance(z)
	var it *states.StorageItem
	var raw []byte
	panicked, msg := hx.Recover(func() {
		it = nb.MustToStorageItem()
		raw = nb.MustToStorageItemBytes()
	})
	if nb.ToBigInt().Cmp(z) != 0 {
		c.Fail("balance:input-mutated", "MustToStorageItem changed the balance", in, nb.ToBigInt().String(), in.Z)
	}
	integral := new(big.Int).Mod(z, scaleRef).Sign() == 0
	if balInDomain(z) {
		if panicked {
			c.Fail("balance:panic", "MustToStorageItem panicked on a non-negative balance that is fractional or below 2^64 units", in, msg, "an item")
		} else {
			back, err := states.NativeTokenBalanceFromStorageItem(it)
			if err != nil || back.ToBigInt().Cmp(z) != 0 {
				c.Fail("balance:roundtrip", "reading back a written balance gives a different balance", in,
					map[string]interface{}{"version": it.StateVersion, "value": hx.Hex(it.Value), "back": back.String(), "err": fmt.Sprint(err)}, in.Z)
			}
			if (it.StateVersion == states.DefaultVersion) != integral || (it.StateVersion != states.DefaultVersion && it.StateVersion != states.ScaleDecimal9Version) {
				c.Fail("balance:version", "storage version is not 0 for integral / 1 for fractional balances", in, it.StateVersion, integral)
			}
			// through the stored bytes
			item := new(states.StorageItem)
			err = item.Deserialization(common.NewZeroCopySource(append(append([]byte{}, raw...), 0x55)))
			var b2 states.NativeTokenBalance
			if err == nil {
				b2, err = states.NativeTokenBalanceFromStorageItem(item)
			}
			if err != nil || b2.ToBigInt().Cmp(z) != 0 {
				c.Fail("balance:bytes-roundtrip", "stored bytes do not read back to the balance", in, fmt.Sprint(hx.Hex(raw), " ", b2.String(), " ", err), in.Z)
			}
			if o, clash := s.balSeen.add(raw, in.Z); clash {
				c.Fail("balance:not-injective", "two different balances have the same stored bytes", in, hx.Hex(raw), o)
			}
		}
	} else if !panicked {
		// outside the domain an item may be produced only if it cannot be read back as a balance
		back, err := states.NativeTokenBalanceFromStorageItem(it)
		if err == nil {
			c.Fail("balance:out-of-domain-readable", "a balance outside the domain was written to an item that reads back", in, back.String(), "panic or unreadable item")
		}
	}
	itS, rawS := "None", "None"
	if !panicked {
		itS = fmt.Sprintf("(Some (%d, %s))", it.StateVersion, hx.CoqBytes(it.Value))
		rawS = "(Some " + hx.CoqBytes(raw) + ")"
		c.Count(fmt.Sprintf("balto:version=%d", it.StateVersion))
	} else {
		c.Count("balto:panic")
	}
	c.Nontrivial("balto" + in.Z)
	c.Sample(map[string]interface{}{"kind": "balto", "b": in.Z, "panic": panicked, "raw": hx.Hex(raw)})
	c.Case(fmt.Sprintf("CBalTo %s %s %s", hx.CoqZBig(z), itS, rawS), in)
}

// checkAccepted: a balance the reader accepted must be non-negative and, when the writer does not
// panic on it, re-reading the writer's item must give the same balance (canonicalisation is stable).
func (s *state) checkAccepted(in input, b states.NativeTokenBalance) {
	c := s.c
	z := new(big.Int).Set(b.ToBigInt())
	if z.Sign() < 0 {
		c.Fail("balance:negative-readable", "a negative balance was read from storage", in, z.String(), ">= 0")
		return
	}
	var it *states.StorageItem
	if p, _ := hx.Recover(func() { it = mkBalance(z).MustToStorageItem() }); p {
		if balInDomain(z) {
			c.Fail("balance:panic", "MustToStorageItem panicked on a balance read from storage inside the domain", in, z.String(), "an item")
		}
		c.Count("balfrom:accepted-but-unwritable")
		return
	}
	back, err := states.NativeTokenBalanceFromStorageItem(it)
	if err != nil || back.ToBigInt().Cmp(z) != 0 {
		c.Fail("balance:reencode", "re-writing a balance read from storage does not read back equal", in, fmt.Sprint(back.String(), err), z.String())
	}
}

func (s *state) doBalFrom(in input) {
	c := s.c
	val := hx.UnHex(in.B)
	c.Eval()
	it := &states.StorageItem{StateBase: states.StateBase{StateVersion: byte(in.Ver)}, Value: append([]byte{}, val...)}
	var b states.NativeTokenBalance
	var err error
	if p, msg := hx.Recover(func() { b, err = states.NativeTokenBalanceFromStorageItem(it) }); p {
		c.Fail("balance:panic", "NativeTokenBalanceFromStorageItem panicked", in, msg, "balance or error")
		return
	}
	if !bytes.Equal(it.Value, val) {
		c.Fail("balance:input-mutated", "NativeTokenBalanceFromStorageItem changed the item", in, hx.Hex(it.Value), in.B)
	}
	if err == nil {
		s.checkAccepted(in, b)
		// reference value
		var want *big.Int
		if in.Ver == states.DefaultVersion {
			want = new(big.Int).Mul(refDecode(append(append([]byte{}, val[:8]...), 0)), scaleRef)
		} else {
			want = refDecode(val)
		}
		if b.ToBigInt().Cmp(want) != 0 {
			c.Fail("balance:decode-value", "balance read from an item differs from the stored number", in, b.String(), want.String())
		}
		c.Count(fmt.Sprintf("balfrom:ok:version=%d", in.Ver))
	} else {
		c.Count("balfrom:" + bres(b, err))
	}
	c.Nontrivial(fmt.Sprintf("balfrom%d/%s", in.Ver, in.B))
	c.Case(fmt.Sprintf("CBalFrom %d %s %s", in.Ver, hx.CoqBytes(val), bres(b, err)), in)
}

func (s *state) doBalRaw(in input) {
	c := s.c
	raw := hx.UnHex(in.B)
	c.Eval()
	var b states.NativeTokenBalance
	var err error
	stage := ""
	if p, msg := hx.Recover(func() {
		item := new(states.StorageItem)
		err = item.Deserialization(common.NewZeroCopySource(raw))
		if err != nil {
			stage = "item"
			return
		}
		b, err = states.NativeTokenBalanceFromStorageItem(item)
		stage = "balance"
	}); p {
		c.Fail("balance:panic", "reading stored bytes panicked", in, msg, "balance or error")
		return
	}
	r := ""
	switch {
	case err == nil:
		r = "(ROk " + hx.CoqZBig(b.ToBigInt()) + ")"
		s.checkAccepted(in, b)
	case stage == "item" && ontErrors.RootErr(err) == common.ErrIrregularData:
		r = "RErrIrregular"
	case stage == "item":
		r = "RErrEof"
	case err == io.ErrUnexpectedEOF:
		r = "RErrEof"
	default:
		r = "RErrNegative"
	}
	c.Count("balraw:" + firstWord(r))
	c.Nontrivial("balraw" + in.B)
	c.Case(fmt.Sprintf("CBalRaw %s %s", hx.CoqBytes(raw), r), in)
}

func firstWord(s string) string {
	for i, ch := range s {
		if ch == ' ' {
			return s[1:i]
		}
	}
	return s
}

func lenBucket(n int) int {
	for _, b := range []int{0, 1, 2, 8, 9, 16, 17, 32} {
		if n <= b {
			return b
		}
	}
	return 1 << 20
}

// ---------- dispatch ----------

func (s *state) run(in input) {
	switch in.Kind {
	case "enc":
		s.doEnc(in)
	case "dec":
		s.doDec(in)
	case "i128of":
		s.doI128Of(in)
	case "i128to":
		s.doI128To(in)
	case "i128i64":
		s.doI128I64(in)
	case "i128u64":
		s.doI128U64(in)
	case "varenc":
		s.doVarEnc(in)
	case "vardec":
		s.doVarDec(in)
	case "balto":
		s.doBalTo(in)
	case "balfrom":
		s.doBalFrom(in)
	case "balraw":
		s.doBalRaw(in)
	default:
		panic("c21: unknown input kind " + in.Kind)
	}
}

// ---------- generators ----------

func (s *state) randBits(maxBits int) *big.Int {
	c := s.c
	bits := c.Intn(maxBits + 1)
	if bits == 0 {
		return new(big.Int)
	}
	z := new(big.Int).SetBytes(c.Bytes((bits + 7) / 8))
	z.Rsh(z, uint(8*((bits+7)/8)-bits))
	return z
}

func (s *state) sign(z *big.Int) *big.Int {
	if s.c.Intn(2) == 0 {
		return new(big.Int).Neg(z)
	}
	return z
}

// genInt: integers with emphasis on sign and byte-length boundaries and on carry chains.
func (s *state) genInt(maxBytes int) *big.Int {
	c := s.c
	switch c.Intn(6) {
	case 0: // +-2^(8n-1) + d
		n := 1 + c.Intn(maxBytes)
		z := new(big.Int).Lsh(one, uint(8*n-1))
		z.Add(z, big.NewInt(int64(c.Intn(5)-2)))
		return s.sign(z)
	case 1: // +-2^(8n) + d
		n := c.Intn(maxBytes + 1)
		z := new(big.Int).Lsh(one, uint(8*n))
		z.Add(z, big.NewInt(int64(c.Intn(5)-2)))
		return s.sign(z)
	case 2: // k * 256^j: low bytes zero, so the negation carries through j bytes
		j := c.Intn(maxBytes)
		z := s.randBits(24)
		z.Add(z, one)
		z.Lsh(z, uint(8*j))
		return s.sign(z)
	case 3: // low bytes all 0xff
		j := 1 + c.Intn(maxBytes)
		z := s.randBits(20)
		z.Lsh(z, uint(8*j))
		z.Add(z, new(big.Int).Sub(new(big.Int).Lsh(one, uint(8*j)), one))
		return s.sign(z)
	case 4: // small
		return big.NewInt(int64(c.Intn(70000) - 35000))
	default:
		return s.sign(s.randBits(8 * maxBytes))
	}
}

// genNeoBytes: byte strings for the decoder, half of them with redundant sign bytes.
func (s *state) genNeoBytes() []byte {
	c := s.c
	switch c.Intn(6) {
	case 0:
		return c.Bytes(c.Intn(25))
	case 1: // canonical + redundant sign bytes
		b := refEncode(s.genInt(12))
		ext := byte(0)
		if len(b) > 0 && b[len(b)-1] >= 128 {
			ext = 0xff
		}
		for k := 1 + c.Intn(4); k > 0; k-- {
			b = append(b, ext)
		}
		return b
	case 2: // all zero / all ones
		n := 1 + c.Intn(6)
		return bytes.Repeat([]byte{[]byte{0, 0xff}[c.Intn(2)]}, n)
	case 3: // boundary byte then a sign byte of either kind
		b := c.Bytes(c.Intn(4))
		b = append(b, []byte{0x7f, 0x80, 0x00, 0xff, 0x01, 0xfe}[c.Intn(6)])
		b = append(b, []byte{0x00, 0xff}[c.Intn(2)])
		if c.Intn(3) == 0 {
			b = append(b, b[len(b)-1])
		}
		return b
	case 4:
		return refEncode(s.genInt(20))
	default:
		b := c.Bytes(1 + c.Intn(3))
		return b
	}
}

func (s *state) genI128Int() *big.Int {
	c := s.c
	d := big.NewInt(int64(c.Intn(7) - 3))
	switch c.Intn(7) {
	case 0:
		return new(big.Int).Add(two127, d)
	case 1:
		return new(big.Int).Add(new(big.Int).Neg(two127), d)
	case 2:
		return new(big.Int).Add(s.sign(new(big.Int).Set(two128)), d)
	case 3:
		return new(big.Int).Add(s.sign(new(big.Int).Lsh(one, uint(63+c.Intn(2)))), d)
	case 4:
		return s.sign(s.randBits(127))
	case 5:
		return s.sign(s.randBits(140))
	default:
		return s.genInt(17)
	}
}

func u64Z(v uint64) *big.Int { return new(big.Int).SetUint64(v) }

// genVarDec: inputs for DecodeVarUint.
func (s *state) genVarDec() []byte {
	c := s.c
	payload := func() []byte {
		switch c.Intn(5) {
		case 0:
			return refEncode(u64Z(c.U64Boundary()))
		case 1: // around the uint64 limits, both signs
			z := new(big.Int).Add(s.sign(new(big.Int).Lsh(one, uint(62+c.Intn(4)))), big.NewInt(int64(c.Intn(5)-2)))
			return refEncode(z)
		case 2: // non-minimal
			b := refEncode(u64Z(c.U64Boundary() >> uint(c.Intn(64))))
			ext := byte(0)
			if len(b) > 0 && b[len(b)-1] >= 128 {
				ext = 0xff
			}
			for k := 1 + c.Intn(3); k > 0; k-- {
				b = append(b, ext)
			}
			return b
		case 3:
			return c.Bytes(c.Intn(12))
		default:
			return refEncode(s.genInt(10))
		}
	}
	switch c.Intn(8) {
	case 0: // well-formed + junk
		sink := common.NewZeroCopySink(nil)
		sink.WriteVarBytes(payload())
		return append(append([]byte{}, sink.Bytes()...), c.Bytes(c.Intn(3))...)
	case 1: // irregular length prefix
		p := payload()
		var b []byte
		switch c.Intn(3) {
		case 0:
			b = []byte{0xfd, byte(len(p)), 0}
		case 1:
			b = []byte{0xfe, byte(len(p)), 0, 0, 0}
		default:
			b = []byte{0xff, byte(len(p)), 0, 0, 0, 0, 0, 0, 0}
		}
		return append(b, p...)
	case 2: // truncated
		sink := common.NewZeroCopySink(nil)
		sink.WriteVarBytes(payload())
		b := append([]byte{}, sink.Bytes()...)
		return b[:c.Intn(len(b)+1)]
	case 3: // count beyond the end
		return append([]byte{[]byte{0xfd, 0xfe, 0xff}[c.Intn(3)]}, c.Bytes(c.Intn(10))...)
	case 4: // long sign-extended payload behind a regular 3-byte prefix (every other time; else a short one)
		p := refEncode(u64Z(c.U64Boundary()))
		if c.Intn(2) == 0 {
			sink := common.NewZeroCopySink(nil)
			sink.WriteVarBytes(append(p, 0))
			return append([]byte{}, sink.Bytes()...)
		}
		ext := byte(0)
		if len(p) > 0 && p[len(p)-1] >= 128 {
			ext = 0xff
		}
		for len(p) < 253+c.Intn(60) {
			p = append(p, ext)
		}
		sink := common.NewZeroCopySink(nil)
		sink.WriteVarBytes(p)
		return append([]byte{}, sink.Bytes()...)
	case 5:
		return c.Bytes(c.Intn(14))
	default:
		sink := common.NewZeroCopySink(nil)
		utils.EncodeVarUint(sink, c.U64Boundary())
		return append(append([]byte{}, sink.Bytes()...), c.Bytes(c.Intn(2))...)
	}
}

func (s *state) genBalance() *big.Int {
	c := s.c
	k := u64Z(c.U64Boundary())
	switch c.Intn(8) {
	case 0:
		return new(big.Int).Mul(k, scaleRef)
	case 1:
		z := new(big.Int).Mul(k, scaleRef)
		return z.Add(z, big.NewInt([]int64{1, 999999999, 500000000, 255, 256}[c.Intn(5)]))
	case 2: // integer part at or past 2^64
		z := new(big.Int).Add(two64, big.NewInt(int64(c.Intn(3)-1)))
		z.Mul(z, scaleRef)
		return z.Add(z, big.NewInt(int64(c.Intn(3)-1)))
	case 3: // negative
		z := new(big.Int).Mul(u64Z(uint64(c.Intn(5))), scaleRef)
		z.Add(z, big.NewInt(int64(c.Intn(3))))
		return z.Neg(z)
	case 4:
		return s.randBits(100)
	case 5: // byte-length boundaries of the version-1 value
		n := 1 + c.Intn(12)
		z := new(big.Int).Lsh(one, uint(8*n-1))
		return z.Add(z, big.NewInt(int64(c.Intn(5)-2)))
	case 6:
		return big.NewInt(int64(c.Intn(3000000000)))
	default:
		return new(big.Int).Mul(s.randBits(70), scaleRef)
	}
}

func (s *state) genItem() (int, []byte) {
	c := s.c
	ver := []int{0, 0, 0, 1, 1, 1, 2, 255}[c.Intn(8)]
	var val []byte
	switch c.Intn(7) {
	case 0:
		sink := common.NewZeroCopySink(nil)
		sink.WriteUint64(c.U64Boundary())
		val = append([]byte{}, sink.Bytes()...)
	case 1: // over-long version-0 value
		val = c.Bytes(9 + c.Intn(4))
	case 2: // short
		val = c.Bytes(c.Intn(8))
	case 3:
		val = refEncode(s.genBalance())
	case 4: // non-minimal two's complement
		val = refEncode(s.genBalance())
		ext := byte(0)
		if len(val) > 0 && val[len(val)-1] >= 128 {
			ext = 0xff
		}
		val = append(val, ext)
	case 5:
		val = refEncode(new(big.Int).Neg(s.randBits(70)))
	default:
		val = s.genNeoBytes()
	}
	return ver, val
}

func (s *state) genRaw() []byte {
	c := s.c
	ver, val := s.genItem()
	it := &states.StorageItem{StateBase: states.StateBase{StateVersion: byte(ver)}, Value: val}
	raw := append([]byte{}, it.ToArray()...)
	switch c.Intn(6) {
	case 0:
		return raw[:c.Intn(len(raw)+1)]
	case 1: // irregular length prefix
		return append([]byte{byte(ver), 0xfd, byte(len(val)), 0}, val...)
	case 2:
		return append(raw, c.Bytes(1+c.Intn(3))...)
	case 3:
		return c.Bytes(c.Intn(12))
	default:
		return raw
	}
}

// fixed boundary probes, run on every seed
func (s *state) probes() {
	for _, z := range []string{"0", "1", "-1", "127", "128", "-128", "-129", "255", "256", "-255", "-256", "-257",
		"32767", "32768", "-32768", "-32769", "65535", "65536", "-65536",
		"9223372036854775807", "9223372036854775808", "-9223372036854775808", "-9223372036854775809",
		"18446744073709551615", "18446744073709551616", "-18446744073709551616",
		"170141183460469231731687303715884105727", "170141183460469231731687303715884105728",
		"-170141183460469231731687303715884105728", "-170141183460469231731687303715884105729"} {
		s.run(input{Kind: "enc", Z: z})
		s.run(input{Kind: "i128of", Z: z})
		s.run(input{Kind: "balto", Z: z})
	}
	for _, z := range []string{"1000000000", "999999999", "1000000001", "-1000000000", "-999999999",
		"18446744073709551615000000000", "18446744073709551615999999999", "18446744073709551616000000000",
		"18446744073709551616000000001", "18446744073709551617000000000"} {
		s.run(input{Kind: "balto", Z: z})
	}
	for _, b := range []string{"", "00", "ff", "80", "7f", "0000", "ffff", "8000", "80ff", "7fff", "ff00", "ff7f", "00ff", "0080",
		"000000", "ffffff", "ff00ff", "0100", "feff", "7f00", "80ffff"} {
		s.run(input{Kind: "dec", B: b})
	}
	for _, b := range []string{"", "00", "0100", "0101", "01ff", "020100", "028000", "0280ff", "09ffffffffffffffff00", "09000000000000000001",
		"0affffffffffffffff0000", "08ffffffffffffffff", "08ffffffffffffff7f", "fd010001", "fd00", "0201", "fdfd00"} {
		s.run(input{Kind: "vardec", B: b})
	}
	for _, v := range []uint64{0, 1, 127, 128, 255, 256, 32767, 32768, math.MaxInt64, math.MaxInt64 + 1, math.MaxUint64} {
		s.run(input{Kind: "varenc", Z: u64Z(v).String()})
		s.run(input{Kind: "i128u64", Z: u64Z(v).String()})
	}
	for _, v := range []int64{0, 1, -1, 127, -128, math.MaxInt64, math.MinInt64, math.MinInt64 + 1, -256, 255} {
		s.run(input{Kind: "i128i64", Z: big.NewInt(v).String()})
	}
	for _, b := range []string{"00000000000000000000000000000000", "ffffffffffffffffffffffffffffffff",
		"ffffffffffffffffffffffffffffff7f", "00000000000000000000000000000080", "01000000000000000000000000000080",
		"ffffffffffffffff0000000000000000", "0000000000000000ffffffffffffffff"} {
		s.run(input{Kind: "i128to", B: b})
	}
	for _, it := range []input{{Kind: "balfrom", Ver: 0, B: "0100000000000000"}, {Kind: "balfrom", Ver: 0, B: "010000000000000099"},
		{Kind: "balfrom", Ver: 0, B: "01000000000000"}, {Kind: "balfrom", Ver: 1, B: "00ca9a3b"}, {Kind: "balfrom", Ver: 1, B: "01"},
		{Kind: "balfrom", Ver: 1, B: "0100"}, {Kind: "balfrom", Ver: 1, B: "ff"}, {Kind: "balfrom", Ver: 2, B: "01"}, {Kind: "balfrom", Ver: 1, B: ""},
		{Kind: "balfrom", Ver: 1, B: "000000000000a0dec5adc935360000"},
		{Kind: "balraw", B: ""}, {Kind: "balraw", B: "00"}, {Kind: "balraw", B: "00080100000000000000"}, {Kind: "balraw", B: "00fd08000100000000000000"},
		{Kind: "balraw", B: "000801000000000000"}, {Kind: "balraw", B: "0101ff"}, {Kind: "balraw", B: "010101"}, {Kind: "balraw", B: "0100"}} {
		s.run(it)
	}
}

func Run(c *hx.Ctx) {
	c.CoqModule("Corr.C21")
	s := &state{c: c, neoSeen: seen{}, i128Seen: seen{}, varSeen: seen{}, balSeen: seen{}}
	var in input
	if c.ReplayInput(&in) && in.Kind != "" {
		s.run(in)
		return
	}
	for _, raw := range c.CorpusInputs() {
		var r input
		if json.Unmarshal(raw, &r) == nil && r.Kind != "" {
			s.run(r)
		}
	}
	s.probes()
	n := c.N(110, 1100)
	for i := 0; i < n; i++ {
		s.run(input{Kind: "enc", Z: s.genInt(40).String()})
		s.run(input{Kind: "enc", Z: s.genInt(9).String()})
		s.run(input{Kind: "dec", B: hx.Hex(s.genNeoBytes())})
		s.run(input{Kind: "dec", B: hx.Hex(s.genNeoBytes())})
		s.run(input{Kind: "i128of", Z: s.genI128Int().String()})
		s.run(input{Kind: "i128to", B: hx.Hex(c.Bytes(16))})
		if i%4 == 0 {
			s.run(input{Kind: "i128i64", Z: big.NewInt(int64(c.U64Boundary())).String()})
			s.run(input{Kind: "i128u64", Z: u64Z(c.U64Boundary()).String()})
		}
		s.run(input{Kind: "varenc", Z: u64Z(c.U64Boundary()).String()})
		s.run(input{Kind: "vardec", B: hx.Hex(s.genVarDec())})
		s.run(input{Kind: "vardec", B: hx.Hex(s.genVarDec())})
		s.run(input{Kind: "balto", Z: s.genBalance().String()})
		ver, val := s.genItem()
		s.run(input{Kind: "balfrom", Ver: ver, B: hx.Hex(val)})
		s.run(input{Kind: "balraw", B: hx.Hex(s.genRaw())})
	}
}
