package c21

import (
	"bytes"
	"fmt"
	"go/ast"
	"go/parser"
	"go/printer"
	"go/token"
	"math"
	"math/big"
	"path/filepath"
	"strconv"
	"strings"

	"github.com/ontio/ontology/common"
	"github.com/ontio/ontology/core/states"

	"verif/harness/gen"
)

// produceConsts renders coq/Gen/NeoIntConsts.v:
//   - exported constants by linking the packages (I128_SIZE, UINT64_SIZE, ScaleFactor, versions);
//   - the unexported big.Int bounds of common/int128.go (pow128, maxI128, minI128) by evaluating
//     their initialiser expressions found in the current source. The evaluator accepts exactly
//     bigPow(a, b), big.NewInt(n), new(big.Int).Sub/Add(x, y), new(big.Int).Neg(x) and references
//     to earlier such variables, and checks that bigPow still is "a ** b"; anything else makes the
//     constant `translator_broken_<name>` so that Props/C21.v no longer compiles.
func produceConsts(repo string) ([]byte, []string) {
	var errs []string
	cs := []gen.Const{
		{Name: "I128_SIZE", Type: "nat", Value: fmt.Sprint(common.I128_SIZE), Comment: "common.I128_SIZE"},
		{Name: "UINT64_SIZE", Type: "nat", Value: fmt.Sprint(common.UINT64_SIZE), Comment: "common.UINT64_SIZE (width written by WriteUint64 for version-0 balances)"},
		{Name: "MaxUint64", Type: "Z", Value: fmt.Sprintf("(%d)%%Z", uint64(math.MaxUint64)), Comment: "math.MaxUint64 (big.Int.IsUint64 bound)"},
		{Name: "ScaleFactor", Type: "Z", Value: fmt.Sprintf("(%d)%%Z", int64(states.ScaleFactor)), Comment: "states.ScaleFactor"},
		{Name: "DefaultVersion", Type: "N", Value: fmt.Sprintf("(%d)%%N", int(states.DefaultVersion)), Comment: "states.DefaultVersion"},
		{Name: "ScaleDecimal9Version", Type: "N", Value: fmt.Sprintf("(%d)%%N", int(states.ScaleDecimal9Version)), Comment: "states.ScaleDecimal9Version"},
	}
	vals, exprs, err := evalInt128Vars(filepath.Join(repo, "common", "int128.go"), []string{"pow128", "maxI128", "minI128"})
	for _, name := range []string{"pow128", "maxI128", "minI128"} {
		if v, ok := vals[name]; ok && err == nil {
			cs = append(cs, gen.Const{Name: name, Type: "Z", Value: fmt.Sprintf("(%s)%%Z", v.String()), Comment: "common/int128.go: " + name + " = " + exprs[name]})
		} else {
			msg := "not found"
			if err != nil {
				msg = err.Error()
			}
			errs = append(errs, name+": "+msg)
			cs = append(cs, gen.Const{Name: "translator_broken_" + name, Type: "unit", Value: "tt", Comment: msg})
		}
	}
	return gen.EmitConsts("", cs), errs
}

func printExpr(fset *token.FileSet, n ast.Node) string {
	var b bytes.Buffer
	printer.Fprint(&b, fset, n)
	return strings.Join(strings.Fields(b.String()), " ")
}

func evalInt128Vars(path string, want []string) (map[string]*big.Int, map[string]string, error) {
	fset := token.NewFileSet()
	f, err := parser.ParseFile(fset, path, nil, 0)
	if err != nil {
		return nil, nil, err
	}
	// bigPow must still be exponentiation
	okPow := false
	for _, d := range f.Decls {
		if fd, ok := d.(*ast.FuncDecl); ok && fd.Name.Name == "bigPow" && fd.Body != nil {
			body := printExpr(fset, fd.Body)
			okPow = body == "{ r := big.NewInt(a) return r.Exp(r, big.NewInt(b), nil) }"
			if !okPow {
				return nil, nil, fmt.Errorf("bigPow has an unexpected body: %s", body)
			}
		}
	}
	if !okPow {
		return nil, nil, fmt.Errorf("bigPow not found in %s", path)
	}
	vals := map[string]*big.Int{}
	exprs := map[string]string{}
	var firstErr error
	for _, d := range f.Decls {
		gd, ok := d.(*ast.GenDecl)
		if !ok || gd.Tok != token.VAR {
			continue
		}
		for _, sp := range gd.Specs {
			vs := sp.(*ast.ValueSpec)
			for i, id := range vs.Names {
				if i >= len(vs.Values) {
					continue
				}
				v, err := evalBig(fset, vs.Values[i], vals)
				if err == nil {
					vals[id.Name] = v
					exprs[id.Name] = printExpr(fset, vs.Values[i])
				} else {
					for _, w := range want {
						if w == id.Name && firstErr == nil {
							firstErr = fmt.Errorf("%s: %v", id.Name, err)
						}
					}
				}
			}
		}
	}
	for _, w := range want {
		if _, ok := vals[w]; !ok && firstErr == nil {
			firstErr = fmt.Errorf("variable %s not found", w)
		}
	}
	return vals, exprs, firstErr
}

func intLit(e ast.Expr) (int64, bool) {
	neg := false
	if u, ok := e.(*ast.UnaryExpr); ok && u.Op == token.SUB {
		neg = true
		e = u.X
	}
	bl, ok := e.(*ast.BasicLit)
	if !ok || bl.Kind != token.INT {
		return 0, false
	}
	v, err := strconv.ParseInt(bl.Value, 0, 64)
	if err != nil {
		return 0, false
	}
	if neg {
		v = -v
	}
	return v, true
}

func evalBig(fset *token.FileSet, e ast.Expr, env map[string]*big.Int) (*big.Int, error) {
	switch x := e.(type) {
	case *ast.ParenExpr:
		return evalBig(fset, x.X, env)
	case *ast.Ident:
		if v, ok := env[x.Name]; ok {
			return new(big.Int).Set(v), nil
		}
	case *ast.CallExpr:
		fn := printExpr(fset, x.Fun)
		switch {
		case fn == "bigPow" && len(x.Args) == 2:
			a, ok1 := intLit(x.Args[0])
			b, ok2 := intLit(x.Args[1])
			if ok1 && ok2 && b >= 0 && b <= 4096 {
				return new(big.Int).Exp(big.NewInt(a), big.NewInt(b), nil), nil
			}
		case fn == "big.NewInt" && len(x.Args) == 1:
			if a, ok := intLit(x.Args[0]); ok {
				return big.NewInt(a), nil
			}
		case (fn == "new(big.Int).Sub" || fn == "new(big.Int).Add") && len(x.Args) == 2:
			a, err := evalBig(fset, x.Args[0], env)
			if err != nil {
				return nil, err
			}
			b, err := evalBig(fset, x.Args[1], env)
			if err != nil {
				return nil, err
			}
			if fn == "new(big.Int).Sub" {
				return a.Sub(a, b), nil
			}
			return a.Add(a, b), nil
		case fn == "new(big.Int).Neg" && len(x.Args) == 1:
			a, err := evalBig(fset, x.Args[0], env)
			if err != nil {
				return nil, err
			}
			return a.Neg(a), nil
		}
	}
	return nil, fmt.Errorf("unsupported initialiser %q", printExpr(fset, e))
}
