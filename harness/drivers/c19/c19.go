// Package c19: transaction codec (core/types Transaction.Deserialization, TransactionFromRawBytes,
// payload decoders, EIP-155 wrapper, MutableTransaction writer).
//
// Correspondence: every evaluated input (bytes, start offset) is recorded with the projected
// outcome of the implementation (error class or all decoded fields, Raw, measured hash range,
// Pos() afterwards) and, for EIP-155 payloads, what go-ethereum answered for the payload bytes.
// Oracle (directly on the implementation): accepted => ToArray() and a field-wise
// re-serialization equal the consumed bytes, size <= MAX_TX_SIZE, hash = sha256d of the unsigned
// prefix and unchanged when the signature section is replaced or dropped, RLP re-encoding equal to
// the payload bytes; no panic; oversize rejected.
package c19

import (
	"bytes"
	"crypto/sha256"
	"encoding/json"
	"fmt"
	"io"
	"math/big"
	"strings"

	ethcommon "github.com/ethereum/go-ethereum/common"
	ethtypes "github.com/ethereum/go-ethereum/core/types"
	"github.com/ethereum/go-ethereum/rlp"
	"github.com/ontio/ontology/common"
	"github.com/ontio/ontology/core/payload"
	"github.com/ontio/ontology/core/types"

	"verif/harness/hx"
)

func init() { hx.Register("C19", Run) }

// input is the replayable description of one evaluation.
type input struct {
	Kind  string `json:"kind"` // deser | raw | big | mut
	Label string `json:"label,omitempty"`
	Buf   string `json:"buf,omitempty"` // hex
	Start uint64 `json:"start,omitempty"`
	Real  bool   `json:"real,omitempty"` // compare the digest with the Gallina SHA-256
	// big: buffer = Pre ++ Fill^N ++ Suf
	Pre  string `json:"pre,omitempty"`
	Suf  string `json:"suf,omitempty"`
	Fill byte   `json:"fill,omitempty"`
	N    uint64 `json:"n,omitempty"`
	Raw  bool   `json:"via_raw,omitempty"` // big: through TransactionFromRawBytes
}

func (in *input) bytes() []byte {
	if in.Kind == "big" {
		b := append([]byte{}, hx.UnHex(in.Pre)...)
		b = append(b, bytes.Repeat([]byte{in.Fill}, int(in.N))...)
		return append(b, hx.UnHex(in.Suf)...)
	}
	return hx.UnHex(in.Buf)
}

// ---------- error classes (must match Model/TxCodec.v terr) ----------

func mapErr(err error, rlpFailed bool) string {
	switch {
	case err == io.ErrUnexpectedEOF:
		return "TEof"
	case err == common.ErrIrregularData:
		return "TIrregular"
	}
	m := err.Error()
	switch {
	case strings.HasPrefix(m, "wrong transaction version"):
		return "TVersion"
	case strings.HasPrefix(m, "unsupported tx type"):
		return "TTxType"
	case strings.HasPrefix(m, "unreachable code path"):
		return "TUnreachable"
	case strings.HasPrefix(m, "transaction attribute must be 0"):
		return "TAttr"
	case strings.HasPrefix(m, "transaction signature number"):
		return "TSigCount"
	case strings.HasPrefix(m, "execced max transaction size"):
		return "TOversize"
	case strings.HasPrefix(m, "invalid vm flags"):
		return "TVmFlags"
	case strings.HasPrefix(m, "[contract]"):
		return "TDeployLimit"
	case strings.HasPrefix(m, "error EIP155 get sender"):
		return "TEipSender"
	case strings.Contains(m, "is too big"):
		return "TEipBig"
	case strings.Contains(m, "is not multiple of GWei"):
		return "TEipGwei"
	case rlpFailed:
		return "TRlp"
	}
	return "TPanic (* unmapped error: " + strings.ReplaceAll(m, "*)", "* )") + " *)"
}

// ---------- go-ethereum oracle for an EIP-155 payload ----------

type ethOracle struct {
	code, enc       []byte
	nonce, gas      uint64
	gasPrice        *big.Int
	sender          []byte // nil = Sender error
	sighash, hash   []byte
	reached, rlpErr bool
}

// ethOracleFor inspects buf[start:] the way decodeEip155 reaches the payload (version, type,
// ReadVarBytes) and asks go-ethereum about the payload bytes.
func ethOracleFor(c *hx.Ctx, buf []byte, start uint64, in *input) *ethOracle {
	o := &ethOracle{}
	if uint64(len(buf)) < start+2 || buf[start+1] != byte(types.EIP155) || buf[start] != 0 {
		return o
	}
	src := common.NewZeroCopySource(buf)
	src.Skip(start + 2)
	code, err := src.ReadVarBytes()
	if err != nil {
		return o
	}
	o.reached = true
	o.code = code
	etx := new(ethtypes.Transaction)
	if err := rlp.DecodeBytes(code, etx); err != nil {
		o.rlpErr = true
		return o
	}
	enc, err := rlp.EncodeToBytes(etx)
	if err != nil {
		c.Fail("rlp-reencode-error", "go-ethereum cannot re-encode a transaction it decoded", in, err.Error(), nil)
		o.rlpErr = true
		return o
	}
	o.enc = enc
	// hypothesis rlp_canon of the theorems, validated on every RLP-decodable payload
	if !bytes.Equal(enc, code) {
		c.Fail("eip155:rlp-noncanonical", "rlp.DecodeBytes accepted a payload that rlp.EncodeToBytes does not reproduce (two byte strings, one transaction hash)",
			in, map[string]string{"payload": hx.Hex(code), "reencoded": hx.Hex(enc)}, "rlp_enc (rlp_dec b) = b")
	}
	o.nonce, o.gas, o.gasPrice = etx.Nonce(), etx.Gas(), etx.GasPrice()
	signer := ethtypes.NewEIP155Signer(etx.ChainId())
	if from, err := signer.Sender(etx); err == nil {
		o.sender = from[:]
	}
	sh := signer.Hash(etx)
	o.sighash = sh[:]
	h := etx.Hash()
	o.hash = h[:]
	return o
}

func (o *ethOracle) coq(buf []byte) string {
	if !o.reached || o.rlpErr {
		return "None"
	}
	return fmt.Sprintf("(Some (ERef %s %s %d %s %d %s %s %s))", ref(buf, o.code), ref(buf, o.enc), o.nonce,
		hx.CoqNBig(o.gasPrice), o.gas, hx.CoqOpt(o.sender != nil, hx.CoqBytes(o.sender)), hx.CoqBytes(o.sighash), hx.CoqBytes(o.hash))
}

// ---------- compact printing of input buffers ----------

// bases are the valid transactions of the run, defined once in the header of cases.v as
// base_<k>; a buffer that shares a long prefix and suffix with one of them is printed as an edit.
var bases [][]byte

func coqBuf(buf []byte) string {
	best, bp, bs := -1, 0, 0
	for k, b := range bases {
		p := 0
		for p < len(b) && p < len(buf) && b[p] == buf[p] {
			p++
		}
		s := 0
		for s < len(b)-p && s < len(buf)-p && b[len(b)-1-s] == buf[len(buf)-1-s] {
			s++
		}
		if p+s > bp+bs {
			best, bp, bs = k, p, s
		}
	}
	if best < 0 || len(buf) < 24 || len(buf)-(bp+bs) > len(buf)/3 {
		return hx.CoqBytes(buf)
	}
	return fmt.Sprintf("(spl base_%d %d %d %s)", best, bp, len(bases[best])-bp-bs, hx.CoqBytes(buf[bp:len(buf)-bs]))
}

func registerBases(c *hx.Ctx, bs [][]byte) {
	bases = bs
	for k, b := range bs {
		c.CoqHeader(fmt.Sprintf("Definition base_%d : bytes := %s.", k, hx.CoqBytes(b)))
	}
}

// ---------- projection of an accepted transaction ----------

// ref prints a byte string of the outcome as a reference into buf when it occurs there
// (the decoder is zero-copy), else as a literal.
func ref(buf, data []byte) string {
	if len(data) == 0 {
		return "(Lit [])"
	}
	if i := bytes.Index(buf, data); i >= 0 {
		return fmt.Sprintf("(Sl %d %d)", i, len(data))
	}
	return "(Lit " + hx.CoqBytes(data) + ")"
}

func deployFlags(dc *payload.DeployCode) byte {
	sink := common.NewZeroCopySink(nil)
	sink.WriteVarBytes(dc.GetRawCode())
	n := len(sink.Bytes())
	return dc.ToArray()[n]
}

func coqPayload(buf []byte, tx *types.Transaction) string {
	switch p := tx.Payload.(type) {
	case *payload.InvokeCode:
		return fmt.Sprintf("(OInvoke %s)", ref(buf, p.Code))
	case *payload.DeployCode:
		return fmt.Sprintf("(ODeploy %s %d %s %s %s %s %s)", ref(buf, p.GetRawCode()), deployFlags(p), ref(buf, []byte(p.Name)),
			ref(buf, []byte(p.Version)), ref(buf, []byte(p.Author)), ref(buf, []byte(p.Email)), ref(buf, []byte(p.Description)))
	case *payload.EIP155Code:
		return "OEip"
	}
	return "OEip (* unknown payload type *)"
}

func sha256d(b []byte) [32]byte {
	h := sha256.Sum256(b)
	return sha256.Sum256(h[:])
}

func encodeSigs(sigs []types.RawSig) []byte {
	sink := common.NewZeroCopySink(nil)
	sink.WriteVarUint(uint64(len(sigs)))
	for i := range sigs {
		sigs[i].Serialization(sink)
	}
	return sink.Bytes()
}

// fieldwise re-serializes an accepted transaction from its exported fields with the sink
// primitives and the payload's own Serialization (what MutableTransaction.serialize does, with the
// raw signature scripts).
func fieldwise(tx *types.Transaction) []byte {
	sink := common.NewZeroCopySink(nil)
	sink.WriteByte(tx.Version)
	sink.WriteByte(byte(tx.TxType))
	if tx.TxType == types.EIP155 {
		tx.Payload.Serialization(sink)
		return sink.Bytes()
	}
	sink.WriteUint32(tx.Nonce)
	sink.WriteUint64(tx.GasPrice)
	sink.WriteUint64(tx.GasLimit)
	sink.WriteBytes(tx.Payer[:])
	tx.Payload.Serialization(sink)
	sink.WriteVarUint(0)
	sink.WriteBytes(encodeSigs(tx.Sigs))
	return sink.Bytes()
}

// measureHashPrefix finds p with sha256d(consumed[:p]) == hash: first the expected position
// (consumed minus the re-encoded signature section), then every p for small inputs.
func measureHashPrefix(consumed []byte, tx *types.Transaction) int {
	h := tx.Hash()
	exp := len(consumed) - len(encodeSigs(tx.Sigs))
	if exp >= 0 && sha256d(consumed[:exp]) == h {
		return exp
	}
	if len(consumed) <= 4096 {
		for p := 0; p <= len(consumed); p++ {
			if sha256d(consumed[:p]) == h {
				return p
			}
		}
	}
	return -1
}

type result struct {
	accepted bool
	errClass string
	hash     common.Uint256
	consumed []byte
	hpre     int
	tx       *types.Transaction
}

// evalDeser runs Transaction.Deserialization on buf at start, applies the oracle and emits the case.
func evalDeser(c *hx.Ctx, in *input, emit bool) *result {
	buf := in.bytes()
	c.Eval()
	eo := ethOracleFor(c, buf, in.Start, in)
	var tx *types.Transaction
	var err error
	var pos uint64
	viaRaw := in.Kind == "raw" || (in.Kind == "big" && in.Raw)
	panicked, msg := hx.Recover(func() {
		if viaRaw {
			tx, err = types.TransactionFromRawBytes(buf)
			return
		}
		src := common.NewZeroCopySource(buf)
		src.Skip(in.Start)
		tx = new(types.Transaction)
		err = tx.Deserialization(src)
		pos = src.Pos()
	})
	res := &result{}
	if panicked {
		c.Fail("panic:tx-decode", "decoding a transaction panicked", in, msg, "error or transaction")
		return res
	}
	var out string
	if err != nil {
		res.errClass = mapErr(err, eo.reached && eo.rlpErr)
		out = "(OErr " + res.errClass + ")"
		c.Count("outcome:" + strings.Fields(res.errClass)[0])
		if viaRaw && len(buf) <= types.MAX_TX_SIZE {
			// position unknown through this entry point
		}
	} else {
		res.accepted = true
		res.tx = tx
		res.hash = tx.Hash()
		var consumed []byte
		if viaRaw {
			consumed = tx.ToArray() // checked against the input below
			if !bytes.HasPrefix(buf, consumed) {
				c.Fail("reserialize-differs", "ToArray() of an accepted transaction is not a prefix of the input given to TransactionFromRawBytes", in, hx.Hex(consumed), "prefix of input")
			}
		} else {
			consumed = buf[in.Start:pos]
		}
		res.consumed = consumed
		kind := "ont"
		if tx.TxType == types.EIP155 {
			kind = "eip155"
		}
		c.Count(fmt.Sprintf("outcome:accepted-%s", kind))
		c.Count(fmt.Sprintf("accepted-sigs:%d", len(tx.Sigs)))
		oracleAccepted(c, in, tx, consumed, eo, res)
		if in.Kind == "big" {
			hp := res.hpre
			if hp < 0 {
				hp = 0
			}
			out = fmt.Sprintf("(OAccepted %d)", hp)
		} else {
			var sg []string
			for _, s := range tx.Sigs {
				sg = append(sg, fmt.Sprintf("(%s, %s)", ref(buf, s.Invoke), ref(buf, s.Verify)))
			}
			hp := res.hpre
			if hp < 0 {
				hp = 0
			}
			hashLit := "[]"
			if tx.TxType == types.EIP155 || in.Real {
				hashLit = hx.CoqBytes(res.hash[:])
			}
			out = fmt.Sprintf("(OTx %d %d %d %d %d %s %s %s %s %d %s)", tx.Version, byte(tx.TxType), tx.Nonce, tx.GasPrice, tx.GasLimit,
				hx.CoqBytes(tx.Payer[:]), coqPayload(buf, tx), hx.CoqList(sg), ref(buf, tx.Raw), hp, hashLit)
		}
	}
	if viaRaw && len(buf) > types.MAX_TX_SIZE && err == nil {
		c.Fail("oversize-accepted", "TransactionFromRawBytes accepted an input above MAX_TX_SIZE", in, len(buf), "rejected")
	}
	if !emit {
		return res
	}
	switch {
	case in.Kind == "big" && in.Raw:
		c.Case(fmt.Sprintf("CRawBig %s %d %d %s %s", hx.CoqBytes(hx.UnHex(in.Pre)), in.Fill, in.N, hx.CoqBytes(hx.UnHex(in.Suf)), out), in)
	case in.Kind == "big":
		c.Case(fmt.Sprintf("CDeserBig %s %d %d %s %d %s %d", hx.CoqBytes(hx.UnHex(in.Pre)), in.Fill, in.N, hx.CoqBytes(hx.UnHex(in.Suf)), in.Start, out, pos), in)
	case in.Kind == "raw":
		c.Case(fmt.Sprintf("CRaw %s %s %s", coqBuf(buf), eo.coq(buf), out), in)
	default:
		c.Case(fmt.Sprintf("CDeser %s %s %d %s %s %d", hx.CoqBool(in.Real), coqBuf(buf), in.Start, eo.coq(buf), out, pos), in)
	}
	if len(buf) > 2 {
		c.Nontrivial(in.Kind + in.Buf + in.Pre + fmt.Sprint(in.Start, in.N))
	}
	return res
}

// oracleAccepted: the property clauses on one accepted transaction.
func oracleAccepted(c *hx.Ctx, in *input, tx *types.Transaction, consumed []byte, eo *ethOracle, res *result) {
	// (1) re-serialization = consumed bytes
	var arr []byte
	if p, msg := hx.Recover(func() { arr = tx.ToArray() }); p {
		c.Fail("panic:toarray", "ToArray of an accepted transaction panicked", in, msg, nil)
		return
	}
	if !bytes.Equal(arr, consumed) {
		cl := "reserialize-differs"
		if tx.TxType == types.EIP155 {
			cl = "eip155:reserialize-differs"
		}
		c.Fail(cl, "ToArray() of an accepted transaction differs from the bytes consumed by the decoder", in,
			map[string]string{"toarray": hx.Hex(arr), "consumed": hx.Hex(consumed), "hash": hx.Hex(res.hash[:])}, "ToArray() == consumed bytes")
	}
	var fw []byte
	if p, msg := hx.Recover(func() { fw = fieldwise(tx) }); p {
		c.Fail("panic:fieldwise", "field-wise serialization of an accepted transaction panicked", in, msg, nil)
	} else if !bytes.Equal(fw, consumed) {
		c.Fail("fieldwise-differs", "serializing the decoded fields does not reproduce the consumed bytes (non-canonical encoding accepted)", in,
			map[string]string{"fieldwise": hx.Hex(fw), "consumed": hx.Hex(consumed)}, "field-wise serialization == consumed bytes")
	}
	// (2) size
	if len(consumed) > types.MAX_TX_SIZE {
		c.Fail("oversize-accepted", "a transaction longer than MAX_TX_SIZE was accepted", in, len(consumed), types.MAX_TX_SIZE)
	}
	// (3) decoding the consumed bytes alone gives the same transaction hash and bytes
	if t2, err := types.TransactionFromRawBytes(append([]byte{}, consumed...)); err != nil {
		c.Fail("consumed-not-accepted", "the consumed bytes of an accepted transaction are rejected on their own", in, err.Error(), "accepted")
	} else if t2.Hash() != res.hash || !bytes.Equal(t2.ToArray(), consumed) {
		c.Fail("hash-unstable", "decoding the consumed bytes again gives another hash or encoding", in, hx.Hex(t2.ToArray()), hx.Hex(consumed))
	}
	if tx.TxType == types.EIP155 {
		res.hpre = 0
		if eo.hash == nil || !bytes.Equal(eo.hash, res.hash[:]) {
			c.Fail("eip155:hash", "hash of an EIP-155 transaction is not go-ethereum's Hash() of the payload", in, hx.Hex(res.hash[:]), hx.Hex(eo.hash))
		}
		return
	}
	// (4) the hash is sha256d of the unsigned prefix
	res.hpre = measureHashPrefix(consumed, tx)
	sigLen := len(encodeSigs(tx.Sigs))
	if res.hpre < 0 || res.hpre != len(consumed)-sigLen {
		c.Fail("hash-not-unsigned-prefix", "the transaction hash is not sha256(sha256(unsigned part))", in,
			map[string]interface{}{"measured_prefix": res.hpre, "hash": hx.Hex(res.hash[:])}, len(consumed)-sigLen)
		return
	}
	// (5) the hash does not depend on the signature section
	unsigned := consumed[:res.hpre]
	variants := [][]byte{
		append(append([]byte{}, unsigned...), 0),
		append(append([]byte{}, unsigned...), 1, 2, 0xaa, 0xbb, 3, 1, 2, 3),
	}
	for _, v := range variants {
		t3, err := types.TransactionFromRawBytes(v)
		if err != nil {
			c.Count("sigswap-rejected")
			continue
		}
		c.Count("sigswap-checked")
		if t3.Hash() != res.hash {
			c.Fail("hash-depends-on-signatures", "replacing the signature section changed the transaction hash", in, hx.Hex(v), hx.Hex(res.hash[:]))
		}
	}
	// (6) through the mutable form and back: same hash (serializeUnsigned inverts deserializeOntUnsigned)
	var mh common.Uint256
	var merr error
	if p, msg := hx.Recover(func() {
		m, e := tx.IntoMutable()
		if e != nil {
			merr = e
			return
		}
		mh = m.Hash()
	}); p {
		c.Fail("panic:into-mutable", "IntoMutable/Hash panicked on an accepted transaction", in, msg, nil)
	} else if merr != nil {
		c.Count("into-mutable:sig-scripts-unparsable")
	} else {
		c.Count("into-mutable:checked")
		if mh != res.hash && mh != common.UINT256_EMPTY {
			c.Fail("mutable-roundtrip-hash", "IntoMutable().Hash() differs from the hash of the decoded transaction", in, hx.Hex(mh[:]), hx.Hex(res.hash[:]))
		} else if mh == common.UINT256_EMPTY {
			c.Count("into-mutable:reserialize-rejected")
		}
	}
}

// evalMut: MutableTransaction without signatures -> IntoImmutable -> ToArray, against the model's writer.
func evalMut(c *hx.Ctx, m *types.MutableTransaction) {
	c.Eval()
	tx, err := m.IntoImmutable()
	if err != nil {
		c.Count("mut:rejected")
		return
	}
	c.Count("mut:ok")
	arr := tx.ToArray()
	c.Case(fmt.Sprintf("CMut %d %d %d %d %d %s %s %s", m.Version, byte(m.TxType), m.Nonce, m.GasPrice, m.GasLimit, hx.CoqBytes(m.Payer[:]),
		coqPayload(arr, tx), hx.CoqBytes(arr)), map[string]string{"kind": "mut", "buf": hx.Hex(arr)})
}

func jsonUnmarshal(raw json.RawMessage, v interface{}) error { return json.Unmarshal(raw, v) }

var _ = ethcommon.Address{}
