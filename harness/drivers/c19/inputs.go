package c19

import (
	"bytes"
	"crypto/ecdsa"
	"crypto/elliptic"
	"crypto/sha256"
	"fmt"
	"math/big"

	ethcommon "github.com/ethereum/go-ethereum/common"
	ethtypes "github.com/ethereum/go-ethereum/core/types"
	ethcrypto "github.com/ethereum/go-ethereum/crypto"
	"github.com/ethereum/go-ethereum/rlp"
	"github.com/ontio/ontology-crypto/ec"
	"github.com/ontio/ontology-crypto/keypair"
	ontsig "github.com/ontio/ontology-crypto/signature"
	"github.com/ontio/ontology/common"
	"github.com/ontio/ontology/common/constants"
	"github.com/ontio/ontology/core/payload"
	"github.com/ontio/ontology/core/signature"
	"github.com/ontio/ontology/core/types"
	"github.com/ontio/ontology/core/utils"

	"verif/harness/hx"
)

// ---------- deterministic keys and signatures (all randomness from c.Rng) ----------

type acct struct {
	priv *ecdsa.PrivateKey
	pub  keypair.PublicKey
	addr common.Address
}

func newAcct(c *hx.Ctx) *acct {
	curve := elliptic.P256()
	for {
		d := new(big.Int).SetBytes(c.Bytes(32))
		d.Mod(d, curve.Params().N)
		if d.Sign() == 0 {
			continue
		}
		x, y := curve.ScalarBaseMult(d.Bytes())
		priv := &ecdsa.PrivateKey{D: d, PublicKey: ecdsa.PublicKey{Curve: curve, X: x, Y: y}}
		pub := &ec.PublicKey{Algorithm: ec.ECDSA, PublicKey: &priv.PublicKey}
		return &acct{priv: priv, pub: pub, addr: types.AddressFromPubKey(pub)}
	}
}

// detSign: ECDSA over P-256 with SHA-256 (scheme SHA256withECDSA), nonce derived from key and message.
func detSign(priv *ecdsa.PrivateKey, msg []byte) []byte {
	digest := sha256.Sum256(msg)
	n := priv.Curve.Params().N
	for ctr := 0; ; ctr++ {
		h := sha256.New()
		h.Write(priv.D.Bytes())
		h.Write(digest[:])
		h.Write([]byte{byte(ctr)})
		k := new(big.Int).SetBytes(h.Sum(nil))
		k.Mod(k, n)
		if k.Sign() == 0 {
			continue
		}
		x, _ := priv.Curve.ScalarBaseMult(k.Bytes())
		r := new(big.Int).Mod(x, n)
		if r.Sign() == 0 {
			continue
		}
		kinv := new(big.Int).ModInverse(k, n)
		s := new(big.Int).Mul(r, priv.D)
		s.Add(s, new(big.Int).SetBytes(digest[:]))
		s.Mul(s, kinv)
		s.Mod(s, n)
		if s.Sign() == 0 {
			continue
		}
		b, err := ontsig.Serialize(&ontsig.Signature{Scheme: ontsig.SHA256withECDSA, Value: &ontsig.DSASignature{R: r, S: s, Curve: priv.Curve}})
		if err != nil {
			panic(err)
		}
		return b
	}
}

// signWith appends one signature entry (single key, or m-of-n when several accounts are given).
func signWith(c *hx.Ctx, m *types.MutableTransaction, mOf int, as ...*acct) {
	h := m.Hash()
	var pubs []keypair.PublicKey
	var data [][]byte
	for i, a := range as {
		pubs = append(pubs, a.pub)
		if i < mOf {
			sg := detSign(a.priv, h[:])
			if err := signature.Verify(a.pub, h[:], sg); err != nil {
				c.Note("driver self-check: deterministic signature does not verify: " + err.Error())
			}
			data = append(data, sg)
		}
	}
	m.Sigs = append(m.Sigs, types.Sig{PubKeys: pubs, M: uint16(mOf), SigData: data})
}

func ethKey(c *hx.Ctx) *ecdsa.PrivateKey {
	for {
		k, err := ethcrypto.ToECDSA(c.Bytes(32))
		if err == nil {
			return k
		}
	}
}

// ---------- valid transactions ----------

type validTx struct {
	label string
	raw   []byte
}

func randStr(c *hx.Ctx, n int) string { return string(c.Bytes(n)) }

func mustImmutable(c *hx.Ctx, m *types.MutableTransaction, label string) *validTx {
	tx, err := m.IntoImmutable()
	if err != nil {
		c.Note("generator: " + label + " not accepted: " + err.Error())
		return nil
	}
	return &validTx{label: label, raw: tx.ToArray()}
}

func genInvoke(c *hx.Ctx, as []*acct, nsig int, wasm bool, codeLen int) *validTx {
	var m *types.MutableTransaction
	label := "invoke-neo"
	switch {
	case wasm:
		m, _ = utils.NewWasmSmartContractTransaction(c.Rng.Uint64()%5000, c.U64Boundary(), c.Bytes(codeLen))
		label = "invoke-wasm"
	case codeLen < 0:
		code, err := utils.BuildNativeInvokeCode(common.Address{0, 0, 0, 0, 0, 0, 0, 0, 0, 0, 0, 0, 0, 0, 0, 0, 0, 0, 0, 1}, 0, "balanceOf", []interface{}{as[0].addr[:]})
		if err != nil {
			panic(err)
		}
		m = utils.NewInvokeTransaction(code)
		label = "invoke-native"
	default:
		m = utils.NewInvokeTransaction(c.Bytes(codeLen))
	}
	m.Nonce = uint32(c.U64Boundary())
	if !wasm {
		m.GasPrice = c.U64Boundary()
		m.GasLimit = c.U64Boundary()
	}
	m.Payer = as[0].addr
	addSigs(c, m, as, nsig)
	return mustImmutable(c, m, fmt.Sprintf("%s/sigs=%d", label, nsig))
}

func addSigs(c *hx.Ctx, m *types.MutableTransaction, as []*acct, nsig int) {
	for i := 0; i < nsig; i++ {
		if i%3 == 2 && len(as) >= 3 {
			signWith(c, m, 2, as[0], as[1], as[2])
		} else {
			signWith(c, m, 1, as[i%len(as)])
		}
	}
}

func genDeploy(c *hx.Ctx, as []*acct, nsig int, flags byte, codeLen int, lens [5]int) *validTx {
	dc, err := payload.CreateDeployCode(c.Bytes(codeLen), uint32(flags), c.Bytes(lens[0]), c.Bytes(lens[1]), c.Bytes(lens[2]), c.Bytes(lens[3]), c.Bytes(lens[4]))
	if err != nil {
		c.Note("generator: CreateDeployCode: " + err.Error())
		return nil
	}
	m := &types.MutableTransaction{TxType: types.Deploy, Payload: dc, Nonce: uint32(c.U64Boundary()), GasPrice: c.U64Boundary(), GasLimit: c.U64Boundary(), Payer: as[0].addr}
	addSigs(c, m, as, nsig)
	return mustImmutable(c, m, fmt.Sprintf("deploy/flags=%d/sigs=%d", flags, nsig))
}

type eipSpec struct {
	nonce    uint64
	gasPrice *big.Int
	gas      uint64
	to       *ethcommon.Address
	value    *big.Int
	data     []byte
	chainID  int64
	homestead bool
}

func wrapEip(rlpBytes []byte) []byte {
	sink := common.NewZeroCopySink(nil)
	sink.WriteByte(0)
	sink.WriteByte(byte(types.EIP155))
	sink.WriteVarBytes(rlpBytes)
	return sink.Bytes()
}

func genEip(c *hx.Ctx, key *ecdsa.PrivateKey, sp eipSpec) (*ethtypes.Transaction, []byte) {
	var etx *ethtypes.Transaction
	if sp.to == nil {
		etx = ethtypes.NewContractCreation(sp.nonce, sp.value, sp.gas, sp.gasPrice, sp.data)
	} else {
		etx = ethtypes.NewTransaction(sp.nonce, *sp.to, sp.value, sp.gas, sp.gasPrice, sp.data)
	}
	var signer ethtypes.Signer = ethtypes.NewEIP155Signer(big.NewInt(sp.chainID))
	if sp.homestead {
		signer = ethtypes.HomesteadSigner{}
	}
	signed, err := ethtypes.SignTx(etx, signer, key)
	if err != nil {
		panic(err)
	}
	b, err := rlp.EncodeToBytes(signed)
	if err != nil {
		panic(err)
	}
	return signed, wrapEip(b)
}

func randEipSpec(c *hx.Ctx) eipSpec {
	sp := eipSpec{nonce: uint64(c.Intn(1000)), gasPrice: new(big.Int).Mul(big.NewInt(int64(c.Intn(5000))), big.NewInt(constants.GWei)),
		gas: uint64(21000 + c.Intn(100000)), value: big.NewInt(int64(c.Intn(1 << 30))), data: c.Bytes(c.Intn(40)), chainID: int64(1 + c.Intn(6000))}
	if c.Intn(4) != 0 {
		a := ethcommon.BytesToAddress(c.Bytes(20))
		sp.to = &a
	}
	return sp
}

// ---------- structured re-encoding with one non-minimal variable-length integer ----------

// vwriter writes the Ontology transaction format; the k-th variable-length integer (counted from 0)
// is written in the non-minimal form `form` (0xfd, 0xfe, 0xff) when target == k.
type vwriter struct {
	sink   *common.ZeroCopySink
	count  int
	target int
	form   byte
	hit    bool
}

func (w *vwriter) varuint(v uint64) {
	k := w.count
	w.count++
	if k == w.target {
		min := byte(0)
		switch {
		case v < 0xfd:
			min = 0
		case v <= 0xffff:
			min = 0xfd
		case v <= 0xffffffff:
			min = 0xfe
		default:
			min = 0xff
		}
		if w.form > min || (min == 0 && w.form >= 0xfd) {
			w.hit = true
			w.sink.WriteByte(w.form)
			switch w.form {
			case 0xfd:
				w.sink.WriteUint16(uint16(v))
			case 0xfe:
				w.sink.WriteUint32(uint32(v))
			default:
				w.sink.WriteUint64(v)
			}
			return
		}
	}
	w.sink.WriteVarUint(v)
}

func (w *vwriter) varbytes(b []byte) {
	w.varuint(uint64(len(b)))
	w.sink.WriteBytes(b)
}

// reencode writes tx again field by field; returns the bytes, the number of varints and whether the
// targeted one was made non-minimal.
func reencode(tx *types.Transaction, target int, form byte) ([]byte, int, bool) {
	w := &vwriter{sink: common.NewZeroCopySink(nil), target: target, form: form}
	w.sink.WriteByte(tx.Version)
	w.sink.WriteByte(byte(tx.TxType))
	if tx.TxType == types.EIP155 {
		b, _ := rlp.EncodeToBytes(tx.Payload.(*payload.EIP155Code).EIPTx)
		w.varbytes(b)
		return w.sink.Bytes(), w.count, w.hit
	}
	w.sink.WriteUint32(tx.Nonce)
	w.sink.WriteUint64(tx.GasPrice)
	w.sink.WriteUint64(tx.GasLimit)
	w.sink.WriteBytes(tx.Payer[:])
	switch p := tx.Payload.(type) {
	case *payload.InvokeCode:
		w.varbytes(p.Code)
	case *payload.DeployCode:
		w.varbytes(p.GetRawCode())
		w.sink.WriteByte(deployFlags(p))
		w.varbytes([]byte(p.Name))
		w.varbytes([]byte(p.Version))
		w.varbytes([]byte(p.Author))
		w.varbytes([]byte(p.Email))
		w.varbytes([]byte(p.Description))
	}
	w.varuint(0)
	w.varuint(uint64(len(tx.Sigs)))
	for _, s := range tx.Sigs {
		w.varbytes(s.Invoke)
		w.varbytes(s.Verify)
	}
	return w.sink.Bytes(), w.count, w.hit
}

// ---------- non-canonical RLP variants of an Ethereum transaction ----------

func rlpItem(v interface{}) []byte {
	b, err := rlp.EncodeToBytes(v)
	if err != nil {
		panic(err)
	}
	return b
}

func rlpList(items [][]byte, longForm bool) []byte {
	body := bytes.Join(items, nil)
	n := len(body)
	var hdr []byte
	switch {
	case n < 56 && !longForm:
		hdr = []byte{byte(0xc0 + n)}
	case n < 256 && !(longForm && n >= 56):
		hdr = []byte{0xf8, byte(n)}
	case n < 65536:
		hdr = []byte{0xf9, byte(n >> 8), byte(n)}
	default:
		hdr = []byte{0xfa, byte(n >> 16), byte(n >> 8), byte(n)}
	}
	return append(hdr, body...)
}

// payloadOf returns the content of an RLP string item (single byte, short or long form).
func rlpContent(item []byte) []byte {
	_, content, _, err := rlp.Split(item)
	if err != nil {
		return nil
	}
	return content
}

func rlpStringNonCanon(content []byte, how int) []byte {
	n := len(content)
	switch how {
	case 0: // leading zero byte (integers)
		c2 := append([]byte{0}, content...)
		return append([]byte{byte(0x80 + len(c2))}, c2...)
	case 1: // long form where short form is required
		return append([]byte{0xb8, byte(n)}, content...)
	case 2: // single byte < 0x80 with a length prefix
		return append([]byte{byte(0x80 + n)}, content...)
	default: // two-byte long form
		return append([]byte{0xb9, 0, byte(n)}, content...)
	}
}

type rlpVariant struct {
	label string
	rlp   []byte
}

func eipRlpVariants(signed *ethtypes.Transaction) []rlpVariant {
	v, r, s := signed.RawSignatureValues()
	var to interface{} = []byte{}
	if signed.To() != nil {
		to = signed.To()[:]
	}
	fields := []interface{}{signed.Nonce(), signed.GasPrice(), signed.Gas(), to, signed.Value(), signed.Data(), v, r, s}
	names := []string{"nonce", "gasprice", "gas", "to", "value", "data", "v", "r", "s"}
	var items [][]byte
	for _, f := range fields {
		items = append(items, rlpItem(f))
	}
	var out []rlpVariant
	out = append(out, rlpVariant{"canonical-rebuilt", rlpList(items, false)})
	out = append(out, rlpVariant{"list-long-form", rlpList(items, true)})
	for i := range items {
		content := rlpContent(items[i])
		for how := 0; how < 4; how++ {
			if how == 2 && !(len(content) == 1 && content[0] < 0x80) {
				continue
			}
			alt := append([][]byte{}, items...)
			alt[i] = rlpStringNonCanon(content, how)
			out = append(out, rlpVariant{fmt.Sprintf("%s-noncanon-%d", names[i], how), rlpList(alt, false)})
		}
		if len(content) == 0 {
			alt := append([][]byte{}, items...)
			alt[i] = []byte{0xc0} // empty list instead of empty string
			out = append(out, rlpVariant{names[i] + "-empty-list", rlpList(alt, false)})
		}
	}
	extra := append(append([][]byte{}, items...), []byte{0x80})
	out = append(out, rlpVariant{"extra-element", rlpList(extra, false)})
	out = append(out, rlpVariant{"missing-element", rlpList(items[:8], false)})
	canon := rlpList(items, false)
	out = append(out, rlpVariant{"trailing-bytes-in-payload", append(append([]byte{}, canon...), 0x80)})
	out = append(out, rlpVariant{"wrapped-as-string", append([]byte{0xb8, byte(len(canon))}, canon...)})
	return out
}
