package c19

import (
	"bytes"
	"fmt"
	"math/big"

	ethcommon "github.com/ethereum/go-ethereum/common"
	"github.com/ontio/ontology/common"
	"github.com/ontio/ontology/common/constants"
	"github.com/ontio/ontology/core/payload"
	"github.com/ontio/ontology/core/types"

	"verif/harness/hx"
)

type runner struct {
	c *hx.Ctx
	// hash -> hashed bytes (unsigned part / whole EIP-155 encoding) of accepted inputs
	seen map[common.Uint256][]byte
}

// eval runs one input; tracks malleability across all accepted inputs of the run.
func (r *runner) eval(in *input, emit bool) *result {
	res := evalDeser(r.c, in, emit)
	if res.accepted && res.hpre >= 0 {
		hashed := res.consumed
		if res.tx.TxType != types.EIP155 {
			hashed = res.consumed[:res.hpre]
		}
		if old, ok := r.seen[res.hash]; ok {
			if !bytes.Equal(old, hashed) {
				r.c.Fail("malleable-encoding", "two accepted inputs with different hashed content have the same transaction hash", in,
					map[string]string{"first": hx.Hex(old), "second": hx.Hex(hashed), "hash": hx.Hex(res.hash[:])}, "one encoding per hash")
			}
		} else if len(hashed) < 4096 {
			r.seen[res.hash] = append([]byte{}, hashed...)
		}
	}
	return res
}

func (r *runner) deser(label string, buf []byte, start uint64, emit bool) *result {
	return r.eval(&input{Kind: "deser", Label: label, Buf: hx.Hex(buf), Start: start}, emit)
}

func header(ty byte, nonce uint32, gp, gl uint64, payer []byte) []byte {
	s := common.NewZeroCopySink(nil)
	s.WriteByte(0)
	s.WriteByte(ty)
	s.WriteUint32(nonce)
	s.WriteUint64(gp)
	s.WriteUint64(gl)
	s.WriteBytes(payer)
	return s.Bytes()
}

func varuint(v uint64) []byte {
	s := common.NewZeroCopySink(nil)
	s.WriteVarUint(v)
	return s.Bytes()
}

func cat(parts ...[]byte) []byte { return bytes.Join(parts, nil) }

func Run(c *hx.Ctx) {
	c.CoqModule("Corr.C19")
	r := &runner{c: c, seen: map[common.Uint256][]byte{}}
	var rin input
	if c.ReplayInput(&rin) && rin.Kind != "" {
		r.eval(&rin, true)
		return
	}
	as := []*acct{newAcct(c), newAcct(c), newAcct(c), newAcct(c)}
	ek := ethKey(c)

	// ---- 1. valid transactions of all kinds ----
	var valids []*validTx
	add := func(v *validTx) {
		if v != nil {
			valids = append(valids, v)
		}
	}
	for _, n := range []int{0, 1, 2, 3} {
		add(genInvoke(c, as, n, false, []int{0, 1, 30, 60}[n]))
	}
	add(genInvoke(c, as, 1, false, -1)) // native invoke code from core/utils
	add(genInvoke(c, as, 1, true, 24))  // wasm invoke
	add(genInvoke(c, as, 0, false, 252))
	add(genInvoke(c, as, 0, false, 253)) // first 3-byte length prefix
	add(genInvoke(c, as, 1, false, 300))
	add(genInvoke(c, as, 16, false, 5)) // maximum number of signature entries
	add(genDeploy(c, as, 0, 1, 10, [5]int{3, 1, 4, 0, 9}))
	add(genDeploy(c, as, 1, 3, 40, [5]int{0, 0, 0, 0, 0}))
	add(genDeploy(c, as, 2, 0, 1, [5]int{252, 252, 252, 252, 300}))
	add(genDeploy(c, as, 1, 1, 0, [5]int{1, 2, 3, 4, 5}))
	for i := 0; i < c.N(4, 30); i++ {
		add(genInvoke(c, as, c.Intn(3), c.Intn(4) == 0, c.Intn(80)))
		add(genDeploy(c, as, c.Intn(2), []byte{0, 1, 3}[c.Intn(3)], c.Intn(50), [5]int{c.Intn(12), c.Intn(12), c.Intn(12), c.Intn(12), c.Intn(40)}))
	}
	nOnt := len(valids)
	var eipSigned []int
	for i := 0; i < c.N(5, 30); i++ {
		sp := randEipSpec(c)
		if i == 0 {
			sp.data, sp.to = nil, nil // smallest: contract creation without data
			sp.value = big.NewInt(0)
		}
		_, raw := genEip(c, ek, sp)
		eipSigned = append(eipSigned, len(valids))
		valids = append(valids, &validTx{label: "eip155", raw: raw})
	}
	var bs [][]byte
	for _, v := range valids {
		bs = append(bs, v.raw)
	}
	registerBases(c, bs)
	for _, raw := range c.CorpusInputs() {
		var in input
		if jsonUnmarshal(raw, &in) == nil && in.Kind != "" {
			r.eval(&in, true)
		}
	}
	for i, v := range valids {
		res := r.eval(&input{Kind: "deser", Label: "valid:" + v.label, Buf: hx.Hex(v.raw), Real: i%3 == 0 && len(v.raw) < 400}, true)
		c.Count("valid:" + v.label[:min(len(v.label), 10)])
		if !res.accepted {
			c.Note(fmt.Sprintf("generator: valid %s not accepted by Deserialization: %s", v.label, res.errClass))
		}
		c.Sample(map[string]interface{}{"kind": v.label, "bytes": hx.Hex(v.raw[:min(len(v.raw), 120)]), "len": len(v.raw), "accepted": res.accepted})
		// through TransactionFromRawBytes, with trailing bytes, and inside a larger buffer
		r.eval(&input{Kind: "raw", Label: "valid-raw:" + v.label, Buf: hx.Hex(v.raw)}, i%2 == 0)
		junk := c.Bytes(1 + c.Intn(5))
		t := r.eval(&input{Kind: "raw", Label: "trailing:" + v.label, Buf: hx.Hex(cat(v.raw, junk))}, i%4 == 0)
		if t.accepted {
			c.Count("trailing-bytes-accepted-by-TransactionFromRawBytes")
		}
		pre := c.Bytes(1 + c.Intn(7))
		if i%2 == 1 && len(pre) >= 2 {
			pre[1] = byte(types.EIP155) // the eip test must look at the current position, not the buffer start
		}
		r.deser("embedded:"+v.label, cat(pre, v.raw, junk), uint64(len(pre)), i%2 == 1)
	}

	// ---- 2. every single-byte mutation of small transactions ----
	small := []*validTx{valids[1], valids[10], valids[eipSigned[0]]}
	if !c.Quick() {
		small = append(small, valids[2], valids[11], valids[eipSigned[1]])
	}
	for _, v := range small {
		for i := range v.raw {
			for d := 1; d < 256; d++ {
				m := append([]byte{}, v.raw...)
				m[i] ^= byte(d)
				emit := c.Intn(c.N(400, 60)) == 0
				res := r.eval(&input{Kind: "deser", Label: "mut1:" + v.label, Buf: hx.Hex(m)}, emit)
				if res.accepted {
					c.Count("mut1:accepted")
				}
			}
		}
	}

	// ---- 3. a non-minimal variable-length integer at every position ----
	for i, v := range valids {
		tx, err := types.TransactionFromRawBytes(append([]byte{}, v.raw...))
		if err != nil {
			continue
		}
		_, nvar, _ := reencode(tx, -1, 0)
		for k := 0; k < nvar; k++ {
			for _, form := range []byte{0xfd, 0xfe, 0xff} {
				b, _, hit := reencode(tx, k, form)
				if !hit {
					continue
				}
				c.Count(fmt.Sprintf("nonminimal-varint:form-%x", form))
				res := r.eval(&input{Kind: "deser", Label: fmt.Sprintf("nonminimal:%s:varint#%d:%x", v.label, k, form), Buf: hx.Hex(b)},
					len(b) < c.N(200, 1400) && (i < 14 || i >= nOnt && i < nOnt+2 || c.Intn(4) == 0))
				if res.accepted {
					c.Count("nonminimal-varint:ACCEPTED")
				}
			}
		}
	}

	// ---- 4. truncations ----
	for i, v := range valids {
		if len(v.raw) > 420 {
			continue
		}
		for n := 0; n < len(v.raw); n++ {
			if i >= 14 && i < nOnt && n%7 != 0 {
				continue
			}
			r.deser("truncated:"+v.label, v.raw[:n], 0, (i < 3 || i == nOnt) && n%c.N(3, 1) == 0 || c.Intn(c.N(45, 8)) == 0)
			c.Count("truncation")
		}
	}

	// ---- 5. EIP-155: non-canonical RLP and rejected Ethereum transactions ----
	for i := 0; i < 2; i++ {
		sp := randEipSpec(c)
		if i == 0 {
			sp.value, sp.data, sp.to = big.NewInt(5), []byte{0x7f}, nil // single-byte items
			sp.nonce = 9
		}
		signed, _ := genEip(c, ek, sp)
		for _, rv := range eipRlpVariants(signed) {
			res := r.deser("rlp:"+rv.label, wrapEip(rv.rlp), 0, true)
			c.Count("rlp-variant")
			if res.accepted && rv.label != "canonical-rebuilt" {
				c.Count("rlp-variant:ACCEPTED:" + rv.label)
			}
		}
	}
	{
		gw := big.NewInt(constants.GWei)
		bad := []eipSpec{}
		sp := randEipSpec(c)
		sp.gasPrice = new(big.Int).Add(new(big.Int).Mul(big.NewInt(7), gw), big.NewInt(1)) // not a multiple of GWei
		bad = append(bad, sp)
		sp = randEipSpec(c)
		sp.nonce = 1 << 32 // above MaxUint32
		bad = append(bad, sp)
		sp = randEipSpec(c)
		sp.nonce = 1<<32 - 1 // accepted boundary
		bad = append(bad, sp)
		sp = randEipSpec(c)
		sp.gasPrice = new(big.Int).Lsh(gw, 64) // does not fit uint64
		bad = append(bad, sp)
		sp = randEipSpec(c)
		sp.gasPrice = new(big.Int).Mul(big.NewInt(18446744073), gw) // largest multiple below 2^64
		bad = append(bad, sp)
		sp = randEipSpec(c)
		sp.gasPrice = big.NewInt(0)
		bad = append(bad, sp)
		sp = randEipSpec(c)
		sp.homestead = true // unprotected (pre-EIP-155) signature: v = 27/28
		bad = append(bad, sp)
		sp = randEipSpec(c)
		sp.chainID = 1 << 40
		bad = append(bad, sp)
		for _, sp := range bad {
			_, raw := genEip(c, ek, sp)
			res := r.deser("eip155-edge", raw, 0, true)
			c.Count("eip155-edge:" + res.errClass)
			// corrupt the signature: flip a bit in s (last bytes of the RLP)
			m := append([]byte{}, raw...)
			m[len(m)-3] ^= 0x10
			r.deser("eip155-badsig", m, 0, true)
		}
		// version byte other than 0 in front of an EIP-155 payload
		_, raw := genEip(c, ek, randEipSpec(c))
		m := append([]byte{}, raw...)
		m[0] = 1
		r.deser("eip155-version", m, 0, true)
	}

	// ---- 6. hand-made Ontology-format edge cases ----
	payer := as[0].addr[:]
	hd := header(byte(types.InvokeNeo), 7, 500, 20000, payer)
	code := []byte{0x51, 0x52}
	vb := func(b []byte) []byte { return cat(varuint(uint64(len(b))), b) }
	edge := map[string][]byte{
		"attr=1":              cat(hd, vb(code), []byte{1, 0}),
		"attr=fd0000":         cat(hd, vb(code), []byte{0xfd, 0, 0, 0}),
		"attr-eof":            cat(hd, vb(code)),
		"sigs=17":             cat(hd, vb(code), []byte{0, 17}, bytes.Repeat([]byte{1, 1, 1, 1}, 17)),
		"sigs=16":             cat(hd, vb(code), []byte{0, 16}, bytes.Repeat([]byte{1, 1, 1, 1}, 16)),
		"sigs=fd1000":         cat(hd, vb(code), []byte{0, 0xfd, 16, 0}, bytes.Repeat([]byte{1, 1, 1, 1}, 16)),
		"sigs=ff..":           cat(hd, vb(code), []byte{0, 0xff, 1, 0, 0, 0, 0, 0, 0, 0x80}),
		"sig-irregular+eof":   cat(hd, vb(code), []byte{0, 1, 0xfd, 5, 0, 1}),
		"sig-verify-eof":      cat(hd, vb(code), []byte{0, 1, 1, 9, 4, 1}),
		"code-irregular+eof":  cat(hd, []byte{0xfd, 9, 0, 1, 2}),
		"code-len-huge":       cat(hd, []byte{0xff, 0xff, 0xff, 0xff, 0xff, 0xff, 0xff, 0xff, 0xff, 1, 2}),
		"version=1":           cat([]byte{1}, hd[1:], vb(code), []byte{0, 0}),
		"type=0":              cat([]byte{0, 0}, hd[2:], vb(code), []byte{0, 0}),
		"type=d4":             cat([]byte{0, 0xd4}, hd[2:], vb(code), []byte{0, 0}),
		"type=d2":             cat([]byte{0, 0xd2}, hd[2:], vb(code), []byte{0, 0}),
		"one-byte":            {0},
		"empty":               {},
		"two-bytes-d3":        {0, 0xd3},
		"d3-then-eof":         {0, 0xd3, 5, 1},
		"d3-irregular":        {0, 0xd3, 0xfd, 1, 0, 0xc0},
		"d3-empty-payload":    {0, 0xd3, 0},
		"d3-empty-list":       {0, 0xd3, 1, 0xc0},
		"version=1-type=d3":   {1, 0xd3, 1, 0xc0},
	}
	dhd := header(byte(types.Deploy), 1, 0, 0, payer)
	dep := func(flags byte, lens [5]int, descIrregular bool) []byte {
		parts := [][]byte{dhd, vb(code), {flags}}
		for i, n := range lens {
			if i == 4 && descIrregular {
				parts = append(parts, []byte{0xfd, byte(n), 0}, bytes.Repeat([]byte{'x'}, n))
			} else {
				parts = append(parts, vb(bytes.Repeat([]byte{'a' + byte(i)}, n)))
			}
		}
		parts = append(parts, []byte{0, 0})
		return cat(parts...)
	}
	for _, fl := range []byte{0, 1, 2, 3, 4, 255} {
		edge[fmt.Sprintf("deploy-flags=%d", fl)] = dep(fl, [5]int{1, 1, 1, 1, 1}, false)
	}
	for i := 0; i < 4; i++ {
		l := [5]int{2, 2, 2, 2, 2}
		l[i] = 253
		edge[fmt.Sprintf("deploy-field%d=253", i)] = dep(1, l, false)
		l[i] = 252
		edge[fmt.Sprintf("deploy-field%d=252", i)] = dep(1, l, false)
	}
	edge["deploy-desc-irregular"] = dep(1, [5]int{1, 1, 1, 1, 3}, true)
	d := dep(1, [5]int{1, 1, 1, 1, 3}, true)
	edge["deploy-desc-irregular+eof"] = d[:len(d)-4]
	d = dep(1, [5]int{1, 1, 1, 1, 3}, false)
	edge["deploy-desc-eof"] = d[:len(d)-3]
	var names []string
	for k := range edge {
		names = append(names, k)
	}
	sortStrings(names)
	for _, k := range names {
		res := r.deser("edge:"+k, edge[k], 0, true)
		c.Count("edge")
		c.Sample(map[string]interface{}{"kind": "edge:" + k, "bytes": hx.Hex(edge[k][:min(len(edge[k]), 80)]), "accepted": res.accepted, "error": res.errClass})
	}

	// ---- 7. large inputs: size limits (buffer = pre ++ fill^n ++ suf) ----
	type bigc struct {
		label    string
		pre, suf []byte
		n        uint64
		raw      bool
		emit     bool
	}
	max := uint64(types.MAX_TX_SIZE)
	inv := func(l uint64) []byte { return cat(hd, []byte{0xfe, byte(l), byte(l >> 8), byte(l >> 16), byte(l >> 24)}) }
	ovh := uint64(len(hd)) + 5 + 2
	dpre := func(l uint64) []byte { return cat(dhd, []byte{0xfe, byte(l), byte(l >> 8), byte(l >> 16), byte(l >> 24)}) }
	dsuf := func(flags byte) []byte { return []byte{flags, 0, 0, 0, 0, 0, 0, 0} }
	descPre := func(l uint64) []byte {
		return cat(dhd, vb(code), []byte{1, 0, 0, 0, 0}, []byte{0xfe, byte(l), byte(l >> 8), byte(l >> 16), byte(l >> 24)})
	}
	bigs := []bigc{
		{"invoke-size=MAX+1", inv(max - ovh + 1), []byte{0, 0}, max - ovh + 1, false, true},
		{"invoke-size=MAX+1-raw", inv(max - ovh + 1), []byte{0, 0}, max - ovh + 1, true, true},
		{"invoke-size=MAX", inv(max - ovh), []byte{0, 0}, max - ovh, false, !c.Quick()},
		{"invoke-size=MAX-raw", inv(max - ovh), []byte{0, 0}, max - ovh, true, !c.Quick()},
		{"invoke-size=MAX-with-trailing-raw", inv(max - ovh - 1), []byte{0, 0, 9}, max - ovh - 1, true, false},
		{"deploy-wasm-code=512K+1", dpre(512*1024 + 1), dsuf(3), 512*1024 + 1, false, true},
		{"deploy-wasm-code=512K", dpre(512 * 1024), dsuf(3), 512 * 1024, false, !c.Quick()},
		{"deploy-neo-code=512K+1", dpre(512*1024 + 1), dsuf(1), 512*1024 + 1, false, !c.Quick()},
		{"deploy-neo-code=1M+1", dpre(1024*1024 + 1), dsuf(1), 1024*1024 + 1, false, !c.Quick()},
		{"deploy-desc=65537", descPre(65537), []byte{0, 0}, 65537, false, true},
		{"deploy-desc=65536", descPre(65536), []byte{0, 0}, 65536, false, true},
	}
	for _, b := range bigs {
		in := &input{Kind: "big", Label: b.label, Pre: hx.Hex(b.pre), Suf: hx.Hex(b.suf), Fill: 7, N: b.n, Raw: b.raw}
		res := r.eval(in, b.emit)
		c.Count("big:" + b.label + ":" + map[bool]string{true: "accepted", false: res.errClass}[res.accepted])
	}

	// ---- 8. random byte strings (type byte biased towards the known types) ----
	for i := 0; i < c.N(300, 3000); i++ {
		b := c.Bytes(c.Intn(90))
		if len(b) >= 2 && c.Intn(4) != 0 {
			b[0] = 0
			b[1] = []byte{0xd0, 0xd1, 0xd2, 0xd3}[c.Intn(4)]
		}
		if len(b) > 46 && c.Intn(2) == 0 {
			b[46] = byte(c.Intn(8)) // plausible length prefix of the payload
		}
		r.deser("random", b, 0, i%3 == 0)
		c.Count("random")
	}

	// ---- 9. the field-wise writer (MutableTransaction.serializeUnsigned) ----
	for i := 0; i < c.N(24, 200); i++ {
		m := &types.MutableTransaction{Nonce: uint32(c.U64Boundary()), GasPrice: c.U64Boundary(), GasLimit: c.U64Boundary()}
		copy(m.Payer[:], c.Bytes(20))
		if i%2 == 0 {
			m.TxType = []types.TransactionType{types.InvokeNeo, types.InvokeWasm}[c.Intn(2)]
			m.Payload = &payload.InvokeCode{Code: c.Bytes([]int{0, 1, 20, 252, 253}[c.Intn(5)])}
		} else {
			m.TxType = types.Deploy
			dc, err := payload.CreateDeployCode(c.Bytes(c.Intn(30)), uint32([]byte{0, 1, 3}[c.Intn(3)]), c.Bytes(c.Intn(9)), c.Bytes(c.Intn(9)), c.Bytes(c.Intn(9)), c.Bytes(c.Intn(9)), c.Bytes(c.Intn(300)))
			if err != nil {
				continue
			}
			m.Payload = dc
		}
		evalMut(c, m)
	}
	_ = ethcommon.Address{}
}

func sortStrings(a []string) {
	for i := 1; i < len(a); i++ {
		for j := i; j > 0 && a[j] < a[j-1]; j-- {
			a[j], a[j-1] = a[j-1], a[j]
		}
	}
}

func min(a, b int) int {
	if a < b {
		return a
	}
	return b
}
