package c19

import (
	"fmt"
	"go/ast"
	"go/parser"
	"go/printer"
	"go/token"
	gotypes "go/types"
	"math"
	"path/filepath"
	"strings"

	"github.com/ontio/ontology/common/constants"
	"github.com/ontio/ontology/core/payload"
	"github.com/ontio/ontology/core/types"

	"verif/harness/gen"
)

// produceTxConsts renders coq/Gen/TxConsts.v: the limits and tags of the transaction codec.
// Exported constants are printed from the linked packages; the literals of validateDeployCode,
// checkVmFlags and DeployCode.VmType (unexported / inline) are read from the source with go/ast
// and evaluated with go/types. It fails closed: an unexpected shape yields
// `translator_broken_<name>` instead of the definition, so the theorems no longer compile.
func produceTxConsts(repo string) ([]byte, []string) {
	var errs []string
	cs := []gen.Const{
		{Name: "MAX_TX_SIZE", Type: "N", Value: fmt.Sprint(types.MAX_TX_SIZE), Comment: "core/types.MAX_TX_SIZE"},
		{Name: "TX_DEPLOY", Type: "N", Value: fmt.Sprint(byte(types.Deploy)), Comment: "core/types.Deploy"},
		{Name: "TX_INVOKE_NEO", Type: "N", Value: fmt.Sprint(byte(types.InvokeNeo)), Comment: "core/types.InvokeNeo"},
		{Name: "TX_INVOKE_WASM", Type: "N", Value: fmt.Sprint(byte(types.InvokeWasm)), Comment: "core/types.InvokeWasm"},
		{Name: "TX_EIP155", Type: "N", Value: fmt.Sprint(byte(types.EIP155)), Comment: "core/types.EIP155"},
		{Name: "TX_MAX_SIG_SIZE", Type: "N", Value: fmt.Sprint(constants.TX_MAX_SIG_SIZE), Comment: "common/constants.TX_MAX_SIG_SIZE"},
		{Name: "GWEI", Type: "N", Value: fmt.Sprint(constants.GWei), Comment: "common/constants.GWei"},
		{Name: "MAX_UINT32", Type: "N", Value: fmt.Sprint(uint64(math.MaxUint32)), Comment: "math.MaxUint32 (TransactionFromEIP155)"},
		{Name: "NEOVM_TYPE", Type: "N", Value: fmt.Sprint(byte(payload.NEOVM_TYPE)), Comment: "core/payload.NEOVM_TYPE"},
		{Name: "WASMVM_TYPE", Type: "N", Value: fmt.Sprint(byte(payload.WASMVM_TYPE)), Comment: "core/payload.WASMVM_TYPE"},
	}
	broken := func(name, why string) {
		errs = append(errs, name+": "+why)
		cs = append(cs, gen.Const{Name: "translator_broken_" + name, Type: "unit", Value: "tt", Comment: why})
	}

	file := "core/payload/deploy_code.go"
	fset := token.NewFileSet()
	f, err := parser.ParseFile(fset, filepath.Join(repo, file), nil, 0)
	if err != nil {
		broken("deploy_code", err.Error())
		return gen.EmitConsts("", cs), errs
	}
	// package-level constants of the file, for evaluating identifiers such as maxWasmCodeSize
	consts := map[string]string{}
	for _, d := range f.Decls {
		gd, ok := d.(*ast.GenDecl)
		if !ok || gd.Tok != token.CONST {
			continue
		}
		for _, sp := range gd.Specs {
			vs := sp.(*ast.ValueSpec)
			for i, n := range vs.Names {
				if i < len(vs.Values) {
					consts[n.Name] = exprString(fset, vs.Values[i])
				}
			}
		}
	}
	evalInt := func(e ast.Expr) (string, error) {
		src := exprString(fset, e)
		for i := 0; i < 4; i++ { // substitute file-level constants (no recursion expected)
			for k, v := range consts {
				src = replaceIdent(src, k, "("+v+")")
			}
		}
		tv, err := gotypes.Eval(token.NewFileSet(), nil, token.NoPos, src)
		if err != nil {
			return "", fmt.Errorf("%s: %v", src, err)
		}
		if tv.Value == nil {
			return "", fmt.Errorf("%s: not constant", src)
		}
		return tv.Value.ExactString(), nil
	}
	findFunc := func(name string, recv bool) *ast.FuncDecl {
		for _, d := range f.Decls {
			if fd, ok := d.(*ast.FuncDecl); ok && fd.Name.Name == name && (fd.Recv != nil) == recv {
				return fd
			}
		}
		return nil
	}

	// validateDeployCode: the `len(dep.X) > limit` comparisons, in source order.
	want := []struct{ lhs, name string }{
		{"len(dep.code)", "DEPLOY_MAX_WASM_CODE"},
		{"len(dep.code)", "DEPLOY_MAX_NEO_CODE"},
		{"len(dep.Name)", "DEPLOY_MAX_NAME"},
		{"len(dep.Version)", "DEPLOY_MAX_VERSION"},
		{"len(dep.Author)", "DEPLOY_MAX_AUTHOR"},
		{"len(dep.Email)", "DEPLOY_MAX_EMAIL"},
		{"len(dep.Description)", "DEPLOY_MAX_DESC"},
	}
	if fd := findFunc("validateDeployCode", false); fd == nil {
		broken("validateDeployCode", "function not found")
	} else {
		var cmps []*ast.BinaryExpr
		otherCmp := 0
		ast.Inspect(fd.Body, func(n ast.Node) bool {
			if be, ok := n.(*ast.BinaryExpr); ok {
				switch be.Op {
				case token.GTR:
					cmps = append(cmps, be)
				case token.GEQ, token.LSS, token.LEQ:
					otherCmp++
				}
			}
			return true
		})
		// shape of the WASM/NEO split: `if dep.VmType() == WASMVM_TYPE { wasm limit } else { neo limit }`
		splitOK := false
		ast.Inspect(fd.Body, func(n ast.Node) bool {
			if is, ok := n.(*ast.IfStmt); ok && exprString(fset, is.Cond) == "dep.VmType() == WASMVM_TYPE" && is.Else != nil && len(cmps) >= 2 {
				in := func(b ast.Node, e ast.Node) bool { return b.Pos() <= e.Pos() && e.End() <= b.End() }
				splitOK = in(is.Body, cmps[0]) && in(is.Else, cmps[1])
			}
			return true
		})
		if len(cmps) != len(want) || otherCmp != 0 || !splitOK {
			broken("validateDeployCode", fmt.Sprintf("unexpected shape: %d '>' comparisons (want %d), %d other comparisons, wasm/neo split recognised=%v", len(cmps), len(want), otherCmp, splitOK))
		} else {
			for i, w := range want {
				lhs := exprString(fset, cmps[i].X)
				if lhs != w.lhs {
					broken(w.name, fmt.Sprintf("comparison #%d has lhs %q, want %q", i, lhs, w.lhs))
					continue
				}
				v, err := evalInt(cmps[i].Y)
				if err != nil {
					broken(w.name, err.Error())
					continue
				}
				cs = append(cs, gen.Const{Name: w.name, Type: "N", Value: v, Comment: fmt.Sprintf("%s validateDeployCode: %s > %s", file, lhs, exprString(fset, cmps[i].Y))})
			}
		}
	}

	// checkVmFlags: `switch vmFlags { case a, b, c: return nil; default: error }`
	caseList := func(fd *ast.FuncDecl, pick func(cc *ast.CaseClause) bool) ([]string, error) {
		var out []string
		var sw *ast.SwitchStmt
		ast.Inspect(fd.Body, func(n ast.Node) bool {
			if s, ok := n.(*ast.SwitchStmt); ok && sw == nil {
				sw = s
			}
			return true
		})
		if sw == nil {
			return nil, fmt.Errorf("no switch")
		}
		for _, st := range sw.Body.List {
			cc := st.(*ast.CaseClause)
			if cc.List == nil || !pick(cc) {
				continue
			}
			for _, e := range cc.List {
				v, err := evalInt(e)
				if err != nil {
					return nil, err
				}
				out = append(out, v)
			}
		}
		return out, nil
	}
	returns := func(cc *ast.CaseClause, what string) bool {
		if len(cc.Body) != 1 {
			return false
		}
		rs, ok := cc.Body[0].(*ast.ReturnStmt)
		return ok && len(rs.Results) == 1 && exprString(fset, rs.Results[0]) == what
	}
	if fd := findFunc("checkVmFlags", false); fd == nil {
		broken("VM_FLAGS_OK", "checkVmFlags not found")
	} else if l, err := caseList(fd, func(cc *ast.CaseClause) bool { return returns(cc, "nil") }); err != nil || len(l) == 0 {
		broken("VM_FLAGS_OK", fmt.Sprint("checkVmFlags: unexpected shape ", err))
	} else {
		cs = append(cs, gen.Const{Name: "VM_FLAGS_OK", Type: "list N", Value: "[" + strings.Join(l, "; ") + "]%N", Comment: file + " checkVmFlags: flags accepted"})
	}
	if fd := findFunc("VmType", true); fd == nil {
		broken("VM_FLAGS_NEO", "DeployCode.VmType not found")
	} else {
		neo, err1 := caseList(fd, func(cc *ast.CaseClause) bool { return returns(cc, "NEOVM_TYPE") })
		wasm, err2 := caseList(fd, func(cc *ast.CaseClause) bool { return returns(cc, "WASMVM_TYPE") })
		if err1 != nil || err2 != nil {
			broken("VM_FLAGS_NEO", fmt.Sprint("VmType: unexpected shape ", err1, err2))
		} else {
			cs = append(cs, gen.Const{Name: "VM_FLAGS_NEO", Type: "list N", Value: "[" + strings.Join(neo, "; ") + "]%N", Comment: file + " DeployCode.VmType: flags mapped to NEOVM_TYPE"})
			cs = append(cs, gen.Const{Name: "VM_FLAGS_WASM", Type: "list N", Value: "[" + strings.Join(wasm, "; ") + "]%N", Comment: file + " DeployCode.VmType: flags mapped to WASMVM_TYPE"})
		}
	}
	return gen.EmitConsts("", cs), errs
}

func exprString(fset *token.FileSet, n ast.Node) string {
	var sb strings.Builder
	if err := printer.Fprint(&sb, fset, n); err != nil {
		return ""
	}
	return sb.String()
}

// replaceIdent replaces whole-word occurrences of id in src.
func replaceIdent(src, id, with string) string {
	var sb strings.Builder
	isw := func(c byte) bool {
		return c == '_' || c >= '0' && c <= '9' || c >= 'a' && c <= 'z' || c >= 'A' && c <= 'Z'
	}
	for i := 0; i < len(src); {
		if strings.HasPrefix(src[i:], id) && (i == 0 || !isw(src[i-1])) && (i+len(id) == len(src) || !isw(src[i+len(id)])) {
			sb.WriteString(with)
			i += len(id)
		} else {
			sb.WriteByte(src[i])
			i++
		}
	}
	return sb.String()
}

func init() {
	gen.RegisterFile("TxConsts.v", produceTxConsts)
}
