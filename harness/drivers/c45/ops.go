package c45

// Operations of a history (JSON-able, in terms of pool tokens), their encoding into the byte
// arguments of the native ONT ID contract, and their printing as Coq terms of Model/OntId.v.

import (
	"bytes"
	"encoding/hex"
	"fmt"
	"strings"

	"github.com/ontio/ontology/common"
	"github.com/ontio/ontology/smartcontract/service/native/utils"

	"verif/harness/hx"
)

// Blob is an operator / key argument: K = "key" (pool key N), "addr" (pool address N), "bad" (malformed variant N).
type Blob struct {
	K string `json:"k"`
	N int    `json:"n"`
}

type Attr struct {
	K int `json:"k"` // attribute key token
	V int `json:"v"` // payload token (type, value)
}

// Grp is a group as the caller intends it; Raw (hex) overrides the encoding.
type Grp struct {
	Members   []Mem  `json:"members"`
	Threshold uint64 `json:"threshold"`
	Raw       string `json:"raw,omitempty"`
}

type Mem struct {
	ID    *int `json:"id,omitempty"`
	Group *Grp `json:"group,omitempty"`
}

type Sg struct {
	ID    int    `json:"id"`
	Index uint64 `json:"index"`
}

// Proof is what follows the fixed arguments of a *ByController call: an index (single
// controller) or a signer list (group controller); Raw (hex) overrides.
type Proof struct {
	Index   *uint64 `json:"index,omitempty"`
	Signers []Sg    `json:"signers,omitempty"`
	Raw     string  `json:"raw,omitempty"`
}

type Op struct {
	M        string  `json:"m"`
	ID       int     `json:"id"`
	Key      *Blob   `json:"key,omitempty"`
	Operator *Blob   `json:"operator,omitempty"`
	Idx      uint64  `json:"idx,omitempty"`
	KIdx     uint64  `json:"kidx,omitempty"`
	Attrs    []Attr  `json:"attrs,omitempty"`
	AttrsBad bool    `json:"attrs_bad,omitempty"` // an attribute key longer than MAX_KEY_SIZE
	Path     int     `json:"path,omitempty"`
	Addr     int     `json:"addr,omitempty"`
	Addr2    int     `json:"addr2,omitempty"`
	CtrlID   *int    `json:"ctrl_id,omitempty"`
	Group    *Grp    `json:"group,omitempty"`
	Proof    *Proof  `json:"proof,omitempty"`
	Signers  []Sg    `json:"signers,omitempty"`
	SgRaw    *string `json:"signers_raw,omitempty"`
	Extra    bool    `json:"extra,omitempty"`  // append the optional per-key controller field
	Sig      []int   `json:"sig"`              // address tokens of the transaction's signers
	Legacy   bool    `json:"legacy,omitempty"` // run below the new-ONT-ID height (old code path)
}

type History struct {
	Tag string `json:"tag"`
	Ops []Op   `json:"ops"`
}

// ---------------------------------------------------------------- encoding

func (w *world) blobBytes(b *Blob) []byte {
	if b == nil {
		return nil
	}
	switch b.K {
	case "key":
		return w.keys[b.N%len(w.keys)].ser
	case "addr":
		a := w.addrs[b.N%w.nAddrs]
		return a[:]
	}
	return w.bad[b.N%len(w.bad)]
}

func (w *world) idBytes(i int) []byte { return w.ids[i%nPoolIDs] }

func (w *world) attrKey(k int) []byte {
	if k == 0 {
		return []byte{}
	}
	return []byte(fmt.Sprintf("attr-%d", k))
}
func attrType(v int) []byte  { return []byte(fmt.Sprintf("T%d", v%2)) }
func attrValue(v int) []byte { return []byte(fmt.Sprintf("V%d", v)) }

func (w *world) encGroup(g *Grp) []byte {
	if g.Raw != "" {
		b, _ := hex.DecodeString(g.Raw)
		return b
	}
	sink := common.NewZeroCopySink(nil)
	utils.EncodeVarUint(sink, uint64(len(g.Members)))
	for _, m := range g.Members {
		if m.ID != nil {
			sink.WriteVarBytes(w.idBytes(*m.ID))
		} else if m.Group != nil {
			sink.WriteVarBytes(w.encGroup(m.Group))
		} else {
			sink.WriteVarBytes(nil)
		}
	}
	utils.EncodeVarUint(sink, g.Threshold)
	return sink.Bytes()
}

func (w *world) encSigners(s []Sg) []byte {
	sink := common.NewZeroCopySink(nil)
	utils.EncodeVarUint(sink, uint64(len(s)))
	for _, v := range s {
		sink.WriteVarBytes(w.idBytes(v.ID))
		utils.EncodeVarUint(sink, v.Index)
	}
	return sink.Bytes()
}

func (w *world) encProof(sink *common.ZeroCopySink, p *Proof) {
	if p == nil {
		return
	}
	switch {
	case p.Raw != "":
		b, _ := hex.DecodeString(p.Raw)
		sink.WriteBytes(b)
	case p.Index != nil:
		utils.EncodeVarUint(sink, *p.Index)
	default:
		sink.WriteVarBytes(w.encSigners(p.Signers))
	}
}

func (w *world) sgBytes(o *Op) []byte {
	if o.SgRaw != nil {
		b, _ := hex.DecodeString(*o.SgRaw)
		return b
	}
	return w.encSigners(o.Signers)
}

func (w *world) encAttrs(sink *common.ZeroCopySink, o *Op) {
	utils.EncodeVarUint(sink, uint64(len(o.Attrs)))
	for n, a := range o.Attrs {
		k := w.attrKey(a.K)
		if o.AttrsBad && n == len(o.Attrs)-1 {
			k = bytes.Repeat([]byte{'k'}, 81)
		}
		sink.WriteVarBytes(k)
		sink.WriteVarBytes(attrType(a.V))
		sink.WriteVarBytes(attrValue(a.V))
	}
}

// split of the argument bytes: fixed part, then the "proof" tail (what verifyControllerSignature
// / regIdWithController reads from the source after the fixed arguments).
type encoded struct {
	args []byte
	tail []byte // bytes from the proof position on (nil when the method has none)
	ctrl []byte // regIDWithController: the controller argument bytes
	grp  []byte // setRecovery / updateRecovery: the group argument bytes
	sgn  []byte // *ByRecovery / updateRecovery: the signers argument bytes
}

func (w *world) encode(o *Op) encoded {
	var e encoded
	sink := common.NewZeroCopySink(nil)
	id := w.idBytes(o.ID)
	sink.WriteVarBytes(id)
	proofAt := -1
	extra := func() {
		if o.Extra {
			sink.WriteVarBytes(id)
		}
	}
	switch o.M {
	case "regIDWithPublicKey":
		sink.WriteVarBytes(w.blobBytes(o.Key))
	case "regIDWithAttributes":
		sink.WriteVarBytes(w.blobBytes(o.Key))
		w.encAttrs(sink, o)
	case "regIDWithController":
		if o.CtrlID != nil {
			e.ctrl = w.idBytes(*o.CtrlID)
		} else if o.Group != nil {
			e.ctrl = w.encGroup(o.Group)
		}
		sink.WriteVarBytes(e.ctrl)
		proofAt = len(sink.Bytes())
		w.encProof(sink, o.Proof)
	case "addKey", "removeKey":
		sink.WriteVarBytes(w.blobBytes(o.Key))
		sink.WriteVarBytes(w.blobBytes(o.Operator))
		if o.M == "addKey" {
			extra()
		}
	case "addKeyByIndex", "removeKeyByIndex":
		sink.WriteVarBytes(w.blobBytes(o.Key))
		utils.EncodeVarUint(sink, o.Idx)
		if o.M == "addKeyByIndex" {
			extra()
		}
	case "addAttributes":
		w.encAttrs(sink, o)
		sink.WriteVarBytes(w.blobBytes(o.Operator))
	case "addAttributesByIndex":
		w.encAttrs(sink, o)
		utils.EncodeVarUint(sink, o.Idx)
	case "removeAttribute":
		sink.WriteVarBytes(w.attrKey(o.Path))
		sink.WriteVarBytes(w.blobBytes(o.Operator))
	case "removeAttributeByIndex":
		sink.WriteVarBytes(w.attrKey(o.Path))
		utils.EncodeVarUint(sink, o.Idx)
	case "revokeID", "removeController", "removeRecovery":
		utils.EncodeVarUint(sink, o.Idx)
	case "revokeIDByController":
		proofAt = len(sink.Bytes())
		w.encProof(sink, o.Proof)
	case "addKeyByController":
		sink.WriteVarBytes(w.blobBytes(o.Key))
		proofAt = len(sink.Bytes())
		w.encProof(sink, o.Proof)
		extra()
	case "removeKeyByController", "setAuthKeyByController", "removeAuthKeyByController":
		utils.EncodeVarUint(sink, o.KIdx)
		proofAt = len(sink.Bytes())
		w.encProof(sink, o.Proof)
	case "addAttributesByController":
		w.encAttrs(sink, o)
		proofAt = len(sink.Bytes())
		w.encProof(sink, o.Proof)
	case "removeAttributeByController":
		sink.WriteVarBytes(w.attrKey(o.Path))
		proofAt = len(sink.Bytes())
		w.encProof(sink, o.Proof)
	case "addRecovery":
		a := w.addrs[o.Addr%w.nAddrs]
		utils.EncodeAddress(sink, a)
		sink.WriteVarBytes(w.blobBytes(o.Operator))
	case "changeRecovery":
		utils.EncodeAddress(sink, w.addrs[o.Addr%w.nAddrs])
		utils.EncodeAddress(sink, w.addrs[o.Addr2%w.nAddrs])
	case "setRecovery":
		e.grp = w.encGroup(o.Group)
		sink.WriteVarBytes(e.grp)
		utils.EncodeVarUint(sink, o.Idx)
	case "updateRecovery":
		e.grp = w.encGroup(o.Group)
		sink.WriteVarBytes(e.grp)
		e.sgn = w.sgBytes(o)
		sink.WriteVarBytes(e.sgn)
	case "addKeyByRecovery":
		sink.WriteVarBytes(w.blobBytes(o.Key))
		e.sgn = w.sgBytes(o)
		sink.WriteVarBytes(e.sgn)
		extra()
	case "removeKeyByRecovery", "setAuthKeyByRecovery", "removeAuthKeyByRecovery":
		utils.EncodeVarUint(sink, o.KIdx)
		e.sgn = w.sgBytes(o)
		sink.WriteVarBytes(e.sgn)
	case "addNewAuthKey":
		sink.WriteVarBytes(w.blobBytes(o.Key))
		sink.WriteVarBytes(id) // NewPublicKey.controller
		utils.EncodeVarUint(sink, o.Idx)
	case "addNewAuthKeyByRecovery":
		sink.WriteVarBytes(w.blobBytes(o.Key))
		sink.WriteVarBytes(id)
		e.sgn = w.sgBytes(o)
		sink.WriteVarBytes(e.sgn)
	case "addNewAuthKeyByController":
		sink.WriteVarBytes(w.blobBytes(o.Key))
		sink.WriteVarBytes(id)
		proofAt = len(sink.Bytes())
		w.encProof(sink, o.Proof)
	case "setAuthKey", "removeAuthKey":
		utils.EncodeVarUint(sink, o.KIdx)
		utils.EncodeVarUint(sink, o.Idx)
	case "addService", "updateService":
		sink.WriteVarBytes([]byte(fmt.Sprintf("svc-%d", o.Path)))
		sink.WriteVarBytes([]byte("type"))
		sink.WriteVarBytes([]byte(fmt.Sprintf("https://endpoint/%d", o.KIdx)))
		utils.EncodeVarUint(sink, o.Idx)
	case "removeService":
		sink.WriteVarBytes([]byte(fmt.Sprintf("svc-%d", o.Path)))
		utils.EncodeVarUint(sink, o.Idx)
	case "addContext", "removeContext":
		utils.EncodeVarUint(sink, 1)
		sink.WriteVarBytes([]byte(fmt.Sprintf("https://context/%d", o.Path)))
		utils.EncodeVarUint(sink, o.Idx)
	default:
		panic("c45: unknown method " + o.M)
	}
	e.args = sink.Bytes()
	if proofAt >= 0 {
		e.tail = e.args[proofAt:]
	}
	return e
}

// ---------------------------------------------------------------- mirror parsers (syntax only)

// PGroup is a syntactically parsed group over id tokens.
type PGroup struct {
	Members   []PMem
	Threshold uint64
}
type PMem struct {
	ID    int
	Group *PGroup
}

// parseGroup follows the byte layout read by group.go rDeserialize (count, members as
// var-bytes, threshold; trailing bytes ignored; a member longer than 8 bytes starting with
// "did:ont:" is an id) without the depth and threshold checks, which the model performs.
func (w *world) parseGroup(data []byte, depth int) *PGroup {
	if depth > 64 {
		return nil
	}
	src := common.NewZeroCopySource(data)
	num, err := utils.DecodeVarUint(src)
	if err != nil {
		return nil
	}
	g := &PGroup{}
	for i := uint64(0); i < num; i++ {
		m, err := utils.DecodeVarBytes(src)
		if err != nil {
			return nil
		}
		if len(m) > 8 && bytes.Equal(m[:8], []byte("did:ont:")) {
			g.Members = append(g.Members, PMem{ID: w.internID(m)})
		} else {
			sub := w.parseGroup(m, depth+1)
			if sub == nil {
				return nil
			}
			g.Members = append(g.Members, PMem{Group: sub})
		}
	}
	t, err := utils.DecodeVarUint(src)
	if err != nil {
		return nil
	}
	g.Threshold = t
	return g
}

type PSigner struct {
	ID    int
	Index uint64
}

func (w *world) parseSigners(data []byte) ([]PSigner, bool) {
	src := common.NewZeroCopySource(data)
	num, err := utils.DecodeVarUint(src)
	if err != nil {
		return nil, false
	}
	out := []PSigner{}
	for i := uint64(0); i < num; i++ {
		id, err := utils.DecodeVarBytes(src)
		if err != nil {
			return nil, false
		}
		idx, err := utils.DecodeVarUint(src)
		if err != nil {
			return nil, false
		}
		out = append(out, PSigner{w.internID(id), idx})
	}
	return out, true
}

// ---------------------------------------------------------------- Coq printing

func coqGroup(g *PGroup) string {
	var ms []string
	for _, m := range g.Members {
		if m.Group != nil {
			ms = append(ms, "MGrp ("+coqGroup(m.Group)+")")
		} else {
			ms = append(ms, fmt.Sprintf("MId %d", m.ID))
		}
	}
	return fmt.Sprintf("G %s %d", hx.CoqList(ms), g.Threshold)
}

func coqOptGroup(g *PGroup) string {
	if g == nil {
		return "None"
	}
	return "(Some (" + coqGroup(g) + "))"
}

func coqSigners(s []PSigner, ok bool) string {
	if !ok {
		return "None"
	}
	var l []string
	for _, v := range s {
		l = append(l, fmt.Sprintf("(%d, %d)", v.ID, v.Index))
	}
	return "(Some " + hx.CoqList(l) + ")"
}

func (w *world) coqProof(tail []byte) string {
	idx := "None"
	src := common.NewZeroCopySource(tail)
	if n, err := utils.DecodeVarUint(src); err == nil {
		idx = fmt.Sprintf("(Some %d)", n)
	}
	sg := "None"
	src = common.NewZeroCopySource(tail)
	if b, err := utils.DecodeVarBytes(src); err == nil {
		s, ok := w.parseSigners(b)
		sg = coqSigners(s, ok)
	}
	return fmt.Sprintf("(mkProof %s %s)", idx, sg)
}

func (w *world) coqBlob(b *Blob) string {
	switch b.K {
	case "key":
		return fmt.Sprintf("(BKey %d)", b.N%len(w.keys))
	case "addr":
		return fmt.Sprintf("(BAddr %d)", b.N%w.nAddrs)
	}
	return fmt.Sprintf("(BBad %d)", b.N%len(w.bad))
}

func coqAttrs(o *Op) string {
	if o.AttrsBad && len(o.Attrs) > 0 {
		return "None"
	}
	var l []string
	for _, a := range o.Attrs {
		l = append(l, fmt.Sprintf("(%d, %d)", a.K, a.V))
	}
	return "(Some " + hx.CoqList(l) + ")"
}

var ctor = map[string]string{}

func init() {
	for _, m := range allMethods {
		ctor[m] = strings.ToUpper(m[:1]) + m[1:]
	}
	ctor["regIDWithPublicKey"] = "RegIdWithPublicKey"
	ctor["regIDWithAttributes"] = "RegIdWithAttributes"
	ctor["regIDWithController"] = "RegIdWithController"
}

var allMethods = []string{
	"regIDWithPublicKey", "regIDWithAttributes", "regIDWithController",
	"addKey", "addKeyByIndex", "removeKey", "removeKeyByIndex",
	"addAttributes", "addAttributesByIndex", "removeAttribute", "removeAttributeByIndex",
	"revokeID", "revokeIDByController", "removeController",
	"addKeyByController", "removeKeyByController", "addAttributesByController", "removeAttributeByController",
	"addRecovery", "changeRecovery", "setRecovery", "updateRecovery", "removeRecovery",
	"addKeyByRecovery", "removeKeyByRecovery",
	"addNewAuthKey", "addNewAuthKeyByRecovery", "addNewAuthKeyByController",
	"setAuthKey", "setAuthKeyByRecovery", "setAuthKeyByController",
	"removeAuthKey", "removeAuthKeyByRecovery", "removeAuthKeyByController",
}

// sideMethods change parts of an identity the model does not keep (services, contexts); they are
// executed and judged by the oracle only (accepted => a live authentication key of the identity
// witnessed, nothing the model keeps changed) and are not part of the Coq case.
var sideMethods = map[string]bool{"addService": true, "updateService": true, "removeService": true, "addContext": true, "removeContext": true}

// coqOp prints the operation as the model sees it, derived from the encoded bytes where the
// model's view depends on how the bytes parse (groups, signer lists, the proof tail).
func (w *world) coqOp(o *Op, e encoded) string {
	id := o.ID % nPoolIDs
	c := ctor[o.M]
	sgn := func() string {
		s, ok := w.parseSigners(e.sgn)
		return coqSigners(s, ok)
	}
	switch o.M {
	case "regIDWithPublicKey":
		return fmt.Sprintf("%s %d %s", c, id, w.coqBlob(o.Key))
	case "regIDWithAttributes":
		return fmt.Sprintf("%s %d %s %s", c, id, w.coqBlob(o.Key), coqAttrs(o))
	case "regIDWithController":
		return fmt.Sprintf("%s %d (mkCtrlArg %d %s) %s", c, id, w.internID(e.ctrl), coqOptGroup(w.parseGroup(e.ctrl, 0)), w.coqProof(e.tail))
	case "addKey", "removeKey":
		return fmt.Sprintf("%s %d %s %s", c, id, w.coqBlob(o.Key), w.coqBlob(o.Operator))
	case "addKeyByIndex", "removeKeyByIndex", "addNewAuthKey":
		return fmt.Sprintf("%s %d %s %d", c, id, w.coqBlob(o.Key), o.Idx)
	case "addAttributes":
		return fmt.Sprintf("%s %d %s %s", c, id, coqAttrs(o), w.coqBlob(o.Operator))
	case "addAttributesByIndex":
		return fmt.Sprintf("%s %d %s %d", c, id, coqAttrs(o), o.Idx)
	case "removeAttribute":
		return fmt.Sprintf("%s %d %d %s", c, id, o.Path, w.coqBlob(o.Operator))
	case "removeAttributeByIndex":
		return fmt.Sprintf("%s %d %d %d", c, id, o.Path, o.Idx)
	case "revokeID", "removeController", "removeRecovery":
		return fmt.Sprintf("%s %d %d", c, id, o.Idx)
	case "revokeIDByController":
		return fmt.Sprintf("%s %d %s", c, id, w.coqProof(e.tail))
	case "addKeyByController", "addNewAuthKeyByController":
		return fmt.Sprintf("%s %d %s %s", c, id, w.coqBlob(o.Key), w.coqProof(e.tail))
	case "removeKeyByController", "setAuthKeyByController", "removeAuthKeyByController":
		return fmt.Sprintf("%s %d %d %s", c, id, o.KIdx, w.coqProof(e.tail))
	case "addAttributesByController":
		return fmt.Sprintf("%s %d %s %s", c, id, coqAttrs(o), w.coqProof(e.tail))
	case "removeAttributeByController":
		return fmt.Sprintf("%s %d %d %s", c, id, o.Path, w.coqProof(e.tail))
	case "addRecovery":
		return fmt.Sprintf("%s %d %d %s", c, id, o.Addr%w.nAddrs, w.coqBlob(o.Operator))
	case "changeRecovery":
		return fmt.Sprintf("%s %d %d %d", c, id, o.Addr%w.nAddrs, o.Addr2%w.nAddrs)
	case "setRecovery":
		return fmt.Sprintf("%s %d %s %d", c, id, coqOptGroup(w.parseGroup(e.grp, 0)), o.Idx)
	case "updateRecovery":
		return fmt.Sprintf("%s %d %s %s", c, id, coqOptGroup(w.parseGroup(e.grp, 0)), sgn())
	case "addKeyByRecovery", "addNewAuthKeyByRecovery":
		return fmt.Sprintf("%s %d %s %s", c, id, w.coqBlob(o.Key), sgn())
	case "removeKeyByRecovery", "setAuthKeyByRecovery", "removeAuthKeyByRecovery":
		return fmt.Sprintf("%s %d %d %s", c, id, o.KIdx, sgn())
	case "setAuthKey", "removeAuthKey":
		return fmt.Sprintf("%s %d %d %d", c, id, o.KIdx, o.Idx)
	}
	panic("c45: coqOp " + o.M)
}
