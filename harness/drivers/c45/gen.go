package c45

// Translator part of C45: reads smartcontract/service/native/ontid/{utils,owner,group,attribute,
// method,controller}.go with go/parser and writes coq/Gen/OntIdConsts.v: the three identity flags,
// MAX_DEPTH, MAX_NUM and the conditions the authorisation logic rests on (isValid, the
// "already registered" tests of the three registrations, the revoked / authentication rejections
// of checkWitnessByIndex, the index checks of getPk / changePkAuthentication / revokePkByIndex,
// findPk_Version1's match, isOwner's result, verifyThreshold's comparison, rDeserialize's
// threshold and depth checks, the attribute count check) as boolean functions.  Model/OntId.v is
// built from these definitions and Proofs/OntId.v proves their meaning (gen_* lemmas), so a
// changed operator or constant changes the model and breaks the proofs unless it is harmless.
//
// Fails closed: a condition that is missing or outside the supported fragment is emitted as
// `translator_broken_<name>` and the dependent files no longer compile.

import (
	"bytes"
	"fmt"
	"go/ast"
	"go/parser"
	"go/printer"
	"go/token"
	"path/filepath"
	"strconv"
	"strings"

	"verif/harness/gen"
)

const ontidDir = "smartcontract/service/native/ontid/"

func pr(fset *token.FileSet, n ast.Node) string {
	var b bytes.Buffer
	printer.Fprint(&b, fset, n)
	return b.String()
}

func findFn(f *ast.File, name string) *ast.FuncDecl {
	for _, d := range f.Decls {
		if fd, ok := d.(*ast.FuncDecl); ok && fd.Name.Name == name && fd.Body != nil && fd.Recv == nil {
			return fd
		}
	}
	return nil
}

func intConst(e ast.Expr) (uint64, bool) {
	switch x := e.(type) {
	case *ast.ParenExpr:
		return intConst(x.X)
	case *ast.BasicLit:
		if x.Kind == token.INT {
			v, err := strconv.ParseUint(x.Value, 0, 64)
			return v, err == nil
		}
	case *ast.BinaryExpr:
		a, ok1 := intConst(x.X)
		b, ok2 := intConst(x.Y)
		if !ok1 || !ok2 {
			return 0, false
		}
		switch x.Op {
		case token.SHL:
			if b < 64 {
				return a << b, true
			}
		case token.ADD:
			return a + b, true
		case token.MUL:
			return a * b, true
		}
	}
	return 0, false
}

// boolCoq translates the fragment  && || ! < > <= >= == !=  over substituted sub-expressions
// and integer literals.
func boolCoq(fset *token.FileSet, e ast.Expr, subst map[string]string) (string, error) {
	if v, ok := subst[pr(fset, e)]; ok {
		return v, nil
	}
	if v, ok := intConst(e); ok {
		return fmt.Sprint(v), nil
	}
	switch x := e.(type) {
	case *ast.ParenExpr:
		return boolCoq(fset, x.X, subst)
	case *ast.UnaryExpr:
		if x.Op == token.NOT {
			a, err := boolCoq(fset, x.X, subst)
			if err != nil {
				return "", err
			}
			return "(negb " + a + ")", nil
		}
	case *ast.BinaryExpr:
		a, err := boolCoq(fset, x.X, subst)
		if err != nil {
			return "", err
		}
		b, err := boolCoq(fset, x.Y, subst)
		if err != nil {
			return "", err
		}
		switch x.Op {
		case token.LAND:
			return "(" + a + " && " + b + ")", nil
		case token.LOR:
			return "(" + a + " || " + b + ")", nil
		case token.LSS:
			return "(" + a + " <? " + b + ")", nil
		case token.GTR:
			return "(" + b + " <? " + a + ")", nil
		case token.LEQ:
			return "(" + a + " <=? " + b + ")", nil
		case token.GEQ:
			return "(" + b + " <=? " + a + ")", nil
		case token.EQL:
			return "(" + a + " =? " + b + ")", nil
		case token.NEQ:
			return "(negb (" + a + " =? " + b + "))", nil
		}
	}
	return "", fmt.Errorf("unsupported expression %q", pr(fset, e))
}

// conds lists the conditions of all if statements (kind "if") or the results of all
// single-value return statements (kind "return") of a function, in source order.
func conds(fd *ast.FuncDecl, kind string) []ast.Expr {
	var out []ast.Expr
	ast.Inspect(fd.Body, func(n ast.Node) bool {
		switch s := n.(type) {
		case *ast.IfStmt:
			if kind == "if" {
				out = append(out, s.Cond)
			}
		case *ast.ReturnStmt:
			if kind == "return" && len(s.Results) == 1 {
				out = append(out, s.Results[0])
			}
		case *ast.FuncLit:
			return false
		}
		return true
	})
	return out
}

type condSite struct {
	name     string
	file     string
	fn       string
	kind     string   // "if" or "return"
	contains []string // the printed expression must contain all of these
	exact    string   // or be exactly this
	subst    map[string]string
	params   string
}

var condSites = []condSite{
	{name: "id_is_valid", file: "utils.go", fn: "isValid", kind: "return", contains: []string{"checkIDState"},
		subst: map[string]string{"checkIDState(srvc, encId)": "st", "flag_valid": "FLAG_VALID"}, params: "(st : N)"},
	{name: "reg_pk_taken", file: "method.go", fn: "regIdWithPublicKey", kind: "if", contains: []string{"checkIDState"},
		subst: map[string]string{"checkIDState(srvc, key)": "st", "flag_not_exist": "FLAG_NOT_EXIST"}, params: "(st : N)"},
	{name: "reg_attr_taken", file: "method.go", fn: "regIdWithAttributes", kind: "if", contains: []string{"checkIDState"},
		subst: map[string]string{"checkIDState(srvc, key)": "st", "flag_not_exist": "FLAG_NOT_EXIST"}, params: "(st : N)"},
	{name: "reg_ctrl_taken", file: "controller.go", fn: "regIdWithController", kind: "if", contains: []string{"checkIDState"},
		subst: map[string]string{"checkIDState(srvc, encId)": "st", "flag_not_exist": "FLAG_NOT_EXIST"}, params: "(st : N)"},
	{name: "cwbi_reject_revoked", file: "utils.go", fn: "checkWitnessByIndex", kind: "if", exact: "pk.revoked",
		subst: map[string]string{"pk.revoked": "revoked"}, params: "(revoked : bool)"},
	{name: "cwbi_reject_noauth", file: "utils.go", fn: "checkWitnessByIndex", kind: "if", contains: []string{"pk.isAuthentication"},
		subst: map[string]string{"pk.isAuthentication": "auth"}, params: "(auth : bool)"},
	{name: "getpk_index_invalid", file: "owner.go", fn: "getPk", kind: "if", contains: []string{"index <", "index >"},
		subst: map[string]string{"index": "index", "uint32(len(publicKeys))": "n"}, params: "(index n : N)"},
	{name: "chauth_index_invalid", file: "owner.go", fn: "changePkAuthentication", kind: "if", contains: []string{"index <", "index >"},
		subst: map[string]string{"index": "index", "uint32(len(publicKeys))": "n"}, params: "(index n : N)"},
	{name: "chauth_reject_revoked", file: "owner.go", fn: "changePkAuthentication", kind: "if", contains: []string{".revoked"},
		subst: map[string]string{"publicKeys[index-1].revoked": "revoked"}, params: "(revoked : bool)"},
	{name: "revoke_index_nokey", file: "owner.go", fn: "revokePkByIndex", kind: "if", contains: []string{"len(publicKeys)", "index"},
		subst: map[string]string{"uint32(len(publicKeys))": "n", "index": "index"}, params: "(index n : N)"},
	{name: "findpk_match", file: "owner.go", fn: "findPk_Version1", kind: "if", contains: []string{"bytes.Equal"},
		subst: map[string]string{"bytes.Equal(pub, v.key)": "eq", "v.isAuthentication": "auth"}, params: "(eq auth : bool)"},
	{name: "is_owner_ok", file: "owner.go", fn: "isOwner", kind: "return", contains: []string{"kID"},
		subst: map[string]string{"kID": "kid", "revoked": "revoked"}, params: "(kid : N) (revoked : bool)"},
	{name: "threshold_met", file: "group.go", fn: "verifyThreshold", kind: "return", contains: []string{"signed"},
		subst: map[string]string{"signed": "signed", "g.Threshold": "threshold"}, params: "(signed threshold : N)"},
	{name: "threshold_invalid", file: "group.go", fn: "rDeserialize", kind: "if", contains: []string{"len(g.Members)"},
		subst: map[string]string{"t": "t", "uint64(len(g.Members))": "n"}, params: "(t n : N)"},
	{name: "depth_exceeded", file: "group.go", fn: "rDeserialize", kind: "if", contains: []string{"depth", "MAX_DEPTH"},
		subst: map[string]string{"depth": "depth", "MAX_DEPTH": "MAX_DEPTH"}, params: "(depth : N)"},
	{name: "too_many_attrs", file: "attribute.go", fn: "batchInsertAttr", kind: "if", contains: []string{"MAX_NUM"},
		subst: map[string]string{"n": "n", "MAX_NUM": "MAX_NUM"}, params: "(n : N)"},
}

type constSite struct{ coq, file, goName string }

var constSites = []constSite{
	{"FLAG_NOT_EXIST", "utils.go", "flag_not_exist"},
	{"FLAG_VALID", "utils.go", "flag_valid"},
	{"FLAG_REVOKE", "utils.go", "flag_revoke"},
	{"MAX_DEPTH", "group.go", "MAX_DEPTH"},
	{"MAX_NUM", "attribute.go", "MAX_NUM"},
}

func findConst(f *ast.File, name string) (ast.Expr, bool) {
	for _, d := range f.Decls {
		gd, ok := d.(*ast.GenDecl)
		if !ok || gd.Tok != token.CONST {
			continue
		}
		for _, sp := range gd.Specs {
			vs := sp.(*ast.ValueSpec)
			for i, n := range vs.Names {
				if n.Name == name && i < len(vs.Values) {
					return vs.Values[i], true
				}
			}
		}
	}
	return nil, false
}

func produceOntIdConsts(repo string) ([]byte, []string) {
	var b bytes.Buffer
	var errs []string
	fmt.Fprintf(&b, "(* GENERATED by harness/drivers/c45 from /repo's current source on every run. Do not edit. *)\nFrom Coq Require Import NArith Bool.\nLocal Open Scope N_scope.\nOpen Scope bool_scope.\n\n")
	broken := func(name, why string) {
		errs = append(errs, name+": "+why)
		fmt.Fprintf(&b, "Definition translator_broken_%s : unit := tt. (* %s *)\n", name, strings.ReplaceAll(why, "*)", "* )"))
	}
	fset := token.NewFileSet()
	files := map[string]*ast.File{}
	for _, p := range []string{"utils.go", "owner.go", "group.go", "attribute.go", "method.go", "controller.go"} {
		f, err := parser.ParseFile(fset, filepath.Join(repo, ontidDir+p), nil, 0)
		if err != nil {
			broken("parse", err.Error())
			return b.Bytes(), errs
		}
		files[p] = f
	}
	for _, c := range constSites {
		e, ok := findConst(files[c.file], c.goName)
		if !ok {
			broken(c.coq, "constant "+c.goName+" not found in "+c.file)
			continue
		}
		v, ok := intConst(e)
		if !ok {
			broken(c.coq, "constant "+c.goName+" is not an integer literal: "+pr(fset, e))
			continue
		}
		fmt.Fprintf(&b, "(* %s: %s = %s *)\nDefinition %s : N := %d.\n", c.file, c.goName, pr(fset, e), c.coq, v)
	}
	for _, s := range condSites {
		fd := findFn(files[s.file], s.fn)
		if fd == nil {
			broken(s.name, "function "+s.fn+" not found in "+s.file)
			continue
		}
		var match []ast.Expr
		for _, c := range conds(fd, s.kind) {
			txt := pr(fset, c)
			ok := true
			if s.exact != "" {
				ok = txt == s.exact
			}
			for _, sub := range s.contains {
				if !strings.Contains(txt, sub) {
					ok = false
				}
			}
			if ok {
				match = append(match, c)
			}
		}
		if len(match) != 1 {
			broken(s.name, fmt.Sprintf("%s: expected exactly one %s expression matching %v%s, found %d", s.fn, s.kind, s.contains, s.exact, len(match)))
			continue
		}
		whole := pr(fset, match[0])
		coq, err := boolCoq(fset, match[0], s.subst)
		if err != nil {
			broken(s.name, err.Error()+" in "+whole)
			continue
		}
		fmt.Fprintf(&b, "(* %s %s: %s %s *)\nDefinition %s %s : bool := %s.\n", s.file, s.fn, s.kind, strings.ReplaceAll(whole, "*)", "* )"), s.name, s.params, coq)
	}
	return b.Bytes(), errs
}

func init() {
	gen.RegisterFile("OntIdConsts.v", produceOntIdConsts)
}
