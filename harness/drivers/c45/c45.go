// Package c45: only an ONT ID's authorized keys, controllers or recovery can change it.
//
// The driver runs generated histories of the native ONT ID contract's mutating methods (34 of
// them: registration by key / with attributes / by controller, key, attribute, controller,
// recovery and authentication-key operations in their by-key, by-index, by-controller and
// by-recovery forms, revocation) through native.NativeService.NativeCall on a CacheDB over an
// in-memory store, every call as its own transaction (committed only when the call succeeds),
// with chosen transaction signer sets.
//
//   - correspondence: every history becomes one Coq case: per step the signer addresses, the
//     operation as the contract will parse it, the implementation's verdict and the target
//     identity's record as found in the store afterwards (decoded here from the raw storage
//     bytes, independently of the package's decoders); a dump of every identity of the run ends
//     the history.  Corr/C45.v replays Model/OntId.v on it.
//   - oracle: before every call the records of all identities are read from the store and a plain
//     Go reference of the rule decides whether the signer set carries the authority the method
//     requires (a live authentication key of the identity, its controller, its recovery); an
//     accepted call without it, any accepted call on a revoked identity, any change to another
//     identity, a key that stops being revoked, are failures.
package c45

import (
	"bytes"
	"encoding/json"
	"fmt"
	"math/rand"
	"sort"
	"strings"

	"github.com/ontio/ontology-crypto/keypair"
	"github.com/ontio/ontology/account"
	"github.com/ontio/ontology/common"
	"github.com/ontio/ontology/common/config"
	"github.com/ontio/ontology/core/store/leveldbstore"
	"github.com/ontio/ontology/core/store/overlaydb"
	"github.com/ontio/ontology/core/types"
	"github.com/ontio/ontology/smartcontract"
	"github.com/ontio/ontology/smartcontract/service/native/ontid"
	"github.com/ontio/ontology/smartcontract/service/native/utils"
	"github.com/ontio/ontology/smartcontract/storage"

	"verif/harness/hx"
)

func init() { hx.Register("C45", Run) }

const (
	nBaseKeys = 10
	nAltKeys  = 3
	nPoolIDs  = 9
)

type poolKey struct {
	ser  []byte
	addr int // address token
}

type world struct {
	c       *hx.Ctx
	overlay *overlaydb.OverlayDB
	keys    []poolKey
	addrs   []common.Address
	nAddrs  int // pool addresses (op tokens are taken modulo this)
	bad     [][]byte
	ids     [][]byte // interned id byte strings; the first nPoolIDs are the pool
	idTok   map[string]int
	keyTok  map[string]int
}

func (w *world) internID(b []byte) int {
	if t, ok := w.idTok[string(b)]; ok {
		return t
	}
	t := len(w.ids)
	w.ids = append(w.ids, append([]byte{}, b...))
	w.idTok[string(b)] = t
	return t
}

func (w *world) addrTok(a common.Address) int {
	for i, x := range w.addrs {
		if x == a {
			return i
		}
	}
	w.addrs = append(w.addrs, a)
	return len(w.addrs) - 1
}

func newWorld(c *hx.Ctx) *world {
	w := &world{c: c, idTok: map[string]int{}, keyTok: map[string]int{}}
	ontid.Init()
	for i := 0; i < nBaseKeys; i++ {
		acc := account.NewAccount("")
		ser := keypair.SerializePublicKey(acc.PubKey())
		w.keys = append(w.keys, poolKey{ser: ser, addr: w.addrTok(acc.Address)})
	}
	// a second encoding of keys 0..2 (label PK_ECDSA, curve P-256, then the compressed point):
	// different bytes, same key, same address
	for i := 0; i < nAltKeys; i++ {
		alt := append([]byte{byte(keypair.PK_ECDSA), keypair.P256}, w.keys[i].ser...)
		pk, err := keypair.DeserializePublicKey(alt)
		if err != nil || types.AddressFromPubKey(pk) != w.addrs[w.keys[i].addr] || bytes.Equal(alt, w.keys[i].ser) {
			panic("c45: alternative key encoding not accepted as the same key")
		}
		w.keys = append(w.keys, poolKey{ser: alt, addr: w.keys[i].addr})
	}
	for i, k := range w.keys {
		w.keyTok[string(k.ser)] = i
	}
	// two addresses that belong to no pool key
	for i := 0; i < 2; i++ {
		var a common.Address
		copy(a[:], c.Bytes(20))
		w.addrTok(a)
	}
	w.nAddrs = len(w.addrs)
	w.bad = [][]byte{{}, append([]byte{0xff}, c.Bytes(32)...), c.Bytes(19), append([]byte{0x02}, bytes.Repeat([]byte{0xff}, 32)...)}
	for _, b := range w.bad {
		if _, err := keypair.DeserializePublicKey(b); err == nil || len(b) == 20 {
			panic("c45: a 'bad' blob is accepted as a key or an address")
		}
	}
	for i := 0; i < 5; i++ {
		s, err := account.CreateID(c.Bytes(32))
		if err != nil {
			panic(err)
		}
		w.internID([]byte(s))
	}
	w.internID([]byte("did:ont:not-a-valid-id"))
	w.internID([]byte{})
	w.internID(append([]byte("did:ont:"), bytes.Repeat([]byte{'x'}, 252)...))
	w.internID([]byte("garbage"))
	if len(w.ids) != nPoolIDs {
		panic("c45: id pool layout")
	}
	return w
}

// legacyPossible: the configured network has a new-ONT-ID height above 0 (main net: 9,000,000).
func legacyPossible() bool { return config.GetNewOntIdHeight() > 0 }

func (w *world) reset() { w.overlay = overlaydb.NewOverlayDB(leveldbstore.NewMemLevelDBStore()) }

// call runs one native call as its own transaction: a fresh cache over the committed store,
// committed only when the call did not fail (a failing native call aborts the transaction).
func (w *world) call(legacy bool, signers []common.Address, method string, args []byte) (ok bool, panicMsg string, errMsg string) {
	cache := storage.NewCacheDB(w.overlay)
	tx := &types.Transaction{SignedAddr: signers}
	height := config.GetNewOntIdHeight() + 1000
	if legacy {
		height = config.GetNewOntIdHeight() - 1
	}
	sc := &smartcontract.SmartContract{
		Config:  &smartcontract.Config{Time: 1600000000, Height: height, Tx: tx},
		CacheDB: cache,
		Gas:     1 << 60,
	}
	ns, e := sc.NewNativeService()
	if e != nil {
		panic(e)
	}
	var ret []byte
	var err error
	panicked, msg := hx.Recover(func() { ret, err = ns.NativeCall(utils.OntIDContractAddress, method, args) })
	w.c.Eval()
	if panicked {
		return false, msg, "panic"
	}
	if err != nil {
		return false, "", err.Error()
	}
	if !bytes.Equal(ret, utils.BYTE_TRUE) {
		return false, "", "returned FALSE without error"
	}
	cache.Commit()
	return true, "", ""
}

// query runs a read-only native call; ok = returned TRUE without error.
func (w *world) query(signers []common.Address, method string, args []byte) (ret []byte, ok bool, errMsg string) {
	cache := storage.NewCacheDB(w.overlay)
	sc := &smartcontract.SmartContract{
		Config:  &smartcontract.Config{Time: 1600000000, Height: config.GetNewOntIdHeight() + 1000, Tx: &types.Transaction{SignedAddr: signers}},
		CacheDB: cache,
		Gas:     1 << 60,
	}
	ns, e := sc.NewNativeService()
	if e != nil {
		panic(e)
	}
	var err error
	panicked, msg := hx.Recover(func() { ret, err = ns.NativeCall(utils.OntIDContractAddress, method, args) })
	w.c.Eval()
	if panicked {
		return nil, false, "PANIC: " + msg
	}
	if err != nil {
		return ret, false, err.Error()
	}
	return ret, bytes.Equal(ret, utils.BYTE_TRUE), ""
}

// ---------------------------------------------------------------- raw storage dump

type dKey struct {
	Tok     int // pool key token, -1 when the bytes are unknown
	Revoked bool
	PkList  bool
	Auth    bool
}

type dRec struct {
	Flag    int
	Keys    []dKey
	Ctrl    []byte // raw controller bytes (nil = absent)
	RecVer  int    // -1 absent, 0 address, 1 group
	Rec     []byte
	Attrs   [][2]int
	Damaged string // non-empty when a stored value could not be decoded
}

func encID(id []byte) []byte {
	enc := append([]byte{}, utils.OntIDContractAddress[:]...)
	enc = append(enc, byte(len(id)))
	return append(enc, id...)
}

func (w *world) item(cache *storage.CacheDB, key []byte) (val []byte, ver int, present bool) {
	it, err := utils.GetStorageItem(cache, key)
	if err != nil || it == nil {
		return nil, 0, false
	}
	return it.Value, int(it.StateVersion), true
}

func parseAttrTok(k, typ, val []byte) [2]int {
	kt, vt := -1, -1
	if len(k) == 0 {
		kt = 0
	} else {
		fmt.Sscanf(string(k), "attr-%d", &kt)
	}
	var tt int
	if _, err := fmt.Sscanf(string(val), "V%d", &vt); err != nil {
		vt = -1
	}
	if _, err := fmt.Sscanf(string(typ), "T%d", &tt); err != nil || vt < 0 || tt != vt%2 {
		vt = 99990 + tt
	}
	if kt < 0 {
		kt = 99999
	}
	return [2]int{kt, vt}
}

func (w *world) dump(id []byte) *dRec {
	cache := storage.NewCacheDB(w.overlay)
	r := &dRec{RecVer: -1}
	if len(id) == 0 || len(id) > 255 {
		return r
	}
	enc := encID(id)
	if v, _, ok := w.item(cache, enc); ok && len(v) > 0 {
		r.Flag = int(v[0])
	}
	field := func(f byte) []byte { return append(append([]byte{}, enc...), f) }
	if v, ver, ok := w.item(cache, field(1)); ok {
		src := common.NewZeroCopySource(v)
		for src.Len() > 0 {
			k, _, irr, eof := src.NextVarBytes()
			rv, irr2, eof2 := src.NextBool()
			var pl, au = true, true
			if ver == 1 {
				_, _, irr3, eof3 := src.NextVarBytes()
				var i4, e4, i5, e5 bool
				pl, i4, e4 = src.NextBool()
				au, i5, e5 = src.NextBool()
				if irr3 || eof3 || i4 || e4 || i5 || e5 {
					r.Damaged = "key list"
					break
				}
			}
			if irr || eof || irr2 || eof2 {
				r.Damaged = "key list"
				break
			}
			tok, ok := w.keyTok[string(k)]
			if !ok {
				tok = -1
			}
			r.Keys = append(r.Keys, dKey{tok, rv, pl, au})
		}
	}
	if v, _, ok := w.item(cache, field(4)); ok {
		r.Ctrl = append([]byte{}, v...)
	}
	if v, ver, ok := w.item(cache, field(3)); ok {
		r.RecVer = ver
		r.Rec = append([]byte{}, v...)
	}
	// attributes: doubly linked list, head under encId ++ 2, nodes under encId ++ 2 ++ key
	index := field(2)
	if head, _, ok := w.item(cache, index); ok {
		cur := head
		for n := 0; n < 1000; n++ {
			nodeRaw, _, ok := w.item(cache, append(append([]byte{}, index...), cur...))
			if !ok {
				r.Damaged = "attribute list: missing node"
				break
			}
			src := common.NewZeroCopySource(nodeRaw)
			next, e1 := utils.DecodeVarBytes(src)
			_, e2 := utils.DecodeVarBytes(src)
			payload, e3 := utils.DecodeVarBytes(src)
			if e1 != nil || e2 != nil || e3 != nil {
				r.Damaged = "attribute list: node"
				break
			}
			ps := common.NewZeroCopySource(payload)
			val, e4 := utils.DecodeVarBytes(ps)
			typ, e5 := utils.DecodeVarBytes(ps)
			if e4 != nil || e5 != nil {
				r.Damaged = "attribute payload"
				break
			}
			r.Attrs = append(r.Attrs, parseAttrTok(cur, typ, val))
			if len(next) == 0 {
				break
			}
			cur = next
		}
	}
	return r
}

func (w *world) dumpAll() []*dRec {
	out := make([]*dRec, len(w.ids))
	for i, id := range w.ids {
		out[i] = w.dump(id)
	}
	return out
}

func (w *world) coqCtrl(raw []byte) string {
	if raw == nil {
		return "None"
	}
	if account.VerifyID(string(raw)) {
		return fmt.Sprintf("(Some (CSingle %d))", w.internID(raw))
	}
	g := w.parseGroup(raw, 0)
	if g == nil {
		return "(Some (CGroup (G [] 77777)))" // undecodable stored controller: never equal to a model value
	}
	return "(Some (CGroup (" + coqGroup(g) + ")))"
}

func (w *world) coqRec(r *dRec) string {
	var ks []string
	for _, k := range r.Keys {
		t := k.Tok
		if t < 0 {
			t = 88888
		}
		ks = append(ks, fmt.Sprintf("mkPk %d %s %s %s", t, hx.CoqBool(k.Revoked), hx.CoqBool(k.PkList), hx.CoqBool(k.Auth)))
	}
	rec := "None"
	switch r.RecVer {
	case 0:
		t := 66666
		if len(r.Rec) == 20 {
			var a common.Address
			copy(a[:], r.Rec)
			t = w.addrTok(a)
		}
		rec = fmt.Sprintf("(Some (ROld %d))", t)
	case 1:
		if g := w.parseGroup(r.Rec, 0); g != nil {
			rec = "(Some (RNew (" + coqGroup(g) + ")))"
		} else {
			rec = "(Some (RNew (G [] 77777)))"
		}
	}
	var as []string
	for _, a := range r.Attrs {
		as = append(as, fmt.Sprintf("(%d, %d)", a[0], a[1]))
	}
	flag := r.Flag
	if r.Damaged != "" {
		flag = 55555
	}
	return fmt.Sprintf("(mkRec %d %s %s %s %s)", flag, hx.CoqList(ks), w.coqCtrl(r.Ctrl), rec, hx.CoqList(as))
}

func recEq(a, b *dRec) bool {
	x, _ := json.Marshal(a)
	y, _ := json.Marshal(b)
	return bytes.Equal(x, y)
}

// ---------------------------------------------------------------- runner

type runner struct {
	w     *world
	c     *hx.Ctx
	stats map[string]int
}

type stepOut struct {
	OK    bool
	Panic string
	Err   string
}

func (r *runner) signerAddrs(o *Op) []common.Address {
	var out []common.Address
	for _, t := range o.Sig {
		out = append(out, r.w.addrs[t%r.w.nAddrs])
	}
	return out
}

func mclass(m string) string {
	switch {
	case strings.HasPrefix(m, "regID"):
		return "register"
	case strings.HasSuffix(m, "ByController"):
		return "by-controller"
	case strings.HasSuffix(m, "ByRecovery") || m == "updateRecovery":
		return "by-recovery"
	}
	return "by-own-key"
}

// runHistory executes a history on a fresh store; emit = write the Coq case.
func (r *runner) runHistory(h *History, emit bool) []stepOut {
	w := r.w
	w.reset()
	var steps []string
	var outs []stepOut
	accepted, kinds := 0, map[string]bool{}
	for n := range h.Ops {
		o := &h.Ops[n]
		e := w.encode(o)
		if sideMethods[o.M] {
			pre := w.dumpAll()
			ok, pmsg, _ := w.call(false, r.signerAddrs(o), o.M, e.args)
			post := w.dumpAll()
			outs = append(outs, stepOut{ok, pmsg, ""})
			r.c.Count("op(side):" + o.M)
			if ok {
				r.c.Count("accepted(side):" + o.M)
			}
			r.sideOracle(h, n, o, e, pre, post, ok, pmsg)
			continue
		}
		term := w.coqOp(o, e) // interns every id the arguments mention
		pre := w.dumpAll()
		ok, pmsg, emsg := w.call(o.Legacy && legacyPossible(), r.signerAddrs(o), o.M, e.args)
		post := w.dumpAll()
		outs = append(outs, stepOut{ok, pmsg, emsg})
		r.c.Count("op:" + o.M)
		r.c.Count(fmt.Sprintf("target-flag:%d", pre[o.ID%nPoolIDs].Flag))
		if ok {
			r.c.Count("accepted:" + mclass(o.M))
			r.c.Count("accepted-method:" + o.M)
			accepted++
			kinds[o.M] = true
		} else {
			r.c.Count("refused:" + mclass(o.M))
			if pmsg != "" {
				// a panic in a native call kills the node (nothing on the execution path recovers)
				r.c.Count("panic:" + o.M)
				hh := History{Tag: h.Tag, Ops: h.Ops[:n+1]}
				r.c.Fail("panic:"+o.M, "a native call returns (TRUE or an error); it never panics",
					map[string]interface{}{"history": hh, "failing_step": n, "method": o.M, "args_hex": fmt.Sprintf("%x", e.args)}, pmsg, "an error")
			}
		}
		r.oracle(h, n, o, e, pre, post, ok)
		var sg []string
		for _, t := range o.Sig {
			sg = append(sg, fmt.Sprint(t%w.nAddrs))
		}
		if o.Legacy && legacyPossible() {
			r.c.Count("path:old (below the new-ONT-ID height)")
		} else {
			r.c.Count("path:new")
		}
		steps = append(steps, fmt.Sprintf("mkStep %s %s (%s) %s %s", hx.CoqBool(o.Legacy && legacyPossible()), hx.CoqList(sg), term, hx.CoqBool(ok), w.coqRec(post[o.ID%nPoolIDs])))
	}
	r.queries(h)
	if emit {
		fin := w.dumpAll()
		var fl, okl, vl, ka []string
		for i, d := range fin {
			fl = append(fl, fmt.Sprintf("(%d, %s)", i, w.coqRec(d)))
		}
		for i, id := range w.ids {
			if len(id) >= 1 && len(id) <= 255 {
				okl = append(okl, fmt.Sprint(i))
			}
			if account.VerifyID(string(id)) {
				vl = append(vl, fmt.Sprint(i))
			}
		}
		for _, k := range w.keys {
			ka = append(ka, fmt.Sprint(k.addr))
		}
		r.c.Case(fmt.Sprintf("CHist %s %s %s\n  %s\n  %s", hx.CoqList(ka), hx.CoqList(okl), hx.CoqList(vl),
			hx.CoqList(steps), hx.CoqList(fl)), map[string]interface{}{"history": h})
		if accepted >= 4 && len(kinds) >= 3 {
			b, _ := json.Marshal(h)
			r.c.Nontrivial(string(b))
		}
	}
	// the run interned ids beyond the pool (group members, signer ids): forget them
	for _, id := range w.ids[nPoolIDs:] {
		delete(w.idTok, string(id))
	}
	w.ids = w.ids[:nPoolIDs]
	return outs
}

func sortedKeys(m map[string]int) []string {
	var k []string
	for s := range m {
		k = append(k, s)
	}
	sort.Strings(k)
	return k
}

// ---------------------------------------------------------------- probes

// zeroThresholdHistory: the known finding's witness.  Identity 1 is registered with a group
// controller whose threshold is 0 by a transaction that nobody signed, and then receives a key
// from a transaction that nobody signed.
func zeroThresholdHistory() *History {
	g := &Grp{Members: []Mem{{ID: ip(0)}}, Threshold: 0}
	return &History{Tag: "probe:zero-threshold-group", Ops: []Op{
		{M: "regIDWithPublicKey", ID: 0, Key: keyBlob(0), Sig: []int{0}},
		{M: "regIDWithController", ID: 1, Group: g, Proof: &Proof{Signers: []Sg{}}, Sig: nil},
		{M: "addNewAuthKeyByController", ID: 1, Key: keyBlob(5), Proof: &Proof{Signers: []Sg{}}, Sig: nil},
		{M: "setRecovery", ID: 0, Group: &Grp{Members: []Mem{{Group: &Grp{Threshold: 0}}}, Threshold: 1}, Idx: 1, Sig: []int{0}},
		{M: "addKeyByRecovery", ID: 0, Key: keyBlob(6), Signers: []Sg{}, Sig: nil},
	}}
}

// lifecycleHistory: a scripted honest life of three identities touching every family of methods.
func lifecycleHistory() *History {
	one := uint64(1)
	return &History{Tag: "probe:lifecycle", Ops: []Op{
		{M: "regIDWithPublicKey", ID: 0, Key: keyBlob(0), Sig: []int{0}},
		{M: "addKey", ID: 0, Key: keyBlob(1), Operator: keyBlob(0), Sig: []int{0}},
		{M: "setAuthKey", ID: 0, KIdx: 2, Idx: 1, Sig: []int{0}},
		{M: "regIDWithPublicKey", ID: 1, Key: keyBlob(2), Sig: []int{2}},
		{M: "regIDWithController", ID: 2, CtrlID: ip(0), Proof: &Proof{Index: &one}, Sig: []int{0}},
		{M: "addNewAuthKeyByController", ID: 2, Key: keyBlob(4), Proof: &Proof{Index: &one}, Sig: []int{0}},
		{M: "addAttributesByController", ID: 2, Attrs: []Attr{{1, 3}, {2, 4}}, Proof: &Proof{Index: &one}, Sig: []int{0}},
		{M: "removeController", ID: 2, Idx: 1, Sig: []int{4}},
		{M: "addKeyByController", ID: 2, Key: keyBlob(5), Proof: &Proof{Index: &one}, Sig: []int{0}}, // refused: controller removed
		{M: "setRecovery", ID: 0, Group: &Grp{Members: []Mem{{ID: ip(1)}, {ID: ip(2)}}, Threshold: 2}, Idx: 1, Sig: []int{0}},
		{M: "addKeyByRecovery", ID: 0, Key: keyBlob(6), Signers: []Sg{{1, 1}}, Sig: []int{2}},            // refused: 1 of 2
		{M: "addKeyByRecovery", ID: 0, Key: keyBlob(6), Signers: []Sg{{1, 1}, {2, 1}}, Sig: []int{2, 4}}, // accepted
		{M: "removeKeyByIndex", ID: 0, Key: keyBlob(1), Idx: 1, Sig: []int{0}},
		{M: "addAttributesByIndex", ID: 0, Attrs: []Attr{{1, 1}}, Idx: 2, Sig: []int{1}}, // refused: key #2 revoked
		{M: "addKeyByIndex", ID: 0, Key: keyBlob(1), Idx: 1, Sig: []int{0}},              // refused: a revoked key cannot be added again
		{M: "addRecovery", ID: 1, Addr: 10, Operator: keyBlob(2), Sig: []int{2}},
		{M: "addKey", ID: 1, Key: keyBlob(7), Operator: &Blob{"addr", 10}, Sig: []int{10}},
		{M: "changeRecovery", ID: 1, Addr: 11, Addr2: 10, Sig: []int{10}},
		{M: "revokeID", ID: 1, Idx: 1, Sig: []int{2}},
		{M: "regIDWithPublicKey", ID: 1, Key: keyBlob(2), Sig: []int{2}},                                 // refused: revoked for ever
		{M: "addKeyByRecovery", ID: 0, Key: keyBlob(8), Signers: []Sg{{1, 1}, {2, 1}}, Sig: []int{2, 4}}, // refused: member 1 is revoked
	}}
}

// panicHistory: removeKeyByController / removeKeyByRecovery with key index 0, sent by the rightful
// controller / recovery.  Before repair 2977caad revokePkByIndex let index 0 through, wrapped it
// to 2^32-1 and panicked on the slice index (regression probe; also kept in corpus/C45).
func panicHistory() *History {
	one := uint64(1)
	return &History{Tag: "probe:revoke-by-index-0", Ops: []Op{
		{M: "regIDWithPublicKey", ID: 0, Key: keyBlob(0), Sig: []int{0}},
		{M: "regIDWithController", ID: 1, CtrlID: ip(0), Proof: &Proof{Index: &one}, Sig: []int{0}},
		{M: "removeKeyByController", ID: 1, KIdx: 0, Proof: &Proof{Index: &one}, Sig: []int{0}},
		{M: "removeKeyByController", ID: 1, KIdx: 1 << 32, Proof: &Proof{Index: &one}, Sig: []int{0}},
		{M: "setRecovery", ID: 0, Group: &Grp{Members: []Mem{{ID: ip(0)}}, Threshold: 1}, Idx: 1, Sig: []int{0}},
		{M: "removeKeyByRecovery", ID: 0, KIdx: 0, Signers: []Sg{{0, 1}}, Sig: []int{0}},
	}}
}

// legacyHistory: two identities created and equipped on the old code path (old key-record
// format: every key counts as an authentication key), then managed on the new one.
func legacyHistory() *History {
	one := uint64(1)
	return &History{Tag: "probe:legacy-records", Ops: []Op{
		{Legacy: true, M: "regIDWithPublicKey", ID: 0, Key: keyBlob(0), Sig: []int{0}},
		{Legacy: true, M: "addKey", ID: 0, Key: keyBlob(1), Operator: keyBlob(0), Sig: []int{0}},
		{Legacy: true, M: "addKeyByIndex", ID: 0, Key: keyBlob(3), Idx: 1, Sig: []int{0}}, // refused: not registered yet
		{Legacy: true, M: "regIDWithAttributes", ID: 1, Key: keyBlob(2), Attrs: []Attr{{1, 1}}, Sig: []int{2}},
		{Legacy: true, M: "addRecovery", ID: 0, Addr: 10, Operator: keyBlob(1), Sig: []int{1}},
		{Legacy: true, M: "regIDWithController", ID: 2, CtrlID: ip(1), Proof: &Proof{Index: &one}, Sig: []int{2}},
		{Legacy: true, M: "addKeyByController", ID: 2, Key: keyBlob(4), Proof: &Proof{Index: &one}, Sig: []int{2}},
		{Legacy: true, M: "removeKey", ID: 0, Key: keyBlob(0), Operator: keyBlob(1), Sig: []int{1}},
		{M: "addKeyByIndex", ID: 0, Key: keyBlob(3), Idx: 2, Sig: []int{1}},              // key #2 of the old record authenticates
		{M: "addKeyByIndex", ID: 0, Key: keyBlob(5), Idx: 1, Sig: []int{0}},              // refused: key #1 revoked on the old path
		{M: "addAttributesByIndex", ID: 1, Attrs: []Attr{{2, 2}}, Idx: 1, Sig: []int{2}}, // old-path regIDWithAttributes key authenticates
		{M: "removeController", ID: 2, Idx: 1, Sig: []int{4}},                            // key added by the controller on the old path authenticates
		{M: "removeAuthKey", ID: 0, KIdx: 2, Idx: 2, Sig: []int{1}},
		{M: "addKeyByIndex", ID: 0, Key: keyBlob(6), Idx: 2, Sig: []int{1}}, // refused: no authentication right any more
		{M: "addKey", ID: 0, Key: keyBlob(6), Operator: &Blob{"addr", 10}, Sig: []int{10}},
	}}
}

func Run(c *hx.Ctx) {
	c.CoqModule("Corr.C45")
	w := newWorld(c)
	r := &runner{w: w, c: c, stats: map[string]int{}}

	var wrap struct {
		History *History `json:"history"`
	}
	if c.ReplayInput(&wrap) && wrap.History != nil && len(wrap.History.Ops) > 0 {
		r.runHistory(wrap.History, true)
		return
	}
	for _, raw := range c.CorpusInputs() {
		var wr struct {
			History *History `json:"history"`
		}
		if json.Unmarshal(raw, &wr) == nil && wr.History != nil && len(wr.History.Ops) > 0 {
			r.runHistory(wr.History, true)
			c.Count("history:corpus")
		}
	}

	for _, h := range []*History{lifecycleHistory(), zeroThresholdHistory(), panicHistory(), legacyHistory()} {
		outs := r.runHistory(h, true)
		var res []string
		for i, o := range outs {
			s := "refused"
			if o.OK {
				s = "accepted"
			} else if o.Panic != "" {
				s = "PANIC " + o.Panic
			} else {
				s = "refused (" + o.Err + ")"
			}
			res = append(res, fmt.Sprintf("%d %s: %s", i, h.Ops[i].M, s))
		}
		c.Sample(map[string]interface{}{"probe": h.Tag, "results": res})
		c.Count("history:probe")
	}

	nh := c.N(60, 900)
	for i := 0; i < nh; i++ {
		rng := rand.New(rand.NewSource(c.Seed*1000003 + int64(i)))
		n := 40 + rng.Intn(30)
		h := r.genHistory(rng, n, fmt.Sprintf("generated:%d", i))
		r.runHistory(h, true)
		c.Count("history:generated")
		c.Count(fmt.Sprintf("history:len:%d-%d", n/10*10, n/10*10+9))
		if i < 1 {
			c.Sample(map[string]interface{}{"history": h})
		}
	}
}
