package c45

// The direct property oracle: a plain Go reference of "who may change an ONT ID", evaluated on
// the records read from the store before each call.

import (
	"fmt"
	"strings"

	"github.com/ontio/ontology/account"
	"github.com/ontio/ontology/common"
	"github.com/ontio/ontology/smartcontract/service/native/utils"
)

type view struct {
	w   *world
	pre []*dRec
	sg  map[int]bool // signer address tokens
}

// own: some key of identity id that is not revoked and has authentication rights is among the signers.
func (v *view) own(id int) bool {
	if id < 0 || id >= len(v.pre) {
		return false
	}
	for _, k := range v.pre[id].Keys {
		if k.Tok >= 0 && !k.Revoked && k.Auth && v.sg[v.w.keys[k.Tok].addr] {
			return true
		}
	}
	return false
}

// group: at least Threshold members are satisfied (an id member by own, a sub-group recursively).
func (v *view) group(g *PGroup) bool {
	n := uint64(0)
	for _, m := range g.Members {
		if m.Group != nil {
			if v.group(m.Group) {
				n++
			}
		} else if v.own(m.ID) {
			n++
		}
	}
	return n >= g.Threshold
}

// anyLeaf: some id member anywhere in the group is satisfied.
func (v *view) anyLeaf(g *PGroup) bool {
	for _, m := range g.Members {
		if m.Group != nil {
			if v.anyLeaf(m.Group) {
				return true
			}
		} else if v.own(m.ID) {
			return true
		}
	}
	return false
}

// controllerBytes: authority of a controller given as stored / supplied bytes; eff = at least
// one actual witness stands behind it.
func (v *view) controllerBytes(raw []byte) (ok, eff bool) {
	if raw == nil {
		return false, false
	}
	if account.VerifyID(string(raw)) {
		t := v.w.internID(raw)
		o := v.own(t)
		return o, o
	}
	g := v.w.parseGroup(raw, 0)
	if g == nil {
		return false, false
	}
	return v.group(g), v.anyLeaf(g)
}

func (v *view) oldRecovery(id int) bool {
	r := v.pre[id]
	if r.RecVer != 0 || len(r.Rec) != 20 {
		return false
	}
	var a common.Address
	copy(a[:], r.Rec)
	for t := range v.sg {
		if v.w.addrs[t] == a {
			return true
		}
	}
	return false
}

func (v *view) newRecovery(id int) (ok, eff bool) {
	r := v.pre[id]
	if r.RecVer != 1 {
		return false, false
	}
	g := v.w.parseGroup(r.Rec, 0)
	if g == nil {
		return false, false
	}
	return v.group(g), v.anyLeaf(g)
}

// authority decides whether the signer set may perform o on its target in the pre-state; eff says
// whether at least one concrete witness (a signer address that is a live authentication key of
// the identity, of its controller / recovery members, or the recovery address) stands behind it.
func (v *view) authority(o *Op, e encoded) (ok, eff bool, why string) {
	id := o.ID % nPoolIDs
	flag := v.pre[id].Flag
	switch mclass(o.M) {
	case "register":
		if flag != 0 {
			return false, false, "identity already registered or revoked"
		}
		if o.M == "regIDWithController" {
			ok, eff = v.controllerBytes(e.ctrl)
			return ok, eff, "the controller being installed must witness the registration"
		}
		if o.Key != nil && o.Key.K == "key" && v.sg[v.w.keys[o.Key.N%len(v.w.keys)].addr] {
			return true, true, ""
		}
		return false, false, "the key being registered must witness the registration"
	}
	if flag != 1 {
		return false, false, "identity not registered or revoked"
	}
	switch mclass(o.M) {
	case "by-controller":
		ok, eff = v.controllerBytes(v.pre[id].Ctrl)
		return ok, eff, "controller of the identity"
	case "by-recovery":
		ok, eff = v.newRecovery(id)
		return ok, eff, "recovery group of the identity"
	}
	switch o.M {
	case "addKey", "removeKey":
		if v.oldRecovery(id) {
			return true, true, ""
		}
	case "changeRecovery":
		r := v.oldRecovery(id)
		return r, r, "recovery address of the identity"
	}
	r := v.own(id)
	return r, r, "live authentication key of the identity"
}

func (r *runner) oracle(h *History, n int, o *Op, e encoded, pre, post []*dRec, ok bool) {
	w := r.w
	id := o.ID % nPoolIDs
	v := &view{w: w, pre: pre, sg: map[int]bool{}}
	for _, t := range o.Sig {
		v.sg[t%w.nAddrs] = true
	}
	in := func() interface{} {
		hh := History{Tag: h.Tag, Ops: h.Ops[:n+1]}
		return map[string]interface{}{"history": hh, "failing_step": n, "method": o.M, "args_hex": fmt.Sprintf("%x", e.args)}
	}
	changed := func(i int) bool { return !recEq(pre[i], post[i]) }
	if !ok {
		for i := range pre {
			if i < len(post) && changed(i) {
				r.c.Fail("refused-call-changed-state", "a refused call leaves every identity unchanged", in(), fmt.Sprintf("identity %d changed", i), "no change")
			}
		}
		return
	}
	auth, eff, why := v.authority(o, e)
	if pre[id].Flag == 2 {
		r.c.Fail("revoked-id-modified:"+o.M, "a revoked identity can never be registered or modified again", in(), "accepted", "refused")
	} else if !auth {
		r.c.Fail("unauthorized:"+o.M, "accepted only when witnessed by "+why, in(), "accepted", "refused")
	} else if !eff {
		r.c.Fail("no-witness:zero-threshold-group", "an accepted change is witnessed by at least one live authentication key (of the identity or of a member of its controller / recovery group)", in(),
			"accepted with no witnessing key", "refused")
	}
	for i := range pre {
		if i != id && changed(i) {
			r.c.Fail("foreign-change:"+o.M, "a call changes only the identity it addresses", in(), fmt.Sprintf("identity %d changed by a call on %d", i, id), "unchanged")
		}
	}
	p, q := pre[id], post[id]
	if (o.M == "revokeID" || o.M == "revokeIDByController") && q.Flag != 2 {
		r.c.Fail("revocation-not-recorded:"+o.M, "an accepted revocation leaves the identity flagged as revoked", in(), w.coqRec(q), "flag 2")
	}
	if p.Flag == 0 && q.Flag != 1 {
		r.c.Fail("registration-not-recorded:"+o.M, "an accepted registration leaves the identity flagged as registered", in(), w.coqRec(q), "flag 1")
	}
	if q.Damaged != "" {
		r.c.Fail("damaged-record:"+o.M, "stored record decodes", in(), q.Damaged, "")
	}
	if q.Flag == 2 && (len(q.Keys) != 0 || q.Ctrl != nil || q.RecVer != -1 || len(q.Attrs) != 0) {
		r.c.Fail("revoked-id-keeps-data", "revocation removes keys, controller, recovery and attributes", in(), w.coqRec(q), "empty record")
	}
	if strings.HasPrefix(o.M, "removeKey") && q.Flag == 1 {
		// the key named by bytes or by index is revoked afterwards
		idx := -1
		if o.Key != nil && o.Key.K == "key" {
			for i, k := range q.Keys {
				if k.Tok == o.Key.N%len(w.keys) {
					idx = i
				}
			}
		} else if o.Key == nil {
			idx = int(uint32(o.KIdx)) - 1
		}
		if idx < 0 || idx >= len(q.Keys) || !q.Keys[idx].Revoked {
			r.c.Fail("key-revocation-not-recorded:"+o.M, "an accepted key removal leaves that key revoked", in(), w.coqRec(q), "key revoked")
		}
	}
	if q.Flag == 1 && p.Flag == 1 {
		if len(q.Keys) < len(p.Keys) {
			r.c.Fail("key-list-shrunk:"+o.M, "key indices are stable", in(), len(q.Keys), len(p.Keys))
		} else {
			for i := range p.Keys {
				if p.Keys[i].Tok != q.Keys[i].Tok || (p.Keys[i].Revoked && !q.Keys[i].Revoked) {
					r.c.Fail("key-unrevoked:"+o.M, "a revoked key stays revoked at its index", in(), w.coqRec(q), w.coqRec(p))
				}
			}
		}
	}
}

// queries cross-checks the contract's own read-only methods against the raw records at the end of
// a history: getKeyState reports every stored key as "in use" / "revoked" exactly as stored, and
// verifySignature (the identity proof other contracts rely on; no authentication right needed)
// succeeds for a stored key exactly when the identity is registered, the key is not revoked and
// its address signed the transaction.
func (r *runner) queries(h *History) {
	w := r.w
	fin := w.dumpAll()
	in := func(id, idx int, m string) interface{} {
		return map[string]interface{}{"history": h, "query": m, "id": id, "index": idx}
	}
	for id := 0; id < 5; id++ {
		d := fin[id]
		for i, k := range d.Keys {
			if k.Tok < 0 {
				continue
			}
			sink := common.NewZeroCopySink(nil)
			sink.WriteVarBytes(w.ids[id])
			utils.EncodeVarUint(sink, uint64(i+1))
			ret, _, _ := w.query(nil, "getKeyState", sink.Bytes())
			want := "in use"
			if k.Revoked {
				want = "revoked"
			}
			if d.Flag == 1 && string(ret) != want {
				r.c.Fail("query-mismatch:getKeyState", "getKeyState reports the stored state of a key", in(id, i+1, "getKeyState"), string(ret), want)
			}
			addr := []common.Address{w.addrs[w.keys[k.Tok].addr]}
			_, ok, _ := w.query(addr, "verifySignature", sink.Bytes())
			if ok != (d.Flag == 1 && !k.Revoked) {
				r.c.Fail("query:verifySignature", "verifySignature succeeds exactly for a live key of a registered identity whose address signed", in(id, i+1, "verifySignature"), ok, d.Flag == 1 && !k.Revoked)
			}
			if _, ok, _ := w.query(nil, "verifySignature", sink.Bytes()); ok {
				r.c.Fail("query:verifySignature-unsigned", "verifySignature fails when nobody signed", in(id, i+1, "verifySignature"), true, false)
			}
			r.c.Count("query:getKeyState+verifySignature")
		}
	}
}

// sideOracle judges a service / context call: accepted only on a registered identity and only
// when a live authentication key of it witnessed; whatever happens, nothing the model keeps
// (flag, keys, controller, recovery, attributes) changes, for any identity.
func (r *runner) sideOracle(h *History, n int, o *Op, e encoded, pre, post []*dRec, ok bool, pmsg string) {
	w := r.w
	id := o.ID % nPoolIDs
	v := &view{w: w, pre: pre, sg: map[int]bool{}}
	for _, t := range o.Sig {
		v.sg[t%w.nAddrs] = true
	}
	in := func() interface{} {
		hh := History{Tag: h.Tag, Ops: h.Ops[:n+1]}
		return map[string]interface{}{"history": hh, "failing_step": n, "method": o.M, "args_hex": fmt.Sprintf("%x", e.args)}
	}
	if pmsg != "" {
		r.c.Count("panic:" + o.M)
		r.c.Fail("panic:"+o.M, "a native call returns (TRUE or an error); it never panics", in(), pmsg, "an error")
	}
	if ok && pre[id].Flag == 2 {
		r.c.Fail("revoked-id-modified:"+o.M, "a revoked identity can never be registered or modified again", in(), "accepted", "refused")
	} else if ok && !(pre[id].Flag == 1 && v.own(id)) {
		r.c.Fail("unauthorized:"+o.M, "accepted only when witnessed by live authentication key of the identity", in(), "accepted", "refused")
	}
	for i := range pre {
		if !recEq(pre[i], post[i]) {
			r.c.Fail("foreign-change:"+o.M, "a service / context call changes no flag, key, controller, recovery or attribute", in(), fmt.Sprintf("identity %d changed", i), "unchanged")
		}
	}
}
