package c45

// History generator: operations are drawn while the history is executed on a scratch store, so
// that most of them address the state the implementation is really in (live / revoked /
// non-authentication keys, the installed controller and recovery) and are then perturbed:
// wrong signer, revoked key, key without authentication rights, no signer, index 0 / out of
// range / +2^32, wrong operator, threshold not met, foreign signer in the list, malformed tails.

import (
	"encoding/hex"
	"math/rand"

	"github.com/ontio/ontology/account"
)

type hgen struct {
	r   *runner
	rng *rand.Rand
	st  []*dRec // records of the pool ids before the next operation
}

func (g *hgen) in(n int) int      { return g.rng.Intn(n) }
func (g *hgen) p(pct int) bool    { return g.rng.Intn(100) < pct }
func ip(i int) *int               { return &i }
func up(u uint64) *uint64         { return &u }
func keyBlob(n int) *Blob         { return &Blob{"key", n} }
func (g *hgen) anyAddr() int      { return g.in(g.r.w.nAddrs) }
func (g *hgen) regularID() int    { return g.in(5) }
func (g *hgen) weirdID() int      { return 5 + g.in(4) }
func (g *hgen) keyAddr(k int) int { return g.r.w.keys[k].addr }

// keys of identity id by kind: 1-based indices
func (g *hgen) keysOf(id int, want func(k dKey) bool) []int {
	var out []int
	for i, k := range g.st[id].Keys {
		if k.Tok >= 0 && want(k) {
			out = append(out, i+1)
		}
	}
	return out
}
func live(k dKey) bool    { return !k.Revoked && k.Auth }
func nonauth(k dKey) bool { return !k.Revoked && !k.Auth }
func revoked(k dKey) bool { return k.Revoked }
func anyKey(k dKey) bool  { return true }

func (g *hgen) pick(l []int) (int, bool) {
	if len(l) == 0 {
		return 0, false
	}
	return l[g.in(len(l))], true
}

// a key token not yet in identity id's list (or any token when exhausted)
func (g *hgen) freshKey(id int) int {
	used := map[int]bool{}
	for _, k := range g.st[id].Keys {
		used[k.Tok] = true
	}
	for try := 0; try < 20; try++ {
		k := g.in(len(g.r.w.keys))
		if !used[k] {
			return k
		}
	}
	return g.in(len(g.r.w.keys))
}

func (g *hgen) newKeyBlob(id int) *Blob {
	switch x := g.in(100); {
	case x < 80:
		return keyBlob(g.freshKey(id))
	case x < 90:
		return keyBlob(g.in(len(g.r.w.keys))) // possibly a duplicate
	case x < 95:
		return &Blob{"bad", g.in(4)}
	}
	return &Blob{"addr", g.anyAddr()}
}

// ownWitness: an index and a signer set for a by-index call on id, right or perturbed.
func (g *hgen) ownWitness(id int) (idx uint64, sig []int) {
	lv := g.keysOf(id, live)
	mode := g.in(100)
	if i, ok := g.pick(lv); ok && mode < 70 {
		idx, sig = uint64(i), []int{g.keyAddr(g.st[id].Keys[i-1].Tok)}
		if g.p(8) {
			idx += 1 << 32 // the contract truncates to uint32
		}
		if g.p(15) {
			sig = append(sig, g.anyAddr())
		}
		return
	}
	switch mode % 7 {
	case 0: // right index, wrong signer
		if i, ok := g.pick(lv); ok {
			return uint64(i), []int{g.anyAddr()}
		}
	case 1: // revoked key, its owner signs
		if i, ok := g.pick(g.keysOf(id, revoked)); ok {
			return uint64(i), []int{g.keyAddr(g.st[id].Keys[i-1].Tok)}
		}
	case 2: // key without authentication rights, its owner signs
		if i, ok := g.pick(g.keysOf(id, nonauth)); ok {
			return uint64(i), []int{g.keyAddr(g.st[id].Keys[i-1].Tok)}
		}
	case 3: // no signer
		if i, ok := g.pick(lv); ok {
			return uint64(i), nil
		}
	case 4: // index 0 / beyond the list
		sig = []int{g.anyAddr()}
		if i, ok := g.pick(lv); ok {
			sig = []int{g.keyAddr(g.st[id].Keys[i-1].Tok)}
		}
		if g.p(50) {
			return 0, sig
		}
		return uint64(len(g.st[id].Keys) + 1 + g.in(2)), sig
	case 5: // a live key of ANOTHER identity signs, index taken from there
		o := g.regularID()
		if i, ok := g.pick(g.keysOf(o, live)); ok {
			return uint64(i), []int{g.keyAddr(g.st[o].Keys[i-1].Tok)}
		}
	}
	return uint64(g.in(4)), []int{g.anyAddr()}
}

// ownOperator: operator bytes and signer set for a by-key call on id.
func (g *hgen) ownOperator(id int) (*Blob, []int) {
	idx, sig := g.ownWitness(id)
	idx &= 0xffffffff
	if idx >= 1 && int(idx) <= len(g.st[id].Keys) && g.st[id].Keys[idx-1].Tok >= 0 {
		return keyBlob(g.st[id].Keys[idx-1].Tok), sig
	}
	switch g.in(3) {
	case 0:
		return &Blob{"bad", g.in(4)}, sig
	case 1:
		return &Blob{"addr", g.anyAddr()}, sig
	}
	return keyBlob(g.in(len(g.r.w.keys))), sig
}

// leaves of a parsed group (pool ids only)
func leaves(p *PGroup, out *[]int) {
	for _, m := range p.Members {
		if m.Group != nil {
			leaves(m.Group, out)
		} else {
			*out = append(*out, m.ID)
		}
	}
}

// groupSigners: signer list and tx signers that should satisfy parsed group p, then perturbed.
func (g *hgen) groupSigners(p *PGroup) ([]Sg, []int) {
	var ls []int
	leaves(p, &ls)
	var sgs []Sg
	var sig []int
	seen := map[int]bool{}
	for _, id := range ls {
		if id >= nPoolIDs || seen[id] {
			continue
		}
		seen[id] = true
		if i, ok := g.pick(g.keysOf(id, live)); ok {
			sgs = append(sgs, Sg{id, uint64(i)})
			sig = append(sig, g.keyAddr(g.st[id].Keys[i-1].Tok))
		}
	}
	switch x := g.in(100); {
	case x < 60:
	case x < 68 && len(sgs) > 0: // drop one signer (may fall below the threshold)
		k := g.in(len(sgs))
		sgs = append(sgs[:k:k], sgs[k+1:]...)
	case x < 76 && len(sig) > 0: // a listed signer whose key did not sign the transaction
		k := g.in(len(sig))
		sig = append(sig[:k:k], sig[k+1:]...)
	case x < 84: // an additional signer that is not a member
		o := g.regularID()
		if i, ok := g.pick(g.keysOf(o, live)); ok {
			sgs = append(sgs, Sg{o, uint64(i)})
			if g.p(70) {
				sig = append(sig, g.keyAddr(g.st[o].Keys[i-1].Tok))
			}
		}
	case x < 90: // nobody
		sgs, sig = nil, nil
	case x < 95 && len(sgs) > 0: // a revoked / non-auth / out-of-range index
		k := g.in(len(sgs))
		sgs[k].Index = uint64(g.in(5))
	default: // duplicate a signer entry
		if len(sgs) > 0 {
			sgs = append(sgs, sgs[g.in(len(sgs))])
		}
	}
	return sgs, sig
}

func (g *hgen) randGroup(depth int) *Grp {
	n := g.in(4)
	if g.p(5) {
		n = 0
	}
	gr := &Grp{}
	for i := 0; i < n; i++ {
		switch x := g.in(100); {
		case x < 70 || depth >= 2:
			id := g.regularID()
			if g.p(6) {
				id = g.weirdID()
			}
			gr.Members = append(gr.Members, Mem{ID: ip(id)})
		default:
			gr.Members = append(gr.Members, Mem{Group: g.randGroup(depth + 1)})
		}
	}
	switch x := g.in(100); {
	case x < 6:
		gr.Threshold = 0
	case x < 12:
		gr.Threshold = uint64(n + 1)
	case n > 0:
		gr.Threshold = uint64(1 + g.in(n))
	}
	return gr
}

func deepGroup(levels int) *Grp {
	gr := &Grp{Members: []Mem{{ID: ip(0)}}, Threshold: 1}
	for i := 1; i < levels; i++ {
		gr = &Grp{Members: []Mem{{Group: gr}}, Threshold: 1}
	}
	return gr
}

// liveGroup: a well-formed group over registered identities that hold a live authentication key.
func (g *hgen) liveGroup(depth int) *Grp {
	var cands []int
	for i := 0; i < 5; i++ {
		if g.st[i].Flag == 1 && len(g.keysOf(i, live)) > 0 {
			cands = append(cands, i)
		}
	}
	if len(cands) == 0 {
		return g.randGroup(0)
	}
	n := 1 + g.in(3)
	gr := &Grp{}
	for i := 0; i < n; i++ {
		if depth < 2 && g.p(20) {
			gr.Members = append(gr.Members, Mem{Group: g.liveGroup(depth + 1)})
		} else {
			gr.Members = append(gr.Members, Mem{ID: ip(cands[g.in(len(cands))])})
		}
	}
	gr.Threshold = uint64(1 + g.in(n))
	if g.p(4) {
		gr.Threshold = 0
	}
	return gr
}

func (g *hgen) groupArg() *Grp {
	switch x := g.in(100); {
	case x < 60:
		return g.liveGroup(0)
	case x < 86:
		return g.randGroup(0)
	case x < 90:
		return deepGroup(8 + g.in(2)) // 8 levels parse, 9 are too deep
	case x < 94:
		return &Grp{Raw: hex.EncodeToString(g.r.c.Bytes(1 + g.in(6)))}
	}
	return &Grp{Raw: "00"} // count 0 and no threshold
}

// ctrlProof: a proof for the controller given as raw bytes (stored or about to be installed).
func (g *hgen) ctrlProof(raw []byte) (*Proof, []int) {
	w := g.r.w
	if raw != nil && account.VerifyID(string(raw)) {
		if t, ok := w.idTok[string(raw)]; ok && t < nPoolIDs {
			idx, sig := g.ownWitness(t)
			if g.p(5) {
				return &Proof{Signers: []Sg{{t, idx}}}, sig // wrong shape for a single controller
			}
			return &Proof{Index: up(idx)}, sig
		}
	}
	if raw != nil {
		if p := w.parseGroup(raw, 0); p != nil {
			sgs, sig := g.groupSigners(p)
			switch x := g.in(100); {
			case x < 4:
				return &Proof{Index: up(uint64(1 + g.in(2)))}, sig // wrong shape for a group
			case x < 7:
				return &Proof{Raw: hex.EncodeToString(g.r.c.Bytes(1 + g.in(5)))}, sig
			case x < 9:
				return nil, sig // nothing after the fixed arguments
			}
			if sgs == nil {
				sgs = []Sg{}
			}
			return &Proof{Signers: sgs}, sig
		}
	}
	return &Proof{Index: up(uint64(1 + g.in(2)))}, []int{g.anyAddr()}
}

func (g *hgen) attrs() []Attr {
	n := 1 + g.in(3)
	if g.p(5) {
		n = 0
	}
	var out []Attr
	for i := 0; i < n; i++ {
		k := 1 + g.in(6)
		if g.p(3) {
			k = 0 // the empty attribute key
		}
		out = append(out, Attr{k, g.in(40)})
	}
	return out
}

func (g *hgen) path(id int) int {
	if a := g.st[id].Attrs; len(a) > 0 && g.p(75) {
		return a[g.in(len(a))][0]
	}
	return 1 + g.in(6)
}

var validMethods = allMethods[3:] // everything but the three registrations

func (g *hgen) register(id int) Op {
	w := g.r.w
	switch x := g.in(100); {
	case x < 40 || (x < 100 && g.noRegistered()):
		k := g.in(len(w.keys))
		o := Op{M: "regIDWithPublicKey", ID: id, Key: keyBlob(k), Sig: []int{g.keyAddr(k)}}
		if g.p(5) {
			o.M = "regIDWithAttributes"
			o.Attrs = g.attrs()
			o.AttrsBad = g.p(5)
		}
		switch y := g.in(100); {
		case y < 8:
			o.Sig = []int{g.anyAddr()}
		case y < 12:
			o.Sig = nil
		case y < 16:
			o.Key = &Blob{"bad", g.in(4)}
		case y < 19:
			o.Key = &Blob{"addr", g.anyAddr()}
		}
		return o
	case x < 75: // single controller
		c := g.regularID()
		var cands []int
		for i := 0; i < 5; i++ {
			if g.st[i].Flag == 1 && len(g.keysOf(i, live)) > 0 {
				cands = append(cands, i)
			}
		}
		if len(cands) > 0 && g.p(85) {
			c = cands[g.in(len(cands))]
		}
		if g.p(6) {
			c = g.weirdID()
		}
		pr, sig := g.ctrlProof(w.ids[c])
		return Op{M: "regIDWithController", ID: id, CtrlID: ip(c), Proof: pr, Sig: sig}
	default: // group controller
		gr := g.groupArg()
		pr, sig := g.ctrlProof(w.encGroup(gr))
		return Op{M: "regIDWithController", ID: id, Group: gr, Proof: pr, Sig: sig}
	}
}

func (g *hgen) noRegistered() bool {
	for i := 0; i < 5; i++ {
		if g.st[i].Flag == 1 && len(g.keysOf(i, live)) > 0 {
			return false
		}
	}
	return true
}

// opFor builds method m addressed to id from the current state.
func (g *hgen) opFor(m string, id int) Op {
	w := g.r.w
	st := g.st[id]
	o := Op{M: m, ID: id, Extra: g.p(20)}
	recSigners := func() {
		if st.RecVer == 1 {
			if p := w.parseGroup(st.Rec, 0); p != nil {
				o.Signers, o.Sig = g.groupSigners(p)
				if g.p(3) {
					s := hex.EncodeToString(g.r.c.Bytes(1 + g.in(4)))
					o.SgRaw = &s
				}
				return
			}
		}
		j := g.regularID()
		idx, sig := g.ownWitness(j)
		o.Signers, o.Sig = []Sg{{j, idx}}, sig
	}
	switch m {
	case "regIDWithPublicKey", "regIDWithAttributes", "regIDWithController":
		return g.register(id)
	case "addKey":
		o.Key = g.newKeyBlob(id)
		o.Operator, o.Sig = g.ownOperator(id)
		if st.RecVer == 0 && len(st.Rec) == 20 && g.p(50) {
			for t := 0; t < w.nAddrs; t++ {
				if string(w.addrs[t][:]) == string(st.Rec) {
					o.Operator, o.Sig = &Blob{"addr", t}, []int{t}
					if g.p(15) {
						o.Sig = []int{g.anyAddr()}
					}
				}
			}
		}
	case "removeKey":
		o.Operator, o.Sig = g.ownOperator(id)
		if i, ok := g.pick(g.keysOf(id, anyKey)); ok && g.p(85) {
			o.Key = keyBlob(st.Keys[i-1].Tok)
		} else {
			o.Key = g.newKeyBlob(id)
		}
		if st.RecVer == 0 && len(st.Rec) == 20 && g.p(40) {
			for t := 0; t < w.nAddrs; t++ {
				if string(w.addrs[t][:]) == string(st.Rec) {
					o.Operator, o.Sig = &Blob{"addr", t}, []int{t}
				}
			}
		}
	case "addKeyByIndex", "addNewAuthKey":
		o.Key = g.newKeyBlob(id)
		o.Idx, o.Sig = g.ownWitness(id)
	case "removeKeyByIndex":
		o.Idx, o.Sig = g.ownWitness(id)
		if i, ok := g.pick(g.keysOf(id, anyKey)); ok && g.p(85) {
			o.Key = keyBlob(st.Keys[i-1].Tok)
		} else {
			o.Key = g.newKeyBlob(id)
		}
	case "addAttributes":
		o.Attrs, o.AttrsBad = g.attrs(), g.p(4)
		o.Operator, o.Sig = g.ownOperator(id)
	case "addAttributesByIndex":
		o.Attrs, o.AttrsBad = g.attrs(), g.p(4)
		o.Idx, o.Sig = g.ownWitness(id)
	case "removeAttribute":
		o.Path = g.path(id)
		o.Operator, o.Sig = g.ownOperator(id)
	case "removeAttributeByIndex":
		o.Path = g.path(id)
		o.Idx, o.Sig = g.ownWitness(id)
	case "revokeID", "removeController", "removeRecovery":
		o.Idx, o.Sig = g.ownWitness(id)
	case "revokeIDByController":
		o.Proof, o.Sig = g.ctrlProof(st.Ctrl)
	case "addKeyByController", "addNewAuthKeyByController":
		o.Key = g.newKeyBlob(id)
		o.Proof, o.Sig = g.ctrlProof(st.Ctrl)
	case "removeKeyByController", "setAuthKeyByController", "removeAuthKeyByController":
		o.KIdx = g.keyIndex(id)
		o.Proof, o.Sig = g.ctrlProof(st.Ctrl)
	case "addAttributesByController":
		o.Attrs, o.AttrsBad = g.attrs(), g.p(4)
		o.Proof, o.Sig = g.ctrlProof(st.Ctrl)
	case "removeAttributeByController":
		o.Path = g.path(id)
		o.Proof, o.Sig = g.ctrlProof(st.Ctrl)
	case "addRecovery":
		o.Addr = g.anyAddr()
		o.Operator, o.Sig = g.ownOperator(id)
	case "changeRecovery":
		o.Addr, o.Addr2 = g.anyAddr(), g.anyAddr()
		o.Sig = []int{o.Addr2}
		if st.RecVer == 0 && len(st.Rec) == 20 && g.p(80) {
			for t := 0; t < w.nAddrs; t++ {
				if string(w.addrs[t][:]) == string(st.Rec) {
					o.Addr2, o.Sig = t, []int{t}
				}
			}
		}
		if g.p(15) {
			o.Sig = []int{g.anyAddr()}
		}
	case "setRecovery":
		o.Group = g.groupArg()
		o.Idx, o.Sig = g.ownWitness(id)
	case "updateRecovery":
		o.Group = g.groupArg()
		recSigners()
	case "addKeyByRecovery", "addNewAuthKeyByRecovery":
		o.Key = g.newKeyBlob(id)
		recSigners()
	case "removeKeyByRecovery", "setAuthKeyByRecovery", "removeAuthKeyByRecovery":
		o.KIdx = g.keyIndex(id)
		recSigners()
	case "setAuthKey", "removeAuthKey":
		o.KIdx = g.keyIndex(id)
		o.Idx, o.Sig = g.ownWitness(id)
	}
	return o
}

// keyIndex: an index into id's key list for revoke-by-index / change-authentication calls.
func (g *hgen) keyIndex(id int) uint64 {
	n := len(g.st[id].Keys)
	switch x := g.in(100); {
	case x < 80 && n > 0:
		i := uint64(1 + g.in(n))
		if g.p(5) {
			i += 1 << 32
		}
		return i
	case x < 88:
		return uint64(n + 1)
	case x < 92:
		return 1 << 32 // truncates to 0
	}
	return uint64(g.in(3)) // 0 makes revokePkByIndex index out of range (panic)
}

// next draws the next operation.
func (g *hgen) next() Op {
	// registered identities that can still act are the preferred targets
	var reg, unreg, rev []int
	for i := 0; i < 5; i++ {
		switch g.st[i].Flag {
		case 1:
			reg = append(reg, i)
		case 0:
			unreg = append(unreg, i)
		case 2:
			rev = append(rev, i)
		}
	}
	var id int
	switch x := g.in(100); {
	case x < 5:
		id = g.weirdID()
	case x < 14 && len(rev) > 0:
		id = rev[g.in(len(rev))]
	case len(reg) < 3 && len(unreg) > 0 && x < 60:
		id = unreg[g.in(len(unreg))]
	case len(reg) > 0 && x < 88:
		id = reg[g.in(len(reg))]
	default:
		id = g.regularID()
	}
	st := g.st[id]
	switch {
	case st.Flag == 0 && g.p(85):
		return g.register(id)
	case st.Flag == 2 && g.p(45):
		return g.register(id)
	}
	hasLive := len(g.keysOf(id, live)) > 0
	byClass := func(c string) []string {
		var out []string
		for _, m := range validMethods {
			if mclass(m) == c {
				out = append(out, m)
			}
		}
		return out
	}
	var cand []string
	switch x := g.in(100); {
	case st.Ctrl != nil && (x < 45 || !hasLive && x < 85):
		cand = byClass("by-controller")
	case hasLive && x >= 96:
		cand = []string{"revokeID"}
	case st.RecVer == 1 && x < 75:
		cand = byClass("by-recovery")
	case st.RecVer == 0 && len(st.Rec) == 20 && x < 70:
		cand = []string{"changeRecovery", "addKey", "removeKey", "removeRecovery"}
	case st.RecVer == -1 && hasLive && x < 60:
		cand = []string{"setRecovery", "setRecovery", "addRecovery"}
	case len(st.Attrs) > 0 && x < 70:
		cand = []string{"removeAttribute", "removeAttributeByIndex", "removeAttributeByController", "addAttributes"}
	case x < 92:
		cand = byClass("by-own-key")
	default:
		cand = validMethods
	}
	m := cand[g.in(len(cand))]
	if g.p(6) {
		side := []string{"addService", "addService", "updateService", "removeService", "addContext", "addContext", "removeContext"}
		o := Op{M: side[g.in(len(side))], ID: id, Path: 1 + g.in(3), KIdx: uint64(g.in(5))}
		o.Idx, o.Sig = g.ownWitness(id)
		return o
	}
	// revocation ends an identity's story: keep it rarer
	if (m == "revokeID" || m == "revokeIDByController") && g.p(35) {
		m = "addKeyByIndex"
	}
	// removing the recovery / controller again right away starves the by-recovery / by-controller calls
	if (m == "removeRecovery" || m == "removeController") && g.p(60) {
		m = "addAttributesByIndex"
	}
	return g.opFor(m, id)
}

// genHistory draws a history of n operations, executing it on a scratch store as it goes.
func (r *runner) genHistory(rng *rand.Rand, n int, tag string) *History {
	g := &hgen{r: r, rng: rng}
	w := r.w
	w.reset()
	h := &History{Tag: tag}
	// a third of the histories start on the old code path
	nLegacy := 0
	if legacyPossible() && rng.Intn(3) == 0 {
		nLegacy = 6 + rng.Intn(10)
	}
	for len(h.Ops) < n {
		g.st = w.dumpAll()[:nPoolIDs]
		o := g.next()
		o.Legacy = len(h.Ops) < nLegacy && !sideMethods[o.M]
		e := w.encode(&o)
		var sig = r.signerAddrs(&o)
		w.call(o.Legacy, sig, o.M, e.args)
		h.Ops = append(h.Ops, o)
	}
	for _, id := range w.ids[nPoolIDs:] {
		delete(w.idTok, string(id))
	}
	w.ids = w.ids[:nPoolIDs]
	return h
}
