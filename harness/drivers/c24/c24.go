// Package c24: P2P message decoding (p2pserver/message/types: ReadMessage, WriteMessage, every
// payload Deserialization/Serialization; p2pserver/common PeerId/PeerKeyId/Checksum).
//
// Correspondence: every evaluated payload (command, bytes) is recorded with the projected outcome
// of makeEmptyMessage(cmd).Deserialization (error class, or all decoded fields + Pos() +
// Serialization output) for Model/P2PMsg.v; frames are recorded with the outcome of
// types.ReadMessage, structured messages with the output of types.WriteMessage. Public-key parsing,
// signature verification and the clock enter the model as recorded data.
//
// Oracle (directly on the implementation, independent of the model): no panic; an accepted payload
// re-serializes to the payload (each leniency that breaks this is classified into a narrow finding
// class); wrong magic, oversized length, bad checksum and truncated frames are rejected (header
// fields parsed here independently, checksum recomputed with crypto/sha256); an accepted frame
// written back with WriteMessage reproduces the frame; decoding a short payload with a huge
// declared count, or a frame with an oversized declared length, does not allocate beyond a small
// multiple of the bytes present (runtime.MemStats.TotalAlloc deltas).
package c24

import (
	"bytes"
	"crypto/sha256"
	"encoding/binary"
	"encoding/json"
	"fmt"
	"io"
	"runtime"
	"strings"
	"time"

	"github.com/ontio/ontology-crypto/keypair"
	"github.com/ontio/ontology/account"
	"github.com/ontio/ontology/common"
	"github.com/ontio/ontology/common/config"
	vconfig "github.com/ontio/ontology/consensus/vbft/config"
	ct "github.com/ontio/ontology/core/types"
	pcom "github.com/ontio/ontology/p2pserver/common"
	"github.com/ontio/ontology/p2pserver/message/types"

	"verif/harness/gen"
	"verif/harness/hx"
)

func init() {
	gen.RegisterFile("P2PConsts.v", produceConsts)
	hx.Register("C24", Run)
}

// ---------- replayable input ----------

type sigTriple struct {
	Key  string `json:"key"`
	Data string `json:"data"`
	Sig  string `json:"sig"`
}

type input struct {
	Kind    string      `json:"kind"` // payload | frame
	Label   string      `json:"label,omitempty"`
	Cmd     string      `json:"cmd,omitempty"`     // payload: command (may contain any bytes), hex
	Payload string      `json:"payload,omitempty"` // hex
	Stream  string      `json:"stream,omitempty"`  // frame: hex
	Magic   uint32      `json:"magic,omitempty"`
	Sigs    []sigTriple `json:"sigs,omitempty"` // (key, data, sig) triples known to verify
	Alloc   bool        `json:"alloc,omitempty"`
	Emb     bool        `json:"emb,omitempty"`    // embedded core/types object: oracle only
	NoCoq   bool        `json:"nocoq,omitempty"`  // too large for the in-Coq evaluation
	Expect  string      `json:"expect,omitempty"` // "ok": a structured, unmodified message must be accepted
	Batch   []input     `json:"batch,omitempty"`  // kind "batch": run all (used for the child process)
	Frames  []string    `json:"frames,omitempty"` // kind "history": frames decoded in this order by one process (hex)
	Pad     uint32      `json:"pad,omitempty"`    // frame: Stream is followed by Pad copies of PadByte (30 MiB bodies)
	PadByte byte        `json:"pad_byte,omitempty"`
}

// ---------- finding classes ----------

const (
	clsAddr     = "addr:count-over-64-not-reserialized"
	clsInv      = "inv:count-over-64-not-reserialized"
	clsVersion  = "version:malformed-softversion-accepted"
	clsFind     = "findnodeack:irregular-bool-or-length-accepted"
	clsBlock    = "block:missing-merkleroot-or-ccflag-accepted"
	clsPubKey   = "pubkey:non-canonical-encoding-accepted"
	clsTrailing = "any:trailing-bytes-ignored"
)

// ---------- error classes (must match Corr/C24.v eclass) ----------

func classify(err error) string {
	if err == io.ErrUnexpectedEOF || err == io.EOF {
		return "CEof"
	}
	if err == common.ErrIrregularData {
		return "CIrregular"
	}
	m := err.Error()
	switch {
	case strings.Contains(m, "invalid kad public key"):
		return "CKadKey"
	case strings.Contains(m, "subnet members request message expired"):
		return "CExpired"
	case strings.Contains(m, "too many node keys"):
		return "CTooMany"
	case strings.Contains(m, "vote index out of range"):
		return "CVoteIdx"
	case strings.HasPrefix(m, "invalid signature data") || m == "signature verification failed":
		return "CSig"
	}
	return "CKey"
}

// ---------- running the implementation ----------

type pres struct {
	panicked bool
	pmsg     string
	err      error
	msg      types.Message
	pos      uint64
	reser    []byte
	serPanic string
	now1h    uint32
}

func now1h() uint32 { return uint32(time.Now().Add(-time.Hour).Unix()) }

func runPayload(cmd string, payload []byte) pres {
	for {
		var r pres
		r.now1h = now1h()
		buf := append([]byte{}, payload...)
		r.panicked, r.pmsg = hx.Recover(func() {
			m := types.VerifMakeEmptyMessage(cmd)
			src := common.NewZeroCopySource(buf)
			r.err = m.Deserialization(src)
			r.pos = src.Pos()
			if r.err == nil {
				r.msg = m
			}
		})
		if now1h() != r.now1h {
			continue // the clock ticked during the call: the recorded value would be ambiguous
		}
		if !r.panicked && r.err == nil {
			p, msg := hx.Recover(func() {
				sink := common.NewZeroCopySink(nil)
				r.msg.Serialization(sink)
				r.reser = append([]byte{}, sink.Bytes()...)
			})
			if p {
				r.serPanic = msg
			}
		}
		return r
	}
}

// ---------- projection of decoded messages to Coq terms ----------

func cb(b []byte) string { return hx.CoqBytes(b) }

func pidBytes(id pcom.PeerId) []byte {
	s := common.NewZeroCopySink(nil)
	id.Serialization(s)
	return append([]byte{}, s.Bytes()...)
}

func serPub(k keypair.PublicKey) (out []byte) {
	if k == nil {
		return nil
	}
	hx.Recover(func() { out = keypair.SerializePublicKey(k) })
	return
}

// project returns the Coq term of type `msg bytes`, or ok=false for the embedded kinds.
func project(m types.Message) (term string, ok bool) {
	switch v := m.(type) {
	case *types.Addr:
		var l []string
		for _, a := range v.NodeAddrs {
			l = append(l, fmt.Sprintf("mkPA %s %d %s %d %d %s", hx.CoqZ(a.Time), a.Services, cb(a.IpAddr[:]), a.Port, a.ConsensusPort, cb(pidBytes(a.ID))))
		}
		return "MAddr " + hx.CoqList(l), true
	case *types.AddrReq:
		return "MAddrReq", true
	case *types.Version:
		p := v.P
		return fmt.Sprintf("MVersion (mkVer %d %d %s %d %d %d %s %d %d %d %s %s)", p.Version, p.Services, hx.CoqZ(p.TimeStamp),
			p.SyncPort, p.HttpInfoPort, p.ConsPort, cb(p.Cap[:]), p.Nonce, p.StartHeight, p.Relay, hx.CoqBool(p.IsConsensus), cb([]byte(p.SoftVersion))), true
	case *types.VerACK:
		return "MVerAck " + hx.CoqBool(v.VerifIsConsensus()), true
	case *types.Ping:
		return fmt.Sprintf("MPing %d", v.Height), true
	case *types.Pong:
		return fmt.Sprintf("MPong %d", v.Height), true
	case *types.HeadersReq:
		return fmt.Sprintf("MHeadersReq %d %s %s", v.Len, cb(v.HashStart[:]), cb(v.HashEnd[:])), true
	case *types.BlocksReq:
		return fmt.Sprintf("MBlocksReq %d %s %s", v.HeaderHashCount, cb(v.HashStart[:]), cb(v.HashStop[:])), true
	case *types.DataReq:
		return fmt.Sprintf("MDataReq %d %s", byte(v.DataType), cb(v.Hash[:])), true
	case *types.Inv:
		var l []string
		for _, h := range v.P.Blk {
			l = append(l, cb(h[:]))
		}
		return fmt.Sprintf("MInv %d %s", byte(v.P.InvType), hx.CoqList(l)), true
	case *types.NotFound:
		return "MNotFound " + cb(v.Hash[:]), true
	case *types.FindNodeReq:
		return "MFindNodeReq " + cb(pidBytes(v.TargetID)), true
	case *types.FindNodeResp:
		var l []string
		for _, p := range v.CloserPeers {
			l = append(l, fmt.Sprintf("(%s, %s)", cb(pidBytes(p.ID)), cb([]byte(p.Address))))
		}
		return fmt.Sprintf("MFindNodeResp %s %s %s %s", cb(pidBytes(v.TargetID)), hx.CoqBool(v.Success), cb([]byte(v.Address)), hx.CoqList(l)), true
	case *types.UpdatePeerKeyId:
		return "MUpdateKadId " + cb(serPub(v.KadKeyId.PublicKey)), true
	case *types.SubnetMembersRequest:
		var pk []byte
		if v.Timestamp != 0 {
			pk = serPub(v.PubKey)
		}
		return fmt.Sprintf("MSubnetReq %s %s %d %s %s", cb(pidBytes(v.From)), cb(pidBytes(v.To)), v.Timestamp, cb(pk), cb(v.Sig)), true
	case *types.SubnetMembers:
		var l []string
		for _, p := range v.Members {
			l = append(l, fmt.Sprintf("(%s, %s)", cb([]byte(p.PubKey)), cb([]byte(p.Addr))))
		}
		return "MSubnetMembers " + hx.CoqList(l), true
	case *types.OfflineWitnessMsg:
		var ks, vs []string
		for _, k := range v.NodePubKeys {
			ks = append(ks, cb([]byte(k)))
		}
		for _, x := range v.Voters {
			vs = append(vs, fmt.Sprintf("mkVoter %s %s %s", cb(x.OfflineIndex), cb([]byte(x.PubKey)), cb(x.Sig)))
		}
		return fmt.Sprintf("MOffline (mkOff %d %d %s %s %s %s)", v.Timestamp, v.View, hx.CoqList(ks), cb([]byte(v.Proposer)), cb(v.ProposerSig), hx.CoqList(vs)), true
	case *types.Consensus:
		p := v.Cons
		return fmt.Sprintf("MConsensus (mkCons %d %s %d %d %d %s %s %s)", p.Version, cb(p.PrevHash[:]), p.Height, p.BookkeeperIndex, p.Timestamp,
			cb(p.Data), cb(serPub(p.Owner)), cb(p.Signature)), true
	case *types.UnknownMessage:
		return fmt.Sprintf("MUnknown %s %s", cb([]byte(v.Cmd)), cb(v.Payload)), true
	}
	return "", false
}

// ---------- recorded externals ----------

type pkEntry struct {
	in  []byte
	out []byte // nil: rejected
	ok  bool
}

func parsePub(b []byte) (e pkEntry) {
	e.in = append([]byte{}, b...)
	hx.Recover(func() {
		k, err := keypair.DeserializePublicKey(b)
		if err == nil {
			e.out = keypair.SerializePublicKey(k)
			e.ok = true
		}
	})
	return
}

func parseVPub(b []byte) (e pkEntry) {
	e.in = append([]byte{}, b...)
	hx.Recover(func() {
		k, err := vconfig.Pubkey(string(b))
		if err == nil {
			e.out = keypair.SerializePublicKey(k)
			e.ok = true
		}
	})
	return
}

// pkCandidates finds, with the primitive reader only, the byte strings the decoder will hand to
// DeserializePublicKey / vconfig.Pubkey for this payload (so that the model's table has an answer).
func pkCandidates(cmd string, payload []byte) (pk, vpk [][]byte) {
	src := common.NewZeroCopySource(payload)
	switch cmd {
	case pcom.UPDATE_KADID_TYPE:
		if d, _, _, eof := src.NextVarBytes(); !eof {
			pk = append(pk, d)
		}
	case pcom.CONSENSUS_TYPE:
		src.Skip(4 + 32 + 4 + 2 + 4)
		if _, _, _, eof := src.NextVarBytes(); !eof {
			if d, _, _, eof := src.NextVarBytes(); !eof {
				pk = append(pk, d)
			}
		}
	case pcom.GET_SUBNET_MEMBERS_TYPE:
		src.Skip(20 + 20 + 4)
		if d, _, _, eof := src.NextVarBytes(); !eof {
			pk = append(pk, d)
		}
	case pcom.SUBNET_OFFLINE_TYPE:
		src.Skip(8)
		n, eof := src.NextUint32()
		if eof || n > 255 {
			return
		}
		for i := uint32(0); i < n; i++ {
			if _, _, _, eof := src.NextVarBytes(); eof {
				return
			}
		}
		if d, _, _, eof := src.NextVarBytes(); !eof {
			vpk = append(vpk, d)
		}
	}
	return
}

func coqPkTable(es []pkEntry) string {
	var l []string
	for _, e := range es {
		l = append(l, fmt.Sprintf("(%s, %s)", cb(e.in), hx.CoqOpt(e.ok, cb(e.out))))
	}
	return hx.CoqList(l)
}

func coqEnv(cmd string, payload []byte, sigs []sigTriple, now uint32) string {
	pk, vpk := pkCandidates(cmd, payload)
	var pe, ve []pkEntry
	for _, b := range pk {
		pe = append(pe, parsePub(b))
	}
	for _, b := range vpk {
		ve = append(ve, parseVPub(b))
	}
	var sl []string
	for _, s := range sigs {
		sl = append(sl, fmt.Sprintf("(%s, %s, %s)", cb(hx.UnHex(s.Key)), cb(hx.UnHex(s.Data)), cb(hx.UnHex(s.Sig))))
	}
	return fmt.Sprintf("(mkEnv %s %s %s %d)", coqPkTable(pe), coqPkTable(ve), hx.CoqList(sl), now)
}

// ---------- independent helpers for the oracle ----------

// varint reads a Bitcoin-style variable-length integer and says whether it is minimal.
func varint(b []byte) (v uint64, n int, minimal, ok bool) {
	if len(b) == 0 {
		return
	}
	switch b[0] {
	case 0xfd:
		if len(b) < 3 {
			return
		}
		v = uint64(binary.LittleEndian.Uint16(b[1:]))
		return v, 3, v >= 0xfd, true
	case 0xfe:
		if len(b) < 5 {
			return
		}
		v = uint64(binary.LittleEndian.Uint32(b[1:]))
		return v, 5, v > 0xffff, true
	case 0xff:
		if len(b) < 9 {
			return
		}
		v = binary.LittleEndian.Uint64(b[1:])
		return v, 9, v > 0xffffffff, true
	}
	return uint64(b[0]), 1, true, true
}

// varstr: a well-formed, minimal, complete length-prefixed string at the start of b.
func varstrOK(b []byte) (total int, ok bool) {
	v, n, min, ok := varint(b)
	if !ok || !min || uint64(len(b)-n) < v {
		return 0, false
	}
	return n + int(v), true
}

// findRespIrregular walks a findnodeack payload and reports an irregular bool or non-minimal length.
func findRespIrregular(p []byte) bool {
	if len(p) < 21 {
		return false
	}
	if p[20] > 1 {
		return true
	}
	off := 21
	walk := func() (bad, stop bool) {
		v, n, min, ok := varint(p[off:])
		if !ok {
			return false, true
		}
		if !min {
			return true, true
		}
		if uint64(len(p)-off-n) < v {
			return false, true
		}
		off += n + int(v)
		return false, false
	}
	if bad, stop := walk(); stop {
		return bad
	}
	if len(p)-off < 4 {
		return false
	}
	cnt := binary.LittleEndian.Uint32(p[off:])
	off += 4
	for i := uint32(0); i < cnt; i++ {
		if len(p)-off < 20 {
			return false
		}
		off += 20
		if bad, stop := walk(); stop {
			return bad
		}
	}
	return false
}

// lenientClass says which finding class (if any) legitimately explains reser != payload[:pos].
func lenientClass(cmd string, payload []byte) string {
	switch cmd {
	case pcom.ADDR_TYPE:
		if len(payload) >= 8 && binary.LittleEndian.Uint64(payload) > pcom.MAX_ADDR_NODE_CNT {
			return clsAddr
		}
	case pcom.INV_TYPE:
		if len(payload) >= 5 && binary.LittleEndian.Uint32(payload[1:]) > pcom.MAX_INV_BLK_CNT {
			return clsInv
		}
	case pcom.VERSION_TYPE:
		const fixed = 4 + 8 + 8 + 2 + 2 + 2 + 32 + 8 + 8 + 1 + 1
		if len(payload) >= fixed {
			if _, ok := varstrOK(payload[fixed:]); !ok {
				return clsVersion
			}
		}
	case pcom.FINDNODE_RESP_TYPE:
		if findRespIrregular(payload) {
			return clsFind
		}
	case pcom.BLOCK_TYPE:
		blk := new(ct.Block)
		src := common.NewZeroCopySource(append([]byte{}, payload...))
		var err error
		if p, _ := hx.Recover(func() { err = blk.Deserialization(src) }); !p && err == nil {
			rest := payload[src.Pos():]
			if len(rest) < 33 || rest[32] > 1 {
				return clsBlock
			}
		}
	case pcom.UPDATE_KADID_TYPE, pcom.CONSENSUS_TYPE, pcom.GET_SUBNET_MEMBERS_TYPE:
		pk, _ := pkCandidates(cmd, payload)
		for _, b := range pk {
			if e := parsePub(b); e.ok && !bytes.Equal(e.in, e.out) {
				return clsPubKey
			}
		}
	}
	return ""
}

// embeddedRoundTrips: for the message types that wrap a core/types object, does that object alone
// (decoded and re-encoded with core/types) reproduce its bytes? If not, a re-serialization
// difference belongs to the embedded codec (properties C19/C20), not to the P2P layer.
func embeddedRoundTrips(cmd string, payload []byte) bool {
	ok := true
	hx.Recover(func() {
		src := common.NewZeroCopySource(append([]byte{}, payload...))
		sink := common.NewZeroCopySink(nil)
		switch cmd {
		case pcom.TX_TYPE:
			tx := &ct.Transaction{}
			if tx.Deserialization(src) == nil {
				tx.Serialization(sink)
				ok = bytes.Equal(sink.Bytes(), payload[:src.Pos()])
			}
		case pcom.BLOCK_TYPE:
			b := new(ct.Block)
			if b.Deserialization(src) == nil {
				b.Serialization(sink)
				ok = bytes.Equal(sink.Bytes(), payload[:src.Pos()])
			}
		case pcom.HEADERS_TYPE:
			n, eof := src.NextUint32()
			if eof {
				return
			}
			for i := uint32(0); i < n; i++ {
				var h ct.Header
				start := src.Pos()
				if h.Deserialization(src) != nil {
					return
				}
				sink.Reset()
				h.Serialization(sink)
				if !bytes.Equal(sink.Bytes(), payload[start:src.Pos()]) {
					ok = false
					return
				}
			}
		}
	})
	return ok
}

func allocOf(f func()) uint64 {
	var a, b runtime.MemStats
	runtime.ReadMemStats(&a)
	f()
	runtime.ReadMemStats(&b)
	return b.TotalAlloc - a.TotalAlloc
}

func lenBucket(n int) string {
	for _, b := range []int{0, 8, 32, 64, 128, 512, 4096} {
		if n <= b {
			return fmt.Sprintf("<=%d", b)
		}
	}
	return ">4096"
}

func cmdLabel(cmd string) string {
	if _, ok := types.VerifMakeEmptyMessage(cmd).(*types.UnknownMessage); ok {
		return "unknown"
	}
	return cmd
}

// ---------- one payload evaluation ----------

func doPayload(c *hx.Ctx, in input) {
	cmd := string(hx.UnHex(in.Cmd))
	payload := hx.UnHex(in.Payload)
	c.Eval()
	var r pres
	var alloc uint64
	if in.Alloc {
		for i := 0; i < 3; i++ { // keep the smallest of three measurements (a clock retry inside runPayload would add up)
			a := allocOf(func() { r = runPayload(cmd, payload) })
			if i == 0 || a < alloc {
				alloc = a
			}
		}
	} else {
		r = runPayload(cmd, payload)
	}
	kind := cmdLabel(cmd)
	c.Count("payload:" + kind)
	c.Count("payload-len:" + lenBucket(len(payload)))
	if r.panicked {
		c.Count("outcome:panic")
		c.Fail("panic:"+kind, "decoding a payload panicked (Link.Rx has no recover: the node dies)", in, r.pmsg, "message or error")
	} else if r.err != nil {
		c.Count("outcome:err:" + classify(r.err))
		if in.Expect == "ok" {
			c.Fail("reject:"+kind, "a message serialized by the implementation is rejected by its own decoder", in, r.err.Error(), "accepted")
		}
	} else {
		c.Count("outcome:ok")
		if r.serPanic != "" {
			c.Fail("panic:reserialize:"+kind, "re-serializing an accepted message panicked", in, r.serPanic, "bytes")
		} else {
			consumed := payload[:r.pos]
			if !bytes.Equal(r.reser, consumed) {
				if cls := lenientClass(cmd, payload); cls != "" {
					c.Count("lenient:" + cls)
					c.Fail(cls, "accepted payload does not re-serialize to the bytes consumed", in, hx.Hex(r.reser), hx.Hex(consumed))
				} else if in.Emb && !embeddedRoundTrips(cmd, payload) {
					c.Count("embedded-codec-not-canonical:" + kind)
				} else {
					c.Fail("reserialize:"+kind, "accepted payload does not re-serialize to the bytes consumed", in, hx.Hex(r.reser), hx.Hex(consumed))
				}
			} else if int(r.pos) < len(payload) {
				c.Count("lenient:" + clsTrailing)
				c.Fail(clsTrailing, "accepted payload has unread trailing bytes: re-serialization is a proper prefix of the payload", in,
					fmt.Sprintf("consumed %d of %d", r.pos, len(payload)), "whole payload consumed or error")
			} else {
				c.Count("roundtrip-exact:" + kind)
			}
		}
	}
	if in.Alloc {
		bound := uint64(16384 + 96*len(payload))
		c.Count("alloc-measured")
		if alloc > bound {
			c.Fail("alloc:"+kind, "decoding allocated far more than the payload justifies", in, alloc, fmt.Sprintf("<= %d", bound))
		}
	}
	if len(payload) > 1 || kind == "unknown" {
		c.Nontrivial("p" + in.Cmd + "/" + in.Payload)
	}
	c.Sample(map[string]interface{}{"kind": "payload", "cmd": cmd, "label": in.Label, "len": len(payload)})
	if in.Emb || in.NoCoq {
		return
	}
	var out string
	switch {
	case r.panicked:
		out = "OErr CPanic"
	case r.err != nil:
		out = "OErr " + classify(r.err)
	default:
		term, ok := project(r.msg)
		if !ok {
			return
		}
		out = fmt.Sprintf("OOk (%s) %d %s", term, r.pos, cb(r.reser))
	}
	c.Case(fmt.Sprintf("CPayload %s %s %s (%s)", cb([]byte(cmd)), cb(payload), coqEnv(cmd, payload, in.Sigs, r.now1h), out), in)
}

// ---------- one frame evaluation ----------

func checksum4(p []byte) []byte {
	a := sha256.Sum256(p)
	b := sha256.Sum256(a[:])
	return b[:4]
}

func frame(magic uint32, cmd string, payload []byte) []byte {
	h := make([]byte, 24)
	binary.LittleEndian.PutUint32(h, magic)
	copy(h[4:16], cmd)
	binary.LittleEndian.PutUint32(h[16:], uint32(len(payload)))
	copy(h[20:], checksum4(payload))
	return append(h, payload...)
}

func doFrame(c *hx.Ctx, in input) {
	stream := hx.UnHex(in.Stream)
	if in.Pad > 0 {
		stream = append(stream, bytes.Repeat([]byte{in.PadByte}, int(in.Pad))...)
		in.NoCoq = true
	}
	c.Eval()
	config.DefConfig.P2PNode.NetworkMagic = in.Magic
	var msg types.Message
	var size uint32
	var err error
	var rest int
	var n1 uint32
	var panicked bool
	var pmsg string
	var alloc uint64
	for {
		n1 = now1h()
		rd := bytes.NewReader(stream)
		call := func() { panicked, pmsg = hx.Recover(func() { msg, size, err = types.ReadMessage(rd) }) }
		if in.Alloc {
			alloc = allocOf(call) // measured per attempt, so a retry does not add up
		} else {
			call()
		}
		rest = rd.Len()
		if now1h() == n1 {
			break
		}
	}
	c.Count("frame-len:" + lenBucket(len(stream)))
	// independent view of the header
	var hMagic, hLen uint32
	var hCmd string
	complete, ckOK := false, false
	var payload []byte
	if len(stream) >= 24 {
		hMagic = binary.LittleEndian.Uint32(stream)
		hCmd = string(bytes.TrimRight(stream[4:16], "\x00"))
		hLen = binary.LittleEndian.Uint32(stream[16:])
		if uint64(len(stream)-24) >= uint64(hLen) {
			complete = true
			payload = stream[24 : 24+int(hLen)]
			ckOK = bytes.Equal(checksum4(payload), stream[20:24])
		}
	}
	for _, k := range embKinds {
		if hCmd == k {
			in.Emb = true // embedded core/types object: compared by the oracle only
		}
	}
	var out string
	switch {
	case panicked:
		c.Count("frame:panic")
		c.Fail("panic:frame", "ReadMessage panicked", in, pmsg, "message or error")
		out = "FoErr (KDecode CPanic)"
	case err != nil:
		if in.Expect == "ok" {
			c.Fail("reject:frame", "a well-formed frame (right magic, length <= MAX_PAYLOAD_LEN, right checksum, payload written by the implementation or kept verbatim) is rejected", in, err.Error(), "accepted")
		}
		m := err.Error()
		switch {
		case len(stream) < 24:
			out = "FoErr KShortHeader"
		case strings.HasPrefix(m, "unmatched magic number"):
			out = "FoErr KMagic"
		case strings.HasPrefix(m, "msg payload length"):
			out = "FoErr KLength"
		case strings.HasPrefix(m, "message checksum mismatch"):
			out = "FoErr KChecksum"
		case !complete:
			out = "FoErr KShortPayload"
		default:
			out = "FoErr (KDecode " + classify(err) + ")"
		}
		c.Count("frame:" + strings.Fields(out)[1])
	default:
		c.Count("frame:ok:" + cmdLabel(hCmd))
		// acceptance implies every header check
		if len(stream) < 24 || hMagic != in.Magic || hLen > pcom.MAX_PAYLOAD_LEN || !complete || !ckOK {
			c.Fail("frame:accepted-bad-header", "a frame with wrong magic / oversized length / bad checksum / missing bytes was accepted", in,
				map[string]interface{}{"magic": hMagic, "len": hLen, "complete": complete, "checksum_ok": ckOK}, "rejected")
		}
		if size != hLen || rest != len(stream)-24-int(hLen) {
			c.Fail("frame:size", "returned payload size or reader position wrong", in, fmt.Sprint(size, rest), fmt.Sprint(hLen, len(stream)-24-int(hLen)))
		}
		// write it back
		var back []byte
		p, pm := hx.Recover(func() {
			sink := common.NewZeroCopySink(nil)
			types.WriteMessage(sink, msg)
			back = append([]byte{}, sink.Bytes()...)
		})
		if p {
			c.Fail("panic:writemessage", "WriteMessage of an accepted message panicked", in, pm, "bytes")
		} else if complete && !bytes.Equal(back, stream[:24+int(hLen)]) {
			// explained by a payload-level leniency?
			cls := lenientClass(hCmd, payload)
			if cls == "" && len(back) >= 24 && len(back)-24 < len(payload) && bytes.Equal(back[24:], payload[:len(back)-24]) &&
				bytes.Equal(back[:16], stream[:16]) {
				cls = clsTrailing
			}
			if cls != "" {
				c.Count("lenient:" + cls)
				c.Fail(cls, "accepted frame is not reproduced by WriteMessage", in, hexHead(back), hexHead(stream[:24+int(hLen)]))
			} else if in.Emb && !embeddedRoundTrips(hCmd, payload) {
				c.Count("embedded-codec-not-canonical:" + cmdLabel(hCmd))
			} else {
				c.Fail("reserialize:frame", "accepted frame is not reproduced by WriteMessage", in, hexHead(back), hexHead(stream[:24+int(hLen)]))
			}
		} else {
			c.Count("frame-roundtrip-exact")
		}
		if term, ok := project(msg); ok {
			out = fmt.Sprintf("FoOk (%s) %d %d", term, size, rest)
		}
	}
	// rejection clauses, from the independent header view
	if !panicked && err == nil {
		// handled above
	} else if !panicked {
		// nothing: an error is always allowed
	}
	if in.Alloc {
		c.Count("alloc-measured")
		bound := uint64(65536 + 96*len(stream))
		if len(stream) >= 24 && hMagic == in.Magic && hLen <= pcom.MAX_PAYLOAD_LEN {
			bound += uint64(hLen) // make([]byte, hdr.Length) is the one allocation the property allows
		}
		if alloc > bound {
			c.Fail("alloc:frame", "ReadMessage allocated beyond the maximum payload size / the bytes present", in, alloc, fmt.Sprintf("<= %d", bound))
		}
	}
	c.Nontrivial("f" + fmt.Sprint(in.Magic, in.Pad, in.PadByte) + in.Stream)
	c.Sample(map[string]interface{}{"kind": "frame", "label": in.Label, "len": len(stream), "outcome": out})
	if in.Emb || in.NoCoq || out == "" {
		return
	}
	c.Case(fmt.Sprintf("CFrame %d %s %s (%s)", in.Magic, cb(stream), coqEnv(hCmd, payload, in.Sigs, n1), out), in)
}

// doWrite: WriteMessage of a structured message against the model's write_message.
func doWrite(c *hx.Ctx, magic uint32, m types.Message, label string, noAcc bool) {
	c.Eval()
	config.DefConfig.P2PNode.NetworkMagic = magic
	var out []byte
	p, pm := hx.Recover(func() {
		sink := common.NewZeroCopySink(nil)
		types.WriteMessage(sink, m)
		out = append([]byte{}, sink.Bytes()...)
	})
	if p {
		c.Fail("panic:writemessage", "WriteMessage panicked", label, pm, "bytes")
		return
	}
	c.Count("write:" + m.CmdType())
	// oracle: the frame it wrote is accepted and gives the same bytes again
	rd := bytes.NewReader(out)
	var m2 types.Message
	var err error
	p, pm = hx.Recover(func() { m2, _, err = types.ReadMessage(rd) })
	if p {
		c.Fail("panic:frame", "ReadMessage panicked on WriteMessage output", hx.Hex(out), pm, "message")
		return
	}
	if err != nil {
		if noAcc {
			c.Count("write:rejected-as-expected:" + m.CmdType())
		} else {
			c.Fail("reject:"+m.CmdType(), "WriteMessage output rejected by ReadMessage", hx.Hex(out), err.Error(), "accepted")
		}
	} else {
		sink := common.NewZeroCopySink(nil)
		types.WriteMessage(sink, m2)
		if !bytes.Equal(sink.Bytes(), out) {
			c.Fail("reserialize:frame", "write/read/write differs", hx.Hex(out), hx.Hex(sink.Bytes()), hx.Hex(out))
		}
	}
	c.Nontrivial("w" + hx.Hex(out))
	if term, ok := project(m); ok {
		c.Case(fmt.Sprintf("CWrite %d (%s) %s", magic, term, cb(out)), map[string]interface{}{"write": label, "out": hx.Hex(out)})
	}
}

func run(c *hx.Ctx, in input) {
	switch in.Kind {
	case "payload":
		doPayload(c, in)
	case "frame":
		doFrame(c, in)
	case "history":
		if in.Label == "child-verdicts" {
			childHistory(c, in)
		} else {
			(&world{c: c}).doHistorySeq(in)
		}
	case "batch":
		for _, x := range in.Batch {
			x.NoCoq = true
			run(c, x)
		}
	}
}

func jsonUnmarshal(raw json.RawMessage, v interface{}) error { return json.Unmarshal(raw, v) }

var _ = account.NewAccount

func hexHead(b []byte) string {
	if len(b) > 4096 {
		return hx.Hex(b[:4096]) + fmt.Sprintf("...(%d bytes)", len(b))
	}
	return hx.Hex(b)
}
