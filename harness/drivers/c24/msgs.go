package c24

import (
	"bytes"
	"encoding/binary"
	"fmt"
	"time"

	"github.com/ontio/ontology-crypto/ec"
	"github.com/ontio/ontology-crypto/keypair"
	"github.com/ontio/ontology/account"
	"github.com/ontio/ontology/common"
	vconfig "github.com/ontio/ontology/consensus/vbft/config"
	"github.com/ontio/ontology/core/payload"
	"github.com/ontio/ontology/core/signature"
	ct "github.com/ontio/ontology/core/types"
	pcom "github.com/ontio/ontology/p2pserver/common"
	"github.com/ontio/ontology/p2pserver/message/types"

	"verif/harness/hx"
)

// Public keys that satisfy validatePublicKey at Difficulty 18 (found once with RandPeerKeyId; a
// search replaces them if the difficulty in the tree changes).
var kadKeysHex = []string{
	"034c282eac004f0eb49fc0b82df1f1fde47ef3744a7890bbd1e740adfcd4c75dd6",
	"03081a8edcbb74e056ca9c7a0170d19165a285bc8976daba89b403e844ab40f375",
	"0363de94935dbe2f658334e309ada761d33caddf97c7086d8f45d7bfec60cbb0f1",
	"02f9679a10ee5e286a5e72a897b71a9b6138bd2b88ddab39a84ca6df8012073a4f",
}

type world struct {
	c       *hx.Ctx
	accts   []*account.Account
	kadKeys []keypair.PublicKey
}

func newWorld(c *hx.Ctx) *world {
	w := &world{c: c}
	for i := 0; i < 4; i++ {
		w.accts = append(w.accts, account.NewAccount(""))
	}
	for _, h := range kadKeysHex {
		k, err := keypair.DeserializePublicKey(hx.UnHex(h))
		if err != nil {
			continue
		}
		m := &types.UpdatePeerKeyId{}
		sink := common.NewZeroCopySink(nil)
		sink.WriteVarBytes(keypair.SerializePublicKey(k))
		if m.Deserialization(common.NewZeroCopySource(sink.Bytes())) == nil {
			w.kadKeys = append(w.kadKeys, k)
		}
	}
	if len(w.kadKeys) == 0 {
		c.Note("embedded kad keys rejected (Difficulty changed?): searching one")
		k := pcom.RandPeerKeyId()
		w.kadKeys = append(w.kadKeys, k.PublicKey)
	}
	return w
}

func (w *world) acct() *account.Account { return w.accts[w.c.Intn(len(w.accts))] }

func (w *world) peerID() pcom.PeerId {
	var id pcom.PeerId
	if w.c.Intn(3) == 0 {
		return pcom.PseudoPeerIdFromUint64(w.c.U64Boundary())
	}
	_ = id.Deserialization(common.NewZeroCopySource(w.c.Bytes(20)))
	return id
}

func (w *world) hash() (h common.Uint256) {
	copy(h[:], w.c.Bytes(32))
	return
}

func (w *world) str(max int) string {
	n := w.c.Intn(max + 1)
	if w.c.Intn(8) == 0 {
		n = []int{0, 252, 253, 300}[w.c.Intn(4)]
	}
	return string(w.c.Bytes(n))
}

// uncompressed returns the 65-byte 0x04 form of a P-256 key (accepted by DeserializePublicKey,
// never produced by SerializePublicKey).
func uncompressed(k keypair.PublicKey) []byte {
	b := keypair.SerializePublicKey(k)
	if len(b) != 33 {
		return b
	}
	// decompress through the library, then lay out 04 || X || Y
	pk, err := keypair.DeserializePublicKey(b)
	if err != nil {
		return b
	}
	x, y := ecXY(pk)
	out := make([]byte, 65)
	out[0] = 4
	copy(out[1+32-len(x):], x)
	copy(out[33+32-len(y):], y)
	return out
}

// ---------- structured messages ----------

var modelKinds = []string{
	pcom.ADDR_TYPE, pcom.GetADDR_TYPE, pcom.VERSION_TYPE, pcom.VERACK_TYPE, pcom.PING_TYPE, pcom.PONG_TYPE,
	pcom.GET_HEADERS_TYPE, pcom.GET_BLOCKS_TYPE, pcom.GET_DATA_TYPE, pcom.INV_TYPE, pcom.NOT_FOUND_TYPE,
	pcom.FINDNODE_TYPE, pcom.FINDNODE_RESP_TYPE, pcom.UPDATE_KADID_TYPE, pcom.GET_SUBNET_MEMBERS_TYPE,
	pcom.SUBNET_MEMBERS_TYPE, pcom.SUBNET_OFFLINE_TYPE, pcom.CONSENSUS_TYPE,
}
var embKinds = []string{pcom.HEADERS_TYPE, pcom.BLOCK_TYPE, pcom.TX_TYPE}

type built struct {
	cmd   string
	msg   types.Message
	sigs  []sigTriple
	emb   bool
	noAcc bool // the implementation's own decoder never accepts it (offline)
}

func (w *world) build(kind string) built {
	c := w.c
	b := built{cmd: kind}
	switch kind {
	case pcom.ADDR_TYPE:
		n := []int{0, 1, 2, 3, 5, 63, 64}[c.Intn(7)]
		if n > 5 && c.Intn(3) != 0 {
			n = c.Intn(4)
		}
		m := &types.Addr{}
		for i := 0; i < n; i++ {
			a := pcom.PeerAddr{Time: int64(c.U64Boundary()), Services: c.U64Boundary(), Port: uint16(c.U64Boundary()), ConsensusPort: uint16(c.Rng.Uint32())}
			copy(a.IpAddr[:], c.Bytes(16))
			a.ID = pcom.PseudoPeerIdFromUint64(c.U64Boundary())
			m.NodeAddrs = append(m.NodeAddrs, a)
		}
		b.msg = m
	case pcom.GetADDR_TYPE:
		b.msg = &types.AddrReq{}
	case pcom.VERSION_TYPE:
		m := &types.Version{}
		m.P = types.VersionPayload{Version: uint32(c.U64Boundary()), Services: c.U64Boundary(), TimeStamp: int64(c.U64Boundary()),
			SyncPort: uint16(c.Rng.Uint32()), HttpInfoPort: uint16(c.Rng.Uint32()), ConsPort: uint16(c.Rng.Uint32()),
			Nonce: c.U64Boundary(), StartHeight: c.U64Boundary(), Relay: uint8(c.Intn(256)), IsConsensus: c.Intn(2) == 0, SoftVersion: w.str(20)}
		copy(m.P.Cap[:], c.Bytes(32))
		b.msg = m
	case pcom.VERACK_TYPE:
		b.msg = types.VerifNewVerACK(c.Intn(2) == 0)
	case pcom.PING_TYPE:
		b.msg = &types.Ping{Height: c.U64Boundary()}
	case pcom.PONG_TYPE:
		b.msg = &types.Pong{Height: c.U64Boundary()}
	case pcom.GET_HEADERS_TYPE:
		b.msg = &types.HeadersReq{Len: uint8(c.Intn(256)), HashStart: w.hash(), HashEnd: w.hash()}
	case pcom.GET_BLOCKS_TYPE:
		b.msg = &types.BlocksReq{HeaderHashCount: uint8(c.Intn(256)), HashStart: w.hash(), HashStop: w.hash()}
	case pcom.GET_DATA_TYPE:
		b.msg = &types.DataReq{DataType: common.InventoryType(c.Intn(256)), Hash: w.hash()}
	case pcom.INV_TYPE:
		n := []int{0, 1, 2, 3, 64}[c.Intn(5)]
		if n == 64 && c.Intn(3) != 0 {
			n = c.Intn(4)
		}
		m := &types.Inv{}
		m.P.InvType = common.InventoryType(c.Intn(256))
		for i := 0; i < n; i++ {
			m.P.Blk = append(m.P.Blk, w.hash())
		}
		b.msg = m
	case pcom.NOT_FOUND_TYPE:
		b.msg = &types.NotFound{Hash: w.hash()}
	case pcom.FINDNODE_TYPE:
		b.msg = &types.FindNodeReq{TargetID: w.peerID()}
	case pcom.FINDNODE_RESP_TYPE:
		m := &types.FindNodeResp{TargetID: w.peerID(), Success: c.Intn(2) == 0, Address: w.str(24)}
		for i := 0; i < c.Intn(4); i++ {
			m.CloserPeers = append(m.CloserPeers, pcom.PeerIDAddressPair{ID: w.peerID(), Address: w.str(24)})
		}
		b.msg = m
	case pcom.UPDATE_KADID_TYPE:
		b.msg = &types.UpdatePeerKeyId{KadKeyId: &pcom.PeerKeyId{PublicKey: w.kadKeys[c.Intn(len(w.kadKeys))]}}
	case pcom.GET_SUBNET_MEMBERS_TYPE:
		if c.Intn(4) == 0 {
			m := types.NewMembersRequestFromSeed()
			m.From, m.To = w.peerID(), w.peerID()
			b.msg = m
			break
		}
		acc := w.acct()
		m := &types.SubnetMembersRequest{From: w.peerID(), To: w.peerID(), PubKey: acc.PublicKey}
		now := uint32(time.Now().Unix())
		switch c.Intn(6) {
		case 0:
			m.Timestamp = now - 3600 - uint32(1+c.Intn(5000)) // expired
			b.noAcc = true
		case 1:
			m.Timestamp = now + uint32(c.Intn(100000)) // future: accepted
		case 2:
			m.Timestamp = now - 3600 + 30 // just inside
		default:
			m.Timestamp = now
		}
		sink := common.NewZeroCopySink(nil)
		m.From.Serialization(sink)
		m.To.Serialization(sink)
		sink.WriteUint32(m.Timestamp)
		data := append([]byte{}, sink.Bytes()...)
		sig, err := signature.Sign(acc, data)
		if err != nil {
			panic(err)
		}
		m.Sig = sig
		b.sigs = append(b.sigs, sigTriple{Key: hx.Hex(keypair.SerializePublicKey(acc.PublicKey)), Data: hx.Hex(data), Sig: hx.Hex(sig)})
		b.msg = m
	case pcom.SUBNET_MEMBERS_TYPE:
		m := &types.SubnetMembers{}
		for i := 0; i < c.Intn(5); i++ {
			m.Members = append(m.Members, types.MemberInfo{PubKey: w.str(40), Addr: w.str(24)})
		}
		b.msg = m
	case pcom.SUBNET_OFFLINE_TYPE:
		m := &types.OfflineWitnessMsg{Timestamp: uint32(c.U64Boundary()), View: uint32(c.U64Boundary())}
		nk := c.Intn(4)
		for i := 0; i < nk; i++ {
			m.NodePubKeys = append(m.NodePubKeys, vconfig.PubkeyID(w.accts[i%len(w.accts)].PublicKey))
		}
		prop := w.acct()
		m.Proposer = vconfig.PubkeyID(prop.PublicKey)
		if err := m.AddProposeSig(prop); err != nil {
			panic(err)
		}
		if nk > 0 {
			for i := 0; i < c.Intn(3); i++ {
				idx := []uint8{uint8(c.Intn(nk))}
				if err := m.VoteFor(w.acct(), idx); err != nil {
					panic(err)
				}
			}
		}
		b.msg = m
		b.noAcc = true
	case pcom.CONSENSUS_TYPE:
		acc := w.acct()
		m := &types.Consensus{}
		m.Cons = types.ConsensusPayload{Version: uint32(c.U64Boundary()), PrevHash: w.hash(), Height: uint32(c.U64Boundary()),
			BookkeeperIndex: uint16(c.Rng.Uint32()), Timestamp: uint32(c.U64Boundary()), Data: c.Bytes(c.Intn(40)), Owner: acc.PublicKey,
			Signature: c.Bytes([]int{0, 1, 64, 65}[c.Intn(4)])}
		b.msg = m
	case pcom.TX_TYPE:
		b.msg = &types.Trn{Txn: w.tx()}
		b.emb = true
	case pcom.HEADERS_TYPE:
		m := &types.BlkHeader{}
		for i := 0; i < c.Intn(4); i++ {
			m.BlkHdr = append(m.BlkHdr, w.header())
		}
		b.msg = m
		b.emb = true
	case pcom.BLOCK_TYPE:
		blk := &ct.Block{Header: w.header()}
		for i := 0; i < c.Intn(3); i++ {
			blk.Transactions = append(blk.Transactions, w.tx())
		}
		blk.RebuildMerkleRoot()
		m := &types.Block{Blk: blk, MerkleRoot: w.hash()}
		if c.Intn(2) == 0 {
			m.CCMsg = &ct.CrossChainMsg{Version: byte(c.Intn(256)), Height: uint32(c.U64Boundary()), StatesRoot: w.hash()}
			for i := 0; i < c.Intn(3); i++ {
				m.CCMsg.SigData = append(m.CCMsg.SigData, c.Bytes(1+c.Intn(70)))
			}
		}
		b.msg = m
		b.emb = true
	default:
		panic("unknown kind " + kind)
	}
	return b
}

func (w *world) tx() *ct.Transaction {
	c := w.c
	mtx := &ct.MutableTransaction{Version: 0, TxType: ct.InvokeNeo, Nonce: c.Rng.Uint32(), GasPrice: c.U64Boundary(), GasLimit: c.U64Boundary(),
		Payer: w.acct().Address, Payload: &payload.InvokeCode{Code: c.Bytes(1 + c.Intn(40))}}
	if c.Intn(2) == 0 {
		acc := w.acct()
		mtx.Sigs = append(mtx.Sigs, ct.Sig{PubKeys: []keypair.PublicKey{acc.PublicKey}, M: 1, SigData: [][]byte{c.Bytes(65)}})
	}
	tx, err := mtx.IntoImmutable()
	if err != nil {
		panic(err)
	}
	return tx
}

func (w *world) header() *ct.Header {
	c := w.c
	h := &ct.Header{Version: uint32(c.Intn(3)), PrevBlockHash: w.hash(), TransactionsRoot: w.hash(), BlockRoot: w.hash(),
		Timestamp: uint32(c.U64Boundary()), Height: uint32(c.U64Boundary()), ConsensusData: c.U64Boundary(),
		ConsensusPayload: c.Bytes(c.Intn(30)), NextBookkeeper: w.acct().Address}
	for i := 0; i < c.Intn(3); i++ {
		h.Bookkeepers = append(h.Bookkeepers, w.accts[i].PublicKey)
		h.SigData = append(h.SigData, c.Bytes(65))
	}
	return h
}

func serialize(m types.Message) []byte {
	sink := common.NewZeroCopySink(nil)
	m.Serialization(sink)
	return append([]byte{}, sink.Bytes()...)
}

// ---------- mutations ----------

// countField: offset and width of the element count of a payload, if it has one.
func countField(cmd string, p []byte) (off, width int, ok bool) {
	switch cmd {
	case pcom.ADDR_TYPE:
		return 0, 8, len(p) >= 8
	case pcom.INV_TYPE:
		return 1, 4, len(p) >= 5
	case pcom.SUBNET_MEMBERS_TYPE, pcom.HEADERS_TYPE:
		return 0, 4, len(p) >= 4
	case pcom.SUBNET_OFFLINE_TYPE:
		return 8, 4, len(p) >= 12
	case pcom.FINDNODE_RESP_TYPE:
		if len(p) < 22 {
			return
		}
		if tot, ok := varstrOK(p[21:]); ok && len(p) >= 21+tot+4 {
			return 21 + tot, 4, true
		}
	}
	return
}

// firstVarLen: offset of the first one-byte length prefix of a payload, if any.
func firstVarLen(cmd string, p []byte) (int, bool) {
	off := -1
	switch cmd {
	case pcom.VERSION_TYPE:
		off = 76
	case pcom.FINDNODE_RESP_TYPE:
		off = 21
	case pcom.UPDATE_KADID_TYPE:
		off = 0
	case pcom.GET_SUBNET_MEMBERS_TYPE:
		off = 44
	case pcom.SUBNET_MEMBERS_TYPE:
		off = 4
	case pcom.CONSENSUS_TYPE:
		off = 46
	case pcom.SUBNET_OFFLINE_TYPE:
		off = 12
	}
	if off >= 0 && off < len(p) && p[off] < 0xfd {
		return off, true
	}
	return 0, false
}

func boolOffset(cmd string) (int, bool) {
	switch cmd {
	case pcom.VERSION_TYPE:
		return 75, true
	case pcom.VERACK_TYPE:
		return 0, true
	case pcom.FINDNODE_RESP_TYPE:
		return 20, true
	}
	return 0, false
}

var hostileCounts = []uint64{65, 66, 255, 256, 1 << 16, 1 << 31, 1<<32 - 1, 1 << 32, 1 << 40, 1 << 63, 1<<63 + 1, 1<<64 - 1}

// mutate returns a variant of a valid payload and a label for the distribution.
func (w *world) mutate(cmd string, p []byte) ([]byte, string) {
	c := w.c
	q := append([]byte{}, p...)
	for try := 0; try < 6; try++ {
		switch c.Intn(8) {
		case 0:
			if len(q) > 0 {
				return q[:c.Intn(len(q))], "truncate"
			}
		case 1:
			return append(q, c.Bytes(1+c.Intn(5))...), "trailing"
		case 2:
			if len(q) > 0 {
				i := c.Intn(len(q))
				q[i] ^= byte(1 << uint(c.Intn(8)))
				return q, "bitflip"
			}
		case 3:
			if off, wd, ok := countField(cmd, q); ok {
				v := hostileCounts[c.Intn(len(hostileCounts))]
				if c.Intn(3) == 0 {
					var cur uint64
					if wd == 8 {
						cur = binary.LittleEndian.Uint64(q[off:])
					} else {
						cur = uint64(binary.LittleEndian.Uint32(q[off:]))
					}
					v = cur + uint64(c.Intn(3)) - 1
				}
				if wd == 8 {
					binary.LittleEndian.PutUint64(q[off:], v)
				} else {
					binary.LittleEndian.PutUint32(q[off:], uint32(v))
				}
				return q, "count"
			}
		case 4:
			if off, ok := firstVarLen(cmd, q); ok {
				// non-minimal length prefix for the same length
				var pre []byte
				switch c.Intn(3) {
				case 0:
					pre = []byte{0xfd, q[off], 0}
				case 1:
					pre = []byte{0xfe, q[off], 0, 0, 0}
				default:
					pre = []byte{0xff, q[off], 0, 0, 0, 0, 0, 0, 0}
				}
				out := append(append(append([]byte{}, q[:off]...), pre...), q[off+1:]...)
				return out, "nonminimal-length"
			}
		case 5:
			if off, ok := boolOffset(cmd); ok && off < len(q) {
				q[off] = byte(2 + c.Intn(254))
				return q, "irregular-bool"
			}
		case 6:
			if off, ok := firstVarLen(cmd, q); ok {
				// huge declared length with the bytes that are there
				out := append(append(append([]byte{}, q[:off]...), 0xff), c.Bytes(8)...)
				out[off+8] |= 0x80
				return append(out, q[off+1:]...), "huge-length"
			}
		default:
			if len(q) > 2 {
				i := c.Intn(len(q) - 1)
				return append(append(append([]byte{}, q[:i]...), c.Bytes(1+c.Intn(3))...), q[i:]...), "insert"
			}
		}
	}
	return q, "none"
}

func mkPayloadInput(cmd string, p []byte, label string, b *built) input {
	in := input{Kind: "payload", Label: label, Cmd: hx.Hex([]byte(cmd)), Payload: hx.Hex(p)}
	if b != nil {
		in.Sigs = b.sigs
		in.Emb = b.emb
	}
	for _, k := range embKinds {
		if cmd == k {
			in.Emb = true
		}
	}
	return in
}

// ---------- fixed probes: the finding witnesses and the repaired F6 inputs ----------

func le64(v uint64) []byte { b := make([]byte, 8); binary.LittleEndian.PutUint64(b, v); return b }
func le32(v uint32) []byte { b := make([]byte, 4); binary.LittleEndian.PutUint32(b, v); return b }

func addrEntry(i int) []byte {
	var b bytes.Buffer
	b.Write(le64(uint64(1600000000 + i)))
	b.Write(le64(1))
	ip := make([]byte, 16)
	ip[10], ip[11], ip[12], ip[15] = 0xff, 0xff, 10, byte(i)
	b.Write(ip)
	b.Write([]byte{0x3a, 0x4e, 0x3b, 0x4e})
	b.Write(le64(uint64(1000 + i)))
	return b.Bytes()
}

func (w *world) probes() []input {
	var ins []input
	add := func(cmd string, p []byte, label string) {
		ins = append(ins, mkPayloadInput(cmd, p, "probe:"+label, nil))
	}
	// F6 (repaired in 0f3fd0ef): counts at and above 2^63
	for _, cnt := range []uint64{1 << 63, 1<<64 - 1, 1<<63 + 5} {
		add(pcom.ADDR_TYPE, le64(cnt), fmt.Sprintf("addr-count-%d-empty", cnt))
		add(pcom.ADDR_TYPE, append(le64(cnt), addrEntry(1)...), fmt.Sprintf("addr-count-%d-one-entry", cnt))
	}
	// open finding: 65 well-formed entries
	p := le64(65)
	for i := 0; i < 65; i++ {
		p = append(p, addrEntry(i)...)
	}
	add(pcom.ADDR_TYPE, p, "addr-65-entries")
	p = append([]byte{2}, le32(65)...)
	for i := 0; i < 65; i++ {
		h := make([]byte, 32)
		h[0] = byte(i)
		p = append(p, h...)
	}
	add(pcom.INV_TYPE, p, "inv-65-hashes")
	// version without / with malformed SoftVersion
	v := w.build(pcom.VERSION_TYPE)
	vp := serialize(v.msg)
	add(pcom.VERSION_TYPE, vp[:76], "version-no-softversion")
	add(pcom.VERSION_TYPE, append(append([]byte{}, vp[:76]...), 0xfd, 3, 0, 'a', 'b', 'c'), "version-nonminimal-softversion")
	add(pcom.VERSION_TYPE, append(append([]byte{}, vp[:76]...), 9, 'a'), "version-short-softversion")
	// findnodeack with irregular bool
	f := serialize(&types.FindNodeResp{TargetID: pcom.PseudoPeerIdFromUint64(7), Success: true, Address: "1.2.3.4:5"})
	f[20] = 7
	add(pcom.FINDNODE_RESP_TYPE, f, "findnodeack-bool-7")
	f2 := serialize(&types.FindNodeResp{TargetID: pcom.PseudoPeerIdFromUint64(7), Success: false, Address: "ab"})
	f2 = append(append(append([]byte{}, f2[:21]...), 0xfd, 2, 0), f2[22:]...)
	add(pcom.FINDNODE_RESP_TYPE, f2, "findnodeack-nonminimal-length")
	// trailing byte
	add(pcom.PING_TYPE, append(le64(5), 0xaa), "ping-trailing-byte")
	add(pcom.GetADDR_TYPE, []byte{1, 2, 3}, "getaddr-nonempty")
	// non-canonical public key encodings
	acc := w.accts[0]
	cons := &types.Consensus{}
	cons.Cons = types.ConsensusPayload{Version: 1, Height: 2, Owner: acc.PublicKey, Signature: []byte{1, 2, 3}, Data: []byte("d")}
	cp := serialize(cons)
	canon := keypair.SerializePublicKey(acc.PublicKey)
	i := bytes.Index(cp, canon)
	unc := uncompressed(acc.PublicKey)
	alt := append(append(append([]byte{}, cp[:i-1]...), byte(len(unc))), unc...)
	alt = append(alt, cp[i+len(canon):]...)
	add(pcom.CONSENSUS_TYPE, alt, "consensus-uncompressed-owner")
	ku := uncompressed(w.kadKeys[0])
	add(pcom.UPDATE_KADID_TYPE, append([]byte{byte(len(ku))}, ku...), "updatekadid-uncompressed-key")
	// p2p Block without merkle root / flag
	blk := w.build(pcom.BLOCK_TYPE)
	bm := blk.msg.(*types.Block)
	bm.CCMsg = nil
	bp := serialize(bm)
	for _, cut := range []int{1, 2, 33, 20} {
		in := mkPayloadInput(pcom.BLOCK_TYPE, bp[:len(bp)-cut], fmt.Sprintf("probe:block-cut-%d", cut), &blk)
		ins = append(ins, in)
	}
	irr := append([]byte{}, bp...)
	irr[len(irr)-1] = 9
	ins = append(ins, mkPayloadInput(pcom.BLOCK_TYPE, irr, "probe:block-irregular-flag", &blk))
	return ins
}

// ---------- allocation probes: huge declared counts over short payloads ----------

func (w *world) allocProbes() []input {
	var ins []input
	add := func(cmd string, p []byte, label string) {
		in := mkPayloadInput(cmd, p, "alloc:"+label, nil)
		in.Alloc = true
		ins = append(ins, in)
	}
	for _, cnt := range []uint64{1 << 20, 1 << 32, 1 << 40, 1 << 62, 1 << 63, 1<<64 - 1} {
		add(pcom.ADDR_TYPE, le64(cnt), "addr")
		add(pcom.ADDR_TYPE, append(le64(cnt), addrEntry(1)...), "addr+1")
	}
	for _, cnt := range []uint32{1 << 20, 1 << 31, 1<<32 - 1} {
		add(pcom.INV_TYPE, append([]byte{1}, le32(cnt)...), "inv")
		add(pcom.INV_TYPE, append(append([]byte{1}, le32(cnt)...), make([]byte, 64)...), "inv+2")
		add(pcom.SUBNET_MEMBERS_TYPE, le32(cnt), "members")
		add(pcom.SUBNET_MEMBERS_TYPE, append(le32(cnt), 0, 0, 0, 0), "members+2")
		add(pcom.HEADERS_TYPE, le32(cnt), "headers")
		f := append(make([]byte, 20), 1, 0)
		add(pcom.FINDNODE_RESP_TYPE, append(f, le32(cnt)...), "findnodeack")
		o := append(append(le32(1), le32(2)...), le32(0)...)
		o = append(o, 0)
		add(pcom.SUBNET_OFFLINE_TYPE, append(o, le32(cnt)...), "offline-voters")
		// declared byte-string lengths
		add(pcom.UPDATE_KADID_TYPE, append([]byte{0xfe}, le32(cnt)...), "kadid-len")
		add(pcom.SUBNET_MEMBERS_TYPE, append(le32(1), append([]byte{0xfe}, le32(cnt)...)...), "members-strlen")
		v := make([]byte, 76)
		add(pcom.VERSION_TYPE, append(v, append([]byte{0xfe}, le32(cnt)...)...), "version-strlen")
		cs := make([]byte, 46)
		add(pcom.CONSENSUS_TYPE, append(cs, append([]byte{0xff}, le64(uint64(cnt)<<20)...)...), "consensus-datalen")
	}
	return ins
}

func ecXY(k keypair.PublicKey) (x, y []byte) {
	if p, ok := k.(*ec.PublicKey); ok {
		return p.X.Bytes(), p.Y.Bytes()
	}
	return nil, nil
}
