package c24

import (
	"context"
	"encoding/binary"
	"encoding/json"
	"fmt"
	"os"
	"os/exec"
	"path/filepath"
	"time"

	"github.com/ontio/ontology/common"
	"github.com/ontio/ontology/common/config"
	pcom "github.com/ontio/ontology/p2pserver/common"
	"github.com/ontio/ontology/p2pserver/message/types"

	"verif/harness/hx"
)

var magics = []uint32{0x8c77ab60, 0x2d8829df, 0, 0xffffffff, 0x12345678}

type budget struct{ kad, offline, bigframe int }

func Run(c *hx.Ctx) {
	c.CoqModule("Corr.C24")
	saved := config.DefConfig.P2PNode.NetworkMagic
	defer func() { config.DefConfig.P2PNode.NetworkMagic = saved }()

	var rin input
	if c.ReplayInput(&rin) && rin.Kind != "" {
		run(c, rin)
		return
	}
	for _, raw := range c.CorpusInputs() {
		var in input
		if jsonUnmarshal(raw, &in) == nil && in.Kind != "" {
			in.Label = "corpus:" + in.Label
			run(c, in)
		}
	}
	w := newWorld(c)
	bud := &budget{}
	for _, in := range w.probes() {
		run(c, in)
	}
	// Hostile counts and lengths first in a child process (a count-sized allocation or an unbounded
	// loop kills the process with a fatal error that recover cannot catch); only if the child
	// survives are they measured in-process.
	hostile := append(w.allocProbes(), w.frameAllocProbes()...)
	if crashed := w.inChild(hostile); crashed {
		c.Note("a hostile-count probe killed the child process: generation stopped after recording it")
		return
	}
	for _, in := range hostile {
		run(c, in)
	}

	// ---- payloads ----
	n := c.N(850, 8000)
	for i := 0; i < n; i++ {
		var in input
		switch r := c.Intn(100); {
		case r < 8: // random bytes under a random command
			cmd := w.randCmd()
			p := c.Bytes([]int{0, 1, 4, 8, 21, 33, 45, 77, 120}[c.Intn(9)])
			if len(p) > 0 && c.Intn(2) == 0 {
				p[0] = []byte{0, 1, 2, 0xfc, 0xfd, 0xfe, 0xff}[c.Intn(7)]
			}
			in = mkPayloadInput(cmd, p, "random", nil)
		case r < 18: // embedded core/types objects: oracle only
			b := w.build(embKinds[c.Intn(len(embKinds))])
			p := serialize(b.msg)
			label := "structured"
			if c.Intn(3) != 0 {
				p, label = w.mutate(b.cmd, p)
			}
			in = mkPayloadInput(b.cmd, p, label, &b)
			if label == "structured" {
				in.Expect = "ok"
			}
		case r < 21: // a valid payload under another (or an unknown) command
			b := w.build(modelKinds[c.Intn(len(modelKinds))])
			in = mkPayloadInput(w.randCmd(), serialize(b.msg), "cross-command", &b)
		default:
			b := w.build(modelKinds[c.Intn(len(modelKinds))])
			p := serialize(b.msg)
			label := "structured"
			if c.Intn(5) >= 2 {
				p, label = w.mutate(b.cmd, p)
				if c.Intn(6) == 0 {
					p, _ = w.mutate(b.cmd, p)
					label = "double"
				}
			}
			in = mkPayloadInput(b.cmd, p, label, &b)
			if label == "structured" && !b.noAcc {
				in.Expect = "ok"
			}
		}
		c.Count("gen:" + in.Label)
		w.limit(&in, bud)
		run(c, in)
	}

	// ---- frames ----
	m := c.N(90, 700)
	for i := 0; i < m; i++ {
		in := w.genFrame(i)
		c.Count("gen:frame:" + in.Label)
		w.limit(&in, bud)
		run(c, in)
	}
	for _, in := range w.frameProbes() {
		run(c, in)
	}
	for _, in := range w.frameGapProbes() {
		run(c, in)
	}

	// ---- decode history: verdicts must not depend on earlier frames ----
	w.history()

	// ---- WriteMessage ----
	k := c.N(18, 200)
	for i := 0; i < k; i++ {
		b := w.build(modelKinds[i%len(modelKinds)])
		if len(serialize(b.msg)) > 140 {
			continue
		}
		doWrite(c, magics[c.Intn(len(magics))], b.msg, b.cmd, b.noAcc)
	}
}

func (w *world) randCmd() string {
	c := w.c
	switch c.Intn(10) {
	case 0:
		return string(c.Bytes(c.Intn(13)))
	case 1:
		return []string{"", "pin", "pingx", "PING", "ping\x00x", "getaddr1", "unknowncmd12"}[c.Intn(7)]
	case 2:
		return embKinds[c.Intn(len(embKinds))]
	}
	return modelKinds[c.Intn(len(modelKinds))]
}

// limit keeps the cases whose in-Coq evaluation runs SHA-256 within the time budget; the
// implementation-side oracle still runs on all of them.
func (w *world) limit(in *input, b *budget) {
	if in.Kind == "payload" {
		switch string(hx.UnHex(in.Cmd)) {
		case pcom.UPDATE_KADID_TYPE:
			b.kad++
			if b.kad > w.c.N(30, 150) {
				in.NoCoq = true
			}
		case pcom.SUBNET_OFFLINE_TYPE:
			b.offline++
			if b.offline > w.c.N(30, 150) {
				in.NoCoq = true
			}
		}
		if len(in.Payload)/2 > 6000 {
			in.NoCoq = true
		}
		return
	}
	if len(in.Stream)/2 > 24+130 {
		b.bigframe++
		if b.bigframe > w.c.N(3, 40) || len(in.Stream)/2 > 1200 {
			in.NoCoq = true
		}
	}
}

// genFrame builds one frame-level input: mostly valid frames around structured or mutated
// payloads, with header mutations, truncations, concatenations and random streams mixed in.
func (w *world) genFrame(i int) input {
	c := w.c
	magic := magics[c.Intn(len(magics))]
	in := input{Kind: "frame", Magic: magic}
	if c.Intn(12) == 0 {
		s := c.Bytes([]int{0, 5, 23, 24, 25, 40, 80}[c.Intn(7)])
		if len(s) >= 4 && c.Intn(2) == 0 {
			binary.LittleEndian.PutUint32(s, magic)
		}
		in.Stream, in.Label = hx.Hex(s), "random-stream"
		return in
	}
	if c.Intn(7) == 0 {
		return w.emptyPayloadFrame(magic, w.anyCmd(), c.Intn(7), "gen-empty-payload")
	}
	var b built
	if c.Intn(8) == 0 {
		b = w.build(embKinds[c.Intn(len(embKinds))])
	} else {
		// prefer the small message types: the model hashes the payload inside Coq
		for {
			b = w.build(modelKinds[c.Intn(len(modelKinds))])
			if len(serialize(b.msg)) <= 120 || c.Intn(10) == 0 {
				break
			}
		}
	}
	in.Sigs, in.Emb = b.sigs, b.emb
	p := serialize(b.msg)
	cmd := b.cmd
	label := "valid"
	if c.Intn(3) == 0 {
		p, label = w.mutate(b.cmd, p)
		label = "payload-" + label
	}
	switch c.Intn(14) {
	case 0:
		cmd = w.randCmd()
		label = "other-cmd"
	case 1:
		cmd = cmd + "\x00" + string(c.Bytes(1))
		label = "cmd-nul-garbage"
	}
	var s []byte
	if label == "valid" && c.Intn(2) == 0 {
		config.DefConfig.P2PNode.NetworkMagic = magic
		sink := common.NewZeroCopySink(nil)
		types.WriteMessage(sink, b.msg)
		s = append([]byte{}, sink.Bytes()...)
		label = "valid-writemessage"
	} else {
		s = frame(magic, cmd, p)
	}
	untouched := (label == "valid" || label == "valid-writemessage") && !b.noAcc
	hdrMut := c.Intn(16)
	if untouched && (hdrMut > 7 || hdrMut == 6) {
		in.Expect = "ok"
	}
	switch hdrMut {
	case 0:
		binary.LittleEndian.PutUint32(s, magic^uint32(1<<uint(c.Intn(32))))
		label = "bad-magic"
	case 1:
		s[20+c.Intn(4)] ^= byte(1 << uint(c.Intn(8)))
		label = "bad-checksum"
	case 2:
		if len(p) > 0 {
			s[24+c.Intn(len(p))] ^= byte(1 << uint(c.Intn(8)))
			label = "payload-flip-keeps-checksum"
		}
	case 3:
		l := []uint32{pcom.MAX_PAYLOAD_LEN + 1, 1<<32 - 1, 1 << 31, pcom.MAX_PAYLOAD_LEN + uint32(1+c.Intn(1000))}[c.Intn(4)]
		binary.LittleEndian.PutUint32(s[16:], l)
		label = "oversized-length"
	case 4:
		l := uint32(len(p))
		if c.Intn(2) == 0 && l > 0 {
			l--
		} else {
			l++
		}
		binary.LittleEndian.PutUint32(s[16:], l)
		label = "length-off-by-one"
	case 5:
		s = s[:c.Intn(len(s))]
		label = "truncated"
	case 6:
		s = append(s, c.Bytes(1+c.Intn(30))...)
		label = "followed-by-bytes"
	case 7:
		b2 := w.build(pcom.PING_TYPE)
		s = append(s, frame(magic, b2.cmd, serialize(b2.msg))...)
		label = "two-frames"
	}
	in.Stream, in.Label = hx.Hex(s), label
	_ = i
	return in
}

func (w *world) frameAllocProbes() []input {
	var ins []input
	magic := magics[0]
	mk := func(l uint32, body []byte, label string) {
		h := make([]byte, 24)
		binary.LittleEndian.PutUint32(h, magic)
		copy(h[4:], "addr")
		binary.LittleEndian.PutUint32(h[16:], l)
		ins = append(ins, input{Kind: "frame", Magic: magic, Stream: hx.Hex(append(h, body...)), Label: "alloc:" + label, Alloc: true})
	}
	mk(pcom.MAX_PAYLOAD_LEN+1, nil, "length-max+1")
	mk(1<<32-1, nil, "length-2^32-1")
	mk(1<<31, make([]byte, 100), "length-2^31")
	mk(pcom.MAX_PAYLOAD_LEN, nil, "length-max-no-body")
	// a well-formed frame whose payload declares 2^40 addresses
	p := le64(1 << 40)
	f := frame(magic, pcom.ADDR_TYPE, p)
	ins = append(ins, input{Kind: "frame", Magic: magic, Stream: hx.Hex(f), Label: "alloc:addr-count-2^40", Alloc: true})
	_ = fmt.Sprint
	return ins
}

// frameProbes: deterministic single-field corruptions of one valid ping frame (every magic byte,
// every checksum byte, the length field, the command) and the payload-level finding witnesses
// inside valid frames.
func (w *world) frameProbes() []input {
	var ins []input
	magic := magics[0]
	base := frame(magic, pcom.PING_TYPE, le64(77))
	add := func(s []byte, label string) {
		ins = append(ins, input{Kind: "frame", Magic: magic, Stream: hx.Hex(s), Label: "probe:" + label})
	}
	add(base, "ping-valid")
	for i := 0; i < 4; i++ {
		s := append([]byte{}, base...)
		s[i] ^= 0x10
		add(s, fmt.Sprintf("magic-byte-%d", i))
		s = append([]byte{}, base...)
		s[20+i] ^= 0x01
		add(s, fmt.Sprintf("checksum-byte-%d", i))
		s = append([]byte{}, base...)
		s[16+i] ^= 0x01
		add(s, fmt.Sprintf("length-byte-%d", i))
	}
	s := append([]byte{}, base...)
	s[24] ^= 1
	add(s, "payload-bit-under-old-checksum")
	s = append([]byte{}, base...)
	s[8] = 'x' // "ping" -> "pingx": unknown command, payload kept verbatim
	add(s, "cmd-pingx")
	add(frame(magic, pcom.PING_TYPE, append(le64(5), 0xaa)), "ping-trailing-byte")
	add(frame(magic, "ping\x00\x00\x00\x00\x00\x00\x00z", le64(5)), "cmd-with-late-byte")
	add(frame(magic, "exactly12byt", []byte{1, 2, 3}), "cmd-12-bytes")
	return ins
}

var childSeq int

// childRun executes inputs in a fresh harness process (replay mode) under a 4 GiB address-space
// limit and a time limit; ok=false when the process died or overran.
func (w *world) childRun(ins []input) (ok bool, detail string) {
	c := w.c
	childSeq++
	dir := filepath.Join(c.OutDir, fmt.Sprintf("child-%d", childSeq))
	_ = os.MkdirAll(dir, 0o755)
	defer os.RemoveAll(dir)
	rf := filepath.Join(dir, "replay.json")
	b, _ := json.Marshal(map[string]interface{}{"input": input{Kind: "batch", Batch: ins}})
	if err := os.WriteFile(rf, b, 0o644); err != nil {
		return true, ""
	}
	exe, err := os.Executable()
	if err != nil {
		return true, ""
	}
	ctx, cancel := context.WithTimeout(context.Background(), 60*time.Second)
	defer cancel()
	cmd := exec.CommandContext(ctx, "sh", "-c", `ulimit -v 4194304; exec "$0" "$@"`, exe, "run", "-repo", c.Repo, "-id", "C24",
		"-seed", fmt.Sprint(c.Seed), "-tier", c.Tier, "-out", dir, "-replay", rf)
	out, err := cmd.CombinedOutput()
	if err == nil {
		// a failure the child recorded (panic, allocation) will be found again in-process
		return true, ""
	}
	d := string(out)
	if len(d) > 600 {
		d = d[:600]
	}
	return false, fmt.Sprintf("%v: %s", err, d)
}

// inChild runs the batch in one child; if it dies, each input separately to name the culprits.
func (w *world) inChild(ins []input) (crashed bool) {
	c := w.c
	if ok, _ := w.childRun(ins); ok {
		c.Count("child-process-batches-survived")
		return false
	}
	for _, in := range ins {
		if ok, detail := w.childRun([]input{in}); !ok {
			crashed = true
			kind := "frame"
			if in.Kind == "payload" {
				kind = cmdLabel(string(hx.UnHex(in.Cmd)))
			}
			c.Eval()
			c.Fail("crash:"+kind, "decoding killed the process (fatal error / out of memory / time limit): not recoverable in Link.Rx", in, detail, "message or error, allocation bounded by the bytes present")
		}
	}
	return crashed
}

var unknownCmds = []string{"", "x", "pingx", "PING", "getaddr1", "exactly12byt", "ping\x00x"}

func (w *world) anyCmd() string {
	all := append(append(append([]string{}, modelKinds...), embKinds...), unknownCmds...)
	return all[w.c.Intn(len(all))]
}

// emptyPayloadFrame: a header-only frame (Length == 0) for any command. variant: 0 correct
// checksum of the empty payload; 1..4 that checksum with byte variant-1 corrupted; 5 random
// checksum; 6 correct checksum but wrong magic.
func (w *world) emptyPayloadFrame(magic uint32, cmd string, variant int, label string) input {
	c := w.c
	s := frame(magic, cmd, nil)
	in := input{Kind: "frame", Magic: magic}
	switch {
	case variant == 0:
		label += ":checksum-ok"
		if _, unknown := types.VerifMakeEmptyMessage(string(trimNul(cmd))).(*types.UnknownMessage); unknown || cmd == pcom.GetADDR_TYPE {
			in.Expect = "ok" // getaddr and unknown commands accept the empty payload
		}
	case variant <= 4:
		s[20+variant-1] ^= byte(1 << uint(c.Intn(8)))
		label += fmt.Sprintf(":checksum-byte-%d", variant-1)
	case variant == 5:
		for {
			copy(s[20:], c.Bytes(4))
			if string(s[20:24]) != string(checksum4(nil)) {
				break
			}
		}
		label += ":checksum-random"
	default:
		binary.LittleEndian.PutUint32(s, magic^uint32(1<<uint(c.Intn(32))))
		label += ":bad-magic"
	}
	if c.Intn(3) == 0 {
		s = append(s, c.Bytes(1+c.Intn(9))...) // bytes of a following message
		label += "+trailing"
	}
	in.Stream, in.Label = hx.Hex(s), label
	return in
}

func trimNul(s string) []byte {
	b := []byte(s)
	if len(b) > 12 {
		b = b[:12]
	}
	for len(b) > 0 && b[len(b)-1] == 0 {
		b = b[:len(b)-1]
	}
	return b
}

// frameGapProbes: deterministic frame-level probes for the corners a random generator rarely
// hits: header-only frames of EVERY command (and unknown ones) with right / corrupted / random
// checksum, wrong magic and following bytes; the header cut after each of its 24 bytes; a command
// field with non-zero bytes behind the NUL padding; Length exactly MAX_PAYLOAD_LEN (accepted) and
// MAX_PAYLOAD_LEN+1 (rejected) with the body really present and correctly checksummed.
func (w *world) frameGapProbes() []input {
	var ins []input
	magic := magics[0]
	all := append(append(append([]string{}, modelKinds...), embKinds...), unknownCmds...)
	for i, cmd := range all {
		for v := 0; v <= 6; v++ {
			in := w.emptyPayloadFrame(magic, cmd, v, "probe:empty-payload:"+string(trimNul(cmd)))
			// every command's correct frame and one corruption per command go through Coq as well
			// (the model hashes the empty payload each time); the rest is oracle only
			if !(v == 0 || v == 1+i%4) {
				in.NoCoq = true
			}
			ins = append(ins, in)
		}
	}
	base := frame(magic, pcom.PING_TYPE, le64(77))
	for k := 0; k <= 24; k++ {
		ins = append(ins, input{Kind: "frame", Magic: magic, Stream: hx.Hex(base[:k]), Label: fmt.Sprintf("probe:header-cut-%d", k)})
	}
	for _, cmd := range []string{"ping\x00\x00\x00\x00\x00\x00\x00\x01", "getaddr\x00\x00\x00\x00\xff", "addr\x00r", "ve\x00sion"} {
		p := le64(9)
		in := input{Kind: "frame", Magic: magic, Stream: hx.Hex(frame(magic, cmd, p)), Label: "probe:cmd-bytes-after-nul", Expect: "ok"}
		ins = append(ins, in)
	}
	// Length == MAX_PAYLOAD_LEN and MAX_PAYLOAD_LEN+1, body present, checksum right
	for _, d := range []uint32{0, 1} {
		n := pcom.MAX_PAYLOAD_LEN + d
		body := make([]byte, n)
		for i := range body {
			body[i] = 0x5a
		}
		h := frame(magic, "bigunknown", body)[:24]
		in := input{Kind: "frame", Magic: magic, Stream: hx.Hex(h), Pad: n, PadByte: 0x5a, Label: fmt.Sprintf("probe:length-max+%d-with-body", d)}
		if d == 0 {
			in.Expect = "ok"
		}
		ins = append(ins, in)
	}
	return ins
}
