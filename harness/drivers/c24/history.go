package c24

// Decode-history oracle: every decoder verdict must be a pure function of the frame.
//
// Bases are well-formed frames of every message type whose content (keys, hashes, ids, strings)
// is fresh and used by that base only; each base is dedicated to ONE field, and its variants
// change only that field (prefix by 1..3 bytes, zero-padded, extended, byte-flipped, last byte
// 00/ff; for length-prefixed fields with the prefix adjusted so that the frame stays well formed,
// and raw). Key fields get ground keys whose compressed encoding ends or starts in 00 / ff.
//
// cold: one fresh child process decodes ONLY the variants (shortest content first; no frame in
// that process carries the intact content of any base), then the bases.
// warm: this process decodes the bases first, then the variants.
// A verdict (error text, or digest of the WriteMessage output plus the decoded fields) that
// differs between the two is confirmed with two more fresh processes - [variant] alone against
// [base, variant] - and reported as history-dependent-decode:<cmd> with that two-frame sequence.

import (
	"bytes"
	"context"
	"crypto/sha256"
	"encoding/binary"
	"encoding/json"
	"fmt"
	"os"
	"os/exec"
	"path/filepath"
	"sort"
	"time"

	"github.com/ontio/ontology-crypto/keypair"
	"github.com/ontio/ontology/account"
	"github.com/ontio/ontology/common"
	"github.com/ontio/ontology/common/config"
	pcom "github.com/ontio/ontology/p2pserver/common"
	"github.com/ontio/ontology/p2pserver/message/types"

	"verif/harness/hx"
)

// verdictOf decodes one frame in this process and canonicalises the outcome.
func verdictOf(magic uint32, stream []byte) string {
	config.DefConfig.P2PNode.NetworkMagic = magic
	var msg types.Message
	var size uint32
	var err error
	rd := bytes.NewReader(stream)
	if p, pm := hx.Recover(func() { msg, size, err = types.ReadMessage(rd) }); p {
		return "panic:" + pm
	}
	if err != nil {
		return "err:" + err.Error()
	}
	var back []byte
	if p, pm := hx.Recover(func() {
		sink := common.NewZeroCopySink(nil)
		types.WriteMessage(sink, msg)
		back = append([]byte{}, sink.Bytes()...)
	}); p {
		return "ok-but-write-panics:" + pm
	}
	d := sha256.Sum256(back)
	term, _ := project(msg)
	t := sha256.Sum256([]byte(term))
	return fmt.Sprintf("ok:size=%d:rest=%d:written=%d:%x:fields=%x", size, rd.Len(), len(back), d[:12], t[:8])
}

// ---------- field maps ----------

type item struct {
	kind byte // 'F' fixed n bytes, 'V' length-prefixed bytes, 'C' uint32 count + sub, 'Q' uint64 count + sub, 'O' sub if bytes remain
	n    int
	sub  []item
}

func F(n int) item         { return item{kind: 'F', n: n} }
func V() item              { return item{kind: 'V'} }
func C(sub ...item) item   { return item{kind: 'C', sub: sub} }
func Q(sub ...item) item   { return item{kind: 'Q', sub: sub} }
func Opt(sub ...item) item { return item{kind: 'O', sub: sub} }

var schemas = map[string][]item{
	pcom.ADDR_TYPE:               {Q(F(8), F(8), F(16), F(2), F(2), F(8))},
	pcom.VERSION_TYPE:            {F(4), F(8), F(8), F(2), F(2), F(2), F(32), F(8), F(8), F(1), F(1), V()},
	pcom.VERACK_TYPE:             {F(1)},
	pcom.PING_TYPE:               {F(8)},
	pcom.PONG_TYPE:               {F(8)},
	pcom.GET_HEADERS_TYPE:        {F(1), F(32), F(32)},
	pcom.GET_BLOCKS_TYPE:         {F(1), F(32), F(32)},
	pcom.GET_DATA_TYPE:           {F(1), F(32)},
	pcom.INV_TYPE:                {F(1), C(F(32))},
	pcom.NOT_FOUND_TYPE:          {F(32)},
	pcom.FINDNODE_TYPE:           {F(20)},
	pcom.FINDNODE_RESP_TYPE:      {F(20), F(1), V(), C(F(20), V())},
	pcom.UPDATE_KADID_TYPE:       {V()},
	pcom.GET_SUBNET_MEMBERS_TYPE: {F(20), F(20), F(4), Opt(V(), V())},
	pcom.SUBNET_MEMBERS_TYPE:     {C(V(), V())},
	pcom.SUBNET_OFFLINE_TYPE:     {F(4), F(4), C(V()), V(), V(), C(V(), V(), V())},
	pcom.CONSENSUS_TYPE:          {F(4), F(32), F(4), F(2), F(4), V(), V(), V()},
}

// field: a region of a payload. For 'V' off points at the one-byte length prefix and n is the
// content length; for 'F' off is the first byte.
type field struct {
	kind byte
	off  int
	n    int
}

func walk(items []item, p []byte, off int, out *[]field) (int, bool) {
	for _, it := range items {
		switch it.kind {
		case 'F':
			if off+it.n > len(p) {
				return off, false
			}
			*out = append(*out, field{'F', off, it.n})
			off += it.n
		case 'V':
			if off >= len(p) || p[off] >= 0xfd || off+1+int(p[off]) > len(p) {
				return off, false // longer prefixes are not used as mutation sites
			}
			*out = append(*out, field{'V', off, int(p[off])})
			off += 1 + int(p[off])
		case 'C', 'Q':
			w := 4
			if it.kind == 'Q' {
				w = 8
			}
			if off+w > len(p) {
				return off, false
			}
			var cnt uint64
			if w == 4 {
				cnt = uint64(binary.LittleEndian.Uint32(p[off:]))
			} else {
				cnt = binary.LittleEndian.Uint64(p[off:])
			}
			off += w
			for i := uint64(0); i < cnt; i++ {
				var ok bool
				if off, ok = walk(it.sub, p, off, out); !ok {
					return off, false
				}
			}
		case 'O':
			if off < len(p) {
				var ok bool
				if off, ok = walk(it.sub, p, off, out); !ok {
					return off, false
				}
			}
		}
	}
	return off, true
}

// fieldsOf: the mutation sites of a payload: schema fields of at least 16 bytes (hashes, ids,
// addresses, capability arrays) and every length-prefixed field; plus, for any message type,
// every occurrence of one of the given key encodings behind its length byte.
func fieldsOf(cmd string, p []byte, keys [][]byte) []field {
	var all, out []field
	if sc, ok := schemas[cmd]; ok {
		walk(sc, p, 0, &all)
	}
	seen := map[int]bool{}
	for _, f := range all {
		if f.kind == 'V' || f.n >= 16 {
			out = append(out, f)
			seen[f.off] = true
		}
	}
	for _, k := range keys {
		from := 0
		for {
			i := bytes.Index(p[from:], k)
			if i < 0 {
				break
			}
			at := from + i
			if at > 0 && int(p[at-1]) == len(k) && !seen[at-1] {
				out = append(out, field{'V', at - 1, len(k)})
				seen[at-1] = true
			}
			from = at + 1
		}
	}
	return out
}

type variant struct {
	label   string
	payload []byte
	rank    int // decode order in the cold process: shorter content first
}

func splice(p []byte, off, n int, repl []byte) []byte {
	out := append([]byte{}, p[:off]...)
	out = append(out, repl...)
	return append(out, p[off+n:]...)
}

// variantsOf: the variants of one field of one payload.
func (w *world) variantsOf(p []byte, f field) []variant {
	c := w.c
	var vs []variant
	start := f.off
	if f.kind == 'V' {
		start = f.off + 1
	}
	content := append([]byte{}, p[start:start+f.n]...)
	put := func(label string, newContent []byte, adjust bool, rank int) {
		var q []byte
		if f.kind == 'V' && adjust {
			if len(newContent) >= 0xfd {
				return
			}
			q = splice(p, f.off, 1+f.n, append([]byte{byte(len(newContent))}, newContent...))
		} else {
			q = splice(p, start, f.n, newContent)
		}
		vs = append(vs, variant{label, q, rank})
	}
	for k := 1; k <= 3 && k <= f.n; k++ {
		if f.kind == 'V' {
			put(fmt.Sprintf("prefix-%d", k), content[:f.n-k], true, 0)
			put(fmt.Sprintf("suffix-%d", k), content[k:], true, 0)
		}
		put(fmt.Sprintf("raw-cut-%d", k), content[:f.n-k], false, 0)
	}
	for k := 1; k <= 3; k++ {
		z := append(append([]byte{}, content...), make([]byte, k)...)
		if f.kind == 'V' {
			put(fmt.Sprintf("zero-padded-%d", k), z, true, 2)
			put(fmt.Sprintf("extended-%d", k), append(append([]byte{}, content...), c.Bytes(k)...), true, 2)
		}
		put(fmt.Sprintf("raw-zero-inserted-%d", k), z, false, 2)
	}
	if f.n > 0 {
		for _, pos := range []int{0, f.n / 2, f.n - 1} {
			x := append([]byte{}, content...)
			x[pos] ^= byte(1 << uint(c.Intn(8)))
			put(fmt.Sprintf("flip-byte-%d", pos), x, true, 1)
		}
		for _, b := range []byte{0x00, 0xff} {
			x := append([]byte{}, content...)
			if x[f.n-1] != b {
				x[f.n-1] = b
				put(fmt.Sprintf("last-byte-%02x", b), x, true, 1)
			}
			y := append([]byte{}, content...)
			if y[0] != b {
				y[0] = b
				put(fmt.Sprintf("first-byte-%02x", b), y, true, 1)
			}
		}
	}
	return vs
}

// ---------- ground keys ----------

// groundAccount: a fresh account whose compressed public key has byte `at` (negative: from the
// end) equal to `want`.
func groundAccount(at int, want byte) *account.Account {
	for {
		a := account.NewAccount("")
		k := keypair.SerializePublicKey(a.PublicKey)
		i := at
		if i < 0 {
			i = len(k) + at
		}
		if k[i] == want {
			return a
		}
	}
}

type hbase struct {
	cmd    string
	stream []byte
	label  string
	noAcc  bool
}

type hvar struct {
	base   int
	label  string
	stream []byte
	rank   int
}

var keyKinds = []struct {
	name string
	at   int
	want byte
}{{"key-ends-00", -1, 0x00}, {"key-ends-ff", -1, 0xff}, {"key-x-starts-00", 1, 0x00}, {"key-x-starts-ff", 1, 0xff}}

// buildHistory: the bases (one per message type, field and - for key fields - ground-key kind)
// and their variants.
func (w *world) buildHistory(magic uint32) (bases []hbase, vars []hvar) {
	saved := w.accts
	defer func() { w.accts = saved }()
	kinds := append(append([]string{}, modelKinds...), embKinds...)
	freshAccts := func(g *account.Account) {
		if g == nil {
			g = account.NewAccount("")
		}
		w.accts = []*account.Account{g, g, g, g}
	}
	addBase := func(kind string, pick func(fs []field, p, keyEnc []byte) (field, bool), label string, g *account.Account) {
		freshAccts(g)
		var b built
		for try := 0; try < 8; try++ {
			b = w.build(kind)
			if kind != pcom.GET_SUBNET_MEMBERS_TYPE {
				break
			}
			// keep clear of the expiry boundary: the verdict must not depend on when it is computed
			m := b.msg.(*types.SubnetMembersRequest)
			now := uint32(time.Now().Unix())
			if m.Timestamp == 0 || b.noAcc || m.Timestamp+60 >= now {
				break
			}
		}
		p := serialize(b.msg)
		if len(p) > 1500 {
			return
		}
		keyEnc := keypair.SerializePublicKey(w.accts[0].PublicKey)
		fs := fieldsOf(kind, p, [][]byte{keyEnc})
		f, ok := pick(fs, p, keyEnc)
		if !ok {
			return
		}
		bi := len(bases)
		bases = append(bases, hbase{cmd: kind, stream: frame(magic, kind, p), label: label, noAcc: b.noAcc})
		for _, v := range w.variantsOf(p, f) {
			vars = append(vars, hvar{base: bi, label: label + ":" + v.label, stream: frame(magic, kind, v.payload), rank: v.rank})
		}
	}
	for _, kind := range kinds {
		// how many mutation sites does this type offer? (probe with one instance)
		freshAccts(nil)
		probeKey := keypair.SerializePublicKey(w.accts[0].PublicKey)
		var pp []byte
		hasKey := false
		for try := 0; try < 6 && !hasKey; try++ { // headers / tx carry keys only in some instances
			pp = serialize(w.build(kind).msg)
			hasKey = bytes.Contains(pp, probeKey)
		}
		n := len(fieldsOf(kind, pp, [][]byte{probeKey}))
		if n > 6 {
			n = 6
		}
		for fi := 0; fi < n; fi++ {
			idx := fi
			addBase(kind, func(fs []field, _, _ []byte) (field, bool) {
				if idx < len(fs) {
					return fs[idx], true
				}
				return field{}, false
			}, fmt.Sprintf("%s:field-%d", kind, fi), nil)
		}
		// key fields with ground keys
		if !hasKey || kind == pcom.UPDATE_KADID_TYPE || kind == pcom.SUBNET_OFFLINE_TYPE {
			continue // kad keys are proof-of-work keys; offline carries hex strings
		}
		for _, kk := range keyKinds {
			addBase(kind, func(fs []field, p, keyEnc []byte) (field, bool) {
				for _, f := range fs {
					if f.kind == 'V' && f.n == len(keyEnc) && bytes.Equal(p[f.off+1:f.off+1+f.n], keyEnc) {
						return f, true
					}
				}
				return field{}, false
			}, fmt.Sprintf("%s:%s", kind, kk.name), groundAccount(kk.at, kk.want))
		}
	}
	sort.SliceStable(vars, func(i, j int) bool { return vars[i].rank < vars[j].rank })
	return
}

// ---------- child processes ----------

// childVerdicts: the verdicts of the frames decoded, in this order, by one fresh process.
func (w *world) childVerdicts(magic uint32, frames [][]byte) ([]string, string) {
	c := w.c
	childSeq++
	dir := filepath.Join(c.OutDir, fmt.Sprintf("child-%d", childSeq))
	_ = os.MkdirAll(dir, 0o755)
	defer os.RemoveAll(dir)
	in := input{Kind: "history", Label: "child-verdicts", Magic: magic}
	for _, f := range frames {
		in.Frames = append(in.Frames, hx.Hex(f))
	}
	b, _ := json.Marshal(map[string]interface{}{"input": in})
	rf := filepath.Join(dir, "replay.json")
	if err := os.WriteFile(rf, b, 0o644); err != nil {
		return nil, err.Error()
	}
	exe, err := os.Executable()
	if err != nil {
		return nil, err.Error()
	}
	ctx, cancel := context.WithTimeout(context.Background(), 120*time.Second)
	defer cancel()
	cmd := exec.CommandContext(ctx, exe, "run", "-repo", c.Repo, "-id", "C24", "-seed", fmt.Sprint(c.Seed), "-tier", c.Tier, "-out", dir, "-replay", rf)
	if out, err := cmd.CombinedOutput(); err != nil {
		d := string(out)
		if len(d) > 500 {
			d = d[len(d)-500:]
		}
		return nil, fmt.Sprintf("%v: %s", err, d)
	}
	vb, err := os.ReadFile(filepath.Join(dir, "verdicts.json"))
	if err != nil {
		return nil, err.Error()
	}
	var vs []string
	if err := json.Unmarshal(vb, &vs); err != nil || len(vs) != len(frames) {
		return nil, "malformed verdict file"
	}
	return vs, ""
}

// childHistory (in the child): decode the frames in order, write the verdicts.
func childHistory(c *hx.Ctx, in input) {
	var vs []string
	for _, f := range in.Frames {
		vs = append(vs, verdictOf(in.Magic, hx.UnHex(f)))
	}
	b, _ := json.Marshal(vs)
	if err := os.WriteFile(filepath.Join(c.OutDir, "verdicts.json"), b, 0o644); err != nil {
		panic(err)
	}
}

// doHistorySeq: the verdict of the LAST frame after the whole sequence in one fresh process,
// against its verdict alone in another fresh process. Used to confirm and to replay.
func (w *world) doHistorySeq(in input) (differs bool) {
	c := w.c
	c.Eval()
	var frames [][]byte
	for _, f := range in.Frames {
		frames = append(frames, hx.UnHex(f))
	}
	if len(frames) == 0 {
		return false
	}
	last := frames[len(frames)-1]
	warm, e1 := w.childVerdicts(in.Magic, frames)
	cold, e2 := w.childVerdicts(in.Magic, [][]byte{last})
	if warm == nil || cold == nil {
		c.Note("history: child process failed: " + e1 + e2)
		return false
	}
	c.Count("history:sequence-confirmations")
	if warm[len(warm)-1] != cold[0] {
		c.Fail("history-dependent-decode:"+cmdLabel(frameCmd(last)), "the verdict on a frame depends on frames decoded before it in the same process (decoders must be pure functions of the frame)", in,
			map[string]interface{}{"after_the_earlier_frames": warm[len(warm)-1], "earlier_verdicts": warm[:len(warm)-1]}, map[string]interface{}{"in_a_fresh_process": cold[0]})
		return true
	}
	return false
}

func frameCmd(s []byte) string {
	if len(s) < 16 {
		return ""
	}
	return string(bytes.TrimRight(s[4:16], "\x00"))
}

// history: the whole oracle (see the comment at the top of the file).
func (w *world) history() {
	c := w.c
	magic := magics[0]
	bases, vars := w.buildHistory(magic)
	if c.Quick() && len(vars) > 900 {
		// keep every key-field variant, sample the rest
		var kept []hvar
		for _, v := range vars {
			if bytes.Contains([]byte(v.label), []byte(":key-")) || c.Intn(len(vars)) < 700 {
				kept = append(kept, v)
			}
		}
		vars = kept
	}
	var coldOrder [][]byte
	for _, v := range vars {
		coldOrder = append(coldOrder, v.stream)
	}
	for _, b := range bases {
		coldOrder = append(coldOrder, b.stream)
	}
	cold, e := w.childVerdicts(magic, coldOrder)
	if cold == nil {
		c.Note("history: cold child process failed: " + e)
		c.Fail("history:child-failed", "the cold decoding process did not finish", nil, e, "verdicts")
		return
	}
	// warm: bases first, then variants
	warmB := make([]string, len(bases))
	for i, b := range bases {
		c.Eval()
		warmB[i] = verdictOf(magic, b.stream)
		c.Count("history:base:" + b.cmd)
		if !b.noAcc && len(warmB[i]) >= 4 && warmB[i][:4] == "err:" {
			c.Fail("reject:"+b.cmd, "a message serialized by the implementation is rejected by ReadMessage", input{Kind: "frame", Magic: magic, Stream: hx.Hex(b.stream), Label: "history-base:" + b.label}, warmB[i], "accepted")
		}
		if len(warmB[i]) >= 6 && warmB[i][:6] == "panic:" {
			c.Fail("panic:frame", "ReadMessage panicked", input{Kind: "frame", Magic: magic, Stream: hx.Hex(b.stream), Label: "history-base:" + b.label}, warmB[i], "message or error")
		}
	}
	suspects := 0
	for i, v := range vars {
		c.Eval()
		warm := verdictOf(magic, v.stream)
		if warm[:3] == "ok:" {
			c.Count("history:variant-accepted")
		} else {
			c.Count("history:variant-rejected")
		}
		if len(warm) >= 6 && warm[:6] == "panic:" {
			c.Fail("panic:frame", "ReadMessage panicked", input{Kind: "frame", Magic: magic, Stream: hx.Hex(v.stream), Label: "history:" + v.label}, warm, "message or error")
		}
		c.Nontrivial("h" + hx.Hex(v.stream))
		if warm != cold[i] {
			suspects++
			if suspects > 6 {
				continue
			}
			in := input{Kind: "history", Label: v.label, Magic: magic, Frames: []string{hx.Hex(bases[v.base].stream), hx.Hex(v.stream)}}
			if !w.doHistorySeq(in) {
				// not reproduced by the two-frame sequence: report what was seen
				c.Fail("history-dependent-decode:"+cmdLabel(bases[v.base].cmd), "the verdict on a frame differs between a process that decoded only mutated frames and one that decoded the well-formed frames first", in,
					map[string]interface{}{"warm": warm}, map[string]interface{}{"cold": cold[i]})
			}
		}
	}
	for i, b := range bases {
		if warmB[i] != cold[len(vars)+i] {
			// the base itself was judged differently after its variants had been decoded
			var seq []string
			for _, v := range vars {
				if v.base == i {
					seq = append(seq, hx.Hex(v.stream))
				}
			}
			in := input{Kind: "history", Label: b.label + ":base-after-its-variants", Magic: magic, Frames: append(seq, hx.Hex(b.stream))}
			if !w.doHistorySeq(in) {
				c.Fail("history-dependent-decode:"+cmdLabel(b.cmd), "the verdict on a well-formed frame differs between a process that decoded mutated frames first and one that did not", in,
					map[string]interface{}{"warm": warmB[i]}, map[string]interface{}{"cold_after_variants": cold[len(vars)+i]})
			}
		}
	}
	c.Count(fmt.Sprintf("history:bases=%d", len(bases)))
	c.Sample(map[string]interface{}{"kind": "history", "bases": len(bases), "variants": len(vars), "differences": suspects})
}
