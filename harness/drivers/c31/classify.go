package c31

import (
	"fmt"

	"github.com/ontio/ontology/consensus/vbft"
)

// Classification of a short quorum by CAUSE, from the real pool contents.
//
// An evidence item is one signature the pool holds for (signer index i, proposer P): the
// CommitterSig of a stored commit message for P, one of its EndorsersSig entries, or a non-empty
// entry for P in EndorseSigs[i]. While the history is fed in, every accepted message registers the
// status of the items it carries: "" (verifies under the key of peer i over P's block) or the
// documented reason why it does not.
//
// When commitDone declares P with fewer than N-(N-1)/3 valid signers:
//  1. if even the CLAIMS for P (valid or not) do not reach the threshold the way the code is meant
//     to count them — distinct committers/endorsers named in commit messages for P, plus one; or
//     distinct endorsers with a non-empty entry for P — the implementation counted something that
//     is not evidence for P at all (signers of other proposals, empty endorsements, one signer
//     twice): an UNLISTED class, whatever else the history contains;
//  2. otherwise a cause D is accepted only if removing the items with defect D from the tally makes
//     it fall below the threshold (D is a cause, not a bystander); unlisted causes are tried first;
//  3. if no single defect explains it, all invalid items together must; if the valid items alone
//     reach the tally the proposer was counted twice.

const (
	causeUnsigned     = "unsigned"       // the carrying message's own signature does not verify: never listed
	causeUnknown      = "unknown-origin" // the pool holds bytes no accepted message carried
	causeUnclassified = "unclassified"   // invalid for no documented reason
)

var causeOrder = []string{causeUnsigned, causeUnknown, causeUnclassified,
	"commit-msg-endorser-sigs", "commit-msg-claimed-committer", "endorse-msg-claimed-endorser",
	"commit-msg-hash-not-bound", "endorse-msg-hash-not-bound",
	"commit-msg-proposer-not-a-peer", "endorse-msg-proposer-not-a-peer", "proposal-second-block"}

func evKey(idx, p uint32, empty bool, sig []byte) string {
	return fmt.Sprintf("%d/%d/%v/%x", idx, p, empty, sig)
}

func (r *run) register(idx, p uint32, empty bool, sig []byte, cause string) {
	k := evKey(idx, p, empty, sig)
	if _, ok := r.cause[k]; !ok {
		r.cause[k] = cause
	}
}

// msgCause: why the own signature of an accepted endorse/commit message is not a valid signature
// of the peer it names for the proposer it names.
func (r *run) msgCause(op Op, own bool, kind string) string {
	_, proposerPeer := r.pos[op.Proposer]
	switch {
	case !own:
		return causeUnsigned
	case op.Claimed != op.Sender && kind == "commit":
		return "commit-msg-claimed-committer"
	case op.Claimed != op.Sender:
		return "endorse-msg-claimed-endorser"
	case !proposerPeer:
		return kind + "-msg-proposer-not-a-peer"
	case op.MsgHash != 0:
		return kind + "-msg-hash-not-bound"
	}
	return causeUnclassified
}

type item struct {
	idx   uint32
	cause string
}

func (r *run) itemCause(idx, p uint32, empty bool, sig []byte) string {
	c, ok := r.cause[evKey(idx, p, empty, sig)]
	if !ok {
		return causeUnknown
	}
	// the registered status must agree with the bytes actually stored
	if (c == "") != r.validFor(idx, p, empty, sig) {
		return causeUnclassified
	}
	return c
}

func distinct(items []item, keep func(item) bool) int {
	seen := map[uint32]bool{}
	for _, it := range items {
		if keep(it) {
			seen[it.idx] = true
		}
	}
	return len(seen)
}

// classifyShort names the oracle class for "P declared with have < q valid signers".
func (r *run) classifyShort(p uint32, have, q int, commits []vbft.VerifC31CommitView, esigs map[uint32][]vbft.VerifC31ESigView) (string, map[string]interface{}) {
	var path1, path2 []item
	all := map[uint32]bool{}
	for _, c := range commits {
		all[c.Committer] = true
		for k := range c.EndorsersSig {
			all[k] = true
		}
		if c.Proposer != p {
			continue
		}
		path1 = append(path1, item{c.Committer, r.itemCause(c.Committer, p, c.ForEmpty, c.CommitterSig)})
		for k, sg := range c.EndorsersSig {
			path1 = append(path1, item{k, r.itemCause(k, p, c.ForEmpty, sg)})
		}
	}
	for k, l := range esigs {
		for _, e := range l {
			if e.Proposer == p && !e.ForEmpty {
				path2 = append(path2, item{k, r.itemCause(k, p, false, e.Signature)})
			}
		}
	}
	any := func(item) bool { return true }
	reach := func(keep func(item) bool) bool { return distinct(path1, keep)+1 >= q || distinct(path2, keep) >= q }
	detail := map[string]interface{}{
		"claimed_signers_in_commit_msgs_for_proposer": distinct(path1, any),
		"endorsers_with_entry_for_proposer":           distinct(path2, any),
		"distinct_signers_over_all_proposers":         len(all),
	}
	if !reach(any) {
		if len(all)+1 >= q {
			return "quorum:signers-of-other-proposals-counted", detail
		}
		return "quorum:tally-exceeds-evidence-for-proposer", detail
	}
	present := map[string]bool{}
	for _, it := range append(append([]item{}, path1...), path2...) {
		if it.cause != "" {
			present[it.cause] = true
		}
	}
	name := func(d string) string {
		switch d {
		case causeUnsigned:
			return "quorum:unsigned-message-counted"
		case causeUnknown, causeUnclassified:
			return "quorum:short-without-known-cause"
		}
		return "quorum:unverified:" + d
	}
	for _, d := range causeOrder {
		d := d
		if present[d] && !reach(func(it item) bool { return it.cause != d }) {
			detail["cause_removed_makes_tally_short"] = d
			return name(d), detail
		}
	}
	if !reach(func(it item) bool { return it.cause == "" }) {
		for _, d := range causeOrder {
			if present[d] {
				detail["causes_jointly"] = present
				return name(d), detail
			}
		}
	}
	// the valid items alone reach the code's tally: only the "+1" for a proposer that is already a key is left
	proposerIsKey := distinct(path1, func(it item) bool { return it.cause == "" && it.idx == p }) == 1
	if proposerIsKey && have >= q-1 {
		return "quorum:proposer-counted-twice", detail
	}
	return "quorum:short-without-known-cause", detail
}
