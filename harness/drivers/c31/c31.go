// Package c31: "commit is declared only with a verifiable two-thirds signer quorum".
//
// The driver feeds histories of proposal / endorse / commit messages (honest rounds, single
// faulty peers forging endorser lists, claimed indices and hashes, duplicates, empty-block
// variants) through the real receive check and a real BlockPool (add-only hook
// consensus/vbft/verif_hooks_c31.go), with real keys and signatures. It records, per history,
// the pool's answers and contents as a Coq case for Corr/C31.v (the model must reproduce them),
// and checks the property directly on the implementation: whenever commitDone declares consensus
// for proposer p, at least N-(N-1)/3 distinct consensus peers must have a signature in the pool
// that verifies under their key over p's block.
package c31

import (
	"encoding/json"
	"fmt"
	"sort"
	"strings"

	"github.com/ontio/ontology/consensus/vbft"

	"verif/harness/gen"
	"verif/harness/hx"
)

func init() {
	gen.RegisterFile("VbftIntake.v", intakeProducer)
	hx.Register("C31", Run)
}

func quorum(n uint32) int { return int(n) - (int(n)-1)/3 }

// ---------- Coq printers ----------

func cN(v uint32) string { return hx.CoqN(uint64(v)) }

func coqEnds(es []mEntry) string {
	var it []string
	for _, e := range es {
		it = append(it, fmt.Sprintf("(%s, %s)", cN(e.Idx), hx.CoqBool(e.Valid)))
	}
	return hx.CoqList(it)
}

func coqCM(m mOp) string {
	return fmt.Sprintf("(mkCM %s %s %d %s %s %s)", cN(m.Claimed), cN(m.Proposer), m.HashID, hx.CoqBool(m.ForEmpty), hx.CoqBool(m.Valid), coqEnds(m.Ends))
}

func coqPP(m mOp) string {
	return fmt.Sprintf("(mkPP %s %d %s)", cN(m.Proposer), m.SigID, hx.CoqBool(m.Valid))
}

func coqOp(m mOp) string {
	switch m.Kind {
	case "proposal":
		return fmt.Sprintf("OpProposal %s %s", hx.CoqBool(m.OK), coqPP(m))
	case "endorse":
		return fmt.Sprintf("OpEndorse %s %s (mkEM %s %s %s %s)", cN(m.Sender), hx.CoqBool(m.OK), cN(m.Claimed), cN(m.Proposer), hx.CoqBool(m.ForEmpty), hx.CoqBool(m.Valid))
	}
	return fmt.Sprintf("OpCommit %s %s %s", cN(m.Sender), hx.CoqBool(m.OK), coqCM(m))
}

func coqNs(l []uint32) string {
	var it []string
	for _, v := range l {
		it = append(it, cN(v))
	}
	return hx.CoqList(it)
}

func coqOutcomes(l []outcome) string {
	var it []string
	for _, o := range l {
		it = append(it, fmt.Sprintf("(%s, %s, %s)", cN(o.P), hx.CoqBool(o.Empty), hx.CoqBool(o.Done)))
	}
	return hx.CoqList(it)
}

func sortedKeys(m map[uint32][]mESig) []uint32 {
	var ks []uint32
	for k := range m {
		ks = append(ks, k)
	}
	sort.Slice(ks, func(i, j int) bool { return ks[i] < ks[j] })
	return ks
}

func coqCase(h *Hist, o *observed) string {
	var ops, res, props, cms, esigs, isend, signers []string
	for _, m := range o.Ops {
		ops = append(ops, coqOp(m))
	}
	for _, r := range o.Results {
		res = append(res, map[string]string{"added": "Added", "pool-error": "DupErr", "dropped": "Dropped"}[r])
	}
	for _, p := range o.Props {
		props = append(props, coqPP(p))
	}
	for _, c := range o.Commits {
		cms = append(cms, coqCM(c))
	}
	for _, k := range sortedKeys(o.ESigs) {
		var l []string
		for _, e := range o.ESigs[k] {
			l = append(l, fmt.Sprintf("mkES %s %s %s", cN(e.Proposer), hx.CoqBool(e.Empty), hx.CoqBool(e.Valid)))
		}
		esigs = append(esigs, fmt.Sprintf("(%s, %s)", cN(k), hx.CoqList(l)))
	}
	var ik []uint32
	for k := range o.IsEnd {
		ik = append(ik, k)
	}
	sort.Slice(ik, func(i, j int) bool { return ik[i] < ik[j] })
	for _, k := range ik {
		isend = append(isend, fmt.Sprintf("(%s, %s)", cN(k), hx.CoqBool(o.IsEnd[k])))
	}
	var sk []uint32
	for k := range o.Signers {
		sk = append(sk, k)
	}
	sort.Slice(sk, func(i, j int) bool { return sk[i] < sk[j] })
	for _, k := range sk {
		signers = append(signers, fmt.Sprintf("(%s, %s)", cN(k), hx.CoqNat(o.Signers[k])))
	}
	return fmt.Sprintf("CHist %s %s %s %s %s %s %s %s %s %s %s %s %s %s %s %s %s",
		cN(h.N), cN(h.C), cN(h.Self), coqNs(h.Peers), coqNs(h.Connected), coqNs(h.Endorsers),
		hx.CoqList(ops), hx.CoqList(res), hx.CoqList(props), hx.CoqList(cms), hx.CoqList(esigs),
		hx.CoqList(isend), coqOutcomes(o.CD), coqOutcomes(o.ED), hx.CoqList(signers),
		hx.CoqBool(o.Unverif), hx.CoqBool(o.Double))
}

// ---------- one history: run, record, oracle ----------

func runHist(c *hx.Ctx, w *world, h *Hist, emit bool) {
	r, err := newRun(w, h)
	if ip, isPanic := err.(*implPanic); isPanic {
		c.Fail(ip.class(), "a panic escaped from the implementation", h, ip, nil)
		return
	}
	if err != nil {
		c.Fail("harness:setup", "environment construction", h, err.Error(), nil)
		return
	}
	var o *observed
	if panicked, msg := hx.Recover(func() { o, err = r.execute() }); panicked {
		c.Fail("panic:unguarded", "a panic escaped outside the guarded calls into the implementation", h, msg, nil)
		return
	}
	if ip, isPanic := err.(*implPanic); isPanic {
		// ORACLE: no message, however malformed, may crash the node.
		c.Count(ip.class())
		c.Fail(ip.class(), "a panic escaped from the implementation while it handled a received consensus message", h, ip, "an error return (message dropped)")
		return
	}
	if err != nil {
		c.Fail("harness:history", "history could not be executed", h, err.Error(), nil)
		return
	}
	c.Eval()
	for _, st := range o.Stripped {
		c.Count("proposal-without-header-signature:" + st)
		if st != vbft.VerifC31BadEncoding {
			c.Fail("receive:proposal-without-sigdata-decoded", "a proposal whose block header or empty-block header carries no signature was not rejected by the wire decoder (DeserializeVbftMsg)",
				h, st, vbft.VerifC31BadEncoding)
		}
	}
	c.Count(fmt.Sprintf("N:%d", h.N))
	c.Count(fmt.Sprintf("ops:%d", len(h.Ops)))
	c.Count("label:" + strings.SplitN(h.Label, "/", 2)[0])
	c.Count(fmt.Sprintf("esig-keys:%d", len(o.ESigs)))
	for _, res := range o.Results {
		c.Count("receive:" + res)
	}
	if len(o.CD) > 1 {
		c.Count("commitDone:order-dependent")
	}
	if len(o.ED) > 1 {
		c.Count("endorseDone:order-dependent")
	}
	for _, u := range o.Unsigned {
		c.Fail("receive:own-signature-not-verified:"+u.Kind,
			"a "+u.Kind+" message whose own mandatory signature does not verify under the sending peer's key over the digest it carries passed msg.Verify and reached the block pool",
			h, u, "dropped by the receive loop (msg.Verify error)")
	}
	if o.Rejected > 0 {
		c.Count("receive:verifiable-message-dropped")
	}
	for _, op := range h.Ops {
		c.Count("own-sig:" + op.Kind + ":" + sigClass(h, op))
	}
	declared := false
	q := quorum(h.N)
	for _, oc := range o.CD {
		if !oc.Done {
			c.Count("commitDone:no")
			continue
		}
		declared = true
		c.Count("commitDone:declared")
		if o.ViaSigs {
			c.Count("commitDone:declared-via-endorse-sigs")
		}
		have := o.Signers[oc.P]
		if have >= q {
			c.Count("declared:with-quorum")
			continue
		}
		// ORACLE: commit declared without a verifiable quorum; class by cause (classify.go).
		class := "quorum:short-without-known-cause"
		var detail map[string]interface{}
		for _, sq := range o.Short {
			if sq.P == oc.P && sq.Empty == oc.Empty {
				class, detail = sq.Class, sq.Detail
			}
		}
		c.Count("declared:" + class)
		c.Fail(class, "commit consensus declared for a proposer without N-(N-1)/3 distinct consensus peers holding a verifiable signature for its proposal",
			h, map[string]interface{}{"declared_proposer": oc.P, "for_empty": oc.Empty, "valid_signers": have, "commitDone_outcomes": o.CD,
				"receive_results": o.Results, "unsigned_messages_accepted": o.Unsigned, "tally": detail},
			fmt.Sprintf("at least %d valid signers (N=%d)", q, h.N))
	}
	if declared || len(o.Commits) > 0 && len(o.ESigs) > 1 {
		c.Nontrivial(fmt.Sprintf("%v|%v|%v|%v", h.N, o.Ops, o.CD, h.Endorsers))
	}
	if emit {
		c.Sample(map[string]interface{}{"history": h, "commitDone": o.CD, "endorseDone": o.ED, "valid_signers": o.Signers, "results": o.Results})
	}
	c.Case(coqCase(h, o), map[string]interface{}{"history": h, "commitDone": o.CD, "endorseDone": o.ED, "results": o.Results})
}

// ---------- getCommitConsensus directly ----------

func gccCases(c *hx.Ctx, count int) {
	for k := 0; k < count; k++ {
		n := []int{1, 2, 3, 4, 4, 5, 6, 7, 7, 10, 13, 31}[c.Intn(12)]
		cc := (n - 1) / 3
		if c.Intn(4) == 0 {
			cc = c.Intn(n + 1)
		}
		nm := c.Intn(7)
		ids := func() uint32 {
			switch c.Intn(12) {
			case 0:
				return maxU32
			case 1:
				return uint32(n + c.Intn(3))
			}
			return uint32(c.Intn(n))
		}
		var specs []vbft.VerifC31CommitSpec
		var terms []string
		for i := 0; i < nm; i++ {
			sp := vbft.VerifC31CommitSpec{Committer: ids(), Proposer: ids(), ForEmpty: c.Intn(3) == 0}
			if c.Intn(3) > 0 {
				sp.Proposer = uint32(c.Intn(2))
			}
			seen := map[uint32]bool{}
			for j := c.Intn(n + 2); j > 0; j-- {
				e := ids()
				if !seen[e] {
					seen[e] = true
					sp.Endorsers = append(sp.Endorsers, e)
				}
			}
			sort.Slice(sp.Endorsers, func(a, b int) bool { return sp.Endorsers[a] < sp.Endorsers[b] })
			specs = append(specs, sp)
			var es []mEntry
			for _, e := range sp.Endorsers {
				es = append(es, mEntry{e, false})
			}
			terms = append(terms, coqCM(mOp{Claimed: sp.Committer, Proposer: sp.Proposer, ForEmpty: sp.ForEmpty, Ends: es}))
		}
		var p uint32
		var fe bool
		if ip := guard("getCommitConsensus", func() { p, fe = vbft.VerifC31GetCommitConsensus(specs, cc, n) }); ip != nil {
			c.Fail(ip.class(), "getCommitConsensus panicked", map[string]interface{}{"N": n, "C": cc, "msgs": specs}, ip, nil)
			continue
		}
		c.Eval()
		if p == maxU32 {
			c.Count("gcc:none")
		} else {
			c.Count("gcc:consensus")
			c.Nontrivial(fmt.Sprintf("gcc|%d|%d|%v", n, cc, specs))
		}
		if fe {
			c.Count("gcc:for-empty")
		}
		c.Case(fmt.Sprintf("CGcc %s %s %s %s %s", hx.CoqZ(int64(cc)), hx.CoqZ(int64(n)), hx.CoqList(terms), cN(p), hx.CoqBool(fe)),
			map[string]interface{}{"kind": "getCommitConsensus", "N": n, "C": cc, "msgs": specs, "proposer": p, "for_empty": fe})
	}
}

func Run(c *hx.Ctx) {
	c.CoqModule("Corr.C31")
	w := newWorld()
	// 1. replay mode
	var in Hist
	if c.ReplayInput(&in) && len(in.Peers) > 0 {
		runHist(c, w, &in, true)
		return
	}
	// 2. corpus
	for _, raw := range c.CorpusInputs() {
		var h Hist
		if json.Unmarshal(raw, &h) == nil && len(h.Peers) > 0 {
			runHist(c, w, &h, false)
		}
	}
	// 3. the witnesses of the Coq refutations, probed on the implementation on every run
	for _, h := range witnesses() {
		hh := h
		runHist(c, w, &hh, true)
	}
	for _, h := range splitProposalProbes() {
		hh := h
		runHist(c, w, &hh, false)
	}
	for _, h := range strippedProposalProbes() {
		hh := h
		runHist(c, w, &hh, false)
	}
	for _, h := range unsignedProbes() {
		hh := h
		runHist(c, w, &hh, false)
	}
	submitProbes(c, w)
	// 4. generated histories
	nh := c.N(700, 7000)
	for i := 0; i < nh; i++ {
		h := genHist(c, i)
		runHist(c, w, h, i < 2)
	}
	// 5. getCommitConsensus alone
	gccCases(c, c.N(400, 4000))
	c.Note(fmt.Sprintf("real signature verifications performed: %d", w.nver))
}

// sigClass names the kind of own signature an op carries (for the distribution).
func sigClass(h *Hist, op Op) string {
	switch op.Sig.Key {
	case sigGarbage:
		return "garbage-65"
	case sigEmpty:
		return "empty"
	case sigNil:
		return "absent-null"
	case sigMissing:
		return "absent-missing"
	case sigOneByte:
		return "one-byte"
	}
	signer := op.Sender
	if op.Kind == "proposal" {
		signer = op.Proposer
	}
	if op.Sig.Key < 0 || op.Sig.Key >= len(h.Peers) {
		return "empty"
	}
	if h.Peers[op.Sig.Key] != signer {
		return "signed-by-another-peer"
	}
	if op.Kind != "proposal" && op.Sig.Hash != op.MsgHash || op.Kind == "proposal" && op.Sig.Hash != 0 {
		return "signed-other-digest"
	}
	return "signed"
}
