package c31

import (
	"encoding/json"
	"fmt"
	"runtime/debug"
	"sort"
	"strings"

	"github.com/ontio/ontology-crypto/keypair"
	s "github.com/ontio/ontology-crypto/signature"
	"github.com/ontio/ontology/account"
	"github.com/ontio/ontology/common"
	"github.com/ontio/ontology/consensus/vbft"
	vconfig "github.com/ontio/ontology/consensus/vbft/config"
	"github.com/ontio/ontology/core/signature"
	"github.com/ontio/ontology/core/types"
)

const blkNum = 7
const maxU32 = 0xFFFFFFFF

// ---------- replayable input ----------

// Sig says how a signature byte string is produced: Key >= 0 signs with the key of that peer
// *position* (index into the key table), Key = -1 is 65 bytes of garbage, Key = -2 is the empty
// slice, Key = -3 is a nil slice (JSON null on the wire), Key = -4 is the field left out of the
// JSON object altogether (decodes to nil), Key = -5 is a single byte.
// Hash selects what is signed: 0 = the block (or empty block, by the message's ForEmpty) of the
// proposer the message names, 1 = an unrelated 32-byte value, 2 = the other variant of the
// named proposer's block (empty <-> non-empty).
type Sig struct {
	Key  int `json:"key"`
	Hash int `json:"hash"`
}

type Entry struct {
	Idx uint32 `json:"idx"`
	Sig Sig    `json:"sig"`
}

type Op struct {
	Kind     string  `json:"kind"` // proposal | endorse | commit
	Sender   uint32  `json:"sender"`
	Claimed  uint32  `json:"claimed"`  // Committer / Endorser field (proposal: unused)
	Proposer uint32  `json:"proposer"` // BlockProposer / EndorsedProposer / proposal's proposer
	ForEmpty bool    `json:"for_empty"`
	MsgHash  int     `json:"msg_hash"` // CommitBlockHash / EndorsedBlockHash: same coding as Sig.Hash
	Sig      Sig     `json:"sig"`      // CommitterSig / EndorserSig / proposer's block signature
	Variant  int     `json:"variant"`  // proposal: 0 = the proposer's block, 1 = a second, different block
	// proposal: remove the signature list of a header before encoding: 1 = block header,
	// 2 = empty-block header, 3 = both; StripNil chooses a nil list instead of an empty one
	StripSig int  `json:"strip_sig,omitempty"`
	StripNil bool `json:"strip_nil,omitempty"`
	Ends     []Entry `json:"ends"`     // commit: EndorsersSig
}

type Hist struct {
	Label     string   `json:"label"`
	N         uint32   `json:"n"`
	C         uint32   `json:"c"`
	Self      uint32   `json:"self"`
	Peers     []uint32 `json:"peers"`
	Connected []uint32 `json:"connected"`
	Endorsers []uint32 `json:"endorsers"`
	Ops       []Op     `json:"ops"`
}

// ---------- every call into the implementation goes through guard ----------

// implPanic is a panic that escaped from the implementation.
type implPanic struct {
	Where string `json:"call"`
	Func  string `json:"panicking_function"`
	Msg   string `json:"panic"`
}

func (e *implPanic) Error() string { return "panic in " + e.Where + " (" + e.Func + "): " + e.Msg }

// class names the oracle class: the implementation function the panic came through.
func (e *implPanic) class() string {
	if e.Func != "" {
		return "panic:" + e.Func
	}
	return "panic:" + e.Where
}

// guard runs one call into the implementation; a panic never ends the run.
func guard(where string, f func()) (ip *implPanic) {
	defer func() {
		if r := recover(); r != nil {
			ip = &implPanic{Where: where, Msg: fmt.Sprint(r)}
			st := string(debug.Stack())
			// outermost exported entry of the vbft package the panic passed through
			for _, fn := range []string{"DeserializeVbftMsg", "getCommitConsensus", "commitDone", "endorseDone", "newBlockCommitment",
				"newBlockEndorsement", "newBlockProposal", "isEndorser", "Verify"} {
				if strings.Contains(st, "vbft."+fn+"(") || strings.Contains(st, ")."+fn+"(") {
					ip.Func = fn
					break
				}
			}
		}
	}()
	f()
	return nil
}

// ---------- keys, blocks, signatures (real crypto) ----------

const maxPeers = 10

type world struct {
	accts   []*account.Account
	sigs    map[string][]byte // (key, hash) -> signature bytes
	ver     map[string]bool   // (key, hash, sig) -> verifies?
	garbage []byte
	nver    int
}

func newWorld() *world {
	w := &world{sigs: map[string][]byte{}, ver: map[string]bool{}}
	for i := 0; i < maxPeers; i++ {
		w.accts = append(w.accts, account.NewAccount(""))
	}
	w.garbage = make([]byte, 65)
	for i := range w.garbage {
		w.garbage[i] = byte(37*i + 11)
	}
	return w
}

func (w *world) sign(key int, h common.Uint256) []byte {
	k := fmt.Sprintf("%d/%x", key, h[:])
	if sg, ok := w.sigs[k]; ok {
		return sg
	}
	sg, err := signature.Sign(w.accts[key], h[:])
	if err != nil {
		panic(err)
	}
	w.sigs[k] = sg
	return sg
}

// verifies is the ground truth: does sig verify under the key at position key over h?
func (w *world) verifies(key int, h common.Uint256, sig []byte) bool {
	if key < 0 {
		return false
	}
	k := fmt.Sprintf("%d/%x/%x", key, h[:], sig)
	if v, ok := w.ver[k]; ok {
		return v
	}
	w.nver++
	v := false
	if sg, err := s.Deserialize(sig); err == nil {
		v = s.Verify(w.accts[key].PublicKey, h[:], sg)
	}
	w.ver[k] = v
	return v
}

// run is one history on one real pool.
type run struct {
	w      *world
	h      *Hist
	pos    map[uint32]int // peer index -> key position
	env    *vbft.VerifC31Env
	blocks map[string]*types.Block // proposer/variant/empty -> block
	hashID map[common.Uint256]int
	sigID  map[string]int
	cause  map[string]string // evidence item -> "" (valid) or the reason it is not (classify.go)
}

func (r *run) block(proposer uint32, variant int, empty bool) *types.Block {
	k := fmt.Sprintf("%d/%d/%v", proposer, variant, empty)
	if b, ok := r.blocks[k]; ok {
		return b
	}
	payload, err := json.Marshal(&vconfig.VbftBlockInfo{Proposer: proposer})
	if err != nil {
		panic(err)
	}
	cd := uint64(proposer)*16 + uint64(variant)*2
	if empty {
		cd++
	}
	hd := &types.Header{Version: 0, Height: blkNum, Timestamp: 1600000000, ConsensusData: cd, ConsensusPayload: payload}
	b := &types.Block{Header: hd}
	r.blocks[k] = b
	return b
}

// canon is the hash a signature "for the proposal of p" must cover.
func (r *run) canon(p uint32, empty bool) (common.Uint256, bool) {
	if _, ok := r.pos[p]; !ok {
		return common.Uint256{}, false
	}
	return r.block(p, 0, empty).Hash(), true
}

func bogusHash(p uint32, empty bool) common.Uint256 {
	var h common.Uint256
	for i := range h {
		h[i] = byte(0xA0 + i)
	}
	h[0], h[1], h[2], h[3] = byte(p), byte(p>>8), byte(p>>16), byte(p>>24)
	if empty {
		h[4] = 1
	}
	return h
}

// pick resolves a Hash selector for a message naming proposer p / forEmpty.
func (r *run) pick(sel int, p uint32, empty bool) common.Uint256 {
	switch sel {
	case 0:
		if h, ok := r.canon(p, empty); ok {
			return h
		}
		return bogusHash(p, empty)
	case 2:
		if h, ok := r.canon(p, !empty); ok {
			return h
		}
		return bogusHash(p, !empty)
	}
	h := bogusHash(p, empty)
	h[5] = 0x77
	return h
}

func (r *run) mkSig(sg Sig, p uint32, empty bool) []byte {
	if b, special := r.specialSig(sg); special {
		return b
	}
	return r.w.sign(sg.Key, r.pick(sg.Hash, p, empty))
}

const (
	sigGarbage = -1
	sigEmpty   = -2
	sigNil     = -3
	sigMissing = -4
	sigOneByte = -5
)

func (r *run) specialSig(sg Sig) ([]byte, bool) {
	switch {
	case sg.Key == sigGarbage:
		return r.w.garbage, true
	case sg.Key == sigNil || sg.Key == sigMissing:
		return nil, true
	case sg.Key == sigOneByte:
		return []byte{7}, true
	case sg.Key < 0 || sg.Key >= len(r.h.Peers):
		return []byte{}, true
	}
	return nil, false
}

// dropJSONField removes one member of the JSON object inside a serialized consensus message.
func dropJSONField(data []byte, field string) ([]byte, error) {
	var outer vbft.ConsensusMsgPayload
	if err := json.Unmarshal(data, &outer); err != nil {
		return nil, err
	}
	var inner map[string]json.RawMessage
	if err := json.Unmarshal(outer.Payload, &inner); err != nil {
		return nil, err
	}
	if _, ok := inner[field]; !ok {
		return nil, fmt.Errorf("no member %q", field)
	}
	delete(inner, field)
	b, err := json.Marshal(inner)
	if err != nil {
		return nil, err
	}
	outer.Payload, outer.Len = b, uint32(len(b))
	return json.Marshal(&outer)
}

// ownSigOK: the message's own signature verifies under the sender's key over the digest it carries.
func (r *run) ownSigOK(sender uint32, h common.Uint256, sig []byte) bool {
	k, ok := r.pos[sender]
	return ok && r.w.verifies(k, h, sig)
}

// validFor: sig verifies under the key of consensus peer idx over the block of proposer p.
func (r *run) validFor(idx uint32, p uint32, empty bool, sig []byte) bool {
	k, ok := r.pos[idx]
	if !ok {
		return false
	}
	h, ok := r.canon(p, empty)
	if !ok {
		return false
	}
	return r.w.verifies(k, h, sig)
}

func (r *run) idOfHash(h common.Uint256) int {
	if id, ok := r.hashID[h]; ok {
		return id
	}
	id := 100 + len(r.hashID)
	r.hashID[h] = id
	return id
}

func (r *run) idOfSig(b []byte) int {
	k := string(b)
	if id, ok := r.sigID[k]; ok {
		return id
	}
	id := 500 + len(r.sigID)
	r.sigID[k] = id
	return id
}

// ---------- model-side views (what goes into the Coq case) ----------

type mEntry struct {
	Idx   uint32
	Valid bool
}
type mOp struct {
	Kind     string
	Sender   uint32
	OK       bool
	Claimed  uint32
	Proposer uint32
	ForEmpty bool
	HashID   int
	SigID    int
	Valid    bool
	Ends     []mEntry
}
type mESig struct {
	Proposer uint32
	Empty    bool
	Valid    bool
}
type outcome struct {
	P     uint32
	Empty bool
	Done  bool
}

type pendingEv struct {
	idx   uint32
	empty bool
	sig   []byte
	own   bool // the message's own signature (status decided once the receive verdict is known)
	valid bool
	cause string
}

type shortQuorum struct {
	P      uint32
	Empty  bool
	Have   int
	Class  string
	Detail map[string]interface{}
}

type unsignedHit struct {
	Index int    `json:"op_index"`
	Kind  string `json:"kind"`
	Sig   string `json:"signature"`
	Stage string `json:"stage"`
}

func sigKindName(sg Sig) string {
	switch sg.Key {
	case sigGarbage:
		return "65 bytes of garbage"
	case sigEmpty:
		return "empty slice"
	case sigNil:
		return "absent (JSON null)"
	case sigMissing:
		return "absent (member missing)"
	case sigOneByte:
		return "one byte"
	}
	return fmt.Sprintf("signed with key #%d, hash selector %d", sg.Key, sg.Hash)
}

type observed struct {
	Ops      []mOp
	Results  []string // added | pool-error | dropped
	Props    []mOp
	Commits  []mOp
	ESigs    map[uint32][]mESig
	IsEnd    map[uint32]bool
	CD       []outcome // distinct commitDone outcomes over repeated calls
	ED       []outcome
	Signers  map[uint32]int // declared proposer -> distinct peers with valid signatures (oracle count)
	Unverif  bool
	Double   bool
	FirstBad string // kind of the first passing message that is not verified
	Short    []shortQuorum // declared proposers without a verifiable quorum, classified by cause
	Stripped []string      // stage at which each proposal without a header signature list stopped
	Unsigned []unsignedHit // messages that reached the pool although their own signature does not verify
	Rejected int           // messages dropped although their own signature verifies
	ViaSigs  bool   // getCommitConsensus on the stored commit messages finds nothing (second path decides)
}

func newRun(w *world, h *Hist) (*run, error) {
	r := &run{w: w, h: h, pos: map[uint32]int{}, blocks: map[string]*types.Block{}, hashID: map[common.Uint256]int{}, sigID: map[string]int{}, cause: map[string]string{}}
	if len(h.Peers) > maxPeers {
		return nil, fmt.Errorf("too many peers")
	}
	var pubs []keypair.PublicKey
	conn := make([]bool, len(h.Peers))
	for i, p := range h.Peers {
		r.pos[p] = i
		pubs = append(pubs, w.accts[i].PublicKey)
		for _, c := range h.Connected {
			if c == p {
				conn[i] = true
			}
		}
	}
	var env *vbft.VerifC31Env
	var err error
	if ip := guard("VerifC31NewEnv", func() {
		env, err = vbft.VerifC31NewEnv(h.Self, h.N, h.C, h.Peers, pubs, conn, h.Endorsers, blkNum, blkNum-1)
	}); ip != nil {
		return nil, ip
	}
	if err != nil {
		return nil, err
	}
	r.env = env
	return r, nil
}

// execute feeds the history to the real receive path + pool and observes everything.
func (r *run) execute() (*observed, error) {
	o := &observed{ESigs: map[uint32][]mESig{}, IsEnd: map[uint32]bool{}, Signers: map[uint32]int{}}
	inPeers := func(i uint32) bool { _, ok := r.pos[i]; return ok }
	for _, op := range r.h.Ops {
		var data []byte
		var err error
		m := mOp{Kind: op.Kind, Sender: op.Sender, Claimed: op.Claimed, Proposer: op.Proposer, ForEmpty: op.ForEmpty}
		verified := true
		double := false
		var pending []pendingEv // evidence items this message carries
		own := false // ground truth: the message's own mandatory signature verifies under the sender's key
		switch op.Kind {
		case "proposal":
			if !inPeers(op.Proposer) {
				return nil, fmt.Errorf("proposal by a non-peer")
			}
			blk := *r.block(op.Proposer, op.Variant, false)
			eblk := *r.block(op.Proposer, op.Variant, true)
			hd, ehd := *blk.Header, *eblk.Header
			bsig := r.sigOver(op.Sig, blk.Hash())
			esig := r.sigOver(op.Sig, eblk.Hash())
			hd.SigData = [][]byte{bsig}
			ehd.SigData = [][]byte{esig}
			var none [][]byte
			if !op.StripNil {
				none = [][]byte{}
			}
			if op.StripSig&1 != 0 {
				hd.SigData = none
			}
			if op.StripSig&2 != 0 {
				ehd.SigData = none
			}
			blk.Header, eblk.Header = &hd, &ehd
			if ip := guard("VerifC31ProposalMsg", func() { data, err = vbft.VerifC31ProposalMsg(&blk, &eblk, nil) }); ip != nil {
				return nil, ip
			}
			own = op.StripSig == 0 && r.ownSigOK(op.Proposer, blk.Hash(), bsig) && r.ownSigOK(op.Proposer, eblk.Hash(), esig)
			m.SigID = r.idOfSig(bsig)
			m.Valid = r.validFor(op.Proposer, op.Proposer, false, bsig)
			pending = append(pending, pendingEv{idx: op.Proposer, sig: bsig, own: true, valid: m.Valid})
			verified = m.Valid && inPeers(op.Proposer)
		case "endorse":
			h := r.pick(op.MsgHash, op.Proposer, op.ForEmpty)
			sg := r.mkSig(op.Sig, op.Proposer, op.ForEmpty)
			if ip := guard("VerifC31EndorseMsg", func() {
				data, err = vbft.VerifC31EndorseMsg(op.Claimed, op.Proposer, blkNum, h, op.ForEmpty, nil, sg)
			}); ip != nil {
				return nil, ip
			}
			if err == nil && op.Sig.Key == sigMissing {
				data, err = dropJSONField(data, "endorser_sig")
			}
			own = r.ownSigOK(op.Sender, h, sg)
			m.HashID = r.idOfHash(h)
			m.Valid = r.validFor(op.Claimed, op.Proposer, op.ForEmpty, sg)
			pending = append(pending, pendingEv{idx: op.Claimed, empty: op.ForEmpty, sig: sg, own: true, valid: m.Valid})
			verified = m.Valid && inPeers(op.Claimed) && inPeers(op.Proposer)
		case "commit":
			h := r.pick(op.MsgHash, op.Proposer, op.ForEmpty)
			sg := r.mkSig(op.Sig, op.Proposer, op.ForEmpty)
			es := map[uint32][]byte{}
			seen := map[uint32]bool{}
			for _, e := range op.Ends {
				if seen[e.Idx] {
					return nil, fmt.Errorf("duplicate endorser key in one message")
				}
				seen[e.Idx] = true
				b := r.mkSig(e.Sig, op.Proposer, op.ForEmpty)
				es[e.Idx] = b
				v := r.validFor(e.Idx, op.Proposer, op.ForEmpty, b)
				m.Ends = append(m.Ends, mEntry{e.Idx, v})
				ec := ""
				if !v {
					ec = "commit-msg-endorser-sigs"
					if !inPeers(op.Proposer) {
						ec = "commit-msg-proposer-not-a-peer"
					}
				}
				pending = append(pending, pendingEv{idx: e.Idx, empty: op.ForEmpty, sig: b, cause: ec})
				verified = verified && v && inPeers(e.Idx)
				if e.Idx == op.Proposer {
					double = true
				}
			}
			if ip := guard("VerifC31CommitMsg", func() {
				data, err = vbft.VerifC31CommitMsg(op.Claimed, op.Proposer, blkNum, h, op.ForEmpty, nil, es, sg)
			}); ip != nil {
				return nil, ip
			}
			if err == nil && op.Sig.Key == sigMissing {
				data, err = dropJSONField(data, "committer_sig")
			}
			own = r.ownSigOK(op.Sender, h, sg)
			m.HashID = r.idOfHash(h)
			m.Valid = r.validFor(op.Claimed, op.Proposer, op.ForEmpty, sg)
			pending = append(pending, pendingEv{idx: op.Claimed, empty: op.ForEmpty, sig: sg, own: true, valid: m.Valid})
			verified = verified && m.Valid && inPeers(op.Claimed) && inPeers(op.Proposer)
			if op.Claimed == op.Proposer {
				double = true
			}
		default:
			return nil, fmt.Errorf("unknown op kind %q", op.Kind)
		}
		if err != nil {
			return nil, fmt.Errorf("serialize %s: %v", op.Kind, err)
		}
		var stage string
		if ip := guard("VerifC31Receive", func() { stage, _ = r.env.VerifC31Receive(op.Sender, data) }); ip != nil {
			ip.Where = fmt.Sprintf("VerifC31Receive, message #%d (%s)", len(o.Ops), op.Kind)
			return nil, ip
		}
		passed := false
		if op.Kind == "proposal" && op.StripSig != 0 {
			o.Stripped = append(o.Stripped, stage)
		}
		switch stage {
		case vbft.VerifC31BadEncoding:
			// rejected by the wire decoder: dropped before msg.Verify
			o.Results = append(o.Results, "dropped")
		case vbft.VerifC31Added:
			passed = true
			o.Results = append(o.Results, "added")
		case vbft.VerifC31PoolErr:
			passed = true
			o.Results = append(o.Results, "pool-error")
		case vbft.VerifC31BadVerify:
			o.Results = append(o.Results, "dropped")
		default:
			return nil, fmt.Errorf("receive stopped at stage %q", stage)
		}
		// The case records the ground truth, not msg.Verify's verdict: the model predicts the drop.
		m.OK = own
		if passed {
			for _, ev := range pending {
				c := ev.cause
				if ev.own { // the message's own signature: status depends on the receive verdict's ground truth
					if ev.valid {
						c = ""
					} else if op.Kind == "proposal" {
						c = causeUnclassified
						if !own {
							c = causeUnsigned
						} else if op.Variant != 0 {
							c = "proposal-second-block"
						}
					} else {
						c = r.msgCause(op, own, op.Kind)
					}
				}
				r.register(ev.idx, op.Proposer, ev.empty, ev.sig, c)
			}
		}
		if passed && !own {
			// ORACLE (receive gate): a message whose own signature does not verify reached the pool.
			o.Unsigned = append(o.Unsigned, unsignedHit{Index: len(o.Ops), Kind: op.Kind, Sig: sigKindName(op.Sig), Stage: stage})
		}
		if !passed && own {
			o.Rejected++
		}
		if m.OK && !verified {
			if !o.Unverif {
				o.FirstBad = r.badKind(op, m)
			}
			o.Unverif = true
		}
		if m.OK && double {
			o.Double = true
		}
		o.Ops = append(o.Ops, m)
	}
	// state dump with validity recomputed from the stored bytes
	var props []vbft.VerifC31ProposalView
	var commits []vbft.VerifC31CommitView
	var esigs map[uint32][]vbft.VerifC31ESigView
	var present bool
	if ip := guard("VerifC31Dump", func() { props, commits, esigs, present = r.env.VerifC31Dump(blkNum) }); ip != nil {
		return nil, ip
	}
	if present {
		for _, p := range props {
			o.Props = append(o.Props, mOp{Kind: "proposal", Proposer: p.Proposer, SigID: r.idOfSig(p.Sig),
				Valid: r.validFor(p.Proposer, p.Proposer, false, p.Sig)})
		}
		for _, c := range commits {
			m := mOp{Kind: "commit", Claimed: c.Committer, Proposer: c.Proposer, ForEmpty: c.ForEmpty, HashID: r.idOfHash(c.Hash),
				Valid: r.validFor(c.Committer, c.Proposer, c.ForEmpty, c.CommitterSig)}
			var ks []uint32
			for k := range c.EndorsersSig {
				ks = append(ks, k)
			}
			sort.Slice(ks, func(i, j int) bool { return ks[i] < ks[j] })
			for _, k := range ks {
				m.Ends = append(m.Ends, mEntry{k, r.validFor(k, c.Proposer, c.ForEmpty, c.EndorsersSig[k])})
			}
			o.Commits = append(o.Commits, m)
		}
		for k, l := range esigs {
			for _, e := range l {
				o.ESigs[k] = append(o.ESigs[k], mESig{e.Proposer, e.ForEmpty, r.validFor(k, e.Proposer, e.ForEmpty, e.Signature)})
			}
		}
	}
	// isEndorser for every index in sight
	cand := append([]uint32{}, r.h.Peers...)
	for k := range o.ESigs {
		cand = append(cand, k)
	}
	for _, i := range cand {
		i := i
		if ip := guard("isEndorser", func() { o.IsEnd[i] = r.env.VerifC31IsEndorser(blkNum, i) }); ip != nil {
			return nil, ip
		}
	}
	// commitDone / endorseDone: Go randomises map iteration, so ask several times
	seenCD, seenED := map[outcome]bool{}, map[outcome]bool{}
	for k := 0; k < 8; k++ {
		var p uint32
		var fe, done bool
		if ip := guard("commitDone", func() { p, fe, done = r.env.VerifC31CommitDone(blkNum, r.h.C, r.h.N) }); ip != nil {
			return nil, ip
		}
		if oc := (outcome{p, fe, done}); !seenCD[oc] {
			seenCD[oc] = true
			o.CD = append(o.CD, oc)
		}
		if ip := guard("endorseDone", func() { p, fe, done = r.env.VerifC31EndorseDone(blkNum, r.h.C) }); ip != nil {
			return nil, ip
		}
		if oc := (outcome{p, fe, done}); !seenED[oc] {
			seenED[oc] = true
			o.ED = append(o.ED, oc)
		}
	}
	var specs []vbft.VerifC31CommitSpec
	for _, cm := range commits {
		sp := vbft.VerifC31CommitSpec{Committer: cm.Committer, Proposer: cm.Proposer, ForEmpty: cm.ForEmpty}
		for k := range cm.EndorsersSig {
			sp.Endorsers = append(sp.Endorsers, k)
		}
		specs = append(specs, sp)
	}
	var gp uint32
	if ip := guard("getCommitConsensus", func() { gp, _ = vbft.VerifC31GetCommitConsensus(specs, int(r.h.C), int(r.h.N)) }); ip != nil {
		return nil, ip
	}
	o.ViaSigs = gp == maxU32
	sortOutcomes(o.CD)
	sortOutcomes(o.ED)
	// oracle count: distinct consensus peers with a verifiable signature for p present in the pool
	for _, oc := range o.CD {
		if !oc.Done {
			continue
		}
		n := 0
		for _, i := range r.h.Peers {
			if r.hasValidSig(i, oc.P, commits, esigs) {
				n++
			}
		}
		o.Signers[oc.P] = n
		if q := int(r.h.N) - (int(r.h.N)-1)/3; n < q {
			cl, det := r.classifyShort(oc.P, n, q, commits, esigs)
			o.Short = append(o.Short, shortQuorum{oc.P, oc.Empty, n, cl, det})
		}
	}
	return o, nil
}

func sortOutcomes(l []outcome) {
	key := func(o outcome) string { return fmt.Sprintf("%010d/%v/%v", o.P, o.Empty, o.Done) }
	sort.Slice(l, func(i, j int) bool { return key(l[i]) < key(l[j]) })
}

func (r *run) sigOver(sg Sig, h common.Uint256) []byte {
	if b, special := r.specialSig(sg); special {
		return b
	}
	if sg.Hash != 0 {
		h[7] ^= 0x55
	}
	return r.w.sign(sg.Key, h)
}

// hasValidSig looks only at the real pool contents and real signature verification.
func (r *run) hasValidSig(i, p uint32, commits []vbft.VerifC31CommitView, esigs map[uint32][]vbft.VerifC31ESigView) bool {
	if i == p {
		return true // the proposer counts for itself
	}
	for _, c := range commits {
		if c.Proposer != p {
			continue
		}
		if c.Committer == i && r.validFor(i, p, c.ForEmpty, c.CommitterSig) {
			return true
		}
		if sg, ok := c.EndorsersSig[i]; ok && r.validFor(i, p, c.ForEmpty, sg) {
			return true
		}
	}
	for _, e := range esigs[i] {
		if e.Proposer == p && r.validFor(i, p, e.ForEmpty, e.Signature) {
			return true
		}
	}
	return false
}

// badKind names what is unverified about the first passing unverified message.
func (r *run) badKind(op Op, m mOp) string {
	// Only called for a message whose own signature verifies under the sender's key over the digest
	// it carries: what remains unverified is one of the documented gaps.
	_, proposerPeer := r.pos[op.Proposer]
	switch op.Kind {
	case "proposal":
		if op.Variant != 0 {
			return "proposal-second-block"
		}
		return "unclassified-proposal"
	case "endorse":
		switch {
		case op.Claimed != op.Sender:
			return "endorse-msg-claimed-endorser"
		case !proposerPeer:
			return "endorse-msg-proposer-not-a-peer"
		case op.MsgHash != 0:
			return "endorse-msg-hash-not-bound"
		}
		return "unclassified-endorse"
	}
	for _, e := range m.Ends {
		if _, ok := r.pos[e.Idx]; !e.Valid || !ok {
			return "commit-msg-endorser-sigs"
		}
	}
	switch {
	case op.Claimed != op.Sender:
		return "commit-msg-claimed-committer"
	case !proposerPeer:
		return "commit-msg-proposer-not-a-peer"
	case op.MsgHash != 0:
		return "commit-msg-hash-not-bound"
	}
	return "unclassified-commit"
}
