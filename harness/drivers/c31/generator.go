package c31

import (
	"fmt"
	"sort"

	"verif/harness/hx"
)

// witnesses are the histories of the Coq refutations (Proofs/C31.v: w_forged, w_double,
// w_identity, w_endorse), N = 4, C = 1, peers 0..3.
func witnesses() []Hist {
	base := func(label string, ops ...Op) Hist {
		return Hist{Label: label, N: 4, C: 1, Self: 2, Peers: []uint32{0, 1, 2, 3}, Connected: []uint32{0, 1, 3},
			Endorsers: []uint32{1, 2, 3}, Ops: ops}
	}
	return []Hist{
		base("witness/forged-endorsers",
			Op{Kind: "commit", Sender: 3, Claimed: 3, Proposer: 0, Sig: Sig{Key: 3},
				Ends: []Entry{{1, Sig{Key: -1}}, {2, Sig{Key: -1}}}}),
		base("witness/proposer-counted-twice",
			Op{Kind: "commit", Sender: 1, Claimed: 1, Proposer: 0, Sig: Sig{Key: 1}, Ends: []Entry{{0, Sig{Key: 0}}}}),
		base("witness/claimed-committer",
			Op{Kind: "commit", Sender: 3, Claimed: 1, Proposer: 0, Sig: Sig{Key: 3}},
			Op{Kind: "commit", Sender: 3, Claimed: 2, Proposer: 0, Sig: Sig{Key: 3}}),
		base("witness/claimed-endorser",
			Op{Kind: "endorse", Sender: 3, Claimed: 0, Proposer: 0, Sig: Sig{Key: 3}},
			Op{Kind: "endorse", Sender: 3, Claimed: 1, Proposer: 0, Sig: Sig{Key: 3}},
			Op{Kind: "endorse", Sender: 3, Claimed: 2, Proposer: 0, Sig: Sig{Key: 3}}),
	}
}

type hgen struct {
	c    *hx.Ctx
	h    *Hist
	pos  map[uint32]int
	cast []uint32 // indices that may appear as claimed committer / endorser in this history
}

func (g *hgen) peer() uint32 { return g.h.Peers[g.c.Intn(len(g.h.Peers))] }

func (g *hgen) castPeer() uint32 {
	for k := 0; k < 20; k++ {
		i := g.cast[g.c.Intn(len(g.cast))]
		if _, ok := g.pos[i]; ok {
			return i
		}
	}
	return g.cast[0]
}

func (g *hgen) subset(from []uint32, without uint32, excl bool, k int) []uint32 {
	var pool []uint32
	for _, i := range from {
		if excl && i == without {
			continue
		}
		pool = append(pool, i)
	}
	g.c.Rng.Shuffle(len(pool), func(a, b int) { pool[a], pool[b] = pool[b], pool[a] })
	if k > len(pool) {
		k = len(pool)
	}
	out := append([]uint32{}, pool[:k]...)
	sort.Slice(out, func(a, b int) bool { return out[a] < out[b] })
	return out
}

// honest messages: sender = claimed index, signed with its own key over the proposer's block.
func (g *hgen) honestCommit(committer, p uint32, empty bool, ends []uint32) Op {
	op := Op{Kind: "commit", Sender: committer, Claimed: committer, Proposer: p, ForEmpty: empty, Sig: Sig{Key: g.pos[committer]}}
	for _, e := range ends {
		op.Ends = append(op.Ends, Entry{e, Sig{Key: g.pos[e]}})
	}
	return op
}

func (g *hgen) honestEndorse(e, p uint32, empty bool) Op {
	return Op{Kind: "endorse", Sender: e, Claimed: e, Proposer: p, ForEmpty: empty, Sig: Sig{Key: g.pos[e]}}
}

func (g *hgen) proposal(p uint32, variant int) Op {
	return Op{Kind: "proposal", Sender: p, Proposer: p, Variant: variant, Sig: Sig{Key: g.pos[p]}}
}

// honestRound: proposal, some endorsements, some commit messages, all verifiable.
func (g *hgen) honestRound(p uint32, nodouble bool, endorses, commits int) {
	c := g.c
	var castPeers []uint32
	for _, i := range g.cast {
		if _, ok := g.pos[i]; ok {
			castPeers = append(castPeers, i)
		}
	}
	empty := c.Intn(7) == 0
	if c.Intn(10) < 7 {
		g.h.Ops = append(g.h.Ops, g.proposal(p, 0))
	}
	for _, e := range g.subset(castPeers, p, nodouble && c.Intn(2) == 0, endorses) {
		g.h.Ops = append(g.h.Ops, g.honestEndorse(e, p, empty && c.Intn(2) == 0))
	}
	for _, cm := range g.subset(castPeers, p, nodouble, commits) {
		ends := g.subset(castPeers, p, nodouble, c.Intn(len(castPeers)+1))
		g.h.Ops = append(g.h.Ops, g.honestCommit(cm, p, empty, ends))
	}
}

func (g *hgen) anyIdx() uint32 {
	return g.cast[g.c.Intn(len(g.cast))]
}

func (g *hgen) badSig(owner uint32) Sig {
	c := g.c
	switch c.Intn(6) {
	case 0:
		return Sig{Key: -1}
	case 1:
		return Sig{Key: -2}
	case 2:
		return Sig{Key: c.Intn(len(g.h.Peers))} // somebody's key (maybe the right one)
	case 3:
		if k, ok := g.pos[owner]; ok {
			return Sig{Key: k, Hash: 1} // right key, unrelated hash
		}
		return Sig{Key: -1}
	case 4:
		if k, ok := g.pos[owner]; ok {
			return Sig{Key: k, Hash: 2} // right key, the other variant of the block
		}
		return Sig{Key: -1}
	}
	if k, ok := g.pos[owner]; ok {
		return Sig{Key: k}
	}
	return Sig{Key: -1}
}

// faultyMsgs: what one faulty peer f can send with its own key.
func (g *hgen) faultyMsgs(f, p uint32, count int) {
	c := g.c
	start := len(g.h.Ops)
	defer func() {
		// a third of the faulty peer's messages carry a defective own signature
		for k := start; k < len(g.h.Ops); k++ {
			if op := &g.h.Ops[k]; op.Kind != "proposal" && op.Sender == f && c.Intn(3) == 0 {
				op.Sig = g.ownSigVariant(f, op.Claimed, op.MsgHash)
			}
		}
	}()
	for ; count > 0; count-- {
		empty := c.Intn(5) == 0
		switch c.Intn(5) {
		case 0, 1: // commit message with a forged endorser list
			op := Op{Kind: "commit", Sender: f, Claimed: f, Proposer: p, ForEmpty: empty, Sig: Sig{Key: g.pos[f]}}
			seen := map[uint32]bool{}
			for k := c.Intn(len(g.cast) + 1); k > 0; k-- {
				e := g.anyIdx()
				if seen[e] {
					continue
				}
				seen[e] = true
				sg := Sig{Key: g.pos[f]}
				if c.Intn(2) == 0 {
					sg = g.badSig(e)
				}
				op.Ends = append(op.Ends, Entry{e, sg})
			}
			sort.Slice(op.Ends, func(a, b int) bool { return op.Ends[a].Idx < op.Ends[b].Idx })
			if c.Intn(4) == 0 {
				op.MsgHash = 1
				op.Sig.Hash = 1
			}
			g.h.Ops = append(g.h.Ops, op)
		case 2: // commit message claiming another committer index
			g.h.Ops = append(g.h.Ops, Op{Kind: "commit", Sender: f, Claimed: g.anyIdx(), Proposer: p, ForEmpty: empty, Sig: Sig{Key: g.pos[f]}})
		case 3: // endorse message claiming another endorser index
			g.h.Ops = append(g.h.Ops, Op{Kind: "endorse", Sender: f, Claimed: g.anyIdx(), Proposer: p, ForEmpty: empty, Sig: Sig{Key: g.pos[f]}})
		case 4: // second proposal (equivocation) or a relayed message that fails the receive check
			if c.Intn(2) == 0 {
				if _, ok := g.pos[p]; ok && f == p {
					g.h.Ops = append(g.h.Ops, g.proposal(p, 1))
					continue
				}
			}
			o := g.castPeer()
			g.h.Ops = append(g.h.Ops, Op{Kind: "commit", Sender: f, Claimed: o, Proposer: p, ForEmpty: empty, Sig: Sig{Key: g.pos[o]}})
		}
	}
}

// ownSigVariant: the ways a message's own mandatory signature can be wrong (and, once in eight,
// right): absent on the wire (JSON null / member missing), empty, one byte, garbage of valid length,
// a valid signature by another peer (the one the message names, or any), a valid signature of the
// sender over another digest.
func (g *hgen) ownSigVariant(sender, claimed uint32, msgHash int) Sig {
	c := g.c
	switch c.Intn(9) {
	case 0:
		return Sig{Key: sigNil}
	case 1:
		return Sig{Key: sigMissing}
	case 2:
		return Sig{Key: sigEmpty}
	case 3:
		return Sig{Key: sigOneByte}
	case 4:
		return Sig{Key: sigGarbage}
	case 5:
		if k, ok := g.pos[claimed]; ok && claimed != sender {
			return Sig{Key: k, Hash: msgHash}
		}
		return Sig{Key: (g.pos[sender] + 1) % len(g.h.Peers), Hash: msgHash}
	case 6:
		return Sig{Key: (g.pos[sender] + 1 + c.Intn(len(g.h.Peers)-1)) % len(g.h.Peers), Hash: msgHash}
	case 7:
		return Sig{Key: g.pos[sender], Hash: (msgHash + 1 + c.Intn(2)) % 3}
	}
	return Sig{Key: g.pos[sender], Hash: msgHash}
}

func (g *hgen) chaosOp() Op {
	c := g.c
	kinds := []string{"endorse", "commit", "commit", "proposal"}
	op := Op{Kind: kinds[c.Intn(len(kinds))], Sender: g.peer(), ForEmpty: c.Intn(3) == 0}
	op.Claimed = g.anyIdx()
	if c.Intn(3) > 0 {
		op.Claimed = op.Sender
	}
	op.Proposer = g.anyIdx()
	if c.Intn(3) > 0 {
		op.Proposer = g.h.Peers[c.Intn(2)%len(g.h.Peers)]
	}
	op.Sig = Sig{Key: g.pos[op.Sender]}
	if c.Intn(4) == 0 {
		op.Sig = g.badSig(op.Claimed)
	}
	if c.Intn(6) == 0 {
		op.MsgHash = 1 + c.Intn(2)
		op.Sig.Hash = op.MsgHash
	}
	switch op.Kind {
	case "proposal":
		op.Proposer = g.peer()
		op.Sender = op.Proposer
		op.Sig = Sig{Key: g.pos[op.Proposer]}
		if c.Intn(5) == 0 {
			op.Sig = Sig{Key: c.Intn(len(g.h.Peers)), Hash: c.Intn(2)}
		}
		op.Variant = 0
		if c.Intn(4) == 0 {
			op.Variant = 1
		}
		if c.Intn(8) == 0 {
			op.StripSig, op.StripNil = 1+c.Intn(3), c.Intn(2) == 0
		}
	case "commit":
		seen := map[uint32]bool{}
		for k := c.Intn(len(g.cast) + 1); k > 0; k-- {
			e := g.anyIdx()
			if seen[e] {
				continue
			}
			seen[e] = true
			sg := g.badSig(e)
			if k2, ok := g.pos[e]; ok && c.Intn(3) > 0 {
				sg = Sig{Key: k2}
			}
			op.Ends = append(op.Ends, Entry{e, sg})
		}
		sort.Slice(op.Ends, func(a, b int) bool { return op.Ends[a].Idx < op.Ends[b].Idx })
	}
	return op
}

func genHist(c *hx.Ctx, i int) *Hist {
	n := []uint32{4, 4, 4, 5, 6, 7, 7, 7, 10}[c.Intn(9)]
	cc := (n - 1) / 3
	if c.Intn(10) == 0 {
		cc = uint32(c.Intn(int(cc) + 1))
	}
	base := uint32(c.Intn(2))
	h := &Hist{N: n, C: cc}
	for k := uint32(0); k < n; k++ {
		h.Peers = append(h.Peers, base+k)
	}
	if c.Intn(8) == 0 {
		h.Peers[c.Intn(int(n))] = base + n + 1
	}
	g := &hgen{c: c, h: h, pos: map[uint32]int{}}
	for k, p := range h.Peers {
		g.pos[p] = k
	}
	h.Self = g.peer()
	for _, p := range h.Peers {
		if p != h.Self && c.Intn(5) > 0 {
			h.Connected = append(h.Connected, p)
		}
	}
	el := int(cc) + 1 + c.Intn(int(n-cc))
	h.Endorsers = g.subset(h.Peers, 0, false, el)
	c.Rng.Shuffle(len(h.Endorsers), func(a, b int) { h.Endorsers[a], h.Endorsers[b] = h.Endorsers[b], h.Endorsers[a] })
	if c.Intn(10) == 0 && len(h.Endorsers) > 1 {
		h.Endorsers = append(h.Endorsers, h.Endorsers[0])
	}
	mode := i % 8
	// the cast: at most 8 indices (bounds the number of keys of the endorse-signature map, and with
	// it the number of iteration orders the correspondence has to consider)
	maxCast := 8
	useMax := mode >= 2 && c.Intn(6) == 0
	if useMax {
		maxCast = 4
	}
	g.cast = g.subset(h.Peers, 0, false, maxCast)
	if mode >= 2 {
		extra := []uint32{base + n + 2, base + n + 3, maxU32 - 1}
		for k := c.Intn(3); k > 0 && len(g.cast) > 2; k-- {
			g.cast[c.Intn(len(g.cast))] = extra[c.Intn(len(extra))]
		}
		seen := map[uint32]bool{}
		var cast []uint32
		for _, x := range g.cast {
			if !seen[x] {
				seen[x] = true
				cast = append(cast, x)
			}
		}
		g.cast = cast
		hasPeer := false
		for _, x := range g.cast {
			if _, ok := g.pos[x]; ok {
				hasPeer = true
			}
		}
		if !hasPeer {
			g.cast[0] = h.Peers[0]
		}
	}
	p := g.castPeer()
	q := quorum(n)
	switch mode {
	case 0:
		h.Label = "clean-nodouble"
		g.honestRound(p, true, c.Intn(int(n)+1), c.Intn(q+1))
	case 1:
		h.Label = "clean"
		g.honestRound(p, false, c.Intn(int(n)+1), c.Intn(q+1))
		if c.Intn(3) == 0 {
			g.honestRound(g.castPeer(), false, c.Intn(3), c.Intn(3))
		}
	case 2:
		h.Label = "one-faulty-peer"
		g.honestRound(p, c.Intn(2) == 0, c.Intn(q), c.Intn(q-1))
		fp := p
		if useMax && c.Intn(2) == 0 {
			fp = maxU32
		} else if c.Intn(6) == 0 {
			fp = g.anyIdx()
		}
		g.faultyMsgs(g.castPeer(), fp, 1+c.Intn(4))
	case 3:
		h.Label = "chaos"
		for k := 1 + c.Intn(9); k > 0; k-- {
			op := g.chaosOp()
			if useMax && c.Intn(4) == 0 && op.Kind != "proposal" {
				op.Proposer = maxU32
			}
			h.Ops = append(h.Ops, op)
		}
	case 4:
		// exactly t distinct signers (proposer included), all verifiable, proposer not named
		t := q - 1 + c.Intn(2)
		h.Label = fmt.Sprintf("boundary/%+d", t-q)
		var castPeers []uint32
		for _, x := range g.cast {
			if _, ok := g.pos[x]; ok && x != p {
				castPeers = append(castPeers, x)
			}
		}
		signers := g.subset(castPeers, p, true, t-1)
		if len(signers) > 0 {
			if c.Intn(2) == 0 {
				h.Ops = append(h.Ops, g.proposal(p, 0))
			}
			ncm := 1 + c.Intn(len(signers))
			if c.Intn(3) == 0 { // through endorse messages only (second path of commitDone)
				for _, e := range signers {
					h.Ops = append(h.Ops, g.honestEndorse(e, p, false))
				}
			} else {
				for k := 0; k < ncm; k++ {
					ends := g.subset(signers, p, true, c.Intn(len(signers)+1))
					if k == ncm-1 {
						ends = signers
					}
					h.Ops = append(h.Ops, g.honestCommit(signers[k], p, c.Intn(8) == 0, ends))
				}
			}
		}
	case 7:
		// honest, correctly signed messages split over two or three competing proposals: no single
		// proposal has a quorum, their union often does
		h.Label = "split-proposals"
		var cps []uint32
		for _, x := range g.cast {
			if _, ok := g.pos[x]; ok {
				cps = append(cps, x)
			}
		}
		c.Rng.Shuffle(len(cps), func(a, b int) { cps[a], cps[b] = cps[b], cps[a] })
		np := 2 + c.Intn(2)
		if np > len(cps)-1 {
			np = len(cps) - 1
		}
		if np < 1 {
			np = 1
		}
		props := cps[:np]
		rest := cps[np:]
		viaEndorse := c.Intn(4) == 0
		for k, x := range rest {
			pp := props[k%np]
			if c.Intn(5) == 0 {
				pp = props[c.Intn(np)]
			}
			if viaEndorse {
				h.Ops = append(h.Ops, g.honestEndorse(x, pp, false))
				continue
			}
			var ends []uint32
			if c.Intn(3) == 0 && len(rest) > 1 { // endorsements by backers of the same proposal only
				for j, y := range rest {
					if j%np == k%np && y != x && c.Intn(2) == 0 {
						ends = append(ends, y)
					}
				}
				sort.Slice(ends, func(a, b int) bool { return ends[a] < ends[b] })
			}
			h.Ops = append(h.Ops, g.honestCommit(x, pp, false, ends))
		}
		for _, pp := range props {
			if c.Intn(2) == 0 {
				h.Ops = append(h.Ops, g.proposal(pp, 0))
			}
		}
		if c.Intn(2) == 0 {
			c.Rng.Shuffle(len(h.Ops), func(a, b int) { h.Ops[a], h.Ops[b] = h.Ops[b], h.Ops[a] })
		}
	case 6:
		// a round short of the quorum; faulty peer f supplies the missing committers / endorsers by
		// messages naming them, each with a defective own signature (must all be dropped)
		h.Label = "own-signature-variants"
		var others []uint32
		for _, x := range h.Peers {
			if x != p {
				others = append(others, x)
			}
		}
		c.Rng.Shuffle(len(others), func(a, b int) { others[a], others[b] = others[b], others[a] })
		f := others[0]
		honest := c.Intn(q - 1) // 0..q-2 honest signers besides the proposer
		if honest > len(others)-1 {
			honest = len(others) - 1
		}
		viaEndorse := c.Intn(3) == 0
		if c.Intn(2) == 0 {
			h.Ops = append(h.Ops, g.proposal(p, 0))
		}
		for _, x := range others[1 : 1+honest] {
			if viaEndorse {
				h.Ops = append(h.Ops, g.honestEndorse(x, p, false))
			} else {
				h.Ops = append(h.Ops, g.honestCommit(x, p, false, nil))
			}
		}
		same := g.ownSigVariant(f, others[len(others)-1], 0)
		for _, x := range others[1+honest:] {
			sg := same
			if c.Intn(3) == 0 {
				sg = g.ownSigVariant(f, x, 0)
			}
			kind := "commit"
			if viaEndorse {
				kind = "endorse"
			}
			h.Ops = append(h.Ops, Op{Kind: kind, Sender: f, Claimed: x, Proposer: p, Sig: sg})
		}
		if c.Intn(3) == 0 { // a proposal with a defective block signature as well
			bad := []Sig{{Key: sigGarbage}, {Key: sigEmpty}, {Key: sigOneByte}, {Key: g.pos[f]}, {Key: g.pos[p], Hash: 1}}
			op := g.proposal(p, 0)
			op.Sig = bad[c.Intn(len(bad))]
			if c.Intn(3) == 0 {
				op.Sig, op.StripSig, op.StripNil = Sig{Key: g.pos[p]}, 1+c.Intn(3), c.Intn(2) == 0
			}
			h.Ops = append(h.Ops, op)
		}
	case 5:
		// commitDone's second path: endorsements only (or nearly), several proposers, empty
		// endorsements, endorsers outside the active endorser set
		h.Label = "endorse-path"
		var castPeers []uint32
		for _, x := range g.cast {
			if _, ok := g.pos[x]; ok {
				castPeers = append(castPeers, x)
			}
		}
		props := []uint32{p, g.castPeer(), g.castPeer()}[:1+c.Intn(3)]
		for _, e := range castPeers {
			for _, pp := range props {
				if c.Intn(4) > 0 {
					h.Ops = append(h.Ops, g.honestEndorse(e, pp, false))
				}
			}
			if c.Intn(3) == 0 {
				h.Ops = append(h.Ops, g.honestEndorse(e, props[c.Intn(len(props))], true))
			}
		}
		if c.Intn(4) == 0 {
			h.Ops = append(h.Ops, g.proposal(p, 0))
		}
		if c.Intn(5) == 0 {
			h.Ops = append(h.Ops, g.honestCommit(g.castPeer(), p, c.Intn(2) == 0, nil))
		}
		if c.Intn(2) == 0 {
			c.Rng.Shuffle(len(h.Ops), func(a, b int) { h.Ops[a], h.Ops[b] = h.Ops[b], h.Ops[a] })
		}
	}
	if len(h.Ops) == 0 {
		h.Ops = append(h.Ops, g.honestEndorse(g.castPeer(), p, false))
	}
	if mode != 4 && c.Intn(4) == 0 { // duplicates and reordering
		k := c.Intn(len(h.Ops))
		d := h.Ops[k]
		if d.Kind == "commit" && c.Intn(2) == 0 {
			d.MsgHash, d.Sig.Hash = 1, 1 // same committer, different hash
		}
		h.Ops = append(h.Ops, d)
	}
	if mode == 1 || mode == 3 {
		c.Rng.Shuffle(len(h.Ops), func(a, b int) { h.Ops[a], h.Ops[b] = h.Ops[b], h.Ops[a] })
	}
	return h
}

// unsignedProbes: deterministic probes of the receive gate (N = 7, quorum 5). One honest commit
// (or endorsement) for proposer 0, then faulty peer 6 names the committers (endorsers) 2..5 in
// messages whose own signature is absent / empty / one byte / garbage / by another peer / over
// another digest. Every one of them must be dropped by msg.Verify; if they were counted, commit
// would be declared with two verifiable signers.
func unsignedProbes() []Hist {
	variants := []struct {
		name string
		sig  func(claimed uint32) Sig
	}{
		{"absent-null", func(uint32) Sig { return Sig{Key: sigNil} }},
		{"absent-missing", func(uint32) Sig { return Sig{Key: sigMissing} }},
		{"empty", func(uint32) Sig { return Sig{Key: sigEmpty} }},
		{"one-byte", func(uint32) Sig { return Sig{Key: sigOneByte} }},
		{"garbage-65", func(uint32) Sig { return Sig{Key: sigGarbage} }},
		{"signed-by-named-peer", func(cl uint32) Sig { return Sig{Key: int(cl)} }},
		{"signed-other-digest", func(uint32) Sig { return Sig{Key: 6, Hash: 1} }},
	}
	var out []Hist
	for _, kind := range []string{"commit", "endorse"} {
		for _, v := range variants {
			h := Hist{Label: "probe-unsigned/" + kind + "/" + v.name, N: 7, C: 2, Self: 0,
				Peers: []uint32{0, 1, 2, 3, 4, 5, 6}, Connected: []uint32{1, 2, 3, 4, 5, 6}, Endorsers: []uint32{1, 2, 3, 4, 5}}
			h.Ops = append(h.Ops, Op{Kind: kind, Sender: 1, Claimed: 1, Proposer: 0, Sig: Sig{Key: 1}})
			if kind == "endorse" {
				h.Ops = append(h.Ops, Op{Kind: "proposal", Sender: 0, Proposer: 0, Sig: Sig{Key: 0}})
			}
			for cl := uint32(2); cl <= 5; cl++ {
				h.Ops = append(h.Ops, Op{Kind: kind, Sender: 6, Claimed: cl, Proposer: 0, Sig: v.sig(cl)})
			}
			out = append(out, h)
		}
	}
	for _, sg := range []Sig{{Key: sigGarbage}, {Key: sigEmpty}, {Key: sigOneByte}, {Key: 3}, {Key: 0, Hash: 1}} {
		out = append(out, Hist{Label: "probe-unsigned/proposal", N: 7, C: 2, Self: 1,
			Peers: []uint32{0, 1, 2, 3, 4, 5, 6}, Connected: []uint32{0, 2, 3, 4, 5, 6}, Endorsers: []uint32{1, 2, 3, 4, 5},
			Ops: []Op{{Kind: "proposal", Sender: 0, Proposer: 0, Sig: sg}}})
	}
	return out
}

// strippedProposalProbes: regression probes for the repaired decoder (repo fix fa5ca75d): a
// proposal whose block header and/or empty-block header has an empty (or nil) SigData list must be
// rejected by DeserializeVbftMsg with an error (blockProposalMsg.UnmarshalJSON used to index
// SigData[0] and panic in the receive goroutine). The pool must be untouched: the well-formed
// proposal and endorsement that follow are accepted as if nothing had happened.
func strippedProposalProbes() []Hist {
	var out []Hist
	for strip := 1; strip <= 3; strip++ {
		for _, isNil := range []bool{false, true} {
			out = append(out, Hist{Label: fmt.Sprintf("probe-proposal-without-sigdata/%d/%v", strip, isNil), N: 4, C: 1, Self: 2,
				Peers: []uint32{0, 1, 2, 3}, Connected: []uint32{0, 1, 3}, Endorsers: []uint32{1, 2, 3},
				Ops: []Op{
					{Kind: "proposal", Sender: 0, Proposer: 0, Sig: Sig{Key: 0}, StripSig: strip, StripNil: isNil},
					{Kind: "proposal", Sender: 0, Proposer: 0, Sig: Sig{Key: 0}},
					{Kind: "endorse", Sender: 1, Claimed: 1, Proposer: 0, Sig: Sig{Key: 1}},
				}})
		}
	}
	return out
}

// splitProposalProbes: honest, correctly self-signed commits (and endorsements) backing DIFFERENT
// competing proposals of one height. No proposal has N-(N-1)/3 signers, the union does: commit must
// not be declared. N = 7: peers 3, 4 commit for proposer 1 and 5, 6 for proposer 2; N = 4: peer 2
// commits for proposer 0 and peer 3 for proposer 1; the same through endorsements.
func splitProposalProbes() []Hist {
	var out []Hist
	for _, kind := range []string{"commit", "endorse"} {
		mk := func(sender, proposer uint32) Op {
			return Op{Kind: kind, Sender: sender, Claimed: sender, Proposer: proposer, Sig: Sig{Key: int(sender)}}
		}
		h7 := Hist{Label: "probe-split-proposals/" + kind + "/N7", N: 7, C: 2, Self: 0, Peers: []uint32{0, 1, 2, 3, 4, 5, 6},
			Connected: []uint32{1, 2, 3, 4, 5, 6}, Endorsers: []uint32{1, 2, 3, 4, 5},
			Ops: []Op{mk(3, 1), mk(4, 1), mk(5, 2), mk(6, 2)}}
		h4 := Hist{Label: "probe-split-proposals/" + kind + "/N4", N: 4, C: 1, Self: 0, Peers: []uint32{0, 1, 2, 3},
			Connected: []uint32{1, 2, 3}, Endorsers: []uint32{1, 2, 3},
			Ops: []Op{mk(2, 0), mk(3, 1)}}
		if kind == "endorse" { // second path: the threshold counts entries, so one more backer each
			h7.Ops = []Op{mk(1, 1), mk(3, 1), mk(4, 1), mk(2, 2), mk(5, 2), mk(6, 2)}
			h4.Ops = []Op{mk(0, 0), mk(2, 0), mk(1, 1), mk(3, 1)}
		}
		out = append(out, h7, h4)
	}
	return out
}
