package c31

import (
	"bytes"
	"fmt"
	"go/ast"
	"go/parser"
	"go/printer"
	"go/token"
	"path/filepath"
	"strings"
)

// intakeProducer reads, from the current source, what the VBFT receive path checks about a
// message before the block pool sees it, and renders coq/Gen/VbftIntake.v. It fails closed: a
// missing anchor is reported as a translator error.
func intakeProducer(repo string) ([]byte, []string) {
	var errs []string
	fset := token.NewFileSet()
	parse := func(rel string) *ast.File {
		f, err := parser.ParseFile(fset, filepath.Join(repo, rel), nil, 0)
		if err != nil {
			errs = append(errs, rel+": "+err.Error())
			return nil
		}
		return f
	}
	show := func(n ast.Node) string {
		var b bytes.Buffer
		printer.Fprint(&b, fset, n)
		return b.String()
	}
	svc := parse("consensus/vbft/service.go")
	mt := parse("consensus/vbft/msg_types.go")
	bp := parse("consensus/vbft/block_pool.go")

	facts := map[string]bool{}
	notes := map[string]string{}

	// --- Server.run: the receive goroutine ---
	if svc != nil {
		run := findMethod(svc, "Server", "run")
		if run == nil {
			errs = append(errs, "service.go: method Server.run not found")
		} else {
			var blk *ast.BlockStmt // the block containing self.onConsensusMsg(...)
			var callIdx int
			ast.Inspect(run, func(n ast.Node) bool {
				b, ok := n.(*ast.BlockStmt)
				if !ok {
					return true
				}
				for i, st := range b.List {
					if es, ok := st.(*ast.ExprStmt); ok {
						if c, ok := es.X.(*ast.CallExpr); ok && callName(c) == "onConsensusMsg" {
							blk, callIdx = b, i
						}
					}
				}
				return true
			})
			if blk == nil {
				errs = append(errs, "service.go: Server.run does not call onConsensusMsg in a statement list")
			} else {
				verifies, keySender, keyProposer := false, false, false
				for _, st := range blk.List[:callIdx] {
					src := show(st)
					if ifs, ok := st.(*ast.IfStmt); ok && ifs.Init != nil {
						if as, ok := ifs.Init.(*ast.AssignStmt); ok && len(as.Rhs) == 1 &&
							show(as.Rhs[0]) == "msg.Verify(pk)" && show(ifs.Cond) == "err != nil" && endsWithContinue(ifs.Body) {
							verifies = true
						}
					}
					if strings.HasPrefix(src, "pk := self.peerPool.GetPeerPubKey(fromPeer)") {
						keySender = true
					}
					if strings.Contains(src, "msg.Type() == BlockProposalMessage") &&
						strings.Contains(src, "pk = self.peerPool.GetPeerPubKey(proposal.Block.getProposer())") {
						keyProposer = true
					}
				}
				facts["recv_verifies_sender_sig"] = verifies
				facts["recv_key_is_sender"] = keySender
				facts["recv_proposal_key_is_proposer"] = keyProposer
				notes["recv_verifies_sender_sig"] = "Server.run: `if err := msg.Verify(pk); err != nil { ...; continue }` before onConsensusMsg"
				notes["recv_key_is_sender"] = "Server.run: pk := self.peerPool.GetPeerPubKey(fromPeer)"
				notes["recv_proposal_key_is_proposer"] = "Server.run: for proposals pk is the key of proposal.Block.getProposer()"
			}
		}
		// --- onConsensusMsg / processMsgEvent: anything verification-like in the commit / endorse cases ---
		for _, fn := range []string{"onConsensusMsg", "processMsgEvent"} {
			m := findMethod(svc, "Server", fn)
			if m == nil {
				errs = append(errs, "service.go: method Server."+fn+" not found")
				continue
			}
			for _, kind := range []struct{ cas, fact string }{{"BlockCommitMessage", "on_msg_commit_verifies"}, {"BlockEndorseMessage", "on_msg_endorse_verifies"}} {
				found := false
				ast.Inspect(m, func(n ast.Node) bool {
					cc, ok := n.(*ast.CaseClause)
					if !ok {
						return true
					}
					for _, e := range cc.List {
						if id, ok := e.(*ast.Ident); ok && id.Name == kind.cas {
							found = true
							if why := verificationLike(cc, show); why != "" {
								facts[kind.fact] = true
								notes[kind.fact] += fn + ": " + why + "; "
							}
						}
					}
					return true
				})
				if !found {
					errs = append(errs, fmt.Sprintf("service.go: %s has no case %s", fn, kind.cas))
				}
				if _, ok := facts[kind.fact]; !ok {
					facts[kind.fact] = false
				}
			}
		}
	}
	// --- blockCommitMsg.Verify / blockEndorseMsg.Verify: which fields they read ---
	if mt != nil {
		for _, v := range []struct{ recv, field, fact string }{
			{"blockCommitMsg", "EndorsersSig", "commit_verify_reads_endorsers_sig"},
			{"blockCommitMsg", "Committer", "commit_verify_reads_committer"},
			{"blockEndorseMsg", "Endorser", "endorse_verify_reads_endorser"},
		} {
			m := findMethod(mt, v.recv, "Verify")
			if m == nil {
				errs = append(errs, "msg_types.go: method "+v.recv+".Verify not found")
				continue
			}
			reads := false
			ast.Inspect(m, func(n ast.Node) bool {
				if s, ok := n.(*ast.SelectorExpr); ok && s.Sel.Name == v.field {
					reads = true
				}
				return true
			})
			facts[v.fact] = reads
			notes[v.fact] = v.recv + ".Verify mentions ." + v.field
		}
	}
	// --- inventory of the Verify methods: the mandatory signature of each signed message type is
	// deserialized and verified unconditionally (only the CrossChainMsg signatures are optional) ---
	if mt != nil {
		for _, v := range []struct{ recv, arg, fact string }{
			{"blockProposalMsg", "sigdata", "verify_proposal_sig_unconditional"},
			{"blockEndorseMsg", "msg.EndorserSig", "verify_endorse_sig_unconditional"},
			{"blockCommitMsg", "msg.CommitterSig", "verify_commit_sig_unconditional"},
			{"blockSubmitMsg", "msg.SubmitMsgSig", "verify_submit_sig_unconditional"},
		} {
			m := findMethod(mt, v.recv, "Verify")
			if m == nil {
				errs = append(errs, "msg_types.go: method "+v.recv+".Verify not found")
				continue
			}
			ok, why := mandatorySigChecked(mt, m.Body, v.arg, show, 1)
			facts[v.fact] = ok
			notes[v.fact] = v.recv + ".Verify: " + why
		}
	}
	// --- the wire decoder of proposals: every Header.SigData[0] is read only after an emptiness check ---
	if mt != nil {
		m := findMethod(mt, "blockProposalMsg", "UnmarshalJSON")
		if m == nil {
			errs = append(errs, "msg_types.go: method blockProposalMsg.UnmarshalJSON not found")
		} else {
			guarded, sites, bad := true, 0, ""
			ast.Inspect(m, func(n ast.Node) bool {
				b, ok := n.(*ast.BlockStmt)
				if !ok {
					return true
				}
				for i, st := range b.List {
					if _, isIf := st.(*ast.IfStmt); isIf {
						continue // nested blocks are visited on their own
					}
					var idx *ast.IndexExpr
					ast.Inspect(st, func(x ast.Node) bool {
						if ie, ok := x.(*ast.IndexExpr); ok && strings.HasSuffix(show(ie.X), ".Header.SigData") {
							idx = ie
						}
						return true
					})
					if idx == nil {
						continue
					}
					sites++
					ok := false
					for _, prev := range b.List[:i] {
						if ifs, isIf := prev.(*ast.IfStmt); isIf && show(ifs.Cond) == "len("+show(idx.X)+") == 0" && returnsError(ifs.Body) {
							ok = true
						}
					}
					if !ok {
						guarded, bad = false, show(idx)
					}
				}
				return true
			})
			facts["proposal_decode_checks_sigdata"] = guarded
			if guarded {
				notes["proposal_decode_checks_sigdata"] = fmt.Sprintf("blockProposalMsg.UnmarshalJSON: %d read(s) of Header.SigData[..], each after `if len(..SigData) == 0 { return error }`", sites)
			} else {
				notes["proposal_decode_checks_sigdata"] = "blockProposalMsg.UnmarshalJSON reads " + bad + " without a preceding emptiness check (index out of range on a proposal without signatures)"
			}
		}
	}
	// --- pool: newBlockCommitment / newBlockEndorsement / addBlockEndorsementLocked ---
	if bp != nil {
		facts["pool_commit_verifies"] = false
		for _, fn := range []string{"newBlockCommitment", "newBlockEndorsement", "addBlockEndorsementLocked"} {
			m := findMethod(bp, "BlockPool", fn)
			if m == nil {
				errs = append(errs, "block_pool.go: method BlockPool."+fn+" not found")
				continue
			}
			ast.Inspect(m, func(n ast.Node) bool {
				if c, ok := n.(*ast.CallExpr); ok && strings.Contains(strings.ToLower(callName(c)), "verif") {
					facts["pool_commit_verifies"] = true
					notes["pool_commit_verifies"] += fn + " calls " + callName(c) + "; "
				}
				return true
			})
		}
	}

	var b bytes.Buffer
	b.WriteString("(* GENERATED by harness/gen (driver c31) from the current source of consensus/vbft. Do not edit.\n")
	b.WriteString("   What the receive path checks about a consensus message before the block pool sees it. *)\n")
	b.WriteString("From Coq Require Import Bool.\n\n")
	for _, name := range []string{"recv_verifies_sender_sig", "recv_key_is_sender", "recv_proposal_key_is_proposer",
		"commit_verify_reads_endorsers_sig", "commit_verify_reads_committer", "endorse_verify_reads_endorser",
		"on_msg_commit_verifies", "on_msg_endorse_verifies", "pool_commit_verifies",
		"verify_proposal_sig_unconditional", "verify_endorse_sig_unconditional", "verify_commit_sig_unconditional",
		"verify_submit_sig_unconditional", "proposal_decode_checks_sigdata"} {
		v, ok := facts[name]
		if !ok {
			fmt.Fprintf(&b, "Definition translator_broken_%s : unit := tt.\n", name)
			continue
		}
		if notes[name] != "" {
			fmt.Fprintf(&b, "(* %s *)\n", strings.ReplaceAll(notes[name], "*)", "* )"))
		}
		fmt.Fprintf(&b, "Definition %s : bool := %v.\n", name, v)
	}
	return b.Bytes(), errs
}

func findMethod(f *ast.File, recv, name string) *ast.FuncDecl {
	for _, d := range f.Decls {
		fd, ok := d.(*ast.FuncDecl)
		if !ok || fd.Name.Name != name || fd.Recv == nil || len(fd.Recv.List) != 1 {
			continue
		}
		t := fd.Recv.List[0].Type
		if s, ok := t.(*ast.StarExpr); ok {
			t = s.X
		}
		if id, ok := t.(*ast.Ident); ok && id.Name == recv {
			return fd
		}
	}
	return nil
}

func callName(c *ast.CallExpr) string {
	switch f := c.Fun.(type) {
	case *ast.Ident:
		return f.Name
	case *ast.SelectorExpr:
		return f.Sel.Name
	}
	return ""
}

func endsWithContinue(b *ast.BlockStmt) bool {
	if len(b.List) == 0 {
		return false
	}
	br, ok := b.List[len(b.List)-1].(*ast.BranchStmt)
	return ok && br.Tok == token.CONTINUE
}

// verificationLike reports why a case clause looks like it verifies something about the message:
// a call whose name contains "verif", a read of a signature field, or a comparison of the claimed
// Committer / Endorser index.
func verificationLike(cc *ast.CaseClause, show func(ast.Node) string) string {
	why := ""
	ast.Inspect(cc, func(n ast.Node) bool {
		switch x := n.(type) {
		case *ast.CallExpr:
			if strings.Contains(strings.ToLower(callName(x)), "verif") {
				why = "calls " + callName(x)
			}
		case *ast.SelectorExpr:
			switch x.Sel.Name {
			case "EndorsersSig", "CommitterSig", "EndorserSig", "ProposerSig":
				why = "reads ." + x.Sel.Name
			}
		case *ast.BinaryExpr:
			if x.Op == token.EQL || x.Op == token.NEQ {
				for _, side := range []ast.Expr{x.X, x.Y} {
					if s, ok := side.(*ast.SelectorExpr); ok && (s.Sel.Name == "Committer" || s.Sel.Name == "Endorser") {
						other := show(x.X) + " " + x.Op.String() + " " + show(x.Y)
						if strings.Contains(other, "peerIdx") || strings.Contains(other, "fromPeer") {
							why = "compares " + other
						}
					}
				}
			}
		}
		return true
	})
	return why
}

// mandatorySigChecked: among the top-level statements of body (not nested in any if/for/switch),
// `signature.Deserialize(<arg>)` is called with an error return on failure and
// `if !signature.Verify(pub, ..., sig) { return <error> }` follows, and no top-level statement
// before them can `return nil`. When the body instead hands <arg> to a package-level helper at top
// level (`if err := h(.., <arg>, ..); err != nil { return err }` or `return h(..)`), the helper's
// body is examined the same way for the corresponding parameter (one level).
func mandatorySigChecked(f *ast.File, body *ast.BlockStmt, arg string, show func(ast.Node) string, depth int) (bool, string) {
	deser, verif := false, false
	for _, st := range body.List {
		// an early `return nil` (possibly guarded) before the check is complete makes it conditional
		if !(deser && verif) {
			if ifs, ok := st.(*ast.IfStmt); ok && returnsNil(ifs.Body) {
				return false, "`" + show(ifs.Cond) + "` returns nil before the signature over " + arg + " is verified"
			}
		}
		switch x := st.(type) {
		case *ast.AssignStmt:
			if len(x.Rhs) == 1 {
				if c, ok := x.Rhs[0].(*ast.CallExpr); ok && show(c.Fun) == "signature.Deserialize" && len(c.Args) == 1 && show(c.Args[0]) == arg {
					deser = true
				}
			}
		case *ast.IfStmt:
			if u, ok := x.Cond.(*ast.UnaryExpr); ok && u.Op == token.NOT && deser {
				if c, ok := u.X.(*ast.CallExpr); ok && show(c.Fun) == "signature.Verify" && len(c.Args) == 3 &&
					show(c.Args[0]) == "pub" && show(c.Args[2]) == "sig" && returnsError(x.Body) {
					verif = true
				}
			}
			if depth > 0 && x.Init != nil {
				if as, ok := x.Init.(*ast.AssignStmt); ok && len(as.Rhs) == 1 {
					if ok2, why, hit := viaHelper(f, as.Rhs[0], arg, show, depth); hit && show(x.Cond) == "err != nil" && returnsError(x.Body) {
						return ok2, why
					}
				}
			}
		case *ast.ReturnStmt:
			if depth > 0 && len(x.Results) == 1 {
				if ok2, why, hit := viaHelper(f, x.Results[0], arg, show, depth); hit {
					return ok2, why
				}
			}
		}
		if deser && verif {
			return true, "signature.Deserialize(" + arg + ") and signature.Verify at top level, unconditionally"
		}
	}
	return false, "no unconditional signature.Deserialize(" + arg + ") + signature.Verify at the top level of the body"
}

func viaHelper(f *ast.File, e ast.Expr, arg string, show func(ast.Node) string, depth int) (ok bool, why string, hit bool) {
	c, isCall := e.(*ast.CallExpr)
	if !isCall {
		return false, "", false
	}
	id, isIdent := c.Fun.(*ast.Ident)
	if !isIdent {
		return false, "", false
	}
	idx := -1
	for i, a := range c.Args {
		if show(a) == arg {
			idx = i
		}
	}
	if idx < 0 {
		return false, "", false
	}
	for _, d := range f.Decls {
		fd, isFn := d.(*ast.FuncDecl)
		if !isFn || fd.Recv != nil || fd.Name.Name != id.Name || fd.Body == nil {
			continue
		}
		var names []string
		for _, fl := range fd.Type.Params.List {
			for _, n := range fl.Names {
				names = append(names, n.Name)
			}
		}
		if idx >= len(names) {
			return false, "helper " + id.Name + ": parameter not found", true
		}
		// inside the helper the key parameter is expected to be called pub
		ok, why := mandatorySigChecked(f, fd.Body, names[idx], show, depth-1)
		return ok, "via helper " + id.Name + ": " + why, true
	}
	return false, "helper " + id.Name + " not found in msg_types.go", true
}

func returnsNil(b *ast.BlockStmt) bool {
	for _, st := range b.List {
		if r, ok := st.(*ast.ReturnStmt); ok && len(r.Results) == 1 {
			if id, ok := r.Results[0].(*ast.Ident); ok && id.Name == "nil" {
				return true
			}
		}
	}
	return false
}

func returnsError(b *ast.BlockStmt) bool {
	if len(b.List) == 0 {
		return false
	}
	r, ok := b.List[len(b.List)-1].(*ast.ReturnStmt)
	if !ok || len(r.Results) != 1 {
		return false
	}
	if id, ok := r.Results[0].(*ast.Ident); ok && id.Name == "nil" {
		return false
	}
	return true
}
