package c31

import (
	"encoding/json"
	"fmt"

	"github.com/ontio/ontology/common"
	"github.com/ontio/ontology/consensus/vbft"

	"verif/harness/hx"
)

// submitWire has the JSON shape of vbft.blockSubmitMsg (unexported).
type submitWire struct {
	BlockStateRoot common.Uint256 `json:"block_state_root"`
	BlockNum       uint32         `json:"block_num"`
	SubmitMsgSig   []byte         `json:"submit_msg_sig"`
}

// submitProbes: block-submit messages also pass through msg.Verify in the receive loop. They do not
// touch the commit bookkeeping, so only the gate is checked: the message gets past msg.Verify
// (VerifC31Receive then stops at "other-type") exactly when SubmitMsgSig verifies under the
// sender's key over BlockStateRoot. Also probes a proposal whose header carries no signature.
func submitProbes(c *hx.Ctx, w *world) {
	h := &Hist{Label: "probe-submit", N: 4, C: 1, Self: 0, Peers: []uint32{0, 1, 2, 3}, Connected: []uint32{1, 2, 3}, Endorsers: []uint32{1, 2, 3}}
	r, err := newRun(w, h)
	if err != nil {
		c.Fail("harness:setup", "environment construction", h, err.Error(), nil)
		return
	}
	var root, other common.Uint256
	for i := range root {
		root[i], other[i] = byte(0x30+i), byte(0x60+i)
	}
	for _, sender := range []uint32{1, 3} {
		for _, sg := range []Sig{{Key: int(sender)}, {Key: sigNil}, {Key: sigMissing}, {Key: sigEmpty}, {Key: sigOneByte},
			{Key: sigGarbage}, {Key: int(sender+1) % 4}, {Key: int(sender), Hash: 1}} {
			var sig []byte
			if b, special := r.specialSig(sg); special {
				sig = b
			} else if sg.Hash == 0 {
				sig = w.sign(sg.Key, root)
			} else {
				sig = w.sign(sg.Key, other)
			}
			payload, _ := json.Marshal(&submitWire{BlockStateRoot: root, BlockNum: blkNum, SubmitMsgSig: sig})
			data, _ := json.Marshal(&vbft.ConsensusMsgPayload{Type: vbft.BlockSubmitMessage, Len: uint32(len(payload)), Payload: payload})
			if sg.Key == sigMissing {
				if data, err = dropJSONField(data, "submit_msg_sig"); err != nil {
					c.Fail("harness:history", "submit message", sg, err.Error(), nil)
					continue
				}
			}
			own := r.ownSigOK(sender, root, sig)
			var stage string
			if panicked, msg := hx.Recover(func() { stage, _ = r.env.VerifC31Receive(sender, data) }); panicked {
				c.Fail("panic:receive", "the receive path panicked on a block-submit message", map[string]interface{}{"sender": sender, "signature": sigKindName(sg)}, msg, nil)
				continue
			}
			c.Eval()
			c.Count("own-sig:submit:" + sigKindName(sg))
			passed := stage == vbft.VerifC31OtherType
			if stage != vbft.VerifC31OtherType && stage != vbft.VerifC31BadVerify {
				c.Fail("harness:history", "submit message stopped at an unexpected stage", sigKindName(sg), stage, nil)
			}
			if passed && !own {
				c.Fail("receive:own-signature-not-verified:submit",
					"a block-submit message whose SubmitMsgSig does not verify under the sending peer's key over BlockStateRoot passed msg.Verify",
					map[string]interface{}{"sender": sender, "signature": sigKindName(sg), "wire": string(data)}, stage, "dropped by the receive loop (msg.Verify error)")
			}
			if !passed && own {
				c.Count("receive:verifiable-message-dropped")
			}
		}
	}
	// A proposal whose block header has an empty SigData list: observation outside C31.
	blk := *r.block(0, 0, false)
	eblk := *r.block(0, 0, true)
	hd, ehd := *blk.Header, *eblk.Header
	hd.SigData, ehd.SigData = nil, nil
	blk.Header, eblk.Header = &hd, &ehd
	if data, err := vbft.VerifC31ProposalMsg(&blk, &eblk, nil); err == nil {
		var stage string
		panicked, msg := hx.Recover(func() { stage, _ = r.env.VerifC31Receive(0, data) })
		c.Eval()
		switch {
		case panicked:
			c.Count("own-sig:proposal:absent:deserialize-panics")
			c.Note("observation outside C31: DeserializeVbftMsg panics on a proposal whose block header has no SigData (blockProposalMsg.UnmarshalJSON indexes SigData[0]): " + firstLine(msg))
		case stage == vbft.VerifC31Added || stage == vbft.VerifC31PoolErr:
			c.Fail("receive:own-signature-not-verified:proposal", "a proposal whose block header carries no signature reached the block pool", "proposal without SigData", stage, "dropped")
		default:
			c.Count("own-sig:proposal:absent:" + stage)
		}
	}
}

func firstLine(s string) string {
	for i, ch := range s {
		if ch == '\n' {
			return s[:i]
		}
	}
	return fmt.Sprint(s)
}
