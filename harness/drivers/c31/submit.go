package c31

import (
	"encoding/json"
	"fmt"

	"github.com/ontio/ontology/common"
	"github.com/ontio/ontology/consensus/vbft"

	"verif/harness/hx"
)

// submitWire has the JSON shape of vbft.blockSubmitMsg (unexported).
type submitWire struct {
	BlockStateRoot common.Uint256 `json:"block_state_root"`
	BlockNum       uint32         `json:"block_num"`
	SubmitMsgSig   []byte         `json:"submit_msg_sig"`
}

// submitProbes: block-submit messages also pass through msg.Verify in the receive loop. They do not
// touch the commit bookkeeping, so only the gate is checked: the message gets past msg.Verify
// (VerifC31Receive then stops at "other-type") exactly when SubmitMsgSig verifies under the
// sender's key over BlockStateRoot.
func submitProbes(c *hx.Ctx, w *world) {
	h := &Hist{Label: "probe-submit", N: 4, C: 1, Self: 0, Peers: []uint32{0, 1, 2, 3}, Connected: []uint32{1, 2, 3}, Endorsers: []uint32{1, 2, 3}}
	r, err := newRun(w, h)
	if ip, isPanic := err.(*implPanic); isPanic {
		c.Fail(ip.class(), "a panic escaped from the implementation", h, ip, nil)
		return
	}
	if err != nil {
		c.Fail("harness:setup", "environment construction", h, err.Error(), nil)
		return
	}
	var root, other common.Uint256
	for i := range root {
		root[i], other[i] = byte(0x30+i), byte(0x60+i)
	}
	for _, sender := range []uint32{1, 3} {
		for _, sg := range []Sig{{Key: int(sender)}, {Key: sigNil}, {Key: sigMissing}, {Key: sigEmpty}, {Key: sigOneByte},
			{Key: sigGarbage}, {Key: int(sender+1) % 4}, {Key: int(sender), Hash: 1}} {
			var sig []byte
			if b, special := r.specialSig(sg); special {
				sig = b
			} else if sg.Hash == 0 {
				sig = w.sign(sg.Key, root)
			} else {
				sig = w.sign(sg.Key, other)
			}
			payload, _ := json.Marshal(&submitWire{BlockStateRoot: root, BlockNum: blkNum, SubmitMsgSig: sig})
			data, _ := json.Marshal(&vbft.ConsensusMsgPayload{Type: vbft.BlockSubmitMessage, Len: uint32(len(payload)), Payload: payload})
			if sg.Key == sigMissing {
				if data, err = dropJSONField(data, "submit_msg_sig"); err != nil {
					c.Fail("harness:history", "submit message", sg, err.Error(), nil)
					continue
				}
			}
			own := r.ownSigOK(sender, root, sig)
			var stage string
			if ip := guard("VerifC31Receive (block-submit message)", func() { stage, _ = r.env.VerifC31Receive(sender, data) }); ip != nil {
				c.Fail(ip.class(), "a panic escaped from the implementation while it handled a block-submit message",
					map[string]interface{}{"sender": sender, "signature": sigKindName(sg), "wire": string(data)}, ip, "an error return (message dropped)")
				continue
			}
			c.Eval()
			c.Count("own-sig:submit:" + sigKindName(sg))
			passed := stage == vbft.VerifC31OtherType
			if stage != vbft.VerifC31OtherType && stage != vbft.VerifC31BadVerify {
				c.Fail("harness:history", "submit message stopped at an unexpected stage", sigKindName(sg), stage, nil)
			}
			if passed && !own {
				c.Fail("receive:own-signature-not-verified:submit",
					"a block-submit message whose SubmitMsgSig does not verify under the sending peer's key over BlockStateRoot passed msg.Verify",
					map[string]interface{}{"sender": sender, "signature": sigKindName(sg), "wire": string(data)}, stage, "dropped by the receive loop (msg.Verify error)")
			}
			if !passed && own {
				c.Count("receive:verifiable-message-dropped")
			}
		}
	}
}

func firstLine(s string) string {
	for i, ch := range s {
		if ch == '\n' {
			return s[:i]
		}
	}
	return fmt.Sprint(s)
}
