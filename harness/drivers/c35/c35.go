package c35

import "verif/harness/hx"

func init() { hx.Register("C35", Run) }

func Run(c *hx.Ctx) { c.CoqModule("Corr.C35") }
