// Package c35: proposed EVM transactions have consecutive nonces and no duplicates.
//
// Every case is a history of operations run on the real txnpool/common.TXPool, the real
// validator/increment.IncrementValidator and a real solo ledger (ledgerkit): three funded EVM
// senders submit EIP-155 transactions (built and signed with go-ethereum as
// integrationtest/common.go does) next to ordinary Ontology transactions; submissions go through
// the real stateful validator and may be delivered to the pool late; blocks are committed by the
// ledger (which executes the EVM transactions) and the block events reach the validator and the
// pool in order, late, or not at all.  After every operation the result and the complete state
// are recorded for the Coq model (Corr/C35.v); the property is checked directly on every proposal.
package c35

import (
	"encoding/json"
	"fmt"
	"sort"
	"strings"

	"github.com/ontio/ontology/common"
	"github.com/ontio/ontology/core/types"
	"github.com/ontio/ontology/errors"
	tc "github.com/ontio/ontology/txnpool/common"

	"verif/harness/hx"
)

func init() { hx.Register("C35", Run) }

// Op is one scripted operation (self-contained, so a script replays without the generator).
type Op struct {
	K   string  `json:"k"`
	Tx  *TxRef  `json:"tx,omitempty"`
	Txs []TxRef `json:"txs,omitempty"`
	I   int     `json:"i,omitempty"`
	VH  uint32  `json:"vh,omitempty"`
	VN  uint64  `json:"vn,omitempty"`
	BC  bool    `json:"bc,omitempty"`
	H   uint32  `json:"h,omitempty"`
	G   uint64  `json:"g,omitempty"`
	Q   bool    `json:"q,omitempty"` // quiet: no state dump, no slot bookkeeping (bulk filling)
	Cnt int     `json:"cnt,omitempty"`
}

type Script struct {
	KeySeed int64  `json:"key_seed"`
	MaxBlk  int    `json:"max_blocks"`
	MaxTx   uint   `json:"max_tx_in_block"`
	Profile string `json:"profile"`
	Ops     []Op   `json:"ops"`
}

type runner struct {
	*env
	script       Script
	steps        []string
	blocks       map[uint32]*types.Block
	lastProposal []*mtx
	ivq, poolq   []uint32 // undelivered block events
	nProposed    int
	maxRun       int
	nReplaced    int
	nsteps       int
	last         bool
	dumpEvery    int
	// spec-level account-nonce ledger, independent of the model and of the node's ledger state:
	// next nonce of a sender = 1 + the highest nonce of the sender in the blocks this harness added.
	specNext [nSenders]uint64
}

// step records one operation with its observed result; the complete state is attached to every
// third state-changing step and to the last one (a state difference also shows in later results).
func (r *runner) step(op, obs string, withDump bool) {
	r.nsteps++
	every := r.dumpEvery
	if every == 0 {
		every = 3
	}
	if withDump && (r.nsteps%every == 0 || r.last) {
		r.steps = append(r.steps, fmt.Sprintf("S1 (%s) (%s) %s", op, obs, r.dump()))
	} else {
		r.steps = append(r.steps, fmt.Sprintf("S0 (%s) (%s)", op, obs))
	}
}

func (r *runner) fail(class, clause string, got, want interface{}) {
	r.c.Fail(class, clause, r.script, got, want)
}

// add performs AddTxList and checks the replacement clause on the implementation.
func (r *runner) add(m *mtx, vh uint32, vn uint64) {
	if !(vh <= r.height() && (m.onChain == 0 || m.onChain > vh)) {
		r.envOK = false // outside what the stateful validator guarantees: the on-chain clause is not checked afterwards
		r.c.Count("add:outside-validator-guarantee")
	}
	before := r.slots()
	var code errors.ErrCode
	panicked, msg := hx.Recover(func() {
		code = r.pool.AddTxList(&tc.VerifiedTx{Tx: m.tx, VerifiedHeight: vh, Nonce: vn})
	})
	r.c.Eval()
	op := fmt.Sprintf("CAdd %s %d %d", r.coqTx(m), vh, vn)
	if panicked {
		r.fail("panic:AddTxList", "AddTxList panicked", msg, nil)
		r.step(op, "BPanic", true)
		return
	}
	r.c.Count("add:" + codeName(code))
	if m.tx.IsEipTx() {
		key := slotKey{m.tx.Payer, uint64(m.tx.Nonce)}
		after := r.slots()
		for k, oldH := range before {
			newH, still := after[k]
			if !still || newH == oldH {
				continue
			}
			old := r.byHash[oldH]
			if k != key || newH != m.tx.Hash() || old == nil {
				r.fail("replace:foreign-slot", "a slot changed occupant without a submission for it", fmt.Sprint(k.nonce), nil)
				continue
			}
			r.nReplaced++
			r.c.Count("add:replaced")
			if !(m.tx.GasPrice > old.tx.GasPrice) {
				r.fail("replace:not-higher-price", "a replacement happened without a higher gas price",
					map[string]uint64{"old": old.tx.GasPrice, "new": m.tx.GasPrice}, "new > old")
			}
			if !(m.tx.GasPrice > old.tx.GasPrice*101/100) {
				r.fail("replace:rule", "replacement below the 101/100 threshold",
					map[string]uint64{"old": old.tx.GasPrice, "new": m.tx.GasPrice}, "new > old*101/100")
			}
		}
	}
	r.step(op, "BCode "+codeName(code), true)
}

// tieCheck reports when the pool's output order could depend on Go's map order / sort ties
// (equal gas price in different sender groups): the generator is meant to exclude it.
func (r *runner) tieCheck() {
	seen := map[uint64]int{}
	for _, m := range r.txs {
		if r.pool.GetTransaction(m.tx.Hash()) == nil {
			continue
		}
		grp := m.ref.S
		if grp < 0 {
			grp = -int(m.id) - 10
		}
		if o, ok := seen[m.tx.GasPrice]; ok && o != grp {
			r.c.Count("order:price-tie-across-groups")
			r.c.Note(fmt.Sprintf("price tie %d across groups in profile %s: order may depend on map iteration", m.tx.GasPrice, r.script.Profile))
			return
		}
		seen[m.tx.GasPrice] = grp
	}
}

func (r *runner) refs(l []TxRef) []*mtx {
	var out []*mtx
	for _, x := range l {
		out = append(out, r.tx(x))
	}
	return out
}

func rawTxs(l []*mtx) []*types.Transaction {
	out := make([]*types.Transaction, 0, len(l))
	for _, m := range l {
		out = append(out, m.tx)
	}
	return out
}

func verrName(err error) string {
	switch {
	case err == nil:
		return "VOk"
	case strings.HasPrefix(err.Error(), "can not do increment validation"):
		return "VBelowBase"
	case strings.HasPrefix(err.Error(), "tx duplicated"):
		return "VDuplicated"
	case strings.HasPrefix(err.Error(), "wrong nonce"):
		return "VWrongNonce"
	}
	return "(* " + strings.ReplaceAll(err.Error(), "*)", "") + " *) VBelowBase"
}

func (r *runner) nonceObs() string {
	var s []string
	for i := 0; i < nSenders; i++ {
		s = append(s, fmt.Sprintf("(%d, %d)", i+1, r.acctNonce(i)))
	}
	return hx.CoqList(s)
}

// propose is the sequence of consensus/solo makeBlock and consensus/vbft validHeight+makeProposal.
func (r *runner) propose() {
	var out []*mtx
	panicked, msg := hx.Recover(func() {
		height := r.height()
		validHeight := height
		start, end := r.iv.BlockRange()
		if height+1 == end {
			validHeight = start
		} else {
			r.iv.Clean()
		}
		txs, _ := r.pool.GetTxPool(true, validHeight)
		nonceCtx := make(map[common.Address]uint64)
		for _, e := range txs {
			if err := r.iv.Verify(e.Tx, validHeight, nonceCtx); err == nil {
				out = append(out, r.byHash[e.Tx.Hash()])
			}
		}
	})
	r.c.Eval()
	if panicked {
		r.fail("panic:propose", "GetTxPool/Verify panicked", msg, nil)
		r.step("CPropose", "BPanic", true)
		return
	}
	r.nProposed++
	// ---- the property, checked on the implementation ----
	seen := map[common.Uint256]bool{}
	next := map[int]uint64{}
	for i := 0; i < nSenders; i++ {
		next[i] = r.specNext[i]
	}
	run := map[int]int{}
	for _, m := range out {
		h := m.tx.Hash()
		if seen[h] {
			r.fail("proposal:duplicate-hash", "a transaction appears twice in the proposal", m.ref, nil)
		}
		seen[h] = true
		if r.envOK {
			onLedger, _ := r.kit.Ledger.IsContainTransaction(h)
			if onLedger || m.onChain != 0 {
				r.fail("proposal:already-on-chain", "a proposed transaction is already in a block of the chain", m.ref, fmt.Sprintf("in block %d", m.onChain))
			}
		}
		if m.ref.S >= 0 {
			n := uint64(m.tx.Nonce)
			detail := map[string]interface{}{"sender": m.ref.S, "nonce": n, "position_in_run": run[m.ref.S],
				"account_nonce": r.specNext[m.ref.S], "ledger_height": r.height()}
			switch {
			case n < r.specNext[m.ref.S]:
				r.fail("proposal:starts-below-account-nonce", "a proposed EVM transaction has a nonce below the sender's account nonce (1 + highest committed nonce)",
					detail, fmt.Sprintf("expected %d", next[m.ref.S]))
			case n != next[m.ref.S]:
				r.fail("proposal:gap", "the sender's proposed transactions are not a run of consecutive nonces starting at the account nonce",
					detail, fmt.Sprintf("expected %d", next[m.ref.S]))
			}
			next[m.ref.S] = uint64(m.tx.Nonce) + 1
			run[m.ref.S]++
			if run[m.ref.S] > r.maxRun {
				r.maxRun = run[m.ref.S]
			}
		}
	}
	r.c.Count(fmt.Sprintf("proposal:size-%s", bucket(len(out))))
	longest := 0
	for _, n := range run {
		if n > longest {
			longest = n
		}
	}
	r.c.Count(fmt.Sprintf("proposal:longest-sender-run-%s", bucket(longest)))
	r.lastProposal = out
	var ids []string
	for _, m := range out {
		ids = append(ids, fmt.Sprint(m.id))
	}
	r.step("CPropose", "BTxs "+hx.CoqList(ids), true)
}

func bucket(n int) string {
	switch {
	case n == 0:
		return "0"
	case n <= 2:
		return "1-2"
	case n <= 5:
		return "3-5"
	}
	return "6+"
}

func (r *runner) exec(op Op) {
	r.c.Count("op:" + op.K)
	switch op.K {
	case "val":
		m := r.tx(*op.Tx)
		rsp := r.validate(m)
		r.c.Eval()
		r.c.Count(fmt.Sprintf("validate:%d", rsp.ErrCode))
		if rsp.ErrCode == errors.ErrNoError {
			r.pend = append(r.pend, pending{m, rsp.Height, rsp.Nonce})
		}
	case "deliver":
		if op.I >= len(r.pend) {
			return
		}
		p := r.pend[op.I]
		r.pend = append(r.pend[:op.I], r.pend[op.I+1:]...)
		r.add(p.m, p.height, p.nonce)
	case "add":
		r.add(r.tx(*op.Tx), op.VH, op.VN)
	case "bulk":
		// Cnt ordinary transactions added in a row (to cross MAX_LIMITATION for CleanStaledEIPTx)
		for i := 0; i < op.Cnt; i++ {
			m := r.tx(TxRef{S: -1, N: uint32(1000000 + i), P: uint64(10 + i), Tag: uint32(1000000 + i)})
			code := r.pool.AddTxList(&tc.VerifiedTx{Tx: m.tx, VerifiedHeight: op.VH, Nonce: 0})
			r.c.Eval()
			r.steps = append(r.steps, fmt.Sprintf("S0 (CAdd %s %d 0) (BCode %s)", r.coqTx(m), op.VH, codeName(code)))
		}
	case "get":
		r.tieCheck()
		var valid []*tc.VerifiedTx
		var old []*types.Transaction
		panicked, msg := hx.Recover(func() { valid, old = r.pool.GetTxPool(op.BC, op.H) })
		r.c.Eval()
		opS := fmt.Sprintf("CGet %s %d", hx.CoqBool(op.BC), op.H)
		if panicked {
			r.fail("panic:GetTxPool", "GetTxPool panicked", msg, nil)
			r.step(opS, "BPanic", true)
			return
		}
		var vt []*types.Transaction
		for _, e := range valid {
			vt = append(vt, e.Tx)
		}
		r.c.Count(fmt.Sprintf("get:expired-%s", bucket(len(old))))
		r.step(opS, fmt.Sprintf("BGet %s %s", r.ids(vt), r.ids(old)), true)
	case "commit":
		ms := r.refs(op.Txs)
		b, err := r.kit.MakeBlock(rawTxs(ms))
		if err == nil {
			err = r.kit.AddMadeBlock(b)
		}
		r.c.Eval()
		ok := err == nil
		if ok {
			h := b.Header.Height
			for _, m := range ms {
				if m.onChain == 0 {
					m.onChain = h
				}
				if m.ref.S >= 0 && uint64(m.tx.Nonce)+1 > r.specNext[m.ref.S] {
					r.specNext[m.ref.S] = uint64(m.tx.Nonce) + 1
				}
			}
			for i := 0; i < nSenders; i++ {
				if got := r.acctNonce(i); got != r.specNext[i] {
					r.fail("ledger:account-nonce-differs-from-spec", "the ledger's EVM account nonce is not 1 + the highest committed nonce of the sender",
						map[string]interface{}{"sender": i, "ledger": got}, r.specNext[i])
				}
			}
			r.chain = append(r.chain, ms)
			r.blocks[h] = b
			r.ivq = append(r.ivq, h)
			r.poolq = append(r.poolq, h)
		}
		r.c.Count(fmt.Sprintf("commit:ok-%v", ok))
		r.step("CCommit "+r.coqTxs(ms), fmt.Sprintf("BCommit %s %s", hx.CoqBool(ok), r.nonceObs()), false)
	case "ivadd":
		b := r.blocks[op.H]
		if b == nil {
			return
		}
		r.iv.AddBlock(b)
		r.c.Eval()
		s, e := r.iv.BlockRange()
		r.step(fmt.Sprintf("CIvAdd %d %s", op.H, r.coqTxs(r.chain[op.H])), fmt.Sprintf("BRange %d %d", s, e), true)
	case "ivclean":
		r.iv.Clean()
		r.step("CIvClean", "BUnit", true)
	case "poolclean":
		ms := r.refs(op.Txs)
		panicked, msg := hx.Recover(func() {
			r.pool.CleanCompletedTransactionList(rawTxs(ms), op.H)
			r.pool.CleanStaledEIPTx(op.H)
		})
		r.c.Eval()
		opS := fmt.Sprintf("CPoolClean %d %s", op.H, r.coqTxs(ms))
		if panicked {
			r.fail("panic:CleanCompletedTransactionList", "clean-up panicked", msg, nil)
			r.step(opS, "BPanic", true)
			return
		}
		r.step(opS, "BUnit", true)
	case "rmbelow":
		panicked, msg := hx.Recover(func() { r.pool.RemoveTxsBelowGasPrice(op.G) })
		r.c.Eval()
		opS := fmt.Sprintf("CRemoveBelow %d", op.G)
		if panicked {
			r.fail("panic:RemoveTxsBelowGasPrice", "RemoveTxsBelowGasPrice panicked", msg, nil)
			r.step(opS, "BPanic", true)
			return
		}
		r.step(opS, "BUnit", true)
	case "remain":
		txs := r.pool.Remain()
		r.c.Eval()
		var ids []uint64
		for _, t := range txs {
			ids = append(ids, r.hashID(t.Hash()))
		}
		sort.Slice(ids, func(i, j int) bool { return ids[i] < ids[j] })
		var s []string
		for _, id := range ids {
			s = append(s, fmt.Sprint(id))
		}
		r.step("CRemain", "BTxs "+hx.CoqList(s), true)
	case "propose":
		r.tieCheck()
		r.propose()
	case "verifylist":
		ms := r.refs(op.Txs)
		ctx := make(map[common.Address]uint64)
		var res []string
		for _, m := range ms {
			res = append(res, verrName(r.iv.Verify(m.tx, op.H, ctx)))
		}
		r.c.Eval()
		r.step(fmt.Sprintf("CVerifyList %s %d", r.coqTxs(ms), op.H), "BVerify "+hx.CoqList(res), false)
	default:
		panic("bad op " + op.K)
	}
}

func (r *runner) do(op Op) {
	r.script.Ops = append(r.script.Ops, op)
	r.exec(op)
}

func newRunner(c *hx.Ctx, s Script, caseNo int) *runner {
	e, err := newEnv(c, s.KeySeed, caseNo, s.MaxBlk, s.MaxTx)
	if err != nil {
		panic(err)
	}
	return &runner{env: e, script: Script{KeySeed: s.KeySeed, MaxBlk: s.MaxBlk, MaxTx: s.MaxTx, Profile: s.Profile}, blocks: map[uint32]*types.Block{}}
}

func (r *runner) finish(kind string) {
	mb := r.maxBlk
	if mb < 0 {
		mb = 0
	}
	term := fmt.Sprintf("(CHist %d %d [1; 2; 3]\n  %s)", mb, r.maxTx, joinSteps(r.steps))
	r.c.Case(term, r.script)
	r.c.Count("case:" + kind)
	if r.maxRun >= 2 || r.nReplaced > 0 {
		b, _ := json.Marshal(r.script)
		r.c.Nontrivial(string(b))
	}
	if r.nProposed > 0 && r.maxRun >= 2 {
		r.c.Sample(map[string]interface{}{"profile": r.script.Profile, "ops": len(r.script.Ops), "proposals": r.nProposed,
			"longest_sender_run": r.maxRun, "replacements": r.nReplaced, "max_blocks": r.maxBlk, "max_tx_in_block": r.maxTx})
	}
	r.close()
}

func runScript(c *hx.Ctx, s Script, caseNo int, kind string) {
	r := newRunner(c, s, caseNo)
	for i, op := range s.Ops {
		r.last = i == len(s.Ops)-1
		r.do(op)
	}
	r.finish(kind)
}

func Run(c *hx.Ctx) {
	c.CoqModule("Corr.C35")
	var s Script
	if c.ReplayInput(&s) && len(s.Ops) > 0 {
		runScript(c, s, 0, "replay")
		return
	}
	n := 0
	for _, raw := range c.CorpusInputs() {
		var cs Script
		if json.Unmarshal(raw, &cs) == nil && len(cs.Ops) > 0 {
			runScript(c, cs, n, "corpus")
			n++
		}
	}
	for _, sc := range fixedScripts(c.Quick()) {
		runScript(c, sc, n, "fixed")
		n++
	}
	total := c.N(50, 600)
	for i := 0; i < total; i++ {
		generate(c, n, i)
		n++
	}
	// long contiguous AddBlock histories: past the configured window by 1, 2, window, 2*window+1
	w := sourceWindow(c)
	for rep := 0; rep < c.N(1, 10); rep++ {
		for _, extra := range []int{1, 2, w, 2*w + 1} {
			if w+extra > 70 {
				extra = 70 - w
			}
			generateLong(c, n, w, extra)
			n++
		}
	}
}
