package c35

import (
	"crypto/ecdsa"
	"encoding/binary"
	"fmt"
	"math/big"
	"math/rand"
	"path/filepath"
	"sort"
	"strings"

	ethcomm "github.com/ethereum/go-ethereum/common"
	ethtypes "github.com/ethereum/go-ethereum/core/types"
	"github.com/ethereum/go-ethereum/crypto"
	"github.com/ontio/ontology/common"
	"github.com/ontio/ontology/common/config"
	"github.com/ontio/ontology/common/constants"
	"github.com/ontio/ontology/core/types"
	"github.com/ontio/ontology/errors"
	"github.com/ontio/ontology/smartcontract/service/native/ont"
	tc "github.com/ontio/ontology/txnpool/common"
	"github.com/ontio/ontology/validator/increment"
	"github.com/ontio/ontology/validator/stateful"
	vtypes "github.com/ontio/ontology/validator/types"

	"verif/harness/hx"
	"verif/harness/ledgerkit"
)

const nSenders = 3
const ordPayerID = 9
const fundAmount = 10000000000000 // 1e13 (10^4 ONG), enough for every gas price the generator draws

func transferState(from, to common.Address, v uint64) []*ont.TransferState {
	return []*ont.TransferState{{From: from, To: to, Value: v}}
}

// TxRef names a transaction of a case: sender index (0..2 EVM senders, -1 ordinary Ontology tx),
// nonce, gas price (pool units) and a tag that varies the hash.
type TxRef struct {
	S   int    `json:"s"`
	N   uint32 `json:"n"`
	P   uint64 `json:"p"`
	Tag uint32 `json:"tag"`
}

type mtx struct {
	ref TxRef
	tx  *types.Transaction
	id  uint64 // hash id used on the Coq side
	// height of the block that included it (0 = not on chain)
	onChain uint32
}

type pending struct {
	m      *mtx
	height uint32
	nonce  uint64
}

// env is one case: fresh ledger, pool, validator, three funded EVM senders.
type env struct {
	c       *hx.Ctx
	kit     *ledgerkit.Kit
	pool    *tc.TXPool
	iv      *increment.IncrementValidator
	keys    [nSenders]*ecdsa.PrivateKey
	addrs   [nSenders]common.Address
	payerID map[common.Address]uint64
	txs     map[TxRef]*mtx
	byHash  map[common.Uint256]*mtx
	nextID  uint64
	chain   [][]*mtx // by height; chain[0] = genesis (its transactions are not tracked)
	pend    []pending
	sval    *stateful.ValidatorPool
	maxBlk  int
	maxTx   uint
	envOK   bool // false once an AddTxList outside the validator's guarantees was made
}

func keyFromSeed(r *rand.Rand) *ecdsa.PrivateKey {
	for {
		var b [32]byte
		r.Read(b[:])
		b[0] &= 0x7f
		k, err := crypto.ToECDSA(b[:])
		if err == nil {
			return k
		}
	}
}

func newEnv(c *hx.Ctx, keySeed int64, caseNo int, maxBlk int, maxTx uint) (*env, error) {
	dir := filepath.Join(c.OutDir, fmt.Sprintf("ledger-%d", caseNo))
	k, err := ledgerkit.New(dir)
	if err != nil {
		return nil, err
	}
	e := &env{c: c, kit: k, pool: tc.NewTxPool(), iv: increment.NewIncrementValidator(maxBlk),
		payerID: map[common.Address]uint64{}, txs: map[TxRef]*mtx{}, byHash: map[common.Uint256]*mtx{},
		nextID: 1, sval: stateful.NewValidatorPool(1), maxBlk: maxBlk, maxTx: maxTx, envOK: true}
	config.DefConfig.Consensus.MaxTxInBlock = maxTx
	config.DefConfig.Common.TraceTxPool = false
	r := rand.New(rand.NewSource(keySeed))
	for i := 0; i < nSenders; i++ {
		e.keys[i] = keyFromSeed(r)
		e.addrs[i] = common.Address(crypto.PubkeyToAddress(e.keys[i].PublicKey))
		e.payerID[e.addrs[i]] = uint64(i + 1)
	}
	e.payerID[k.Acct.Address] = ordPayerID
	e.chain = append(e.chain, nil)
	return e, nil
}

func (e *env) close() { e.kit.Close() }

// tx builds (or returns the cached) transaction of a reference.
func (e *env) tx(ref TxRef) *mtx {
	if m, ok := e.txs[ref]; ok {
		return m
	}
	var t *types.Transaction
	if ref.S >= 0 {
		chainId := big.NewInt(int64(config.DefConfig.P2PNode.EVMChainId))
		signer := ethtypes.NewEIP155Signer(chainId)
		var data [4]byte
		binary.BigEndian.PutUint32(data[:], ref.Tag)
		price := new(big.Int).Mul(new(big.Int).SetUint64(ref.P), big.NewInt(constants.GWei))
		raw := ethtypes.NewTransaction(uint64(ref.N), ethcomm.Address(e.addrs[(ref.S+1)%nSenders]), big.NewInt(0), 30000, price, data[:])
		signed, err := ethtypes.SignTx(raw, signer, e.keys[ref.S])
		if err != nil {
			panic(err)
		}
		t, err = types.TransactionFromEIP155(signed)
		if err != nil {
			panic(err)
		}
	} else if ref.S == -2 {
		// funding: ONG from the bookkeeper to EVM sender ref.Tag
		var err error
		t, err = e.kit.TransferTx(ledgerkit.OngAddr, e.kit.Acct, e.addrs[ref.Tag], fundAmount, 0, 20000)
		if err != nil {
			panic(err)
		}
	} else {
		var to common.Address
		binary.BigEndian.PutUint32(to[:4], ref.Tag)
		to[19] = 1
		mt, err := e.kit.NativeTx(ledgerkit.OntAddr, 0, ref.P, 20000, "transfer", []interface{}{transferState(e.kit.Acct.Address, to, 1)})
		if err != nil {
			panic(err)
		}
		mt.Nonce = ref.N
		if err := ledgerkit.Sign(mt, e.kit.Acct); err != nil {
			panic(err)
		}
		t, err = mt.IntoImmutable()
		if err != nil {
			panic(err)
		}
	}
	m := &mtx{ref: ref, tx: t, id: e.nextID}
	e.nextID++
	e.txs[ref] = m
	e.byHash[t.Hash()] = m
	return m
}

func (e *env) coqTx(m *mtx) string {
	pid := uint64(ordPayerID)
	if m.ref.S >= 0 {
		pid = uint64(m.ref.S + 1)
	}
	return fmt.Sprintf("(T %d %s %d %d %d)", m.id, hx.CoqBool(m.tx.IsEipTx()), pid, m.tx.Nonce, m.tx.GasPrice)
}

func (e *env) coqTxs(l []*mtx) string {
	var s []string
	for _, m := range l {
		s = append(s, e.coqTx(m))
	}
	return hx.CoqList(s)
}

func (e *env) hashID(h common.Uint256) uint64 {
	if m, ok := e.byHash[h]; ok {
		return m.id
	}
	return 0
}

func (e *env) ids(l []*types.Transaction) string {
	var s []string
	for _, t := range l {
		s = append(s, fmt.Sprint(e.hashID(t.Hash())))
	}
	return hx.CoqList(s)
}

func (e *env) height() uint32 { return e.kit.Ledger.GetCurrentBlockHeight() }

func (e *env) acctNonce(i int) uint64 {
	a, err := e.kit.Ledger.GetEthAccount(ethcomm.Address(e.addrs[i]))
	if err != nil {
		panic(err)
	}
	return a.Nonce
}

// validate runs the real stateful validator (ledger containment + account nonce).
func (e *env) validate(m *mtx) *vtypes.CheckResponse {
	ch := make(chan *vtypes.CheckResponse, 1)
	e.sval.SubmitVerifyTask(m.tx, ch)
	return <-ch
}

func codeName(c errors.ErrCode) string {
	switch c {
	case errors.ErrNoError:
		return "ENoError"
	case errors.ErrETHTxNonceToobig:
		return "ENonceTooBig"
	case errors.ErrSameNonceExist:
		return "ESameNonce"
	case errors.ErrDuplicatedTx:
		return "EDuplicated"
	}
	return fmt.Sprintf("(* unexpected code %d *) EDuplicated", c)
}

type slotKey struct {
	payer common.Address
	nonce uint64
}

// slots returns the occupant hash of every (payer, nonce) slot.
func (e *env) slots() map[slotKey]common.Uint256 {
	_, eips, _ := e.pool.VerifDump()
	out := map[slotKey]common.Uint256{}
	for _, l := range eips {
		for _, it := range l.Items {
			out[slotKey{l.Payer, it.Nonce}] = it.TxHash
		}
	}
	return out
}

// dump renders the complete pool + validator state as a Coq `dump` and checks the internal
// consistency the model's abstraction relies on (heap index = key set, key = stored tx hash).
func (e *env) dump() string {
	valid, eips, latest := e.pool.VerifDump()
	sort.Slice(valid, func(i, j int) bool { return e.hashID(valid[i].Hash) < e.hashID(valid[j].Hash) })
	var vs []string
	for _, v := range valid {
		if v.Hash != v.TxHash {
			e.c.Fail("pool-consistency", "validTxMap key differs from the stored transaction's hash", nil, v.Hash.ToHexString(), v.TxHash.ToHexString())
		}
		vs = append(vs, fmt.Sprintf("(%d, (%d, %d))", e.hashID(v.Hash), v.VerifiedHeight, v.Nonce))
	}
	sort.Slice(eips, func(i, j int) bool { return e.payerID[eips[i].Payer] < e.payerID[eips[j].Payer] })
	var es []string
	for _, l := range eips {
		var items []string
		keysEq := len(l.Items) == len(l.Index)
		for i, it := range l.Items {
			items = append(items, fmt.Sprintf("(%d, %d)", it.Nonce, e.hashID(it.TxHash)))
			if keysEq && l.Index[i] != it.Nonce {
				keysEq = false
			}
		}
		if !keysEq || !l.IndexOK {
			e.c.Fail("pool-consistency", "nonce heap of a txSortedMap is not the key set of its items (or not a heap)", nil, fmt.Sprint(l.Index), fmt.Sprint(items))
		}
		es = append(es, fmt.Sprintf("(%d, %s)", e.payerID[l.Payer], hx.CoqList(items)))
	}
	sort.Slice(latest, func(i, j int) bool { return e.payerID[latest[i].Payer] < e.payerID[latest[j].Payer] })
	var ls []string
	for _, l := range latest {
		ls = append(ls, fmt.Sprintf("(%d, (%d, %d))", e.payerID[l.Payer], l.Height, l.Nonce))
	}
	base, _, blocks, nonces := e.iv.VerifDump()
	var bs []string
	for _, b := range blocks {
		var ids []uint64
		for _, h := range b {
			ids = append(ids, e.hashID(h))
		}
		sort.Slice(ids, func(i, j int) bool { return ids[i] < ids[j] })
		var s []string
		for _, id := range ids {
			s = append(s, fmt.Sprint(id))
		}
		bs = append(bs, hx.CoqList(s))
	}
	var ns []string
	for _, m := range nonces {
		type pn struct{ p, n uint64 }
		var l []pn
		for a, n := range m {
			l = append(l, pn{e.payerID[a], n})
		}
		sort.Slice(l, func(i, j int) bool { return l[i].p < l[j].p })
		var s []string
		for _, x := range l {
			s = append(s, fmt.Sprintf("(%d, %d)", x.p, x.n))
		}
		ns = append(ns, hx.CoqList(s))
	}
	return fmt.Sprintf("(mkD %s %s %s %d %s %s)", hx.CoqList(vs), hx.CoqList(es), hx.CoqList(ls), base, hx.CoqList(bs), hx.CoqList(ns))
}

func joinSteps(steps []string) string { return "[" + strings.Join(steps, ";\n   ") + "]" }
