package c35

// Translator part of C35: the integer expressions and constants of the transaction pool and the
// increment validator are read from /repo's current source (go/ast) and emitted with Go's
// fixed-width semantics (explicit `mod 2^w` on + and * of uint32/uint64 operands) into
// coq/Gen/TxPoolGen.v. The proposer loops of vbft/solo are checked structurally and emitted as
// booleans the theorems depend on.

import (
	"bytes"
	"fmt"
	"go/ast"
	"go/parser"
	"go/printer"
	"go/token"
	"path/filepath"
	"strings"

	"github.com/ontio/ontology/common/constants"
	tc "github.com/ontio/ontology/txnpool/common"

	"verif/harness/gen"
)

type usite struct {
	name, file, fn, loc string
	vars                map[string]tvar // printed Go sub-expression -> (Coq var, width)
	params              []string
	// expected printed Go text of the *other* side / callee, checked for the tie
	expectOther string
}

type tvar struct {
	coq   string
	width int
}

var constVals = map[string]uint64{
	"EIPTX_NONCE_MAX_GAP": tc.EIPTX_NONCE_MAX_GAP,
	"constants.GWei":      constants.GWei,
}

var usites = []usite{
	{name: "repl_rhs", file: "txnpool/common/transaction_pool.go", fn: "addEIPTxPool", loc: "cmp:>:rhs",
		vars: map[string]tvar{"old.GasPrice": {"old_price", 64}}, params: []string{"old_price"}, expectOther: "trans.GasPrice"},
	{name: "gap_rhs", file: "txnpool/common/transaction_pool.go", fn: "AddTxList", loc: "cmp:>=:rhs",
		vars: map[string]tvar{"txEntry.Nonce": {"acct_nonce", 64}}, params: []string{"acct_nonce"}, expectOther: "uint64(txEntry.Tx.Nonce)"},
	{name: "forward_threshold", file: "txnpool/common/transaction_pool.go", fn: "cleanCompletedEipTxPool", loc: "callarg:Forward:0",
		vars: map[string]tvar{"tx.Nonce": {"nonce", 32}}, params: []string{"nonce"}},
	{name: "latest_nonce", file: "txnpool/common/transaction_pool.go", fn: "cleanCompletedEipTxPool", loc: "field:Nonce",
		vars: map[string]tvar{"tx.Nonce": {"nonce", 32}}, params: []string{"nonce"}},
	{name: "iv_block_nonce", file: "validator/increment/increment.go", fn: "AddBlock", loc: "assign:nonceMap[tx.Payer]",
		vars: map[string]tvar{"tx.Nonce": {"nonce", 32}}, params: []string{"nonce"}},
	{name: "iv_next_nonce", file: "validator/increment/increment.go", fn: "Verify", loc: "assign:nonceCtx[tx.Payer]#2",
		vars: map[string]tvar{"tx.Nonce": {"nonce", 32}}, params: []string{"nonce"}},
	{name: "eip_gwei_price", file: "core/types/transaction.go", fn: "TransactionFromEIP155", loc: "assign:gasPriceInGwei",
		vars: map[string]tvar{"gasPrice": {"wei", 64}}, params: []string{"wei"}},
}

func pr(fset *token.FileSet, n ast.Node) string {
	var b bytes.Buffer
	printer.Fprint(&b, fset, n)
	return b.String()
}

func findFn(f *ast.File, name string) *ast.FuncDecl {
	for _, d := range f.Decls {
		if fd, ok := d.(*ast.FuncDecl); ok && fd.Name.Name == name {
			return fd
		}
	}
	return nil
}

// locateU finds the expression and (for cmp) the other operand.
func locateU(fset *token.FileSet, fd *ast.FuncDecl, loc string) (e ast.Expr, other ast.Expr, err error) {
	k := 0
	if i := strings.LastIndex(loc, "#"); i >= 0 {
		fmt.Sscanf(loc[i+1:], "%d", &k)
		loc = loc[:i]
	}
	parts := strings.SplitN(loc, ":", 3)
	type hit struct{ e, o ast.Expr }
	var found []hit
	ast.Inspect(fd.Body, func(n ast.Node) bool {
		switch parts[0] {
		case "cmp":
			if be, ok := n.(*ast.BinaryExpr); ok && be.Op.String() == parts[1] {
				if parts[2] == "rhs" {
					found = append(found, hit{be.Y, be.X})
				} else {
					found = append(found, hit{be.X, be.Y})
				}
			}
		case "assign":
			if as, ok := n.(*ast.AssignStmt); ok && len(as.Lhs) == len(as.Rhs) {
				for i, l := range as.Lhs {
					if pr(fset, l) == parts[1] {
						found = append(found, hit{as.Rhs[i], nil})
					}
				}
			}
		case "callarg":
			if ce, ok := n.(*ast.CallExpr); ok {
				name := pr(fset, ce.Fun)
				var idx int
				fmt.Sscanf(parts[2], "%d", &idx)
				if (name == parts[1] || strings.HasSuffix(name, "."+parts[1])) && idx < len(ce.Args) {
					found = append(found, hit{ce.Args[idx], nil})
				}
			}
		case "field":
			if kv, ok := n.(*ast.KeyValueExpr); ok && pr(fset, kv.Key) == parts[1] {
				found = append(found, hit{kv.Value, nil})
			}
		}
		return true
	})
	if k >= len(found) {
		return nil, nil, fmt.Errorf("locator %q: %d matches, wanted #%d", loc, len(found), k)
	}
	return found[k].e, found[k].o, nil
}

func pow2(w int) string {
	if w == 32 {
		return "4294967296"
	}
	return "18446744073709551616"
}

// trU translates an unsigned fixed-width integer expression to an N term; width 0 = untyped constant.
func trU(fset *token.FileSet, e ast.Expr, vars map[string]tvar) (string, int, error) {
	s := pr(fset, e)
	if v, ok := vars[s]; ok {
		return v.coq, v.width, nil
	}
	if v, ok := constVals[s]; ok {
		return fmt.Sprint(v), 0, nil
	}
	switch x := e.(type) {
	case *ast.ParenExpr:
		return trU(fset, x.X, vars)
	case *ast.BasicLit:
		if x.Kind == token.INT {
			var v uint64
			if _, err := fmt.Sscanf(x.Value, "%v", &v); err == nil {
				return fmt.Sprint(v), 0, nil
			}
		}
	case *ast.BinaryExpr:
		l, wl, err := trU(fset, x.X, vars)
		if err != nil {
			return "", 0, err
		}
		r, wr, err := trU(fset, x.Y, vars)
		if err != nil {
			return "", 0, err
		}
		w := wl
		if w == 0 {
			w = wr
		} else if wr != 0 && wr != w {
			return "", 0, fmt.Errorf("operand widths differ in %q", s)
		}
		if w == 0 {
			return "", 0, fmt.Errorf("untyped operation %q", s)
		}
		switch x.Op {
		case token.ADD:
			return fmt.Sprintf("((%s + %s) mod %s)", l, r, pow2(w)), w, nil
		case token.MUL:
			return fmt.Sprintf("((%s * %s) mod %s)", l, r, pow2(w)), w, nil
		case token.QUO:
			return fmt.Sprintf("(%s / %s)", l, r), w, nil
		}
	case *ast.CallExpr:
		if id, ok := x.Fun.(*ast.Ident); ok && len(x.Args) == 1 {
			a, w, err := trU(fset, x.Args[0], vars)
			if err != nil {
				return "", 0, err
			}
			switch id.Name {
			case "uint64":
				if w <= 64 {
					return a, 64, nil
				}
			case "uint32":
				return fmt.Sprintf("(%s mod %s)", a, pow2(32)), 32, nil
			}
		}
	}
	return "", 0, fmt.Errorf("unsupported expression %q", s)
}

func parseFn(repo, file, fn string) (*token.FileSet, *ast.FuncDecl, error) {
	fset := token.NewFileSet()
	f, err := parser.ParseFile(fset, filepath.Join(repo, file), nil, 0)
	if err != nil {
		return nil, nil, err
	}
	fd := findFn(f, fn)
	if fd == nil || fd.Body == nil {
		return nil, nil, fmt.Errorf("function %s not found in %s", fn, file)
	}
	return fset, fd, nil
}

// proposerShape checks that fn contains
//   for _, <e> := range <...>.GetTxnPool(true, validHeight) { if err := <...>.incrValidator.Verify(<e>.Tx, validHeight, nonceCtx); err == nil { <txs> = append(<txs>, <e>.Tx) } ... }
// preceded by nonceCtx := make(map[common.Address]uint64) (a fresh context per proposal).
func proposerShape(repo, file, fn string, rangeStmt bool) (bool, string) {
	fset, fd, err := parseFn(repo, file, fn)
	if err != nil {
		return false, err.Error()
	}
	freshCtx, loopOK, getOK := false, false, false
	ast.Inspect(fd.Body, func(n ast.Node) bool {
		if as, ok := n.(*ast.AssignStmt); ok && len(as.Lhs) == 1 && pr(fset, as.Lhs[0]) == "nonceCtx" &&
			pr(fset, as.Rhs[0]) == "make(map[common.Address]uint64)" {
			freshCtx = true
		}
		if ce, ok := n.(*ast.CallExpr); ok && strings.HasSuffix(pr(fset, ce.Fun), ".poolActor.GetTxnPool") &&
			len(ce.Args) == 2 && pr(fset, ce.Args[0]) == "true" && pr(fset, ce.Args[1]) == "validHeight" {
			getOK = true
		}
		rs, ok := n.(*ast.RangeStmt)
		if !ok || rs.Value == nil {
			return true
		}
		ev := pr(fset, rs.Value)
		for _, st := range rs.Body.List {
			var cond ast.Expr
			var body *ast.BlockStmt
			var initS ast.Stmt
			if is, ok := st.(*ast.IfStmt); ok {
				cond, body, initS = is.Cond, is.Body, is.Init
			} else {
				continue
			}
			if initS == nil {
				// solo: err := ...Verify(...) as a separate statement, then if err == nil {...}
				for _, st2 := range rs.Body.List {
					if as, ok := st2.(*ast.AssignStmt); ok && len(as.Rhs) == 1 && strings.Contains(pr(fset, as.Rhs[0]), "incrValidator.Verify(") {
						initS = as
					}
				}
			}
			if initS == nil {
				continue
			}
			is := pr(fset, initS)
			if !strings.Contains(is, "incrValidator.Verify("+ev+".Tx, validHeight, nonceCtx)") {
				continue
			}
			if pr(fset, cond) != "err == nil" {
				continue
			}
			for _, b := range body.List {
				bs := pr(fset, b)
				if strings.Contains(bs, "append(") && strings.Contains(bs, ev+".Tx") {
					loopOK = true
				}
			}
		}
		return true
	})
	if !(freshCtx && loopOK && getOK) {
		return false, fmt.Sprintf("freshCtx=%v loop=%v getTxnPool(true,validHeight)=%v", freshCtx, loopOK, getOK)
	}
	return true, ""
}

// validHeightShape: `validHeight := height; start, end := BlockRange(); if height+1 == end { validHeight = start } else { Clean() }`.
func validHeightShape(repo, file, fn string) (bool, string) {
	fset, fd, err := parseFn(repo, file, fn)
	if err != nil {
		return false, err.Error()
	}
	ok1 := false
	ast.Inspect(fd.Body, func(n ast.Node) bool {
		is, ok := n.(*ast.IfStmt)
		if !ok || pr(fset, is.Cond) != "height+1 == end" || is.Else == nil {
			return true
		}
		thenS := pr(fset, is.Body)
		elseS := pr(fset, is.Else)
		if strings.Contains(thenS, "validHeight = start") && strings.Contains(elseS, "incrValidator.Clean()") {
			ok1 = true
		}
		return true
	})
	src := pr(fset, fd.Body)
	if !ok1 || !strings.Contains(src, "validHeight := height") || !strings.Contains(src, "start, end := self.incrValidator.BlockRange()") {
		return false, "validHeight computation has an unexpected shape"
	}
	return true, ""
}

func windowArg(repo, file, fn string) (string, error) {
	fset, fd, err := parseFn(repo, file, fn)
	if err != nil {
		return "", err
	}
	var out string
	ast.Inspect(fd.Body, func(n ast.Node) bool {
		if ce, ok := n.(*ast.CallExpr); ok && pr(fset, ce.Fun) == "increment.NewIncrementValidator" && len(ce.Args) == 1 {
			out = pr(fset, ce.Args[0])
		}
		return true
	})
	if out == "" {
		return "", fmt.Errorf("NewIncrementValidator call not found in %s", fn)
	}
	var v uint64
	if _, err := fmt.Sscanf(out, "%d", &v); err != nil {
		return "", fmt.Errorf("NewIncrementValidator argument %q is not a literal", out)
	}
	return fmt.Sprint(v), nil
}

func produceGen(repo string) ([]byte, []string) {
	var b bytes.Buffer
	var errs []string
	fmt.Fprintf(&b, "(* GENERATED by harness/drivers/c35 from /repo's current source on every run. Do not edit.\n   Unsigned Go arithmetic: + and * carry an explicit mod 2^w (w from the operand types). *)\nFrom Coq Require Import NArith.\nLocal Open Scope N_scope.\n\n")
	for _, s := range usites {
		fset, fd, err := parseFn(repo, s.file, s.fn)
		var coq, goExpr string
		if err == nil {
			var e, other ast.Expr
			e, other, err = locateU(fset, fd, s.loc)
			if err == nil {
				goExpr = pr(fset, e)
				coq, _, err = trU(fset, e, s.vars)
				if err == nil && s.expectOther != "" && (other == nil || pr(fset, other) != s.expectOther) {
					err = fmt.Errorf("other operand is %q, expected %q", pr(fset, other), s.expectOther)
				}
			}
		}
		fmt.Fprintf(&b, "(* %s : %s, func %s, %s\n   Go: %s *)\n", s.name, s.file, s.fn, s.loc, strings.ReplaceAll(goExpr, "*)", "* )"))
		if err != nil {
			errs = append(errs, s.name+": "+err.Error())
			fmt.Fprintf(&b, "Definition translator_broken_%s : unit := tt. (* %s *)\n\n", s.name, strings.ReplaceAll(err.Error(), "*)", "* )"))
			continue
		}
		ps := ""
		for _, p := range s.params {
			ps += " (" + p + " : N)"
		}
		fmt.Fprintf(&b, "Definition %s%s : N := %s.\n\n", s.name, ps, coq)
	}
	fmt.Fprintf(&b, "(* constants obtained by linking the packages *)\n")
	fmt.Fprintf(&b, "Definition EIPTX_NONCE_MAX_GAP : N := %d.\n", uint64(tc.EIPTX_NONCE_MAX_GAP))
	fmt.Fprintf(&b, "Definition EIPTX_EXPIRATION_BLOCKS : N := %d.\n", uint64(tc.EIPTX_EXPIRATION_BLOCKS))
	fmt.Fprintf(&b, "Definition MAX_LIMITATION : N := %d.\n", uint64(tc.MAX_LIMITATION))
	fmt.Fprintf(&b, "Definition GWEI : N := %d.\n", uint64(constants.GWei))
	fmt.Fprintf(&b, "Definition IV_DEFAULT_WINDOW : N := %d. (* measured: NewIncrementValidator(0), 64 blocks added, end-start *)\n\n", measureDefaultWindow())
	for _, w := range []struct{ name, file, fn string }{
		{"vbft_window", "consensus/vbft/service.go", "NewVbftServer"},
		{"solo_window", "consensus/solo/solo.go", "NewSoloService"},
	} {
		v, err := windowArg(repo, w.file, w.fn)
		if err != nil {
			errs = append(errs, w.name+": "+err.Error())
			fmt.Fprintf(&b, "Definition translator_broken_%s : unit := tt.\n", w.name)
			continue
		}
		fmt.Fprintf(&b, "Definition %s : N := %s. (* %s %s: NewIncrementValidator argument *)\n", w.name, v, w.file, w.fn)
	}
	fmt.Fprintf(&b, "\n(* structural checks of the proposer code (true = the loop is `fresh nonceCtx; for e in GetTxnPool(true, validHeight): if Verify(e.Tx, validHeight, nonceCtx) == nil then append`) *)\n")
	shapes := []struct {
		name string
		ok   bool
		msg  string
	}{}
	ok, msg := proposerShape(repo, "consensus/vbft/service.go", "makeProposal", true)
	shapes = append(shapes, struct {
		name string
		ok   bool
		msg  string
	}{"vbft_make_proposal_shape", ok, msg})
	ok, msg = validHeightShape(repo, "consensus/vbft/service.go", "validHeight")
	shapes = append(shapes, struct {
		name string
		ok   bool
		msg  string
	}{"vbft_valid_height_shape", ok, msg})
	ok, msg = proposerShape(repo, "consensus/solo/solo.go", "makeBlock", true)
	shapes = append(shapes, struct {
		name string
		ok   bool
		msg  string
	}{"solo_make_block_shape", ok, msg})
	ok, msg = validHeightShape(repo, "consensus/solo/solo.go", "makeBlock")
	shapes = append(shapes, struct {
		name string
		ok   bool
		msg  string
	}{"solo_valid_height_shape", ok, msg})
	for _, s := range shapes {
		v := "true"
		if !s.ok {
			v = "false"
			errs = append(errs, s.name+": "+s.msg)
		}
		fmt.Fprintf(&b, "Definition %s : bool := %s.%s\n", s.name, v, func() string {
			if s.msg != "" {
				return " (* " + strings.ReplaceAll(s.msg, "*)", "* )") + " *)"
			}
			return ""
		}())
	}
	return b.Bytes(), errs
}

func init() {
	gen.RegisterFile("TxPoolGen.v", produceGen)
}
