package c35

import (
	"fmt"
	"sort"

	"verif/harness/hx"
)

// cgen drives one generated case. Every random choice comes from c.Rng.
type cgen struct {
	r       *runner
	c       *hx.Ctx
	used    map[uint64]int // gas price -> group (sender index, or 100+k for the k-th ordinary tx)
	tag     uint32
	ordN    int
	profile string
	cheap   bool // draw only prices the funded senders can pay (for transactions committed directly)
}

const maxAffordable = 2500

func (g *cgen) cheapPrice(group int) uint64 {
	g.cheap = true
	defer func() { g.cheap = false }()
	return g.price(group)
}

func (g *cgen) rnd(n int) int { return g.c.Intn(n) }
func (g *cgen) p(pct int) bool { return g.c.Intn(100) < pct }

func (g *cgen) freshTag() uint32 { g.tag++; return g.tag }

// price draws a gas price that no other group uses: with distinct prices across senders and
// ordinary transactions the pool's output order does not depend on Go's map iteration order or
// on sort.Sort's handling of ties (the model's theorems cover every order; the executable model
// fixes one).
func (g *cgen) price(group int, candidates ...uint64) uint64 {
	for _, p := range candidates {
		if p > 18446744073 || (g.profile != "adversarial" && p > maxAffordable && p < 18446744000) {
			continue // not a price TransactionFromEIP155 can produce / not affordable
		}
		if o, ok := g.used[p]; !ok || (o == group && group < 100) {
			g.used[p] = group
			return p
		}
	}
	for {
		var p uint64
		switch g.rnd(10) {
		case 0:
			p = uint64(g.rnd(3)) // 0, 1, 2: the 101/100 rule degenerates (x*101/100 == x)
		case 1, 2, 3:
			p = uint64(1 + g.rnd(200))
		case 4:
			if g.p(30) && !g.cheap {
				p = 18446744073 - uint64(g.rnd(50)) // top of the EIP-155 price range (2^64-1)/GWei
			} else {
				p = uint64(1 + g.rnd(2400))
			}
		default:
			p = uint64(100 + g.rnd(5000))
		}
		if p > maxAffordable && p < 18446744000 && group < 100 && (g.cheap || g.profile != "adversarial") {
			// keep committed EVM transactions affordable (the ledger checks balance >= gasLimit*price)
			p = p % maxAffordable
		}
		if o, ok := g.used[p]; !ok || (o == group && group < 100) {
			g.used[p] = group
			return p
		}
	}
}

func (g *cgen) poolNonces(s int) (nonces []uint64, occupant map[uint64]*mtx) {
	occupant = map[uint64]*mtx{}
	for k, h := range g.r.slots() {
		if k.payer == g.r.addrs[s] {
			nonces = append(nonces, k.nonce)
			occupant[k.nonce] = g.r.byHash[h]
		}
	}
	sort.Slice(nonces, func(i, j int) bool { return nonces[i] < nonces[j] })
	return
}

// submit validates through the real stateful validator and (usually) delivers at once.
func (g *cgen) submit(ref TxRef, deliverPct int) {
	before := len(g.r.pend)
	g.r.do(Op{K: "val", Tx: &ref})
	if len(g.r.pend) > before && g.p(deliverPct) {
		g.r.do(Op{K: "deliver", I: len(g.r.pend) - 1})
	}
}

func (g *cgen) submitEIP() {
	s := g.rnd(nSenders)
	acct := g.r.acctNonce(s)
	nonces, occ := g.poolNonces(s)
	next := acct
	for _, n := range nonces {
		if n == next {
			next++
		}
	}
	deliver := 85
	if g.profile == "laggy" {
		deliver = 55
	}
	k := g.rnd(100)
	switch {
	case k < 62: // extend the run
		g.submit(TxRef{S: s, N: uint32(next), P: g.price(s), Tag: g.freshTag()}, deliver)
	case k < 70: // leave a gap
		g.submit(TxRef{S: s, N: uint32(next) + 1 + uint32(g.rnd(3)), P: g.price(s), Tag: g.freshTag()}, deliver)
	case k < 90 && len(nonces) > 0: // replacement attempt around the threshold
		n := nonces[g.rnd(len(nonces))]
		old := occ[n].tx.GasPrice
		thr := old * 101 / 100
		cands := []uint64{thr + 1, thr, old, thr + 2, old + 1, thr - 1, old * 2, old / 2}
		g.c.Rng.Shuffle(len(cands), func(i, j int) { cands[i], cands[j] = cands[j], cands[i] })
		if old >= 18446744000 {
			cands = []uint64{old + 1, old, old - 1}
		}
		g.submit(TxRef{S: s, N: uint32(n), P: g.price(s, cands...), Tag: g.freshTag()}, 95)
	case k < 94 && acct > 0: // below the account nonce: the stateful validator refuses
		g.submit(TxRef{S: s, N: uint32(g.rnd(int(acct))), P: g.price(s), Tag: g.freshTag()}, deliver)
	case k < 97: // around the nonce gap limit
		g.submit(TxRef{S: s, N: uint32(acct) + 998 + uint32(g.rnd(4)), P: g.price(s), Tag: g.freshTag()}, deliver)
	default: // the same transaction again
		if len(nonces) > 0 {
			g.submit(occ[nonces[g.rnd(len(nonces))]].ref, 95)
		}
	}
}

func (g *cgen) submitOrd() {
	g.ordN++
	g.submit(TxRef{S: -1, N: uint32(g.ordN), P: g.price(100 + g.ordN), Tag: g.freshTag()}, 85)
}

func refsOf(l []*mtx) []TxRef {
	var out []TxRef
	for _, m := range l {
		out = append(out, m.ref)
	}
	return out
}

func (g *cgen) commit(txs []TxRef) bool {
	h := g.r.height()
	g.r.do(Op{K: "commit", Txs: txs})
	if g.r.height() == h {
		return false
	}
	pct := 85
	if g.profile == "laggy" {
		pct = 35
	}
	if g.p(pct) {
		g.events(true, false)
	}
	if g.p(pct) {
		g.events(false, true)
	}
	return true
}

// events delivers queued block events to the validator and/or the pool (oldest first).
func (g *cgen) events(iv, pool bool) {
	if iv && len(g.r.ivq) > 0 {
		h := g.r.ivq[0]
		g.r.ivq = g.r.ivq[1:]
		if g.profile == "laggy" && g.p(12) {
			g.c.Count("event:dropped-for-validator")
		} else {
			g.r.do(Op{K: "ivadd", H: h})
		}
	}
	if pool && len(g.r.poolq) > 0 {
		h := g.r.poolq[0]
		g.r.poolq = g.r.poolq[1:]
		g.r.do(Op{K: "poolclean", H: h, Txs: refsOf(g.r.chain[h])})
	}
}

func (g *cgen) foreignBlock() {
	var txs []TxRef
	bad := g.p(15)
	for s := 0; s < nSenders; s++ {
		if !g.p(50) {
			continue
		}
		acct := g.r.acctNonce(s)
		_, occ := g.poolNonces(s)
		k := 1 + g.rnd(3)
		for j := 0; j < k; j++ {
			n := acct + uint64(j)
			if bad && j == k-1 {
				n += 1 + uint64(g.rnd(2)) // the ledger refuses the block
			}
			if m, ok := occ[n]; ok && g.p(50) && m.tx.GasPrice <= maxAffordable {
				txs = append(txs, m.ref)
			} else {
				txs = append(txs, TxRef{S: s, N: uint32(n), P: g.cheapPrice(s), Tag: g.freshTag()})
			}
		}
	}
	for j := g.rnd(3); j > 0; j-- {
		g.ordN++
		txs = append(txs, TxRef{S: -1, N: uint32(g.ordN), P: g.price(100 + g.ordN), Tag: g.freshTag()})
	}
	g.c.Rng.Shuffle(len(txs), func(i, j int) {
		// keep each sender's own order: only swap transactions of different senders
		if txs[i].S != txs[j].S || txs[i].S < 0 {
			txs[i], txs[j] = txs[j], txs[i]
		}
	})
	// shuffling may still have reordered a sender's nonces through intermediate swaps: restore per-sender order
	for s := 0; s < nSenders; s++ {
		var idx []int
		var own []TxRef
		for i, t := range txs {
			if t.S == s {
				idx = append(idx, i)
				own = append(own, t)
			}
		}
		sort.Slice(own, func(i, j int) bool { return own[i].N < own[j].N })
		for k, i := range idx {
			txs[i] = own[k]
		}
	}
	g.commit(txs)
}

func (g *cgen) heightChoice() uint32 {
	cur := g.r.height()
	start, _ := g.r.iv.BlockRange()
	switch g.rnd(6) {
	case 0:
		return 0
	case 1:
		return cur + 1
	case 2:
		if cur > 0 {
			return cur - 1
		}
		return 0
	case 3:
		return start
	}
	return cur
}

func (g *cgen) verifyList() {
	var txs []TxRef
	for s := 0; s < nSenders; s++ {
		nonces, occ := g.poolNonces(s)
		for _, n := range nonces {
			if g.p(70) {
				txs = append(txs, occ[n].ref)
			}
		}
	}
	for h := 1; h < len(g.r.chain); h++ {
		for _, m := range g.r.chain[h] {
			if g.p(15) {
				txs = append(txs, m.ref)
			}
		}
	}
	if len(txs) > 1 && g.p(30) {
		g.c.Rng.Shuffle(len(txs), func(i, j int) { txs[i], txs[j] = txs[j], txs[i] })
	}
	if len(txs) > 0 && g.p(30) {
		txs = append(txs, txs[g.rnd(len(txs))])
	}
	g.r.do(Op{K: "verifylist", Txs: txs, H: g.heightChoice()})
}

func (g *cgen) adversarialAdd() {
	cur := g.r.height()
	switch g.rnd(4) {
	case 0: // a transaction that is already on chain, with a verification height of our choosing
		var on []*mtx
		for h := 1; h < len(g.r.chain); h++ {
			for _, m := range g.r.chain[h] {
				if m.ref.S != -2 { // not the funding transfers: they share gas price 0 (sort ties)
					on = append(on, m)
				}
			}
		}
		if len(on) > 0 {
			g.r.do(Op{K: "add", Tx: &on[g.rnd(len(on))].ref, VH: uint32(g.rnd(int(cur) + 2)), VN: uint64(g.rnd(5))})
		}
	case 1: // nonce at the top of uint32: Forward's threshold uint64(tx.Nonce+1) wraps to 0
		s := g.rnd(nSenders)
		n := uint32(4294967295 - uint32(g.rnd(3)))
		ref := TxRef{S: s, N: n, P: g.price(s), Tag: g.freshTag()}
		g.r.do(Op{K: "add", Tx: &ref, VH: cur, VN: 4294967290})
		if g.p(70) {
			g.r.do(Op{K: "poolclean", H: cur, Txs: []TxRef{ref}})
		}
	case 2: // arbitrary verification height and recorded account nonce
		s := g.rnd(nSenders)
		ref := TxRef{S: s, N: uint32(g.r.acctNonce(s)) + uint32(g.rnd(4)), P: g.price(s), Tag: g.freshTag()}
		g.r.do(Op{K: "add", Tx: &ref, VH: uint32(g.rnd(int(cur) + 3)), VN: uint64(g.rnd(8))})
	default: // account nonce near 2^64: the gap check's addition wraps
		s := g.rnd(nSenders)
		ref := TxRef{S: s, N: uint32(g.rnd(2000)), P: g.price(s), Tag: g.freshTag()}
		g.r.do(Op{K: "add", Tx: &ref, VH: cur, VN: 18446744073709551615 - uint64(g.rnd(1200))})
	}
}

func (g *cgen) reverify(l []*mtx) {
	for _, m := range l {
		if g.p(75) {
			g.submit(m.ref, 90)
		}
	}
}

func generate(c *hx.Ctx, caseNo, i int) {
	profiles := []string{"normal", "laggy", "normal", "adversarial", "small-window"}
	profile := profiles[i%len(profiles)]
	s := Script{KeySeed: c.Rng.Int63(), Profile: profile}
	switch profile {
	case "small-window":
		s.MaxBlk = 1 + c.Intn(3)
	default:
		s.MaxBlk = []int{0, 20, 5, 20}[c.Intn(4)]
	}
	s.MaxTx = []uint{60000, 60000, 3, 1, 0, 8}[c.Intn(6)]
	r := newRunner(c, s, caseNo)
	g := &cgen{r: r, c: c, used: map[uint64]int{}, profile: profile}
	// block 1 funds the three senders
	g.commit([]TxRef{{S: -2, Tag: 0}, {S: -2, Tag: 1}, {S: -2, Tag: 2}})
	nops := c.N(34, 60) + c.Intn(12)
	for k := 0; k < nops; k++ {
		x := g.rnd(100)
		switch {
		case x < 40:
			g.submitEIP()
		case x < 46:
			g.submitOrd()
		case x < 49:
			if len(r.pend) > 0 {
				r.do(Op{K: "deliver", I: g.rnd(len(r.pend))})
			}
		case x < 54:
			r.do(Op{K: "get", BC: g.p(60), H: g.heightChoice()})
		case x < 68:
			r.do(Op{K: "propose"})
			if len(r.lastProposal) > 0 && g.p(75) {
				txs := refsOf(r.lastProposal)
				for _, t := range txs {
					if t.S >= 0 && t.P > maxAffordable {
						txs = nil // unaffordable price (adversarial profile): keep it in the pool
						break
					}
				}
				if txs != nil {
					g.commit(txs)
				}
			}
		case x < 74:
			g.foreignBlock()
		case x < 84:
			g.events(g.p(70), g.p(70))
		case x < 90:
			g.verifyList()
		case x < 92:
			var prices []uint64
			for p := range g.used {
				prices = append(prices, p)
			}
			sort.Slice(prices, func(a, b int) bool { return prices[a] < prices[b] })
			if len(prices) > 0 {
				r.do(Op{K: "rmbelow", G: prices[g.rnd(len(prices))]})
			}
		case x < 94:
			var inPool []*mtx
			for _, m := range r.txs {
				if r.pool.GetTransaction(m.tx.Hash()) != nil {
					inPool = append(inPool, m)
				}
			}
			sort.Slice(inPool, func(a, b int) bool { return inPool[a].id < inPool[b].id })
			r.do(Op{K: "remain"})
			g.reverify(inPool)
		case x < 96:
			r.do(Op{K: "ivclean"})
		default:
			if profile == "adversarial" {
				g.adversarialAdd()
			} else {
				g.submitEIP()
			}
		}
	}
	// drain: deliver everything, then a final proposal (the common end state of a node)
	for len(r.ivq) > 0 || len(r.poolq) > 0 {
		g.events(true, true)
	}
	r.last = true
	r.do(Op{K: "propose"})
	r.finish("generated:" + profile)
}

// fixedScripts are deterministic scenarios run on every seed.
func fixedScripts(quick bool) []Script {
	fund := Op{K: "commit", Txs: []TxRef{{S: -2, Tag: 0}, {S: -2, Tag: 1}, {S: -2, Tag: 2}}}
	a0 := TxRef{S: 0, N: 0, P: 100, Tag: 1}
	a1 := TxRef{S: 0, N: 1, P: 100, Tag: 2}
	a1eq := TxRef{S: 0, N: 1, P: 100, Tag: 3}  // equal price: refused
	a1thr := TxRef{S: 0, N: 1, P: 101, Tag: 4} // exactly old*101/100: refused
	a1up := TxRef{S: 0, N: 1, P: 102, Tag: 5}  // above: replaces
	a3 := TxRef{S: 0, N: 3, P: 90, Tag: 6}     // gap at 2
	b0 := TxRef{S: 1, N: 0, P: 300, Tag: 7}
	o1 := TxRef{S: -1, N: 1, P: 50, Tag: 8}
	z0 := TxRef{S: 2, N: 0, P: 0, Tag: 9}
	z0up := TxRef{S: 2, N: 0, P: 1, Tag: 10} // 0*101/100 = 0 < 1
	one := TxRef{S: 2, N: 1, P: 1, Tag: 11}
	oneUp := TxRef{S: 2, N: 1, P: 2, Tag: 12} // 1*101/100 = 1 < 2
	sub := func(t TxRef) []Op { return []Op{{K: "val", Tx: &t}, {K: "deliver", I: 0}} }
	var ops []Op
	ops = append(ops, fund, Op{K: "ivadd", H: 1}, Op{K: "poolclean", H: 1, Txs: fund.Txs})
	for _, t := range []TxRef{a0, a1, a1eq, a1thr, a1up, a3, b0, o1, z0, z0up, one, oneUp} {
		ops = append(ops, sub(t)...)
	}
	ops = append(ops, Op{K: "propose"},
		Op{K: "commit", Txs: []TxRef{b0, a0, o1}}, // a foreign block takes part of the pool
		Op{K: "propose"},                          // validator window behind the ledger: Clean, everything verified below the tip expires
		Op{K: "ivadd", H: 2}, Op{K: "poolclean", H: 2, Txs: []TxRef{b0, a0, o1}},
		Op{K: "propose"})
	for _, t := range []TxRef{a1up, a3, z0up, oneUp} {
		ops = append(ops, sub(t)...)
	}
	ops = append(ops, Op{K: "propose"}, Op{K: "verifylist", Txs: []TxRef{a0, a1up, a3, b0, z0up, oneUp, oneUp}, H: 1})
	out := []Script{{KeySeed: 35, MaxBlk: 20, MaxTx: 60000, Profile: "fixed", Ops: ops}}
	if !quick {
		// CleanStaledEIPTx acts only above MAX_LIMITATION (10000) pool entries: thorough tier only
		var st []Op
		st = append(st, fund, Op{K: "ivadd", H: 1}, Op{K: "poolclean", H: 1, Txs: fund.Txs})
		for _, t := range []TxRef{a0, a1, b0} {
			st = append(st, sub(t)...)
		}
		st = append(st, Op{K: "bulk", Cnt: 10001, VH: 1},
			Op{K: "poolclean", H: 50}, // 1+50 > 50: nothing is stale yet
			Op{K: "poolclean", H: 51}, // both senders' lists are dropped
			Op{K: "propose"})
		out = append(out, Script{KeySeed: 36, MaxBlk: 20, MaxTx: 60000, Profile: "fixed-staled", Ops: st})
	}
	return out
}

// sourceWindow reads the validator window the consensus services configure
// (increment.NewIncrementValidator(N) in consensus/vbft/service.go) from the current source.
func sourceWindow(c *hx.Ctx) int {
	if v, err := windowArg(c.Repo, "consensus/vbft/service.go", "NewVbftServer"); err == nil {
		var w int
		if _, err := fmt.Sscanf(v, "%d", &w); err == nil && w > 0 {
			return w
		}
	}
	return int(measureDefaultWindow())
}

// generateLong: a long run of contiguous AddBlock calls (no Clean in between) that slides the
// validator window past its size by `extra` blocks. Senders recur in the newest block and in
// earlier ones; before a block is committed a same-nonce variant of one of its transactions is
// validated (at the previous height) and it reaches AddTxList only after the block (the late
// delivery race), so the pool holds a stale-nonce transaction that is not on chain and whose
// verification height lies inside the window.
func generateLong(c *hx.Ctx, caseNo, window, extra int) {
	s := Script{KeySeed: c.Rng.Int63(), Profile: "long-window", MaxBlk: window, MaxTx: 60000}
	r := newRunner(c, s, caseNo)
	r.dumpEvery = 7
	g := &cgen{r: r, c: c, used: map[uint64]int{}, profile: "long-window"}
	addBlock := func(txs []TxRef) bool {
		h := r.height()
		r.do(Op{K: "commit", Txs: txs})
		if r.height() == h {
			return false
		}
		r.ivq, r.poolq = nil, nil
		r.do(Op{K: "ivadd", H: h + 1}) // contiguous: every persisted block reaches the validator at once
		return true
	}
	addBlock([]TxRef{{S: -2, Tag: 0}, {S: -2, Tag: 1}, {S: -2, Tag: 2}})
	r.do(Op{K: "poolclean", H: 1, Txs: refsOf(r.chain[1])})
	total := window + extra + g.rnd(3)
	var uncleaned []uint32
	for blk := 2; blk <= total; blk++ {
		var txs []TxRef
		var stale []TxRef
		for sd := 0; sd < nSenders; sd++ {
			if !g.p(70) {
				continue
			}
			n := r.specNext[sd]
			k := 1 + g.rnd(2)
			for j := 0; j < k; j++ {
				txs = append(txs, TxRef{S: sd, N: uint32(n) + uint32(j), P: g.cheapPrice(sd), Tag: g.freshTag()})
			}
			if g.p(60) {
				// same (sender, nonce) as a transaction of the coming block, different hash
				stale = append(stale, TxRef{S: sd, N: uint32(n) + uint32(g.rnd(k)), P: g.cheapPrice(sd), Tag: g.freshTag()})
			}
		}
		if g.p(40) {
			g.ordN++
			txs = append(txs, TxRef{S: -1, N: uint32(g.ordN), P: g.price(100 + g.ordN), Tag: g.freshTag()})
		}
		for _, t := range stale { // validated before the newest block ...
			t := t
			r.do(Op{K: "val", Tx: &t})
		}
		if !addBlock(txs) {
			continue
		}
		uncleaned = append(uncleaned, uint32(blk))
		for len(r.pend) > 0 { // ... added to the pool after it
			r.do(Op{K: "deliver", I: 0})
		}
		// the next transactions of some senders arrive normally
		for sd := 0; sd < nSenders; sd++ {
			if g.p(35) {
				g.submit(TxRef{S: sd, N: uint32(r.specNext[sd]) + uint32(g.rnd(2)), P: g.cheapPrice(sd), Tag: g.freshTag()}, 100)
			}
		}
		if blk > window || g.p(30) {
			r.do(Op{K: "propose"})
		}
		if g.p(75) { // the pool's own clean-up of persisted blocks lags behind
			for _, h := range uncleaned {
				r.do(Op{K: "poolclean", H: h, Txs: refsOf(r.chain[h])})
			}
			uncleaned = nil
		}
	}
	r.last = true
	r.do(Op{K: "propose"})
	r.c.Count(fmt.Sprintf("long-window:blocks-past-window-%d", extra))
	r.finish("generated:long-window")
}
