package c35

import (
	"github.com/ontio/ontology/core/types"
	"github.com/ontio/ontology/validator/increment"
)

// measureDefaultWindow runs the real validator: NewIncrementValidator(0) falls back to its
// default window; after 64 consecutive blocks the block range has exactly that many blocks.
func measureDefaultWindow() uint32 {
	v := increment.NewIncrementValidator(0)
	for h := uint32(1); h <= 64; h++ {
		v.AddBlock(&types.Block{Header: &types.Header{Height: h}})
	}
	s, e := v.BlockRange()
	return e - s
}
