package c01

// Source extraction for C01. The commit protocol of the ledger store is read from the Go AST of
// core/store/ledgerstore/ledger_store.go on every run:
//
//   - submitBlock: the ordered list of batch / save / commit steps (submit_steps),
//   - recoverStore: the bounds of the replay loop (recover_init, recover_continue, recover_next),
//     the height handed to blockStore.GetBlockHash (recover_arg) and the ordered step list of the
//     loop body (recover_steps).
//
// The result is written to coq/Gen/Recover.v (the model interprets these step lists, the theorems
// depend on them) and is also used by the driver to assemble the crashed data directories, so that
// the crash points exercised on the implementation are those of the code as it stands now.
//
// Fails closed: any shape outside the recognised fragment yields an error, and the generated file
// then lacks the definitions the proofs need.

import (
	"bytes"
	"fmt"
	"go/ast"
	"go/parser"
	"go/printer"
	"go/token"
	"path/filepath"
	"strings"

	"github.com/ontio/ontology/common"

	"verif/harness/gen"
)

const ledgerStoreFile = "core/store/ledgerstore/ledger_store.go"

// Step kinds (Coq constructors of Model.RecoverTypes.step).
type Step struct {
	Kind  string // NewBatch | SaveBlock | SaveState | SaveEvent | Commit | Exec | SetCurrent
	Store string // block | event | state (NewBatch, Commit)
}

func (s Step) Coq() string {
	st := map[string]string{"block": "SBlock", "event": "SEvent", "state": "SState"}[s.Store]
	switch s.Kind {
	case "NewBatch":
		return "StNewBatch " + st
	case "Commit":
		return "StCommit " + st
	default:
		return "St" + s.Kind
	}
}

func (s Step) String() string {
	if s.Store != "" {
		return strings.ToLower(s.Kind) + ":" + s.Store
	}
	return strings.ToLower(s.Kind)
}

type Protocol struct {
	Submit  []Step
	Recover []Step
	// loop of recoverStore, as Z expressions over i, stateHeight, blockHeight (uint32 wrap explicit)
	InitGo, CondGo, PostGo, ArgGo string
	Init, Cond, Next, Arg         string
}

func printNode(fset *token.FileSet, n ast.Node) string {
	var b bytes.Buffer
	printer.Fprint(&b, fset, n)
	return b.String()
}

var storeFields = map[string]string{"blockStore": "block", "eventStore": "event", "stateStore": "state"}

// read-only methods of the three stores that may appear in the two functions without being a step
var readOnly = map[string]bool{"GetBlockHash": true, "GetBlock": true, "GetCurrentBlock": true, "GetCrossStatesRoot": true}

// calls on the ledger store itself that are not durable steps of the protocol (checked once by
// reading them: GetBlockRootWithNewTxRoots is a pure query, tryPruneBlock is a no-op unless block
// pruning is enabled, setHeaderIndex/delHeaderCache touch in-memory caches only)
var ignoredThis = map[string]bool{"GetBlockRootWithNewTxRoots": true, "GetCurrentBlockHeight": true, "tryPruneBlock": true}

func classifyCall(fset *token.FileSet, ce *ast.CallExpr) (Step, bool, error) {
	sel, ok := ce.Fun.(*ast.SelectorExpr)
	if !ok {
		return Step{}, false, nil
	}
	name := sel.Sel.Name
	switch x := sel.X.(type) {
	case *ast.Ident:
		if x.Name != "this" {
			return Step{}, false, nil
		}
		switch name {
		case "saveBlockToBlockStore":
			return Step{Kind: "SaveBlock"}, true, nil
		case "saveBlockToStateStore":
			return Step{Kind: "SaveState"}, true, nil
		case "saveBlockToEventStore":
			return Step{Kind: "SaveEvent"}, true, nil
		case "executeBlock":
			return Step{Kind: "Exec"}, true, nil
		case "setCurrentBlock":
			return Step{Kind: "SetCurrent"}, true, nil
		}
		if ignoredThis[name] {
			return Step{}, false, nil
		}
		return Step{}, false, fmt.Errorf("unrecognised call this.%s(...)", name)
	case *ast.SelectorExpr:
		id, ok := x.X.(*ast.Ident)
		if !ok || id.Name != "this" {
			return Step{}, false, nil
		}
		if x.Sel.Name == "crossChainStore" {
			return Step{}, false, nil // separate store, written only when a cross-chain message is present (never in this model)
		}
		st, ok := storeFields[x.Sel.Name]
		if !ok {
			return Step{}, false, fmt.Errorf("call on unrecognised field this.%s.%s", x.Sel.Name, name)
		}
		switch name {
		case "NewBatch":
			return Step{Kind: "NewBatch", Store: st}, true, nil
		case "CommitTo":
			return Step{Kind: "Commit", Store: st}, true, nil
		}
		if readOnly[name] {
			return Step{}, false, nil
		}
		return Step{}, false, fmt.Errorf("unrecognised store call this.%s.%s(...)", x.Sel.Name, name)
	}
	return Step{}, false, nil
}

func stepsOf(fset *token.FileSet, body ast.Node) ([]Step, error) {
	var steps []Step
	var firstErr error
	ast.Inspect(body, func(n ast.Node) bool {
		if ce, ok := n.(*ast.CallExpr); ok {
			s, is, err := classifyCall(fset, ce)
			if err != nil && firstErr == nil {
				firstErr = err
			}
			if is {
				steps = append(steps, s)
			}
		}
		return true
	})
	return steps, firstErr
}

func findMethod(f *ast.File, name string) *ast.FuncDecl {
	for _, d := range f.Decls {
		if fd, ok := d.(*ast.FuncDecl); ok && fd.Name.Name == name && fd.Recv != nil {
			return fd
		}
	}
	return nil
}

const two32 = "4294967296"

// u32Expr translates a uint32 expression over i/stateHeight/blockHeight and literals, + and -,
// to a Z expression with the wrap written out.
func u32Expr(fset *token.FileSet, e ast.Expr) (string, error) {
	return u32ExprS(fset, e, map[string]string{"i": "i", "stateHeight": "stateHeight", "blockHeight": "blockHeight"})
}

func u32ExprS(fset *token.FileSet, e ast.Expr, subst map[string]string) (string, error) {
	if v, ok := subst[printNode(fset, e)]; ok {
		return v, nil
	}
	switch x := e.(type) {
	case *ast.ParenExpr:
		return u32ExprS(fset, x.X, subst)
	case *ast.BasicLit:
		if x.Kind == token.INT {
			var v int64
			if _, err := fmt.Sscanf(x.Value, "%d", &v); err == nil && v >= 0 {
				return fmt.Sprintf("%d", v), nil
			}
		}
	case *ast.BinaryExpr:
		l, err := u32ExprS(fset, x.X, subst)
		if err != nil {
			return "", err
		}
		r, err := u32ExprS(fset, x.Y, subst)
		if err != nil {
			return "", err
		}
		switch x.Op {
		case token.ADD:
			return "(Z.modulo (" + l + " + " + r + ") " + two32 + ")", nil
		case token.SUB:
			return "(Z.modulo (" + l + " - " + r + ") " + two32 + ")", nil
		}
	}
	return "", fmt.Errorf("unsupported uint32 expression %q", printNode(fset, e))
}

// DefaultSubmitSteps is the step order of submitBlock this driver was written against; used only to
// keep the crash scenarios and the oracle running when the source can no longer be read (the
// broken translation itself is reported separately).
var DefaultSubmitSteps = []Step{{Kind: "NewBatch", Store: "block"}, {Kind: "NewBatch", Store: "state"}, {Kind: "NewBatch", Store: "event"},
	{Kind: "SaveBlock"}, {Kind: "SaveState"}, {Kind: "SaveEvent"},
	{Kind: "Commit", Store: "block"}, {Kind: "Commit", Store: "event"}, {Kind: "Commit", Store: "state"}, {Kind: "SetCurrent"}}

// ExtractSubmitSteps reads only submitBlock (independent of the shape of recoverStore). The steps
// recognised so far are returned together with an error about unrecognised calls.
func ExtractSubmitSteps(repo string) ([]Step, error) {
	fset := token.NewFileSet()
	f, err := parser.ParseFile(fset, filepath.Join(repo, ledgerStoreFile), nil, 0)
	if err != nil {
		return nil, err
	}
	sub := findMethod(f, "submitBlock")
	if sub == nil {
		return nil, fmt.Errorf("submitBlock not found")
	}
	return stepsOf(fset, sub.Body)
}

// ExtractProtocol reads submitBlock and recoverStore.
func ExtractProtocol(repo string) (*Protocol, error) {
	fset := token.NewFileSet()
	f, err := parser.ParseFile(fset, filepath.Join(repo, ledgerStoreFile), nil, 0)
	if err != nil {
		return nil, err
	}
	p := &Protocol{}
	sub := findMethod(f, "submitBlock")
	if sub == nil {
		return nil, fmt.Errorf("submitBlock not found")
	}
	if p.Submit, err = stepsOf(fset, sub.Body); err != nil {
		return nil, fmt.Errorf("submitBlock: %v", err)
	}
	rec := findMethod(f, "recoverStore")
	if rec == nil {
		return nil, fmt.Errorf("recoverStore not found")
	}
	// the variables the loop speaks about must be what the model says they are
	wantDefs := map[string]string{"blockHeight": "this.GetCurrentBlockHeight()", "stateHeight": "this.stateStore.GetCurrentBlock()"}
	gotDefs := map[string]string{}
	var loop *ast.ForStmt
	nLoops := 0
	for _, st := range rec.Body.List {
		switch s := st.(type) {
		case *ast.AssignStmt:
			if len(s.Rhs) == 1 {
				for _, l := range s.Lhs {
					if id, ok := l.(*ast.Ident); ok && id.Name != "_" && id.Name != "err" {
						gotDefs[id.Name] = printNode(fset, s.Rhs[0])
					}
				}
			}
		case *ast.ForStmt:
			loop = s
			nLoops++
		}
	}
	for k, v := range wantDefs {
		if gotDefs[k] != v {
			return nil, fmt.Errorf("recoverStore: %s is defined as %q, expected %q", k, gotDefs[k], v)
		}
	}
	if nLoops != 1 {
		return nil, fmt.Errorf("recoverStore: expected exactly one top-level for loop, found %d", nLoops)
	}
	// stateHeight must be the second result of stateStore.GetCurrentBlock (hash, height, err)
	okPos := false
	for _, st := range rec.Body.List {
		if s, ok := st.(*ast.AssignStmt); ok && len(s.Rhs) == 1 && len(s.Lhs) == 3 {
			if id, ok := s.Lhs[1].(*ast.Ident); ok && id.Name == "stateHeight" {
				okPos = true
			}
		}
	}
	if !okPos {
		return nil, fmt.Errorf("recoverStore: stateHeight is not the height result of stateStore.GetCurrentBlock")
	}
	// init: i := <expr>
	as, ok := loop.Init.(*ast.AssignStmt)
	if !ok || len(as.Lhs) != 1 || len(as.Rhs) != 1 || printNode(fset, as.Lhs[0]) != "i" {
		return nil, fmt.Errorf("recoverStore: loop init is not `i := expr`")
	}
	p.InitGo = printNode(fset, as.Rhs[0])
	if p.Init, err = u32Expr(fset, as.Rhs[0]); err != nil {
		return nil, err
	}
	// cond: <expr> op <expr>
	be, ok := loop.Cond.(*ast.BinaryExpr)
	if !ok {
		return nil, fmt.Errorf("recoverStore: loop condition is not a comparison")
	}
	p.CondGo = printNode(fset, be)
	l, err := u32Expr(fset, be.X)
	if err != nil {
		return nil, err
	}
	r, err := u32Expr(fset, be.Y)
	if err != nil {
		return nil, err
	}
	switch be.Op {
	case token.LEQ:
		p.Cond = "Z.leb " + l + " " + r
	case token.LSS:
		p.Cond = "Z.ltb " + l + " " + r
	case token.GEQ:
		p.Cond = "Z.leb " + r + " " + l
	case token.GTR:
		p.Cond = "Z.ltb " + r + " " + l
	case token.NEQ:
		p.Cond = "negb (Z.eqb " + l + " " + r + ")"
	default:
		return nil, fmt.Errorf("recoverStore: unsupported loop comparison %s", be.Op)
	}
	// post: i++
	inc, ok := loop.Post.(*ast.IncDecStmt)
	if !ok || inc.Tok != token.INC || printNode(fset, inc.X) != "i" {
		return nil, fmt.Errorf("recoverStore: loop post statement is not i++")
	}
	p.PostGo = "i++"
	p.Next = "(Z.modulo (i + 1) " + two32 + ")"
	// the loop variable must not be assigned in the body
	bad := false
	ast.Inspect(loop.Body, func(n ast.Node) bool {
		switch s := n.(type) {
		case *ast.AssignStmt:
			for _, l := range s.Lhs {
				if printNode(fset, l) == "i" {
					bad = true
				}
			}
		case *ast.IncDecStmt:
			if printNode(fset, s.X) == "i" {
				bad = true
			}
		}
		return true
	})
	if bad {
		return nil, fmt.Errorf("recoverStore: loop variable modified in the body")
	}
	// argument of blockStore.GetBlockHash, and the block must be loaded from that hash
	var arg ast.Expr
	nArg := 0
	loadsBlock := false
	ast.Inspect(loop.Body, func(n ast.Node) bool {
		if ce, ok := n.(*ast.CallExpr); ok {
			switch printNode(fset, ce.Fun) {
			case "this.blockStore.GetBlockHash":
				if len(ce.Args) == 1 {
					arg = ce.Args[0]
					nArg++
				}
			case "this.blockStore.GetBlock":
				if len(ce.Args) == 1 && printNode(fset, ce.Args[0]) == "blockHash" {
					loadsBlock = true
				}
			}
		}
		return true
	})
	if nArg != 1 || !loadsBlock {
		return nil, fmt.Errorf("recoverStore: expected one blockStore.GetBlockHash(expr) followed by blockStore.GetBlock(blockHash) in the loop")
	}
	p.ArgGo = printNode(fset, arg)
	if p.Arg, err = u32Expr(fset, arg); err != nil {
		return nil, err
	}
	if p.Recover, err = stepsOf(fset, loop.Body); err != nil {
		return nil, fmt.Errorf("recoverStore: %v", err)
	}
	return p, nil
}

const hookFile = "core/store/ledgerstore/verif_hooks_c01.go"

// CompareHook checks that VerifSubmitBlockStaged (the verif-tagged staged copy used to copy the data
// directory at every crash point) is submitBlock statement for statement, apart from its cb(...)
// calls. Any difference disqualifies the copy.
func CompareHook(repo string) error {
	fset := token.NewFileSet()
	f, err := parser.ParseFile(fset, filepath.Join(repo, ledgerStoreFile), nil, 0)
	if err != nil {
		return err
	}
	g, err := parser.ParseFile(fset, filepath.Join(repo, hookFile), nil, 0)
	if err != nil {
		return err
	}
	a, b := findMethod(f, "submitBlock"), findMethod(g, "VerifSubmitBlockStaged")
	if a == nil || b == nil {
		return fmt.Errorf("submitBlock or VerifSubmitBlockStaged not found")
	}
	var sa, sb []string
	for _, st := range a.Body.List {
		sa = append(sa, printNode(fset, st))
	}
	for _, st := range b.Body.List {
		t := printNode(fset, st)
		if strings.HasPrefix(t, "cb(") {
			continue
		}
		sb = append(sb, t)
	}
	if len(sa) != len(sb) {
		return fmt.Errorf("staged copy has %d statements, submitBlock has %d", len(sb), len(sa))
	}
	for i := range sa {
		if sa[i] != sb[i] {
			return fmt.Errorf("statement %d differs: submitBlock has %q, the staged copy has %q", i, sa[i], sb[i])
		}
	}
	pa, pb := printNode(fset, a.Type.Params), printNode(fset, b.Type.Params)
	if !strings.HasPrefix(pb, strings.TrimSuffix(pa, ")")) {
		return fmt.Errorf("parameter lists differ: %s vs %s", pa, pb)
	}
	return nil
}

func coqSteps(ss []Step) string {
	var s []string
	for _, x := range ss {
		s = append(s, x.Coq())
	}
	return "[" + strings.Join(s, "; ") + "]"
}

// extra integer sites (state_store.go init, file_hash_store.go) translated by the shared translator
var extraSites = []gen.Site{
	{Name: "file_seek_offset", File: "merkle/file_hash_store.go", Func: "NewFileHashStore", Loc: "assign:size",
		Subst: map[string]string{"int64(num_hashes)": "num_hashes", "int64(common.UINT256_SIZE)": "hash_size"}, Vars: []string{"num_hashes", "hash_size"}},
	{Name: "file_min_size", File: "merkle/file_hash_store.go", Func: "checkConsistence", Loc: "cmp:<:rhs",
		Subst: map[string]string{"int64(num_hashes)": "num_hashes", "int64(common.UINT256_SIZE)": "hash_size"}, Vars: []string{"num_hashes", "hash_size"}},
}

// treeSizeChecks returns (Go text, Coq Z expr) of the right-hand sides of the two comparisons
// `treeSize != ...` in StateStore.init, in source order (block tree, state tree).
func treeSizeChecks(repo string) ([][2]string, error) {
	fset := token.NewFileSet()
	f, err := parser.ParseFile(fset, filepath.Join(repo, "core/store/ledgerstore/state_store.go"), nil, 0)
	if err != nil {
		return nil, err
	}
	fd := findMethod(f, "init")
	if fd == nil {
		return nil, fmt.Errorf("StateStore.init not found")
	}
	var out [][2]string
	var ferr error
	ast.Inspect(fd.Body, func(n ast.Node) bool {
		if be, ok := n.(*ast.BinaryExpr); ok && be.Op == token.NEQ && printNode(fset, be.X) == "treeSize" {
			c, err := u32ExprS(fset, be.Y, map[string]string{"currBlockHeight": "h", "self.stateHashCheckHeight": "shh"})
			if err != nil && ferr == nil {
				ferr = err
			}
			out = append(out, [2]string{printNode(fset, be.Y), c})
		}
		return true
	})
	if ferr != nil {
		return nil, ferr
	}
	if len(out) != 2 {
		return nil, fmt.Errorf("StateStore.init: expected two `treeSize != expr` checks, found %d", len(out))
	}
	return out, nil
}

func produceRecoverV(repo string) ([]byte, []string) {
	var b bytes.Buffer
	var errs []string
	fmt.Fprintf(&b, "(* GENERATED by harness/drivers/c01 from /repo's current source on every run. Do not edit. *)\n")
	fmt.Fprintf(&b, "From Coq Require Import ZArith List Bool.\nImport ListNotations.\nFrom Ont Require Import Model.RecoverTypes.\nLocal Open Scope Z_scope.\n\n")
	p, err := ExtractProtocol(repo)
	if err != nil {
		errs = append(errs, err.Error())
		fmt.Fprintf(&b, "Definition translator_broken_recover : unit := tt. (* %s *)\n", strings.ReplaceAll(err.Error(), "*)", "* )"))
	} else {
		fmt.Fprintf(&b, "(* %s, submitBlock: calls in source order *)\nDefinition submit_steps : list step :=\n  %s.\n\n", ledgerStoreFile, coqSteps(p.Submit))
		fmt.Fprintf(&b, "(* recoverStore: for i := %s; %s; %s { ... GetBlockHash(%s) ... } ; uint32 arithmetic *)\n", p.InitGo, p.CondGo, p.PostGo, p.ArgGo)
		fmt.Fprintf(&b, "Definition recover_init (stateHeight blockHeight : Z) : Z := %s.\n", p.Init)
		fmt.Fprintf(&b, "Definition recover_continue (i stateHeight blockHeight : Z) : bool := %s.\n", p.Cond)
		fmt.Fprintf(&b, "Definition recover_next (i : Z) : Z := %s.\n", p.Next)
		fmt.Fprintf(&b, "Definition recover_arg (i stateHeight blockHeight : Z) : Z := %s.\n", p.Arg)
		fmt.Fprintf(&b, "(* loop body: calls in source order *)\nDefinition recover_steps : list step :=\n  %s.\n\n", coqSteps(p.Recover))
	}
	// StateStore.init: the two `treeSize != <expected>` consistency checks (uint32 arithmetic)
	if exps, err := treeSizeChecks(repo); err != nil {
		errs = append(errs, err.Error())
		fmt.Fprintf(&b, "Definition translator_broken_init_tree_size : unit := tt. (* %s *)\n\n", strings.ReplaceAll(err.Error(), "*)", "* )"))
	} else {
		fmt.Fprintf(&b, "(* core/store/ledgerstore/state_store.go, StateStore.init: treeSize != %s ; treeSize != %s *)\n", exps[0][0], exps[1][0])
		fmt.Fprintf(&b, "Definition init_block_tree_size (h shh : Z) : Z := %s.\n", exps[0][1])
		fmt.Fprintf(&b, "Definition init_state_tree_size (h shh : Z) : Z := %s.\n\n", exps[1][1])
	}
	fmt.Fprintf(&b, "(* common.UINT256_SIZE (linked value) *)\nDefinition UINT256_SIZE : Z := %d.\n\n", common.UINT256_SIZE)
	if err := CompareHook(repo); err != nil {
		errs = append(errs, "hook copy out of sync: "+err.Error())
		fmt.Fprintf(&b, "(* VerifSubmitBlockStaged differs from submitBlock: %s *)\n\n", strings.ReplaceAll(err.Error(), "*)", "* )"))
	} else {
		fmt.Fprintf(&b, "(* %s: VerifSubmitBlockStaged is submitBlock statement for statement (checked on this run) *)\n\n", hookFile)
	}
	for _, s := range extraSites {
		r := gen.TranslateSite(repo, s)
		fmt.Fprintf(&b, "(* %s : %s, func %s, %s\n   Go: %s *)\n", s.Name, s.File, s.Func, s.Loc, strings.ReplaceAll(r.GoExpr, "*)", "* )"))
		if r.Err != "" {
			errs = append(errs, s.Name+": "+r.Err)
			fmt.Fprintf(&b, "Definition translator_broken_%s : unit := tt. (* %s *)\n\n", s.Name, strings.ReplaceAll(r.Err, "*)", "* )"))
			continue
		}
		params := ""
		for _, v := range s.Vars {
			params += " (" + v + " : Z)"
		}
		fmt.Fprintf(&b, "Definition %s%s : Z := %s.\n\n", s.Name, params, r.Coq)
	}
	return b.Bytes(), errs
}
