// Package c01: crash recovery of the ledger store (property C01).
//
// Implementation side: solo chains of ONT/ONG transfer blocks are built with a snapshot of the data
// directory at every height. For every block and every durably distinct crash point of submitBlock
// (the step order is read from the source, see steps.go) the directory such a crash leaves is
// assembled from the two neighbouring snapshots (each LevelDB store old or new; merkle_tree.db old,
// new, or cut inside the append), reopened with the real ledger, observed, and fed the next blocks.
//
// Oracle (on the implementation only): the reopened ledger is at the old or the new height and its
// observations (state merkle root, block root for a probe leaf, balances, events, merkle proofs
// read from the hash file, whole state store, hash-file prefix) equal those of the uncrashed
// ledger at that height; a block with a wrong block root is turned away like the uncrashed ledger
// did; the next good block is accepted and leads to the uncrashed observations of the next height.
//
// Correspondence: the same scenario is handed to Model/Recovery.v as a Coq case (Corr/C01.v).
package c01

import (
	"bytes"
	"encoding/binary"
	"encoding/json"
	"fmt"
	"os"
	"path/filepath"
	"strings"

	"github.com/ontio/ontology/common"
	scom "github.com/ontio/ontology/core/store/common"
	"github.com/ontio/ontology/core/types"
	"github.com/ontio/ontology/merkle"

	"verif/harness/gen"
	"verif/harness/hx"
	"verif/harness/ledgerkit"
)

func init() {
	gen.RegisterFile("Recover.v", produceRecoverV)
	hx.Register("C01", Run)
}

// emitCases: Coq cases are written only when Gen/Recover.v could be produced completely.
var emitCases = true

var tornOffsets = []int{0, 1, 31, 32, 33, 65, 1 << 20}
var tornOffsetsQuick = []int{1, 32, 33, 1 << 20} // 0 bytes = the crash point before the append

func Run(c *hx.Ctx) {
	c.CoqModule("Corr.C01")
	// The crash scenarios and the oracle do not depend on the translation: when submitBlock or
	// recoverStore can no longer be translated that is reported, the scenarios still run (with the
	// step order of submitBlock alone, or the order this driver was written against), and only the
	// Coq cases, which need Gen/Recover.v, are left out.
	proto, err := ExtractProtocol(c.Repo)
	emitCases = err == nil
	if err != nil {
		c.Note("protocol extraction: " + err.Error())
		c.Fail("translator:recover", "the commit protocol of submitBlock/recoverStore could not be read from the source (Gen/Recover.v incomplete: proofs and Coq cases not checked on this run)", ledgerStoreFile, err.Error(), nil)
		proto = &Protocol{}
		steps, serr := ExtractSubmitSteps(c.Repo)
		if serr != nil || len(steps) == 0 {
			c.Note(fmt.Sprintf("submitBlock steps unreadable (%v): using the default order", serr))
			steps = DefaultSubmitSteps
		}
		proto.Submit = steps
		proto.InitGo, proto.CondGo, proto.PostGo, proto.ArgGo = "?", "?", "?", "?"
	}
	var stepNames []string
	for _, s := range proto.Submit {
		stepNames = append(stepNames, s.String())
	}
	c.Note("submitBlock steps: " + strings.Join(stepNames, " "))
	c.Note(fmt.Sprintf("recoverStore loop: for i := %s; %s; %s { GetBlockHash(%s) }", proto.InitGo, proto.CondGo, proto.PostGo, proto.ArgGo))

	// The staged copy of submitBlock (verif hook) is used only when it is submitBlock statement for
	// statement; otherwise crashed directories are recombined from commit-boundary snapshots.
	hookOK := true
	if herr := CompareHook(c.Repo); herr != nil {
		hookOK = false
		c.Note("hook copy out of sync: " + herr.Error())
		c.Fail("translator:hook", "VerifSubmitBlockStaged (verif_hooks_c01.go) is no longer submitBlock statement for statement; crash points are recombined from snapshots instead of copied between the real calls", hookFile, herr.Error(), nil)
	}
	type job struct {
		name string
		spec chainSpec
		only *crashSpec
	}
	var jobs []job
	var in scenario
	if c.ReplayInput(&in) {
		jobs = append(jobs, job{"replay", in.Chain, &in.Crash})
	} else {
		for n, raw := range c.CorpusInputs() {
			var s scenario
			if json.Unmarshal(raw, &s) == nil && len(s.Chain.Blocks) > 0 {
				cr := s.Crash
				jobs = append(jobs, job{fmt.Sprintf("corpus%d", n), s.Chain, &cr})
			}
		}
		chains := c.N(3, 40)
		for i := 0; i < chains; i++ {
			jobs = append(jobs, job{fmt.Sprintf("chain%d", i), genChain(c, i), nil})
		}
	}
	// all chains are built before the first case is written: their blocks, write sets, initial
	// directory and node-hash table are shared Coq definitions in the header of cases.v
	var built []*builtChain
	var cws []*coqChain
	var defs []string
	tab = &interner{idx: map[[32]byte]int{}}
	for _, j := range jobs {
		bc, err := buildChain(c, j.name, j.spec, proto.Submit, hookOK)
		if err != nil {
			c.Note(j.name + ": chain not built: " + err.Error())
			c.Fail("harness:chain", "the uncrashed solo chain could not be built", j.spec, err.Error(), nil)
			built = append(built, nil)
			cws = append(cws, nil)
			continue
		}
		defer os.RemoveAll(bc.dir)
		for h := 1; h <= bc.top() && hookOK; h++ {
			checkAtomicity(c, bc, proto.Submit, h)
		}
		cw := newCoqChain(c, j.name, bc)
		defs = append(defs, cw.definitions(c))
		// every hash the uncrashed run shows is interned as well
		for h := range bc.dumps {
			cw.dobs(bc.dumps[h])
			lobs(bc.obs[h])
		}
		built = append(built, bc)
		cws = append(cws, cw)
	}
	tab.frozen = true
	c.CoqHeader(tab.definitions())
	for _, d := range defs {
		c.CoqHeader(d)
	}
	for i, j := range jobs {
		if built[i] != nil {
			runSpec(c, proto, built[i], cws[i], j.only)
		}
	}
}

// genChain draws a chain of 3..5 blocks (the last is only used as "next block") of 1..5
// transactions: ONT/ONG transfers that succeed, fail for lack of balance or exceed the supply, and
// transactions that DELETE state keys their own re-execution reads: transfers of a holder's whole
// ONT or ONG balance (the balance key is deleted at zero) and approve followed, in a later block, by
// a transferFrom of exactly the allowance (the allowance key is deleted).
func genChain(c *hx.Ctx, i int) chainSpec {
	spec := chainSpec{Accounts: 3 + c.Intn(2)}
	nb := 3 + c.Intn(c.N(2, 3))
	if i == 0 {
		nb = 4 // sizes 1..5 of the block tree: appends that store 1, 2, 1, 3 hashes
	}
	other := func() int { return 1 + c.Intn(spec.Accounts-1) }
	holders := map[int]bool{}
	type allowance struct {
		tok     string
		spender int
		amount  uint64
	}
	var allow []allowance
	for b := 0; b < nb; b++ {
		var txs []txSpec
		add := func(t txSpec) {
			txs = append(txs, t)
			k := t.Kind
			if k == "" {
				k = "transfer"
			}
			if t.All {
				k += "-all"
			}
			c.Count("tx:" + t.Token + ":" + k)
		}
		if b == 0 {
			to := other()
			add(txSpec{Token: "ont", From: 0, To: to, Amount: uint64(1 + c.Intn(1000))})
			holders[to] = true
			sp := other()
			a := allowance{"ont", sp, uint64(1 + c.Intn(500))}
			add(txSpec{Token: "ont", Kind: "approve", From: 0, To: sp, Amount: a.amount})
			allow = append(allow, a)
		}
		nt := 1 + c.Intn(4)
		pendingNew := []allowance{}
		for t := 0; t < nt; t++ {
			switch c.Intn(10) {
			case 0, 1: // a holder sends everything it has: its balance key is deleted
				for h := range holders {
					add(txSpec{Token: "ont", From: h, To: c.Intn(spec.Accounts), All: true})
					delete(holders, h)
					break
				}
			case 2: // the genesis holder's whole unbound ONG
				add(txSpec{Token: "ong", From: 0, To: other(), All: true})
			case 3, 4: // use an allowance up exactly: the allowance key is deleted
				if len(allow) > 0 {
					a := allow[0]
					allow = allow[1:]
					to := other()
					add(txSpec{Token: a.tok, Kind: "transferFrom", Sender: a.spender, From: 0, To: to, Amount: a.amount})
					if a.tok == "ont" {
						holders[to] = true
					}
				}
			case 5: // a new allowance, usable from the next block on
				sp := other()
				a := allowance{"ont", sp, uint64(1 + c.Intn(500))}
				add(txSpec{Token: "ont", Kind: "approve", From: 0, To: sp, Amount: a.amount})
				pendingNew = append(pendingNew, a)
			case 6: // nobody but account 0 holds ONG: fails inside an otherwise valid block
				add(txSpec{Token: "ong", From: other(), To: 0, Amount: uint64(1 + c.Intn(1000))})
			case 7: // may or may not hold enough
				add(txSpec{Token: "ont", From: other(), To: c.Intn(spec.Accounts), Amount: uint64(1 + c.Intn(1000))})
			case 8: // more than the supply
				add(txSpec{Token: "ont", From: 0, To: other(), Amount: 2000000000})
			default:
				to := other()
				add(txSpec{Token: "ont", From: 0, To: to, Amount: uint64(1 + c.Intn(1000))})
				holders[to] = true
			}
		}
		allow = append(allow, pendingNew...)
		c.Count(fmt.Sprintf("block:txs=%d", len(txs)))
		spec.Blocks = append(spec.Blocks, txs)
	}
	c.Count(fmt.Sprintf("chain:blocks=%d", nb))
	return spec
}

// runSpec runs either the one given crash or all crash points of all blocks of a built chain.
func runSpec(c *hx.Ctx, proto *Protocol, bc *builtChain, cw *coqChain, only *crashSpec) {
	spec := bc.spec
	// the uncrashed run itself: rejected competitor at every height, clean restart at every height
	for h := 1; h <= bc.top(); h++ {
		if bc.badErr[h] != "OErrBlockRoot" {
			c.Fail("uncrashed:bad-block", "a block with a wrong block root was not turned away with a block-root error",
				scenario{Chain: spec, Crash: crashSpec{Block: h, After: "start", Torn: -1}}, bc.badErr[h], "OErrBlockRoot")
		}
	}
	if only != nil {
		p, err := resolve(proto.Submit, *only)
		if err != nil {
			c.Fail("protocol:crash-point", "the recorded crash point does not exist in the current submitBlock", scenario{spec, *only}, err.Error(), nil)
			return
		}
		runCrash(c, bc, cw, only.Block, p)
		return
	}
	to := tornOffsets
	if c.Quick() {
		to = tornOffsetsQuick
	}
	pts, err := crashPoints(proto.Submit, to)
	if err != nil {
		c.Fail("protocol:unsupported-step-order", "submitBlock's step order cannot be reproduced by mixing snapshots of the stores",
			scenario{Chain: spec}, err.Error(), "NewBatch, Save*, then one CommitTo per store")
		return
	}
	for h := 1; h < bc.top(); h++ {
		appendLen := len(bc.dumps[h].File) - len(bc.dumps[h-1].File)
		seenTorn := map[int]bool{}
		for _, p := range pts {
			if p.Torn >= 0 {
				j := p.Torn
				if j > appendLen {
					j = appendLen
				}
				if seenTorn[j] {
					continue
				}
				seenTorn[j] = true
				p.Torn = j
			}
			runCrash(c, bc, cw, h, p)
		}
	}
}

// runCrash: crash at p while block h is committed on top of height h-1.
func runCrash(c *hx.Ctx, bc *builtChain, cw *coqChain, h int, p crashPoint) {
	if h < 1 || h >= bc.top() {
		c.Note(fmt.Sprintf("crash block %d outside the chain (1..%d)", h, bc.top()-1))
		return
	}
	in := scenario{Chain: bc.spec, Crash: crashSpec{Block: h, After: p.After, Torn: p.Torn}}
	c.Eval()
	c.Count("crash:after=" + p.After + map[bool]string{true: "+torn", false: ""}[p.Torn >= 0])
	c.Count(fmt.Sprintf("crash:block=%d", h))
	c.Nontrivial(fmt.Sprintf("%s/%d/%s/%d/%d", filepath.Base(bc.dir), h, p.After, p.Torn, len(bc.blocks[h].Transactions)))
	dir := filepath.Join(bc.dir, "crash")
	if err := assemble(bc, h, p, dir); err != nil {
		c.Fail("harness:assemble", "crashed directory could not be assembled", in, err.Error(), nil)
		return
	}
	defer os.RemoveAll(dir)
	crashed, err := dumpDir(dir)
	if err != nil {
		c.Fail("harness:dump", "crashed directory unreadable", in, err.Error(), nil)
		return
	}
	var reopened *obs
	var after []afterStep
	var k *ledgerkit.Kit
	panicked, msg := hx.Recover(func() { k, err = bc.kit.OpenAt(dir) })
	if panicked {
		err = fmt.Errorf("panic: %s", msg)
	}
	if err != nil {
		c.Fail("recover:reopen-fails", "reopening the data directory left by the crash fails", in, err.Error(), "ledger at height "+fmt.Sprint(h-1)+" or "+fmt.Sprint(h))
		cw.emit(c, in, h, p, crashed, nil, nil, nil)
		return
	}
	o := observe(k, bc.accts)
	reopened = &o
	cur := int(o.Height)
	switch {
	case cur != h-1 && cur != h:
		c.Fail("recover:height", "the reopened ledger is neither at the old nor at the new height", in, o, fmt.Sprintf("height %d or %d", h-1, h))
	default:
		if d := o.diff(bc.obs[cur]); d != "" {
			c.Fail("recover:state-differs", "the reopened ledger differs from the uncrashed ledger at the same height: "+d, in, o, bc.obs[cur])
		}
	}
	c.Count(fmt.Sprintf("reopened:%s", map[bool]string{true: "new-height", false: "old-height"}[cur == h]))
	if cur == h-1 || cur == h {
		// the following blocks: a competitor with a wrong block root, then the real next block
		next := cur + 1
		got := addBlock(k, bc.bad[next], bc.sroots[next])
		ob := observe(k, bc.accts)
		after = append(after, afterStep{bc.bad[next], bc.sroots[next], got, ob})
		if got != bc.badErr[next] {
			c.Fail("recover:next-block-answer", "a following block is answered differently from the uncrashed ledger", in, got, bc.badErr[next])
		} else if d := ob.diff(bc.obs[cur]); d != "" {
			c.Fail("recover:rejected-block-changed-state", "a rejected block changed the reopened ledger: "+d, in, ob, bc.obs[cur])
		}
		got = addBlock(k, bc.blocks[next], bc.sroots[next])
		ob = observe(k, bc.accts)
		after = append(after, afterStep{bc.blocks[next], bc.sroots[next], got, ob})
		if got != "OAccepted" {
			c.Fail("recover:next-block-answer", "the next block, accepted by the uncrashed ledger, is not accepted after recovery", in, got, "OAccepted")
		} else if d := ob.diff(bc.obs[next]); d != "" {
			c.Fail("recover:next-block-state", "after the next block the recovered ledger differs from the uncrashed one: "+d, in, ob, bc.obs[next])
		}
	}
	k.Close()
	final, err := dumpDir(dir)
	if err != nil {
		c.Fail("harness:dump", "directory unreadable after the run", in, err.Error(), nil)
		return
	}
	if len(after) == 2 && after[1].Got == "OAccepted" {
		ref := bc.dumps[cur+1]
		if d := stateEqual(final.State, ref.State); d != "" {
			c.Fail("recover:state-store-differs", "after the next block the state store differs from the uncrashed one: "+d, in, nil, nil)
		}
		n := len(ref.File)
		if len(final.File) < n || !bytes.Equal(final.File[:n], ref.File) {
			c.Fail("recover:hash-file-differs", "after the next block merkle_tree.db differs from the uncrashed file within the committed size", in,
				fmt.Sprintf("len %d", len(final.File)), fmt.Sprintf("len %d", n))
		}
		if final.BlockCur != ref.BlockCur || final.StateCur != ref.StateCur || final.EventCur != ref.EventCur {
			c.Fail("recover:store-heights", "store heights after the next block differ from the uncrashed ones", in,
				[]int64{final.BlockCur, final.EventCur, final.StateCur}, []int64{ref.BlockCur, ref.EventCur, ref.StateCur})
		}
	}
	if len(after) == 2 && (p.Torn < 0 || p.Torn == 33) {
		c.Sample(map[string]interface{}{"crash": in.Crash, "txs_in_block": len(bc.blocks[h].Transactions), "reopened_height": o.Height,
		"state_root": o.StateRoot, "next_answers": []string{after[0].Got, after[1].Got}})
	}
	cw.emit(c, in, h, p, crashed, reopened, after, final)
}

type afterStep struct {
	B     *types.Block
	SRoot common.Uint256
	Got   string
	Obs   obs
}

// ---------- Coq side ----------

type coqChain struct {
	name   string
	bc     *builtChain
	hct    map[string]bool
	hcList []string
}

func cq(h common.Uint256) string { return cb(h[:]) }

// Interned 32-byte strings: hashes occur many times in a case file and literals are what costs
// time in coqc, so every hash is written once in the header (htab) and referred to as (hh i).
type interner struct {
	idx    map[[32]byte]int
	list   [][32]byte
	frozen bool
}

var tab = &interner{idx: map[[32]byte]int{}}

func (t *interner) ref(b []byte) (string, bool) {
	var k [32]byte
	copy(k[:], b)
	i, ok := t.idx[k]
	if !ok {
		if t.frozen {
			return "", false
		}
		i = len(t.list)
		t.idx[k] = i
		t.list = append(t.list, k)
	}
	return fmt.Sprint(i), true
}

func (t *interner) definitions() string {
	var items []string
	for _, h := range t.list {
		items = append(items, hx.CoqBytes(h[:]))
	}
	return "Definition htab : list bytes := " + hx.CoqList(items) + ".\n" +
		"Definition hh (i : N) : bytes := List.nth (N.to_nat i) htab [].\n" +
		"Definition hcat (l : list N) : bytes := List.concat (List.map hh l).\n"
}

// cb prints a byte string: 32-byte aligned parts through the hash table, the rest as a literal.
func cb(b []byte) string {
	if len(b) < 32 {
		return hx.CoqBytes(b)
	}
	var refs []string
	n := 0
	for n+32 <= len(b) {
		r, ok := tab.ref(b[n : n+32])
		if !ok {
			break
		}
		refs = append(refs, r)
		n += 32
	}
	switch {
	case n == 0:
		return hx.CoqBytes(b)
	case n == len(b) && len(refs) == 1:
		return "(hh " + refs[0] + ")"
	case n == len(b):
		return "(hcat " + hx.CoqList(refs) + ")"
	}
	return "(hcat " + hx.CoqList(refs) + " ++ " + hx.CoqBytes(b[n:]) + ")"
}

// recTree mirrors which node hashes the compact merkle tree asks for; the values come from the
// real merkle.HashChildren.
type recTree struct {
	cw     *coqChain
	size   uint32
	hashes []common.Uint256
}

func (cw *coqChain) hc(a, b common.Uint256) common.Uint256 {
	r := merkle.HashChildren(a, b)
	key := string(a[:]) + string(b[:])
	if !cw.hct[key] {
		cw.hct[key] = true
		cw.hcList = append(cw.hcList, fmt.Sprintf("(%s, %s, %s)", cq(a), cq(b), cq(r)))
	}
	return r
}

func (t *recTree) clone() *recTree {
	return &recTree{cw: t.cw, size: t.size, hashes: append([]common.Uint256{}, t.hashes...)}
}

func (t *recTree) append(leaf common.Uint256) {
	n := len(t.hashes)
	for s := t.size; s%2 == 1; s >>= 1 {
		leaf = t.cw.hc(t.hashes[n-1], leaf)
		n--
	}
	t.size++
	t.hashes = append(t.hashes[:n], leaf)
}

func (t *recTree) fold(hs []common.Uint256) {
	if len(hs) == 0 {
		return
	}
	acc := hs[len(hs)-1]
	for i := len(hs) - 2; i >= 0; i-- {
		acc = t.cw.hc(hs[i], acc)
	}
}

func newCoqChain(c *hx.Ctx, name string, bc *builtChain) *coqChain {
	cw := &coqChain{name: name, bc: bc, hct: map[string]bool{}}
	bt := &recTree{cw: cw}
	st := &recTree{cw: cw}
	for h := 0; h <= bc.top(); h++ {
		// what a ledger at height h-1 computes about block h, and what observers ask at height h
		txroot := bc.blocks[h].Header.TransactionsRoot
		var xh common.Uint256
		if h == 0 {
			xh = stateHashAt(bc.dumps[0], 0)
		} else {
			xh = bc.execs[h].Hash
		}
		st.fold(append(append([]common.Uint256{}, st.hashes...), xh))
		bt.append(txroot)
		bt.fold(bt.hashes)
		st.append(xh)
		st.fold(st.hashes)
		p := bt.clone()
		p.append(probeRoot)
		p.fold(p.hashes)
	}
	return cw
}

// stateHashAt reads the write-set hash recorded for a height from a state dump.
func stateHashAt(d *dirDump, h uint32) (r common.Uint256) {
	key := make([]byte, 5)
	key[0] = byte(scom.DATA_STATE_MERKLE_ROOT)
	binary.LittleEndian.PutUint32(key[1:], h)
	for _, p := range d.State {
		if bytes.Equal(p.K, key) && len(p.V) >= 32 {
			copy(r[:], p.V[:32])
		}
	}
	return
}

func hashesOf(b []byte) []string {
	var out []string
	for i := 0; i+32 <= len(b); i += 32 {
		out = append(out, cb(b[i:i+32]))
	}
	return out
}

var bookkeeperKey = append([]byte{byte(scom.ST_BOOKKEEPER)}, []byte("Bookkeeper")...)

// typedKV decodes one raw state-store pair into the model's typed key and value.
func typedKV(k, v []byte) (string, string) {
	switch {
	case len(k) == 1 && k[0] == byte(scom.SYS_CURRENT_BLOCK) && len(v) == 36:
		return "SKCur", fmt.Sprintf("SVCur %s %d", cb(v[:32]), binary.LittleEndian.Uint32(v[32:]))
	case len(k) == 1 && k[0] == byte(scom.SYS_BLOCK_MERKLE_TREE) && len(v) >= 4 && (len(v)-4)%32 == 0:
		return "SKBlockTree", fmt.Sprintf("SVTree %d %s", binary.LittleEndian.Uint32(v[:4]), hx.CoqList(hashesOf(v[4:])))
	case len(k) == 1 && k[0] == byte(scom.SYS_STATE_MERKLE_TREE) && len(v) >= 4 && (len(v)-4)%32 == 0:
		return "SKStateTree", fmt.Sprintf("SVTree %d %s", binary.LittleEndian.Uint32(v[:4]), hx.CoqList(hashesOf(v[4:])))
	case len(k) == 5 && k[0] == byte(scom.DATA_STATE_MERKLE_ROOT) && len(v) == 64:
		return fmt.Sprintf("SKStateRoot %d", binary.LittleEndian.Uint32(k[1:])), fmt.Sprintf("SVRoot %s %s", cb(v[:32]), cb(v[32:]))
	case len(k) == 5 && k[0] == byte(scom.SYS_CURRENT_CROSS_STATES) && len(v)%32 == 0:
		return fmt.Sprintf("SKCross %d", binary.LittleEndian.Uint32(k[1:])), fmt.Sprintf("SVHashes %s", hx.CoqList(hashesOf(v)))
	case bytes.Equal(k, bookkeeperKey):
		return "SKBookkeeper", "SVRaw " + cb(v)
	}
	return "SKRaw " + cb(k), "SVRaw " + cb(v)
}

func isSysKey(k []byte) bool {
	if len(k) == 0 {
		return true
	}
	switch k[0] {
	case byte(scom.SYS_CURRENT_BLOCK), byte(scom.SYS_BLOCK_MERKLE_TREE), byte(scom.SYS_STATE_MERKLE_TREE),
		byte(scom.DATA_STATE_MERKLE_ROOT), byte(scom.SYS_CURRENT_CROSS_STATES):
		return true
	}
	return bytes.Equal(k, bookkeeperKey)
}

func (cw *coqChain) blk(b *types.Block, sroot common.Uint256) string {
	var txs []string
	for _, t := range b.Transactions {
		txs = append(txs, cq(t.Hash()))
	}
	return fmt.Sprintf("(mkBlk %d %s %s %s %s %s %s)", b.Header.Height, cq(b.Hash()), cq(b.Header.PrevBlockHash),
		cq(b.Header.TransactionsRoot), cq(b.Header.BlockRoot), hx.CoqList(txs), cq(sroot))
}

func (cw *coqChain) xres(c *hx.Ctx, h int) string {
	r := cw.bc.execs[h]
	var ws []string
	r.WriteSet.ForEach(func(k, v []byte) {
		if isSysKey(k) {
			c.Fail("assumption:write-set-key", "a block's write set contains a key of the state store's system records", hx.Hex(k), nil, nil)
		}
		ws = append(ws, fmt.Sprintf("(%s, %s)", cb(k), cb(v)))
	})
	var cross, notify []string
	for _, x := range r.CrossStates {
		cross = append(cross, cq(x))
	}
	for _, n := range r.Notify {
		notify = append(notify, fmt.Sprintf("(%s, [])", cq(n.TxHash)))
	}
	return fmt.Sprintf("(mkXres %s %s %s %s)", hx.CoqList(ws), cq(r.Hash), hx.CoqList(cross), hx.CoqList(notify))
}

func (cw *coqChain) disk0() string {
	d := cw.bc.dumps[0]
	g := cw.bc.blocks[0]
	var st []string
	for _, p := range d.State {
		k, v := typedKV(p.K, p.V)
		st = append(st, fmt.Sprintf("(%s, %s)", k, v))
	}
	bs := []string{fmt.Sprintf("(BKVersion, BVVersion %d)", d.Version)}
	if d.BlockCur >= 0 {
		bs = append(bs, fmt.Sprintf("(BKCur, BVCur %s %d)", cb(hx.UnHex(d.HashIndex[d.BlockCur])), d.BlockCur))
		bs = append(bs, fmt.Sprintf("(BKHash 0, BVHash %s)", cb(hx.UnHex(d.HashIndex[0]))))
		bs = append(bs, fmt.Sprintf("(BKBlock %s, BVBlock %s)", cq(g.Hash()), cw.blk(g, common.Uint256{})))
	}
	var es []string
	if d.EventCur >= 0 {
		es = append(es, fmt.Sprintf("(EKCur, EVCur %s %d)", cq(g.Hash()), d.EventCur))
	}
	return fmt.Sprintf("(mkDisk %s %s %s %s)", hx.CoqList(bs), hx.CoqList(es), hx.CoqList(st), cb(d.File))
}

func (cw *coqChain) dobs(d *dirDump) string {
	base := map[string][]byte{}
	for _, p := range cw.bc.dumps[0].State {
		base[string(p.K)] = p.V
	}
	var diff []string
	seen := map[string]bool{}
	for _, p := range d.State {
		seen[string(p.K)] = true
		if v, ok := base[string(p.K)]; !ok || !bytes.Equal(v, p.V) {
			k, tv := typedKV(p.K, p.V)
			diff = append(diff, fmt.Sprintf("(%s, Some (%s))", k, tv))
		}
	}
	for _, p := range cw.bc.dumps[0].State {
		if !seen[string(p.K)] {
			k, _ := typedKV(p.K, p.V)
			diff = append(diff, fmt.Sprintf("(%s, None)", k))
		}
	}
	return fmt.Sprintf("(mkDobs %s %s %s %s %s %s)", hx.CoqZ(d.BlockCur), hx.CoqZ(d.StateCur), hx.CoqZ(d.EventCur),
		cb(d.File), hx.CoqList(diff), hx.CoqNat(len(d.State)))
}

func coqHexHash(s string) string {
	u, err := common.Uint256FromHexString(s)
	if err != nil {
		return "None"
	}
	return "(Some " + cq(u) + ")"
}

func lobs(o obs) string {
	hash, _ := common.Uint256FromHexString(o.Hash)
	return fmt.Sprintf("(mkLobs %d %s %s %s)", o.Height, cq(hash), coqHexHash(o.StateRoot), coqHexHash(o.BlockRoot))
}

// definitions renders the chain's shared Coq definitions (header of cases.v).
func (cw *coqChain) definitions(c *hx.Ctx) string {
	bc := cw.bc
	var b strings.Builder
	n := cw.name
	fmt.Fprintf(&b, "Definition %s_hct : list (bytes * bytes * bytes) := %s.\n", n, hx.CoqList(cw.hcList))
	fmt.Fprintf(&b, "Definition %s_d0 : disk := %s.\n", n, cw.disk0())
	var xtab []string
	for i := 1; i <= bc.top(); i++ {
		fmt.Fprintf(&b, "Definition %s_b%d : blk := %s.\n", n, i, cw.blk(bc.blocks[i], bc.sroots[i]))
		fmt.Fprintf(&b, "Definition %s_bad%d : blk := %s.\n", n, i, cw.blk(bc.bad[i], bc.sroots[i]))
		fmt.Fprintf(&b, "Definition %s_x%d : xres := %s.\n", n, i, cw.xres(c, i))
		// the competitor block carries the same transactions: the implementation computes the same result for it
		xtab = append(xtab, fmt.Sprintf("(b_hash %s_b%d, %s_x%d)", n, i, n, i), fmt.Sprintf("(b_hash %s_bad%d, %s_x%d)", n, i, n, i))
	}
	fmt.Fprintf(&b, "Definition %s_xtab : list (bytes * xres) := %s.\n", n, hx.CoqList(xtab))
	return b.String()
}

func (cw *coqChain) emit(c *hx.Ctx, in scenario, h int, p crashPoint, crashed *dirDump, reopened *obs, after []afterStep, final *dirDump) {
	bc := cw.bc
	n := cw.name
	var prefix []string
	for i := 1; i < h; i++ {
		prefix = append(prefix, fmt.Sprintf("%s_b%d", n, i))
	}
	j := p.Torn
	if j < 0 {
		j = 0
	}
	ro := "None"
	fin := cw.dobs(crashed)
	var aft []string
	if reopened != nil {
		ro = "(Some " + lobs(*reopened) + ")"
		for _, a := range after {
			name := fmt.Sprintf("%s_b%d", n, a.B.Header.Height)
			if a.B == bc.bad[a.B.Header.Height] {
				name = fmt.Sprintf("%s_bad%d", n, a.B.Header.Height)
			}
			aft = append(aft, fmt.Sprintf("(%s, %s, %s)", name, a.Got, lobs(a.Obs)))
		}
		if final != nil {
			fin = cw.dobs(final)
		}
	}
	empty := merkle.TreeHasher{}.HashFullTreeWithLeafHash(nil)
	term := fmt.Sprintf("CScen %s_hct %s %d %s %s_d0 %s_xtab %s %s %s_b%d %s %s %s %s %s %s",
		n, cq(empty), ledgerkit.StateHashHeight, cq(probeRoot), n, n, hx.CoqList(prefix), lobs(bc.obs[h-1]),
		n, h, hx.CoqNat(p.C), hx.CoqNat(j), cw.dobs(crashed), ro, hx.CoqList(aft), fin)
	if emitCases {
		c.Case(term, in)
	}
}
