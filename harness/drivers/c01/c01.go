// Package c01: crash recovery of the ledger store.
package c01

import (
	"verif/harness/gen"
	"verif/harness/hx"
)

func init() {
	gen.RegisterFile("Recover.v", produceRecoverV)
	hx.Register("C01", Run)
}

func Run(c *hx.Ctx) {
	c.CoqModule("Corr.C01")
}
