package c01

// Chains, snapshots of the data directory, crashed directories and observations.

import (
	"bytes"
	"encoding/binary"
	"fmt"
	"os"
	"path/filepath"
	"sort"
	"strings"
	"time"

	"github.com/ontio/ontology/account"
	"github.com/ontio/ontology/common"
	"github.com/ontio/ontology/core/store"
	scom "github.com/ontio/ontology/core/store/common"
	"github.com/ontio/ontology/core/store/ledgerstore"
	"github.com/ontio/ontology/core/store/leveldbstore"
	"github.com/ontio/ontology/core/types"
	"github.com/ontio/ontology/smartcontract/service/native/ont"

	"verif/harness/hx"
	"verif/harness/ledgerkit"
)

// ---------- replayable input ----------

type txSpec struct {
	Token  string `json:"token"`          // "ont" | "ong"
	Kind   string `json:"kind,omitempty"` // "" = transfer | "approve" | "transferFrom"
	From   int    `json:"from"`           // account index; 0 = the genesis holder
	To     int    `json:"to"`
	Sender int    `json:"sender,omitempty"` // transferFrom: the spender
	Amount uint64 `json:"amount"`
	All    bool   `json:"all,omitempty"` // transfer: the sender's whole balance as it stands before the block (the balance key is deleted)
}

type chainSpec struct {
	Accounts int        `json:"accounts"`
	Blocks   [][]txSpec `json:"blocks"` // block h = Blocks[h-1]; the last one is only ever used as "next block"
}

// crashSpec names a crash point independently of the step numbering of the source:
// After = last step completed among "start", "saveblock", "savestate", "saveevent", "commit:block",
// "commit:event", "commit:state"; Torn >= 0: the crash hits inside the hash-file append of saveBlockToStateStore
// after Torn bytes (After is then the durable step completed before it).
type crashSpec struct {
	Block int    `json:"block"` // height of the block being committed
	After string `json:"after"`
	Torn  int    `json:"torn"`
}

type scenario struct {
	Chain chainSpec `json:"chain"`
	Crash crashSpec `json:"crash"`
}

// ---------- observations ----------

// obs is what the property speaks about, read through the ledger API of an open ledger.
type obs struct {
	Height     uint32   `json:"height"`
	Hash       string   `json:"hash"`
	StateRoot  string   `json:"state_root"`
	BlockRoot  string   `json:"block_root_with_probe"`
	Balances   []string `json:"balances"` // ont/ong storage items of every account
	Events     int      `json:"events_at_height"`
	Proofs     string   `json:"merkle_proofs"`
	HeaderHash string   `json:"header_hash_at_height"`
}

var probeRoot = common.Uint256{0xC0, 0x01, 0xC0, 0x01}

func observe(k *ledgerkit.Kit, accts []*account.Account) obs {
	l := k.Ledger
	h := l.GetCurrentBlockHeight()
	o := obs{Height: h, Hash: l.GetCurrentBlockHash().ToHexString()}
	if r, err := l.GetStateMerkleRoot(h); err != nil {
		o.StateRoot = "error: " + err.Error()
	} else {
		o.StateRoot = r.ToHexString()
	}
	o.BlockRoot = l.GetBlockRootWithNewTxRoots(h+1, []common.Uint256{probeRoot}).ToHexString()
	for _, a := range accts {
		for _, c := range []common.Address{ledgerkit.OntAddr, ledgerkit.OngAddr} {
			v, err := l.GetStorageItem(c, a.Address[:])
			if err != nil {
				o.Balances = append(o.Balances, "-")
			} else {
				o.Balances = append(o.Balances, hx.Hex(v))
			}
		}
	}
	if ev, err := l.GetEventNotifyByBlock(h); err == nil {
		o.Events = len(ev)
	} else {
		o.Events = -1
	}
	var ps []string
	for _, ph := range []uint32{0, h / 2, h} {
		p, err := l.GetMerkleProof(ph, h)
		if err != nil {
			ps = append(ps, "error")
			continue
		}
		var s []string
		for _, x := range p {
			s = append(s, x.ToHexString()[:16])
		}
		ps = append(ps, strings.Join(s, ","))
	}
	o.Proofs = strings.Join(ps, "|")
	o.HeaderHash = l.GetBlockHash(h).ToHexString()
	return o
}

func (a obs) diff(b obs) string {
	var d []string
	if a.Height != b.Height {
		d = append(d, fmt.Sprintf("height %d vs %d", a.Height, b.Height))
	}
	if a.Hash != b.Hash {
		d = append(d, "current block hash")
	}
	if a.StateRoot != b.StateRoot {
		d = append(d, fmt.Sprintf("state merkle root %s vs %s", a.StateRoot, b.StateRoot))
	}
	if a.BlockRoot != b.BlockRoot {
		d = append(d, fmt.Sprintf("block root (GetBlockRootWithNewTxRoots) %s vs %s", a.BlockRoot, b.BlockRoot))
	}
	if strings.Join(a.Balances, ",") != strings.Join(b.Balances, ",") {
		d = append(d, fmt.Sprintf("balances %v vs %v", a.Balances, b.Balances))
	}
	if a.Events != b.Events {
		d = append(d, fmt.Sprintf("event notifies of the block %d vs %d", a.Events, b.Events))
	}
	if a.Proofs != b.Proofs {
		d = append(d, "merkle proofs read from the hash file")
	}
	if a.HeaderHash != b.HeaderHash {
		d = append(d, "block hash index at the height")
	}
	return strings.Join(d, "; ")
}

// ---------- raw view of a closed data directory ----------

type kvPair struct{ K, V []byte }

type dirDump struct {
	Block     []kvPair // whole block LevelDB
	Event     []kvPair // whole event LevelDB
	State     []kvPair // whole state LevelDB, key order
	File      []byte   // merkle_tree.db
	BlockCur  int64    // block store current height (-1: none)
	BlockHash string
	StateCur  int64
	EventCur  int64
	Version   int
	HashIndex []string // block hash by height 0..BlockCur
}

func rawDump(path string) ([]kvPair, error) {
	st, err := leveldbstore.NewLevelDBStore(path)
	if err != nil {
		return nil, err
	}
	var out []kvPair
	it := st.NewIterator(nil)
	for ok := it.First(); ok; ok = it.Next() {
		out = append(out, kvPair{append([]byte{}, it.Key()...), append([]byte{}, it.Value()...)})
	}
	it.Release()
	st.Close()
	return out, nil
}

func dumpDir(dir string) (*dirDump, error) { return dumpDirRaw(dir, false) }

// dumpDirRaw: with raw, the block and event LevelDBs are dumped whole as well (atomicity oracle).
func dumpDirRaw(dir string, raw bool) (*dirDump, error) {
	d := &dirDump{BlockCur: -1, StateCur: -1, EventCur: -1}
	var err error
	if d.State, err = rawDump(filepath.Join(dir, ledgerstore.DBDirState)); err != nil {
		return nil, fmt.Errorf("open state db: %v", err)
	}
	if raw {
		if d.Block, err = rawDump(filepath.Join(dir, ledgerstore.DBDirBlock)); err != nil {
			return nil, fmt.Errorf("open block db: %v", err)
		}
		if d.Event, err = rawDump(filepath.Join(dir, ledgerstore.DBDirEvent)); err != nil {
			return nil, fmt.Errorf("open event db: %v", err)
		}
	}
	for _, p := range d.State {
		if len(p.K) == 1 && p.K[0] == byte(scom.SYS_CURRENT_BLOCK) && len(p.V) == 36 {
			d.StateCur = int64(binary.LittleEndian.Uint32(p.V[32:]))
		}
	}
	d.File, _ = os.ReadFile(filepath.Join(dir, ledgerstore.MerkleTreeStorePath))
	bs, err := ledgerstore.NewBlockStore(filepath.Join(dir, ledgerstore.DBDirBlock), false)
	if err != nil {
		return nil, fmt.Errorf("open block db: %v", err)
	}
	if v, err := bs.GetVersion(); err == nil {
		d.Version = int(v)
	}
	if hash, h, err := bs.GetCurrentBlock(); err == nil {
		d.BlockCur = int64(h)
		d.BlockHash = hash.ToHexString()
		for i := uint32(0); i <= h; i++ {
			bh, err := bs.GetBlockHash(i)
			if err != nil {
				d.HashIndex = append(d.HashIndex, "")
			} else {
				d.HashIndex = append(d.HashIndex, hx.Hex(bh[:]))
			}
		}
	}
	bs.Close()
	es, err := ledgerstore.NewEventStore(filepath.Join(dir, ledgerstore.DBDirEvent))
	if err != nil {
		return nil, fmt.Errorf("open event db: %v", err)
	}
	if _, h, err := es.GetCurrentBlock(); err == nil {
		d.EventCur = int64(h)
	}
	es.Close()
	return d, nil
}

func stateEqual(a, b []kvPair) string {
	if len(a) != len(b) {
		return fmt.Sprintf("%d keys vs %d keys", len(a), len(b))
	}
	for i := range a {
		if !bytes.Equal(a[i].K, b[i].K) {
			return fmt.Sprintf("key %x vs %x", a[i].K, b[i].K)
		}
		if !bytes.Equal(a[i].V, b[i].V) {
			return fmt.Sprintf("value of key %x", a[i].K)
		}
	}
	return ""
}

// ---------- a chain with a snapshot of the data directory at every height ----------

type builtChain struct {
	spec   chainSpec
	dir    string
	kit    *ledgerkit.Kit
	accts  []*account.Account
	blocks []*types.Block        // by height; [0] = genesis
	sroots []common.Uint256      // state merkle root handed to AddBlock, by height
	execs  []store.ExecuteResult // by height (index 0 unused)
	bad    []*types.Block        // by height h >= 1: a block for height h with a wrong block root
	badErr []string              // how the uncrashed ledger at height h-1 answered bad[h]
	snaps  []string              // closed copy of the data directory at height h
	stages [][]stageCopy         // by height h >= 1: live copies of the directory taken between the steps of submitBlock
	hookOK bool                  // the staged copy of submitBlock is in sync with the source and was used
	dumps  []*dirDump
	obs    []obs
}

// stageCopy is the data directory as it was on disk when the commit of a block had completed C
// steps (copied while the ledger was open, between the real calls).
type stageCopy struct {
	Name string // start | saveblock | savestate | saveevent | commit:<store>
	C    int
	Dir  string
	Dump *dirDump
}

func (bc *builtChain) top() int { return len(bc.blocks) - 1 }

func (bc *builtChain) stageFor(h, c int) *stageCopy {
	if h >= len(bc.stages) {
		return nil
	}
	var best *stageCopy
	for i := range bc.stages[h] {
		if sc := &bc.stages[h][i]; sc.C <= c && (best == nil || sc.C > best.C) {
			best = sc
		}
	}
	return best
}

func classifyErr(err error, accepted bool) string {
	if err == nil {
		if accepted {
			return "OAccepted"
		}
		return "OIgnored"
	}
	s := err.Error()
	switch {
	case strings.Contains(s, "wrong block root"):
		return "OErrBlockRoot"
	case strings.Contains(s, "state merkle root mismatch"):
		return "OErrStateRoot"
	case strings.Contains(s, "verifyHeader error"):
		return "OErrHeader"
	case strings.Contains(s, "not equal next block height"):
		return "OErrHeight"
	}
	return "OErrExec"
}

// addBlock adds b with the given state root and classifies the answer.
func addBlock(k *ledgerkit.Kit, b *types.Block, sroot common.Uint256) string {
	before := k.Ledger.GetCurrentBlockHeight()
	err := k.Ledger.AddBlock(b, nil, sroot)
	return classifyErr(err, k.Ledger.GetCurrentBlockHeight() == before+1)
}

func buildChain(c *hx.Ctx, name string, spec chainSpec, steps []Step, hookOK bool) (*builtChain, error) {
	bc := &builtChain{spec: spec, dir: filepath.Join(c.OutDir, name), hookOK: hookOK}
	bc.stages = [][]stageCopy{nil}
	live := filepath.Join(bc.dir, "live")
	k, err := ledgerkit.New(live)
	if err != nil {
		return nil, err
	}
	bc.kit = k
	bc.accts = []*account.Account{k.Acct}
	for i := 1; i < spec.Accounts; i++ {
		bc.accts = append(bc.accts, account.NewAccount(""))
	}
	bc.blocks = []*types.Block{k.Genesis}
	bc.sroots = []common.Uint256{{}}
	bc.execs = []store.ExecuteResult{{}}
	bc.bad = []*types.Block{nil}
	bc.badErr = []string{""}
	snap := func(h int) error {
		bc.obs = append(bc.obs, observe(k, bc.accts))
		k.Close()
		dst := filepath.Join(bc.dir, fmt.Sprintf("snap%d", h))
		if err := ledgerkit.CopyDir(live, dst); err != nil {
			return err
		}
		d, err := dumpDir(dst)
		if err != nil {
			return err
		}
		bc.snaps = append(bc.snaps, dst)
		bc.dumps = append(bc.dumps, d)
		return k.Open()
	}
	if err := snap(0); err != nil {
		return nil, err
	}
	for h := 1; h <= len(spec.Blocks); h++ {
		var txs []*types.Transaction
		for _, t := range spec.Blocks[h-1] {
			tx, err := buildTx(k, bc.accts, t)
			if err != nil {
				return nil, err
			}
			txs = append(txs, tx)
		}
		// a competing block for this height whose block root is wrong (must be turned away)
		bad, err := k.MakeBlock(txs)
		if err != nil {
			return nil, err
		}
		bad.Header.BlockRoot[0] ^= 0x5a
		k.SignBlock(bad)
		b, err := k.MakeBlock(txs)
		if err != nil {
			return nil, err
		}
		res, err := k.Ledger.ExecuteBlock(b)
		c.Eval()
		if err != nil {
			return nil, fmt.Errorf("ExecuteBlock height %d: %v", h, err)
		}
		bc.bad = append(bc.bad, bad)
		bc.badErr = append(bc.badErr, addBlock(k, bad, res.MerkleRoot))
		var stages []stageCopy
		if hookOK {
			// the real commit sequence, with the data directory copied between its calls
			var cbErr error
			cb := func(stage string) {
				sc := stageCopy{Name: stage, C: stageIndex(steps, stage), Dir: filepath.Join(bc.dir, fmt.Sprintf("stage%d_%d", h, len(stages)))}
				if sc.C < 0 {
					cbErr = fmt.Errorf("stage %q is not a step of submitBlock", stage)
					return
				}
				if err := copyLive(live, sc.Dir); err != nil {
					cbErr = err
					return
				}
				stages = append(stages, sc)
			}
			if err := k.Store().VerifSubmitBlockStaged(b, nil, res, cb); err != nil {
				return nil, fmt.Errorf("block %d not accepted by the uncrashed ledger: %v", h, err)
			}
			if cbErr != nil {
				return nil, cbErr
			}
			for i := range stages {
				d, err := dumpDirRaw(stages[i].Dir, true)
				if err != nil {
					return nil, err
				}
				stages[i].Dump = d
			}
		} else if got := addBlock(k, b, res.MerkleRoot); got != "OAccepted" {
			return nil, fmt.Errorf("block %d not accepted by the uncrashed ledger: %s", h, got)
		}
		bc.stages = append(bc.stages, stages)
		for i, n := range res.Notify {
			kind := "transfer"
			if i < len(spec.Blocks[h-1]) && spec.Blocks[h-1][i].Kind != "" {
				kind = spec.Blocks[h-1][i].Kind
			}
			c.Count(fmt.Sprintf("tx:%s:state=%d", kind, n.State))
		}
		dels := 0
		res.WriteSet.ForEach(func(key, val []byte) {
			if len(val) == 0 {
				dels++
			}
		})
		if dels > 0 {
			c.Count("block:deletes-keys")
		}
		bc.blocks = append(bc.blocks, b)
		bc.sroots = append(bc.sroots, res.MerkleRoot)
		bc.execs = append(bc.execs, res)
		if err := snap(h); err != nil {
			return nil, err
		}
	}
	k.Close()
	return bc, nil
}

// listing of a directory tree (names and sizes), to detect a copy that raced with LevelDB's
// background compaction.
func listing(dir string) string {
	var b strings.Builder
	filepath.Walk(dir, func(p string, info os.FileInfo, err error) error {
		if err == nil && !info.IsDir() {
			fmt.Fprintf(&b, "%s:%d;", p, info.Size())
		}
		return nil
	})
	return b.String()
}

// copyLive copies the data directory of an OPEN ledger between two steps of submitBlock. No write
// of the ledger itself is in flight at that moment, but LevelDB may be compacting in the
// background (files appear and vanish): the copy is repeated until the directory listing is the
// same before and after it.
func copyLive(src, dst string) error {
	var err error
	for try := 0; try < 40; try++ {
		before := listing(src)
		os.RemoveAll(dst)
		err = ledgerkit.CopyDir(src, dst)
		if err == nil && listing(src) == before {
			return nil
		}
		if err == nil {
			err = fmt.Errorf("directory kept changing while it was copied")
		}
		time.Sleep(25 * time.Millisecond)
	}
	return err
}

// stageIndex: number of completed steps when the callback named stage fires.
func stageIndex(steps []Step, stage string) int {
	if stage == "start" {
		return 0
	}
	for i, s := range steps {
		if s.String() == stage {
			return i + 1
		}
	}
	return -1
}

type xferFrom struct {
	Sender common.Address
	From   common.Address
	To     common.Address
	Value  uint64
}

func balanceOf(k *ledgerkit.Kit, tok, a common.Address) uint64 {
	v, err := k.Ledger.GetStorageItem(tok, a[:])
	if err != nil || len(v) == 0 {
		return 0
	}
	if len(v) <= 8 {
		var b [8]byte
		copy(b[:], v)
		return binary.LittleEndian.Uint64(b[:])
	}
	return common.BigIntFromNeoBytes(v).Uint64()
}

func buildTx(k *ledgerkit.Kit, accts []*account.Account, t txSpec) (*types.Transaction, error) {
	tok := ledgerkit.OntAddr
	if t.Token == "ong" {
		tok = ledgerkit.OngAddr
	}
	from := accts[t.From%len(accts)]
	to := accts[t.To%len(accts)]
	switch t.Kind {
	case "approve":
		mtx, err := k.NativeTx(tok, 0, 0, 20000, "approve", []interface{}{&ont.TransferState{From: from.Address, To: to.Address, Value: t.Amount}})
		if err != nil {
			return nil, err
		}
		if err := ledgerkit.Sign(mtx, from); err != nil {
			return nil, err
		}
		return mtx.IntoImmutable()
	case "transferFrom":
		sender := accts[t.Sender%len(accts)]
		mtx, err := k.NativeTx(tok, 0, 0, 20000, "transferFrom", []interface{}{&xferFrom{sender.Address, from.Address, to.Address, t.Amount}})
		if err != nil {
			return nil, err
		}
		if err := ledgerkit.Sign(mtx, sender); err != nil {
			return nil, err
		}
		return mtx.IntoImmutable()
	}
	amount := t.Amount
	if t.All {
		amount = balanceOf(k, tok, from.Address)
	}
	return k.TransferTx(tok, from, to.Address, amount, 0, 20000)
}

// ---------- crash points of submitBlock, as the source orders its steps ----------

type crashPoint struct {
	C     int    // completed steps
	Torn  int    // >= 0: bytes of the hash-file append written (the step at index C is SaveState)
	After string // last durable step completed
	// what is on disk
	NewBlock, NewEvent, NewState bool
	File                         string // "old" | "torn" | "new"
}

func (p crashPoint) sig() string {
	return fmt.Sprintf("%s/%v%v%v%s%d", p.After, p.NewBlock, p.NewEvent, p.NewState, p.File, p.Torn)
}

// simulate returns what is durable after the first c steps, or an error when the step order is
// one this driver cannot reproduce by mixing the stores of two snapshots.
func simulate(steps []Step, c int) (crashPoint, error) {
	p := crashPoint{C: c, Torn: -1, After: "start", File: "old"}
	open := map[string]bool{}
	content := map[string]string{} // what the open batch of a store holds
	full := map[string]string{"block": "B", "state": "S", "event": "NE"}
	for i := 0; i < c && i < len(steps); i++ {
		s := steps[i]
		switch s.Kind {
		case "NewBatch":
			open[s.Store] = true
			content[s.Store] = ""
		case "SaveBlock":
			if !open["block"] {
				return p, fmt.Errorf("SaveBlock without an open block batch")
			}
			content["block"] += "B"
			p.After = "saveblock"
		case "SaveState":
			if !open["state"] || !open["event"] {
				return p, fmt.Errorf("SaveState without open state and event batches")
			}
			if p.File != "old" {
				return p, fmt.Errorf("SaveState twice")
			}
			content["state"] += "S"
			content["event"] += "N"
			p.File = "new"
			p.After = "savestate"
		case "SaveEvent":
			if !open["event"] {
				return p, fmt.Errorf("SaveEvent without an open event batch")
			}
			content["event"] += "E"
			p.After = "saveevent"
		case "Commit":
			if open[s.Store] && content[s.Store] != "" {
				if content[s.Store] != full[s.Store] {
					return p, fmt.Errorf("%s store committed with a partial batch (%s)", s.Store, content[s.Store])
				}
				switch s.Store {
				case "block":
					if p.NewBlock {
						return p, fmt.Errorf("block store committed twice")
					}
					p.NewBlock = true
				case "event":
					if p.NewEvent {
						return p, fmt.Errorf("event store committed twice")
					}
					p.NewEvent = true
				case "state":
					if p.NewState {
						return p, fmt.Errorf("state store committed twice")
					}
					p.NewState = true
				}
				p.After = "commit:" + s.Store
			}
			open[s.Store] = false
			content[s.Store] = ""
		case "Exec", "SetCurrent":
		default:
			return p, fmt.Errorf("unknown step %s", s.Kind)
		}
	}
	return p, nil
}

// crashPoints enumerates the durably distinct crash points, with the given torn offsets inside
// the hash-file append.
func crashPoints(steps []Step, torn []int) ([]crashPoint, error) {
	var out []crashPoint
	seen := map[string]bool{}
	for c := 0; c <= len(steps); c++ {
		p, err := simulate(steps, c)
		if err != nil {
			return nil, err
		}
		if c < len(steps) && steps[c].Kind == "SaveState" {
			for _, j := range torn {
				q := p
				q.Torn = j
				q.File = "torn"
				if !seen[q.sig()] {
					seen[q.sig()] = true
					out = append(out, q)
				}
			}
		}
		if !seen[p.sig()] {
			seen[p.sig()] = true
			out = append(out, p)
		}
	}
	full, err := simulate(steps, len(steps))
	if err != nil {
		return nil, err
	}
	if !(full.NewBlock && full.NewEvent && full.NewState && full.File == "new") {
		return nil, fmt.Errorf("the steps of submitBlock do not commit all three stores and the hash file")
	}
	return out, nil
}

// resolve finds the crash point named by a crashSpec in the current step list.
func resolve(steps []Step, cs crashSpec) (crashPoint, error) {
	for c := 0; c <= len(steps); c++ {
		p, err := simulate(steps, c)
		if err != nil {
			return p, err
		}
		if p.After != cs.After {
			continue
		}
		if cs.Torn >= 0 {
			// the crash is inside the next SaveState
			for d := c; d < len(steps); d++ {
				q, err := simulate(steps, d)
				if err != nil {
					return q, err
				}
				if q.After != cs.After {
					break
				}
				if steps[d].Kind == "SaveState" {
					q.Torn = cs.Torn
					q.File = "torn"
					return q, nil
				}
			}
			return p, fmt.Errorf("no hash-file append follows %q in submitBlock", cs.After)
		}
		return p, nil
	}
	return crashPoint{}, fmt.Errorf("submitBlock has no durable step %q", cs.After)
}

// assemble builds the data directory a crash at p leaves while block h is committed on top of
// snapshot h-1: every store and the hash file come from the old or the new snapshot.
func assemble(bc *builtChain, h int, p crashPoint, dst string) error {
	if sc := bc.stageFor(h, p.C); bc.hookOK && sc != nil {
		// faithful: the directory as copied between the real calls at that very point
		if err := os.RemoveAll(dst); err != nil {
			return err
		}
		if err := ledgerkit.CopyDir(sc.Dir, dst); err != nil {
			return err
		}
		if p.Torn < 0 {
			return nil
		}
		oldF := sc.Dump.File
		var newF []byte
		for _, x := range bc.stages[h] {
			if x.Name == "savestate" {
				newF = x.Dump.File
			}
		}
		if len(newF) < len(oldF) || !bytes.Equal(newF[:len(oldF)], oldF) {
			return fmt.Errorf("hash file after saveBlockToStateStore of block %d does not extend the one before it", h)
		}
		j := p.Torn
		if j > len(newF)-len(oldF) {
			j = len(newF) - len(oldF)
		}
		f := append(append([]byte{}, oldF...), newF[len(oldF):len(oldF)+j]...)
		return os.WriteFile(filepath.Join(dst, ledgerstore.MerkleTreeStorePath), f, 0o644)
	}
	oldD, newD := bc.snaps[h-1], bc.snaps[h]
	pick := func(isNew bool) string {
		if isNew {
			return newD
		}
		return oldD
	}
	if err := os.RemoveAll(dst); err != nil {
		return err
	}
	if err := os.MkdirAll(dst, 0o755); err != nil {
		return err
	}
	ents, err := os.ReadDir(oldD)
	if err != nil {
		return err
	}
	for _, e := range ents {
		src := oldD
		switch e.Name() {
		case ledgerstore.DBDirBlock:
			src = pick(p.NewBlock)
		case ledgerstore.DBDirEvent:
			src = pick(p.NewEvent)
		case ledgerstore.DBDirState:
			src = pick(p.NewState)
		case ledgerstore.MerkleTreeStorePath:
			continue
		}
		if e.IsDir() {
			if err := ledgerkit.CopyDir(filepath.Join(src, e.Name()), filepath.Join(dst, e.Name())); err != nil {
				return err
			}
		} else {
			b, err := os.ReadFile(filepath.Join(src, e.Name()))
			if err != nil {
				return err
			}
			if err := os.WriteFile(filepath.Join(dst, e.Name()), b, 0o644); err != nil {
				return err
			}
		}
	}
	oldF, newF := bc.dumps[h-1].File, bc.dumps[h].File
	var f []byte
	switch p.File {
	case "old":
		f = oldF
	case "new":
		f = newF
	default:
		if len(newF) < len(oldF) || !bytes.Equal(newF[:len(oldF)], oldF) {
			return fmt.Errorf("hash file of height %d is not an extension of that of height %d", h, h-1)
		}
		j := p.Torn
		if j > len(newF)-len(oldF) {
			j = len(newF) - len(oldF)
		}
		f = append(append([]byte{}, oldF...), newF[len(oldF):len(oldF)+j]...)
	}
	return os.WriteFile(filepath.Join(dst, ledgerstore.MerkleTreeStorePath), f, 0o644)
}

// checkAtomicity ties the model's hypothesis "a store changes only at its CommitTo, and then by
// the whole batch" to the implementation: every store of every stage copy of block h must equal
// that store before the block (copy "start") until its commit step has run, and its final content
// (last copy) afterwards; likewise the hash file w.r.t. saveBlockToStateStore.
func checkAtomicity(c *hx.Ctx, bc *builtChain, steps []Step, h int) {
	st := bc.stages[h]
	if len(st) < 2 {
		return
	}
	first, last := st[0].Dump, st[len(st)-1].Dump
	for _, sc := range st {
		exp, err := simulate(steps, sc.C)
		if err != nil {
			return
		}
		in := scenario{Chain: bc.spec, Crash: crashSpec{Block: h, After: sc.Name, Torn: -1}}
		chk := func(store string, isNew bool, got, a, b []kvPair) {
			want, what := a, "its content before the block (nothing of this store has been committed yet)"
			if isNew {
				want, what = b, "its content after the block (its batch has been committed)"
			}
			if d := stateEqual(got, want); d != "" {
				c.Fail("atomicity:write-before-commit", fmt.Sprintf("after step %q of submitBlock the %s store on disk differs from %s: %s — a write reached LevelDB outside the store's atomic batch commit", sc.Name, store, what, d),
					in, nil, nil)
			}
		}
		chk("block", exp.NewBlock, sc.Dump.Block, first.Block, last.Block)
		chk("event", exp.NewEvent, sc.Dump.Event, first.Event, last.Event)
		chk("state", exp.NewState, sc.Dump.State, first.State, last.State)
		wantF := first.File
		if exp.File == "new" {
			wantF = last.File
		}
		if !bytes.Equal(sc.Dump.File, wantF) {
			c.Fail("atomicity:hash-file", fmt.Sprintf("after step %q the hash file is neither the old nor the fully appended one as the step order predicts", sc.Name), in, len(sc.Dump.File), len(wantF))
		}
	}
}

func sortedKeys(m map[string]int) []string {
	var ks []string
	for k := range m {
		ks = append(ks, k)
	}
	sort.Strings(ks)
	return ks
}
