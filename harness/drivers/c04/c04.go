// Package c04: layered contract storage (CacheDB over OverlayDB over LevelDB) behaves like one
// ordered key/value map.
//
// Implementation under test: smartcontract/storage.CacheDB, core/store/overlaydb.{OverlayDB,MemDB,
// JoinIter}, core/store/leveldbstore.LevelDBStore on goleveldb's in-memory storage.
//
// Generator: random histories of put/delete/get/iterate/commit/reset on the transaction cache,
// get/iterate/put/delete/commit/reset on the block overlay, over a pre-populated store; keys are
// short strings over a seven-letter alphabet (0x00 0x01 'a' 'b' 0xfe 0xff and the ST_STORAGE byte) so
// that they share prefixes, collide across layers and hit the 0xff carry of util.BytesPrefix;
// iterations are also run with CacheDB writes between Next calls (the pattern of
// CleanContractStorageData / MigrateContractStorage).
//
// Oracle (directly on the implementation, no model): three plain Go maps (store, overlay writes,
// cache writes; a nil entry is a delete) resolved cache -> overlay -> store; every Get must return
// the most recent write, every iterator exactly the live keys with the prefix in ascending order,
// Commit/Reset/CommitTo must publish/discard exactly the pending writes.
// Correspondence: every history with all its observations is re-run on Model/KV.v inside Coq.
package c04

import (
	"bytes"
	"encoding/json"
	"fmt"
	"sort"

	scommon "github.com/ontio/ontology/core/store/common"
	"github.com/ontio/ontology/core/store/leveldbstore"
	"github.com/ontio/ontology/core/store/overlaydb"
	"github.com/ontio/ontology/smartcontract/storage"

	"verif/harness/gen"
	"verif/harness/hx"
)

func init() {
	gen.RegisterFile("KVConsts.v", func(repo string) ([]byte, []string) {
		cs := []gen.Const{
			{Name: "ST_STORAGE", Type: "N", Value: fmt.Sprintf("%d%%N", byte(scommon.ST_STORAGE)), Comment: "core/store/common.ST_STORAGE (CacheDB.Put/Get/Delete/NewIterator key prefix)"},
			{Name: "ST_CONTRACT", Type: "N", Value: fmt.Sprintf("%d%%N", byte(scommon.ST_CONTRACT)), Comment: "core/store/common.ST_CONTRACT"},
			{Name: "ST_DESTROYED", Type: "N", Value: fmt.Sprintf("%d%%N", byte(scommon.ST_DESTROYED)), Comment: "core/store/common.ST_DESTROYED"},
			{Name: "FROM_MEM", Type: "N", Value: fmt.Sprintf("%d%%N", byte(overlaydb.FromMem)), Comment: "overlaydb.FromMem"},
			{Name: "FROM_BACK", Type: "N", Value: fmt.Sprintf("%d%%N", byte(overlaydb.FromBack)), Comment: "overlaydb.FromBack"},
			{Name: "FROM_BOTH", Type: "N", Value: fmt.Sprintf("%d%%N", byte(overlaydb.FromBoth)), Comment: "overlaydb.FromBoth"},
		}
		return gen.EmitConsts("", cs), nil
	})
	hx.Register("C04", Run)
}

// ---------- history description (replayable) ----------

type Wr struct {
	Del bool   `json:"del,omitempty"`
	K   string `json:"k"`
	V   string `json:"v,omitempty"`
}

type Op struct {
	Op    string `json:"op"`
	K     string `json:"k,omitempty"` // hex
	V     string `json:"v,omitempty"`
	Steps [][]Wr `json:"steps,omitempty"`
	Exact bool   `json:"exact,omitempty"` // live iteration whose writes all lie behind the cursor or outside the prefix
}

type History struct {
	Store [][2]string `json:"store"`
	Ops   []Op        `json:"ops"`
}

type kvp struct{ k, v []byte }

// ---------- reference: plain maps ----------

type ref struct {
	store   map[string][]byte
	overlay map[string][]byte // nil or empty value = delete
	cache   map[string][]byte
}

func newRef() *ref {
	return &ref{store: map[string][]byte{}, overlay: map[string][]byte{}, cache: map[string][]byte{}}
}

func (r *ref) blockGet(k string) []byte {
	if v, ok := r.overlay[k]; ok {
		return v
	}
	return r.store[k]
}

func (r *ref) curGet(k string) []byte {
	if v, ok := r.cache[k]; ok {
		return v
	}
	return r.blockGet(k)
}

func (r *ref) list(prefix []byte, cur bool) []kvp {
	keys := map[string]struct{}{}
	for k := range r.store {
		keys[k] = struct{}{}
	}
	for k := range r.overlay {
		keys[k] = struct{}{}
	}
	if cur {
		for k := range r.cache {
			keys[k] = struct{}{}
		}
	}
	var out []kvp
	for k := range keys {
		if !bytes.HasPrefix([]byte(k), prefix) {
			continue
		}
		var v []byte
		if cur {
			v = r.curGet(k)
		} else {
			v = r.blockGet(k)
		}
		if len(v) == 0 {
			continue
		}
		out = append(out, kvp{[]byte(k), v})
	}
	sort.Slice(out, func(i, j int) bool { return bytes.Compare(out[i].k, out[j].k) < 0 })
	return out
}

// ---------- implementation run ----------

type failure struct {
	class, clause string
	at            int
	got, want     interface{}
}

var stPrefix = byte(scommon.ST_STORAGE)

func pk(k []byte) []byte { return append([]byte{stPrefix}, k...) }

func cp(b []byte) []byte { return append([]byte{}, b...) }

func kvsJSON(l []kvp) [][2]string {
	out := make([][2]string, 0, len(l))
	for _, e := range l {
		out = append(out, [2]string{hx.Hex(e.k), hx.Hex(e.v)})
	}
	return out
}

func kvsEqual(a, b []kvp) bool {
	if len(a) != len(b) {
		return false
	}
	for i := range a {
		if !bytes.Equal(a[i].k, b[i].k) || !bytes.Equal(a[i].v, b[i].v) {
			return false
		}
	}
	return true
}

func coqKvs(l []kvp) string {
	s := make([]string, 0, len(l))
	for _, e := range l {
		s = append(s, fmt.Sprintf("(%s, %s)", hx.CoqBytes(e.k), hx.CoqBytes(e.v)))
	}
	return hx.CoqList(s)
}

func drainIter(it scommon.StoreIterator) []kvp {
	var out []kvp
	for has := it.First(); has; has = it.Next() {
		out = append(out, kvp{cp(it.Key()), cp(it.Value())})
		if len(out) > 10000 {
			break
		}
	}
	it.Release()
	return out
}

// runHistory executes the history on a fresh stack; returns the Coq ops (with the observed
// results), the oracle failures, and feature counters.
func runHistory(h0 *History, count func(string)) (h *History, coqOps []string, fails []failure, panicMsg string) {
	h = cloneHistory(h0)
	ldb := leveldbstore.NewMemLevelDBStore()
	defer ldb.Close()
	r := newRef()
	for _, e := range h.Store {
		k, v := hx.UnHex(e[0]), hx.UnHex(e[1])
		if err := ldb.Put(k, v); err != nil {
			panic(err)
		}
		r.store[string(k)] = v
	}
	overlay := overlaydb.NewOverlayDB(ldb)
	cache := storage.NewCacheDB(overlay)
	fail := func(i int, class, clause string, got, want interface{}) {
		fails = append(fails, failure{class, clause, i, got, want})
	}
	checkList := func(i int, what string, got, want []kvp) {
		if kvsEqual(got, want) {
			return
		}
		class := "iter:" + what
		// narrow the class
		asc := true
		for j := 1; j < len(got); j++ {
			if bytes.Compare(got[j-1].k, got[j].k) >= 0 {
				asc = false
			}
		}
		switch {
		case !asc:
			class += ":not-ascending"
		case len(got) < len(want):
			class += ":missing-key"
		case len(got) > len(want):
			class += ":dead-or-foreign-key"
		default:
			class += ":wrong-entry"
		}
		fail(i, class, "prefix iterator must return exactly the live keys with the prefix, ascending, with their latest values",
			kvsJSON(got), kvsJSON(want))
	}
	p, msg := hx.Recover(func() {
		for i, o := range h.Ops {
			k, v := hx.UnHex(o.K), hx.UnHex(o.V)
			switch o.Op {
			case "put":
				cache.Put(k, v)
				r.cache[string(pk(k))] = v
				coqOps = append(coqOps, fmt.Sprintf("OPut %s %s", hx.CoqBytes(k), hx.CoqBytes(v)))
			case "del":
				cache.Delete(k)
				r.cache[string(pk(k))] = nil
				coqOps = append(coqOps, fmt.Sprintf("ODel %s", hx.CoqBytes(k)))
			case "get":
				got, err := cache.Get(k)
				if err != nil {
					fail(i, "get:error", "CacheDB.Get returned an error on an in-memory store", err.Error(), nil)
				}
				want := r.curGet(string(pk(k)))
				if !bytes.Equal(got, want) {
					cl := "get:stale-value"
					if len(want) == 0 {
						cl = "get:deleted-key-visible"
					} else if len(got) == 0 {
						cl = "get:live-key-missing"
					}
					fail(i, cl, "CacheDB.Get must return the most recent write (absent after delete)", hx.Hex(got), hx.Hex(want))
				}
				if count != nil {
					if _, ok := r.cache[string(pk(k))]; ok {
						count("get:answered-by:cache")
					} else if _, ok := r.overlay[string(pk(k))]; ok {
						count("get:answered-by:overlay")
					} else if _, ok := r.store[string(pk(k))]; ok {
						count("get:answered-by:store")
					} else {
						count("get:answered-by:nobody")
					}
				}
				coqOps = append(coqOps, fmt.Sprintf("OGet %s %s", hx.CoqBytes(k), hx.CoqBytes(got)))
			case "iter":
				raw := drainIter(cache.NewIterator(k))
				want := stripped(r.list(pk(k), true))
				checkList(i, "cache", raw, want)
				if count != nil {
					iterFeatures(r, pk(k), true, count)
				}
				coqOps = append(coqOps, fmt.Sprintf("OIter %s %s", hx.CoqBytes(k), coqKvs(raw)))
			case "live":
				snapshot := stripped(r.list(pk(k), true))
				it := cache.NewIterator(k)
				var out []kvp
				step := 0
				for has := it.First(); has; {
					out = append(out, kvp{cp(it.Key()), cp(it.Value())})
					if step >= len(o.Steps) || len(out) > 10000 {
						break
					}
					for j := range o.Steps[step] {
						w := &h.Ops[i].Steps[step][j]
						wk := hx.UnHex(w.K)
						if o.Exact && bytes.HasPrefix(wk, k) && bytes.Compare(wk, out[len(out)-1].k) > 0 {
							wk = cp(out[len(out)-1].k)
							w.K = hx.Hex(wk)
						}
						if w.Del {
							cache.Delete(wk)
							r.cache[string(pk(wk))] = nil
						} else {
							wv := hx.UnHex(w.V)
							cache.Put(wk, wv)
							r.cache[string(pk(wk))] = wv
						}
					}
					step++
					has = it.Next()
				}
				it.Release()
				// oracle: always ascending, prefixed, non-empty values
				for j := range out {
					if !bytes.HasPrefix(out[j].k, k) || len(out[j].v) == 0 || (j > 0 && bytes.Compare(out[j-1].k, out[j].k) >= 0) {
						fail(i, "live-iter:order-or-prefix", "an iterator interleaved with writes still yields ascending keys with the prefix and non-empty values", kvsJSON(out), nil)
						break
					}
				}
				if o.Exact {
					// writes were all behind the cursor / outside the prefix: the outputs are the
					// first len(out) entries of the listing taken at First
					want := snapshot
					if len(want) > len(out) && step >= len(o.Steps) {
						want = want[:len(out)]
					}
					if !kvsEqual(out, want) {
						fail(i, "live-iter:behind-writes-changed-output", "writes at or behind the iterator position must not change what it yields afterwards", kvsJSON(out), kvsJSON(want))
					}
				}
				if count != nil {
					count(fmt.Sprintf("live:exact=%v", o.Exact))
				}
				var st []string
				for _, ws := range o.Steps {
					var s []string
					for _, w := range ws {
						if w.Del {
							s = append(s, fmt.Sprintf("WDel %s", hx.CoqBytes(hx.UnHex(w.K))))
						} else {
							s = append(s, fmt.Sprintf("WPut %s %s", hx.CoqBytes(hx.UnHex(w.K)), hx.CoqBytes(hx.UnHex(w.V))))
						}
					}
					st = append(st, hx.CoqList(s))
				}
				coqOps = append(coqOps, fmt.Sprintf("OLive %s %s %s", hx.CoqBytes(k), hx.CoqList(st), coqKvs(out)))
			case "commit":
				cache.Commit()
				for ck, cv := range r.cache {
					r.overlay[ck] = cv
				}
				r.cache = map[string][]byte{}
				coqOps = append(coqOps, "OCommit")
			case "reset":
				cache.Reset()
				r.cache = map[string][]byte{}
				coqOps = append(coqOps, "OReset")
			case "ovput":
				overlay.Put(k, v)
				r.overlay[string(k)] = v
				coqOps = append(coqOps, fmt.Sprintf("OvPut %s %s", hx.CoqBytes(k), hx.CoqBytes(v)))
			case "ovdel":
				overlay.Delete(k)
				r.overlay[string(k)] = nil
				coqOps = append(coqOps, fmt.Sprintf("OvDel %s", hx.CoqBytes(k)))
			case "ovget":
				got, err := overlay.Get(k)
				if err != nil {
					fail(i, "get:error", "OverlayDB.Get returned an error on an in-memory store", err.Error(), nil)
				}
				want := r.blockGet(string(k))
				if !bytes.Equal(got, want) {
					cl := "ovget:stale-value"
					if len(want) == 0 {
						cl = "ovget:deleted-key-visible"
					} else if len(got) == 0 {
						cl = "ovget:live-key-missing"
					}
					fail(i, cl, "OverlayDB.Get must return the most recent committed write (absent after delete)", hx.Hex(got), hx.Hex(want))
				}
				coqOps = append(coqOps, fmt.Sprintf("OvGet %s %s", hx.CoqBytes(k), hx.CoqBytes(got)))
			case "oviter":
				raw := drainIter(overlay.NewIterator(k))
				want := r.list(k, false)
				checkList(i, "overlay", raw, want)
				if count != nil {
					iterFeatures(r, k, false, count)
				}
				coqOps = append(coqOps, fmt.Sprintf("OvIter %s %s", hx.CoqBytes(k), coqKvs(raw)))
			case "ovcommit":
				ldb.NewBatch()
				overlay.CommitTo()
				if err := ldb.BatchCommit(); err != nil {
					panic(err)
				}
				for ok, ov := range r.overlay {
					if len(ov) == 0 {
						delete(r.store, ok)
					} else {
						r.store[ok] = ov
					}
				}
				coqOps = append(coqOps, "OvCommit")
			case "ovreset":
				overlay.Reset()
				r.overlay = map[string][]byte{}
				coqOps = append(coqOps, "OvReset")
			default:
				panic("bad op " + o.Op)
			}
		}
		// end-of-history audit: every key ever mentioned resolves identically on all three views
		n := len(h.Ops)
		for key := range allKeys(r) {
			kb := []byte(key)
			if got, _ := overlay.Get(kb); !bytes.Equal(got, r.blockGet(key)) {
				fail(n, "audit:overlay-get", "OverlayDB.Get differs from the reference map at the end of the history", map[string]string{"key": hx.Hex(kb), "got": hx.Hex(got)}, hx.Hex(r.blockGet(key)))
			}
			if len(kb) > 0 && kb[0] == stPrefix {
				if got, _ := cache.Get(kb[1:]); !bytes.Equal(got, r.curGet(key)) {
					fail(n, "audit:cache-get", "CacheDB.Get differs from the reference map at the end of the history", map[string]string{"key": hx.Hex(kb), "got": hx.Hex(got)}, hx.Hex(r.curGet(key)))
				}
			}
			sv, err := ldb.Get(kb)
			if err != nil {
				sv = nil
			}
			if !bytes.Equal(sv, r.store[key]) {
				fail(n, "audit:store", "persistent store differs from the reference map at the end of the history (commit must publish exactly the pending writes)", map[string]string{"key": hx.Hex(kb), "got": hx.Hex(sv)}, hx.Hex(r.store[key]))
			}
		}
		checkList(n, "audit-cache", drainIter(cache.NewIterator(nil)), stripped(r.list([]byte{stPrefix}, true)))
		checkList(n, "audit-overlay", drainIter(overlay.NewIterator(nil)), r.list(nil, false))
	})
	if p {
		panicMsg = msg
		if panicMsg == "" {
			panicMsg = "panic"
		}
	}
	return
}

func cloneHistory(h *History) *History {
	b, _ := json.Marshal(h)
	var c History
	if err := json.Unmarshal(b, &c); err != nil {
		panic(err)
	}
	return &c
}

func allKeys(r *ref) map[string]struct{} {
	keys := map[string]struct{}{}
	for k := range r.store {
		keys[k] = struct{}{}
	}
	for k := range r.overlay {
		keys[k] = struct{}{}
	}
	for k := range r.cache {
		keys[k] = struct{}{}
	}
	return keys
}

func stripped(l []kvp) []kvp {
	out := make([]kvp, 0, len(l))
	for _, e := range l {
		out = append(out, kvp{e.k[1:], e.v})
	}
	return out
}

// iterFeatures counts which JoinIter situations a (complete) iteration with this prefix meets.
func iterFeatures(r *ref, prefix []byte, cur bool, count func(string)) {
	in := func(m map[string][]byte) (n, tomb int) {
		for k, v := range m {
			if bytes.HasPrefix([]byte(k), prefix) {
				n++
				if len(v) == 0 {
					tomb++
				}
			}
		}
		return
	}
	lvl := "overlay"
	top := r.overlay
	if cur {
		lvl = "cache"
		top = r.cache
	}
	nTop, tombTop := in(top)
	var nBack int
	if cur {
		nBack = len(r.list(prefix, false))
	} else {
		nBack, _ = in(r.store)
	}
	both := 0
	for k := range top {
		if !bytes.HasPrefix([]byte(k), prefix) {
			continue
		}
		var bv []byte
		if cur {
			bv = r.blockGet(k)
		} else {
			bv = r.store[k]
		}
		if len(bv) != 0 {
			both++
		}
	}
	switch {
	case nTop == 0 && nBack == 0:
		count("iter:" + lvl + ":both-sides-empty")
	case nTop == 0:
		count("iter:" + lvl + ":mem-side-empty")
	case nBack == 0:
		count("iter:" + lvl + ":back-side-empty")
	default:
		count("iter:" + lvl + ":both-sides-nonempty")
	}
	if tombTop > 0 {
		count("iter:" + lvl + ":tombstone-in-range")
	}
	if both > 0 {
		count("iter:" + lvl + ":key-on-both-sides")
	}
}

// ---------- generator ----------

var alphabet = []byte{0x00, 0x01, 'a', 'b', 0xfe, 0xff, 0x05}

type gen_ struct {
	c    *hx.Ctx
	pool [][]byte // unprefixed CacheDB keys seen so far
}

func (g *gen_) freshKey() []byte {
	n := g.c.Intn(4)
	if g.c.Intn(12) == 0 {
		n = 4 + g.c.Intn(2)
	}
	k := make([]byte, n)
	for i := range k {
		k[i] = alphabet[g.c.Intn(len(alphabet))]
	}
	return k
}

func (g *gen_) key() []byte {
	if len(g.pool) > 0 && g.c.Intn(10) < 6 {
		return cp(g.pool[g.c.Intn(len(g.pool))])
	}
	if len(g.pool) > 0 && g.c.Intn(3) == 0 {
		// extend or truncate a known key: shares a prefix with it
		k := cp(g.pool[g.c.Intn(len(g.pool))])
		if len(k) > 0 && g.c.Intn(2) == 0 {
			k = k[:g.c.Intn(len(k))]
		} else {
			k = append(k, alphabet[g.c.Intn(len(alphabet))])
		}
		g.pool = append(g.pool, k)
		return cp(k)
	}
	k := g.freshKey()
	g.pool = append(g.pool, k)
	return cp(k)
}

func (g *gen_) prefix() []byte {
	switch g.c.Intn(10) {
	case 0:
		return []byte{}
	case 1:
		return g.freshKey()
	default:
		if len(g.pool) == 0 {
			return []byte{}
		}
		k := g.pool[g.c.Intn(len(g.pool))]
		return cp(k[:g.c.Intn(len(k)+1)])
	}
}

func (g *gen_) value() []byte {
	if g.c.Intn(25) == 0 {
		return []byte{} // Put with an empty value is a delete
	}
	n := 1 + g.c.Intn(3)
	v := make([]byte, n)
	for i := range v {
		v[i] = byte(g.c.Intn(256))
	}
	return v
}

// rawKey: a key as the overlay/store sees it: mostly under the ST_STORAGE prefix, sometimes under the
// neighbouring prefixes (the byte after ST_STORAGE is exactly the limit of CacheDB's widest range).
func (g *gen_) rawKey() []byte {
	switch g.c.Intn(10) {
	case 0:
		return append([]byte{stPrefix - 1}, g.key()...)
	case 1:
		return append([]byte{stPrefix + 1}, g.key()...)
	case 2:
		k := g.key()
		if len(k) == 0 {
			return []byte{0xff}
		}
		return k
	default:
		return pk(g.key())
	}
}

func (g *gen_) history() *History {
	c := g.c
	h := &History{}
	g.pool = nil
	nStore := c.Intn(10)
	if c.Intn(6) == 0 {
		nStore = 0
	}
	seen := map[string]bool{}
	for i := 0; i < nStore; i++ {
		k := g.rawKey()
		if seen[string(k)] {
			continue
		}
		seen[string(k)] = true
		v := g.value()
		if len(v) == 0 && c.Intn(3) != 0 {
			v = []byte{1}
		}
		h.Store = append(h.Store, [2]string{hx.Hex(k), hx.Hex(v)})
	}
	nOps := 4 + c.Intn(28)
	for i := 0; i < nOps; i++ {
		x := c.Intn(100)
		switch {
		case x < 24:
			h.Ops = append(h.Ops, Op{Op: "put", K: hx.Hex(g.key()), V: hx.Hex(g.value())})
		case x < 36:
			h.Ops = append(h.Ops, Op{Op: "del", K: hx.Hex(g.key())})
		case x < 50:
			h.Ops = append(h.Ops, Op{Op: "get", K: hx.Hex(g.key())})
		case x < 62:
			h.Ops = append(h.Ops, Op{Op: "iter", K: hx.Hex(g.prefix())})
		case x < 68:
			h.Ops = append(h.Ops, g.liveOp())
		case x < 76:
			h.Ops = append(h.Ops, Op{Op: "commit"})
		case x < 80:
			h.Ops = append(h.Ops, Op{Op: "reset"})
		case x < 84:
			h.Ops = append(h.Ops, Op{Op: "ovput", K: hx.Hex(g.rawKey()), V: hx.Hex(g.value())})
		case x < 86:
			h.Ops = append(h.Ops, Op{Op: "ovdel", K: hx.Hex(g.rawKey())})
		case x < 90:
			h.Ops = append(h.Ops, Op{Op: "ovget", K: hx.Hex(g.rawKey())})
		case x < 95:
			p := g.prefix()
			if c.Intn(4) != 0 {
				p = pk(p)
			}
			h.Ops = append(h.Ops, Op{Op: "oviter", K: hx.Hex(p)})
		case x < 98:
			h.Ops = append(h.Ops, Op{Op: "ovcommit"})
		default:
			h.Ops = append(h.Ops, Op{Op: "ovreset"})
		}
	}
	return h
}

// liveOp: an iteration with writes between the Next calls. In exact mode runHistory moves every
// write that would land ahead of the iterator (inside its prefix) onto the iterator's current key,
// so that all writes lie at or behind the cursor or outside the prefix.
func (g *gen_) liveOp() Op {
	c := g.c
	o := Op{Op: "live", K: hx.Hex(g.prefix())}
	o.Exact = c.Intn(2) == 0
	n := 1 + c.Intn(5)
	for i := 0; i < n; i++ {
		var ws []Wr
		m := c.Intn(3)
		for j := 0; j < m; j++ {
			if c.Intn(3) == 0 {
				ws = append(ws, Wr{Del: true, K: hx.Hex(g.key())})
			} else {
				ws = append(ws, Wr{K: hx.Hex(g.key()), V: hx.Hex(g.value())})
			}
		}
		o.Steps = append(o.Steps, ws)
	}
	return o
}

// ---------- driver ----------

func opKinds(h *History, c *hx.Ctx) {
	for _, o := range h.Ops {
		c.Count("op:" + o.Op)
	}
	c.Count(fmt.Sprintf("history:ops<=%d", bucket(len(h.Ops))))
	c.Count(fmt.Sprintf("history:store<=%d", bucket(len(h.Store))))
}

func bucket(n int) int {
	for _, b := range []int{0, 2, 4, 8, 16, 32} {
		if n <= b {
			return b
		}
	}
	return 64
}

// shrink removes ops / store entries while the same failure class is still reported.
func shrink(h *History, class string) *History {
	has := func(x *History) bool {
		_, _, fs, pm := runHistory(x, nil)
		if class == "panic" {
			return pm != ""
		}
		for _, f := range fs {
			if f.class == class {
				return true
			}
		}
		return false
	}
	cur := *h
	for changed := true; changed; {
		changed = false
		for i := len(cur.Ops) - 1; i >= 0; i-- {
			t := cur
			t.Ops = append(append([]Op{}, cur.Ops[:i]...), cur.Ops[i+1:]...)
			if has(&t) {
				cur = t
				changed = true
			}
		}
		for i := len(cur.Store) - 1; i >= 0; i-- {
			t := cur
			t.Store = append(append([][2]string{}, cur.Store[:i]...), cur.Store[i+1:]...)
			if has(&t) {
				cur = t
				changed = true
			}
		}
	}
	return &cur
}

// classes already minimized in this run (shrinking re-runs the history many times)
var shrunk = map[string]int{}

func doHistory(c *hx.Ctx, h *History, kind string) {
	c.Eval()
	h, ops, fails, pm := runHistory(h, func(k string) { c.Count(k) })
	if pm != "" {
		m := h
		if shrunk["panic"] < 3 {
			shrunk["panic"]++
			m = shrink(h, "panic")
		}
		c.Fail("panic", "storage operations must not panic", m, pm, "no panic")
		return
	}
	seen := map[string]bool{}
	for _, f := range fails {
		if seen[f.class] {
			continue
		}
		seen[f.class] = true
		m := shrink(h, f.class)
		m, _, fs2, _ := runHistory(m, nil)
		got, want := f.got, f.want
		for _, g := range fs2 {
			if g.class == f.class {
				got, want = map[string]interface{}{"at_op": g.at, "observed": g.got}, g.want
				break
			}
		}
		c.Fail(f.class, f.clause, m, got, want)
	}
	opKinds(h, c)
	c.Count("history:" + kind)
	if len(h.Ops) > 1 {
		b, _ := json.Marshal(h)
		c.Nontrivial(string(b))
	}
	c.Sample(map[string]interface{}{"kind": kind, "history": h})
	var st []string
	for _, e := range h.Store {
		st = append(st, fmt.Sprintf("(%s, %s)", hx.CoqBytes(hx.UnHex(e[0])), hx.CoqBytes(hx.UnHex(e[1]))))
	}
	c.Case(fmt.Sprintf("CHist %s %s", hx.CoqList(st), hx.CoqList(ops)), h)
}

// scripted: the JoinIter corner cases spelled out (each side exhausted first, deleted keys on
// either side, keys on both sides, 0xff prefixes), run on every seed.
func scripted() []*History {
	x := func(s string) string { return hx.Hex([]byte(s)) }
	P := func(s string) string { return hx.Hex(pk([]byte(s))) }
	return []*History{
		// backend only / mem only / both empty
		{Store: [][2]string{{P("a"), x("1")}, {P("b"), x("2")}}, Ops: []Op{{Op: "iter", K: x("")}, {Op: "oviter", K: P("")}, {Op: "iter", K: x("c")}}},
		{Ops: []Op{{Op: "put", K: x("a"), V: x("1")}, {Op: "iter", K: x("")}, {Op: "commit"}, {Op: "iter", K: x("")}, {Op: "oviter", K: ""}, {Op: "ovcommit"}, {Op: "iter", K: x("a")}}},
		// key on both sides, mem wins; tombstone hides backend key; tombstone first and last
		{Store: [][2]string{{P("a"), x("old")}, {P("b"), x("old")}, {P("c"), x("old")}},
			Ops: []Op{{Op: "put", K: x("b"), V: x("new")}, {Op: "iter", K: x("")}, {Op: "del", K: x("a")}, {Op: "iter", K: x("")}, {Op: "del", K: x("c")}, {Op: "iter", K: x("")},
				{Op: "get", K: x("a")}, {Op: "get", K: x("b")}, {Op: "commit"}, {Op: "iter", K: x("")}, {Op: "oviter", K: P("")}, {Op: "del", K: x("b")}, {Op: "iter", K: x("")}, {Op: "reset"}, {Op: "iter", K: x("")},
				{Op: "ovcommit"}, {Op: "iter", K: x("")}, {Op: "ovreset"}, {Op: "iter", K: x("")}}},
		// all entries deleted: First must skip to the end
		{Store: [][2]string{{P("a"), x("1")}, {P("b"), x("2")}}, Ops: []Op{{Op: "del", K: x("a")}, {Op: "del", K: x("b")}, {Op: "iter", K: x("")}, {Op: "get", K: x("a")}, {Op: "commit"}, {Op: "iter", K: x("")}, {Op: "ovget", K: P("a")}}},
		// mem exhausted first, then backend continues; backend exhausted first, mem continues
		{Store: [][2]string{{P("c"), x("1")}, {P("d"), x("2")}}, Ops: []Op{{Op: "put", K: x("a"), V: x("m")}, {Op: "iter", K: x("")}, {Op: "put", K: x("e"), V: x("m")}, {Op: "put", K: x("f"), V: x("m")}, {Op: "iter", K: x("")}}},
		// 0xff carry in the range limit, neighbours just outside the range
		{Store: [][2]string{{P("a\xff"), x("1")}, {P("a\xff\xff"), x("2")}, {P("b"), x("3")}, {P("a\xfe\xff"), x("4")}, {hx.Hex([]byte{stPrefix + 1}), x("5")}, {hx.Hex([]byte{stPrefix + 1, 0}), x("6")}},
			Ops: []Op{{Op: "iter", K: x("a\xff")}, {Op: "iter", K: x("a")}, {Op: "iter", K: x("")}, {Op: "put", K: x("a\xff\x00"), V: x("7")}, {Op: "iter", K: x("a\xff")}, {Op: "iter", K: x("a\xff\xff")}, {Op: "oviter", K: hx.Hex([]byte{0xff})}, {Op: "oviter", K: ""}}},
		// delete-while-iterating (CleanContractStorageData) and migrate pattern
		{Store: [][2]string{{P("ka"), x("1")}, {P("kb"), x("2")}, {P("kc"), x("3")}},
			Ops: []Op{{Op: "put", K: x("kd"), V: x("4")}, {Op: "live", K: x("k"), Exact: true, Steps: [][]Wr{{{Del: true, K: x("ka")}}, {{Del: true, K: x("kb")}}, {{Del: true, K: x("kc")}}, {{Del: true, K: x("kd")}}}},
				{Op: "iter", K: x("k")}, {Op: "reset"},
				{Op: "live", K: x("k"), Exact: true, Steps: [][]Wr{{{K: x("na"), V: x("1")}, {Del: true, K: x("ka")}}, {{K: x("nb"), V: x("2")}, {Del: true, K: x("kb")}}, {{K: x("nc"), V: x("3")}, {Del: true, K: x("kc")}}}},
				{Op: "iter", K: x("")}}},
		// writes ahead of the cursor: seen or missed depending on where the mem iterator already is
		{Store: [][2]string{{P("a"), x("1")}, {P("c"), x("3")}, {P("e"), x("5")}},
			Ops: []Op{{Op: "put", K: x("d"), V: x("4")}, {Op: "live", K: x(""), Steps: [][]Wr{{{K: x("b"), V: x("2")}}, {{K: x("d"), V: x("9")}, {K: x("f"), V: x("6")}}, {}, {}, {}, {}}}, {Op: "iter", K: x("")}}},
	}
}

func Run(c *hx.Ctx) {
	c.CoqModule("Corr.C04")
	var in History
	if c.ReplayInput(&in) {
		doHistory(c, &in, "replay")
		return
	}
	for _, raw := range c.CorpusInputs() {
		var h History
		if json.Unmarshal(raw, &h) == nil {
			doHistory(c, &h, "corpus")
		}
	}
	for _, h := range scripted() {
		doHistory(c, h, "scripted")
	}
	g := &gen_{c: c}
	n := c.N(1000, 12000)
	for i := 0; i < n; i++ {
		doHistory(c, g.history(), "random")
	}
}
