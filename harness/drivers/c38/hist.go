package c38

import (
	"encoding/json"
	"fmt"
	"os"
	"path/filepath"
	"sort"
	"strings"

	"github.com/ontio/ontology-crypto/keypair"
	"github.com/ontio/ontology/account"

	"verif/harness/hx"
)

// opGen produces the next operation of a history from the current state of the run (nil = stop).
type opGen func(r *runner, i int) *opRec

// runHist executes one history (h.Ops, or the operations g produces one by one, which are then
// recorded in h.Ops so that the history replays exactly), emits the correspondence case and
// applies the oracle. With h.Multi several wallets are open in one process ("open" operations,
// every operation names its wallet) and the oracle also looks at EVERY open wallet after EVERY step.
func runHist(c *hx.Ctx, h hist, seq int, g opGen) {
	c.Eval()
	dir := filepath.Join(c.OutDir, "wallets")
	os.MkdirAll(dir, 0o755)
	r := &runner{c: c, base: filepath.Join(dir, fmt.Sprintf("w%d", seq)), bySer: map[string]int{}, multi: h.Multi}
	for _, o := range h.Ops {
		if o.Kind == "block" {
			r.sf = true
		}
	}
	r.sf = r.sf || h.SaveFail
	defer func() {
		for _, w := range r.ws {
			os.Remove(w.path + "~")
			os.Remove(w.path)
		}
	}()
	r.openWallet(prm(h.Prm))
	for i, kt := range h.KeyTyp {
		t := keyTypes[kt%len(keyTypes)]
		pri, _, err := keypair.GenerateKeyPair(t.t, t.curve)
		if err != nil {
			panic(err)
		}
		k := mkKey(i+1, pri)
		r.keys = append(r.keys, k)
		r.bySer[k.ser] = k.id
	}
	nDriverKeys := len(r.keys)
	stepFailed := false
	do := func(o opRec) {
		h.Ops = append(h.Ops, o)
		r.h = h
		r.step(o)
		if h.Multi && r.stepOracle(h) {
			stepFailed = true
		}
	}
	panicked, msg := hx.Recover(func() {
		fixed := h.Ops
		h.Ops = nil
		for _, o := range fixed {
			do(o)
		}
		for i := 0; g != nil; i++ {
			o := g(r, i)
			if o == nil {
				break
			}
			do(*o)
		}
	})
	r.h = h
	for _, w := range r.ws { // saves are unblocked before the final observation
		os.Remove(w.path + "~")
	}
	r.blocked = false
	if panicked {
		c.Fail("panic", "a wallet operation panicked", h, msg, "error value")
		return
	}
	// probe sets
	r.pwds = []string{""}
	r.labels = []string{"", "nolabel"}
	for _, o := range h.Ops {
		for _, p := range []string{o.Pwd, o.New} {
			if p != "" {
				r.pwds = addUniq(r.pwds, p)
			}
		}
		if o.Kind == "new" || o.Kind == "import" || o.Kind == "setlabel" {
			r.labels = addUniq(r.labels, o.Label)
			if o.Kind == "import" {
				r.labels = addUniq(r.labels, o.Label+"_1")
			}
		}
	}
	r.pwds = addUniq(r.pwds, "not-a-password")
	r.olabels = r.labels
	if h.MaxPwd > 0 { // slow key derivation: fewer probes
		if len(r.pwds) > h.MaxPwd {
			r.pwds = r.pwds[:h.MaxPwd]
		}
		r.olabels = nil
	}
	var addrs []string
	for _, k := range r.keys {
		addrs = addUniq(addrs, k.addr)
	}
	addrs = append(addrs, unknownAddr)

	// every open wallet: the client as it is, a client freshly opened on its file, the file itself
	var wobs []string
	var single []string
	accountsAtEnd := 0
	var listedAll []string
	for wi := range r.ws {
		r.use(wi)
		pre := r.observe(r.cli, addrs)
		cli2, err := account.NewClientImpl(r.path)
		if err != nil {
			c.Fail("reload:open-fails", "the wallet file written by the history cannot be opened", h, err.Error(), nil)
			return
		}
		post := r.observe(cli2, addrs)
		if len(r.unexpected) > 0 {
			c.Fail("unexpected-error", "an operation returned an error the model has no constructor for (file system?)", h, r.unexpected, nil)
			return
		}
		filePrm, fileMetas := r.readFile()
		want := r.finalOracle(h, wi, pre, post, cli2, stepFailed)
		var tr []string
		for _, a := range want {
			t := r.track[a]
			tr = append(tr, fmt.Sprintf("(%s, (%d, %s))", r.q(a), t.key, r.q(t.pwd)))
		}
		wobs = append(wobs, fmt.Sprintf("WO %s %s %s\n   %s\n   %s\n   %s %s", hx.CoqList(tr), hx.CoqNat(pre.n), hx.CoqNat(post.n), pre.coq, post.coq, filePrm, fileMetas))
		single = []string{hx.CoqList(tr), hx.CoqNat(pre.n), hx.CoqNat(post.n), pre.coq, post.coq, filePrm, fileMetas}
		accountsAtEnd += post.n
		listedAll = append(listedAll, post.listed...)
	}

	// ---- correspondence case ----
	qs := func(l []string) string {
		var o []string
		for _, x := range l {
			o = append(o, r.q(x))
		}
		return hx.CoqList(o)
	}
	var term string
	if r.sf && !h.Multi {
		term = fmt.Sprintf("CHistF %s\n  %s\n  %s\n  %s %s\n  %s %s %s %s\n  %s %s\n  %s\n  %s\n  %s %s",
			coqScrypt(prm(h.Prm)), hx.CoqList(r.coqOps), hx.CoqList(r.coqRes), single[0], hx.CoqBool(!r.callerBad),
			qs(r.pwds), qs(addrs), qs(r.labels), qs(r.olabels), single[1], single[2], single[3], single[4], single[5], single[6])
	} else if h.Multi {
		mops := append([]string{"Open " + coqScrypt(prm(h.Prm))}, r.coqOps...)
		mres := append([]string{"Ok"}, r.coqRes...)
		term = fmt.Sprintf("CMulti %s\n  %s\n  %s\n  %s %s %s %s\n  %s", hx.CoqList(mops), hx.CoqList(mres), hx.CoqBool(!r.callerBad),
			qs(r.pwds), qs(addrs), qs(r.labels), qs(r.olabels), "[\n  "+strings.Join(wobs, ";\n  ")+"]")
	} else {
		term = fmt.Sprintf("CHist %s\n  %s\n  %s\n  %s %s\n  %s %s %s %s\n  %s %s\n  %s\n  %s\n  %s %s",
			coqScrypt(prm(h.Prm)), hx.CoqList(r.coqOps), hx.CoqList(r.coqRes), single[0], hx.CoqBool(!r.callerBad),
			qs(r.pwds), qs(addrs), qs(r.labels), qs(r.olabels), single[1], single[2], single[3], single[4], single[5], single[6])
	}
	var lets strings.Builder
	for i, x := range r.strs {
		fmt.Fprintf(&lets, "let s%d := %s in\n  ", i, hx.CoqStr(x))
	}
	c.Case("("+lets.String()+term+")", h)

	c.Count("stream:" + h.Stream)
	c.Count(fmt.Sprintf("ops<=%d", bucket(len(h.Ops))))
	c.Count(fmt.Sprintf("accounts-at-end:%d", accountsAtEnd))
	c.Count(fmt.Sprintf("wallets-open:%d", len(r.ws)))
	c.Count(fmt.Sprintf("keys-created-by-NewAccount:%d", len(r.keys)-nDriverKeys))
	if r.callerBad {
		c.Count("caller-obligation-broken")
	}
	if r.okOps >= 2 && accountsAtEnd >= 1 {
		b, _ := json.Marshal(h.Ops)
		c.Nontrivial(string(b) + fmt.Sprint(h.Prm, h.KeyTyp))
	}
	c.Sample(map[string]interface{}{"history": h, "results": r.coqRes, "accounts_after_reload": listedAll})
}

// finalOracle checks the property on one wallet of the implementation (no model involved): the
// client before and after re-opening the file, and the file. It returns the tracked addresses.
func (r *runner) finalOracle(h hist, wi int, pre, post obs, cli2 *account.ClientImpl, already bool) []string {
	c := r.c
	oracleFailed := already || r.oracleFailed
	class := func(generic string) string {
		oracleFailed = true
		if generic == "reload:account-set-differs" && r.sawSaveFail {
			return "rollback:lost-account-after-reload"
		}
		return generic
	}
	in := map[string]interface{}{"history": h, "wallet": wi}
	var want []string
	for a := range r.track {
		want = append(want, a)
	}
	sort.Strings(want)
	if pre.full != post.full {
		c.Fail(class("reload:view-differs"), "after re-opening the wallet file a getter answers differently", h,
			map[string]interface{}{"wallet": wi, "before": pre.full, "after": post.full}, "identical answers")
	}
	// the FILE: the scrypt block is the one the wallet was opened with; exactly one account is flagged
	// isDefault when the wallet is not empty, and it is the account the reloaded client calls the default one
	if fp := coqScrypt(r.ws[wi].prm); !strings.HasPrefix(r.fileScrypt, fp) || coqScrypt(*cli2.GetWalletData().Scrypt) != fp || coqScrypt(*r.cli.GetWalletData().Scrypt) != fp {
		c.Fail(class("scrypt:params-changed-by-other-wallet"), "a wallet's scrypt parameters (in memory or on file) are not the ones it was opened with", h,
			map[string]interface{}{"wallet": wi, "file": r.fileScrypt, "memory": coqScrypt(*r.cli.GetWalletData().Scrypt), "reloaded": coqScrypt(*cli2.GetWalletData().Scrypt)}, fp)
	}
	wantFlags := 1
	if len(r.fileAddrs) == 0 {
		wantFlags = 0
	}
	dmAddr := ""
	if dm := cli2.GetDefaultAccountMetadata(); dm != nil {
		dmAddr = dm.Address
	}
	if len(r.fileFlagged) != wantFlags || (wantFlags == 1 && r.fileFlagged[0] != dmAddr) {
		c.Fail(class("file:default-flags"), "the wallet file does not flag exactly one account as default (the one the reloaded client reports)", h,
			map[string]interface{}{"wallet": wi, "flagged_in_file": r.fileFlagged, "default_after_reload": dmAddr, "accounts_in_file": r.fileAddrs}, "exactly one isDefault:true, equal to the default account")
	}
	got := append([]string{}, post.listed...)
	sort.Strings(got)
	if strings.Join(want, ",") != strings.Join(got, ",") {
		c.Fail(class("reload:account-set-differs"), "the reloaded wallet does not list exactly the accounts created/imported and not deleted", h, got, want)
	}
	for _, a := range want {
		t := r.track[a]
		if !t.openable {
			continue
		}
		for _, p := range r.pwds {
			res := post.openAddr[a][p]
			if p == t.pwd {
				if res != fmt.Sprintf("(Key %d)", t.key) {
					c.Fail(class("open:current-password-fails"), "an account does not open to its key with its current password after the reload", h,
						map[string]interface{}{"wallet": wi, "address": a, "password": p, "result": res}, fmt.Sprintf("key %d", t.key))
				}
			} else if strings.HasPrefix(res, "(Key") {
				c.Fail(class("open:other-password-opens"), "an account opens with a password that is not its current one", h,
					map[string]interface{}{"wallet": wi, "address": a, "password": p, "current": t.pwd, "result": res}, "decrypt error")
			}
		}
		if _, probed := post.openAddr[a][t.pwd]; !probed && t.pwd != "" {
			// the probe list was capped: still try the current password
			acc, err := cli2.GetAccountByAddress(a, []byte(t.pwd))
			if res := r.openRes(acc, err); res != fmt.Sprintf("(Key %d)", t.key) {
				c.Fail(class("open:current-password-fails"), "an account does not open to its key with its current password after the reload", h,
					map[string]interface{}{"wallet": wi, "address": a, "password": t.pwd, "result": res}, fmt.Sprintf("key %d", t.key))
			}
		}
	}
	_ = in
	if !oracleFailed { // otherwise the bookkeeping of current passwords is not what the wallet holds
		r.checkCipher(cli2)
	}
	return want
}

// metaLine prints what the getters that need no password say about a client.
func metaLine(cli *account.ClientImpl) string {
	var b strings.Builder
	n := len(cli.GetWalletData().Accounts)
	fmt.Fprintf(&b, "num=%d ", cli.GetAccountNum())
	for i := 1; i <= n; i++ {
		if m := cli.GetAccountMetadataByIndex(i); m != nil {
			fmt.Fprintf(&b, "%d:%+v ", i, *m)
		}
	}
	if m := cli.GetDefaultAccountMetadata(); m != nil {
		fmt.Fprintf(&b, "default:%s", m.Address)
	}
	return b.String()
}

// stepOracle runs after every operation of a multi-wallet history, on EVERY open wallet: its scrypt
// parameters (client, file, re-opened client) are the ones it was opened with; the re-opened file
// shows the same accounts with the same metadata; every account opens with its current password, in
// the client and in the re-opened client (wallets with slow key derivation: parameters and metadata
// only; their passwords are tried at the end of the history).
func (r *runner) stepOracle(h hist) (failed bool) {
	c := r.c
	r.ws[r.cur].cli = r.cli
	for wi, w := range r.ws {
		fp := coqScrypt(w.prm)
		mem := coqScrypt(*w.cli.GetWalletData().Scrypt)
		fileP := fp
		if b, err := os.ReadFile(w.path); err == nil {
			var fw fileWallet
			if json.Unmarshal(b, &fw) == nil {
				fileP = coqScrypt(fw.Scrypt)
			}
		}
		cli2, err := account.NewClientImpl(w.path)
		if err != nil {
			c.Fail("reload:open-fails", "a wallet file cannot be opened", h, map[string]interface{}{"wallet": wi, "error": err.Error()}, nil)
			return true
		}
		if mem != fp || fileP != fp || coqScrypt(*cli2.GetWalletData().Scrypt) != fp {
			c.Fail("scrypt:params-changed-by-other-wallet", "a wallet's scrypt parameters (in memory or on file) are not the ones it was opened with", h,
				map[string]interface{}{"wallet": wi, "after_op": len(h.Ops), "memory": mem, "file": fileP, "reloaded": coqScrypt(*cli2.GetWalletData().Scrypt)}, fp)
			failed = true
		}
		if a, b := metaLine(w.cli), metaLine(cli2); a != b {
			c.Fail("reload:view-differs", "after re-opening the wallet file a getter answers differently", h,
				map[string]interface{}{"wallet": wi, "after_op": len(h.Ops), "before": a, "after": b}, "identical answers")
			failed = true
		}
		if w.prm.N > 64 {
			continue
		}
		for a, t := range w.track {
			if !t.openable || t.pwd == "" {
				continue
			}
			for which, cl := range []*account.ClientImpl{w.cli, cli2} {
				acc, err := cl.GetAccountByAddress(a, []byte(t.pwd))
				if res := r.openRes(acc, err); res != fmt.Sprintf("(Key %d)", t.key) {
					c.Fail("open:current-password-fails", "an account does not open to its key with its current password", h,
						map[string]interface{}{"wallet": wi, "after_op": len(h.Ops), "address": a, "password": t.pwd, "result": res, "reloaded_client": which == 1}, fmt.Sprintf("key %d", t.key))
					failed = true
				}
			}
		}
	}
	return failed
}
