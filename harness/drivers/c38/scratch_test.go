package c38

import (
	"fmt"
	"os"
	"testing"
	"time"

	"github.com/ontio/ontology-crypto/keypair"
	s "github.com/ontio/ontology-crypto/signature"
	"github.com/ontio/ontology/account"
)

func TestScratch(t *testing.T) {
	pri, _, _ := keypair.GenerateKeyPair(keypair.PK_ECDSA, keypair.P256)
	t0 := time.Now()
	prot, err := keypair.EncryptPrivateKey(pri, "addr", []byte("pw"))
	fmt.Println("default enc", time.Since(t0), err)
	t0 = time.Now()
	_, err = keypair.DecryptPrivateKey(prot, []byte("pw"))
	fmt.Println("default dec", time.Since(t0), err)
	light := &keypair.ScryptParam{N: 2, R: 1, P: 1, DKLen: 64}
	t0 = time.Now()
	prot, err = keypair.EncryptWithCustomScrypt(pri, "addr", []byte("pw"), light)
	fmt.Println("light enc", time.Since(t0), err)
	_, err = keypair.DecryptWithCustomScrypt(prot, []byte("pw"), light)
	fmt.Println("light dec ok", err)
	_, err = keypair.DecryptWithCustomScrypt(prot, []byte("pw2"), light)
	fmt.Println("light dec wrong", err)
	// wallet with light params
	dir := t.TempDir()
	p := dir + "/w.dat"
	os.WriteFile(p, []byte(`{"name":"MyWallet","version":"1.1","scrypt":{"p":1,"n":2,"r":1,"dkLen":64}}`), 0644)
	cli, err := account.NewClientImpl(p)
	fmt.Println(err, *cli.GetWalletData().Scrypt)
	t0 = time.Now()
	acc, err := cli.NewAccount("x", keypair.PK_ECDSA, keypair.P256, s.SHA256withECDSA, []byte("pw"))
	fmt.Println("newaccount", time.Since(t0), err)
	_, err = cli.GetAccountByAddress(acc.Address.ToBase58(), []byte("pw"))
	fmt.Println("open in light wallet:", err)
	b, _ := os.ReadFile(p)
	fmt.Println(string(b))
}
