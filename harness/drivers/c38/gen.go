package c38

import (
	"fmt"
	"go/ast"
	"go/parser"
	"go/printer"
	"go/token"
	"path/filepath"
	"strings"

	"github.com/ontio/ontology-crypto/keypair"
	s "github.com/ontio/ontology-crypto/signature"
	"github.com/ontio/ontology/account"

	"verif/harness/gen"
)

// Key-type and scheme codes shared by the model (Gen/WalletConsts.v), the cases and the driver.
var algNames = []string{"ECDSA", "SM2", "Ed25519", "RSA"} // code 3 = a key type checkSigScheme does not know

const unknownScheme = "NOSUCHSCHEME" // code 11
const nSchemes = 11                  // signature.SignatureScheme values 0..10

func algCode(name string) int {
	for i, n := range algNames[:3] {
		if n == name {
			return i
		}
	}
	return 3
}

func schemeName(code int) string {
	if code >= 0 && code < nSchemes {
		return s.SignatureScheme(code).Name()
	}
	return unknownScheme
}

func schemeCode(name string) int {
	sc, err := s.GetScheme(name)
	if err != nil {
		return nSchemes
	}
	return int(sc)
}

func coqScrypt(p keypair.ScryptParam) string {
	return fmt.Sprintf("(%d, %d, %d, %d)", p.N, p.R, p.P, p.DKLen)
}

// callsIn returns the calls `keypair.<name>(...)` inside the method `fn` of account/client.go,
// with the printed last argument of each.
func callsIn(repo, fn string) (map[string][]string, error) {
	fset := token.NewFileSet()
	f, err := parser.ParseFile(fset, filepath.Join(repo, "account", "client.go"), nil, 0)
	if err != nil {
		return nil, err
	}
	var fd *ast.FuncDecl
	for _, d := range f.Decls {
		if x, ok := d.(*ast.FuncDecl); ok && x.Name.Name == fn && x.Recv != nil {
			fd = x
		}
	}
	if fd == nil {
		return nil, fmt.Errorf("method %s not found in account/client.go", fn)
	}
	out := map[string][]string{}
	ast.Inspect(fd.Body, func(n ast.Node) bool {
		ce, ok := n.(*ast.CallExpr)
		if !ok {
			return true
		}
		se, ok := ce.Fun.(*ast.SelectorExpr)
		if !ok {
			return true
		}
		if id, ok := se.X.(*ast.Ident); !ok || id.Name != "keypair" {
			return true
		}
		last := ""
		if len(ce.Args) > 0 {
			var b strings.Builder
			printer.Fprint(&b, fset, ce.Args[len(ce.Args)-1])
			last = b.String()
		}
		out[se.Sel.Name] = append(out[se.Sel.Name], last)
		return true
	})
	return out, nil
}

const walletScrypt = "this.walletData.Scrypt"

// usesWalletScrypt decides, for one method, whether its key-encryption/decryption calls pass the
// wallet's scrypt parameters (true) or the package defaults (false); anything else is an error
// (the generated file then lacks the definition and the proofs stop compiling).
func usesWalletScrypt(repo, fn string, custom []string, dflt []string) (bool, error) {
	calls, err := callsIn(repo, fn)
	if err != nil {
		return false, err
	}
	nc, nd := 0, 0
	for _, name := range custom {
		for _, last := range calls[name] {
			if last != walletScrypt {
				return false, fmt.Errorf("%s: keypair.%s called with parameters %q (expected %s)", fn, name, last, walletScrypt)
			}
			nc++
		}
	}
	for _, name := range dflt {
		nd += len(calls[name])
	}
	switch {
	case nc > 0 && nd == 0:
		return true, nil
	case nd > 0 && nc == 0:
		return false, nil
	case nc == 0 && nd == 0:
		return false, fmt.Errorf("%s: no keypair encryption/decryption call found", fn)
	default:
		return false, fmt.Errorf("%s: mixes wallet and default scrypt parameters", fn)
	}
}

func init() {
	gen.RegisterFile("WalletConsts.v", func(repo string) ([]byte, []string) {
		var errs []string
		var cs []gen.Const
		cs = append(cs, gen.Const{Name: "default_scrypt", Type: "(N * N * N * N)", Value: coqScrypt(*keypair.GetScryptParameters()),
			Comment: "keypair.GetScryptParameters(): (N, R, P, DKLen)"})
		cs = append(cs, gen.Const{Name: "low_security_scrypt", Type: "(N * N * N * N)", Value: coqScrypt(account.VerifLowSecurityParam()),
			Comment: "account.lowSecurityParam: (N, R, P, DKLen)"})
		cs = append(cs, gen.Const{Name: "new_wallet_scrypt", Type: "(N * N * N * N)", Value: coqScrypt(*account.NewWalletData().Scrypt),
			Comment: "account.NewWalletData().Scrypt: (N, R, P, DKLen)"})
		var rows []string
		for a, an := range algNames {
			var ok []string
			for sc := 0; sc <= nSchemes; sc++ {
				if account.VerifCheckSigScheme(an, schemeName(sc)) {
					ok = append(ok, fmt.Sprint(sc))
				}
			}
			rows = append(rows, fmt.Sprintf("(%d, [%s])", a, strings.Join(ok, "; ")))
		}
		cs = append(cs, gen.Const{Name: "check_sig_scheme_table", Type: "list (N * list N)", Value: "[" + strings.Join(rows, "; ") + "]",
			Comment: "ClientImpl.checkSigScheme evaluated on key types 0=ECDSA 1=SM2 2=Ed25519 3=RSA(unsupported) and scheme codes (signature.SignatureScheme values; 11 = an unknown name)"})
		var known []string
		for sc := 0; sc <= nSchemes; sc++ {
			if _, err := s.GetScheme(schemeName(sc)); err == nil {
				known = append(known, fmt.Sprint(sc))
			}
		}
		cs = append(cs, gen.Const{Name: "scheme_known_table", Type: "list N", Value: "[" + strings.Join(known, "; ") + "]",
			Comment: "scheme codes whose name signature.GetScheme resolves"})
		type site struct {
			name, fn, comment string
			custom, dflt      []string
		}
		for _, st := range []site{
			{"newaccount_uses_wallet_scrypt", "NewAccount", "account/client.go NewAccount: does the call that encrypts the new key pass this.walletData.Scrypt? (keypair.EncryptPrivateKey uses keypair.GetScryptParameters())",
				[]string{"EncryptWithCustomScrypt"}, []string{"EncryptPrivateKey"}},
			{"changepassword_uses_wallet_scrypt", "ChangePassword", "account/client.go ChangePassword: do both the decrypt and the encrypt call pass this.walletData.Scrypt?",
				[]string{"EncryptWithCustomScrypt", "DecryptWithCustomScrypt", "ReencryptPrivateKey"}, []string{"EncryptPrivateKey", "DecryptPrivateKey"}},
			{"getaccount_uses_wallet_scrypt", "getAccount", "account/client.go getAccount: does the decrypt call pass this.walletData.Scrypt?",
				[]string{"DecryptWithCustomScrypt"}, []string{"DecryptPrivateKey"}},
		} {
			v, err := usesWalletScrypt(repo, st.fn, st.custom, st.dflt)
			if err != nil {
				errs = append(errs, err.Error())
				cs = append(cs, gen.Const{Name: "translator_broken_" + st.name, Type: "unit", Value: "tt", Comment: err.Error()})
				continue
			}
			cs = append(cs, gen.Const{Name: st.name, Type: "bool", Value: fmt.Sprint(v), Comment: st.comment})
		}
		return gen.EmitConsts("Local Open Scope N_scope.", cs), errs
	})
}
