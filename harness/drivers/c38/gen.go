package c38

import (
	"fmt"
	"go/ast"
	"go/parser"
	"go/printer"
	"go/token"
	"path/filepath"
	"strings"

	"github.com/ontio/ontology-crypto/keypair"
	s "github.com/ontio/ontology-crypto/signature"
	"github.com/ontio/ontology/account"

	"verif/harness/gen"
)

// Key-type and scheme codes shared by the model (Gen/WalletConsts.v), the cases and the driver.
var algNames = []string{"ECDSA", "SM2", "Ed25519", "RSA"} // code 3 = a key type checkSigScheme does not know

const unknownScheme = "NOSUCHSCHEME" // code 11
const nSchemes = 11                  // signature.SignatureScheme values 0..10

func algCode(name string) int {
	for i, n := range algNames[:3] {
		if n == name {
			return i
		}
	}
	return 3
}

func schemeName(code int) string {
	if code >= 0 && code < nSchemes {
		return s.SignatureScheme(code).Name()
	}
	return unknownScheme
}

func schemeCode(name string) int {
	sc, err := s.GetScheme(name)
	if err != nil {
		return nSchemes
	}
	return int(sc)
}

func coqScrypt(p keypair.ScryptParam) string {
	return fmt.Sprintf("(%d, %d, %d, %d)", p.N, p.R, p.P, p.DKLen)
}

// callsIn returns the calls `keypair.<name>(...)` inside the method `fn` of account/client.go,
// with the printed last argument of each.
func callsIn(repo, fn string) (map[string][]string, error) {
	fset := token.NewFileSet()
	f, err := parser.ParseFile(fset, filepath.Join(repo, "account", "client.go"), nil, 0)
	if err != nil {
		return nil, err
	}
	var fd *ast.FuncDecl
	for _, d := range f.Decls {
		if x, ok := d.(*ast.FuncDecl); ok && x.Name.Name == fn && x.Recv != nil {
			fd = x
		}
	}
	if fd == nil {
		return nil, fmt.Errorf("method %s not found in account/client.go", fn)
	}
	out := map[string][]string{}
	ast.Inspect(fd.Body, func(n ast.Node) bool {
		ce, ok := n.(*ast.CallExpr)
		if !ok {
			return true
		}
		se, ok := ce.Fun.(*ast.SelectorExpr)
		if !ok {
			return true
		}
		if id, ok := se.X.(*ast.Ident); !ok || id.Name != "keypair" {
			return true
		}
		last := ""
		if len(ce.Args) > 0 {
			var b strings.Builder
			printer.Fprint(&b, fset, ce.Args[len(ce.Args)-1])
			last = b.String()
		}
		out[se.Sel.Name] = append(out[se.Sel.Name], last)
		return true
	})
	return out, nil
}

const walletScrypt = "this.walletData.Scrypt"

func methodOf(repo, fn string) (*token.FileSet, *ast.FuncDecl, error) {
	fset := token.NewFileSet()
	f, err := parser.ParseFile(fset, filepath.Join(repo, "account", "client.go"), nil, 0)
	if err != nil {
		return nil, nil, err
	}
	for _, d := range f.Decls {
		if x, ok := d.(*ast.FuncDecl); ok && x.Name.Name == fn && x.Recv != nil && x.Body != nil {
			return fset, x, nil
		}
	}
	return nil, nil, fmt.Errorf("method %s not found in account/client.go", fn)
}

func show(fset *token.FileSet, n ast.Node) string {
	var b strings.Builder
	printer.Fprint(&b, fset, n)
	return b.String()
}

// returnsError: the block's last statement returns a non-nil last value.
func returnsError(fset *token.FileSet, b *ast.BlockStmt) bool {
	if len(b.List) == 0 {
		return false
	}
	rs, ok := b.List[len(b.List)-1].(*ast.ReturnStmt)
	if !ok || len(rs.Results) == 0 {
		return false
	}
	return show(fset, rs.Results[len(rs.Results)-1]) != "nil"
}

// guardHeldAddress looks at the top-level statements of addAccountData.
func guardHeldAddress(repo string) (bool, error) {
	fset, fd, err := methodOf(repo, "addAccountData")
	if err != nil {
		return false, err
	}
	lock, label, guard, add := -1, -1, -1, -1
	for i, st := range fd.Body.List {
		txt := show(fset, st)
		switch {
		case lock < 0 && strings.HasPrefix(txt, "this.lock.Lock()"):
			lock = i
		case add < 0 && strings.HasPrefix(txt, "this.walletData.AddAccount("):
			add = i
		}
		if is, ok := st.(*ast.IfStmt); ok {
			if is.Init != nil && show(fset, is.Init) == "_, ok := this.accAddrs[accData.Address]" && show(fset, is.Cond) == "ok" &&
				is.Else == nil && returnsError(fset, is.Body) && guard < 0 {
				guard = i
			}
			if strings.Contains(txt, "duplicate label") && label < 0 {
				label = i
			}
		}
	}
	if lock < 0 || add < 0 || label < 0 {
		return false, fmt.Errorf("addAccountData: unexpected shape (lock %d, label check %d, AddAccount %d)", lock, label, add)
	}
	if guard < 0 {
		return false, nil
	}
	if !(lock < label && label < guard && guard < add) {
		return false, fmt.Errorf("addAccountData: the address guard is not between the label check and AddAccount (lock %d, label %d, guard %d, add %d)", lock, label, guard, add)
	}
	return true, nil
}

func guardEmptyPassword(repo string) (bool, error) {
	fset, fd, err := methodOf(repo, "ChangePassword")
	if err != nil {
		return false, err
	}
	if len(fd.Body.List) == 0 {
		return false, fmt.Errorf("ChangePassword: empty body")
	}
	is, ok := fd.Body.List[0].(*ast.IfStmt)
	if ok && is.Init == nil && is.Else == nil && show(fset, is.Cond) == "len(newPasswd) == 0" && returnsError(fset, is.Body) {
		return true, nil
	}
	// the guard anywhere else is a shape the model does not have
	found := false
	ast.Inspect(fd.Body, func(n ast.Node) bool {
		if be, ok := n.(*ast.BinaryExpr); ok && strings.Contains(show(fset, be), "len(newPasswd)") {
			found = true
		}
		return true
	})
	if found {
		return false, fmt.Errorf("ChangePassword: tests len(newPasswd) somewhere else than in a first-statement guard")
	}
	return false, nil
}

// usesWalletScrypt decides, for one method, whether its key-encryption/decryption calls pass the
// wallet's scrypt parameters (true) or the package defaults (false); anything else is an error
// (the generated file then lacks the definition and the proofs stop compiling).
func usesWalletScrypt(repo, fn string, custom []string, dflt []string) (bool, error) {
	calls, err := callsIn(repo, fn)
	if err != nil {
		return false, err
	}
	nc, nd := 0, 0
	for _, name := range custom {
		for _, last := range calls[name] {
			if last != walletScrypt {
				return false, fmt.Errorf("%s: keypair.%s called with parameters %q (expected %s)", fn, name, last, walletScrypt)
			}
			nc++
		}
	}
	for _, name := range dflt {
		nd += len(calls[name])
	}
	switch {
	case nc > 0 && nd == 0:
		return true, nil
	case nd > 0 && nc == 0:
		return false, nil
	case nc == 0 && nd == 0:
		return false, fmt.Errorf("%s: no keypair encryption/decryption call found", fn)
	default:
		return false, fmt.Errorf("%s: mixes wallet and default scrypt parameters", fn)
	}
}

func init() {
	gen.RegisterFile("WalletConsts.v", func(repo string) ([]byte, []string) {
		var errs []string
		var cs []gen.Const
		cs = append(cs, gen.Const{Name: "default_scrypt", Type: "(N * N * N * N)", Value: coqScrypt(*keypair.GetScryptParameters()),
			Comment: "keypair.GetScryptParameters(): (N, R, P, DKLen)"})
		cs = append(cs, gen.Const{Name: "low_security_scrypt", Type: "(N * N * N * N)", Value: coqScrypt(account.VerifLowSecurityParam()),
			Comment: "account.lowSecurityParam: (N, R, P, DKLen)"})
		cs = append(cs, gen.Const{Name: "new_wallet_scrypt", Type: "(N * N * N * N)", Value: coqScrypt(*account.NewWalletData().Scrypt),
			Comment: "account.NewWalletData().Scrypt: (N, R, P, DKLen)"})
		var rows []string
		for a, an := range algNames {
			var ok []string
			for sc := 0; sc <= nSchemes; sc++ {
				if account.VerifCheckSigScheme(an, schemeName(sc)) {
					ok = append(ok, fmt.Sprint(sc))
				}
			}
			rows = append(rows, fmt.Sprintf("(%d, [%s])", a, strings.Join(ok, "; ")))
		}
		cs = append(cs, gen.Const{Name: "check_sig_scheme_table", Type: "list (N * list N)", Value: "[" + strings.Join(rows, "; ") + "]",
			Comment: "ClientImpl.checkSigScheme evaluated on key types 0=ECDSA 1=SM2 2=Ed25519 3=RSA(unsupported) and scheme codes (signature.SignatureScheme values; 11 = an unknown name)"})
		var known []string
		for sc := 0; sc <= nSchemes; sc++ {
			if _, err := s.GetScheme(schemeName(sc)); err == nil {
				known = append(known, fmt.Sprint(sc))
			}
		}
		cs = append(cs, gen.Const{Name: "scheme_known_table", Type: "list N", Value: "[" + strings.Join(known, "; ") + "]",
			Comment: "scheme codes whose name signature.GetScheme resolves"})
		type site struct {
			name, fn, comment string
			custom, dflt      []string
		}
		for _, st := range []site{
			{"newaccount_uses_wallet_scrypt", "NewAccount", "account/client.go NewAccount: does the call that encrypts the new key pass this.walletData.Scrypt? (keypair.EncryptPrivateKey uses keypair.GetScryptParameters())",
				[]string{"EncryptWithCustomScrypt"}, []string{"EncryptPrivateKey"}},
			{"changepassword_uses_wallet_scrypt", "ChangePassword", "account/client.go ChangePassword: do both the decrypt and the encrypt call pass this.walletData.Scrypt?",
				[]string{"EncryptWithCustomScrypt", "DecryptWithCustomScrypt", "ReencryptPrivateKey"}, []string{"EncryptPrivateKey", "DecryptPrivateKey"}},
			{"getaccount_uses_wallet_scrypt", "getAccount", "account/client.go getAccount: does the decrypt call pass this.walletData.Scrypt?",
				[]string{"DecryptWithCustomScrypt"}, []string{"DecryptPrivateKey"}},
		} {
			v, err := usesWalletScrypt(repo, st.fn, st.custom, st.dflt)
			if err != nil {
				errs = append(errs, err.Error())
				cs = append(cs, gen.Const{Name: "translator_broken_" + st.name, Type: "unit", Value: "tt", Comment: err.Error()})
				continue
			}
			cs = append(cs, gen.Const{Name: st.name, Type: "bool", Value: fmt.Sprint(v), Comment: st.comment})
		}
		// the two guards: absent = false (the model then follows the unguarded code and the theorems
		// that need the guards stop checking); an unreadable function is an error
		for _, gd := range []struct {
			name, comment string
			read          func(string) (bool, error)
		}{
			{"addaccount_refuses_held_address", "account/client.go addAccountData: is there, under the lock, after the duplicate-label check and before walletData.AddAccount, a guard `if _, ok := this.accAddrs[accData.Address]; ok { return <error> }`?", guardHeldAddress},
			{"changepassword_refuses_empty", "account/client.go ChangePassword: is the first statement `if len(newPasswd) == 0 { return <error> }`?", guardEmptyPassword},
		} {
			v, err := gd.read(repo)
			if err != nil {
				errs = append(errs, err.Error())
				cs = append(cs, gen.Const{Name: "translator_broken_" + gd.name, Type: "unit", Value: "tt", Comment: err.Error()})
				continue
			}
			cs = append(cs, gen.Const{Name: gd.name, Type: "bool", Value: fmt.Sprint(v), Comment: gd.comment})
		}
		return gen.EmitConsts("Local Open Scope N_scope.", cs), errs
	})
}
