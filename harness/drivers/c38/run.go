package c38

import (
	"encoding/json"
	"fmt"
	"time"

	"github.com/ontio/ontology-crypto/keypair"

	"verif/harness/hx"
)

var lightParams = [][4]int{{2, 1, 1, 64}, {4, 1, 1, 64}, {16, 2, 1, 32}, {2, 1, 2, 48}}

var labelPool = []string{"", "", "a", "b", "main", "a_1", "main_1", "savings", "x y", "q\"uote", "<tag>&", "L0"}
var pwdPool = []string{"pw1", "pw2", "x", "correct horse", "123456", "p\"q", "Passw0rd!", " "}

// schemes each key-type code accepts in the current code (used to bias towards valid inputs;
// the truth is the implementation's answer, recorded in the case)
func validScheme(c *hx.Ctx, keyTyp int) int {
	switch keyTypes[keyTyp%len(keyTypes)].t {
	case keypair.PK_SM2:
		return 9
	case keypair.PK_EDDSA:
		return 10
	default:
		return c.Intn(9)
	}
}

func pick(c *hx.Ctx, l []string) string { return l[c.Intn(len(l))] }

type genCfg struct {
	nOps        int
	allowNew    bool
	allowDup    bool // import of an address the wallet holds (must be refused)
	allowEmpty  bool // ChangePassword to "" (must be refused)
	allowBadImp bool // import with foreign parameters / empty password (caller's obligation broken)
	newWeight   int
}

// generator builds the next operation from the live state of the client (which addresses are
// held, what the current passwords are), so that most operations succeed.
func generator(c *hx.Ctx, h *hist, cfg genCfg) opGen {
	return func(r *runner, i int) *opRec {
		if i >= cfg.nOps {
			return nil
		}
		present := func(slot int) bool { return r.cli.GetAccountMetadataByAddress(r.addr(slot)) != nil }
		anySlot := func(wantPresent bool) int {
			if len(r.keys) == 0 {
				return -1
			}
			for try := 0; try < 6; try++ {
				sl := c.Intn(len(r.keys))
				if present(sl) == wantPresent {
					return sl
				}
			}
			return c.Intn(len(r.keys))
		}
		curPwd := func(slot int) string {
			if t, ok := r.track[r.addr(slot)]; ok {
				return t.pwd
			}
			return pick(c, pwdPool)
		}
		somePwd := func(slot int) string {
			switch c.Intn(10) {
			case 0:
				return ""
			case 1, 2:
				return pick(c, pwdPool)
			default:
				return curPwd(slot)
			}
		}
		keyTypOf := func(slot int) int {
			if slot >= 0 && slot < len(h.KeyTyp) {
				return h.KeyTyp[slot]
			}
			return 0
		}
		nPresent := 0
		for k := range r.keys {
			if present(k) {
				nPresent++
			}
		}
		for {
			w := c.Intn(100)
			if nPresent == 0 && len(h.KeyTyp) > 0 && c.Intn(6) != 0 {
				w = cfg.newWeight + c.Intn(30-cfg.newWeight) // nothing to work on yet: mostly import (or create)
				if cfg.allowNew && c.Intn(2) == 0 {
					w = 0
				}
			}
			if cfg.allowNew && w < cfg.newWeight {
				kt := []int{0, 0, 0, 1, 2, 3, 4}[c.Intn(7)]
				o := &opRec{Kind: "new", Slot: -1, Label: pick(c, labelPool), KeyTyp: kt, Sch: validScheme(c, kt), Pwd: pick(c, pwdPool)}
				switch c.Intn(12) {
				case 0:
					o.Pwd = ""
				case 1:
					o.Sch = c.Intn(nSchemes)
				}
				return o
			}
			switch {
			case w < 30: // import
				if len(h.KeyTyp) == 0 {
					continue
				}
				sl := c.Intn(len(h.KeyTyp))
				if present(sl) && !(cfg.allowDup && c.Intn(2) == 0) {
					sl = -1
					for k := range h.KeyTyp {
						if !present(k) {
							sl = k
						}
					}
					if sl < 0 {
						continue
					}
				}
				o := &opRec{Kind: "import", Slot: sl, Label: pick(c, labelPool), Sch: validScheme(c, keyTypOf(sl)), Pwd: pick(c, pwdPool)}
				switch c.Intn(14) {
				case 0:
					o.Sch = nSchemes // a name GetScheme does not know
				case 1:
					o.Sch = c.Intn(nSchemes)
				case 2:
					o.Alg = "RSA"
				}
				// the remaining fields of AccountMetadata (what `account import --source` copies from another wallet)
				o.IsDef = c.Intn(5) < 2
				o.Hash = []string{"", "", "sha256", "h"}[c.Intn(4)]
				o.PubBad = c.Intn(10) == 0
				if cfg.allowBadImp && c.Intn(2) == 0 {
					if k := c.Intn(5); k == 0 {
						o.Pwd = ""
					} else if k <= 2 {
						o.Corrupt = []string{"salt", "key", "encalg", "curve"}[c.Intn(4)]
					} else {
						p := lightParams[c.Intn(len(lightParams))]
						if p == h.Prm {
							p = [4]int{8, 1, 1, 64}
						}
						o.Prm = &p
					}
				}
				return o
			case w < 42:
				sl := anySlot(true)
				if c.Intn(3) != 0 { // prefer an account that is not the default one (the default cannot be deleted)
					for k := range r.keys {
						if md := r.cli.GetAccountMetadataByAddress(r.addr(k)); md != nil && !md.IsDefault {
							sl = k
						}
					}
				}
				if c.Intn(8) == 0 {
					sl = -1
				}
				return &opRec{Kind: "delete", Slot: sl, Pwd: somePwd(sl)}
			case w < 54:
				sl := anySlot(true)
				if c.Intn(8) == 0 {
					sl = -1
				}
				return &opRec{Kind: "setdefault", Slot: sl}
			case w < 70:
				sl := anySlot(true)
				if c.Intn(10) == 0 {
					sl = -1
				}
				return &opRec{Kind: "setlabel", Slot: sl, Label: pick(c, labelPool)}
			case w < 86:
				sl := anySlot(true)
				if c.Intn(10) == 0 {
					sl = -1
				}
				o := &opRec{Kind: "chpwd", Slot: sl, Pwd: somePwd(sl), New: pick(c, pwdPool)}
				if c.Intn(10) == 0 {
					o.New = o.Pwd
				}
				if cfg.allowEmpty && c.Intn(3) == 0 {
					o.New = ""
				}
				if o.New == "" && o.Pwd != "" && !cfg.allowEmpty {
					o.New = "pw1"
				}
				return o
			case w < 94:
				sl := anySlot(true)
				if c.Intn(10) == 0 {
					sl = -1
				}
				sch := c.Intn(nSchemes)
				if c.Intn(3) != 0 {
					kt := keyTypOf(sl)
					if sl >= len(h.KeyTyp) { // created by NewAccount: take a scheme valid for its type
						md := r.cli.GetAccountMetadataByAddress(r.addr(sl))
						if md != nil {
							kt = algCode(md.KeyType)
						}
					}
					sch = validScheme(c, kt)
				}
				return &opRec{Kind: "chsch", Slot: sl, Sch: sch}
			default:
				return &opRec{Kind: "reload", Slot: -1}
			}
		}
	}
}

// multiGenerator interleaves operations over up to maxWallets wallets open in one process: now and
// then it opens one more wallet file with parameters from the pool (preferring a set no open wallet
// has), otherwise it picks an open wallet and lets the single-wallet generator choose the operation.
func multiGenerator(c *hx.Ctx, h *hist, cfg genCfg, maxWallets int, pool [][4]int) opGen {
	inner := generator(c, h, cfg)
	return func(r *runner, i int) *opRec {
		if i >= cfg.nOps {
			return nil
		}
		if len(r.ws) < maxWallets && (i == 1 || c.Intn(5) == 0) {
			p := pool[c.Intn(len(pool))]
			for try := 0; try < 8; try++ {
				used := false
				for _, w := range r.ws {
					if prmArr(w.prm) == p {
						used = true
					}
				}
				if !used || c.Intn(8) == 0 {
					break
				}
				p = pool[c.Intn(len(pool))]
			}
			return &opRec{Kind: "open", Slot: -1, Prm: &p}
		}
		wi := c.Intn(len(r.ws))
		r.use(wi)
		o := inner(r, i)
		if o == nil {
			return nil
		}
		o.W = wi
		return o
	}
}

// saveFailHistory: three accounts, then each kind of mutating operation is issued while saves are
// blocked (it must fail and change nothing), saves are unblocked, and ordinary operations follow
// (the next successful save must write the state before the failure plus the later operations only).
func saveFailHistory(c *hx.Ctx, which int) (hist, opGen) {
	h := hist{Stream: "savefail", SaveFail: true, Prm: lightParams[c.Intn(len(lightParams))], KeyTyp: []int{0, 0, []int{0, 1, 2}[c.Intn(3)], 0}}
	sch := func(slot int) int { return validScheme(c, h.KeyTyp[slot]) }
	imp := func(slot int, label string) opRec {
		return opRec{Kind: "import", Slot: slot, Label: label, Sch: sch(slot), Pwd: "pw" + string(rune('a'+slot)), IsDef: c.Intn(3) == 0}
	}
	pw := func(slot int) string { return "pw" + string(rune('a'+slot)) }
	h.Ops = []opRec{imp(0, "one"), imp(1, "two"), imp(2, "three")}
	var victim []opRec
	switch which % 10 {
	case 0:
		victim = []opRec{{Kind: "delete", Slot: 1, Pwd: pw(1)}} // middle
	case 1:
		victim = []opRec{{Kind: "delete", Slot: 2, Pwd: pw(2)}} // last
	case 2:
		h.Ops = append(h.Ops, opRec{Kind: "setdefault", Slot: 2})
		victim = []opRec{{Kind: "delete", Slot: 0, Pwd: pw(0)}} // first
	case 3:
		victim = []opRec{{Kind: "new", Slot: -1, Label: "fresh", Sch: 1, Pwd: "pwn"}}
	case 4:
		victim = []opRec{imp(3, "four")}
	case 5:
		victim = []opRec{{Kind: "chpwd", Slot: c.Intn(3), Pwd: "", New: "changed"}}
		victim[0].Pwd = pw(victim[0].Slot)
	case 6:
		victim = []opRec{{Kind: "setdefault", Slot: 1 + c.Intn(2)}}
	case 7:
		victim = []opRec{{Kind: "setlabel", Slot: c.Intn(3), Label: "renamed"}}
	case 8:
		victim = []opRec{{Kind: "chsch", Slot: 0, Sch: 2}, {Kind: "chsch", Slot: 1, Sch: 3}}
	default: // several in a row, with operations that fail for other reasons in between
		victim = []opRec{{Kind: "delete", Slot: 1, Pwd: "wrong"}, {Kind: "delete", Slot: 1, Pwd: pw(1)}, {Kind: "setlabel", Slot: 2, Label: "one"},
			{Kind: "setlabel", Slot: 2, Label: "z"}, {Kind: "chpwd", Slot: 0, Pwd: pw(0), New: "n0"}, {Kind: "reload", Slot: -1}}
	}
	h.Ops = append(h.Ops, opRec{Kind: "block"})
	h.Ops = append(h.Ops, victim...)
	h.Ops = append(h.Ops, opRec{Kind: "unblock"})
	if c.Intn(2) == 0 { // the same operations again, now they must succeed
		h.Ops = append(h.Ops, victim...)
	}
	h.Ops = append(h.Ops, opRec{Kind: "setlabel", Slot: 0, Label: "after"}) // a successful save
	return h, generator(c, &h, genCfg{nOps: c.Intn(5), allowNew: true, newWeight: 10})
}

func randKeyTypes(c *hx.Ctx, n int) []int {
	var kt []int
	for i := 0; i < n; i++ {
		kt = append(kt, []int{0, 0, 0, 0, 1, 2, 3, 4}[c.Intn(8)])
	}
	return kt
}

// Fixed histories kept as regression inputs: importing accounts whose metadata is flagged as default
// (read from another wallet's default account) must not move or duplicate the default flag.
func regressions() []hist {
	light := lightParams[0]
	imp := func(slot int, label string, isdef bool) opRec {
		return opRec{Kind: "import", Slot: slot, Label: label, Sch: 1, Pwd: "pw", IsDef: isdef, Hash: "sha256"}
	}
	def := prmArr(*keypair.GetScryptParameters())
	low := [4]int{4096, 8, 8, 64} // account.lowSecurityParam (`account export --low-security`)
	return []hist{
		// wallet A (default parameters, one account) is open; a wallet file with other parameters is
		// opened; A saves; A is re-opened: A's accounts must still open, A's file must keep its parameters
		{Stream: "regression:two-wallets", Prm: def, Multi: true, MaxPwd: 2, KeyTyp: []int{0}, Ops: []opRec{
			imp(0, "A", false), {Kind: "open", Slot: -1, Prm: &low}, {Kind: "setlabel", W: 0, Slot: 0, Label: "renamed"},
			{Kind: "reload", W: 0, Slot: -1}, {Kind: "new", W: 1, Slot: -1, Label: "b", Sch: 1, Pwd: "pw2"}}},
		{Stream: "regression:two-wallets", Prm: light, Multi: true, KeyTyp: []int{0, 0}, Ops: []opRec{
			imp(0, "A", false), {Kind: "open", Slot: -1, Prm: &[4]int{4, 1, 1, 64}}, {Kind: "import", W: 1, Slot: 0, Label: "A", Sch: 1, Pwd: "other"},
			{Kind: "chpwd", W: 0, Slot: 0, Pwd: "pw", New: "pw9"}, {Kind: "open", Slot: -1, Prm: &[4]int{16, 2, 1, 32}},
			{Kind: "import", W: 2, Slot: 1, Label: "", Sch: 1, Pwd: "pw"}, {Kind: "reload", W: 1, Slot: -1}, {Kind: "setdefault", W: 0, Slot: 0}}},
		{Stream: "regression:flagged-import", Prm: light, KeyTyp: []int{0, 0, 0, 0}, Ops: []opRec{
			imp(0, "A", false), imp(1, "B", false), imp(2, "X", true), imp(3, "Y", true), {Kind: "setdefault", Slot: 1},
			{Kind: "delete", Slot: 0, Pwd: "pw"}}},
		{Stream: "regression:flagged-import", Prm: light, KeyTyp: []int{0, 0}, Ops: []opRec{
			imp(0, "A", true), imp(1, "B", true), {Kind: "reload", Slot: -1}, {Kind: "delete", Slot: 1, Pwd: "pw"}}},
	}
}

func Run(c *hx.Ctx) {
	c.CoqModule("Corr.C38")
	seq := 0
	var rh hist
	if c.ReplayInput(&rh) {
		runHist(c, rh, seq, nil)
		return
	}
	// the fixed multi-wallet histories run first: a defect that leaks state from one client to another
	// (process-wide) must first show up inside a history that is self-contained, so that its replay
	// file reproduces it in a fresh process
	for _, h := range regressions() {
		seq++
		runHist(c, h, seq, nil)
	}
	for _, raw := range c.CorpusInputs() {
		var h hist
		if json.Unmarshal(raw, &h) == nil && len(h.Ops) > 0 {
			seq++
			runHist(c, h, seq, nil)
		}
	}
	def := prmArr(*keypair.GetScryptParameters())
	// time budget: if key derivation became slow everywhere (e.g. getAccount no longer uses the wallet's
	// light parameters) stop generating instead of running into the check's timeout
	start := time.Now()
	budget := time.Duration(c.N(150, 3000)) * time.Second
	over := func(stream string) bool {
		if time.Since(start) > budget {
			c.Note(fmt.Sprintf("time budget of %v exhausted in stream %s after %d histories", budget, stream, seq))
			return true
		}
		return false
	}
	// main stream: wallets with light scrypt parameters, histories outside the finding classes
	for i := 0; i < c.N(70, 1500) && !over("light"); i++ {
		h := hist{Stream: "light", Prm: lightParams[c.Intn(len(lightParams))], KeyTyp: randKeyTypes(c, 2+c.Intn(3))}
		seq++
		runHist(c, h, seq, generator(c, &h, genCfg{nOps: 3 + c.Intn(14), allowNew: i%3 == 0, newWeight: 10}))
	}
	// default parameters (slow key derivation): short histories with NewAccount
	for i := 0; i < c.N(2, 10) && !over("default"); i++ {
		h := hist{Stream: "default", Prm: def, KeyTyp: randKeyTypes(c, c.Intn(2)), MaxPwd: 2}
		h.Ops = []opRec{{Kind: "new", Slot: -1, Label: pick(c, labelPool), KeyTyp: i % 3, Sch: validScheme(c, i%3), Pwd: pick(c, pwdPool)}}
		seq++
		runHist(c, h, seq, generator(c, &h, genCfg{nOps: 2 + c.Intn(2), allowNew: true, newWeight: 30}))
	}
	// adversarial: imports of held addresses, empty new passwords, NewAccount on light wallets (the
	// three former defects; corpus/C38 holds their minimal witnesses)
	for i := 0; i < c.N(14, 140) && !over("adversarial"); i++ {
		h := hist{Stream: "adversarial", Prm: lightParams[c.Intn(len(lightParams))], KeyTyp: randKeyTypes(c, 1+c.Intn(3))}
		cfg := genCfg{nOps: 4 + c.Intn(10), allowDup: true, allowEmpty: true}
		if i%2 == 0 {
			cfg.allowNew, cfg.newWeight = true, 12
		}
		seq++
		runHist(c, h, seq, generator(c, &h, cfg))
	}
	// several wallets open in one process, each with its own scrypt parameters, operations interleaved
	low := [4]int{4096, 8, 8, 64}
	for i := 0; i < c.N(16, 200) && !over("multi"); i++ {
		h := hist{Stream: "multi", Multi: true, Prm: lightParams[c.Intn(len(lightParams))], KeyTyp: randKeyTypes(c, 2+c.Intn(2))}
		pool := append([][4]int{{8, 1, 1, 64}, {32, 1, 1, 40}}, lightParams...)
		cfg := genCfg{nOps: 8 + c.Intn(10), allowNew: true, newWeight: 10, allowDup: i%3 == 0, allowEmpty: i%3 == 0}
		if i%4 == 3 { // one wallet with slow key derivation (default or low-security parameters)
			h.Stream, h.MaxPwd = "multi-slow", 2
			slow := [][4]int{def, low}[c.Intn(2)]
			if c.Intn(2) == 0 {
				h.Prm = slow
			} else {
				pool = [][4]int{slow}
			}
			cfg.nOps = 6 + c.Intn(3)
		}
		seq++
		runHist(c, h, seq, multiGenerator(c, &h, cfg, 2+c.Intn(2), pool))
	}
	// save failures around every kind of mutating operation
	for i := 0; i < c.N(20, 200) && !over("savefail"); i++ {
		h, g := saveFailHistory(c, i)
		seq++
		runHist(c, h, seq, g)
	}
	// histories in which the caller breaks an obligation on imports (foreign parameters, empty password)
	for i := 0; i < c.N(10, 80) && !over("caller-bad"); i++ {
		h := hist{Stream: "caller-bad", Prm: lightParams[c.Intn(len(lightParams))], KeyTyp: randKeyTypes(c, 2+c.Intn(2))}
		seq++
		runHist(c, h, seq, generator(c, &h, genCfg{nOps: 4 + c.Intn(8), allowBadImp: true}))
	}
}
