package c36

import (
	"verif/harness/gen"
	"verif/harness/hx"
)

func init() {
	gen.RegisterFile("ConnCtrlProg.v", ProduceGen)
	hx.Register("C36", Run)
}

func Run(c *hx.Ctx) {
	c.CoqModule("Corr.C36")
}
