// Package c36: peer connection limits under concurrent AcceptConnect / Connect / Close.
//
// The driver runs SCHEDULES on the real p2pserver/connect_controller.ConnectController:
//
//	level A  the real AcceptConnect / Connect run in goroutines; every goroutine is held at its
//	         natural blocking points (reserve-filter lookup, dialer.Dial, start and end of the
//	         handshake on a net.Pipe whose other end the driver plays with the real
//	         handshake.HandshakeClient/Server) and released one at a time in schedule order, so
//	         the run is deterministic;
//	level B  the real mutex-protected sections called one by one through the add-only exporters
//	         in connect_controller/verif_hooks.go, in the order the translator extracted from the
//	         source, so every interleaving of single sections can be exercised.
//
// After every event the controller's whole bookkeeping (VerifSnapshot), the outcome of every
// attempt and the driver's own count of established connections are recorded; the Coq model
// (Corr/C36.v) re-executes the schedule and must agree at every step. The oracle checks the
// limits directly on the implementation after every event.
package c36

import (
	"encoding/json"
	"errors"
	"fmt"
	"net"
	"sort"
	"strconv"
	"strings"
	"sync"
	"time"

	pcom "github.com/ontio/ontology/p2pserver/common"
	cc "github.com/ontio/ontology/p2pserver/connect_controller"
	"github.com/ontio/ontology/p2pserver/handshake"
	"github.com/ontio/ontology/p2pserver/peer"

	"verif/harness/gen"
	"verif/harness/hx"
)

func init() {
	gen.RegisterFile("ConnCtrlProg.v", ProduceGen)
	hx.Register("C36", Run)
}

// ---------- schedules ----------

type Cfg struct {
	MaxIn    uint   `json:"max_in"`
	MaxOut   uint   `json:"max_out"`
	MaxPerIP uint   `json:"max_per_ip"`
	SelfID   uint64 `json:"self_id"`
}

type Event struct {
	Kind     string `json:"kind"` // spawn | run | adv | close
	Dir      string `json:"dir,omitempty"`
	IP       int    `json:"ip,omitempty"`
	Port     int    `json:"port,omitempty"`
	Pid      uint64 `json:"pid,omitempty"`
	LPort    uint16 `json:"lport,omitempty"`
	Reserved bool   `json:"reserved,omitempty"`
	DialOK   bool   `json:"dial_ok,omitempty"`
	HsOK     bool   `json:"hs_ok,omitempty"`
	Idx      int    `json:"idx"` // thread index (run/adv) or live-connection index (close)
}

type Sched struct {
	Level  string  `json:"level"` // "A" | "B"
	Name   string  `json:"name,omitempty"`
	Cfg    Cfg     `json:"cfg"`
	Events []Event `json:"events"`
}

// hostText: the model's host number -> the host text as common.ParseIPAddr yields it. Numbers
// >= 100 are hosts containing ':' (Model.ConnCtrl.host_has_colon). The pool mixes IPv4, IPv6,
// loopback, IPv4-mapped IPv6 and texts that are prefixes of one another.
var hostText = map[int]string{
	1: "10.0.0.1", 2: "10.0.0.2", 3: "10.0.0.20", 4: "1.2.3.4", 5: "1.2.3.40",
	101: "2001:db8::7", 102: "::1", 103: "::ffff:1.2.3.4", 104: "2001:db8::70",
}
var hostPool = []int{1, 2, 3, 4, 5, 101, 102, 103, 104}
var hostNum = func() map[string]int {
	m := map[string]int{}
	for k, v := range hostText {
		m[v] = k
	}
	return m
}()

func ipStr(ip int) string {
	if h, ok := hostText[ip]; ok {
		return h
	}
	return fmt.Sprintf("10.9.%d.%d", ip/256, ip%256)
}

// addrStr is what net.Conn.RemoteAddr().String() gives for that host: IPv6 hosts are bracketed.
func addrStr(ip, port int) string { return net.JoinHostPort(ipStr(ip), strconv.Itoa(port)) }

func hostToNum(h string) (int, bool) {
	if n, ok := hostNum[h]; ok {
		return n, true
	}
	var a, b int
	if _, err := fmt.Sscanf(h, "10.9.%d.%d", &a, &b); err == nil {
		return a*256 + b, true
	}
	return 0, false
}

// parseAddr maps a connection address ("1.2.3.4:p", "[2001:db8::7]:p") back to the model's pair.
func parseAddr(s string) (int, int, bool) {
	host, port, err := net.SplitHostPort(s)
	if err != nil {
		return 0, 0, false
	}
	x, ok := hostToNum(host)
	p, e2 := strconv.Atoi(port)
	return x, p, ok && e2 == nil
}

// parseJoined maps host + ":" + port (as isHandWithSelf and RemoteListenAddress build it, without
// brackets) back to the model's pair.
func parseJoined(s string) (int, int, bool) {
	i := strings.LastIndex(s, ":")
	if i < 0 {
		return 0, 0, false
	}
	x, ok := hostToNum(s[:i])
	p, e2 := strconv.Atoi(s[i+1:])
	return x, p, ok && e2 == nil
}

// ---------- shared pieces ----------

type recLogger struct {
	mu    sync.Mutex
	fatal bool
}

func (l *recLogger) Debug(a ...interface{})            {}
func (l *recLogger) Info(a ...interface{})             {}
func (l *recLogger) Warn(a ...interface{})             {}
func (l *recLogger) Error(a ...interface{})            {}
func (l *recLogger) Debugf(f string, a ...interface{}) {}
func (l *recLogger) Infof(f string, a ...interface{})  {}
func (l *recLogger) Warnf(f string, a ...interface{})  {}
func (l *recLogger) Errorf(f string, a ...interface{}) {}
func (l *recLogger) Fatal(a ...interface{})            { l.mu.Lock(); l.fatal = true; l.mu.Unlock() }
func (l *recLogger) Fatalf(f string, a ...interface{}) { l.mu.Lock(); l.fatal = true; l.mu.Unlock() }
func (l *recLogger) isFatal() bool                     { l.mu.Lock(); defer l.mu.Unlock(); return l.fatal }

type fakeAddr string

func (a fakeAddr) Network() string { return "tcp" }
func (a fakeAddr) String() string  { return string(a) }

const (
	outPending = "Pending"
	outDone    = "Done"
)

func errClass(err error) string {
	if err == nil {
		return outDone
	}
	if err == cc.ErrHandshakeSelf {
		return "Failed EHandshakeSelf"
	}
	s := err.Error()
	switch {
	case strings.Contains(s, "not in reserved list"):
		return "Failed ENotReserved"
	case strings.Contains(s, "already in connection records"):
		return "Failed EAlreadyBound"
	case strings.Contains(s, "connecting with self address"):
		return "Failed ESelfAddr"
	case strings.Contains(s, "connections reach max limit"):
		return "Failed EBoundFull"
	case strings.Contains(s, "has reach max limit"):
		return "Failed EIpFull"
	case strings.Contains(s, "node exist in connecting list"):
		return "Failed EConnecting"
	case strings.Contains(s, "verif: dial refused"):
		return "Failed EDial"
	case strings.Contains(s, "same peer id from different addr"):
		return "Failed EPeerIpMismatch"
	}
	return "Failed EHandshake"
}

type liveConn struct {
	conn net.Conn
	dir  string
	ip   int
	addr string
}

// runner is one controller under a schedule.
type runner interface {
	Spawn(e Event) error
	Step(tid int) error // level A: advance to the next blocking point; level B: one section
	Close(i int) error
	Ctrl() *cc.ConnectController
	Statuses() []string
	Windows() (in, out int)
	Holding() []string     // addresses of the Connect calls now between a successful tryAddConnecting and removeConnecting (dialer-side view)
	StartedOver() []string // per attempt: "" or the clause (count already >= limit when its check ran)
	Live() []liveConn
	Fatal() bool
	Shutdown()
}

func newController(cfg Cfg, filter *gateFilter, dialer cc.Dialer, logger pcom.Logger) *cc.ConnectController {
	opt := cc.NewConnCtrlOption().MaxInBound(cfg.MaxIn).MaxOutBound(cfg.MaxOut).MaxInBoundPerIp(cfg.MaxPerIP).WithDialer(dialer)
	opt.ReservedPeers = filter
	id := pcom.PseudoPeerIdFromUint64(cfg.SelfID)
	info := peer.NewPeerInfo(id, 1, 1, true, 0, 20338, 0, "", "")
	return cc.NewConnectController(info, &pcom.PeerKeyId{Id: id}, opt, logger)
}

func remoteInfo(pid uint64, lport uint16, addr string) *peer.PeerInfo {
	return peer.NewPeerInfo(pcom.PseudoPeerIdFromUint64(pid), 1, 1, true, 0, lport, 0, "", addr)
}

// ---------- level B: sections through the hooks ----------

type gateFilter struct {
	mu  sync.Mutex
	cur *threadA // level A: the goroutine being spawned
	ans bool     // level B: the answer for the current call
}

func (f *gateFilter) Contains(addr string) bool {
	f.mu.Lock()
	th := f.cur
	ans := f.ans
	f.mu.Unlock()
	if th == nil {
		return ans
	}
	th.events <- "g0"
	select {
	case <-th.release:
		return th.ev.Reserved
	case <-th.abort:
		return false
	}
}

type threadB struct {
	ev     Event
	addr   string
	prog   []progItem
	pc     int
	defers []string
	out    string
	over   string
	hold   bool
}

// countDir / countHost: the recorded entries, counted from a snapshot (not through the
// controller's own counting functions).
func countDir(st cc.VerifState, dir string) uint {
	if dir == "in" {
		return uint(len(st.Inbounds))
	}
	return uint(len(st.Outbounds))
}

func countHost(st cc.VerifState, host string) uint {
	n := uint(0)
	for _, a := range st.Inbounds {
		if h, _, err := net.SplitHostPort(a); err == nil && h == host {
			n++
		}
	}
	return n
}

// overClause: which limit is already reached for an attempt (dir, host) in this state.
func overClause(cfg Cfg, st cc.VerifState, dir string, host string, perIP bool) string {
	limit := cfg.MaxOut
	if dir == "in" {
		limit = cfg.MaxIn
	}
	if !perIP {
		if countDir(st, dir) >= limit {
			return dir + "bound-total"
		}
		return ""
	}
	if dir == "in" && countHost(st, host) >= cfg.MaxPerIP {
		return "inbound-per-ip"
	}
	return ""
}

type runnerB struct {
	cfg     Cfg
	prog    *Prog
	ctrl    *cc.ConnectController
	filter  *gateFilter
	logger  *recLogger
	threads []*threadB
	live    []liveConn
}

type noDialer struct{}

func (noDialer) Dial(string) (net.Conn, error) { return nil, errors.New("verif: dial refused") }

func newRunnerB(cfg Cfg, prog *Prog) *runnerB {
	r := &runnerB{cfg: cfg, prog: prog, filter: &gateFilter{}, logger: &recLogger{}}
	r.ctrl = newController(cfg, r.filter, noDialer{}, r.logger)
	return r
}

func (r *runnerB) Ctrl() *cc.ConnectController { return r.ctrl }
func (r *runnerB) Live() []liveConn            { return r.live }
func (r *runnerB) Fatal() bool                 { return r.logger.isFatal() }
func (r *runnerB) Shutdown()                   {}

func (r *runnerB) Spawn(e Event) error {
	t := &threadB{ev: e, addr: addrStr(e.IP, e.Port), out: outPending}
	if e.Dir == "in" {
		t.prog = r.prog.Accept
	} else {
		t.prog = r.prog.Connect
	}
	r.threads = append(r.threads, t)
	return nil
}

type stubConn struct {
	net.Conn
	raddr string
}

func (c *stubConn) RemoteAddr() net.Addr { return fakeAddr(c.raddr) }
func (c *stubConn) Close() error         { return nil }

func cmpGo(op string, a, b uint) bool {
	switch op {
	case ">=":
		return a >= b
	case ">":
		return a > b
	case "==":
		return a == b
	case "!=":
		return a != b
	case "<":
		return a < b
	case "<=":
		return a <= b
	}
	return false
}

// execB runs one section of thread t on the real controller; returns the error class ("" = ok).
func (r *runnerB) execB(t *threadB, op string) string {
	idx := cc.INBOUND_INDEX
	if t.ev.Dir == "out" {
		idx = cc.OUTBOUND_INDEX
	}
	pinfo := remoteInfo(t.ev.Pid, t.ev.LPort, t.addr)
	switch op {
	case "OpReserved":
		r.filter.mu.Lock()
		r.filter.ans = t.ev.Reserved
		r.filter.mu.Unlock()
		if r.ctrl.VerifCheckReservedPeers(t.addr) != nil {
			return "ENotReserved"
		}
	case "OpHasBound":
		if r.ctrl.VerifHasBoundAddr(t.addr) {
			return "EAlreadyBound"
		}
	case "OpOwn":
		if r.ctrl.OwnAddress() == t.addr {
			return "ESelfAddr"
		}
	case "OpFull":
		if cl := overClause(r.cfg, r.ctrl.VerifSnapshot(), t.ev.Dir, ipStr(t.ev.IP), false); cl != "" && t.over == "" {
			t.over = cl
		}
		if r.ctrl.VerifIsBoundFull(idx) {
			return "EBoundFull"
		}
	case "OpIpCount":
		if cl := overClause(r.cfg, r.ctrl.VerifSnapshot(), t.ev.Dir, ipStr(t.ev.IP), true); cl != "" && t.over == "" {
			t.over = cl
		}
		if cmpGo(r.prog.CmpIP, r.ctrl.VerifInboundCountWithIp(ipStr(t.ev.IP)), r.cfg.MaxPerIP) {
			return "EIpFull"
		}
	case "OpTryConnecting":
		if !r.ctrl.VerifTryAddConnecting(t.addr) {
			return "EConnecting"
		}
		t.hold = true
	case "OpDial":
		if !t.ev.DialOK {
			return "EDial"
		}
	case "OpHandshake":
		if !t.ev.HsOK {
			return "EHandshake"
		}
	case "OpSelfCheck":
		if err := r.ctrl.VerifIsHandWithSelf(pinfo, t.addr); err != nil {
			return "EHandshakeSelf"
		}
	case "OpGetPeer":
		if err := r.ctrl.VerifCheckPeerIdAndIP(pinfo, t.addr); err != nil {
			return "EPeerIpMismatch"
		}
	case "OpSave":
		w := r.ctrl.VerifSavePeer(&stubConn{raddr: t.addr}, pinfo, idx)
		r.live = append(r.live, liveConn{conn: w, dir: t.ev.Dir, ip: t.ev.IP, addr: t.addr})
	case "OpRemoveConnecting":
		r.ctrl.VerifRemoveConnecting(t.addr)
		t.hold = false
	default:
		panic("c36: unknown op " + op)
	}
	return ""
}

// Step mirrors Model.ConnCtrl.run_thread.
func (r *runnerB) Step(tid int) error {
	if tid < 0 || tid >= len(r.threads) {
		return nil
	}
	t := r.threads[tid]
	if t.out != outPending {
		if len(t.defers) > 0 {
			op := t.defers[0]
			t.defers = t.defers[1:]
			r.execB(t, op)
		}
		return nil
	}
	if t.pc >= len(t.prog) {
		t.out = outDone
		return nil
	}
	it := t.prog[t.pc]
	t.pc++
	if it.Defer {
		t.defers = append([]string{it.Op}, t.defers...)
	} else if e := r.execB(t, it.Op); e != "" {
		t.out = "Failed " + e
		return nil
	}
	if t.pc >= len(t.prog) {
		t.out = outDone
	}
	return nil
}

func (r *runnerB) Close(i int) error {
	if i < 0 || i >= len(r.live) {
		return nil
	}
	k := r.live[i]
	r.live = append(r.live[:i:i], r.live[i+1:]...)
	return k.conn.Close()
}

func (r *runnerB) Statuses() []string {
	var s []string
	for _, t := range r.threads {
		s = append(s, t.out)
	}
	return s
}

func (r *runnerB) Holding() []string {
	var s []string
	for _, t := range r.threads {
		if t.hold {
			s = append(s, t.addr)
		}
	}
	return s
}

func (r *runnerB) StartedOver() []string {
	var s []string
	for _, t := range r.threads {
		s = append(s, t.over)
	}
	return s
}

func isCheckOp(op string) bool { return op == "OpHasBound" || op == "OpFull" || op == "OpIpCount" }

func (r *runnerB) Windows() (in, out int) {
	for _, t := range r.threads {
		if t.out != outPending {
			continue
		}
		checked, saveAhead := false, false
		for i, it := range t.prog {
			if it.Defer {
				continue
			}
			if i < t.pc && isCheckOp(it.Op) {
				checked = true
			}
			if i >= t.pc && it.Op == "OpSave" {
				saveAhead = true
			}
		}
		if checked && saveAhead {
			if t.ev.Dir == "in" {
				in++
			} else {
				out++
			}
		}
	}
	return
}

// ---------- level A: the real AcceptConnect / Connect in goroutines ----------

type resultA struct {
	conn net.Conn
	err  error
}

type threadA struct {
	ev      Event
	addr    string
	events  chan string   // arrival at a blocking point: g0 (filter), gD (dial), g1/g2 (handshake start/end)
	release chan struct{} // one token per release
	abort   chan struct{}
	done    chan resultA
	at      string // where the goroutine is parked ("" = returned)
	out     string
	remote  net.Conn // the driver's end of the pipe
	local   net.Conn
	hsDone  chan struct{}
	over    string
}

// gatedConn is the controller's end of the pipe: RemoteAddr is the scheduled address, and the two
// SetDeadline calls that bracket the handshake are blocking points.
type gatedConn struct {
	net.Conn
	th    *threadA
	calls int
}

func (c *gatedConn) RemoteAddr() net.Addr { return fakeAddr(c.th.addr) }

func (c *gatedConn) SetDeadline(t time.Time) error {
	c.calls++
	point := "g1"
	if c.calls == 2 {
		point = "g2"
	} else if c.calls > 2 {
		return nil
	}
	select {
	case <-c.th.abort:
		return nil
	default:
	}
	c.th.events <- point
	select {
	case <-c.th.release:
	case <-c.th.abort:
	}
	return nil
}

type runnerA struct {
	cfg     Cfg
	ctrl    *cc.ConnectController
	filter  *gateFilter
	logger  *recLogger
	threads []*threadA
	live    []liveConn
	dialMu  sync.Mutex
	dialCur *threadA
}

func (r *runnerA) Dial(addr string) (net.Conn, error) {
	r.dialMu.Lock()
	th := r.dialCur
	r.dialMu.Unlock()
	if th == nil {
		return nil, errors.New("verif: dial refused")
	}
	th.events <- "gD"
	select {
	case <-th.release:
	case <-th.abort:
		return nil, errors.New("verif: dial refused")
	}
	if !th.ev.DialOK {
		return nil, errors.New("verif: dial refused")
	}
	return &gatedConn{Conn: th.local, th: th}, nil
}

func newRunnerA(cfg Cfg) *runnerA {
	r := &runnerA{cfg: cfg, filter: &gateFilter{}, logger: &recLogger{}}
	r.ctrl = newController(cfg, r.filter, r, r.logger)
	return r
}

func (r *runnerA) Ctrl() *cc.ConnectController { return r.ctrl }
func (r *runnerA) Live() []liveConn            { return r.live }
func (r *runnerA) Fatal() bool                 { return r.logger.isFatal() }

const stepTimeout = 20 * time.Second

// wait blocks until goroutine th parks again or returns.
func (r *runnerA) wait(th *threadA) error {
	select {
	case p := <-th.events:
		th.at = p
		return nil
	case res := <-th.done:
		th.at = ""
		th.out = errClass(res.err)
		if res.err == nil {
			r.live = append(r.live, liveConn{conn: res.conn, dir: th.ev.Dir, ip: th.ev.IP, addr: th.addr})
		}
		return nil
	case <-time.After(stepTimeout):
		return fmt.Errorf("goroutine of attempt %s stuck after %s", th.addr, th.at)
	}
}

func (r *runnerA) Spawn(e Event) error {
	a, b := net.Pipe()
	th := &threadA{ev: e, addr: addrStr(e.IP, e.Port), events: make(chan string, 4), release: make(chan struct{}, 4),
		abort: make(chan struct{}), done: make(chan resultA, 1), out: outPending, local: a, remote: b}
	r.threads = append(r.threads, th)
	r.filter.mu.Lock()
	r.filter.cur = th
	r.filter.mu.Unlock()
	if e.Dir == "in" {
		fc := &gatedConn{Conn: a, th: th}
		go func() {
			_, w, err := r.ctrl.AcceptConnect(fc)
			th.done <- resultA{w, err}
		}()
	} else {
		go func() {
			_, w, err := r.ctrl.Connect(th.addr)
			th.done <- resultA{w, err}
		}()
	}
	return r.wait(th) // parks in the reserve filter before touching the controller's state
}

func (r *runnerA) Step(tid int) error {
	if tid < 0 || tid >= len(r.threads) {
		return nil
	}
	th := r.threads[tid]
	switch th.at {
	case "":
		return nil
	case "g0":
		// all of beforeHandshakeCheck runs in this release and nothing else runs meanwhile: the
		// counts its checks will read are the ones recorded now
		st := r.ctrl.VerifSnapshot()
		th.over = overClause(r.cfg, st, th.ev.Dir, ipStr(th.ev.IP), false)
		if th.over == "" {
			th.over = overClause(r.cfg, st, th.ev.Dir, ipStr(th.ev.IP), true)
		}
		r.dialMu.Lock()
		r.dialCur = th
		r.dialMu.Unlock()
		th.release <- struct{}{}
		return r.wait(th)
	case "gD":
		th.release <- struct{}{}
		return r.wait(th)
	case "g1":
		th.hsDone = make(chan struct{})
		if th.ev.HsOK {
			ri := remoteInfo(th.ev.Pid, th.ev.LPort, "")
			key := &pcom.PeerKeyId{Id: ri.Id}
			go func() {
				if th.ev.Dir == "in" {
					_, _ = handshake.HandshakeClient(ri, key, th.remote)
				} else {
					_, _ = handshake.HandshakeServer(ri, key, th.remote)
				}
				close(th.hsDone)
			}()
		} else {
			_ = th.remote.Close()
			close(th.hsDone)
		}
		th.release <- struct{}{}
		if err := r.wait(th); err != nil {
			return err
		}
		if th.at == "g2" && !th.ev.HsOK {
			// the handshake failed: nothing to pause for, let the call return
			th.release <- struct{}{}
			return r.wait(th)
		}
		return nil
	case "g2":
		th.release <- struct{}{}
		return r.wait(th)
	}
	return fmt.Errorf("unknown park point %q", th.at)
}

func (r *runnerA) Close(i int) error {
	if i < 0 || i >= len(r.live) {
		return nil
	}
	k := r.live[i]
	r.live = append(r.live[:i:i], r.live[i+1:]...)
	return k.conn.Close()
}

func (r *runnerA) Statuses() []string {
	var s []string
	for _, t := range r.threads {
		s = append(s, t.out)
	}
	return s
}

// Holding: a Connect goroutine parked in Dial or in the handshake has passed tryAddConnecting and
// has not returned.
func (r *runnerA) Holding() []string {
	var s []string
	for _, t := range r.threads {
		if t.ev.Dir == "out" && (t.at == "gD" || t.at == "g1" || t.at == "g2") {
			s = append(s, t.addr)
		}
	}
	return s
}

func (r *runnerA) StartedOver() []string {
	var s []string
	for _, t := range r.threads {
		s = append(s, t.over)
	}
	return s
}

// Windows: an attempt released past the reserve filter has run its checks; until it returns it is
// between its checks and savePeer (or about to fail).
func (r *runnerA) Windows() (in, out int) {
	for _, t := range r.threads {
		if t.at == "gD" || t.at == "g1" || t.at == "g2" {
			if t.ev.Dir == "in" {
				in++
			} else {
				out++
			}
		}
	}
	return
}

func (r *runnerA) Shutdown() {
	for _, t := range r.threads {
		if t.at == "" {
			continue
		}
		close(t.abort)
		_ = t.remote.Close()
		_ = t.local.Close()
		select {
		case <-t.done:
		case <-time.After(stepTimeout):
		}
	}
	for _, k := range r.live {
		_ = k.conn.Close()
	}
}

// ---------- observation, oracle, Coq terms ----------

type obsRec struct {
	snap     cc.VerifState
	fatal    bool
	status   []string
	winIn    int
	winOut   int
	liveIn   int
	liveOut  int
	livePerI map[int]int
}

func observe(r runner) obsRec {
	o := obsRec{snap: r.Ctrl().VerifSnapshot(), fatal: r.Fatal(), status: r.Statuses(), livePerI: map[int]int{}}
	o.winIn, o.winOut = r.Windows()
	for _, k := range r.Live() {
		if k.dir == "in" {
			o.liveIn++
			o.livePerI[k.ip]++
		} else {
			o.liveOut++
		}
	}
	return o
}

func coqAddr(s string) string {
	ip, port, ok := parseAddr(s)
	if !ok {
		return "(999999, 0)"
	}
	return fmt.Sprintf("(%d, %d)", ip, port)
}

func coqAddrList(l []string) string {
	var s []string
	for _, a := range l {
		s = append(s, coqAddr(a))
	}
	return hx.CoqList(s)
}

func coqJoined(s string) string {
	ip, port, ok := parseJoined(s)
	if !ok {
		return "(999999, 0)"
	}
	return fmt.Sprintf("(%d, %d)", ip, port)
}

func coqJoinedList(l []string) string {
	var s []string
	for _, a := range l {
		s = append(s, coqJoined(a))
	}
	return hx.CoqList(s)
}

func (o obsRec) coqThreads() string {
	return fmt.Sprintf("%s %d %d", hx.CoqList(o.status), o.winIn, o.winOut)
}

func (o obsRec) coqCtrl() string {
	var peers []string
	for _, p := range o.snap.Peers {
		peers = append(peers, fmt.Sprintf("(%d, (%d, %s))", p.Id, p.ConnectId, coqAddr(p.Addr)))
	}
	own := "None"
	if o.snap.OwnAddr != "" {
		own = "(Some " + coqJoined(o.snap.OwnAddr) + ")"
	}
	return fmt.Sprintf("%s %s %s %s %s %s %d %s|%d %d",
		coqAddrList(o.snap.Inbounds), coqAddrList(o.snap.Outbounds), coqJoinedList(o.snap.InboundListen),
		coqAddrList(o.snap.Connecting), hx.CoqList(peers), own, o.snap.NextConnectId, hx.CoqBool(o.fatal),
		o.liveIn, o.liveOut)
}

// coq renders the observation relative to the previous one (prevCtrl/prevThr are updated).
func (o obsRec) coq(prevCtrl, prevThr *string) string {
	ct, th := o.coqCtrl(), o.coqThreads()
	defer func() { *prevCtrl, *prevThr = ct, th }()
	switch {
	case ct == *prevCtrl && th == *prevThr:
		return "Same"
	case ct == *prevCtrl:
		return "(ObsT " + th + ")"
	}
	parts := strings.SplitN(ct, "|", 2)
	return "(Obs " + parts[0] + " " + th + " " + parts[1] + ")"
}

func coqDir(d string) string {
	if d == "in" {
		return "Inbound"
	}
	return "Outbound"
}

func (e Event) coq() string {
	switch e.Kind {
	case "spawn":
		return fmt.Sprintf("(SE (Spawn %s (%d, %d) %d %d %s %s %s))", coqDir(e.Dir), e.IP, e.Port, e.Pid, e.LPort,
			hx.CoqBool(e.Reserved), hx.CoqBool(e.DialOK), hx.CoqBool(e.HsOK))
	case "run":
		return fmt.Sprintf("(SE (Run %d))", e.Idx)
	case "adv":
		return fmt.Sprintf("(SAdv %d)", e.Idx)
	case "close":
		return fmt.Sprintf("(SE (Close %d))", e.Idx)
	}
	panic("c36: bad event kind " + e.Kind)
}

func (c Cfg) coq() string {
	return fmt.Sprintf("{| max_in := %d; max_out := %d; max_per_ip := %d; self_id := %d |}", c.MaxIn, c.MaxOut, c.MaxPerIP, c.SelfID)
}

const findingClass = "toctou:limit-check-then-savePeer"
const overClass = "limit:attempt-started-at-or-over-limit-recorded"

type verdict struct {
	class, clause string
	got, want     interface{}
}

// oracle checks the limits on the implementation after one event. maxWin* are the largest numbers
// of same-direction attempts seen simultaneously inside their window so far in this schedule.
func oracle(r runner, cfg Cfg, o obsRec, maxWinIn, maxWinOut int, ips []int) *verdict {
	classify := func(clause string, count, limit uint, maxWin int, live bool) *verdict {
		if count <= limit {
			return nil
		}
		over := int(count - limit)
		cls := "limit:" + clause
		if maxWin >= 2 && (live || over <= maxWin-1) {
			cls = findingClass
		}
		return &verdict{cls, clause, count, fmt.Sprintf("<= %d (at most %d overlapping attempts so far)", limit, maxWin)}
	}
	ctrl := r.Ctrl()
	if got := ctrl.InboundsCount(); got != uint(len(o.snap.Inbounds)) {
		return &verdict{"limit:InboundsCount-inconsistent", "InboundsCount equals the size of the inbound set", got, len(o.snap.Inbounds)}
	}
	if got := ctrl.OutboundsCount(); got != uint(len(o.snap.Outbounds)) {
		return &verdict{"limit:OutboundsCount-inconsistent", "OutboundsCount equals the size of the outbound set", got, len(o.snap.Outbounds)}
	}
	if v := classify("inbound-recorded", ctrl.InboundsCount(), cfg.MaxIn, maxWinIn, false); v != nil {
		return v
	}
	if v := classify("outbound-recorded", ctrl.OutboundsCount(), cfg.MaxOut, maxWinOut, false); v != nil {
		return v
	}
	for _, ip := range ips {
		// counted here from the recorded inbound addresses (net.SplitHostPort), not through the
		// controller's own getInboundCountWithIp
		n := uint(0)
		for _, a := range o.snap.Inbounds {
			if h, _, err := net.SplitHostPort(a); err == nil && h == ipStr(ip) {
				n++
			}
		}
		if v := classify("per-ip-recorded", n, cfg.MaxPerIP, maxWinIn, false); v != nil {
			return v
		}
	}
	if v := classify("inbound-established", uint(o.liveIn), cfg.MaxIn, maxWinIn, true); v != nil {
		return v
	}
	if v := classify("outbound-established", uint(o.liveOut), cfg.MaxOut, maxWinOut, true); v != nil {
		return v
	}
	for _, ip := range ips {
		if v := classify("per-ip-established", uint(o.livePerI[ip]), cfg.MaxPerIP, maxWinIn, true); v != nil {
			return v
		}
	}
	return nil
}

func dup(l []string) string {
	seen := map[string]bool{}
	for _, a := range l {
		if seen[a] {
			return a
		}
		seen[a] = true
	}
	return ""
}

var earlyRefusals = map[string]bool{"Failed ENotReserved": true, "Failed EAlreadyBound": true, "Failed ESelfAddr": true,
	"Failed EBoundFull": true, "Failed EIpFull": true, "Failed EConnecting": true}

// connOracle: (a) never two Connect calls to one address between tryAddConnecting and
// removeConnecting, never two established outbound connections to one address; (b) established
// outbound connections (the dialer's live conns) never exceed the recorded ones; (c) an attempt
// refused by a pre-handshake check or by tryAddConnecting changes nothing, neither in the step that
// refuses it nor in anything it runs afterwards. At level B single sections interleave, so two
// overlapping attempts can legitimately (known finding) end up connected to one address: (a2) and
// (b) are then reported only when no two outbound attempts ever overlapped; at level A (real
// Connect) they are unconditional.
func connOracle(r runner, level string, e Event, o obsRec, preSnap string, preStatus []string, maxWinOut int, refusedEarly map[int]bool) (vs []*verdict) {
	if a := dup(r.Holding()); a != "" {
		vs = append(vs, &verdict{"connecting:two-dials-in-flight-same-address", "mutual exclusion per address between tryAddConnecting and removeConnecting", a, "at most one"})
	}
	var outs []string
	for _, k := range r.Live() {
		if k.dir == "out" {
			outs = append(outs, k.addr)
		}
	}
	strict := level == "A" || maxWinOut < 2
	if a := dup(outs); a != "" && strict {
		vs = append(vs, &verdict{"connecting:two-live-outbound-same-address", "at most one established outbound connection per address", a, "at most one"})
	}
	if len(outs) > len(o.snap.Outbounds) && strict {
		vs = append(vs, &verdict{"limit:live-outbound-exceeds-recorded", "established outbound connections (dialer side) <= recorded outbound entries", len(outs), len(o.snap.Outbounds)})
	}
	if e.Kind == "run" || e.Kind == "adv" {
		post := fmt.Sprintf("%v", o.snap)
		tid := e.Idx
		if tid >= 0 && tid < len(o.status) && tid < len(preStatus) {
			if preStatus[tid] == outPending && earlyRefusals[o.status[tid]] {
				refusedEarly[tid] = true
				if post != preSnap {
					vs = append(vs, &verdict{"connecting:refused-attempt-changed-state", "a refused attempt (" + o.status[tid] + ") changes nothing", post, preSnap})
				}
			} else if refusedEarly[tid] && post != preSnap {
				vs = append(vs, &verdict{"connecting:refused-attempt-changed-state", "a refused attempt runs nothing that changes the state afterwards", post, preSnap})
			}
		}
	}
	return vs
}

// nextFn yields the next event of a schedule given the state of the run so far (generated
// schedules pick among the attempts that have not returned yet); ok=false ends the schedule.
type nextFn func(r runner, i int) (Event, bool)

func fixed(evs []Event) nextFn {
	return func(_ runner, i int) (Event, bool) {
		if i < len(evs) {
			return evs[i], true
		}
		return Event{}, false
	}
}

// runSched executes one schedule on a fresh controller; emits the correspondence case and
// reports the first oracle failure. The executed events are recorded in s.Events.
func runSched(c *hx.Ctx, prog *Prog, s Sched, next nextFn) {
	var r runner
	if s.Level == "A" {
		r = newRunnerA(s.Cfg)
	} else {
		r = newRunnerB(s.Cfg, prog)
	}
	defer r.Shutdown()
	if next == nil {
		next = fixed(s.Events)
		s.Events = nil
	}
	ipset := map[int]bool{}
	var steps []string
	maxWinIn, maxWinOut := 0, 0
	failed := false
	failedOver := false
	failedConn := map[string]bool{}
	refusedEarly := map[int]bool{}
	saves := 0
	prevCtrl, prevThr := "", ""
	for i := 0; ; i++ {
		e, ok := next(r, i)
		if !ok {
			break
		}
		s.Events = append(s.Events, e)
		preSnap := fmt.Sprintf("%v", r.Ctrl().VerifSnapshot())
		preStatus := r.Statuses()
		var err error
		switch e.Kind {
		case "spawn":
			ipset[e.IP] = true
			err = r.Spawn(e)
		case "run", "adv":
			if (e.Kind == "adv") != (s.Level == "A") {
				err = fmt.Errorf("event kind %s not valid at level %s", e.Kind, s.Level)
			} else {
				err = r.Step(e.Idx)
			}
		case "close":
			err = r.Close(e.Idx)
		default:
			err = fmt.Errorf("unknown event kind %q", e.Kind)
		}
		c.Eval()
		c.Count("event:" + s.Level + ":" + e.Kind)
		if err != nil {
			c.Fail("driver:stuck", "the schedule can be executed on the implementation", s, err.Error(), nil)
			return
		}
		o := observe(r)
		if o.winIn > maxWinIn {
			maxWinIn = o.winIn
		}
		if o.winOut > maxWinOut {
			maxWinOut = o.winOut
		}
		saves = int(o.snap.NextConnectId)
		steps = append(steps, "("+e.coq()+", "+o.coq(&prevCtrl, &prevThr)+")")
		if !failed {
			var ips []int
			for ip := range ipset {
				ips = append(ips, ip)
			}
			sort.Ints(ips)
			if v := oracle(r, s.Cfg, o, maxWinIn, maxWinOut, ips); v != nil {
				failed = true
				c.Fail(v.class, v.clause, s, v.got, v.want)
				c.Count("oracle:" + v.class)
			}
		}
		// clauses about the connecting mark and the dialer-side view, independent of the model
		for _, v := range connOracle(r, s.Level, e, o, preSnap, preStatus, maxWinOut, refusedEarly) {
			if !failedConn[v.class] { // each class once per schedule, with the history up to here
				failedConn[v.class] = true
				c.Fail(v.class, v.clause, s, v.got, v.want)
				c.Count("oracle:" + v.class)
			}
		}
		// separate clause, never in the known-finding class: an attempt whose limit check ran when
		// the recorded count was already at or over the limit must not end up recorded
		// (Coq: c36_started_at_limit_never_recorded)
		if !failedOver {
			over := r.StartedOver()
			for ti, st := range o.status {
				if st == outDone && ti < len(over) && over[ti] != "" {
					failedOver = true
					c.Fail(overClass, over[ti], s, fmt.Sprintf("attempt %d succeeded", ti),
						"refused: the recorded count was already >= the limit when its check ran")
					c.Count("oracle:" + overClass)
					break
				}
			}
		}
	}
	for _, st := range r.Statuses() {
		c.Count("outcome:" + strings.TrimPrefix(st, "Failed "))
	}
	mw := maxWinIn
	if maxWinOut > mw {
		mw = maxWinOut
	}
	c.Count(fmt.Sprintf("max_overlap:%d", mw))
	c.Count(fmt.Sprintf("attempts:%d", len(r.Statuses())))
	if len(s.Events) >= 6 && saves >= 1 {
		b, _ := json.Marshal(s)
		c.Nontrivial(string(b))
	}
	c.Case(fmt.Sprintf("(CSched %s %s)", s.Cfg.coq(), hx.CoqList(steps)), s)
	if s.Name != "" || c.Rng.Intn(40) == 0 {
		c.Sample(map[string]interface{}{"schedule": s, "final_inbounds": r.Ctrl().InboundsCount(), "final_outbounds": r.Ctrl().OutboundsCount(),
			"outcomes": r.Statuses(), "max_overlap": mw})
	}
}

// ---------- generators ----------

func spawnEv(dir string, ip, port int, pid uint64, lport uint16) Event {
	return Event{Kind: "spawn", Dir: dir, IP: ip, Port: port, Pid: pid, LPort: lport, Reserved: true, DialOK: true, HsOK: true}
}

func rep(e Event, n int) []Event {
	var l []Event
	for i := 0; i < n; i++ {
		l = append(l, e)
	}
	return l
}

func cat(ls ...[]Event) []Event {
	var l []Event
	for _, x := range ls {
		l = append(l, x...)
	}
	return l
}

// witnesses are the schedules of Proofs/C36.v (w_sched_in, w_sched_ip, w_sched_out), at both levels.
func witnesses() []Sched {
	run := func(i int) Event { return Event{Kind: "run", Idx: i} }
	adv := func(i int) Event { return Event{Kind: "adv", Idx: i} }
	cIn := Cfg{1, 1, 1, 99}
	cIP := Cfg{10, 10, 1, 99}
	in2 := []Event{spawnEv("in", 1, 5001, 11, 20338), spawnEv("in", 2, 5002, 12, 20338)}
	ip2 := []Event{spawnEv("in", 1, 5001, 11, 20338), spawnEv("in", 1, 5002, 12, 20339)}
	out2 := []Event{spawnEv("out", 1, 20338, 11, 20338), spawnEv("out", 2, 20338, 12, 20338)}
	bIn := cat(rep(run(0), 5), rep(run(1), 5), rep(run(0), 4), rep(run(1), 4))
	bOut := cat(rep(run(0), 4), rep(run(1), 4), rep(run(0), 8), rep(run(1), 8))
	// level A: checks of 0, checks of 1, then handshake+save of 0, handshake+save of 1
	aIn := []Event{adv(0), adv(1), adv(0), adv(0), adv(1), adv(1)}
	aOut := []Event{adv(0), adv(1), adv(0), adv(0), adv(0), adv(1), adv(1), adv(1)}
	return []Sched{
		{Level: "A", Name: "F13 inbound total, real AcceptConnect", Cfg: cIn, Events: cat(in2, aIn)},
		{Level: "A", Name: "F13 inbound per IP, real AcceptConnect", Cfg: cIP, Events: cat(ip2, aIn)},
		{Level: "A", Name: "F13 outbound, real Connect", Cfg: cIn, Events: cat(out2, aOut)},
		{Level: "B", Name: "w_sched_in", Cfg: cIn, Events: cat(in2, bIn)},
		{Level: "B", Name: "w_sched_ip", Cfg: cIP, Events: cat(ip2, bIn)},
		{Level: "B", Name: "w_sched_out", Cfg: cIn, Events: cat(out2, bOut)},
	}
}

func genCfgChurn(c *hx.Ctx) Cfg {
	per := []uint{1, 2, 2, 3, 8}
	return Cfg{MaxIn: uint(1 + c.Rng.Intn(3)), MaxOut: uint(1 + c.Rng.Intn(3)), MaxPerIP: per[c.Rng.Intn(len(per))], SelfID: 99}
}

func genCfg(c *hx.Ctx) Cfg {
	per := []uint{0, 1, 1, 2, 2, 8}
	return Cfg{MaxIn: uint(c.Rng.Intn(4)), MaxOut: uint(c.Rng.Intn(4)), MaxPerIP: per[c.Rng.Intn(len(per))], SelfID: 99}
}

func genSpawn(c *hx.Ctx, churn bool, outOf4 int, hosts []int) Event {
	if churn {
		// few hosts, many distinct ports, no environment failures: fills the limits quickly
		e := Event{Kind: "spawn", IP: hosts[c.Rng.Intn(len(hosts))], Pid: uint64(11 + c.Rng.Intn(8)), LPort: uint16(20338 + c.Rng.Intn(3)),
			Reserved: true, DialOK: true, HsOK: true}
		if c.Rng.Intn(4) >= outOf4 {
			e.Dir = "in"
			e.Port = 5001 + c.Rng.Intn(12)
		} else {
			e.Dir = "out"
			e.Port = 20338 + c.Rng.Intn(2)
		}
		return e
	}
	e := Event{Kind: "spawn", IP: hosts[c.Rng.Intn(len(hosts))], Pid: uint64(11 + c.Rng.Intn(4)), LPort: uint16(20338 + c.Rng.Intn(2)),
		Reserved: c.Rng.Intn(12) != 0, DialOK: c.Rng.Intn(10) != 0, HsOK: c.Rng.Intn(10) != 0}
	if c.Rng.Intn(25) == 0 {
		e.Pid = 99 // the node connects to itself
	}
	if c.Rng.Intn(5) < 3 {
		e.Dir = "in"
		e.Port = 5001 + c.Rng.Intn(4)
	} else {
		e.Dir = "out"
		e.Port = 20338 + c.Rng.Intn(2)
	}
	return e
}

func pendingThreads(r runner) []int {
	var l []int
	for i, st := range r.Statuses() {
		if st == outPending {
			l = append(l, i)
		}
	}
	return l
}

// genNext: sequential = every attempt runs until it has returned before the next one starts
// (never in the finding class); otherwise a random interleaving of the attempts in flight, with
// new attempts and closes mixed in. Level B attempts that have failed/returned still get an
// occasional extra step (their deferred call; or a no-op, which must be a no-op in the model too).
func genNext(c *hx.Ctx, level string, mode int) nextFn {
	stepKind := "run"
	if level == "A" {
		stepKind = "adv"
	}
	sequential := mode <= 1
	churn := mode == 1
	nThreads := 2 + c.Rng.Intn(4)
	closeOneIn := 4
	outOf4 := []int{0, 1, 3, 4}[c.Rng.Intn(4)] // share of outbound attempts in a churn schedule
	// the hosts of this schedule: 3 of the pool (2 for churn), so that limits per host are reached;
	// picking neighbours in the pool makes prefix pairs (10.0.0.2 / 10.0.0.20) and v4/v6 mixes common
	nh := 3
	if mode == 1 {
		nh = 2
	}
	start := c.Rng.Intn(len(hostPool))
	var hosts []int
	for i := 0; i < nh; i++ {
		hosts = append(hosts, hostPool[(start+i)%len(hostPool)])
	}
	if c.Rng.Intn(2) == 0 {
		hosts[0] = hostPool[5+c.Rng.Intn(4)] // make sure IPv6 remotes are frequent
	}
	for _, h := range hosts {
		if h >= 100 {
			c.Count("hosts:ipv6")
		} else {
			c.Count("hosts:ipv4")
		}
	}
	if churn {
		nThreads = 5 + c.Rng.Intn(4)
		closeOneIn = 2
	}
	spawned := 0
	tail := 0
	return func(r runner, i int) (Event, bool) {
		if i > 120 {
			return Event{}, false
		}
		pend := pendingThreads(r)
		nlive := len(r.Live())
		if sequential {
			if level == "B" && len(pend) == 0 && spawned > 0 && tail == 0 {
				tail = 1 // one more step of the last attempt: runs its deferred call if any
				return Event{Kind: stepKind, Idx: spawned - 1}, true
			}
			if len(pend) > 0 {
				return Event{Kind: stepKind, Idx: pend[0]}, true
			}
			if nlive > 0 && c.Rng.Intn(closeOneIn) == 0 {
				return Event{Kind: "close", Idx: c.Rng.Intn(nlive + 1)}, true
			}
			if spawned < nThreads {
				spawned++
				tail = 0
				return genSpawn(c, churn, outOf4, hosts), true
			}
			return Event{}, false
		}
		x := c.Rng.Intn(12)
		switch {
		case spawned == 0 || (spawned < nThreads && (x < 2 || len(pend) == 0)):
			spawned++
			return genSpawn(c, false, 0, hosts), true
		case x == 11 && nlive > 0:
			return Event{Kind: "close", Idx: c.Rng.Intn(nlive + 1)}, true
		case x == 10 && level == "B":
			return Event{Kind: stepKind, Idx: c.Rng.Intn(spawned + 1)}, true // any attempt, also finished / not existing
		case len(pend) > 0:
			return Event{Kind: stepKind, Idx: pend[c.Rng.Intn(len(pend))]}, true
		case level == "B" && tail < 3:
			tail++
			return Event{Kind: stepKind, Idx: c.Rng.Intn(spawned)}, true
		}
		return Event{}, false
	}
}

// macro: one line of a scripted history; scriptNext expands it interactively.
type macro struct {
	kind string // spawn | steps (n steps of attempt tid) | finish (until attempt tid has returned) | close
	ev   Event
	tid  int
	n    int
}

func scriptNext(level string, script []macro) nextFn {
	stepKind := "run"
	if level == "A" {
		stepKind = "adv"
	}
	pos, done, tail := 0, 0, false
	return func(r runner, i int) (Event, bool) {
		for pos < len(script) && i < 400 {
			mc := script[pos]
			switch mc.kind {
			case "spawn":
				pos++
				return mc.ev, true
			case "close":
				pos++
				return Event{Kind: "close", Idx: mc.n}, true
			case "steps":
				st := r.Statuses()
				if done < mc.n && mc.tid < len(st) && st[mc.tid] == outPending {
					done++
					return Event{Kind: stepKind, Idx: mc.tid}, true
				}
				done = 0
				pos++
			case "finish":
				st := r.Statuses()
				if mc.tid < len(st) && st[mc.tid] == outPending {
					return Event{Kind: stepKind, Idx: mc.tid}, true
				}
				if level == "B" && !tail {
					tail = true // the deferred removeConnecting, if any
					return Event{Kind: stepKind, Idx: mc.tid}, true
				}
				tail = false
				pos++
			}
		}
		return Event{}, false
	}
}

// genSameAddr: 2-4 overlapping Connect calls to ONE address (among them: second refused while the
// first is in flight, third arriving while the first is still in flight), then the calls
// complete, closes, and further dials to other addresses.
func genSameAddr(c *hx.Ctx, level string, prog *Prog) (Cfg, nextFn) {
	cfg := Cfg{MaxIn: uint(c.Rng.Intn(3)), MaxOut: uint(1 + c.Rng.Intn(3)), MaxPerIP: 2, SelfID: 99}
	host := hostPool[c.Rng.Intn(len(hostPool))]
	port := 20338 + c.Rng.Intn(2)
	pidA := uint64(40 + c.Rng.Intn(3))
	dialA := func() Event { return spawnEv("out", host, port, pidA, uint16(port)) }
	// how far the first call gets before the others arrive: level A 1..3 releases (dial gate,
	// handshake start, handshake end); level B: through tryAddConnecting + defer, then 0..4 more
	first := 1 + c.Rng.Intn(3)
	if level == "B" {
		n := 0
		for i, it := range prog.Connect {
			if !it.Defer && it.Op == "OpTryConnecting" {
				n = i + 1
			}
		}
		if n < len(prog.Connect) && prog.Connect[n].Defer {
			n++
		}
		if n == 0 { // shape not as expected: just go a few sections in
			n = 5
		}
		first = n + c.Rng.Intn(5)
		if c.Rng.Intn(4) == 0 {
			first = 1 + c.Rng.Intn(n) // sometimes the others arrive while the first is still in its checks
		}
	}
	var script []macro
	script = append(script, macro{kind: "spawn", ev: dialA()}, macro{kind: "steps", tid: 0, n: first})
	tid := 1
	extra := 1 + c.Rng.Intn(3)
	var open []int
	for i := 0; i < extra; i++ {
		script = append(script, macro{kind: "spawn", ev: dialA()})
		if c.Rng.Intn(3) == 0 {
			script = append(script, macro{kind: "steps", tid: tid, n: 1 + c.Rng.Intn(6)})
			open = append(open, tid)
		} else {
			script = append(script, macro{kind: "finish", tid: tid})
		}
		tid++
	}
	order := append([]int{0}, open...)
	c.Rng.Shuffle(len(order), func(i, j int) { order[i], order[j] = order[j], order[i] })
	for _, t := range order {
		script = append(script, macro{kind: "finish", tid: t})
	}
	if c.Rng.Intn(3) != 0 {
		script = append(script, macro{kind: "close", n: 0})
	}
	if c.Rng.Intn(3) == 0 {
		script = append(script, macro{kind: "spawn", ev: dialA()}, macro{kind: "finish", tid: tid})
		tid++
	}
	more := 2 + c.Rng.Intn(3)
	for i := 0; i < more; i++ {
		h := hostPool[c.Rng.Intn(len(hostPool))]
		script = append(script, macro{kind: "spawn", ev: spawnEv("out", h, 20400+i, uint64(50+i), 20338)}, macro{kind: "finish", tid: tid})
		tid++
		if c.Rng.Intn(4) == 0 {
			script = append(script, macro{kind: "close", n: c.Rng.Intn(2)})
		}
	}
	return cfg, scriptNext(level, script)
}

// genOvershoot: histories that first push a recorded count over its limit through overlapping
// attempts (the known finding) and then issue further SEQUENTIAL attempts, which must all be
// refused. variant 0: inbound total, 1: outbound total, 2: inbound per IP (one host).
func genOvershoot(c *hx.Ctx, level string, prog *Prog) (Cfg, nextFn) {
	variant := c.Rng.Intn(3)
	L := uint(1 + c.Rng.Intn(3))
	cfg := Cfg{MaxIn: 20, MaxOut: 20, MaxPerIP: 20, SelfID: 99}
	dir := "in"
	switch variant {
	case 0:
		cfg.MaxIn = L
	case 1:
		cfg.MaxOut = L
		dir = "out"
	case 2:
		cfg.MaxPerIP = L
	}
	host := hostPool[c.Rng.Intn(len(hostPool))]
	n := 0
	mk := func(d string) Event {
		n++
		h := host
		if variant != 2 && c.Rng.Intn(2) == 0 {
			h = hostPool[c.Rng.Intn(len(hostPool))]
		}
		e := spawnEv(d, h, 5000+n, uint64(20+n), uint16(20338+c.Rng.Intn(2)))
		if d == "out" {
			e.Port = 20400 + n
		}
		return e
	}
	checkSteps := 1
	if level != "A" {
		// sections up to and including the limit checks
		items := prog.Accept
		if dir == "out" {
			items = prog.Connect
		}
		checkSteps = 0
		for i, it := range items {
			if !it.Defer && isCheckOp(it.Op) {
				checkSteps = i + 1
			}
		}
	}
	var script []macro
	tid := 0
	seq := func(d string) {
		script = append(script, macro{kind: "spawn", ev: mk(d)}, macro{kind: "finish", tid: tid})
		tid++
	}
	for i := uint(1); i < L; i++ {
		seq(dir)
	}
	m := 2 + c.Rng.Intn(2)
	first := tid
	for i := 0; i < m; i++ {
		script = append(script, macro{kind: "spawn", ev: mk(dir)}, macro{kind: "steps", tid: tid, n: checkSteps})
		tid++
	}
	for i := 0; i < m; i++ {
		script = append(script, macro{kind: "finish", tid: first + i})
	}
	k := 3 + c.Rng.Intn(4)
	for i := 0; i < k; i++ {
		if c.Rng.Intn(8) == 0 {
			script = append(script, macro{kind: "close", n: c.Rng.Intn(int(L) + m)})
		}
		d := dir
		if variant != 2 && c.Rng.Intn(6) == 0 {
			d = map[string]string{"in": "out", "out": "in"}[dir]
		}
		seq(d)
	}
	return cfg, scriptNext(level, script)
}

func Run(c *hx.Ctx) {
	c.CoqModule("Corr.C36")
	prog, errs := ExtractProgram(c.Repo)
	levelB := true
	if len(errs) > 0 || prog == nil {
		// the tie is broken (Gen/ConnCtrlProg.v has no program, the proofs do not compile); the
		// real AcceptConnect/Connect can still be driven, so keep looking for a failing input
		// (the framework reports the broken tie itself; this is not an oracle failure)
		c.Note("translator: " + strings.Join(errs, "; ") + " -- level B skipped, level A and the oracle still run")
		levelB = false
		if prog == nil {
			prog = &Prog{}
		}
	}
	c.Note("locked sections: " + strings.Join(prog.Sections, ", "))
	var in Sched
	if c.ReplayInput(&in) {
		if in.Level == "A" || levelB {
			runSched(c, prog, in, nil)
		}
		return
	}
	for _, raw := range c.CorpusInputs() {
		var s Sched
		if json.Unmarshal(raw, &s) == nil && len(s.Events) > 0 && (s.Level == "A" || levelB) {
			runSched(c, prog, s, nil)
		}
	}
	// 1. the witnesses of the Coq refutation, replayed on the implementation on every run
	for _, s := range witnesses() {
		if s.Level == "A" || levelB {
			runSched(c, prog, s, nil)
		}
	}
	// 2. generated schedules
	nA := c.N(100, 600)
	nB := c.N(240, 2400)
	// modes: 0 sequential, 1 sequential churn (few hosts, many closes), 2.. concurrent
	for _, lv := range []struct {
		level string
		n     int
	}{{"A", nA}, {"B", nB}} {
		for i := 0; i < lv.n && (lv.level == "A" || levelB); i++ {
			mode := i % 4
			cfg := genCfg(c)
			if mode == 1 {
				cfg = genCfgChurn(c)
			}
			c.Count(fmt.Sprintf("mode:%s:%d", lv.level, mode))
			runSched(c, prog, Sched{Level: lv.level, Cfg: cfg}, genNext(c, lv.level, mode))
		}
	}
	// 4. same-address outbound histories (the connecting mark)
	nS := c.N(24, 250)
	for _, level := range []string{"A", "B"} {
		for i := 0; i < nS && (level == "A" || levelB); i++ {
			cfg, next := genSameAddr(c, level, prog)
			c.Count("mode:" + level + ":same-address")
			runSched(c, prog, Sched{Level: level, Name: "same-address dials", Cfg: cfg}, next)
		}
	}
	// 3. overshoot (overlapping attempts) followed by sequential attempts at an over-limit count
	nO := c.N(24, 250)
	for _, level := range []string{"A", "B"} {
		for i := 0; i < nO && (level == "A" || levelB); i++ {
			cfg, next := genOvershoot(c, level, prog)
			c.Count("mode:" + level + ":overshoot")
			runSched(c, prog, Sched{Level: level, Name: "overshoot then sequential", Cfg: cfg}, next)
		}
	}
	// 5. sequential: k = 1..3 attempts refused AFTER the handshake (own peer id, recorded peer id from
	// another IP), then fresh peers up to the limit and beyond it (refused.go); the full grid
	// direction x reason x k on every run, plus mixed plans
	nR := c.N(14, 150)
	for _, level := range []string{"A", "B"} {
		for _, p := range refusedPlans(c, nR) {
			if level != "A" && !levelB {
				break
			}
			cfg, next := genRefusedThenFill(c, level, p)
			c.Count("mode:" + level + ":refused-then-fill")
			c.Count(fmt.Sprintf("refused-then-fill:k=%d", len(p.reasons)))
			runSched(c, prog, Sched{Level: level, Name: p.name(), Cfg: cfg}, next)
		}
	}
}
