// Translator part of C36: reads p2pserver/connect_controller with go/ast and extracts
//
//   - the sequence of atomic sections AcceptConnect and Connect go through on their straight-line
//     path (a "section" is a method of ConnectController whose body starts with
//     self.mutex.Lock(); defer self.mutex.Unlock(), or one of the external blocking calls);
//     helper methods that do not take the lock themselves are inlined, `if index == INBOUND_INDEX`
//     is resolved with the constant the caller passes;
//   - the comparison operators of the three limit checks.
//
// The result is written to coq/Gen/ConnCtrlProg.v; the model interprets exactly that program and the
// property theorems are re-proved against it. It fails closed: anything outside the expected
// shape produces a `translator_broken_*` definition and no program, so the proofs stop compiling.
package c36

import (
	"bytes"
	"fmt"
	"go/ast"
	"go/parser"
	"go/printer"
	"go/token"
	"os"
	"path/filepath"
	"sort"
	"strings"

	"github.com/ontio/ontology/common/config"
	cc "github.com/ontio/ontology/p2pserver/connect_controller"
)

const ccDir = "p2pserver/connect_controller"

type progItem struct {
	Op    string // Coq constructor of `op`
	Defer bool
}

type Prog struct {
	Accept   []progItem
	Connect  []progItem
	CmpIn    string // Go operator token of `count <op> self.MaxConnInBound`
	CmpOut   string
	CmpIP    string
	Sections []string // locked methods of ConnectController (sorted), for the evidence note
}

type walker struct {
	fset    *token.FileSet
	methods map[string]*ast.FuncDecl
	errs    []string
	out     []progItem
	depth   int
}

func pr(fset *token.FileSet, n ast.Node) string {
	var b bytes.Buffer
	printer.Fprint(&b, fset, n)
	return b.String()
}

func (w *walker) errf(format string, a ...interface{}) {
	w.errs = append(w.errs, fmt.Sprintf(format, a...))
}

func recvName(fd *ast.FuncDecl) string {
	if fd.Recv == nil || len(fd.Recv.List) == 0 || len(fd.Recv.List[0].Names) == 0 {
		return ""
	}
	return fd.Recv.List[0].Names[0].Name
}

// locked reports whether the method body starts with <recv>.mutex.Lock(); defer <recv>.mutex.Unlock().
func (w *walker) locked(fd *ast.FuncDecl) bool {
	if fd.Body == nil || len(fd.Body.List) < 2 {
		return false
	}
	r := recvName(fd)
	es, ok := fd.Body.List[0].(*ast.ExprStmt)
	if !ok || pr(w.fset, es.X) != r+".mutex.Lock()" {
		return false
	}
	ds, ok := fd.Body.List[1].(*ast.DeferStmt)
	return ok && pr(w.fset, ds.Call) == r+".mutex.Unlock()"
}

var sectionOps = map[string]string{
	"hasBoundAddr":          "OpHasBound",
	"OwnAddress":            "OpOwn",
	"boundsCount":           "OpFull",
	"getInboundCountWithIp": "OpIpCount",
	"tryAddConnecting":      "OpTryConnecting",
	"SetOwnAddress":         "OpSelfCheck",
	"getPeer":               "OpGetPeer",
	"savePeer":              "OpSave",
	"removeConnecting":      "OpRemoveConnecting",
}

// sections that are expected under a condition the translator cannot decide
var conditionalOK = map[string]bool{"SetOwnAddress": true}

type env struct {
	recv string
	bind map[string]string // parameter -> INBOUND_INDEX | OUTBOUND_INDEX
	cond bool              // inside a branch whose condition is not statically known
}

func (w *walker) emit(name string, e env, deferred bool) {
	op, ok := sectionOps[name]
	if !ok {
		w.errf("unexpected locked section %s on the connection path", name)
		return
	}
	if e.cond && !conditionalOK[name] {
		w.errf("section %s is executed only conditionally", name)
		return
	}
	if deferred != (name == "removeConnecting") {
		w.errf("section %s: unexpected defer status %v", name, deferred)
		return
	}
	w.out = append(w.out, progItem{Op: op, Defer: deferred})
}

func (w *walker) staticCond(c ast.Expr, e env) (val bool, known bool) {
	be, ok := c.(*ast.BinaryExpr)
	if !ok || (be.Op != token.EQL && be.Op != token.NEQ) {
		return false, false
	}
	l, lok := be.X.(*ast.Ident)
	r, rok := be.Y.(*ast.Ident)
	if !lok || !rok {
		return false, false
	}
	lv, ok := e.bind[l.Name]
	if !ok {
		return false, false
	}
	if r.Name != "INBOUND_INDEX" && r.Name != "OUTBOUND_INDEX" {
		return false, false
	}
	eq := lv == r.Name
	if be.Op == token.NEQ {
		eq = !eq
	}
	return eq, true
}

// exprCalls visits the calls of an expression in evaluation order (arguments before the call).
func (w *walker) exprCalls(x ast.Node, e env, deferred bool) (sawSection bool) {
	if x == nil {
		return false
	}
	switch n := x.(type) {
	case *ast.CallExpr:
		for _, a := range n.Args {
			if w.exprCalls(a, e, false) {
				sawSection = true
			}
		}
		if sel, ok := n.Fun.(*ast.SelectorExpr); ok {
			if w.exprCalls(sel.X, e, false) {
				sawSection = true
			}
		}
		if w.call(n, e, deferred) {
			sawSection = true
		}
		return
	case *ast.FuncLit:
		w.errf("function literal on the connection path")
		return false
	}
	// generic traversal of the direct children
	ast.Inspect(x, func(c ast.Node) bool {
		if c == nil || c == x {
			return true
		}
		switch c.(type) {
		case *ast.CallExpr, *ast.FuncLit:
			if w.exprCalls(c, e, false) {
				sawSection = true
			}
			return false
		}
		return true
	})
	return
}

func (w *walker) call(n *ast.CallExpr, e env, deferred bool) (section bool) {
	name := pr(w.fset, n.Fun)
	switch {
	case name == "handshake.HandshakeServer" || name == "handshake.HandshakeClient":
		if e.cond || deferred {
			w.errf("%s executed conditionally", name)
		}
		w.out = append(w.out, progItem{Op: "OpHandshake"})
		return true
	case name == e.recv+".dialer.Dial":
		if e.cond || deferred {
			w.errf("%s executed conditionally", name)
		}
		w.out = append(w.out, progItem{Op: "OpDial"})
		return true
	case name == e.recv+".ReservedPeers.Contains":
		if e.cond || deferred {
			w.errf("%s executed conditionally", name)
		}
		w.out = append(w.out, progItem{Op: "OpReserved"})
		return true
	case strings.HasPrefix(name, e.recv+".logger.") || strings.HasPrefix(name, e.recv+".selfId.") ||
		strings.HasPrefix(name, e.recv+".peerInfo."):
		return false
	case strings.HasPrefix(name, e.recv+"."):
		m := strings.TrimPrefix(name, e.recv+".")
		fd, ok := w.methods[m]
		if !ok {
			w.errf("call of unknown method %s", name)
			return false
		}
		if w.locked(fd) {
			w.emit(m, e, deferred)
			return true
		}
		if deferred {
			w.errf("deferred call of unlocked helper %s", m)
			return false
		}
		// inline the helper with its parameters bound to the caller's index constants
		ne := env{recv: recvName(fd), bind: map[string]string{}, cond: e.cond}
		i := 0
		for _, f := range fd.Type.Params.List {
			for _, pn := range f.Names {
				if i < len(n.Args) {
					if id, ok := n.Args[i].(*ast.Ident); ok {
						if id.Name == "INBOUND_INDEX" || id.Name == "OUTBOUND_INDEX" {
							ne.bind[pn.Name] = id.Name
						} else if v, ok := e.bind[id.Name]; ok {
							ne.bind[pn.Name] = v
						}
					}
				}
				i++
			}
		}
		w.depth++
		if w.depth > 8 {
			w.errf("helper nesting too deep at %s", m)
			w.depth--
			return false
		}
		before := len(w.out)
		w.block(fd.Body, ne)
		w.depth--
		return len(w.out) > before
	}
	return false // calls into other packages / on other values: no controller section
}

func endsInErrorReturn(fset *token.FileSet, b *ast.BlockStmt) bool {
	if b == nil || len(b.List) == 0 {
		return false
	}
	rs, ok := b.List[len(b.List)-1].(*ast.ReturnStmt)
	return ok && len(rs.Results) > 0
}

func (w *walker) block(b *ast.BlockStmt, e env) {
	if b == nil {
		return
	}
	for _, s := range b.List {
		w.stmt(s, e)
	}
}

func (w *walker) stmt(s ast.Stmt, e env) {
	switch n := s.(type) {
	case *ast.BlockStmt:
		w.block(n, e)
	case *ast.ExprStmt:
		w.exprCalls(n.X, e, false)
	case *ast.AssignStmt:
		for _, r := range n.Rhs {
			w.exprCalls(r, e, false)
		}
	case *ast.DeclStmt:
		w.exprCalls(n, e, false)
	case *ast.ReturnStmt:
		for _, r := range n.Results {
			w.exprCalls(r, e, false)
		}
	case *ast.DeferStmt:
		w.exprCalls(n.Call, e, true)
	case *ast.IncDecStmt, *ast.EmptyStmt:
	case *ast.IfStmt:
		if n.Init != nil {
			w.stmt(n.Init, e)
		}
		if v, known := w.staticCond(n.Cond, e); known {
			if v {
				w.block(n.Body, e)
			} else if n.Else != nil {
				w.stmt(n.Else, e)
			}
			return
		}
		saw := w.exprCalls(n.Cond, e, false)
		if saw && !endsInErrorReturn(w.fset, n.Body) {
			w.errf("the result of the check `%s` does not end in a return", pr(w.fset, n.Cond))
		}
		ce := e
		ce.cond = true
		w.block(n.Body, ce)
		if n.Else != nil {
			w.stmt(n.Else, ce)
		}
	default:
		w.errf("unsupported statement %T on the connection path", s)
	}
}

// firstReturn finds the return statement reached with the given bindings (static ifs resolved).
func (w *walker) firstReturn(b *ast.BlockStmt, e env) *ast.ReturnStmt {
	for _, s := range b.List {
		switch n := s.(type) {
		case *ast.ReturnStmt:
			return n
		case *ast.IfStmt:
			if v, known := w.staticCond(n.Cond, e); known {
				if v {
					if r := w.firstReturn(n.Body, e); r != nil {
						return r
					}
				} else if eb, ok := n.Else.(*ast.BlockStmt); ok {
					if r := w.firstReturn(eb, e); r != nil {
						return r
					}
				}
			} else {
				return nil
			}
		}
	}
	return nil
}

func cmpOf(fset *token.FileSet, x ast.Expr, lhs, rhs string) (string, error) {
	be, ok := x.(*ast.BinaryExpr)
	if !ok {
		return "", fmt.Errorf("not a comparison: %s", pr(fset, x))
	}
	if pr(fset, be.X) != lhs || pr(fset, be.Y) != rhs {
		return "", fmt.Errorf("expected `%s <op> %s`, found `%s`", lhs, rhs, pr(fset, x))
	}
	switch be.Op {
	case token.GEQ, token.GTR, token.EQL, token.NEQ, token.LSS, token.LEQ:
		return be.Op.String(), nil
	}
	return "", fmt.Errorf("unsupported operator in %s", pr(fset, x))
}

func hasAssign(fset *token.FileSet, fd *ast.FuncDecl, lhs, rhs string) bool {
	found := false
	ast.Inspect(fd.Body, func(n ast.Node) bool {
		if as, ok := n.(*ast.AssignStmt); ok && len(as.Lhs) == 1 && len(as.Rhs) == 1 {
			if pr(fset, as.Lhs[0]) == lhs && pr(fset, as.Rhs[0]) == rhs {
				found = true
			}
		}
		return true
	})
	return found
}

// ExtractProgram reads the package source under repo.
func ExtractProgram(repo string) (*Prog, []string) {
	fset := token.NewFileSet()
	dir := filepath.Join(repo, ccDir)
	ents, err := os.ReadDir(dir)
	if err != nil {
		return nil, []string{err.Error()}
	}
	w := &walker{fset: fset, methods: map[string]*ast.FuncDecl{}}
	for _, en := range ents {
		n := en.Name()
		if !strings.HasSuffix(n, ".go") || strings.HasSuffix(n, "_test.go") || strings.HasPrefix(n, "verif_hooks") {
			continue
		}
		f, err := parser.ParseFile(fset, filepath.Join(dir, n), nil, 0)
		if err != nil {
			return nil, []string{err.Error()}
		}
		for _, d := range f.Decls {
			fd, ok := d.(*ast.FuncDecl)
			if !ok || fd.Recv == nil || len(fd.Recv.List) == 0 {
				continue
			}
			if strings.TrimPrefix(pr(fset, fd.Recv.List[0].Type), "*") == "ConnectController" {
				w.methods[fd.Name.Name] = fd
			}
		}
	}
	p := &Prog{}
	for name, fd := range w.methods {
		if w.locked(fd) {
			p.Sections = append(p.Sections, name)
		}
	}
	sort.Strings(p.Sections)
	for _, entry := range []struct {
		fn  string
		dst *[]progItem
	}{{"AcceptConnect", &p.Accept}, {"Connect", &p.Connect}} {
		fd, ok := w.methods[entry.fn]
		if !ok {
			w.errf("method %s not found", entry.fn)
			continue
		}
		w.out = nil
		w.block(fd.Body, env{recv: recvName(fd), bind: map[string]string{}})
		*entry.dst = w.out
	}
	// the comparison operators
	if fd, ok := w.methods["isBoundFull"]; ok {
		r := recvName(fd)
		if !hasAssign(fset, fd, "count", r+".boundsCount(index)") {
			w.errf("isBoundFull: `count := %s.boundsCount(index)` not found", r)
		}
		for _, v := range []struct {
			idx, field string
			dst        *string
		}{{"INBOUND_INDEX", "MaxConnInBound", &p.CmpIn}, {"OUTBOUND_INDEX", "MaxConnOutBound", &p.CmpOut}} {
			rs := w.firstReturn(fd.Body, env{recv: r, bind: map[string]string{"index": v.idx}})
			if rs == nil || len(rs.Results) != 1 {
				w.errf("isBoundFull: no return for %s", v.idx)
				continue
			}
			op, err := cmpOf(fset, rs.Results[0], "count", r+"."+v.field)
			if err != nil {
				w.errf("isBoundFull(%s): %v", v.idx, err)
				continue
			}
			*v.dst = op
		}
	} else {
		w.errf("method isBoundFull not found")
	}
	if fd, ok := w.methods["beforeHandshakeCheck"]; ok {
		r := recvName(fd)
		if !hasAssign(fset, fd, "connNum", r+".getInboundCountWithIp(remoteIp)") {
			w.errf("beforeHandshakeCheck: `connNum := %s.getInboundCountWithIp(remoteIp)` not found", r)
		}
		n := 0
		ast.Inspect(fd.Body, func(x ast.Node) bool {
			if is, ok := x.(*ast.IfStmt); ok {
				if op, err := cmpOf(fset, is.Cond, "connNum", r+".MaxConnInBoundPerIP"); err == nil {
					n++
					p.CmpIP = op
					if !endsInErrorReturn(fset, is.Body) {
						w.errf("beforeHandshakeCheck: per-IP check does not return an error")
					}
				}
			}
			return true
		})
		if n != 1 {
			w.errf("beforeHandshakeCheck: expected one `connNum <op> %s.MaxConnInBoundPerIP` test, found %d", r, n)
		}
	} else {
		w.errf("method beforeHandshakeCheck not found")
	}
	return p, w.errs
}

func coqCmp(op string) string {
	switch op {
	case ">=":
		return "(max <=? count)"
	case ">":
		return "(max <? count)"
	case "==":
		return "(count =? max)"
	case "!=":
		return "negb (count =? max)"
	case "<":
		return "(count <? max)"
	case "<=":
		return "(count <=? max)"
	}
	return ""
}

func coqItems(items []progItem) string {
	var s []string
	for _, it := range items {
		if it.Defer {
			s = append(s, "IDefer "+it.Op)
		} else {
			s = append(s, "IOp "+it.Op)
		}
	}
	return "[" + strings.Join(s, "; ") + "]"
}

// ProduceGen renders coq/Gen/ConnCtrlProg.v.
func ProduceGen(repo string) ([]byte, []string) {
	p, errs := ExtractProgram(repo)
	var b bytes.Buffer
	fmt.Fprintf(&b, "(* GENERATED by harness/drivers/c36 from %s/*.go (go/ast) on every run. Do not edit. *)\n", ccDir)
	fmt.Fprintf(&b, "From Coq Require Import NArith List.\nImport ListNotations.\nFrom Ont Require Import Model.ConnCtrlOps.\nLocal Open Scope N_scope.\n\n")
	if len(errs) > 0 || p == nil {
		for i, e := range errs {
			fmt.Fprintf(&b, "Definition translator_broken_connctrl_%d : unit := tt. (* %s *)\n", i, strings.ReplaceAll(e, "*)", "* )"))
		}
		return b.Bytes(), errs
	}
	fmt.Fprintf(&b, "(* mutex-protected methods of ConnectController: %s *)\n\n", strings.Join(p.Sections, ", "))
	fmt.Fprintf(&b, "(* AcceptConnect: atomic sections in execution order on the path without early return *)\nDefinition accept_prog : list item :=\n  %s.\n\n", coqItems(p.Accept))
	fmt.Fprintf(&b, "(* Connect *)\nDefinition connect_prog : list item :=\n  %s.\n\n", coqItems(p.Connect))
	fmt.Fprintf(&b, "(* isBoundFull: `count %s self.MaxConnInBound` / `count %s self.MaxConnOutBound`; true = refuse *)\n", p.CmpIn, p.CmpOut)
	fmt.Fprintf(&b, "Definition full_cmp_in (count max : N) : bool := %s.\n", coqCmp(p.CmpIn))
	fmt.Fprintf(&b, "Definition full_cmp_out (count max : N) : bool := %s.\n", coqCmp(p.CmpOut))
	fmt.Fprintf(&b, "(* beforeHandshakeCheck: `connNum %s self.MaxConnInBoundPerIP`; true = refuse *)\n", p.CmpIP)
	fmt.Fprintf(&b, "Definition ip_full_cmp (count max : N) : bool := %s.\n\n", coqCmp(p.CmpIP))
	fmt.Fprintf(&b, "(* linked values *)\n")
	fmt.Fprintf(&b, "Definition INBOUND_INDEX : N := %d.\nDefinition OUTBOUND_INDEX : N := %d.\n", cc.INBOUND_INDEX, cc.OUTBOUND_INDEX)
	fmt.Fprintf(&b, "Definition DEFAULT_MAX_CONN_IN_BOUND : N := %d.\n", uint64(config.DEFAULT_MAX_CONN_IN_BOUND))
	fmt.Fprintf(&b, "Definition DEFAULT_MAX_CONN_OUT_BOUND : N := %d.\n", uint64(config.DEFAULT_MAX_CONN_OUT_BOUND))
	fmt.Fprintf(&b, "Definition DEFAULT_MAX_CONN_IN_BOUND_FOR_SINGLE_IP : N := %d.\n", uint64(config.DEFAULT_MAX_CONN_IN_BOUND_FOR_SINGLE_IP))
	opt := cc.NewConnCtrlOption()
	fmt.Fprintf(&b, "(* connect_controller.NewConnCtrlOption() *)\nDefinition default_option_limits : N * N * N := (%d, %d, %d). (* in, out, per ip *)\n",
		uint64(opt.MaxConnInBound), uint64(opt.MaxConnOutBound), uint64(opt.MaxConnInBoundPerIP))
	return b.Bytes(), nil
}
