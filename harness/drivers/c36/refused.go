package c36

// Sequential histories "refused AFTER the handshake, then fill the limit, then go beyond it".
//
// afterHandshakeCheck has two reachable refusals for ip:port addresses: isHandWithSelf (the remote
// presents the node's own peer id -> ErrHandshakeSelf, the own address is set) and checkPeerIdAndIP
// (a peer id that is recorded presents itself from a different IP). Both happen after the limit
// checks have passed and after the handshake has completed, so whatever an attempt books while it is
// in flight has to be given back exactly once on these paths. The histories here make k = 1..3 such
// refusals happen first (inbound and outbound; the recorded peer id of the duplicate case held by a
// connection of the same or of the other direction), then connect fresh peers one after another up
// to the limit and a few more beyond it. No two attempts ever overlap, so the limit oracle of
// runSched judges them outside the known finding class (max overlap 1): a count over the limit is
// class limit:*, and the attempt that was let in at a full count is additionally reported by the
// started-at-or-over-limit clause. The failing history is written as it was executed (replayable).

import (
	"fmt"
	"strings"

	"verif/harness/hx"
)

const (
	rsSelf     = "self"          // remote peer id == own peer id                         (post-handshake)
	rsDupSame  = "dup-same-dir"  // recorded peer id (same direction) from another IP     (post-handshake)
	rsDupOther = "dup-other-dir" // recorded peer id (other direction) from another IP   (post-handshake)
	rsHsFail   = "hs-fail"       // the handshake itself fails
	rsDialFail = "dial-fail"     // outbound: the dial fails
	rsNotRes   = "not-reserved"  // refused by the reserve filter (before everything)
)

var rsPost = []string{rsSelf, rsDupSame, rsDupOther}

var rsExpect = map[string]string{
	rsSelf: "Failed EHandshakeSelf", rsDupSame: "Failed EPeerIpMismatch", rsDupOther: "Failed EPeerIpMismatch",
	rsHsFail: "Failed EHandshake", rsDialFail: "Failed EDial", rsNotRes: "Failed ENotReserved",
}

type refusedPlan struct {
	dir     string   // the direction whose limit is probed
	perIP   bool     // probe MaxConnInBoundPerIP for one host (dir == "in") instead of the total
	reasons []string // one per attempt that is to be refused, in order
	limit   uint     // the probed limit (raised to 2 when a same-direction connection must hold the duplicate id)
	prefill int      // fresh peers connected before the refusals (capped so that the refusals still pass the limit check)
	beyond  int      // attempts after the limit has been filled
	tail    bool     // then: a close, further attempts, an attempt of the other direction
}

func (p refusedPlan) name() string {
	what := p.dir + "bound total"
	if p.perIP {
		what = "inbound per IP"
	}
	return fmt.Sprintf("refused after handshake then fill: %s, %s", what, strings.Join(p.reasons, "+"))
}

func otherDir(d string) string {
	if d == "in" {
		return "out"
	}
	return "in"
}

// genRefusedThenFill builds the history of one plan. Every random choice comes from c.Rng.
func genRefusedThenFill(c *hx.Ctx, level string, p refusedPlan) (Cfg, nextFn) {
	const pidSame, pidOther = uint64(200), uint64(201)
	cfg := Cfg{MaxIn: 20, MaxOut: 20, MaxPerIP: 20, SelfID: 99}
	needSame, needOther := false, false
	for _, rs := range p.reasons {
		needSame = needSame || rs == rsDupSame
		needOther = needOther || rs == rsDupOther
	}
	L := p.limit
	if needSame && !p.perIP && L < 2 {
		L = 2 // the connection that holds the duplicate id takes one place of the probed limit
	}
	switch {
	case p.perIP:
		cfg.MaxPerIP = L
	case p.dir == "in":
		cfg.MaxIn = L
	default:
		cfg.MaxOut = L
	}
	// hx: host of the connections that hold the duplicate ids; hy: host of the refused attempts
	// (another IP) and, for the per-IP probe, the host whose limit is filled
	i := c.Rng.Intn(len(hostPool))
	hostX := hostPool[i]
	hostY := hostPool[(i+1+c.Rng.Intn(len(hostPool)-1))%len(hostPool)]
	n := 0
	fresh := func(d string, host int) Event {
		n++
		e := spawnEv(d, host, 5000+n, uint64(30+n), uint16(20338+c.Rng.Intn(2)))
		if d == "out" {
			e.Port = 20400 + n
		}
		return e
	}
	fillHost := func() int {
		if p.perIP {
			return hostY
		}
		return hostPool[c.Rng.Intn(len(hostPool))]
	}
	var script []macro
	tid := 0
	seq := func(e Event) int {
		script = append(script, macro{kind: "spawn", ev: e}, macro{kind: "finish", tid: tid})
		tid++
		return tid - 1
	}
	counted := 0 // connections that count towards the probed limit
	if needSame {
		e := fresh(p.dir, hostX)
		e.Pid = pidSame
		seq(e)
		if !p.perIP {
			counted++
		}
	}
	if needOther {
		e := fresh(otherDir(p.dir), hostX)
		e.Pid = pidOther
		seq(e)
	}
	for j := 0; j < p.prefill && counted+1 < int(L); j++ {
		seq(fresh(p.dir, fillHost()))
		counted++
	}
	type planned struct {
		tid    int
		reason string
	}
	var refused []planned
	for _, rs := range p.reasons {
		e := fresh(p.dir, hostY)
		switch rs {
		case rsSelf:
			e.Pid = cfg.SelfID
			if p.dir == "out" && c.Rng.Intn(2) == 0 {
				e.LPort = uint16(e.Port) // the node dialed its own listen address: own address == dialed address
			}
		case rsDupSame:
			e.Pid = pidSame
		case rsDupOther:
			e.Pid = pidOther
		case rsHsFail:
			e.HsOK = false
		case rsDialFail:
			e.DialOK = false
		case rsNotRes:
			e.Reserved = false
		}
		refused = append(refused, planned{seq(e), rs})
	}
	var filled []int
	for counted < int(L) {
		filled = append(filled, seq(fresh(p.dir, fillHost())))
		counted++
	}
	var over []int
	for j := 0; j < p.beyond; j++ {
		over = append(over, seq(fresh(p.dir, fillHost())))
	}
	if p.tail {
		// a connection is closed (a place may become free again; the index may also name no live
		// connection), further attempts follow
		script = append(script, macro{kind: "close", n: c.Rng.Intn(counted + 1)})
		if c.Rng.Intn(3) == 0 {
			seq(fresh(otherDir(p.dir), hostPool[c.Rng.Intn(len(hostPool))]))
		}
		for j := 1 + c.Rng.Intn(3); j > 0; j-- {
			seq(fresh(p.dir, fillHost()))
		}
	}
	inner := scriptNext(level, script)
	return cfg, func(r runner, i int) (Event, bool) {
		e, ok := inner(r, i)
		if !ok {
			// did the history have the intended shape? (distribution only, not an oracle)
			st := r.Statuses()
			for _, pl := range refused {
				got := "missing"
				if pl.tid < len(st) {
					got = st[pl.tid]
				}
				if got == rsExpect[pl.reason] {
					c.Count("refused-then-fill:refusal-as-planned:" + pl.reason)
				} else {
					c.Count("refused-then-fill:refusal-differs:" + pl.reason + ":" + got)
				}
			}
			okFill := true
			for _, t := range filled {
				okFill = okFill && t < len(st) && st[t] == outDone
			}
			if okFill {
				c.Count("refused-then-fill:limit-filled")
			} else {
				c.Count("refused-then-fill:limit-not-filled")
			}
			nOver := 0
			for _, t := range over {
				if t < len(st) && st[t] == outDone {
					nOver++
				}
			}
			c.Count(fmt.Sprintf("refused-then-fill:accepted-beyond-limit:%d", nOver))
		}
		return e, ok
	}
}

// refusedPlans: the deterministic grid (every run: direction x post-handshake reason x k = 1..3, for
// the total limits and for the per-IP limit) followed by nRandom mixed plans.
func refusedPlans(c *hx.Ctx, nRandom int) []refusedPlan {
	var plans []refusedPlan
	same := func(rs string, k int) []string {
		var l []string
		for i := 0; i < k; i++ {
			l = append(l, rs)
		}
		return l
	}
	for _, dir := range []string{"in", "out"} {
		for _, rs := range rsPost {
			for k := 1; k <= 3; k++ {
				plans = append(plans, refusedPlan{dir: dir, reasons: same(rs, k), limit: uint(1 + c.Rng.Intn(3)), beyond: k + 1})
			}
		}
	}
	for _, rs := range rsPost {
		for k := 1; k <= 3; k++ {
			plans = append(plans, refusedPlan{dir: "in", perIP: true, reasons: same(rs, k), limit: uint(1 + c.Rng.Intn(3)), beyond: k + 1})
		}
	}
	for i := 0; i < nRandom; i++ {
		p := refusedPlan{dir: []string{"in", "out"}[c.Rng.Intn(2)], limit: uint(1 + c.Rng.Intn(3)), tail: true}
		p.perIP = p.dir == "in" && c.Rng.Intn(4) == 0
		k := 1 + c.Rng.Intn(3)
		pool := []string{rsSelf, rsSelf, rsDupSame, rsDupOther, rsDupOther, rsHsFail, rsNotRes}
		if p.dir == "out" {
			pool = append(pool, rsDialFail)
		}
		p.reasons = append(p.reasons, rsPost[c.Rng.Intn(len(rsPost))]) // at least one refusal after the handshake
		for len(p.reasons) < k {
			p.reasons = append(p.reasons, pool[c.Rng.Intn(len(pool))])
		}
		c.Rng.Shuffle(len(p.reasons), func(a, b int) { p.reasons[a], p.reasons[b] = p.reasons[b], p.reasons[a] })
		p.prefill = c.Rng.Intn(3)
		p.beyond = k + 1 + c.Rng.Intn(2)
		plans = append(plans, p)
	}
	return plans
}
