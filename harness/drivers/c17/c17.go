// Driver for C17: a transaction authorizes the same accounts on every node.
//
// For every generated transaction the validator accepts, two copies are compared: the copy the
// validator ran on (GetSignatureAddresses returns the cached tx.SignedAddr) and a copy decoded
// afresh from the same bytes (GetSignatureAddresses falls back to the hash of every raw
// verification script); SmartContract.CheckWitness is evaluated on both for every account of
// either list.
//
// Correspondence cases (Corr/C17.v): Model/Sig.v's validator, fallback and their comparison
// against what the implementation returned.  Oracle: the two account sets are equal; a
// difference is classified by its cause (one narrow class per witness family of Props/C17.v).
//
// The generators, key pool, tables and signature abstraction are those of the C16 driver.
package c17

import (
	"bytes"
	"encoding/json"
	"fmt"
	"os"
	"sort"

	"github.com/ontio/ontology-crypto/keypair"
	"github.com/ontio/ontology/common"
	"github.com/ontio/ontology/common/log"
	"github.com/ontio/ontology/core/program"
	"github.com/ontio/ontology/core/types"
	"github.com/ontio/ontology/smartcontract"
	"github.com/ontio/ontology/vm/neovm"

	"verif/harness/drivers/c16"
	"verif/harness/hx"
)

func init() { hx.Register("C17", Run) }

type drv struct {
	c *hx.Ctx
	d *c16.Drv
}

func addrSet(as []common.Address) map[common.Address]bool {
	m := map[common.Address]bool{}
	for _, a := range as {
		m[a] = true
	}
	return m
}

func sameSet(a, b []common.Address) bool {
	x, y := addrSet(a), addrSet(b)
	if len(x) != len(y) {
		return false
	}
	for k := range x {
		if !y[k] {
			return false
		}
	}
	return true
}

func checkWitness(tx *types.Transaction, a common.Address) bool {
	sc := &smartcontract.SmartContract{Config: &smartcontract.Config{Tx: tx}}
	return sc.CheckWitness(a)
}

// cause names why the validator's address of a set differs from the hash of its raw script.
func cause(v c16.SetView) string {
	if !v.Parsed {
		return "signers:other"
	}
	if len(v.Keys) == 1 && v.Keys[0].Ty == uint64(keypair.PK_ETHECDSA) {
		return "signers:ethereum-key"
	}
	// decided by the harness's own encoder of the STANDARD script (c16.SpecSingleScript /
	// SpecMultiScript), never by the node's builder: a standard witness must not disagree
	// (c17_signers_agree_partial), whatever the node's builder writes
	var canon []byte
	hx.Recover(func() {
		if len(v.Keys) == 1 {
			canon = c16.SpecSingleScript(v.Keys[0])
		} else {
			canon = c16.SpecMultiScript(v.M, v.Keys)
		}
	})
	if bytes.Equal(canon, v.Raw.Verify) {
		return "signers:canonical-witness-disagree"
	}
	// the key strings as pushed, read independently of the implementation's parser
	raw := v.Raw.Verify
	var pushed [][]byte
	if len(v.Keys) == 1 {
		pushed = c16.LinearPushes(raw[:len(raw)-1])
	} else {
		body := raw
		// skip the threshold push
		if len(body) > 0 && (body[0] == byte(neovm.PUSH0) || (body[0] >= byte(neovm.PUSH1) && body[0] <= byte(neovm.PUSH16))) {
			body = body[1:]
		} else if ps := c16.LinearPushes(body); len(ps) > 0 {
			pushed = ps[1:]
			body = nil
		}
		if body != nil {
			pushed = c16.LinearPushes(body)
		}
		if len(pushed) > len(v.Keys) {
			pushed = pushed[:len(v.Keys)]
		}
	}
	if len(pushed) < len(v.Keys) {
		return "signers:other"
	}
	for i, k := range v.Keys {
		if !bytes.Equal(pushed[i], k.Ser) {
			return "signers:noncanonical-key-encoding"
		}
	}
	if len(v.Keys) > 1 {
		for i, k := range c16.SpecSorted(v.Keys) {
			if !bytes.Equal(k.Ser, v.Keys[i].Ser) {
				return "signers:unsorted-multisig"
			}
		}
	}
	return "signers:noncanonical-push"
}

// setAddress: the standard account of the (keys, M) pair in the script (spec-level).
func setAddress(v c16.SetView) (a common.Address, ok bool) {
	if !v.Parsed {
		return a, false
	}
	return c16.SpecAddress(v.Keys, v.M)
}

func (r *drv) after(in c16.Input, raw []byte, o c16.Outcome, tables string, hashCoq string, views []c16.SetView) {
	c := r.c
	w := r.d.W
	fresh, err := types.TransactionFromRawBytes(append([]byte{}, raw...))
	if err != nil {
		return
	}
	if in.Expect == "accept" && !o.Accepted && !o.Panicked {
		c.Fail("valid-rejected:"+in.Kind, "a correctly signed transaction paid by a signer was rejected", in, o.Class, "accepted")
	}
	if in.Expect == "reject" && o.Accepted {
		c.Fail("accepted-invalid:"+in.Kind, "a transaction that is invalid by construction was accepted (its signer set is then meaningless)", in, o.Class, "rejected")
	}
	if !o.Accepted && !o.Panicked && c.Intn(4) != 0 {
		return // the property speaks of accepted transactions; keep a sample of the others for the tie
	}
	c.Eval()
	var fb []common.Address
	if p, msg := hx.Recover(func() { fb = fresh.GetSignatureAddresses() }); p {
		c.Fail("panic:GetSignatureAddresses", "GetSignatureAddresses panicked", in, msg, nil)
		return
	}
	var fbItems []string
	for _, a := range fb {
		fbItems = append(fbItems, w.P.CB(a[:]))
	}
	agree := true
	if o.Accepted && !o.Tx.IsEipTx() {
		validated := o.Tx.GetSignatureAddresses()
		agree = sameSet(validated, fb)
		// the validated set must be the accounts of the (keys, M) pairs actually in the scripts
		var scriptAccounts []common.Address
		allOk := true
		for _, v := range views {
			a, ok := setAddress(v)
			allOk = allOk && ok
			scriptAccounts = append(scriptAccounts, a)
		}
		if allOk && !sameSet(validated, scriptAccounts) {
			c.Fail("validated-set-not-script-accounts", "the signer set the validator stored is not the set of accounts of the (keys, M) pairs in the verification scripts",
				in, map[string]interface{}{"validated": addrHex(validated), "script_accounts": addrHex(scriptAccounts)}, "equal sets")
		}
		union := append(append([]common.Address{}, validated...), fb...)
		sort.Slice(union, func(i, j int) bool { return bytes.Compare(union[i][:], union[j][:]) < 0 })
		witnessAgree := true
		for _, a := range union {
			if checkWitness(o.Tx, a) != checkWitness(fresh, a) {
				witnessAgree = false
			}
		}
		if witnessAgree != agree {
			c.Fail("checkwitness:inconsistent-with-signer-sets", "CheckWitness does not follow GetSignatureAddresses", in, witnessAgree, agree)
		}
		if agree {
			c.Count("agree:" + in.Kind)
			c.Nontrivial("a" + in.Raw)
		} else {
			seen := map[string]bool{}
			for i, v := range views {
				a, ok := setAddress(v)
				f := common.AddressFromVmCode(v.Raw.Verify)
				if len(fb) == len(views) {
					f = fb[i] // what the freshly decoded copy actually reported for this set
				}
				if ok && a == f {
					continue
				}
				cl := cause(v)
				if seen[cl] {
					continue
				}
				seen[cl] = true
				c.Count("disagree:" + cl)
				c.Nontrivial("d" + in.Raw)
				c.Fail(cl, "the accounts contract code sees on a node that only decoded the transaction differ from the signer set the validator established",
					in, map[string]interface{}{"validated": addrHex(validated), "fresh_decode": addrHex(fb)}, "equal sets")
			}
			allStd := true
			for _, v := range views {
				allStd = allStd && v.Parsed && cause(v) == "signers:canonical-witness-disagree"
			}
			if len(seen) == 0 && allStd {
				c.Fail("signers:canonical-witness-disagree", "every verification script is the standard script of its key set, yet the validator's signer set differs from the fresh decode's", in,
					map[string]interface{}{"validated": addrHex(validated), "fresh_decode": addrHex(fb)}, "equal sets")
			} else if len(seen) == 0 {
				c.Fail("signers:other", "the two signer sets differ although every set's address equals the fallback's", in,
					map[string]interface{}{"validated": addrHex(validated), "fresh_decode": addrHex(fb)}, "equal sets")
			}
		}
		c.Sample(map[string]interface{}{"kind": in.Kind, "agree": agree, "validated": addrHex(validated), "fresh_decode": addrHex(fb)})
	}
	term := fmt.Sprintf("let h := %s in CSigners %s %s %s %s %s", hashCoq, w.VtxCoq(o.Tx, "h"), tables, o.Obs, hx.CoqList(fbItems), hx.CoqBool(agree))
	c.Case(w.P.WrapCase(term), in)
}

func addrHex(as []common.Address) []string {
	var out []string
	for _, a := range as {
		out = append(out, a.ToHexString())
	}
	sort.Strings(out)
	return out
}

// ---------- generators of the witness families ----------

func script(f func(b *program.ProgramBuilder)) []byte {
	b := program.NewProgramBuilder()
	f(&b)
	return b.Finish()
}

// pushData1 writes a push with the PUSHDATA1 form whatever the length (non-minimal for <= 75).
func pushData1(d []byte) []byte {
	return append([]byte{byte(neovm.PUSHDATA1), byte(len(d))}, d...)
}

func (r *drv) families() {
	d := r.d
	c := r.c
	one := func(kind string, sp *c16.SetPlan) {
		pl := &c16.Plan{U: d.RandUnsigned(), Sets: []*c16.SetPlan{sp}}
		if c.Intn(2) == 0 { // a second, canonical set that pays
			k := d.PickKeys(1)
			pl.Sets = append(pl.Sets, &c16.SetPlan{Keys: k, M: 1, Signers: k})
			pl.PayerSet = c.Intn(2)
		}
		d.One(kind, pl, "accept")
	}
	pool := d.W.P
	// (1) unsorted m-of-n: every non-identity order of 2 and 3 keys, random larger ones
	for i, n := 0, c.N(10, 60); i < n; i++ {
		nk := 2 + c.Intn(4)
		keys := d.PickKeys(nk)
		c.Rng.Shuffle(nk, func(a, b int) { keys[a], keys[b] = keys[b], keys[a] })
		m := 1 + c.Intn(nk)
		one("unsorted-multisig", &c16.SetPlan{Keys: keys, M: m, Unsorted: true, Signers: append([]*c16.Key{}, keys[:m]...)})
	}
	// (2) Ethereum-style keys: alone, and inside a (sorted) multi-signature script
	for i, k := range pool.ByKind["eth-secp256k1"] {
		one("ethereum-key", &c16.SetPlan{Keys: []*c16.Key{k}, M: 1, Signers: []*c16.Key{k}})
		o := d.PickKeys(2)
		ks := []*c16.Key{k, o[0], o[1]}
		one("ethereum-key-in-multisig", &c16.SetPlan{Keys: ks, M: 1 + i%3, Signers: ks[:1+i%3]})
	}
	// (3) other accepted encodings of the same key
	for _, k := range pool.Keys {
		if !k.IsEC() {
			continue
		}
		var encs [][]byte
		encs = append(encs, c16.UncompressedSer(k, false))         // type, curve, 0x04, X, Y
		encs = append(encs, append(append([]byte{}, k.Ser...), 0)) // trailing byte after the point
		if k.Kind == "ecdsa-p256" || k.Kind == "ecdsa-p256-sha3" {
			encs = append(encs, append([]byte{byte(keypair.PK_ECDSA), keypair.P256}, k.Ser...)) // explicit type and curve
			encs = append(encs, c16.UncompressedSer(k, false)[2:])                              // bare 0x04 X Y
		}
		e := encs[c.Intn(len(encs))]
		s := script(func(b *program.ProgramBuilder) { b.PushBytes(e).PushOpCode(neovm.CHECKSIG) })
		one("noncanonical-key-encoding", &c16.SetPlan{Keys: []*c16.Key{k}, M: 1, Signers: []*c16.Key{k}, Script: s})
	}
	// (4) non-minimal pushes in an otherwise canonical script
	for i, n := 0, c.N(8, 40); i < n; i++ {
		k := d.PickKeys(1)[0]
		s := append(pushData1(k.Ser), byte(neovm.CHECKSIG))
		one("noncanonical-push:key-pushdata1", &c16.SetPlan{Keys: []*c16.Key{k}, M: 1, Signers: []*c16.Key{k}, Script: s})
		// sorted m-of-n with the key count pushed as a byte string (big-endian, leading zeros allowed)
		nk := 2 + c.Intn(3)
		keys := d.PickKeys(nk)
		sorted := c16.SpecSorted(keys)
		m := 1 + c.Intn(nk)
		cnt := []byte{byte(nk)}
		if c.Intn(2) == 0 {
			cnt = []byte{0, byte(nk)}
		}
		s2 := script(func(b *program.ProgramBuilder) {
			b.PushNum(uint16(m))
			for _, k := range sorted {
				b.PushBytes(k.Ser)
			}
			b.PushBytes(cnt).PushOpCode(neovm.CHECKMULTISIG)
		})
		one("noncanonical-push:count-as-bytes", &c16.SetPlan{Keys: keys, M: m, Signers: append([]*c16.Key{}, keys[:m]...), Script: s2})
	}
}

func (r *drv) standard() {
	d, c := r.d, r.c
	for n := 2; n <= 16; n++ {
		ms := []int{1, n/2 + 1, n - 1, n}
		if c.Quick() && n != 2 && n != 3 && n != 8 && n != 15 && n != 16 {
			ms = []int{1 + c.Intn(n)}
		}
		seen := map[int]bool{}
		for i, m := range ms {
			if m < 1 || m > n || seen[m] {
				continue
			}
			seen[m] = true
			keys := d.PickKeys(n)
			c.Rng.Shuffle(n, func(a, b int) { keys[a], keys[b] = keys[b], keys[a] })
			perm := c.Rng.Perm(n)
			var signers []*c16.Key
			for _, x := range perm[:m] {
				signers = append(signers, keys[x])
			}
			pl := &c16.Plan{U: d.RandUnsigned(), Sets: []*c16.SetPlan{{Keys: keys, M: m, Signers: signers}}}
			payer := "multisig"
			if (i+n)%2 == 0 {
				k := d.PickKeys(1)
				pl.Sets = append(pl.Sets, &c16.SetPlan{Keys: k, M: 1, Signers: k})
				pl.PayerSet = 1
				payer = "single"
			}
			d.One(fmt.Sprintf("standard:%d-of-%d:payer-%s", m, n, payer), pl, "accept")
		}
	}
}

// builders records the node's own encoder and address function for 1, 2, 15 and 16 keys
// (tied cases CBuildMulti / CAddrMulti) and checks them against the standard encoding.
func (r *drv) builders() {
	d, c := r.d, r.c
	w := d.W
	for _, n := range []int{1, 2, 15, 16} {
		for _, m := range []int{1, n - 1, n} {
			if m < 1 {
				continue
			}
			keys := d.PickKeys(n)
			var pubs []keypair.PublicKey
			for _, k := range keys {
				pubs = append(pubs, k.Pub)
			}
			in := map[string]interface{}{"kind": "builder", "n": n, "m": m}
			c.Eval()
			var prog []byte
			var err error
			if p, msg := hx.Recover(func() { prog, err = program.ProgramFromMultiPubKey(append([]keypair.PublicKey{}, pubs...), m) }); p {
				c.Fail("panic:ProgramFromMultiPubKey", "the builder panicked", in, msg, nil)
				continue
			}
			w.P.BeginCase()
			out := "BErrParam"
			if err == nil {
				out = "(BOk " + w.P.CB(prog) + ")"
				if std := c16.SpecMultiScript(m, keys); !bytes.Equal(prog, std) {
					c.Fail("builder-not-standard", "ProgramFromMultiPubKey does not write the standard m-of-n script", in, hx.Hex(prog), hx.Hex(std))
				}
			}
			c.Case(fmt.Sprintf("CBuildMulti %s %s %s", w.P.CoqKeys(keys), hx.CoqZ(int64(m)), out), in)
			c.Eval()
			var addr common.Address
			if p, msg := hx.Recover(func() { addr, err = types.AddressFromMultiPubKeys(append([]keypair.PublicKey{}, pubs...), m) }); p {
				c.Fail("panic:AddressFromMultiPubKeys", "the address function panicked", in, msg, nil)
				continue
			}
			res, htab := "AErrParam", "[]"
			if err == nil {
				res = "(AOk " + hx.CoqBytes(addr[:]) + ")"
				std := c16.SpecMultiScript(m, keys)
				htab = fmt.Sprintf("[(%s, %s)]", w.P.CB(std), hx.CoqBytes(c16.Hash160(std)))
				if want, _ := c16.SpecAddress(keys, m); want != addr {
					c.Fail("address-not-standard", "AddressFromMultiPubKeys is not the hash of the standard m-of-n script", in, addr.ToHexString(), want.ToHexString())
				}
			}
			c.Case(fmt.Sprintf("CAddrMulti %s %s %s %s", w.P.CoqKeys(keys), hx.CoqZ(int64(m)), htab, res), in)
			c.Nontrivial(fmt.Sprintf("b%d-%d", n, m))
		}
	}
}

func Run(c *hx.Ctx) {
	log.InitLog(log.FatalLog, os.Stderr)
	c.CoqModule("Corr.C17")
	r := &drv{c: c}
	d := &c16.Drv{C: c, NoCase: true}
	d.After = r.after
	r.d = d
	var rin c16.Input
	if c.ReplayInput(&rin) {
		// a failing input or the description of a correspondence case
		switch {
		case rin.Raw != "":
			d.W = c16.NewWorld(c, c16.NewPool())
			d.DoTx(rin, hx.UnHex(rin.Raw), nil)
		case rin.Kind == "builder":
			pool := c16.BuildPool(c, c.N(3, 6))
			d.W = c16.NewWorld(c, pool)
			for _, k := range pool.Keys {
				c.CoqHeader(fmt.Sprintf("Definition %s : pubkey := %s.", k.Name, k.CoqFull()))
			}
			r.builders()
		}
		return
	}
	pool := c16.BuildPool(c, c.N(3, 6))
	d.W = c16.NewWorld(c, pool)
	for _, k := range pool.Keys {
		c.CoqHeader(fmt.Sprintf("Definition %s : pubkey := %s.", k.Name, k.CoqFull()))
		c.Count("pool:" + k.Kind)
	}
	for _, rawIn := range c.CorpusInputs() {
		var in c16.Input
		if json.Unmarshal(rawIn, &in) == nil && in.Raw != "" {
			d.DoTx(in, hx.UnHex(in.Raw), nil)
		}
	}
	// canonical transactions: every pool key alone, 1..16 sets, random plans, m-of-n boundary
	for _, k := range pool.Keys {
		d.One("single:"+k.Kind, d.Single(k), "accept")
	}
	for n := 1; n <= 16; n++ {
		d.One("sets", d.RandPlan(n, 2+6/n), "accept")
	}
	for i, n := 0, c.N(40, 400); i < n; i++ {
		d.One("random-plan", d.RandPlan(1+c.Intn(4), 2+c.Intn(6)), "accept")
	}
	// STANDARD witnesses written by the harness's own encoder: every n in 2..16 (15 and 16 with
	// every listed m), threshold 1, middle, n-1, n; paid by a separate single key or by the set
	r.standard()
	r.builders()
	// canonical over-signed sets (more signatures than M): the account is that of (keys, M)
	d.OverSigned(1)
	// hostile key encodings (off-curve / alternative encodings, blobs of the other scheme)
	d.Hostile()
	// the families in which the two derivations differ
	r.families()
	// rejected transactions (outside the property; a sample is kept for the tie)
	for i, n := 0, c.N(12, 60); i < n; i++ {
		b := d.Assemble(d.RandPlan(1+c.Intn(2), 3))
		raw, expect := d.Defect(b, []string{"wrong-hash", "junk", "payer-foreign", "too-few"}[c.Intn(4)])
		if expect != "" {
			d.DoTx(c16.Input{Kind: "rejected"}, raw, b.AllKeys())
		}
	}
}
