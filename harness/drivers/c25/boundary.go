package c25

import (
	"bytes"
	"fmt"
	"go/ast"
	"go/parser"
	"go/token"
	"path/filepath"
	"sort"
	"strconv"
	"strings"

	cc "github.com/ontio/ontology/vm/crossvm_codec"

	"verif/harness/hx"
)

// ---------- compact notation (expanded by Corr/C25.v) ----------

// embed: the decoder's result as an encoder input (integers as *big.Int).
func (n nv) embed() gv {
	switch n.T {
	case "bytes", "string", "address", "h256":
		return gv{T: n.T, H: hx.Hex(n.D)}
	case "bool":
		return gv{T: "bool", B: n.B}
	case "int":
		return gv{T: "big", Z: n.Z.String()}
	default:
		l := make([]gv, 0, len(n.L))
		for _, e := range n.L {
			l = append(l, e.embed())
		}
		return gv{T: "list", L: l}
	}
}

func allSame(b []byte) bool {
	for _, x := range b {
		if x != b[0] {
			return false
		}
	}
	return true
}

// coqX prints a gexp: runs of equal list items as ERep, long constant payloads as EBytes/EString.
func (g gv) coqX() string {
	switch g.T {
	case "bytes", "string":
		d := hx.UnHex(g.H)
		if len(d) >= 24 && allSame(d) {
			return fmt.Sprintf("%s %d %d", map[string]string{"bytes": "EBytes", "string": "EString"}[g.T], len(d), d[0])
		}
	case "list":
		var items []string
		var prev string
		run := 0
		flush := func() {
			switch {
			case run == 0:
			case run >= 4:
				items = append(items, fmt.Sprintf("ERep %d (%s)", run, prev))
			default:
				for i := 0; i < run; i++ {
					items = append(items, prev)
				}
			}
		}
		for _, e := range g.L {
			s := e.coqX()
			if run > 0 && s == prev {
				run++
				continue
			}
			flush()
			prev, run = s, 1
		}
		flush()
		return "EList " + hx.CoqList(items)
	}
	return "EVal (" + g.coq() + ")"
}

// bytesX prints a bexp: periodic stretches as BRep.
func bytesX(buf []byte) string {
	var parts []string
	lit := 0 // start of the pending literal
	i := 0
	flushLit := func(end int) {
		if end > lit {
			parts = append(parts, "BRaw "+hx.CoqBytes(buf[lit:end]))
		}
	}
	for i < len(buf) {
		bestP, bestK := 0, 0
		for p := 1; p <= 40 && i+2*p <= len(buf); p++ {
			k := 1
			for i+(k+1)*p <= len(buf) && bytes.Equal(buf[i:i+p], buf[i+k*p:i+(k+1)*p]) {
				k++
			}
			if k >= 3 && k*p >= 32 && k*p > bestK*bestP {
				bestP, bestK = p, k
			}
		}
		if bestP == 0 {
			i++
			continue
		}
		flushLit(i)
		parts = append(parts, fmt.Sprintf("BRep %d (BRaw %s)", bestK, hx.CoqBytes(buf[i:i+bestP])))
		i += bestP * bestK
		lit = i
	}
	flushLit(len(buf))
	return "BCat " + hx.CoqList(parts)
}

// lenFp prints the length and the fingerprint Corr/C25.v recomputes over the expanded bytes.
func lenFp(b []byte) string {
	h := uint64(7)
	for _, x := range b {
		h = (h*1000003 + uint64(x) + 1) % 4294967291
	}
	return fmt.Sprintf("%d %d", len(b), h)
}

// ---------- size constants of the codec, read from the source ----------

// sizeConstants: every integer literal between 8 and 2^20 that occurs in the non-test files of
// vm/crossvm_codec (MAX_PARAM_LENGTH and anything a change introduces), plus the linked
// MAX_PARAM_LENGTH.
func sizeConstants(repo string) []int {
	set := map[int]bool{int(cc.MAX_PARAM_LENGTH): true}
	files, _ := filepath.Glob(filepath.Join(repo, "vm/crossvm_codec/*.go"))
	for _, f := range files {
		if strings.HasSuffix(f, "_test.go") {
			continue
		}
		fset := token.NewFileSet()
		af, err := parser.ParseFile(fset, f, nil, 0)
		if err != nil {
			continue
		}
		ast.Inspect(af, func(n ast.Node) bool {
			if lit, ok := n.(*ast.BasicLit); ok && lit.Kind == token.INT {
				if v, err := strconv.ParseInt(lit.Value, 0, 64); err == nil && v >= 8 && v <= 1<<20 {
					set[int(v)] = true
				}
			}
			return true
		})
	}
	var out []int
	for v := range set {
		out = append(out, v)
	}
	sort.Ints(out)
	return out
}

// ---------- the boundary family ----------

func cheapElem(kind string, i int) gv {
	switch kind {
	case "bool":
		return gv{T: "bool", B: true}
	case "byte":
		return gv{T: "bytes", H: "2a"}
	default:
		return gv{T: "int", Z: "7"}
	}
}

// longList: n cheap elements, the last one different from the others; nested=true puts it inside
// a 2-element outer list, followed by a sentinel string.
func longList(kind string, n int, nested bool) gv {
	l := make([]gv, 0, n)
	for i := 0; i < n; i++ {
		l = append(l, cheapElem(kind, i))
	}
	if n > 0 {
		l[n-1] = gv{T: "bool", B: false}
	}
	g := gv{T: "list", L: l}
	if nested {
		return gv{T: "list", L: []gv{g, {T: "string", H: hx.Hex([]byte("sentinel"))}}}
	}
	return g
}

func longPayload(t string, n int, nested bool) gv {
	g := gv{T: t, H: hx.Hex(bytes.Repeat([]byte{0x61}, n))}
	if nested {
		return gv{T: "list", L: []gv{g, {T: "string", H: hx.Hex([]byte("sentinel"))}}}
	}
	return g
}

// boundary runs the family: for every size constant L of the codec the sizes L-1, L, L+1, and
// 3000 (and 2^16-1 .. 2^16+1 for payloads), for lists of cheap elements and for byte strings /
// strings, top-level and nested before a sentinel. Every value goes through the round-trip oracle
// (EncodeValue, DecodeValue with all input consumed, DeserializeCallParam, parseNotify,
// DeserializeNotify); the quick tier sends a subset to Coq, the thorough tier all of them.
func boundary(c *hx.Ctx) {
	consts := sizeConstants(c.Repo)
	c.Note(fmt.Sprintf("size constants read from vm/crossvm_codec: %v", consts))
	sizeSet := map[int]bool{3000: true}
	for _, L := range consts {
		if L > 70000 {
			continue
		}
		for _, d := range []int{-1, 0, 1} {
			sizeSet[L+d] = true
		}
	}
	var sizes []int
	for v := range sizeSet {
		sizes = append(sizes, v)
	}
	sort.Ints(sizes)
	quick := c.Quick()
	overCap := map[int]bool{} // L+1 for a size constant L
	atConst := map[int]bool{} // L-1, L, L+1
	for _, L := range consts {
		overCap[L+1] = true
		atConst[L-1], atConst[L], atConst[L+1] = true, true, true
	}
	pick := func(cond bool) emitMode { // thorough: everything goes to Coq; quick: the chosen subset
		if !quick || cond {
			return compact
		}
		return none
	}
	wire := func(g gv) []byte { return mustEncode(g.norm()) }
	for _, n := range sizes {
		for _, kind := range []string{"bool", "byte", "int"} {
			for _, nested := range []bool{false, true} {
				g := longList(kind, n, nested)
				c.Count(fmt.Sprintf("boundary:list:%s:n=%d", kind, n))
				// The model's source is a Coq list (cost ~ elements * bytes), so the quick tier evaluates in
				// Coq: bool lists at L-1, L, L+1 (encode), every decode one past a constant, one at 3000.
				isBool := kind == "bool"
				doEnc(c, g, pick(isBool && atConst[n] && (!nested || overCap[n])))
				b := wire(g)
				doDec(c, append(append([]byte{}, b...), 0xee, 0xee), 0, "boundary",
					pick((isBool && overCap[n]) || (isBool && n == 3000 && !nested) || (kind == "byte" && overCap[n] && nested)))
				wm := pick(isBool && overCap[n] && nested)
				doCall(c, append([]byte{cc.VERSION}, b...), wm)
				doNotify(c, append(append([]byte{}, evt...), b...), wm)
			}
		}
	}
	psizes := append([]int{}, sizes...)
	psizes = append(psizes, 255, 256, 257, 65535, 65536, 65537)
	sort.Ints(psizes)
	for _, n := range psizes {
		for _, t := range []string{"bytes", "string"} {
			for _, nested := range []bool{false, true} {
				g := longPayload(t, n, nested)
				c.Count(fmt.Sprintf("boundary:%s:n=%d", t, n))
				doEnc(c, g, pick(n < 60000 && nested == (t == "string")))
				b := wire(g)
				doDec(c, append(append([]byte{}, b...), 0xee), 0, "boundary", pick(n < 60000 && nested != (t == "string")))
				doCall(c, append([]byte{cc.VERSION}, b...), none)
				doNotify(c, append(append([]byte{}, evt...), b...), none)
			}
		}
	}
	// hand-made wire forms around the same counts: a count one larger / smaller than the elements present
	for _, n := range sizes {
		if n < 2 {
			continue
		}
		body := bytes.Repeat([]byte{cc.BooleanType, 1}, n)
		for _, cnt := range []int{n - 1, n, n + 1} {
			b := append(append([]byte{cc.ListType}, le32(uint32(cnt))...), body...)
			doDec(c, b, 0, "boundary-wire", pick(overCap[n]))
		}
	}
}
