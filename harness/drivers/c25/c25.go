// Package c25: cross-VM parameter codec (vm/crossvm_codec: codec.go, vmcall_codec.go,
// notify_codec.go).
//
// Correspondence cases (evaluated against Model/CrossVM.v by Corr/C25.v): EncodeValue on generated
// value trees (in the theorem's domain and outside it), DecodeValue on valid / mutated / hostile /
// random byte strings at offset 0 and after a Skip, DeserializeCallParam, parseNotify and the
// raw-input fallback of DeserializeNotify.
//
// Oracle (directly on the implementation): encode-decode round trip to an equal value with all
// bytes consumed, also through the version byte and the notify prefix; out-of-range big integers
// refused; no panic on any byte string; a decoded value has one of the seven result types and
// re-encodes to exactly the consumed bytes; DeserializeNotify returns the input itself exactly when
// parsing fails and otherwise the rendering of the decoded value.
package c25

import (
	"bytes"
	"encoding/hex"
	"encoding/json"
	"fmt"
	"math/big"
	"strings"

	"github.com/ontio/ontology/common"
	"github.com/ontio/ontology/common/log"
	cc "github.com/ontio/ontology/vm/crossvm_codec"

	"verif/harness/hx"
)

// gv is a generated Go value as the encoder's type switches see it.
type gv struct {
	T string `json:"t"`           // bytes string address bool h256 big int int64 int32 uint32 list other
	H string `json:"h,omitempty"` // payload (hex) of bytes/string/address/h256
	B bool   `json:"b,omitempty"`
	Z string `json:"z,omitempty"` // decimal value of big/int/int64/int32/uint32
	L []gv   `json:"l,omitempty"`
	O string `json:"o,omitempty"` // which unsupported Go type
}

type otherStruct struct{ A int }

func bigOf(s string) *big.Int {
	z, ok := new(big.Int).SetString(s, 10)
	if !ok {
		panic("bad decimal " + s)
	}
	return z
}

func (g gv) toGo() interface{} {
	switch g.T {
	case "bytes":
		return hx.UnHex(g.H)
	case "string":
		return string(hx.UnHex(g.H))
	case "address":
		var a common.Address
		copy(a[:], hx.UnHex(g.H))
		return a
	case "h256":
		var h common.Uint256
		copy(h[:], hx.UnHex(g.H))
		return h
	case "bool":
		return g.B
	case "big":
		return bigOf(g.Z)
	case "int":
		return int(bigOf(g.Z).Int64())
	case "int64":
		return bigOf(g.Z).Int64()
	case "int32":
		return int32(bigOf(g.Z).Int64())
	case "uint32":
		return uint32(bigOf(g.Z).Uint64())
	case "list":
		l := make([]interface{}, 0, len(g.L))
		for _, e := range g.L {
			l = append(l, e.toGo())
		}
		return l
	default:
		switch g.O {
		case "uint64":
			return uint64(7)
		case "int8":
			return int8(-3)
		case "float64":
			return 1.5
		case "uint":
			return uint(9)
		default:
			return otherStruct{1}
		}
	}
}

func (g gv) coq() string {
	switch g.T {
	case "bytes":
		return "GBytes " + hx.CoqBytes(hx.UnHex(g.H))
	case "string":
		return "GString " + hx.CoqBytes(hx.UnHex(g.H))
	case "address":
		return "GAddress " + hx.CoqBytes(hx.UnHex(g.H))
	case "h256":
		return "GH256 " + hx.CoqBytes(hx.UnHex(g.H))
	case "bool":
		return "GBool " + hx.CoqBool(g.B)
	case "big":
		return "GBig " + hx.CoqZBig(bigOf(g.Z))
	case "int":
		return "GInt " + hx.CoqZBig(bigOf(g.Z))
	case "int64":
		return "GInt64 " + hx.CoqZBig(bigOf(g.Z))
	case "int32":
		return "GInt32 " + hx.CoqZBig(bigOf(g.Z))
	case "uint32":
		return "GUint32 " + bigOf(g.Z).String()
	case "list":
		var s []string
		for _, e := range g.L {
			s = append(s, e.coq())
		}
		return "GList " + hx.CoqList(s)
	default:
		return "GOther"
	}
}

var (
	maxI128 = new(big.Int).Sub(new(big.Int).Lsh(big.NewInt(1), 127), big.NewInt(1))
	minI128 = new(big.Int).Neg(new(big.Int).Lsh(big.NewInt(1), 127))
)

// inDomain is the generator's own claim that g satisfies the hypotheses of the round-trip theorem
// (Coq recomputes wf_g on the same term and the case fails if the two disagree).
func (g gv) inDomain(top bool) bool {
	switch g.T {
	case "big":
		z := bigOf(g.Z)
		return z.Cmp(maxI128) <= 0 && z.Cmp(minI128) >= 0
	case "int32", "uint32":
		return !top
	case "list":
		for _, e := range g.L {
			if !e.inDomain(false) {
				return false
			}
		}
		return true
	case "other":
		return false
	}
	return true
}

// nv is a decoded (normalised) value: T in bytes string address bool h256 int list.
type nv struct {
	T string
	D []byte
	B bool
	Z *big.Int
	L []nv
}

func (g gv) norm() nv {
	switch g.T {
	case "bytes", "string", "address", "h256":
		return nv{T: g.T, D: hx.UnHex(g.H)}
	case "bool":
		return nv{T: "bool", B: g.B}
	case "big", "int", "int64", "int32", "uint32":
		return nv{T: "int", Z: bigOf(g.Z)}
	case "list":
		l := make([]nv, 0, len(g.L))
		for _, e := range g.L {
			l = append(l, e.norm())
		}
		return nv{T: "list", L: l}
	}
	return nv{T: "other"}
}

// fromGo maps a value returned by DecodeValue to nv; ok=false when its dynamic type is not one of
// the seven result types (or a list contains such a value).
func fromGo(v interface{}) (nv, bool) {
	switch x := v.(type) {
	case []byte:
		return nv{T: "bytes", D: append([]byte{}, x...)}, true
	case string:
		return nv{T: "string", D: []byte(x)}, true
	case common.Address:
		return nv{T: "address", D: append([]byte{}, x[:]...)}, true
	case common.Uint256:
		return nv{T: "h256", D: append([]byte{}, x[:]...)}, true
	case bool:
		return nv{T: "bool", B: x}, true
	case *big.Int:
		if x == nil {
			return nv{}, false
		}
		return nv{T: "int", Z: new(big.Int).Set(x)}, true
	case []interface{}:
		l := make([]nv, 0, len(x))
		for _, e := range x {
			n, ok := fromGo(e)
			if !ok {
				return nv{}, false
			}
			l = append(l, n)
		}
		return nv{T: "list", L: l}, true
	}
	return nv{}, false
}

func (n nv) toGo() interface{} {
	switch n.T {
	case "bytes":
		return n.D
	case "string":
		return string(n.D)
	case "address":
		var a common.Address
		copy(a[:], n.D)
		return a
	case "h256":
		var h common.Uint256
		copy(h[:], n.D)
		return h
	case "bool":
		return n.B
	case "int":
		return n.Z
	default:
		l := make([]interface{}, 0, len(n.L))
		for _, e := range n.L {
			l = append(l, e.toGo())
		}
		return l
	}
}

func (n nv) eq(m nv) bool {
	if n.T != m.T {
		return false
	}
	switch n.T {
	case "bool":
		return n.B == m.B
	case "int":
		return n.Z.Cmp(m.Z) == 0
	case "list":
		if len(n.L) != len(m.L) {
			return false
		}
		for i := range n.L {
			if !n.L[i].eq(m.L[i]) {
				return false
			}
		}
		return true
	}
	return bytes.Equal(n.D, m.D)
}

func (n nv) coq() string {
	switch n.T {
	case "bytes":
		return "XBytes " + hx.CoqBytes(n.D)
	case "string":
		return "XString " + hx.CoqBytes(n.D)
	case "address":
		return "XAddress " + hx.CoqBytes(n.D)
	case "h256":
		return "XH256 " + hx.CoqBytes(n.D)
	case "bool":
		return "XBool " + hx.CoqBool(n.B)
	case "int":
		return "XInt " + hx.CoqZBig(n.Z)
	default:
		var s []string
		for _, e := range n.L {
			s = append(s, e.coq())
		}
		return "XList " + hx.CoqList(s)
	}
}

func (n nv) String() string { return n.coq() }

// render is the harness's own statement of what DeserializeNotify shows for a decoded value.
func (n nv) render() interface{} {
	switch n.T {
	case "bytes":
		return hex.EncodeToString(n.D)
	case "string":
		return string(n.D)
	case "address":
		var a common.Address
		copy(a[:], n.D)
		return a.ToBase58()
	case "h256":
		var h common.Uint256
		copy(h[:], n.D)
		return h.ToHexString()
	case "bool":
		return n.B
	case "int":
		return n.Z.String()
	default:
		l := make([]interface{}, 0, len(n.L))
		for _, e := range n.L {
			l = append(l, e.render())
		}
		return l
	}
}

func renderEq(a, b interface{}) bool {
	switch x := a.(type) {
	case string:
		y, ok := b.(string)
		return ok && x == y
	case bool:
		y, ok := b.(bool)
		return ok && x == y
	case []interface{}:
		y, ok := b.([]interface{})
		if !ok || len(x) != len(y) {
			return false
		}
		for i := range x {
			if !renderEq(x[i], y[i]) {
				return false
			}
		}
		return true
	}
	return false
}

// ---------- generators ----------

var bigBounds = func() []*big.Int {
	var out []*big.Int
	for _, sh := range []uint{0, 7, 8, 31, 32, 63, 64, 126, 127, 128, 200} {
		p := new(big.Int).Lsh(big.NewInt(1), sh)
		for _, d := range []int64{-1, 0, 1} {
			v := new(big.Int).Add(p, big.NewInt(d))
			out = append(out, v, new(big.Int).Neg(v))
		}
	}
	return append(out, big.NewInt(0))
}()

func randBig(c *hx.Ctx, allowOut bool) *big.Int {
	for {
		var z *big.Int
		switch c.Intn(4) {
		case 0:
			z = bigBounds[c.Intn(len(bigBounds))]
		case 1:
			z = new(big.Int).SetBytes(c.Bytes(1 + c.Intn(16)))
			if c.Intn(2) == 0 {
				z.Neg(z)
			}
		case 2:
			z = big.NewInt(int64(c.U64Boundary()))
		default:
			z = big.NewInt(int64(c.Intn(2000) - 1000))
		}
		in := z.Cmp(maxI128) <= 0 && z.Cmp(minI128) >= 0
		if in || allowOut {
			return z
		}
	}
}

func randPayload(c *hx.Ctx) []byte {
	n := []int{0, 0, 1, 2, 5, 16, 20, 32, 33, 60}[c.Intn(10)]
	if c.Intn(40) == 0 {
		n = 256 + c.Intn(100)
	}
	b := c.Bytes(n)
	if c.Intn(3) == 0 { // printable
		for i := range b {
			b[i] = 'a' + b[i]%26
		}
	}
	return b
}

// genValue: a value tree. out=true allows out-of-range big integers and unsupported types.
func genValue(c *hx.Ctx, depth int, top bool, out bool) gv {
	k := c.Intn(13)
	if depth <= 0 && k >= 10 {
		k = c.Intn(10)
	}
	switch k {
	case 0:
		return gv{T: "bytes", H: hx.Hex(randPayload(c))}
	case 1:
		return gv{T: "string", H: hx.Hex(randPayload(c))}
	case 2:
		return gv{T: "address", H: hx.Hex(c.Bytes(20))}
	case 3:
		return gv{T: "h256", H: hx.Hex(c.Bytes(32))}
	case 4:
		return gv{T: "bool", B: c.Intn(2) == 0}
	case 5:
		return gv{T: "big", Z: randBig(c, out && c.Intn(3) == 0).String()}
	case 6:
		return gv{T: "int", Z: fmt.Sprint(int64(c.U64Boundary()))}
	case 7:
		return gv{T: "int64", Z: fmt.Sprint(int64(c.U64Boundary()))}
	case 8:
		if top && !out {
			return gv{T: "int64", Z: fmt.Sprint(int64(int32(c.U64Boundary())))}
		}
		return gv{T: "int32", Z: fmt.Sprint(int32(c.U64Boundary()))}
	case 9:
		if top && !out {
			return gv{T: "big", Z: fmt.Sprint(uint32(c.U64Boundary()))}
		}
		return gv{T: "uint32", Z: fmt.Sprint(uint32(c.U64Boundary()))}
	default:
		if out && c.Intn(6) == 0 {
			return gv{T: "other", O: []string{"uint64", "int8", "float64", "uint", "struct"}[c.Intn(5)]}
		}
		n := c.Intn(5)
		if c.Intn(10) == 0 {
			n = 0
		}
		l := make([]gv, 0, n)
		for i := 0; i < n; i++ {
			l = append(l, genValue(c, depth-1, false, out))
		}
		return gv{T: "list", L: l}
	}
}

func mustEncode(n nv) []byte {
	b, err := cc.EncodeValue(n.toGo())
	if err != nil {
		panic(err)
	}
	return append([]byte{}, b...)
}

var tags = []byte{cc.ByteArrayType, cc.StringType, cc.AddressType, cc.BooleanType, cc.IntType, cc.H256Type, cc.ListType}

func le32(v uint32) []byte { return []byte{byte(v), byte(v >> 8), byte(v >> 16), byte(v >> 24)} }

// hostile byte strings: huge counts, deep nesting, irregular booleans, unknown tags, truncations.
func hostile(c *hx.Ctx) []byte {
	switch c.Intn(9) {
	case 0: // list with a count far beyond the input
		cnt := []uint32{0xffffffff, 0x80000000, 0x7fffffff, 65536, 6, 2}[c.Intn(6)]
		b := append([]byte{cc.ListType}, le32(cnt)...)
		for i := 0; i < c.Intn(4); i++ {
			b = append(b, mustEncode(genValue(c, 1, false, false).norm())...)
		}
		return b
	case 1: // byte array / string with a size beyond the input
		sz := []uint32{0xffffffff, 0x80000000, 1 << 20, 40, 9}[c.Intn(5)]
		b := append([]byte{[]byte{cc.ByteArrayType, cc.StringType}[c.Intn(2)]}, le32(sz)...)
		return append(b, c.Bytes(c.Intn(9))...)
	case 2: // nesting
		d := []int{1, 2, 7, 30, 60}[c.Intn(5)]
		var b []byte
		for i := 0; i < d; i++ {
			b = append(b, cc.ListType)
			b = append(b, le32(1)...)
		}
		switch c.Intn(3) {
		case 0:
			b = append(b, cc.BooleanType, 1)
		case 1:
			b = append(b, cc.ListType, 0, 0, 0, 0)
		}
		return b
	case 3: // irregular boolean
		return []byte{cc.BooleanType, byte(2 + c.Intn(254))}
	case 4: // unknown tag
		t := byte(c.Intn(256))
		return append([]byte{t}, c.Bytes(c.Intn(6))...)
	case 5: // fixed-size value cut short or exact
		t := []byte{cc.AddressType, cc.IntType, cc.H256Type}[c.Intn(3)]
		return append([]byte{t}, c.Bytes([]int{0, 15, 16, 17, 19, 20, 21, 31, 32, 33}[c.Intn(10)])...)
	case 6: // list whose last element is malformed
		b := append([]byte{cc.ListType}, le32(3)...)
		b = append(b, mustEncode(genValue(c, 1, false, false).norm())...)
		b = append(b, mustEncode(genValue(c, 1, false, false).norm())...)
		return append(b, hostile(c)...)
	case 7: // tag only / size cut
		t := tags[c.Intn(len(tags))]
		return append([]byte{t}, c.Bytes(c.Intn(4))...)
	default:
		b := c.Bytes(c.Intn(24))
		if len(b) > 0 {
			b[0] = tags[c.Intn(len(tags))]
		}
		return b
	}
}

// ---------- observations ----------

// emitMode: whether an evaluation is also sent to Coq, and in which notation.
type emitMode int

const (
	none    emitMode = iota // oracle only
	plain                   // literal terms (CEnc, CDec, CCall, CNotify, CNotifyOut)
	compact                 // run-length descriptions expanded by Corr/C25.v (CEncX, CDecX, CCallX, CNotifyX)
)

type decIn struct {
	Kind string `json:"kind"` // dec call notify notifyout enc
	Hex  string `json:"hex,omitempty"`
	Skip uint64 `json:"skip,omitempty"`
	Val  *gv    `json:"val,omitempty"`
}

func errObs(err error) (string, bool) {
	switch err {
	case cc.ERROR_PARAM_FORMAT:
		return "OErrFormat", true
	case cc.ERROR_PARAM_NOT_SUPPORTED_TYPE:
		return "OErrNotSupported", true
	}
	return "", false
}

// checkDecoded applies the oracle clauses to one decode result; returns the Coq observation.
func checkDecoded(c *hx.Ctx, in decIn, what string, val interface{}, err error, consumed []byte, pos uint64, emit emitMode) (string, bool) {
	if err != nil {
		o, ok := errObs(err)
		if !ok || val != nil {
			c.Fail("decode-result-shape", what+" returned an error outside the package's two errors, or a value together with an error", in, fmt.Sprint(val, err), "(nil, ERROR_PARAM_FORMAT | ERROR_PARAM_NOT_SUPPORTED_TYPE)")
			return "", false
		}
		c.Count(what + ":" + o)
		if emit == compact {
			o = "X" + o[1:]
		}
		return o, true
	}
	n, ok := fromGo(val)
	if !ok {
		c.Fail("decode-result-shape", what+" accepted the input but returned something that is not a value of the codec", in, fmt.Sprintf("%#v", val), "[]byte | string | Address | bool | *big.Int | Uint256 | list of these")
		return "", false
	}
	// canonical: the bytes consumed are the encoding of the value returned
	re, eerr := cc.EncodeValue(n.toGo())
	if eerr != nil || !bytes.Equal(re, consumed) {
		c.Fail("non-canonical-accepted", what+" accepted bytes that are not the encoding of the value it returned", in,
			map[string]interface{}{"value": n.String(), "reencoded": hx.Hex(re), "consumed": hx.Hex(consumed), "err": fmt.Sprint(eerr)}, "EncodeValue(decoded) == consumed bytes")
	}
	c.Count(what + ":ok")
	switch emit {
	case none:
		return "", true // the Coq term is only built for cases sent to Coq (it is quadratic in the nesting depth)
	case compact:
		return fmt.Sprintf("XOk (%s) %d", n.embed().coqX(), pos), true
	}
	return fmt.Sprintf("OOk (%s) %d", n.coq(), pos), true
}

func doDec(c *hx.Ctx, buf []byte, skip uint64, kind string, emit emitMode) {
	c.Eval()
	in := decIn{Kind: "dec", Hex: hx.Hex(buf), Skip: skip}
	var val interface{}
	var err error
	var start, pos uint64
	p, msg := hx.Recover(func() {
		src := common.NewZeroCopySource(buf)
		src.Skip(skip)
		start = src.Pos()
		val, err = cc.DecodeValue(src)
		pos = src.Pos()
	})
	if p {
		c.Fail("panic:decode", "DecodeValue panicked on a byte string", in, msg, "a value or an error")
		return
	}
	if pos < start || pos > uint64(len(buf)) {
		c.Fail("decode-oob", "source position left the buffer", in, pos, len(buf))
		return
	}
	obs, ok := checkDecoded(c, in, "dec", val, err, buf[start:pos], pos, emit)
	if !ok {
		return
	}
	c.Count("dec-kind:" + kind)
	c.Count(fmt.Sprintf("dec-len<=%d", bucket(len(buf))))
	if len(buf) > 1 {
		c.Nontrivial("d" + in.Hex + fmt.Sprint(skip))
	}
	switch emit {
	case plain:
		c.Sample(map[string]interface{}{"kind": "dec:" + kind, "hex": in.Hex, "skip": skip, "obs": obs})
		c.Case(fmt.Sprintf("CDec %s %d (%s)", hx.CoqBytes(buf), skip, obs), in)
	case compact:
		c.Case(fmt.Sprintf("CDecX (%s) %d %s (%s)", bytesX(buf), skip, lenFp(buf), obs), in)
	}
}

func bucket(n int) int {
	for _, b := range []int{0, 1, 5, 16, 64, 256, 1024} {
		if n <= b {
			return b
		}
	}
	return 1 << 20
}

func doCall(c *hx.Ctx, buf []byte, emit emitMode) {
	c.Eval()
	in := decIn{Kind: "call", Hex: hx.Hex(buf)}
	var val interface{}
	var err error
	p, msg := hx.Recover(func() { val, err = cc.DeserializeCallParam(buf) })
	if p {
		c.Fail("panic:call-param", "DeserializeCallParam panicked on a byte string", in, msg, "a value or an error")
		return
	}
	var consumed []byte
	var pos uint64
	if err == nil {
		if len(buf) == 0 || buf[0] != cc.VERSION {
			c.Fail("prefix", "DeserializeCallParam accepted an input that does not start with the version byte", in, fmt.Sprintf("%#v", val), "ERROR_PARAM_FORMAT")
			return
		}
		// where did it stop: decode the tail again
		src := common.NewZeroCopySource(buf[1:])
		if _, e2 := cc.DecodeValue(src); e2 != nil {
			c.Fail("prefix", "DeserializeCallParam accepted an input whose tail DecodeValue rejects", in, e2.Error(), nil)
			return
		}
		pos = src.Pos()
		consumed = buf[1 : 1+pos]
	}
	obs, ok := checkDecoded(c, in, "call", val, err, consumed, pos, emit)
	if !ok {
		return
	}
	if len(buf) > 1 {
		c.Nontrivial("c" + in.Hex)
	}
	switch emit {
	case plain:
		c.Case(fmt.Sprintf("CCall %s (%s)", hx.CoqBytes(buf), obs), in)
	case compact:
		c.Case(fmt.Sprintf("CCallX (%s) %s (%s)", bytesX(buf), lenFp(buf), obs), in)
	}
}

var evt = []byte("evt\x00")

func doNotify(c *hx.Ctx, buf []byte, emit emitMode) {
	c.Eval()
	in := decIn{Kind: "notify", Hex: hx.Hex(buf)}
	var val, out interface{}
	var err error
	p, msg := hx.Recover(func() {
		val, err = cc.VerifParseNotify(buf)
		out = cc.DeserializeNotify(append([]byte{}, buf...))
	})
	if p {
		c.Fail("panic:notify", "parseNotify / DeserializeNotify panicked on a byte string", in, msg, "a value or the raw input")
		return
	}
	var consumed []byte
	var pos uint64
	if err == nil {
		if !bytes.HasPrefix(buf, evt) {
			c.Fail("prefix", "parseNotify accepted an input that does not start with evt\\0", in, fmt.Sprintf("%#v", val), "ERROR_PARAM_FORMAT")
			return
		}
		src := common.NewZeroCopySource(buf[4:])
		if _, e2 := cc.DecodeValue(src); e2 != nil {
			c.Fail("prefix", "parseNotify accepted an input whose tail DecodeValue rejects", in, e2.Error(), nil)
			return
		}
		pos = src.Pos()
		consumed = buf[4 : 4+pos]
	}
	obs, ok := checkDecoded(c, in, "notify", val, err, consumed, pos, emit)
	if !ok {
		return
	}
	// fallback clause
	raw, isRaw := out.([]byte)
	if err != nil {
		if !isRaw || !bytes.Equal(raw, buf) {
			c.Fail("notify-fallback", "DeserializeNotify did not return the raw input although parsing failed", in, fmt.Sprintf("%#v", out), "the input bytes")
		}
	} else {
		n, _ := fromGo(val)
		if isRaw || !renderEq(out, n.render()) {
			c.Fail("notify-render", "DeserializeNotify did not return the rendering of the value it parsed", in, fmt.Sprintf("%#v", out), fmt.Sprintf("%#v", n.render()))
		}
	}
	if len(buf) > 4 {
		c.Nontrivial("n" + in.Hex)
	}
	switch emit {
	case plain:
		c.Case(fmt.Sprintf("CNotify %s (%s)", hx.CoqBytes(buf), obs), in)
		c.Case(fmt.Sprintf("CNotifyOut %s %s", hx.CoqBytes(buf), hx.CoqBool(isRaw)), decIn{Kind: "notifyout", Hex: in.Hex})
	case compact:
		c.Case(fmt.Sprintf("CNotifyX (%s) %s (%s)", bytesX(buf), lenFp(buf), obs), in)
	}
}

func doEnc(c *hx.Ctx, g gv, emit emitMode) {
	c.Eval()
	in := decIn{Kind: "enc", Val: &g}
	dom := g.inDomain(true)
	var enc []byte
	var err error
	p, msg := hx.Recover(func() { enc, err = cc.EncodeValue(g.toGo()) })
	if p {
		c.Fail("panic:encode", "EncodeValue panicked", in, msg, "bytes or an error")
		return
	}
	enc = append([]byte{}, enc...)
	var res string
	switch {
	case err == nil && emit == compact:
		res = "EOk " + lenFp(enc)
	case err == nil && emit == none:
		res = "EOk"
	case err == nil:
		res = "EOk " + hx.CoqBytes(enc)
	case strings.Contains(err.Error(), "out of i128 range"):
		res = "EErrRange"
	case strings.Contains(err.Error(), "unsupported type"):
		res = "EErrUnsupported"
	default:
		c.Fail("encode-error", "EncodeValue returned an unexpected error", in, err.Error(), nil)
		return
	}
	c.Count("enc:" + strings.Fields(res)[0] + fmt.Sprintf(":indomain=%v", dom))
	c.Count("enc-top:" + g.T)
	switch emit {
	case plain:
		c.Sample(map[string]interface{}{"kind": "enc", "value": g.coq(), "result": res})
		c.Case(fmt.Sprintf("CEnc (%s) %s (%s)", g.coq(), hx.CoqBool(dom), res), in)
	case compact:
		c.Case(fmt.Sprintf("CEncX (%s) %s (EX%s)", g.coqX(), hx.CoqBool(dom), res[1:]), in)
	}
	if dom {
		want := g.norm()
		bad := func(clause string, got interface{}) {
			c.Fail("roundtrip", clause, in, got, want.String())
		}
		if err != nil {
			bad("EncodeValue refused a value of the codec's domain", err.Error())
			return
		}
		// DecodeValue
		src := common.NewZeroCopySource(enc)
		var val interface{}
		var derr error
		p, msg := hx.Recover(func() { val, derr = cc.DecodeValue(src) })
		if p {
			c.Fail("panic:decode", "DecodeValue panicked on the encoder's output", in, msg, nil)
			return
		}
		got, ok := fromGo(val)
		if derr != nil || !ok || !got.eq(want) || src.Len() != 0 {
			bad("decoding the encoding does not give back an equal value with all bytes consumed",
				map[string]interface{}{"enc": hx.Hex(enc), "decoded": fmt.Sprintf("%#v", val), "err": fmt.Sprint(derr), "left": src.Len()})
			return
		}
		// through the version byte
		val, derr = cc.DeserializeCallParam(append([]byte{cc.VERSION}, enc...))
		got, ok = fromGo(val)
		if derr != nil || !ok || !got.eq(want) {
			bad("DeserializeCallParam(VERSION ++ encoding) does not give back an equal value", fmt.Sprintf("%#v %v", val, derr))
		}
		// through the notify prefix
		nb := append(append([]byte{}, evt...), enc...)
		val, derr = cc.VerifParseNotify(nb)
		got, ok = fromGo(val)
		if derr != nil || !ok || !got.eq(want) {
			bad("parseNotify(evt\\0 ++ encoding) does not give back an equal value", fmt.Sprintf("%#v %v", val, derr))
		}
		if out := cc.DeserializeNotify(nb); !renderEq(out, want.render()) {
			c.Fail("notify-render", "DeserializeNotify(evt\\0 ++ encoding) is not the rendering of the value", in, fmt.Sprintf("%#v", out), fmt.Sprintf("%#v", want.render()))
		}
		c.Nontrivial("e" + g.coq())
	} else if hasOutOfRange(g, true) && err == nil {
		c.Fail("encode-range", "EncodeValue accepted an integer outside the i128 range", in, hx.Hex(enc), "an error")
	}
}

// hasOutOfRange: an out-of-range big integer is reached by the encoder before any unsupported type.
func hasOutOfRange(g gv, top bool) bool {
	first := firstProblem(g, top)
	return first == "range"
}

func firstProblem(g gv, top bool) string {
	switch g.T {
	case "big":
		z := bigOf(g.Z)
		if z.Cmp(maxI128) > 0 || z.Cmp(minI128) < 0 {
			return "range"
		}
	case "other":
		return "unsupported"
	case "int32", "uint32":
		if top {
			return "unsupported"
		}
	case "list":
		for _, e := range g.L {
			if p := firstProblem(e, false); p != "" {
				return p
			}
		}
	}
	return ""
}

// mutate: one structural or byte-level edit of a valid encoding.
func mutate(c *hx.Ctx, b []byte) []byte {
	b = append([]byte{}, b...)
	if len(b) == 0 {
		return b
	}
	switch c.Intn(6) {
	case 0:
		return b[:c.Intn(len(b))]
	case 1:
		b[c.Intn(len(b))] ^= byte(1 << uint(c.Intn(8)))
	case 2:
		b[c.Intn(len(b))] = tags[c.Intn(len(tags))]
	case 3:
		return append(b, c.Bytes(1+c.Intn(5))...)
	case 4:
		i := c.Intn(len(b))
		return append(b[:i], b[i+1:]...)
	default:
		i := c.Intn(len(b))
		b[i] = byte(c.Intn(256))
	}
	return b
}

func decInput(c *hx.Ctx) ([]byte, uint64, string) {
	switch c.Intn(10) {
	case 0, 1:
		return mustEncode(genValue(c, 3, true, false).norm()), 0, "valid"
	case 2:
		pre := c.Bytes(c.Intn(9))
		b := append(pre, mustEncode(genValue(c, 2, true, false).norm())...)
		b = append(b, c.Bytes(c.Intn(4))...)
		return b, uint64(len(pre)), "valid-at-offset"
	case 3, 4, 5:
		return mutate(c, mustEncode(genValue(c, 3, true, false).norm())), 0, "mutated"
	case 6, 7, 8:
		return hostile(c), 0, "hostile"
	default:
		b := c.Bytes(c.Intn(40))
		sk := uint64(0)
		if c.Intn(4) == 0 {
			sk = uint64(c.Intn(len(b) + 3))
		}
		return b, sk, "random"
	}
}

func wrapInput(c *hx.Ctx, prefix []byte) []byte {
	body, _, _ := decInput(c)
	switch c.Intn(8) {
	case 0:
		return body // no prefix
	case 1:
		p := append([]byte{}, prefix...)
		p[c.Intn(len(p))] ^= byte(1 + c.Intn(255))
		return append(p, body...)
	case 2:
		return append([]byte{}, prefix[:c.Intn(len(prefix)+1)]...) // prefix cut short, nothing after
	case 3:
		return append(append([]byte{}, prefix[:len(prefix)-1]...), body...) // one prefix byte missing
	default:
		return append(append([]byte{}, prefix...), body...)
	}
}

func Run(c *hx.Ctx) {
	c.CoqModule("Corr.C25")
	log.InitLog(log.ErrorLog, log.Stdout) // EncodeValue's default branch logs a warning per call
	var rin decIn
	if c.ReplayInput(&rin) && rin.Kind != "" {
		if rin.Kind == "hist" {
			var h histIn
			c.ReplayInput(&h)
			replayHist(c, h)
			return
		}
		replay(c, rin)
		return
	}
	for _, raw := range c.CorpusInputs() {
		var r decIn
		if json.Unmarshal(raw, &r) == nil && r.Kind != "" {
			replay(c, r)
		}
	}
	// fixed probes: every prefix of the two wrappers' prefixes, and the shortest inputs
	for _, b := range [][]byte{{}, {0}, {1}, {0, cc.BooleanType, 1}, {1, cc.BooleanType, 1}, []byte("e"), []byte("ev"), []byte("evt"), evt,
		[]byte("evt\x01\x03\x01"), []byte("evt\x00\x03\x01"), []byte("evt\x00\x03\x02")} {
		doCall(c, b, plain)
		doNotify(c, b, plain)
		doDec(c, b, 0, "probe", plain)
	}
	// boundary family around every size constant of the codec (long lists, long payloads)
	boundary(c)
	// result lifetime: batches of encodes / decodes whose results are checked after the whole batch,
	// and a bounded concurrent variant
	history(c)
	// deep nesting, in process: 64 KiB (the notify limit), 256 KiB, and in the thorough tier 1 MiB
	// (the NeoVM byte-array limit; the first such decode costs ~5 s of goroutine stack growth)
	sizes := []int{64 * 1024, 256 * 1024}
	if !c.Quick() {
		sizes = append(sizes, 1024*1024)
	}
	for _, size := range sizes {
		d := size / 5
		b := bytes.Repeat(append([]byte{cc.ListType}, le32(1)...), d)
		doDec(c, b, 0, "deep", none)
		doDec(c, append(b, cc.BooleanType, 0), 0, "deep", none)
		doNotify(c, append(append([]byte{}, evt...), b...), none)
	}
	n := c.N(910, 12000)
	for i := 0; i < n; i++ {
		switch i % 13 {
		case 0, 1, 2:
			doEnc(c, genValue(c, 3, true, false), plain)
		case 3:
			doEnc(c, genValue(c, 3, true, true), plain)
		case 4, 5, 6, 7, 8, 9:
			b, sk, kind := decInput(c)
			doDec(c, b, sk, kind, plain)
		case 10:
			doCall(c, wrapInput(c, []byte{cc.VERSION}), plain)
		default:
			doNotify(c, wrapInput(c, evt), plain)
		}
	}
	// oracle only (not re-evaluated in Coq): more volume on the implementation
	m := c.N(20000, 300000)
	for i := 0; i < m; i++ {
		switch i % 6 {
		case 0:
			doEnc(c, genValue(c, 4, true, i%12 == 0), none)
		case 1:
			doCall(c, wrapInput(c, []byte{cc.VERSION}), none)
		case 2:
			doNotify(c, wrapInput(c, evt), none)
		default:
			b, sk, kind := decInput(c)
			doDec(c, b, sk, kind, none)
		}
	}
}

func replay(c *hx.Ctx, r decIn) {
	switch r.Kind {
	case "dec":
		doDec(c, hx.UnHex(r.Hex), r.Skip, "replay", plain)
	case "call":
		doCall(c, hx.UnHex(r.Hex), plain)
	case "notify", "notifyout":
		doNotify(c, hx.UnHex(r.Hex), plain)
	case "enc":
		if r.Val != nil {
			doEnc(c, *r.Val, plain)
		}
	}
}
