package c25

import (
	"fmt"
	"go/ast"
	"go/parser"
	"go/printer"
	"go/token"
	"path/filepath"
	"strconv"
	"strings"

	"github.com/ontio/ontology/vm/crossvm_codec"

	"verif/harness/gen"
	"verif/harness/hx"
)

// prefixSite reads, from the current source of fn in file, the byte string tested with
// bytes.HasPrefix(input, <lit>) and the constant k of the slice expression input[k:].
func prefixSite(repo, file, fn string) (prefix []byte, prefixSrc string, skip int, skipSrc string, err error) {
	fset := token.NewFileSet()
	f, perr := parser.ParseFile(fset, filepath.Join(repo, file), nil, 0)
	if perr != nil {
		return nil, "", 0, "", perr
	}
	var fd *ast.FuncDecl
	for _, d := range f.Decls {
		if x, ok := d.(*ast.FuncDecl); ok && x.Name.Name == fn && x.Recv == nil {
			fd = x
		}
	}
	if fd == nil || fd.Body == nil {
		return nil, "", 0, "", fmt.Errorf("function %s not found in %s", fn, file)
	}
	nPrefix, nSlice := 0, 0
	var ierr error
	ast.Inspect(fd.Body, func(n ast.Node) bool {
		switch x := n.(type) {
		case *ast.CallExpr:
			if sel, ok := x.Fun.(*ast.SelectorExpr); ok && sel.Sel.Name == "HasPrefix" && len(x.Args) == 2 {
				nPrefix++
				b, src, e := byteLit(x.Args[1])
				if e != nil {
					ierr = e
				}
				prefix, prefixSrc = b, src
			}
		case *ast.SliceExpr:
			if id, ok := x.X.(*ast.Ident); ok && id.Name == "input" {
				nSlice++
				lit, ok := x.Low.(*ast.BasicLit)
				if !ok || lit.Kind != token.INT || x.High != nil {
					ierr = fmt.Errorf("slice of input in %s is not input[<int literal>:]", fn)
					return true
				}
				k, e := strconv.Atoi(lit.Value)
				if e != nil {
					ierr = e
				}
				skip, skipSrc = k, "input["+lit.Value+":]"
			}
		}
		return true
	})
	if ierr != nil {
		return nil, "", 0, "", ierr
	}
	if nPrefix != 1 || nSlice != 1 {
		return nil, "", 0, "", fmt.Errorf("%s: expected one bytes.HasPrefix test and one input[k:] slice, found %d and %d", fn, nPrefix, nSlice)
	}
	return
}

// byteLit evaluates []byte{<int|char literals>} or []byte("<string literal>").
func byteLit(e ast.Expr) ([]byte, string, error) {
	switch x := e.(type) {
	case *ast.CompositeLit:
		var out []byte
		var parts []string
		for _, el := range x.Elts {
			lit, ok := el.(*ast.BasicLit)
			if !ok {
				return nil, "", fmt.Errorf("prefix element is not a literal")
			}
			switch lit.Kind {
			case token.INT:
				v, err := strconv.ParseUint(lit.Value, 0, 8)
				if err != nil {
					return nil, "", err
				}
				out = append(out, byte(v))
			case token.CHAR:
				r, _, _, err := strconv.UnquoteChar(strings.Trim(lit.Value, "'"), '\'')
				if err != nil || r > 255 {
					return nil, "", fmt.Errorf("bad char literal %s", lit.Value)
				}
				out = append(out, byte(r))
			default:
				return nil, "", fmt.Errorf("prefix element %s is not an integer literal", lit.Value)
			}
			parts = append(parts, lit.Value)
		}
		return out, "[]byte{" + strings.Join(parts, ", ") + "}", nil
	case *ast.CallExpr:
		if len(x.Args) == 1 {
			if lit, ok := x.Args[0].(*ast.BasicLit); ok && lit.Kind == token.STRING {
				s, err := strconv.Unquote(lit.Value)
				if err != nil {
					return nil, "", err
				}
				return []byte(s), "[]byte(" + lit.Value + ")", nil
			}
		}
	}
	return nil, "", fmt.Errorf("prefix argument is neither []byte{...} nor []byte(\"...\")")
}

// listLoopSite reads the ListType case of DecodeValue: the variable assigned from
// source.NextUint32() (the wire count) and the condition of the element loop. ok=true when the
// loop is `for i := ...; i < <that variable>; i++` and that variable is assigned only once.
func listLoopSite(repo string) (ok bool, desc string, err error) {
	fset := token.NewFileSet()
	f, perr := parser.ParseFile(fset, filepath.Join(repo, "vm/crossvm_codec/codec.go"), nil, 0)
	if perr != nil {
		return false, "", perr
	}
	var fd *ast.FuncDecl
	for _, d := range f.Decls {
		if x, k := d.(*ast.FuncDecl); k && x.Name.Name == "DecodeValue" && x.Recv == nil {
			fd = x
		}
	}
	if fd == nil || fd.Body == nil {
		return false, "", fmt.Errorf("DecodeValue not found")
	}
	var clause *ast.CaseClause
	ast.Inspect(fd.Body, func(n ast.Node) bool {
		if cl, k := n.(*ast.CaseClause); k {
			for _, e := range cl.List {
				if id, k := e.(*ast.Ident); k && id.Name == "ListType" {
					clause = cl
				}
			}
		}
		return true
	})
	if clause == nil {
		return false, "", fmt.Errorf("case ListType not found in DecodeValue")
	}
	count := ""
	assigns := map[string]int{} // assignments per variable in the clause (outside the loop header)
	var loops []*ast.ForStmt
	for _, st := range clause.Body {
		ast.Inspect(st, func(n ast.Node) bool {
			switch x := n.(type) {
			case *ast.AssignStmt:
				for _, l := range x.Lhs {
					if id, k := l.(*ast.Ident); k {
						assigns[id.Name]++
					}
				}
				if len(x.Rhs) == 1 && len(x.Lhs) >= 1 {
					if ce, k := x.Rhs[0].(*ast.CallExpr); k {
						if sel, k := ce.Fun.(*ast.SelectorExpr); k && sel.Sel.Name == "NextUint32" {
							if id, k := x.Lhs[0].(*ast.Ident); k {
								count = id.Name
							}
						}
					}
				}
			case *ast.ForStmt:
				loops = append(loops, x)
			}
			return true
		})
	}
	if count == "" || len(loops) != 1 {
		return false, "", fmt.Errorf("case ListType: expected one NextUint32 assignment and one for loop, found count=%q loops=%d", count, len(loops))
	}
	lp := loops[0]
	var cb strings.Builder
	if lp.Cond != nil {
		cb.WriteString(exprString(fset, lp.Cond))
	}
	desc = fmt.Sprintf("wire count variable %s; loop condition %s", count, cb.String())
	be, k := lp.Cond.(*ast.BinaryExpr)
	if !k || be.Op != token.LSS {
		return false, desc, nil
	}
	iv, k1 := be.X.(*ast.Ident)
	bound, k2 := be.Y.(*ast.Ident)
	if !k1 || !k2 || bound.Name != count {
		return false, desc, nil
	}
	if assigns[count] != 1 { // the count is changed between the read and the loop
		return false, desc + fmt.Sprintf("; %s is assigned %d times", count, assigns[count]), nil
	}
	inc, k := lp.Post.(*ast.IncDecStmt)
	if !k || inc.Tok != token.INC {
		return false, desc, nil
	}
	if id, k := inc.X.(*ast.Ident); !k || id.Name != iv.Name {
		return false, desc, nil
	}
	return true, desc, nil
}

func exprString(fset *token.FileSet, e ast.Expr) string {
	var b strings.Builder
	printer.Fprint(&b, fset, e)
	return b.String()
}

func coqNList(b []byte) string {
	var s []string
	for _, x := range b {
		s = append(s, fmt.Sprintf("%d%%N", x))
	}
	return "[" + strings.Join(s, "; ") + "]"
}

func init() {
	gen.RegisterFile("CrossVMConsts.v", func(repo string) ([]byte, []string) {
		n := func(name string, v byte) gen.Const {
			return gen.Const{Name: name, Type: "N", Value: fmt.Sprintf("%d%%N", v), Comment: "crossvm_codec." + name}
		}
		cs := []gen.Const{
			n("ByteArrayType", crossvm_codec.ByteArrayType), n("StringType", crossvm_codec.StringType),
			n("AddressType", crossvm_codec.AddressType), n("BooleanType", crossvm_codec.BooleanType),
			n("IntType", crossvm_codec.IntType), n("H256Type", crossvm_codec.H256Type),
			n("ListType", crossvm_codec.ListType), n("VERSION", crossvm_codec.VERSION),
			{Name: "MAX_PARAM_LENGTH", Type: "N", Value: fmt.Sprintf("%d%%N", crossvm_codec.MAX_PARAM_LENGTH), Comment: "crossvm_codec.MAX_PARAM_LENGTH"},
		}
		var errs []string
		if ok, desc, err := listLoopSite(repo); err != nil {
			errs = append(errs, "LIST_LOOP: "+err.Error())
			cs = append(cs, gen.Const{Name: "translator_broken_LIST_LOOP", Type: "unit", Value: "tt", Comment: err.Error()})
		} else {
			cs = append(cs, gen.Const{Name: "LIST_LOOP_USES_WIRE_COUNT", Type: "bool", Value: fmt.Sprint(ok),
				Comment: "vm/crossvm_codec/codec.go DecodeValue case ListType: " + desc + " (true iff the loop is `for i := ..; i < <wire count>; i++`)"})
		}
		site := func(pfx, file, fn string) {
			p, psrc, k, ksrc, err := prefixSite(repo, file, fn)
			if err != nil {
				errs = append(errs, pfx+": "+err.Error())
				cs = append(cs, gen.Const{Name: "translator_broken_" + pfx, Type: "unit", Value: "tt", Comment: err.Error()})
				return
			}
			cs = append(cs,
				gen.Const{Name: pfx + "_PREFIX", Type: "list N", Value: coqNList(p), Comment: fmt.Sprintf("%s %s: bytes.HasPrefix(input, %s)", file, fn, psrc)},
				gen.Const{Name: pfx + "_SKIP", Type: "nat", Value: fmt.Sprintf("%d%%nat", k), Comment: fmt.Sprintf("%s %s: %s", file, fn, ksrc)})
		}
		site("CALL", "vm/crossvm_codec/vmcall_codec.go", "DeserializeCallParam")
		site("NOTIFY", "vm/crossvm_codec/notify_codec.go", "parseNotify")
		return gen.EmitConsts("", cs), errs
	})
	hx.Register("C25", Run)
}
