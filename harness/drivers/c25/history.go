package c25

// Result-lifetime / history oracle. Every encoder output must be a pure function of its argument
// and stay what it was for as long as the caller holds it; every decoded value must stay what it
// was after later calls and (where the code copies) after the input buffer is overwritten.
// The Coq model consists of pure functions, so this is the part of "the model is the code" that a
// decode-right-after-encode oracle cannot see.

import (
	"bytes"
	"fmt"
	"math/big"
	"runtime"
	"sync"
	"time"

	"github.com/ontio/ontology/common"
	cc "github.com/ontio/ontology/vm/crossvm_codec"

	"verif/harness/hx"
)

// specEncode: the harness's own single-threaded encoder for values of the round-trip domain
// (independent of the package under test).
func specEncode(g gv) []byte {
	sized := func(tag byte, d []byte) []byte {
		return append(append([]byte{tag}, le32(uint32(len(d)))...), d...)
	}
	switch g.T {
	case "bytes":
		return sized(cc.ByteArrayType, hx.UnHex(g.H))
	case "string":
		return sized(cc.StringType, hx.UnHex(g.H))
	case "address":
		return append([]byte{cc.AddressType}, hx.UnHex(g.H)...)
	case "h256":
		return append([]byte{cc.H256Type}, hx.UnHex(g.H)...)
	case "bool":
		if g.B {
			return []byte{cc.BooleanType, 1}
		}
		return []byte{cc.BooleanType, 0}
	case "big", "int", "int64", "int32", "uint32":
		z := bigOf(g.Z)
		m := new(big.Int).Lsh(big.NewInt(1), 128)
		u := new(big.Int).Mod(z, m) // two's complement
		be := u.Bytes()
		out := make([]byte, 17)
		out[0] = cc.IntType
		for i := 0; i < len(be); i++ {
			out[1+i] = be[len(be)-1-i]
		}
		return out
	case "list":
		out := append([]byte{cc.ListType}, le32(uint32(len(g.L)))...)
		for _, e := range g.L {
			out = append(out, specEncode(e)...)
		}
		return out
	}
	panic("specEncode: value outside the domain: " + g.T)
}

// an encoder under test: returns the slice the API hands to the caller (not copied here)
type encFn struct {
	name string
	ok   func(g gv) bool
	run  func(g gv) ([]byte, error)
}

func withSink(f func(s *common.ZeroCopySink) error) ([]byte, error) {
	s := common.NewZeroCopySink(nil)
	err := f(s)
	return s.Bytes(), err
}

var encoders = []encFn{
	{"EncodeValue", func(g gv) bool { return g.inDomain(true) }, func(g gv) ([]byte, error) { return cc.EncodeValue(g.toGo()) }},
	{"EncodeList", func(g gv) bool { return g.T == "list" }, func(g gv) ([]byte, error) {
		return withSink(func(s *common.ZeroCopySink) error { return cc.EncodeList(s, g.toGo().([]interface{})) })
	}},
	{"Encode<leaf>", func(g gv) bool { return g.T != "list" && g.T != "int32" && g.T != "uint32" }, func(g gv) ([]byte, error) {
		return withSink(func(s *common.ZeroCopySink) error {
			switch v := g.toGo().(type) {
			case []byte:
				cc.EncodeBytes(s, v)
			case string:
				cc.EncodeString(s, v)
			case common.Address:
				cc.EncodeAddress(s, v)
			case common.Uint256:
				cc.EncodeH256(s, v)
			case bool:
				cc.EncodeBool(s, v)
			case *big.Int:
				return cc.EncodeBigInt(s, v)
			case int:
				cc.EncodeInt128(s, common.I128FromInt64(int64(v)))
			case int64:
				cc.EncodeInt128(s, common.I128FromInt64(v))
			}
			return nil
		})
	}},
}

// histValues: k in-domain values of mixed sizes: long after short and short after long.
func histValues(c *hx.Ctx, k int) []gv {
	var vs []gv
	for len(vs) < k {
		switch len(vs) % 6 {
		case 0: // long list
			vs = append(vs, longList([]string{"bool", "byte", "int"}[c.Intn(3)], 40+c.Intn(400), c.Intn(2) == 0))
		case 1: // short
			vs = append(vs, gv{T: "bool", B: c.Intn(2) == 0})
		case 2: // long payload
			vs = append(vs, gv{T: []string{"bytes", "string"}[c.Intn(2)], H: hx.Hex(c.Bytes(200 + c.Intn(3000)))})
		case 3:
			vs = append(vs, gv{T: "int", Z: fmt.Sprint(int64(c.U64Boundary()))})
		case 4:
			vs = append(vs, genValue(c, 3, true, false))
		default:
			vs = append(vs, gv{T: "list", L: []gv{genValue(c, 2, false, false), {T: "string", H: hx.Hex(c.Bytes(c.Intn(40)))}}})
		}
	}
	return vs
}

type histIn struct {
	Kind    string `json:"kind"` // hist
	Encoder string `json:"encoder"`
	Seq     []gv   `json:"seq"`
}

// runSeq encodes vs in order with e, keeping every returned slice and a private copy.
func runSeq(e encFn, vs []gv) (kept, copies [][]byte, errs []error) {
	for _, v := range vs {
		out, err := e.run(v)
		kept = append(kept, out)
		copies = append(copies, append([]byte{}, out...))
		errs = append(errs, err)
	}
	return
}

func decodeIs(b []byte, want nv) (bool, string) {
	src := common.NewZeroCopySource(b)
	var val interface{}
	var err error
	p, msg := hx.Recover(func() { val, err = cc.DecodeValue(src) })
	if p {
		return false, "panic: " + msg
	}
	got, ok := fromGo(val)
	if err != nil || !ok || !got.eq(want) || src.Len() != 0 {
		return false, fmt.Sprintf("decoded %#v err=%v left=%d", val, err, src.Len())
	}
	return true, ""
}

// histBatch: one batch through one encoder; returns false after reporting a failure.
func histBatch(c *hx.Ctx, e encFn, all []gv, emit bool) bool {
	var vs []gv
	for _, v := range all {
		if e.ok(v) {
			vs = append(vs, v)
		}
	}
	c.Eval()
	c.Count(fmt.Sprintf("hist:%s:batch", e.name))
	kept, copies, errs := runSeq(e, vs)
	good := true
	for i, v := range vs {
		in := histIn{Kind: "hist", Encoder: e.name, Seq: []gv{v}}
		if errs[i] != nil {
			c.Fail("roundtrip", e.name+" refused a value of the codec's domain", in, errs[i].Error(), nil)
			good = false
			continue
		}
		spec := specEncode(v)
		if !bytes.Equal(copies[i], spec) {
			c.Fail("encode:not-spec", e.name+" did not return the encoding of its argument (copy taken immediately after the call)", in, hx.Hex(copies[i]), hx.Hex(spec))
			good = false
			continue
		}
		if !bytes.Equal(kept[i], copies[i]) {
			a, b, before, after := findPair(e, vs, i)
			ok, how := decodeIs(after, a.norm())
			c.Fail("encode:result-aliased", e.name+": bytes returned for a changed after a later call "+e.name+"(b) (the result is not the caller's own)",
				histIn{Kind: "hist", Encoder: e.name, Seq: []gv{a, b}},
				map[string]interface{}{"a_bytes_when_returned": hx.Hex(before), "a_bytes_after_encoding_b": hx.Hex(after), "a_bytes_still_decode_to_a": ok, "decode": how,
					"position_in_batch": i, "batch_size": len(vs)},
				"the slice returned for a is unchanged by later calls")
			good = false
			break
		}
		if ok, how := decodeIs(kept[i], v.norm()); !ok {
			c.Fail("roundtrip", "bytes kept from "+e.name+" no longer decode to the value after the batch", in, how, v.norm().String())
			good = false
		}
	}
	// the kept slices (not the copies) are what the correspondence sees for EncodeValue
	if emit && e.name == "EncodeValue" {
		for i, v := range vs {
			if errs[i] == nil && len(kept[i]) <= 400 {
				c.Case(fmt.Sprintf("CEnc (%s) true (EOk %s)", v.coq(), hx.CoqBytes(kept[i])), decIn{Kind: "enc", Val: &vs[i]})
			}
		}
	}
	if good {
		c.Nontrivial(fmt.Sprintf("h%s%d%s", e.name, len(vs), hx.Hex(copies[len(copies)-1][:1])))
	}
	return good
}

// findPair reduces "slice i changed during the batch" to a concrete pair (a, b): encode a, keep
// the result, encode b, compare. A garbage collection between the two calls can empty a pool and
// mask one occurrence, so every candidate is tried a few times.
func findPair(e encFn, vs []gv, i int) (a, b gv, before, after []byte) {
	// smallest first: a short string then a boolean, then a followed by a boolean
	small := [][2]gv{{{T: "string", H: hx.Hex([]byte("hello"))}, {T: "bool", B: true}}, {vs[i], {T: "bool", B: true}}}
	for try := 0; try < 5; try++ {
		for _, p := range small {
			if !e.ok(p[0]) || !e.ok(p[1]) {
				continue
			}
			out, _ := e.run(p[0])
			cp := append([]byte{}, out...)
			e.run(p[1])
			if !bytes.Equal(out, cp) {
				return p[0], p[1], cp, append([]byte{}, out...)
			}
		}
	}
	a = vs[i]
	for try := 0; try < 5; try++ {
		for j := i + 1; j < len(vs); j++ {
			out, _ := e.run(a)
			cp := append([]byte{}, out...)
			e.run(vs[j])
			if !bytes.Equal(out, cp) {
				return a, vs[j], cp, append([]byte{}, out...)
			}
		}
	}
	// not reproduced as a pair: report the batch neighbour
	b = a
	if i+1 < len(vs) {
		b = vs[i+1]
	}
	return a, b, nil, nil
}

// histDecode: decoded values must not change when later inputs are decoded, nor (where the code
// copies: everything except the byte-array case, which returns a sub-slice of the input by
// design) when the input buffer is overwritten afterwards.
func histDecode(c *hx.Ctx, vs []gv) {
	c.Eval()
	c.Count("hist:decode:batch")
	type rec struct {
		in   []byte
		val  interface{}
		snap nv
	}
	var recs []rec
	for _, v := range vs {
		in := specEncode(v)
		val, err := cc.DecodeValue(common.NewZeroCopySource(in))
		snap, ok := fromGo(val)
		if err != nil || !ok {
			c.Fail("roundtrip", "DecodeValue refused the encoding of a value of the domain", histIn{Kind: "hist", Encoder: "DecodeValue", Seq: []gv{v}}, fmt.Sprint(err), nil)
			return
		}
		recs = append(recs, rec{in, val, snap})
	}
	for i, r := range recs {
		now, ok := fromGo(r.val)
		if !ok || !now.eq(r.snap) {
			c.Fail("decode:result-aliased", "a value returned by DecodeValue changed when later inputs were decoded", histIn{Kind: "hist", Encoder: "DecodeValue", Seq: vs[i:]}, fmt.Sprintf("%#v", r.val), r.snap.String())
			return
		}
	}
	for i, r := range recs {
		for k := range r.in {
			r.in[k] ^= 0xa5
		}
		now, ok := fromGo(r.val)
		if !ok || !maskBytes(now).eq(maskBytes(r.snap)) {
			c.Fail("decode:result-aliased", "a decoded string / address / hash / integer / boolean / list shape changed when the input buffer was overwritten after decoding",
				histIn{Kind: "hist", Encoder: "DecodeValue", Seq: []gv{vs[i]}}, fmt.Sprintf("%#v", r.val), r.snap.String())
			return
		}
		if !now.eq(r.snap) {
			c.Count("hist:decode:byte-array-shares-input(by design)")
		}
	}
	// DeserializeNotify renders into fresh strings
	for i, v := range vs {
		in := append(append([]byte{}, evt...), specEncode(v)...)
		out := cc.DeserializeNotify(in)
		for k := range in {
			in[k] ^= 0x5a
		}
		if !renderEq(out, v.norm().render()) {
			c.Fail("decode:result-aliased", "the rendering returned by DeserializeNotify changed when the input buffer was overwritten", histIn{Kind: "hist", Encoder: "DeserializeNotify", Seq: []gv{vs[i]}}, fmt.Sprintf("%#v", out), fmt.Sprintf("%#v", v.norm().render()))
			return
		}
	}
}

// maskBytes blanks the content (not the length) of byte-array leaves.
func maskBytes(n nv) nv {
	switch n.T {
	case "bytes":
		return nv{T: "bytes", D: make([]byte, len(n.D))}
	case "list":
		l := make([]nv, 0, len(n.L))
		for _, e := range n.L {
			l = append(l, maskBytes(e))
		}
		return nv{T: "list", L: l}
	}
	return n
}

// histConcurrent: 4 goroutines encode different values in parallel for at most `bound`; every
// result is compared with the single-threaded spec encoding, right away and again after the
// goroutine's next call.
func histConcurrent(c *hx.Ctx, vs []gv, bound time.Duration) {
	c.Eval()
	c.Count("hist:concurrent")
	const G = 4
	type job struct {
		v    gv
		spec []byte
	}
	var sets [G][]job
	n := 0
	for _, v := range vs {
		if v.inDomain(true) {
			sets[n%G] = append(sets[n%G], job{v, specEncode(v)})
			n++
		}
	}
	type bad struct {
		a, b   gv
		got    []byte
		want   []byte
		clause string
	}
	var mu sync.Mutex
	var first *bad
	deadline := time.Now().Add(bound)
	var wg sync.WaitGroup
	calls := make([]int, G)
	for g := 0; g < G; g++ {
		if len(sets[g]) == 0 {
			continue
		}
		wg.Add(1)
		go func(g int) {
			defer wg.Done()
			defer func() {
				if r := recover(); r != nil {
					mu.Lock()
					if first == nil {
						first = &bad{clause: fmt.Sprint("panic: ", r)}
					}
					mu.Unlock()
				}
			}()
			var prev []byte
			var prevJob job
			for it := 0; time.Now().Before(deadline) && it < 100; it++ {
				for _, j := range sets[g] {
					out, err := cc.EncodeValue(j.v.toGo())
					calls[g]++
					var b *bad
					switch {
					case err != nil:
						b = &bad{a: j.v, b: j.v, clause: "error: " + err.Error()}
					case !bytes.Equal(out, j.spec):
						b = &bad{a: j.v, b: j.v, got: append([]byte{}, out...), want: j.spec, clause: "result differs from the spec encoding while other goroutines encode"}
					case prev != nil && !bytes.Equal(prev, prevJob.spec):
						b = &bad{a: prevJob.v, b: j.v, got: append([]byte{}, prev...), want: prevJob.spec, clause: "result of the previous call changed after this goroutine's next call"}
					}
					if b != nil {
						mu.Lock()
						if first == nil {
							first = b
						}
						mu.Unlock()
						return
					}
					prev, prevJob = out, j
					runtime.Gosched()
				}
			}
		}(g)
	}
	done := make(chan struct{})
	go func() { wg.Wait(); close(done) }()
	select {
	case <-done:
	case <-time.After(bound + 5*time.Second):
		c.Fail("encode:concurrent", "concurrent EncodeValue calls did not finish within the time bound", histIn{Kind: "hist", Encoder: "EncodeValue/concurrent"}, "timeout", nil)
		return
	}
	total := 0
	for _, k := range calls {
		total += k
	}
	if time.Now().Before(deadline) {
		c.Count(fmt.Sprintf("hist:concurrent:calls=%d", total)) // all iterations done within the bound
	} else {
		c.Count("hist:concurrent:stopped-by-time-bound")
	}
	if first != nil {
		c.Fail("encode:concurrent", "EncodeValue from 4 goroutines: "+first.clause, histIn{Kind: "hist", Encoder: "EncodeValue/concurrent", Seq: []gv{first.a, first.b}},
			hx.Hex(first.got), hx.Hex(first.want))
	}
}

// history runs the family; rounds of fresh batches make a masked occurrence (GC emptying a pool)
// irrelevant.
func history(c *hx.Ctx) {
	rounds := c.N(6, 40)
rounds:
	for r := 0; r < rounds; r++ {
		vs := histValues(c, 50+c.Intn(51))
		for _, e := range encoders {
			if !histBatch(c, e, vs, r == 0) {
				break rounds // one concrete pair is enough; the concurrent variant still runs
			}
		}
		histDecode(c, vs)
	}
	histConcurrent(c, histValues(c, 48), time.Duration(c.N(1500, 6000))*time.Millisecond)
}

func replayHist(c *hx.Ctx, h histIn) {
	for _, e := range encoders {
		if e.name == h.Encoder || h.Encoder == "EncodeValue/concurrent" && e.name == "EncodeValue" {
			for try := 0; try < 5; try++ {
				if !histBatch(c, e, h.Seq, false) {
					return
				}
			}
		}
	}
	if h.Encoder == "DecodeValue" || h.Encoder == "DeserializeNotify" {
		histDecode(c, h.Seq)
	}
}
