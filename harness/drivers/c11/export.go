package c11

// Exported facade used by the C10 driver (fee split on states produced by governance
// histories): the same world, generator and decoder as C11.

import (
	"fmt"
	"sort"

	"github.com/ontio/ontology/common"
	"github.com/ontio/ontology/core/types"
	"github.com/ontio/ontology/smartcontract"
	sctx "github.com/ontio/ontology/smartcontract/context"
	"github.com/ontio/ontology/smartcontract/service/native"
	gov "github.com/ontio/ontology/smartcontract/service/native/governance"
	"github.com/ontio/ontology/smartcontract/storage"

	"verif/harness/hx"
)

type (
	World       = world
	Obs         = obs
	PeerObs     = peerObs
	InfoObs     = infoObs
	KV          = kv
	Op          = op
	Setup       = setup
	History     = history
	GenesisPeer = genesisPeer
)

const (
	NAddr   = nAddr
	NPeer   = nPeer
	IDGov   = idGov
	IDAdmin = idAdmin
)

func NewWorld(c *hx.Ctx) *World               { return newWorld(c) }
func (w *world) Genesis(st *Setup) error      { return w.genesis(st) }
func (w *world) Apply(o *Op) (string, string) { return w.apply(o) }
func (w *world) Observe() (*Obs, error)       { return w.observe() }
func AddrOf(id int) common.Address            { return addrOf(id) }
func KeyOf(id int) string                     { return keyOf(id) }
func IDOfAddr(a common.Address) int           { return idOfAddr(a) }
func IDOfKey(k string) int                    { return idOfKey(k) }
func (o *Obs) CoqPool(ps []PeerObs) string {
	var items []string
	for _, p := range ps {
		items = append(items, fmt.Sprintf("mkPeer %d %d %d %d %d", p.Peer, p.Owner, p.Status, p.Init, p.Total))
	}
	return hx.CoqList(items)
}
func (o *Obs) CoqInfos() string {
	var items []string
	for _, i := range o.Infos {
		items = append(items, fmt.Sprintf("mkInfo %d %d %d %d %d %d %d %d", i.Peer, i.Addr, i.B[0], i.B[1], i.B[2], i.B[3], i.B[4], i.B[5]))
	}
	return hx.CoqList(items)
}

// GenSplitHistory generates (and executes on a private world) a governance history that starts
// after seven epochs and sets fee percentages now and then.
func GenSplitHistory(c *hx.Ctx, i int) *History {
	g := newGen(c, i)
	g.split = true
	return g.generate()
}

// WithNative runs f with a native service whose current context is the governance contract, on
// a fresh cache over the committed store; the cache is dropped afterwards (nothing is committed).
func (w *world) WithNative(height, time uint32, f func(ns *native.NativeService)) (panicked bool, msg string) {
	cache := storage.NewCacheDB(w.overlay)
	sc := &smartcontract.SmartContract{
		Config:  &smartcontract.Config{Time: time, Height: height, Tx: &types.Transaction{}},
		CacheDB: cache,
		Gas:     1 << 60,
	}
	sc.PushContext(&sctx.Context{ContractAddress: govC})
	ns, err := sc.NewNativeService()
	if err != nil {
		panic(err)
	}
	w.c.Eval()
	return hx.Recover(func() { f(ns) })
}

// SetOng writes the ONG balance (in 10^-9 ONG) of an address directly (ONG is outside the models).
func (w *world) SetOng(id int, units uint64) {
	cache := storage.NewCacheDB(w.overlay)
	cache.Put(ongBalanceKey(id), ongBalanceBytes(units))
	cache.Commit()
}

// Costs returns peer -> (TPeerCost, TStakeCost) of the stored peer attributes.
func (w *world) Costs() (out [][3]uint64, err error) {
	for _, e := range w.raw(govC, []byte(gov.PEER_ATTRIBUTES)) {
		val, err := rawValue(e[1])
		if err != nil {
			return nil, err
		}
		var pa gov.PeerAttributes
		if err := pa.Deserialization(common.NewZeroCopySource(val)); err != nil {
			return nil, err
		}
		out = append(out, [3]uint64{uint64(idOfKey(pa.PeerPubkey)), pa.TPeerCost, pa.TStakeCost})
	}
	sort.Slice(out, func(i, j int) bool { return out[i][0] < out[j][0] })
	return out, nil
}

// Invoke runs one native call as its own transaction signed by the given address ids.
func (w *world) Invoke(contract common.Address, method string, args []byte, signers []int, height, time uint32) error {
	_, err, _ := w.invoke(&call{contract, method, args, signers, height, time})
	return err
}

// GlobalParam decodes the stored GlobalParam record.
func (w *world) GlobalParam() (*gov.GlobalParam, error) {
	for _, e := range w.raw(govC, []byte(gov.GLOBAL_PARAM)) {
		if len(e[0]) != len(gov.GLOBAL_PARAM) {
			continue
		}
		val, err := rawValue(e[1])
		if err != nil {
			return nil, err
		}
		gp := new(gov.GlobalParam)
		if err := gp.Deserialization(common.NewZeroCopySource(val)); err != nil {
			return nil, err
		}
		return gp, nil
	}
	return nil, fmt.Errorf("no GlobalParam record")
}
