package c11

import (
	"fmt"
	"os"

	"verif/harness/hx"
)

func init() { hx.Register("C11", Run) }

func Run(c *hx.Ctx) {
	c.CoqModule("Corr.C11")
	if os.Getenv("C11_SMOKE") != "" {
		smoke(c)
		return
	}
}

func smoke(c *hx.Ctx) {
	w := newWorld(c)
	st := &setup{Funded: true, Bal: map[int]uint64{5: 200000, 6: 100000, 7: 100000, 8: 50000, 9: 50000, 10: 50000}, Height0: 3000000, Time0: 1530316800 + 1000}
	for i := 1; i <= 7; i++ {
		st.Peers = append(st.Peers, genesisPeer{Peer: i, Owner: 3 + i%2, Init: uint64(10000 + 1000*i)})
	}
	if err := w.genesis(st); err != nil {
		fmt.Println("genesis:", err)
		return
	}
	show := func() {
		o, err := w.observe()
		fmt.Println(err, o.coq())
	}
	show()
	h := uint32(3000001)
	t := st.Time0
	run := func(o op) {
		h++
		t += 10
		o.Height, o.Time = h, t
		r, e := w.apply(&o)
		fmt.Println(o.Kind, r, e)
	}
	run(op{Kind: "register", Signer: 5, Addr: 5, Peer: 8, Amount: 30000})
	run(op{Kind: "maxauth", Signer: 5, Addr: 5, Peer: 8, Amount: 100000})
	run(op{Kind: "authorize", Signer: 8, Addr: 8, Peers: []int{8}, Pos: []uint32{1000}})
	run(op{Kind: "authorize", Signer: 8, Addr: 8, Peers: []int{1}, Pos: []uint32{1000}})
	run(op{Kind: "commit", Signer: 1})
	show()
	run(op{Kind: "unauthorize", Signer: 8, Addr: 8, Peers: []int{8}, Pos: []uint32{500}})
	run(op{Kind: "commit", Signer: 1})
	run(op{Kind: "commit", Signer: 1})
	run(op{Kind: "withdraw", Signer: 8, Addr: 8, Peers: []int{8}, Pos: []uint32{500}})
	run(op{Kind: "black", Signer: 1, Peers: []int{8}})
	run(op{Kind: "commit", Signer: 1})
	run(op{Kind: "quit", Signer: 4, Addr: 4, Peer: 1})
	run(op{Kind: "approve", Signer: 1, Peer: 9})
	show()
}
