// Package c11: governance stake accounting (C11).
//
// Generated histories of governance transactions (register / approve / reject / authorize /
// unauthorize / withdraw / quit / black / white / commitDpos / changeMaxAuthorization /
// add+reduceInitPos / transferPenalty, including invalid ones) are executed through the real
// native contracts (governance, ont, ong, auth, global_params) over an in-memory store.  After
// every transaction the stored records are decoded; (a) the ORACLE evaluates the property
// directly on them, (b) the history is written as a correspondence case for Model/Gov.v.
package c11

import (
	"crypto/sha256"
	"encoding/json"
	"fmt"
	"os"
	"strings"

	"verif/harness/hx"
)

func init() { hx.Register("C11", Run) }

type history struct {
	Setup setup `json:"setup"`
	Ops   []op  `json:"ops"`
}

type stepOut struct {
	Res string
	Err string
	Obs *obs
}

// ---------------------------------------------------------------- oracle

type acct struct {
	gap0      int64 // balance(gov) - sum(stakes) - sum(penalties) right after genesis
	deposited map[int]uint64
	withdrawn map[int]uint64
}

func sumStakes(o *obs) (s uint64) {
	for _, e := range o.Stakes {
		s += e.V
	}
	return
}
func sumPens(o *obs) (s uint64) {
	for _, e := range o.Pens {
		s += e.Init + e.Auth
	}
	return
}
func balOf(o *obs, id int) uint64 {
	for _, e := range o.Bal {
		if e.K == id {
			return e.V
		}
	}
	return 0
}
func stakeOf(o *obs, id int) uint64 {
	for _, e := range o.Stakes {
		if e.K == id {
			return e.V
		}
	}
	return 0
}
func gapOf(o *obs) int64 { return int64(balOf(o, idGov)) - int64(sumStakes(o)) - int64(sumPens(o)) }

// checkState evaluates the state clauses of the property on decoded storage.
func checkState(c *hx.Ctx, h *history, upto int, o *obs, a *acct) {
	in := &history{Setup: h.Setup, Ops: h.Ops[:upto]}
	if o.Frac {
		c.Fail("inv:fractional-balance", "an ONT balance touched by governance is not a whole number", in, nil, nil)
	}
	if g := gapOf(o); g != a.gap0 {
		c.Fail("inv:balance-vs-stakes", "ONT balance of governance = sum of total stakes + penalty stakes (difference must stay what it was after genesis)",
			in, map[string]interface{}{"balance": balOf(o, idGov), "stakes": sumStakes(o), "penalties": sumPens(o)}, a.gap0)
	}
	// pool_pos_consistent: per peer, sum of the authorizers' Consensus+Candidate+New = TotalPos
	act := map[int]uint64{}
	all6 := map[int]uint64{}
	for _, i := range o.Infos {
		act[i.Peer] += i.B[0] + i.B[1] + i.B[2]
		all6[i.Addr] += i.B[0] + i.B[1] + i.B[2] + i.B[3] + i.B[4] + i.B[5]
	}
	inPool := map[int]bool{}
	owned := map[int]uint64{}
	for _, p := range o.Pool {
		inPool[p.Peer] = true
		owned[p.Owner] += p.Init
		if act[p.Peer] != p.Total {
			c.Fail("inv:pool-pos", "TotalPos of a peer = sum over authorizers of Consensus+Candidate+New positions", in,
				map[string]interface{}{"peer": p.Peer, "totalPos": p.Total, "sum": act[p.Peer]}, nil)
		}
	}
	for k, v := range act {
		if !inPool[k] && v != 0 {
			c.Fail("inv:pool-pos", "a peer outside the pool has active positions", in, map[string]interface{}{"peer": k, "sum": v}, 0)
		}
	}
	// hypothesis (H2) of C10, evaluated here on every state of every history: for each candidate of
	// the previous view's pool, the validate positions of its authorizers (owner excluded) fit into
	// the TotalPos frozen in that pool
	curStatus := map[int]int{}
	for _, p := range o.Pool {
		curStatus[p.Peer] = p.Status
	}
	for _, p := range o.Prev {
		if p.Status != 1 && p.Status != 2 {
			continue
		}
		cs := p.Status == 2 || curStatus[p.Peer] == 2
		var sum uint64
		for _, i := range o.Infos {
			if i.Peer != p.Peer || i.Addr == p.Owner {
				continue
			}
			if cs {
				sum += i.B[0] + i.B[3]
			} else {
				sum += i.B[1] + i.B[4]
			}
		}
		if sum > p.Total {
			c.Fail("inv:validatepos-exceeds-prev-totalpos", "fee-split hypothesis: the authorizers' validate positions of a peer exceed its TotalPos in the previous view's pool", in,
				map[string]interface{}{"peer": p.Peer, "sum": sum, "prevTotalPos": p.Total, "consensus_side": cs}, nil)
		}
		c.Count("h2-evaluated")
	}
	// per-address accounting: total stake = all position buckets + initPos of owned peers
	for id := 0; id < nAddr; id++ {
		if stakeOf(o, id) != all6[id]+owned[id] {
			c.Fail("inv:address-accounting", "total stake of an address = its positions in all buckets + initPos of the peers it owns", in,
				map[string]interface{}{"addr": id, "stake": stakeOf(o, id), "positions": all6[id], "initPos": owned[id]}, nil)
		}
	}
}

// checkStep evaluates the transition clauses (withdraw bounds, failed calls change nothing).
func checkStep(c *hx.Ctx, h *history, idx int, pre, post *obs, res string, a *acct) {
	in := &history{Setup: h.Setup, Ops: h.Ops[:idx+1]}
	o := &h.Ops[idx]
	if res == "RPanic" {
		c.Fail("panic", "a governance transaction panicked", in, nil, nil)
	}
	if res != "ROk" {
		pj, _ := json.Marshal(pre)
		qj, _ := json.Marshal(post)
		if string(pj) != string(qj) {
			c.Fail("failed-call-changed-state", "a failing transaction changed stored records", in, nil, nil)
		}
		return
	}
	for id := 3; id < nAddr; id++ {
		b0, b1 := balOf(pre, id), balOf(post, id)
		if b1 > b0 {
			got := b1 - b0
			a.withdrawn[id] += got
			// money may only leave governance through withdraw (to its owner) or transferPenalty
			if o.Kind == "withdraw" && id == o.Addr {
				var unf, req uint64
				for i, k := range o.Peers {
					if i < len(o.Pos) {
						req += uint64(o.Pos[i])
					}
					seen := false
					for _, kk := range o.Peers[:i] {
						seen = seen || kk == k
					}
					if seen {
						continue
					}
					for _, inf := range pre.Infos {
						if inf.Peer == k && inf.Addr == id {
							unf += inf.B[5]
						}
					}
				}
				if got != req || got > unf || got > stakeOf(pre, id) {
					c.Fail("withdraw:over-unfrozen", "a withdrawal pays exactly the requested amount, at most the unfrozen positions and at most the total stake", in,
						map[string]interface{}{"paid": got, "requested": req, "unfrozen": unf, "stake": stakeOf(pre, id)}, nil)
				}
			} else if o.Kind != "penalty" {
				c.Fail("ont-left-governance", "ONT reached an address outside withdraw/transferPenalty", in, map[string]interface{}{"addr": id, "amount": got}, nil)
			}
			if o.Kind != "penalty" && a.withdrawn[id] > a.deposited[id] {
				c.Fail("withdraw:over-deposited", "an address withdrew more ONT than it deposited", in,
					map[string]interface{}{"addr": id, "withdrawn": a.withdrawn[id], "deposited": a.deposited[id]}, nil)
			}
		} else if b0 > b1 {
			a.deposited[id] += b0 - b1
		}
	}
}

// ---------------------------------------------------------------- running a history

func coqParams(st *setup) string {
	return fmt.Sprintf("(mkParams %d 7 100000 INIT_CandidateNum 10000 INIT_PosLimit INIT_Penalty DEFAULT_MIN_AUTHORIZE_POS SELFGOV_REGISTER_MAINNET)", idAdmin)
}

func runHistory(c *hx.Ctx, h *history, emit bool) (results []string) {
	w := newWorld(c)
	if err := w.genesis(&h.Setup); err != nil {
		c.Fail("genesis-failed", "genesis calls failed: "+err.Error(), h, nil, nil)
		return
	}
	o0, err := w.observe()
	if err != nil {
		c.Fail("decode-failed", "stored records do not decode: "+err.Error(), h, nil, nil)
		return
	}
	a := &acct{gap0: gapOf(o0), deposited: map[int]uint64{}, withdrawn: map[int]uint64{}}
	for _, p := range h.Setup.Peers { // genesis stakes count as deposits of the owners
		a.deposited[p.Owner] += p.Init
	}
	checkState(c, h, 0, o0, a)
	var steps []string
	pre := o0
	var sig strings.Builder
	for i := range h.Ops {
		o := &h.Ops[i]
		res, etext := w.apply(o)
		post, err := w.observe()
		if err != nil {
			c.Fail("decode-failed", "stored records do not decode: "+err.Error(), &history{h.Setup, h.Ops[:i+1]}, nil, nil)
			return
		}
		c.Count("op:" + o.Kind)
		c.Count("res:" + res)
		c.Count("op-res:" + o.Kind + ":" + res)
		if res == "EOther" || res == "RPanic" {
			c.Count("unclassified:" + etext)
			c.Fail("unclassified-error", "the implementation failed in a way the model has no class for: "+etext, &history{h.Setup, h.Ops[:i+1]}, res, nil)
		}
		checkStep(c, h, i, pre, post, res, a)
		checkState(c, h, i+1, post, a)
		results = append(results, res)
		coqRes := res
		if res == "EOther" || res == "RPanic" {
			coqRes = "ROk" // has no model counterpart; reported by the oracle above
		}
		if (i+1)%8 == 0 || i == len(h.Ops)-1 {
			steps = append(steps, fmt.Sprintf("mkStep %d %s %s true false [] %s", o.Height, o.coq(), coqRes, post.coq()))
		} else {
			d, del, pchg := diff(pre, post)
			var dl []string
			for _, k := range del {
				dl = append(dl, fmt.Sprint(k))
			}
			steps = append(steps, fmt.Sprintf("mkStep %d %s %s false %s %s %s", o.Height, o.coq(), coqRes, hx.CoqBool(pchg), hx.CoqList(dl), d.coq()))
		}
		fmt.Fprintf(&sig, "%s:%s;", o.Kind, res)
		pre = post
	}
	if emit {
		var peers, ont []string
		for _, p := range h.Setup.Peers {
			peers = append(peers, fmt.Sprintf("(%d, %d, %d)", p.Peer, p.Owner, p.Init))
		}
		for _, e := range o0.Bal {
			ont = append(ont, fmt.Sprintf("(%d, %d)", e.K, e.V))
		}
		term := fmt.Sprintf("CHist %s %d %s %s %s %s", coqParams(&h.Setup), h.Setup.Height0, hx.CoqList(peers), hx.CoqList(ont), o0.coq(), hx.CoqList(steps))
		c.Case(term, h)
		sum := sha256.Sum256([]byte(sig.String()))
		ok := 0
		for _, r := range results {
			if r == "ROk" {
				ok++
			}
		}
		if ok >= 5 {
			c.Nontrivial(fmt.Sprintf("%x", sum[:8]))
		}
	}
	return
}

func Run(c *hx.Ctx) {
	c.CoqModule("Corr.C11")
	if os.Getenv("C11_SMOKE") != "" {
		smoke(c)
		return
	}
	var h history
	if c.ReplayInput(&h) {
		runHistory(c, &h, true)
		return
	}
	for _, raw := range c.CorpusInputs() {
		var ch history
		if json.Unmarshal(raw, &ch) == nil {
			runHistory(c, &ch, true)
			c.Count("corpus")
		}
	}
	// deterministic probes
	for _, ph := range probes() {
		runHistory(c, ph, true)
		c.Count("probe")
	}
	n := c.N(36, 400)
	for i := 0; i < n; i++ {
		g := newGen(c, i)
		hh := g.generate()
		res := runHistory(c, hh, true)
		if i < 2 {
			var short []string
			for j, o := range hh.Ops {
				if j < 25 {
					short = append(short, fmt.Sprintf("%s->%s", o.Kind, res[j]))
				}
			}
			c.Sample(map[string]interface{}{"regime": g.regime, "first_ops": short})
		}
	}
}

func smoke(c *hx.Ctx) {
	for pi, h := range probes() {
		res := runHistory(c, h, true)
		for i, o := range h.Ops {
			fmt.Printf("probe %d: %-11s %s\n", pi+1, o.Kind, res[i])
		}
	}
}
